(* C06 - identifier quoting.  Executable model of sql/compiler.py IdentifierPreparer
   (_requires_quotes, _requires_quotes_illegal_chars, _escape_identifier, _unescape_identifier,
   quote_identifier, quote, format_table / format_column joining, _r_identifiers + unformat_identifiers)
   over a per-dialect table [prep] that the translator regenerates from the source on every run, and the
   SPEC side: a backend identifier lexer [lex_ident] (bare identifier unless keyword / delimited
   identifier whose closing quote is escaped by doubling) with the backend's case folding.
   Strings are lists of code points.  Definitions only; proofs are in IdentProofs.v. *)
From Coq Require Import List NArith Bool.
Import ListNotations.
Open Scope N_scope.

Definition str := list N.

Definition dot : N := 46.   (* "." *)
Definition pct : N := 37.   (* "%" *)
Definition nl : N := 10.    (* "\n" *)

Fixpoint str_eqb (a b : str) : bool :=
  match a, b with
  | [], [] => true
  | x :: a', y :: b' => N.eqb x y && str_eqb a' b'
  | _, _ => false
  end.
Definition memN (c : N) (l : list N) : bool := existsb (N.eqb c) l.
Definition mem_str (s : str) (l : list str) : bool := existsb (str_eqb s) l.

(* a character class as a list of inclusive code point ranges *)
Definition in_ranges (rs : list (N * N)) (c : N) : bool :=
  existsb (fun r => N.leb (fst r) c && N.leb c (snd r)) rs.

(* ------------------------------------------------------------------------------------------- *)
(* the per-dialect table (T1: regenerated from the source on every run)                          *)
Record prep := {
  p_reserved : list str;            (* reserved_words *)
  p_legal : list (N * N);           (* the class C of legal_characters = re.compile("^[C]+$", flags),
                                       measured with the flags applied (re.I adds U+0130 U+0131 U+017F U+212A) *)
  p_illegal_initial : list N;       (* illegal_initial_characters *)
  p_lower : list (N * str);         (* str.lower() of every character of C that it changes *)
  p_iq : N;                         (* initial_quote *)
  p_fq : N;                         (* final_quote *)
  p_esc : N;                        (* the character _escape_identifier doubles (escape_quote, "]" for MSSQL) *)
  p_unesc : N;                      (* the character whose doubled form _unescape_identifier collapses *)
  p_esc_pct : bool                  (* _escape_identifier also doubles "%" (_double_percents, generic method) *)
}.

(* Python exceptions are result values *)
Inductive res (A : Type) : Type := Ok (a : A) | RaiseIndexError.
Arguments Ok {A} a.
Arguments RaiseIndexError {A}.

(* ------------------------------------------------------------------------------------------- *)
(* str.lower(), exact on strings over the class C (per character there); elsewhere it only has to be
   *some* function: _requires_quotes returns True for such strings whatever lower() gives
   (lemma requires_quotes_not_legal) *)
Fixpoint assoc_lower (t : list (N * str)) (c : N) : str :=
  match t with
  | [] => [c]
  | (k, v) :: r => if N.eqb k c then v else assoc_lower r c
  end.
Definition lower (p : prep) (s : str) : str := flat_map (assoc_lower (p_lower p)) s.

(* legal_characters.match(value) for the pattern ^[C]+\Z : one or more characters of C up to the end of
   the string (fix 67008c4; the former "$" anchor also matched before one final newline) *)
Definition all_legal (p : prep) (s : str) : bool :=
  match s with [] => false | _ => forallb (in_ranges (p_legal p)) s end.
Definition legal_match (p : prep) (s : str) : bool := all_legal p s.

(* _requires_quotes: the four disjuncts in source order; value[0] raises IndexError on "" *)
Definition requires_quotes (p : prep) (v : str) : res bool :=
  let lc := lower p v in
  if mem_str lc (p_reserved p) then Ok true
  else match v with
       | [] => RaiseIndexError
       | c :: _ =>
           Ok (memN c (p_illegal_initial p) || negb (legal_match p v) || negb (str_eqb lc v))
       end.

Definition requires_quotes_illegal_chars (p : prep) (v : str) : bool := negb (legal_match p v).

(* value.replace(c, c*2) *)
Definition double (c : N) (s : str) : str :=
  flat_map (fun x => if N.eqb x c then [c; c] else [x]) s.
(* value.replace(c*2, c): left to right, non overlapping *)
Fixpoint undouble (c : N) (s : str) : str :=
  match s with
  | [] => []
  | x :: r =>
      if N.eqb x c then
        match r with
        | y :: r' => if N.eqb y c then c :: undouble c r' else x :: undouble c r
        | [] => [x]
        end
      else x :: undouble c r
  end.

Definition escape_identifier (p : prep) (v : str) : str :=
  let v1 := double (p_esc p) v in
  if p_esc_pct p then double pct v1 else v1.
Definition unescape_identifier (p : prep) (v : str) : str := undouble (p_unesc p) v.

Definition quote_identifier (p : prep) (v : str) : str :=
  p_iq p :: escape_identifier p v ++ [p_fq p].

(* quote(ident): force = getattr(ident, "quote", None) ; the _strings memo is transparent *)
Definition quote_force (p : prep) (force : option bool) (v : str) : res str :=
  match force with
  | None => match requires_quotes p v with
            | Ok true => Ok (quote_identifier p v)
            | Ok false => Ok v
            | RaiseIndexError => RaiseIndexError
            end
  | Some true => Ok (quote_identifier p v)
  | Some false => Ok v
  end.
Definition quote (p : prep) (v : str) : res str := quote_force p None v.

(* format_table(table) with table.schema = schema: "if ... and effective_schema" is truthiness,
   the table name is quoted first (so its IndexError comes first) *)
Definition format_table (p : prep) (schema : option str) (name : str) : res str :=
  match quote p name with
  | RaiseIndexError => RaiseIndexError
  | Ok r =>
      match schema with
      | Some (c :: s') =>
          match quote p (c :: s') with
          | Ok qs => Ok (qs ++ dot :: r)
          | RaiseIndexError => RaiseIndexError
          end
      | _ => Ok r
      end
  end.
(* format_column(column, use_table=True, use_schema=True) = format_table(...) + "." + quote(name) *)
Definition format_column (p : prep) (schema : option str) (tname cname : str) : res str :=
  match format_table p schema tname with
  | RaiseIndexError => RaiseIndexError
  | Ok t => match quote p cname with
            | Ok c => Ok (t ++ dot :: c)
            | RaiseIndexError => RaiseIndexError
            end
  end.

(* format_index(index) -> format_constraint -> truncate_and_render_index_name -> quote(name), for a plain
   string name no longer than the dialect's max_identifier_length (validate_identifier passes) *)
Definition format_index (p : prep) (iname : str) : res str := quote p iname.

(* DDLCompiler._prepared_index_name(index, include_schema) where index.table.schema = schema:
   the schema goes through quote_schema() (evaluated first), the name through format_index() *)
Definition prepared_index_name (p : prep) (include_schema : bool) (schema : option str) (iname : str) : res str :=
  match (if include_schema then schema else None) with
  | Some (c :: s') =>
      match quote p (c :: s') with
      | RaiseIndexError => RaiseIndexError
      | Ok qs => match format_index p iname with
                 | Ok qi => Ok (qs ++ dot :: qi)
                 | RaiseIndexError => RaiseIndexError
                 end
      end
  | _ => format_index p iname
  end.

(* SQLite: CREATE INDEX <prepared name, schema included> ON <table, no schema> (k)   and   \nDROP INDEX <prepared name> *)
Definition sqlite_create_index (p : prep) (schema : option str) (tname iname : str) : res str :=
  match prepared_index_name p true schema iname with
  | RaiseIndexError => RaiseIndexError
  | Ok pi => match quote p tname with
             | RaiseIndexError => RaiseIndexError
             | Ok qt => Ok ([67; 82; 69; 65; 84; 69; 32; 73; 78; 68; 69; 88; 32] ++ pi ++ [32; 79; 78; 32] ++ qt ++ [32; 40; 107; 41])
             end
  end.
Definition drop_index (p : prep) (schema : option str) (iname : str) : res str :=
  match prepared_index_name p true schema iname with
  | RaiseIndexError => RaiseIndexError
  | Ok pi => Ok ([10; 68; 82; 79; 80; 32; 73; 78; 68; 69; 88; 32] ++ pi)
  end.

(* the dotted form of a list of components, each through quote() *)
Fixpoint join_dot (l : list str) : str :=
  match l with
  | [] => []
  | [a] => a
  | a :: r => a ++ dot :: join_dot r
  end.
Fixpoint quote_all (p : prep) (l : list str) : res (list str) :=
  match l with
  | [] => Ok []
  | a :: r => match quote p a with
              | RaiseIndexError => RaiseIndexError
              | Ok qa => match quote_all p r with
                         | Ok qr => Ok (qa :: qr)
                         | RaiseIndexError => RaiseIndexError
                         end
              end
  end.
Definition format_path (p : prep) (l : list str) : res str :=
  match quote_all p l with Ok ql => Ok (join_dot ql) | RaiseIndexError => RaiseIndexError end.

(* ------------------------------------------------------------------------------------------- *)
(* unformat_identifiers: findall of
      (?:(?:IQ((?:FQFQ|[^FQ])+)FQ|([^\.]+))(?=\.|$))+
   The token sequence (FQFQ | one non-FQ character)+ is deterministic and only its maximal length can be
   followed by a single FQ; [^\.]+ runs to the next "." or the end, where the lookahead always holds;
   "$" also holds before one final newline, in which case a second iteration of the outer group
   swallows that newline ([a or b] keeps group 1). *)
Fixpoint qbody (fq : N) (s : str) : str * str :=
  match s with
  | [] => ([], [])
  | c :: r =>
      if N.eqb c fq then
        match r with
        | c2 :: r2 => if N.eqb c2 fq then let '(b, t) := qbody fq r2 in (c :: c2 :: b, t) else ([], s)
        | [] => ([], s)
        end
      else let '(b, t) := qbody fq r in (c :: b, t)
  end.

Definition try_quoted (p : prep) (s : str) : option (str * str) :=
  match s with
  | c :: s1 =>
      if N.eqb c (p_iq p) then
        match qbody (p_fq p) s1 with
        | ((_ :: _) as b, _ :: t') =>            (* the body stops only at the end or at a single FQ *)
            match t' with
            | [] => Some (b, [])
            | x :: r => if N.eqb x dot then Some (b, t')
                        else if N.eqb x nl then match r with [] => Some (b, []) | _ => None end
                        else None
            end
        | _ => None
        end
      else None
  | [] => None
  end.

Fixpoint span_nodot (s : str) : str * str :=
  match s with
  | [] => ([], [])
  | c :: r => if N.eqb c dot then ([], s) else let '(b, t) := span_nodot r in (c :: b, t)
  end.

Fixpoint unformat_fuel (fuel : nat) (p : prep) (s : str) : option (list str) :=
  match fuel with
  | O => None
  | S f =>
      match s with
      | [] => Some []
      | c :: r =>
          if N.eqb c dot then unformat_fuel f p r
          else
            let '(a, rest) := match try_quoted p s with
                              | Some ar => ar
                              | None => span_nodot s
                              end in
            match unformat_fuel f p rest with
            | Some l => Some (unescape_identifier p a :: l)
            | None => None
            end
      end
  end.
(* None = out of fuel; unformat_total proves it unreachable *)
Definition unformat (p : prep) (s : str) : option (list str) := unformat_fuel (S (length s)) p s.

(* ------------------------------------------------------------------------------------------- *)
(* SPEC side: what the backend's SQL lexer makes of the emitted text                             *)
Inductive fold_kind := FoldNone | FoldLower | FoldUpper.
Record backend := {
  b_iq : N; b_fq : N;                 (* delimited identifier; the closing character is escaped by doubling *)
  b_start : list (N * N);             (* first character of a bare identifier *)
  b_cont : list (N * N);              (* further characters of a bare identifier *)
  b_kw : list str;                    (* lower-case keywords that are not read as identifiers *)
  b_fold : fold_kind;                 (* case folding of bare identifiers (ASCII) *)
  b_pct : bool                        (* the DBAPI driver %-formats the statement (format / pyformat) *)
}.

Definition ascii_lower1 (c : N) : N := if N.leb 65 c && N.leb c 90 then c + 32 else c.
Definition ascii_upper1 (c : N) : N := if N.leb 97 c && N.leb c 122 then c - 32 else c.
Definition fold (b : backend) (s : str) : str :=
  match b_fold b with
  | FoldNone => s
  | FoldLower => map ascii_lower1 s
  | FoldUpper => map ascii_upper1 s
  end.

Definition is_ws (c : N) : bool := memN c [32; 9; 10; 12; 13].
Fixpoint drop_ws (s : str) : str :=
  match s with c :: r => if is_ws c then drop_ws r else s | [] => [] end.
Definition trim_ws (s : str) : str := rev (drop_ws (rev (drop_ws s))).

(* the body of a delimited identifier up to the closing quote: Some (name, rest after the quote) *)
Fixpoint delim_body (fq : N) (s : str) : option (str * str) :=
  match s with
  | [] => None                                  (* unterminated *)
  | c :: r =>
      if N.eqb c fq then
        match r with
        | c2 :: r2 => if N.eqb c2 fq
                      then match delim_body fq r2 with Some (b, t) => Some (fq :: b, t) | None => None end
                      else Some ([], r)
        | [] => Some ([], [])
        end
      else match delim_body fq r with Some (b, t) => Some (c :: b, t) | None => None end
  end.

(* the text is exactly one identifier token (surrounding white space ignored): its stored name *)
Definition lex_ident (b : backend) (text : str) : option str :=
  match trim_ws text with
  | [] => None
  | c :: r =>
      if N.eqb c (b_iq b) then
        match delim_body (b_fq b) r with
        | Some (name, []) => Some name
        | _ => None
        end
      else if in_ranges (b_start b) c && forallb (in_ranges (b_cont b)) r then
        if mem_str (map ascii_lower1 (c :: r)) (b_kw b) then None else Some (fold b (c :: r))
      else None
  end.

(* what a format/pyformat DBAPI driver sends: "%%" becomes "%"; a "%" that is not doubled would be read
   as a conversion specifier: the statement is rejected (None) *)
Fixpoint undouble_strict (c : N) (s : str) : option str :=
  match s with
  | [] => Some []
  | x :: r =>
      if N.eqb x c then
        match r with
        | y :: r' => if N.eqb y c
                     then match undouble_strict c r' with Some u => Some (c :: u) | None => None end
                     else None
        | [] => None
        end
      else match undouble_strict c r with Some u => Some (x :: u) | None => None end
  end.
Definition driver (b : backend) (text : str) : option str :=
  if b_pct b then undouble_strict pct text else Some text.
(* the identifier the backend reads when the application executes [text] *)
Definition lex_sent (b : backend) (text : str) : option str :=
  match driver b text with Some s => lex_ident b s | None => None end.

(* ------------------------------------------------------------------------------------------- *)
(* boolean side conditions on the regenerated tables (evaluated by vm_compute on every run)      *)
Definition enum_range (r : N * N) : list N :=
  map (fun k => fst r + N.of_nat k) (seq 0 (N.to_nat (snd r + 1 - fst r))).
Definition enum_ranges (rs : list (N * N)) : list N := flat_map enum_range rs.

Definition lower_entry_ok (e : N * str) : bool :=
  match snd e with [] => false | h :: _ => negb (N.eqb h (fst e)) end.

Definition wf_prep (p : prep) : bool :=
  N.eqb (p_esc p) (p_fq p) && N.eqb (p_unesc p) (p_fq p)
  && negb (in_ranges (p_legal p) (p_iq p)) && negb (in_ranges (p_legal p) (p_fq p))
  && negb (in_ranges (p_legal p) dot) && negb (in_ranges (p_legal p) pct)
  && negb (existsb (in_ranges (p_legal p)) [32; 9; 10; 12; 13])
  && negb (N.eqb (p_fq p) dot) && negb (N.eqb (p_fq p) pct)
  && negb (N.eqb (p_iq p) dot) && negb (N.eqb (p_iq p) pct)
  && negb (is_ws (p_iq p)) && negb (is_ws (p_fq p))
  && forallb lower_entry_ok (p_lower p)
  && negb (mem_str [] (p_reserved p)).

Definition compat (p : prep) (b : backend) : bool :=
  N.eqb (b_iq b) (p_iq p) && N.eqb (b_fq b) (p_fq p)
  && forallb (fun c => memN c (p_illegal_initial p) || in_ranges (b_start b) c) (enum_ranges (p_legal p))
  && forallb (in_ranges (b_cont b)) (enum_ranges (p_legal p))
  && forallb (fun w => mem_str w (p_reserved p)) (b_kw b)
  && forallb (fun c => memN c (map fst (p_lower p))) (enum_range (65, 90))
  && Bool.eqb (p_esc_pct p) (b_pct b).

Definition has_pct (v : str) : bool := memN pct v.
Definition nonempty (v : str) : bool := match v with [] => false | _ => true end.

(* what the backend stores for [name]: as written when delimited, folded when bare *)
Definition stored (p : prep) (b : backend) (v : str) : str :=
  match requires_quotes p v with Ok false => fold b v | _ => v end.

(* ------------------------------------------------------------------------------------------- *)
(* a small sample table (PostgreSQL-like with a format/pyformat driver) used as a witness in props *)
Definition sample_legal : list (N * N) :=
  [(36, 36); (48, 57); (65, 90); (95, 95); (97, 122); (304, 305); (383, 383); (8490, 8490)].
Definition sample_lower : list (N * str) :=
  map (fun k => (65 + N.of_nat k, [97 + N.of_nat k])) (seq 0 26) ++ [(304, [105; 775]); (8490, [107])].
Definition sample_prep : prep := {|
  p_reserved := [[115; 101; 108; 101; 99; 116]; [116; 97; 98; 108; 101]];   (* select, table *)
  p_legal := sample_legal;
  p_illegal_initial := [36; 48; 49; 50; 51; 52; 53; 54; 55; 56; 57];
  p_lower := sample_lower;
  p_iq := 34; p_fq := 34; p_esc := 34; p_unesc := 34;
  p_esc_pct := true |}.
Definition sample_backend : backend := {|
  b_iq := 34; b_fq := 34;
  b_start := [(65, 90); (95, 95); (97, 122); (128, 1114111)];
  b_cont := [(36, 36); (48, 57); (65, 90); (95, 95); (97, 122); (128, 1114111)];
  b_kw := [[115; 101; 108; 101; 99; 116]];
  b_fold := FoldLower; b_pct := true |}.
