(* C56 - the rendered clause text parses back to the clause it denotes (render / parse round trip). *)
From Coq Require Import List ZArith Bool Lia.
Import ListNotations.
From SAV.sql Require Import Upsert UpsertAsm UpsertParse UpsertSpec.

Lemma name_idx_nth : forall cols i,
  NoDup (map cname cols) -> i < length cols -> name_idx cols (col_name cols i) = Some i.
Proof.
  unfold col_name. induction cols as [|c cs IH]; intros i Hnd Hi; [simpl in Hi; lia|].
  simpl in Hnd. inversion Hnd as [|x l Hnin Hnd']; subst.
  destruct i as [|i].
  - simpl. rewrite Z.eqb_refl. reflexivity.
  - simpl in Hi. cbn [nth name_idx].
    destruct (Z.eqb (cname c) (cname (nth i cs dflt_col))) eqn:E.
    + apply Z.eqb_eq in E. exfalso. apply Hnin. rewrite E. apply in_map. apply nth_In. lia.
    + rewrite IH by (assumption || lia). reflexivity.
Qed.

(* what may follow an expression *)
Definition stop (rest : list tok) : bool :=
  match rest with
  | [] => true
  | TKw _ :: _ => true | TComma :: _ => true | TRp :: _ => true
  | TLt :: _ => true | TEq :: _ => true | TGt :: _ => true
  | _ => false
  end.
Definition stop2 (rest : list tok) : bool :=
  match rest with TPlus :: _ => true | _ => stop rest end.

Section RT.
  Variable cols : list coldesc.
  Hypothesis Hnd : NoDup (map cname cols).

  Lemma p_atom_r : forall qual exs a rest,
    atom_ok (length cols) a = true -> stop2 rest = true ->
    p_atom cols (r_atom cols qual exs a ++ rest) = Some (norm_atom a, rest).
  Proof.
    intros qual exs a rest Hok Hst.
    destruct a as [b z| |i|i|k]; cbn [r_atom norm_atom app]; try reflexivity.
    - (* ACol *)
      cbn [atom_ok] in Hok. apply Nat.ltb_lt in Hok.
      destruct qual; cbn [app p_atom].
      + rewrite name_idx_nth by assumption. reflexivity.
      + destruct rest as [|t rest']; [rewrite name_idx_nth by assumption; reflexivity|].
        destruct t; try discriminate Hst; rewrite name_idx_nth by assumption; reflexivity.
    - (* AExc *)
      cbn [atom_ok] in Hok. apply Nat.ltb_lt in Hok.
      destruct exs as [|[|exs]]; cbn [app p_atom]; rewrite name_idx_nth by assumption; reflexivity.
  Qed.

  Lemma stop_stop2 : forall rest, stop rest = true -> stop2 rest = true.
  Proof. intros [|[] rest]; simpl; congruence. Qed.

  Lemma p_expr_r : forall qual exs e rest,
    expr_ok (length cols) e = true -> stop rest = true ->
    p_expr cols (r_expr cols qual exs e ++ rest) = Some (norm_expr e, rest).
  Proof.
    intros qual exs e rest Hok Hst. unfold p_expr.
    destruct e as [a|a b]; cbn [r_expr norm_expr expr_ok] in *.
    - rewrite p_atom_r by (auto using stop_stop2).
      destruct rest as [|t rest']; [reflexivity|]. destruct t; try discriminate Hst; reflexivity.
    - apply andb_prop in Hok. destruct Hok as [Ha Hb].
      rewrite <- app_assoc. cbn [app].
      rewrite p_atom_r by (auto). rewrite p_atom_r by (auto using stop_stop2). reflexivity.
  Qed.

  Lemma r_atom_not_lp : forall qual exs a rest,
    match r_atom cols qual exs a ++ rest with TLp :: _ => False | _ => True end.
  Proof. intros qual exs a rest. destruct a; cbn [r_atom app]; auto. destruct qual; cbn; auto.
    destruct exs as [|[|?]]; cbn; auto. Qed.

  Lemma p_value_ungrouped : forall exs e rest,
    expr_ok (length cols) e = true -> stop rest = true ->
    p_value cols (r_expr cols true exs e ++ rest) = Some (norm_expr e, rest).
  Proof.
    intros exs e rest Hok Hst. unfold p_value.
    assert (H : match r_expr cols true exs e ++ rest with TLp :: _ => False | _ => True end).
    { destruct e as [a|a b]; cbn [r_expr]; [apply r_atom_not_lp|].
      rewrite <- app_assoc. apply r_atom_not_lp. }
    pose proof (p_expr_r true exs e rest Hok Hst) as HP.
    destruct (r_expr cols true exs e ++ rest) as [|t l]; [exact HP|].
    destruct t; try exact HP. contradiction.
  Qed.

  Lemma p_value_r : forall exs e rest,
    expr_ok (length cols) e = true -> stop rest = true ->
    p_value cols (r_value cols exs e ++ rest) = Some (norm_expr e, rest).
  Proof.
    intros exs e rest Hok Hst. destruct e as [a|a b].
    - apply (p_value_ungrouped exs (EAtom a) rest Hok Hst).
    - cbn [r_value]. cbn [app]. unfold p_value. rewrite <- app_assoc. cbn [app].
      rewrite p_expr_r by auto. reflexivity.
  Qed.

  Lemma p_pred_r : forall qual p rest,
    pred_ok (length cols) p = true -> stop rest = true ->
    p_pred cols (r_pred cols qual p ++ rest) = Some (norm_pred p, rest).
  Proof.
    intros qual [c l r] rest Hok Hst. cbn [pred_ok] in Hok. apply andb_prop in Hok. destruct Hok as [Hl Hr].
    cbn [r_pred norm_pred]. rewrite <- app_assoc. cbn [app]. unfold p_pred.
    rewrite p_expr_r by (auto; destruct c; reflexivity).
    destruct c; cbn [r_cmp]; rewrite p_expr_r by auto; reflexivity.
  Qed.

  Lemma p_names_r : forall names l rest,
    names <> [] -> sequence (map (name_idx cols) names) = Some l ->
    p_names cols (r_names names ++ TRp :: rest) = Some (l, rest).
  Proof.
    induction names as [|n names IH]; intros l rest Hne Hs; [congruence|].
    cbn [map sequence] in Hs. destruct (name_idx cols n) as [i|] eqn:En; [|discriminate].
    destruct (sequence (map (name_idx cols) names)) as [l'|] eqn:El; [|discriminate].
    injection Hs as <-.
    destruct names as [|n2 names'].
    - cbn [r_names app p_names]. rewrite En. simpl in El. injection El as <-. reflexivity.
    - change (r_names (n :: n2 :: names')) with (TId n :: TComma :: r_names (n2 :: names')).
      cbn [app]. cbn [p_names]. rewrite En.
      rewrite (IH l' rest) by (congruence || reflexivity). reflexivity.
  Qed.

  Definition starts_do (rest : list tok) : Prop := exists r, rest = TKw KDO :: r.

  Lemma mk_target_some : forall n ol w tg, mk_target n ol w = Some tg ->
    exists l, ol = Some l /\ l <> [] /\ opred_ok n w = true /\ tg = Some (TCols l (option_map norm_pred w)).
  Proof.
    intros n [l|] w tg H; unfold mk_target in H; [|discriminate].
    destruct l as [|x l]; cbn [is_nil negb andb] in H; [discriminate|].
    destruct (opred_ok n w) eqn:E; [|discriminate]. injection H as <-.
    exists (x :: l). repeat split; congruence.
  Qed.

  Lemma p_target_r : forall t tg rest,
    abs_target cols t = Some tg -> starts_do rest ->
    p_target cols (r_target cols t ++ rest) = Some (tg, rest).
  Proof.
    intros t tg rest Habs [r ->].
    destruct t as [|names w|n]; cbn [abs_target] in Habs.
    - injection Habs as <-. reflexivity.
    - apply mk_target_some in Habs. destruct Habs as (l & Hs & Hne & Hw & ->).
      assert (Hnn : names <> []). { intros ->. simpl in Hs. injection Hs as <-. congruence. }
      cbn [r_target]. cbn [app]. unfold p_target. rewrite <- app_assoc. cbn [app].
      destruct w as [p|]; cbn [option_map].
      + cbn [app]. rewrite (p_names_r names l _ Hnn Hs). cbv beta iota.
        rewrite p_pred_r by (auto). reflexivity.
      + cbn [app]. rewrite (p_names_r names l _ Hnn Hs). reflexivity.
    - injection Habs as <-. reflexivity.
  Qed.

  Definition kw_rest (rest : list tok) : Prop := rest = [] \/ exists k r, rest = TKw k :: r.

  Lemma kw_rest_stop : forall rest, kw_rest rest -> stop rest = true.
  Proof. intros rest [->|(k & r & ->)]; reflexivity. Qed.

  Lemma p_item_r : forall exs k v i rest,
    lhs_idx cols k = Some i -> expr_ok (length cols) v = true -> stop rest = true ->
    exists n, r_item cols exs k v ++ rest = TId n :: TEq :: (skipn 2 (r_item cols exs k v ++ rest)) /\
              name_idx cols n = Some i /\
              p_value cols (skipn 2 (r_item cols exs k v ++ rest)) = Some (norm_expr v, rest).
  Proof.
    intros exs k v i rest Hk Hv Hst. destruct k as [n|n|n]; cbn [lhs_idx] in Hk; [| |discriminate].
    - exists n. cbn [r_item app skipn]. repeat split; auto. apply p_value_r; auto.
    - exists n. cbn [r_item app skipn]. repeat split; auto. apply p_value_ungrouped; auto.
  Qed.

  Lemma p_sets_r : forall exs sets l rest fuel,
    sets <> [] -> abs_sets cols sets = Some l -> kw_rest rest -> length sets <= fuel ->
    p_sets fuel cols (r_sets cols exs sets ++ rest) = Some (l, rest).
  Proof.
    induction sets as [|[k v] sets IH]; intros l rest fuel Hne Habs Hrest Hfuel; [congruence|].
    unfold abs_sets in Habs. cbn [map sequence fst snd] in Habs.
    destruct (set_item (length cols) (lhs_idx cols k) v) as [[i e]|] eqn:Ei; [|discriminate].
    fold (abs_sets cols sets) in Habs.
    destruct (abs_sets cols sets) as [l'|] eqn:El; [|discriminate]. injection Habs as <-.
    unfold set_item in Ei. destruct (lhs_idx cols k) as [i'|] eqn:Ek; [|discriminate].
    destruct (expr_ok (length cols) v) eqn:Ev; [|discriminate]. injection Ei as <- <-.
    destruct fuel as [|fuel]; [simpl in Hfuel; lia|].
    destruct sets as [|kv2 sets'].
    - cbn [r_sets]. simpl in El. injection El as <-.
      destruct (p_item_r exs k v i' rest Ek Ev (kw_rest_stop _ Hrest)) as (n & Heq & Hn & Hp).
      rewrite Heq. cbn [p_sets]. rewrite Hn, Hp.
      destruct Hrest as [->|(kk & r & ->)]; reflexivity.
    - change (r_sets cols exs ((k, v) :: kv2 :: sets'))
        with (r_item cols exs k v ++ TComma :: r_sets cols exs (kv2 :: sets')).
      rewrite <- app_assoc. cbn [app].
      destruct (p_item_r exs k v i' (TComma :: r_sets cols exs (kv2 :: sets') ++ rest) Ek Ev eq_refl)
        as (n & Heq & Hn & Hp).
      rewrite Heq. cbn [p_sets]. rewrite Hn, Hp.
      rewrite (IH l' rest fuel) by (try congruence; auto; simpl in *; lia). reflexivity.
  Qed.

  Lemma r_sets_len : forall exs sets, length sets <= length (r_sets cols exs sets).
  Proof.
    induction sets as [|[k v] sets IH]; [simpl; lia|].
    destruct sets as [|kv2 sets'].
    - cbn [r_sets]. destruct k; simpl; lia.
    - change (r_sets cols exs ((k, v) :: kv2 :: sets'))
        with (r_item cols exs k v ++ TComma :: r_sets cols exs (kv2 :: sets')).
      rewrite app_length. cbn [length] in *. lia.
  Qed.

  Definition on_rest (rest : list tok) : Prop := rest = [] \/ exists r, rest = TKw KON :: r.

  Lemma mk_update_some : forall n otg os w cl, mk_update n otg os w = Some cl ->
    exists tg s, otg = Some tg /\ os = Some s /\ s <> [] /\ opred_ok n w = true /\
                 cl = (tg, DoUpdate s (option_map norm_pred w)).
  Proof.
    intros n [tg|] [s|] w cl H; unfold mk_update in H; try discriminate.
    destruct s as [|x s]; cbn [is_nil negb andb] in H; [discriminate|].
    destruct (opred_ok n w) eqn:E; [|discriminate]. injection H as <-.
    exists tg, (x :: s). repeat split; congruence.
  Qed.

  Lemma p_clause_r : forall c cl rest,
    abs_clause cols c = Some cl -> on_rest rest ->
    p_clause cols (r_clause cols c ++ rest) = Some (cl, rest).
  Proof.
    intros c cl rest Habs Hrest.
    destruct c as [t|t sets w]; cbn [abs_clause] in Habs.
    - destruct (abs_target cols t) as [tg|] eqn:Et; [|discriminate]. injection Habs as <-.
      cbn [r_clause]. cbn [app]. unfold p_clause. rewrite <- app_assoc.
      rewrite (p_target_r t tg _ Et) by (eexists; reflexivity). reflexivity.
    - apply mk_update_some in Habs. destruct Habs as (tg & s & Et & Es & Hne & Hw & ->).
      assert (Hsn : sets <> []). { intros ->. cbn in Es. injection Es as <-. congruence. }
      cbn [r_clause]. cbn [app]. unfold p_clause. rewrite <- app_assoc.
      rewrite (p_target_r t tg _ Et) by (eexists; reflexivity).
      cbn [app]. rewrite <- app_assoc.
      destruct w as [p|]; cbn [option_map].
      + cbn [app].
        rewrite (p_sets_r 0 sets s) with (rest := TKw KWHERE :: r_pred cols true p ++ rest); auto.
        * rewrite p_pred_r; auto. destruct Hrest as [->|(r & ->)]; reflexivity.
        * right. eexists _, _. reflexivity.
        * rewrite app_length. pose proof (r_sets_len 0 sets). lia.
      + cbn [app].
        rewrite (p_sets_r 0 sets s rest); auto.
        * destruct Hrest as [->|(r & ->)]; reflexivity.
        * destruct Hrest as [->|(r & ->)]; [left; reflexivity|right; eexists _, _; reflexivity].
        * rewrite app_length. pose proof (r_sets_len 0 sets). lia.
  Qed.

  Lemma r_clause_starts : forall c, exists r, r_clause cols c = TKw KON :: r.
  Proof. intros [t|t s w]; cbn [r_clause]; eexists; reflexivity. Qed.

  Lemma r_clauses_on_rest : forall cs, on_rest (r_clauses cols cs).
  Proof.
    intros [|c cs]; [left; reflexivity|]. right. unfold r_clauses. cbn [flat_map].
    destruct (r_clause_starts c) as [r ->]. eexists. reflexivity.
  Qed.

  Lemma p_clauses_r : forall cs cls fuel,
    abs_clauses cols cs = Some cls -> length cs <= fuel ->
    p_clauses fuel cols (r_clauses cols cs) = Some cls.
  Proof.
    induction cs as [|c cs IH]; intros cls fuel Habs Hfuel.
    - simpl in Habs. injection Habs as <-. destruct fuel; reflexivity.
    - unfold abs_clauses in Habs. cbn [map sequence] in Habs.
      destruct (abs_clause cols c) as [cl|] eqn:Ec; [|discriminate].
      fold (abs_clauses cols cs) in Habs.
      destruct (abs_clauses cols cs) as [cls'|] eqn:Ecs; [|discriminate]. injection Habs as <-.
      destruct fuel as [|fuel]; [simpl in Hfuel; lia|].
      unfold r_clauses. cbn [flat_map]. fold (r_clauses cols cs).
      destruct (r_clause_starts c) as [r Hr].
      assert (Hp := p_clause_r c cl (r_clauses cols cs) Ec (r_clauses_on_rest cs)).
      rewrite Hr in *. cbn [app] in *. cbn [p_clauses]. rewrite Hp.
      rewrite (IH cls' fuel) by (auto; simpl in Hfuel; lia). reflexivity.
  Qed.

  Lemma r_clauses_len : forall cs, length cs <= length (r_clauses cols cs).
  Proof.
    induction cs as [|c cs IH]; [simpl; lia|].
    unfold r_clauses. cbn [flat_map]. fold (r_clauses cols cs). rewrite app_length.
    destruct (r_clause_starts c) as [r ->]. cbn [length]. lia.
  Qed.

  (* every rendered clause list that denotes something parses back to exactly that *)
  Theorem parse_render_clauses : forall cs cls,
    abs_clauses cols cs = Some cls -> parse_clauses cols (r_clauses cols cs) = Some cls.
  Proof.
    intros cs cls H. unfold parse_clauses. apply p_clauses_r; auto. apply r_clauses_len.
  Qed.

  (* MySQL *)
  Theorem parse_render_mysql : forall alias sets l,
    sets <> [] -> abs_sets cols sets = Some l ->
    parse_mysql cols (r_mysql cols alias sets) = Some l.
  Proof.
    intros alias sets l Hne Habs. unfold parse_mysql, r_mysql.
    destruct alias; cbn [app].
    - pose proof (p_sets_r 2 sets l [] (length (r_sets cols 2 sets)) Hne Habs (or_introl eq_refl) (r_sets_len 2 sets)) as H.
      rewrite app_nil_r in H. rewrite H. reflexivity.
    - pose proof (p_sets_r 1 sets l [] (length (r_sets cols 1 sets)) Hne Habs (or_introl eq_refl) (r_sets_len 1 sets)) as H.
      rewrite app_nil_r in H. rewrite H. reflexivity.
  Qed.
End RT.
