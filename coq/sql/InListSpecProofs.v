(* C07, spec side: SQL's IN is the Kleene OR of equalities; a small calculus of "phrases" for the
   evaluator [parse]; the explicit OR-of-equalities evaluates to [or_eq]. *)
From Coq Require Import List ZArith NArith Bool Lia.
Import ListNotations.
From SAV.sql Require Import Val3 Val3Proofs InList.

(* ---------------------------------------------------------------------------------------- *)
(** * IN = OR of equalities *)
Theorem in_is_or_of_eq x rows : in_sem x rows = or_eq x rows.
Proof.
  unfold in_sem, or_eq. induction rows as [|r rows IH]; [reflexivity|].
  cbn [existsb fold_right]. rewrite <- IH. clear IH.
  destruct (row_eq3 x r); cbn [is_true is_unknown orb or3];
  destruct (existsb (fun r0 => is_true (row_eq3 x r0)) rows);
  destruct (existsb (fun r0 => is_unknown (row_eq3 x r0)) rows); reflexivity.
Qed.

Lemma or_eq_app x r1 r2 : or_eq x (r1 ++ r2) = or3 (or_eq x r1) (or_eq x r2).
Proof.
  unfold or_eq. induction r1 as [|r r1 IH]; cbn [app fold_right].
  - now rewrite or3_TF_l.
  - now rewrite IH, or3_assoc.
Qed.

(* ---------------------------------------------------------------------------------------- *)
(** * token lists of scalars *)
Definition scal (ts : list tok) (vs : list sv) : Prop := Forall2 (fun t v => scalar_of t = Some v) ts vs.
Definition items (ts : list tok) : list tok := join [TComma] (map (fun t => [t]) ts).
Definition no_comma (rest : list tok) : Prop := match rest with TComma :: _ => False | _ => True end.

Lemma join_cons2 sep p q r : join sep (p :: q :: r) = p ++ sep ++ join sep (q :: r).
Proof. reflexivity. Qed.
Lemma join_one sep p : join sep [p] = p.
Proof. reflexivity. Qed.

Lemma items_cons2 t t2 ts : items (t :: t2 :: ts) = t :: TComma :: items (t2 :: ts).
Proof. reflexivity. Qed.

Lemma scal_length ts vs : scal ts vs -> length ts = length vs.
Proof. induction 1; cbn [length]; congruence. Qed.

Lemma p_scalars_items ts vs rest :
  scal ts vs -> ts <> [] -> no_comma rest -> p_scalars (items ts ++ rest) = Some (vs, rest).
Proof.
  intros H. induction H as [|t v ts vs Ht H IH]; intros Hne Hr; [congruence|].
  destruct ts as [|t2 ts].
  - inversion H; subst. unfold items. cbn [map join app]. cbn [p_scalars]. rewrite Ht.
    destruct rest as [|[] rest]; try reflexivity. destruct Hr.
  - rewrite items_cons2. cbn [app]. cbn [p_scalars]. rewrite Ht.
    rewrite IH; [reflexivity|discriminate|assumption].
Qed.

Lemma p_rl_row ts vs : scal ts vs -> ts <> [] -> forall cur acc rest,
  p_rl (items ts ++ TRp :: rest) cur acc =
  match rest with
  | TComma :: TLp :: rest' => p_rl rest' [] (acc ++ [cur ++ vs])
  | _ => Some (acc ++ [cur ++ vs], rest)
  end.
Proof.
  intros H. induction H as [|t v ts vs Ht H IH]; intros Hne cur acc rest; [congruence|].
  destruct ts as [|t2 ts].
  - inversion H; subst. unfold items. cbn [map join app]. cbn [p_rl]. rewrite Ht.
    destruct rest as [|[] [|[] rest]]; reflexivity.
  - rewrite items_cons2. cbn [app]. cbn [p_rl]. rewrite Ht.
    rewrite IH by discriminate. rewrite <- app_assoc. reflexivity.
Qed.

Definition row_toks (ts : list tok) : list tok := TLp :: items ts ++ [TRp].
Fixpoint rows_tail (rts : list (list tok)) (rest : list tok) : list tok :=
  match rts with
  | [] => rest
  | t :: r => TComma :: TLp :: items t ++ TRp :: rows_tail r rest
  end.
Lemma join_rows_tail t rts rest :
  join [TComma] (map row_toks (t :: rts)) ++ rest = TLp :: items t ++ TRp :: rows_tail rts rest.
Proof.
  revert t. induction rts as [|t2 rts IH]; intro t.
  - cbn [map join rows_tail]. unfold row_toks. cbn [app]. now rewrite <- app_assoc.
  - cbn [map]. rewrite join_cons2. cbn [map] in IH. rewrite <- !app_assoc. rewrite IH.
    unfold row_toks. cbn [app rows_tail]. now rewrite <- app_assoc.
Qed.

Lemma p_rl_rows rts rvs : Forall2 scal rts rvs -> Forall (fun t => t <> []) rts ->
  forall t v acc rest, scal t v -> t <> [] -> no_comma rest ->
  p_rl (items t ++ TRp :: rows_tail rts rest) [] acc = Some (acc ++ v :: rvs, rest).
Proof.
  intros H. induction H as [|t2 v2 rts rvs H2 H IH]; intros Hne t v acc rest Ht Htne Hr.
  - cbn [rows_tail]. rewrite (p_rl_row _ _ Ht Htne). cbn [app].
    destruct rest as [|[] rest]; try reflexivity. destruct Hr.
  - cbn [rows_tail]. rewrite (p_rl_row _ _ Ht Htne). cbn [app].
    inversion Hne; subst. rewrite (IH H4 t2 v2 _ rest H2 H3 Hr). now rewrite <- app_assoc.
Qed.

Lemma p_rows_join rts rvs rest : Forall2 scal rts rvs -> Forall (fun t => t <> []) rts -> rts <> [] ->
  no_comma rest -> p_rows (join [TComma] (map row_toks rts) ++ rest) = Some (rvs, rest).
Proof.
  intros H Hne Hn Hr. destruct H as [|t v rts rvs Ht H]; [congruence|].
  rewrite join_rows_tail. cbn [p_rows]. inversion Hne; subst.
  now rewrite (p_rl_rows _ _ H H3 t v [] rest Ht H2 Hr).
Qed.

(* ---------------------------------------------------------------------------------------- *)
(** * operands *)
Lemma p_operand_scalar t v rest : scalar_of t = Some v -> p_operand (t :: rest) = Some ([v], rest).
Proof. intros H. destruct t; cbn [scalar_of] in H; try discriminate; cbn [p_operand scalar_of]; now inversion H. Qed.

Lemma p_operand_row ts vs rest : scal ts vs -> ts <> [] ->
  p_operand (TLp :: items ts ++ TRp :: rest) = Some (vs, rest).
Proof. intros H Hne. cbn [p_operand]. now rewrite (p_scalars_items ts vs (TRp :: rest) H Hne I). Qed.

Lemma scal_vals vs : scal (map TVal vs) vs.
Proof. induction vs; constructor; [reflexivity|assumption]. Qed.

Lemma items_map_TVal r : join [TComma] (map (fun v => [TVal v]) r) = items (map TVal r).
Proof. unfold items. now rewrite map_map. Qed.

Lemma operand_tokens_ok r rest : r <> [] -> p_operand (operand_tokens r ++ rest) = Some (r, rest).
Proof.
  intros Hne. destruct r as [|v [|v2 r]]; [congruence| |].
  - reflexivity.
  - unfold operand_tokens. rewrite items_map_TVal. rewrite <- !app_assoc. cbn [app].
    apply p_operand_row; [apply scal_vals|discriminate].
Qed.

(* ---------------------------------------------------------------------------------------- *)
(** * phrases *)
Definition slack (l : level) : nat := match l with LAtom => 1 | LNot => 2 | LAnd => 3 | LOr => 4 end.
Definition stops (l : level) (rest : list tok) : Prop :=
  match l with
  | LOr => match rest with TOr :: _ | TAnd :: _ => False | _ => True end
  | LAnd => match rest with TAnd :: _ => False | _ => True end
  | _ => True
  end.
(* [ph] parses at level [l] to the value [t], whatever follows (as long as it cannot extend the phrase) *)
Definition phrase (l : level) (ph : list tok) (t : tv) : Prop :=
  forall f rest, 4 * length ph + slack l <= f -> stops l rest -> parse f l (ph ++ rest) = POk t rest.

Definition no_not (ph : list tok) : Prop := match ph with TNot :: _ | [] => False | _ => True end.

Lemma phrase_atom ph t : (forall rest, p_simple (ph ++ rest) = Some (t, rest)) -> phrase LAtom ph t.
Proof.
  intros H f rest Hf _. destruct f as [|f]; [cbn [slack] in Hf; lia|].
  cbn [parse]. now rewrite H.
Qed.

Lemma phrase_lift_not ph t : phrase LAtom ph t -> no_not ph -> phrase LNot ph t.
Proof.
  intros H Hn f rest Hf _. destruct f as [|f]; [cbn [slack] in Hf; lia|].
  cbn [parse]. destruct ph as [|t0 ph]; [destruct Hn|].
  cbn [app]. destruct t0; try (apply (H f rest); [cbn [slack length] in *; lia|exact I]).
  destruct Hn.
Qed.

Lemma phrase_not ph t : phrase LNot ph t -> phrase LNot (TNot :: ph) (not3 t).
Proof.
  intros H f rest Hf _. destruct f as [|f]; [cbn [slack] in Hf; lia|].
  cbn [parse app]. rewrite (H f rest); [reflexivity|cbn [slack length] in *; lia|exact I].
Qed.

Lemma phrase_lift_and ph t : phrase LNot ph t -> phrase LAnd ph t.
Proof.
  intros H f rest Hf Hs. destruct f as [|f]; [cbn [slack] in Hf; lia|].
  cbn [parse]. rewrite (H f rest); [|cbn [slack] in *; lia|exact I].
  destruct rest as [|[] rest]; try reflexivity. destruct Hs.
Qed.

Lemma phrase_and a ta b tb : phrase LNot a ta -> phrase LAnd b tb -> phrase LAnd (a ++ TAnd :: b) (and3 ta tb).
Proof.
  intros Ha Hb f rest Hf Hs. destruct f as [|f]; [cbn [slack] in Hf; lia|].
  rewrite app_length in Hf. cbn [length slack] in Hf.
  cbn [parse]. rewrite <- app_assoc. cbn [app].
  rewrite (Ha f (TAnd :: b ++ rest)); [|cbn [slack]; lia|exact I].
  rewrite (Hb f rest); [reflexivity|cbn [slack]; lia|exact Hs].
Qed.

Lemma phrase_lift_or ph t : phrase LAnd ph t -> phrase LOr ph t.
Proof.
  intros H f rest Hf Hs. destruct f as [|f]; [cbn [slack] in Hf; lia|].
  cbn [parse]. rewrite (H f rest); [|cbn [slack] in *; lia|].
  - destruct rest as [|[] rest]; try reflexivity. destruct Hs.
  - destruct rest as [|[] rest]; try exact I. destruct Hs.
Qed.

Lemma phrase_or a ta b tb : phrase LAnd a ta -> phrase LOr b tb -> phrase LOr (a ++ TOr :: b) (or3 ta tb).
Proof.
  intros Ha Hb f rest Hf Hs. destruct f as [|f]; [cbn [slack] in Hf; lia|].
  rewrite app_length in Hf. cbn [length slack] in Hf.
  cbn [parse]. rewrite <- app_assoc. cbn [app].
  rewrite (Ha f (TOr :: b ++ rest)); [|cbn [slack]; lia|exact I].
  rewrite (Hb f rest); [reflexivity|cbn [slack]; lia|exact Hs].
Qed.

Lemma phrase_paren ph t : phrase LOr ph t -> (forall rest, p_simple (TLp :: ph ++ TRp :: rest) = None) ->
  phrase LAtom (TLp :: ph ++ [TRp]) t.
Proof.
  intros H Hn f rest Hf _. destruct f as [|f]; [cbn [slack] in Hf; lia|].
  cbn [length] in Hf. rewrite app_length in Hf. cbn [length slack] in Hf.
  cbn [parse app]. rewrite <- app_assoc. cbn [app]. rewrite Hn.
  rewrite (H f (TRp :: rest)); [reflexivity|cbn [slack]; lia|exact I].
Qed.

Lemma phrase_teval ph t : phrase LOr ph t -> teval ph = EOk t.
Proof.
  intros H. unfold teval. specialize (H (4 * length ph + 4)%nat [] ). rewrite app_nil_r in H.
  rewrite H; [reflexivity|cbn [slack]; lia|exact I].
Qed.

(* conjunctions of LNot-phrases *)
Lemma phrase_conj (phs : list (list tok * tv)) : phs <> [] -> Forall (fun p => phrase LNot (fst p) (snd p)) phs ->
  phrase LAnd (join [TAnd] (map fst phs)) (and3_list (map snd phs)).
Proof.
  intros Hne H. induction H as [|p phs Hp H IH]; [congruence|].
  destruct phs as [|q phs].
  - cbn [map join and3_list fold_right]. rewrite and3_TT_r. now apply phrase_lift_and.
  - cbn [map]. rewrite join_cons2. cbn [app and3_list fold_right].
    apply phrase_and; [assumption|]. apply IH. discriminate.
Qed.

(* a parenthesised predicate is not mistaken for a row value *)
Definition not_row_start (ph : list tok) : Prop :=
  match ph with
  | TLp :: _ => True
  | t :: u :: _ => scalar_of t <> None /\ u <> TComma /\ u <> TRp
  | _ => False
  end.
Lemma p_simple_paren_none ph rest : not_row_start ph -> p_simple (TLp :: ph ++ rest) = None.
Proof.
  intros H. unfold p_simple. cbn [p_operand].
  destruct ph as [|t ph]; [destruct H|]. cbn [app].
  destruct t; try (destruct ph as [|u ph]; [destruct H|]; destruct H as (H1 & H2 & H3);
                   cbn [scalar_of] in H1; try congruence;
                   cbn [app p_scalars scalar_of]; destruct u; try congruence; reflexivity).
  reflexivity.
Qed.

(* ---------------------------------------------------------------------------------------- *)
(** * comparison atoms *)
Lemma p_simple_eq a b rest : a <> [] -> b <> [] -> length a = length b ->
  p_simple (operand_tokens a ++ TEq :: operand_tokens b ++ rest) = Some (row_eq3 a b, rest).
Proof.
  intros Ha Hb Hl. unfold p_simple. rewrite (operand_tokens_ok a _ Ha).
  unfold p_cmp. rewrite (operand_tokens_ok a _ Ha). rewrite (operand_tokens_ok b _ Hb).
  unfold same_arity. rewrite Hl, Nat.eqb_refl. reflexivity.
Qed.
Lemma p_simple_ne a b rest : a <> [] -> b <> [] -> length a = length b ->
  p_simple (operand_tokens a ++ TNe :: operand_tokens b ++ rest) = Some (not3 (row_eq3 a b), rest).
Proof.
  intros Ha Hb Hl. unfold p_simple. rewrite (operand_tokens_ok a _ Ha).
  unfold p_cmp. rewrite (operand_tokens_ok a _ Ha). rewrite (operand_tokens_ok b _ Hb).
  unfold same_arity. rewrite Hl, Nat.eqb_refl. reflexivity.
Qed.

Lemma operand_tokens_no_not r : r <> [] -> no_not (operand_tokens r ++ []) /\ forall x, no_not (operand_tokens r ++ x).
Proof.
  intros H. destruct r as [|v [|v2 r]]; [congruence| |]; split; try intros x; exact I.
Qed.

Lemma phrase_eq a b : a <> [] -> b <> [] -> length a = length b ->
  phrase LNot (operand_tokens a ++ TEq :: operand_tokens b) (row_eq3 a b).
Proof.
  intros Ha Hb Hl. apply phrase_lift_not.
  - apply phrase_atom. intros rest. rewrite <- app_assoc. cbn [app].
    try rewrite <- app_assoc. now apply p_simple_eq.
  - now apply operand_tokens_no_not.
Qed.

(* ---------------------------------------------------------------------------------------- *)
(** * the explicit OR of equalities *)
Lemma explicit_or_phrase x rows : x <> [] -> Forall (fun r => length r = length x) rows ->
  phrase LOr (explicit_or x rows) (or_eq x rows).
Proof.
  intros Hx H. destruct rows as [|r rows].
  - cbn [explicit_or or_eq fold_right]. apply phrase_lift_or, phrase_lift_and.
    change [TNum 1; TNe; TNum 1] with ([TNum 1] ++ TNe :: [TNum 1]).
    apply phrase_lift_not; [|exact I]. apply phrase_atom. intros rest. reflexivity.
  - unfold explicit_or.
    assert (G : forall rows r, Forall (fun r0 => length r0 = length x) (r :: rows) ->
      phrase LOr (join [TOr] (map (fun r0 => operand_tokens x ++ [TEq] ++ operand_tokens r0) (r :: rows)))
                 (or_eq x (r :: rows))).
    { clear r rows H. induction rows as [|r2 rows IH]; intros r H.
      - cbn [map join or_eq fold_right]. rewrite or3_TF_r. apply phrase_lift_or, phrase_lift_and.
        inversion H; subst. apply phrase_eq; try assumption; [|congruence].
        destruct r; [destruct x; [congruence|discriminate]|discriminate].
      - cbn [map]. rewrite join_cons2. cbn [or_eq fold_right]. cbn [app].
        inversion H; subst. apply phrase_or.
        + apply phrase_lift_and. apply phrase_eq; try assumption; [|congruence].
          destruct r; [destruct x; [congruence|discriminate]|discriminate].
        + apply (IH r2 H3). }
    apply G, H.
Qed.

Theorem explicit_or_sem x rows : x <> [] -> Forall (fun r => length r = length x) rows ->
  teval (explicit_or x rows) = EOk (or_eq x rows).
Proof. intros. now apply phrase_teval, explicit_or_phrase. Qed.

Theorem explicit_not_or_sem x rows : x <> [] -> Forall (fun r => length r = length x) rows ->
  teval (explicit_not_or x rows) = EOk (not3 (or_eq x rows)).
Proof.
  intros Hx H. apply phrase_teval. unfold explicit_not_or.
  apply phrase_lift_or, phrase_lift_and. cbn [app]. apply phrase_not.
  apply phrase_lift_not; [|exact I].
  apply phrase_paren; [now apply explicit_or_phrase|].
  intros rest. apply p_simple_paren_none.
  destruct rows as [|r rows].
  - cbn. repeat split; discriminate.
  - unfold explicit_or. cbn [map]. destruct x as [|v [|v2 x]]; [congruence| |].
    + destruct rows; cbn; repeat split; discriminate.
    + destruct rows; cbn; exact I.
Qed.
