(* C56 - the database side: a hand-written parser from the rendered tokens back to abstract conflict
   clauses, and the execution of an executemany as SQLAlchemy performs it (model only, no proofs). *)
From Coq Require Import List ZArith Bool.
Import ListNotations.
From SAV.sql Require Import Upsert UpsertAsm.

(* the database resolves a column NAME *)
Fixpoint name_idx (cols : list coldesc) (n : Z) : option nat :=
  match cols with
  | [] => None
  | c :: cs => if Z.eqb (cname c) n then Some O else option_map S (name_idx cs n)
  end.

Definition p_atom (cols : list coldesc) (ts : list tok) : option (atom * list tok) :=
  match ts with
  | TNum z :: r => Some (AConst false z, r)
  | TKw KNULL :: r => Some (ANull, r)
  | TPar k :: r => Some (APar k, r)
  | TKw KVALUES :: TLp :: TId c :: TRp :: r =>
      match name_idx cols c with Some i => Some (AExc i, r) | None => None end
  | TId a :: TDot :: TId c :: r =>
      match name_idx cols c with
      | None => None
      | Some i =>
          if Z.eqb a ID_T then Some (ACol i, r)
          else if Z.eqb a ID_EXCL || Z.eqb a ID_NEW then Some (AExc i, r)
          else None
      end
  | TId c :: r => match name_idx cols c with Some i => Some (ACol i, r) | None => None end
  | _ => None
  end.

Definition p_expr (cols : list coldesc) (ts : list tok) : option (expr * list tok) :=
  match p_atom cols ts with
  | Some (a, TPlus :: r) =>
      match p_atom cols r with Some (b, r') => Some (EAdd a b, r') | None => None end
  | Some (a, r) => Some (EAtom a, r)
  | None => None
  end.

Definition p_value (cols : list coldesc) (ts : list tok) : option (expr * list tok) :=
  match ts with
  | TLp :: r =>
      match p_expr cols r with Some (e, TRp :: r') => Some (e, r') | _ => None end
  | _ => p_expr cols ts
  end.

Definition p_pred (cols : list coldesc) (ts : list tok) : option (pred * list tok) :=
  match p_expr cols ts with
  | Some (l, TLt :: r) => match p_expr cols r with Some (e, r') => Some (Pred CLt l e, r') | None => None end
  | Some (l, TEq :: r) => match p_expr cols r with Some (e, r') => Some (Pred CEq l e, r') | None => None end
  | Some (l, TGt :: r) => match p_expr cols r with Some (e, r') => Some (Pred CGt l e, r') | None => None end
  | _ => None
  end.

Fixpoint p_names (cols : list coldesc) (ts : list tok) : option (list nat * list tok) :=
  match ts with
  | TId n :: TComma :: r =>
      match name_idx cols n, p_names cols r with
      | Some i, Some (l, r') => Some (i :: l, r')
      | _, _ => None
      end
  | TId n :: TRp :: r => match name_idx cols n with Some i => Some ([i], r) | None => None end
  | _ => None
  end.

(* the conflict target; [None] result component = no target present *)
Definition p_target (cols : list coldesc) (ts : list tok) : option (option target * list tok) :=
  match ts with
  | TLp :: r =>
      match p_names cols r with
      | Some (l, TKw KWHERE :: r') =>
          match p_pred cols r' with
          | Some (p, r'') => Some (Some (TCols l (Some p)), r'')
          | None => None
          end
      | Some (l, r') => Some (Some (TCols l None), r')
      | None => None
      end
  | TKw KON :: TKw KCONSTRAINT :: TId n :: r => Some (Some (TName n), r)
  | _ => Some (None, ts)
  end.

Fixpoint p_sets (fuel : nat) (cols : list coldesc) (ts : list tok) : option (list (nat * expr) * list tok) :=
  match fuel with
  | O => None
  | S f =>
      match ts with
      | TId n :: TEq :: r =>
          match name_idx cols n, p_value cols r with
          | Some i, Some (e, TComma :: r') =>
              match p_sets f cols r' with
              | Some (l, r'') => Some ((i, e) :: l, r'')
              | None => None
              end
          | Some i, Some (e, r') => Some ([(i, e)], r')
          | _, _ => None
          end
      | _ => None
      end
  end.

Definition p_clause (cols : list coldesc) (ts : list tok) : option (clause * list tok) :=
  match ts with
  | TKw KON :: TKw KCONFLICT :: r =>
      match p_target cols r with
      | Some (tg, TKw KDO :: TKw KNOTHING :: r') => Some ((tg, DoNothing), r')
      | Some (tg, TKw KDO :: TKw KUPDATE :: TKw KSET :: r') =>
          match p_sets (length r') cols r' with
          | Some (sets, TKw KWHERE :: r'') =>
              match p_pred cols r'' with
              | Some (p, r3) => Some ((tg, DoUpdate sets (Some p)), r3)
              | None => None
              end
          | Some (sets, r'') => Some ((tg, DoUpdate sets None), r'')
          | None => None
          end
      | _ => None
      end
  | _ => None
  end.

Fixpoint p_clauses (fuel : nat) (cols : list coldesc) (ts : list tok) : option (list clause) :=
  match ts with
  | [] => Some []
  | _ :: _ =>
      match fuel with
      | O => None
      | S f =>
          match p_clause cols ts with
          | Some (c, r) => match p_clauses f cols r with Some l => Some (c :: l) | None => None end
          | None => None
          end
      end
  end.

Definition parse_clauses (cols : list coldesc) (ts : list tok) : option (list clause) :=
  p_clauses (length ts) cols ts.

Definition parse_mysql (cols : list coldesc) (ts : list tok) : option (list (nat * expr)) :=
  let body := match ts with TKw KAS :: TId _ :: r => r | _ => ts end in
  match body with
  | TKw KON :: TKw KDUPLICATE :: TKw KKEY :: TKw KUPDATE :: r =>
      match p_sets (length r) cols r with Some (l, []) => Some l | _ => None end
  | _ => None
  end.

(* ---- execution as the implementation performs it ---- *)
Section Exec.
  (* the order in which the database delivers the RETURNING rows of ONE multi-row statement *)
  Variable shuffle : list row -> list row.

  Definition db_stmt (step : table -> row -> list (option Z) -> res (table * option row))
      (t : table) (rows : list row) (bp : list (option Z)) : res (table * list row) :=
    match fold_rows step t (map (fun r => (r, bp)) rows) with
    | Ok (t', rs) => Ok (t', shuffle rs)
    | Err e => Err e
    end.

  (* batch_size parameter sets per statement *)
  Fixpoint chunks {A} (fuel n : nat) (l : list A) : list (list A) :=
    match fuel with
    | O => []
    | S f => match l with [] => [] | _ :: _ => firstn n l :: chunks f n (skipn n l) end
    end.

  (* a plan: the statements of the executemany, each with the bound parameters used OUTSIDE its VALUES
     list and the rows of its VALUES list *)
  Fixpoint exec_plan (step : table -> row -> list (option Z) -> res (table * option row))
      (t : table) (pl : list (list (option Z) * list row)) : res (table * list row) :=
    match pl with
    | [] => Ok (t, [])
    | (bp, rows) :: rest =>
        match db_stmt step t rows bp with
        | Err e => Err e
        | Ok (t', rs) =>
            match exec_plan step t' rest with
            | Err e => Err e
            | Ok (t'', rs') => Ok (t'', rs ++ rs')
            end
        end
    end.

  (* SQLite / PostgreSQL: construct -> clause text -> database; executemany strategy.
     [sqlite]: index_where is rendered with literal_execute and the paramstyle is positional (false:
     PostgreSQL, named paramstyle);
     [embed]: the VALUES list embeds a counter (PostgreSQL with a server-generated sentinel; never on
     SQLite).  Without RETURNING an upsert never uses insertmanyvalues (crud.py): DBAPI executemany. *)
  Definition batched (embed returning sorted : bool) (n : nat) (sa : list sa_clause) : bool :=
    returning && Nat.ltb 1 n &&
    negb (use_row_at_a_time sorted returning false true embed (existsb has_row_par sa)).

  Definition first_bp (l : list prow) : list (option Z) :=
    match l with (_, bp) :: _ => bp | [] => [] end.

  (* batched: one multi-row VALUES statement per page; the parameters outside the VALUES list come from
     the first parameter set OF THE BATCH with a positional paramstyle (extra_params_left/right =
     batch[0][..]) and from the first parameter set OF THE EXECUTEMANY with a named one
     (base_parameters = parameters[0]).  Not batched: every parameter set is its own statement. *)
  Definition plan (positional b : bool) (page : nat) (ps : list prow)
      : list (list (option Z) * list row) :=
    if b then
      map (fun ch => (if positional then first_bp ch else first_bp ps, map fst ch))
          (chunks (length ps) (Nat.max 1 page) ps)
    else map (fun p => (snd p, [fst p])) ps.

  Definition exec_impl (sqlite embed : bool) (cols : list coldesc) (ixs : list uindex)
      (sa : list sa_clause) (returning sorted : bool) (page : nat) (t : table) (ps : list prow)
      : res (table * list row) :=
    if negb (chain_ok sa) then Err EInvalidRequest
    else if sqlite && existsb uses_literal_execute sa && Nat.ltb 1 (length ps) then Err EInvalidRequest
    else
      match parse_clauses cols (r_clauses cols (map (asm_clause cols) sa)) with
      | None => Err EOperational
      | Some cls =>
          if negb (targets_ok ixs cls) then Err EOperational
          else exec_plan (upsert_one ixs cls) t
                 (plan sqlite (batched embed returning sorted (length ps) sa) page ps)
      end.

  (* MySQL: no RETURNING; executemany is one statement per parameter set *)
  Definition exec_mysql (cols : list coldesc) (ixs : list uindex) (alias ordered : bool)
      (upd : list (Z * expr)) (t : table) (ps : list prow) : res (table * list row) :=
    match parse_mysql cols (r_mysql cols alias (my_asm cols ordered upd)) with
    | None => Err EOperational
    | Some sets => exec_plan (my_upsert_one ixs sets) t (plan false false 1 ps)
    end.
End Exec.

(* what the statements look like from outside: number of rows and the bound parameters they run with *)
Definition plan_view (sqlite embed returning sorted : bool) (page : nat) (sa : list sa_clause)
    (ps : list prow) : list (nat * list (option Z)) :=
  map (fun x => (length (snd x), fst x))
      (plan sqlite (batched embed returning sorted (length ps) sa) page ps).
