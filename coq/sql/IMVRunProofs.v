(* Facts about the concrete database of IMVRun.v: it satisfies the hypotheses the theorems of
   IMVWhole.v put on the database, and the concrete witnesses of the two refutations. *)
From Coq Require Import List ZArith Bool Lia Permutation Sorted.
Import ListNotations.
From SAV.base Require Import Tree.
From SAV.sql Require Import IMV IMVPlan IMVMerge IMVWhole IMVRun.
Open Scope Z_scope.

Lemma list_eqb_spec a b : list_eqb a b = true <-> a = b.
Proof.
  revert b. induction a as [|x a IH]; intros [|y b]; cbn; split; try congruence; try discriminate; auto.
  - intros H. apply andb_prop in H. destruct H as [H1 H2]. apply Z.eqb_eq in H1. apply IH in H2. congruence.
  - intros H. inversion H; subst. rewrite Z.eqb_refl. cbn. apply IH. reflexivity.
Qed.

(* without an injected fault the concrete database returns one row per VALUES row, permuted *)
Lemma fetch_db_perm rowspec keys k x items :
  Permutation (map (db_row rowspec x) items) (fetch_db rowspec keys [] k x items).
Proof.
  unfold fetch_db. cbn [apply_fault].
  set (keyed := map (fun p : param => (nth (fst p) keys 0, (fst p, db_row rowspec x p))) items).
  assert (E : map (db_row rowspec x) items = map snd (map snd keyed)).
  { subst keyed. rewrite !map_map. reflexivity. }
  rewrite E. apply Permutation_map. apply Permutation_map. symmetry. apply sort_rows_perm.
Qed.

(* ---------------- witness 1: a per-row bound parameter outside VALUES ---------------- *)
Definition w1_flags := mkFlags false true true true false false false false.
Definition w1_cfg := mkConfig w1_flags 2 32700 3 2 2 true true 1 false true false.
Definition w1_mask := [true; true; false].
Definition w1_rowspec : list (list Z) := [[1; 0]; [2; 1]; [1; 0]].
Definition w1_ps : list param := [(0%nat, [1; 100; 0]); (1%nat, [2; 101; 10]); (2%nat, [3; 102; 20])].
Definition w1_run := execute list_eqb (sent_of_param [0%nat]) (sent_of_row 1) sort_key (ext_of w1_mask)
                             (fetch_db w1_rowspec [] []) w1_cfg w1_ps.
Lemma w1_result : o_result w1_run = Ok [[1; 100; 1]; [2; 101; 2]; [3; 122; 3]].
Proof. vm_compute. reflexivity. Qed.
Lemma w1_spec : map (fun p => db_row w1_rowspec (Some (ext_of w1_mask p)) p) w1_ps
                = [[1; 100; 1]; [2; 111; 2]; [3; 122; 3]].
Proof. vm_compute. reflexivity. Qed.
Lemma w1_row_sentinel x p : sent_of_row 1 (db_row w1_rowspec x p) = sent_of_param [0%nat] p.
Proof. reflexivity. Qed.
Lemma w1_nodup : NoDup (map (sent_of_param [0%nat]) w1_ps).
Proof. cbn. repeat constructor; cbn; intuition discriminate. Qed.

(* ---------------- witness 2: sentinel columns without client-side values ---------------- *)
Definition w2_flags := mkFlags false true true true false false false false.
Definition w2_cfg := mkConfig w2_flags 1000 32700 1 1 1 true true 1 false false false.
Definition w2_rowspec : list (list Z) := [[0]; [1; 0]; [0]].
Definition w2_ps : list param := [(0%nat, [100]); (1%nat, [101]); (2%nat, [102])].
Definition w2_run := execute list_eqb (sent_of_param []) (sent_of_row 1) sort_key (ext_of [true])
                             (fetch_db w2_rowspec [] []) w2_cfg w2_ps.
Lemma w2_result : o_result w2_run = Raise AssertionError /\ length (o_executed w2_run) = 1%nat.
Proof. vm_compute. split; reflexivity. Qed.

(* the hypotheses of execute_sorted_guarded, all but the uniformity of the non-VALUES parameters,
   hold for witness 1 - and the n-th row is NOT the row of the n-th parameter set *)
Lemma sorted_returning_refuted :
  exists (c : config) (mask : list bool) (rowspec : list (list Z)) (ps : list param),
    (forall k x items, Permutation (map (db_row rowspec x) items) (fetch_db rowspec [] [] k x items)) /\
    1 <= c_batch_size c /\ clamp_pre c /\ wf_config c /\ c_is_returning c = true /\ c_imv_sbo c = true /\
    result_columns (c_flags c) = true /\
    sentinel_hyp (sent_of_param [0%nat]) (sent_of_row 1) sort_key (db_row rowspec) c ps /\
    exists rows,
      o_result (execute list_eqb (sent_of_param [0%nat]) (sent_of_row 1) sort_key (ext_of mask)
                        (fetch_db rowspec [] []) c ps) = Ok rows /\
      rows <> map (fun p => db_row rowspec (Some (ext_of mask p)) p) ps.
Proof.
  exists w1_cfg, w1_mask, w1_rowspec, w1_ps.
  split; [intros; apply fetch_db_perm|].
  split; [cbn; lia|]. split; [right; cbn; lia|]. split; [split; [cbn; lia|reflexivity]|].
  split; [reflexivity|]. split; [reflexivity|]. split; [reflexivity|].
  split.
  - right. left. split; [reflexivity|]. split; [reflexivity|]. split; [exact w1_row_sentinel|exact w1_nodup].
  - eexists. split; [exact w1_result|]. rewrite w1_spec. discriminate.
Qed.

(* sentinel columns selected, no client-side value for them, no implicit-sentinel support:
   batching is chosen, the first statement is executed, then `assert imv.sentinel_param_keys` *)
Lemma sentinel_without_keys_refuted :
  exists (c : config) (rowspec : list (list Z)) (ps : list param),
    (forall k x items, Permutation (map (db_row rowspec x) items) (fetch_db rowspec [] [] k x items)) /\
    1 <= c_batch_size c /\ clamp_pre c /\ wf_config c /\ c_is_returning c = true /\ c_imv_sbo c = true /\
    result_columns (c_flags c) = true /\
    c_num_sentinel c = 1 /\ c_implicit c = false /\ c_has_keys c = false /\
    let run := execute list_eqb (sent_of_param []) (sent_of_row 1) sort_key (ext_of [true])
                       (fetch_db rowspec [] []) c ps in
    o_result run = Raise AssertionError /\ length (o_executed run) = 1%nat.
Proof.
  exists w2_cfg, w2_rowspec, w2_ps.
  split; [intros; apply fetch_db_perm|].
  split; [cbn; lia|]. split; [right; cbn; lia|]. split; [split; [cbn; lia|reflexivity]|].
  do 6 (split; [reflexivity|]). exact w2_result.
Qed.

(* the clamp can produce a non-positive size: one row's parameters already exceed the limit *)
Lemma clamp_nonpositive_refuted :
  exists bs mp tot per, 1 <= bs /\ 1 <= per /\ clamp bs mp tot per = Ok 0 /\
    total_batches 5 0 = Raise ZeroDivisionError.
Proof. exists 1000, 999, 1000, 1000. repeat split; try lia; reflexivity. Qed.
