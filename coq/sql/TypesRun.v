(* executable entry point for the correspondence check of C09 *)
From Coq Require Import List NArith ZArith Bool.
Import ListNotations.
From SAV.base Require Import Tree.
From SAV.sql Require Import Types.

Definition of_str (s : str) : tree := of_list of_N s.
Definition of_exn (e : exn) : tree :=
  I (match e with TypeError => 1 | ValueError => 2 | LookupError => 3 | OverflowError => 4 end)%Z.
Definition of_date (d : date) : tree := L [of_N (dy d); of_N (dm d); of_N (dd d)].
Definition of_time (t : time) : tree := L [of_N (th t); of_N (tmi t); of_N (ts t); of_N (tus t)].
Definition of_datetime (x : date * time) : tree :=
  let '(d, t) := x in L [of_N (dy d); of_N (dm d); of_N (dd d); of_N (th t); of_N (tmi t); of_N (ts t); of_N (tus t)].
Definition of_opt {A} (f : A -> tree) (o : option A) : tree := match o with Some a => f a | None => L [] end.

Definition of_bind {A} (f : A -> tree) (r : result (option A)) : tree :=
  match r with Ok o => L [I 0%Z; of_opt f o] | Raise e => L [I 1%Z; of_exn e] end.
Definition of_pres {A} (f : A -> tree) (r : pres (option A)) : tree :=
  match r with POk o => L [I 0%Z; of_opt f o] | PErr e => L [I 1%Z; of_exn e] | POutside => L [I 2%Z] end.
Definition pres_of_result {A} (r : result A) : pres A :=
  match r with Ok a => POk a | Raise e => PErr e end.

Definition as_date3 (y m d : tree) : option date :=
  match as_N y, as_N m, as_N d with
  | Some y, Some m, Some d => Some {| dy := y; dm := m; dd := d |}
  | _, _, _ => None
  end.
Definition as_time4 (h mi s us : tree) : option time :=
  match as_N h, as_N mi, as_N s, as_N us with
  | Some h, Some mi, Some s, Some us => Some {| th := h; tmi := mi; ts := s; tus := us |}
  | _, _, _, _ => None
  end.

(* the Python value bound to a date/time column *)
Inductive dval := DNone | DDt (d : date) (t : time) | DD (d : date) | DT (t : time) | DOther.
Definition as_dval (t : tree) : option dval :=
  match t with
  | L [] => Some DNone
  | L [I 0%Z; y; m; d; h; mi; s; us] =>
      match as_date3 y m d, as_time4 h mi s us with Some d, Some t => Some (DDt d t) | _, _ => None end
  | L [I 1%Z; y; m; d] => match as_date3 y m d with Some d => Some (DD d) | None => None end
  | L [I 2%Z; h; mi; s; us] => match as_time4 h mi s us with Some t => Some (DT t) | None => None end
  | L [I 3%Z] => Some DOther
  | _ => None
  end.
Definition dt_in_of (v : dval) : option dt_in :=
  match v with
  | DNone => None
  | DDt d t => Some (InDateTime d t)
  | DD d => Some (InDate d)
  | DT _ | DOther => Some InOther
  end.
Definition time_in_of (v : dval) : option (option time) :=
  match v with DNone => None | DT t => Some (Some t) | _ => Some None end.

Definition as_str (t : tree) : option str := as_list_of as_N t.

(* the result processor of (kind, variant) applied to a wire value *)
Definition result_of (kind variant : Z) (w : option str) : tree :=
  if Z.eqb kind 0 then
    if Z.eqb variant 1 then of_pres of_datetime (pres_of_result (regexp_datetime w))
    else of_pres of_datetime (result_iso iso_datetime w)
  else if Z.eqb kind 1 then
    if Z.eqb variant 1 then of_pres of_date (pres_of_result (regexp_date w))
    else of_pres of_date (result_iso iso_date w)
  else
    if Z.eqb variant 1 then of_pres of_time (pres_of_result (regexp_time w))
    else of_pres of_time (result_iso iso_time w).

Definition bind_of (kind variant : Z) (v : dval) : result (option str) :=
  let trunc := Z.eqb variant 2 in
  if Z.eqb kind 0 then bind_datetime trunc (dt_in_of v)
  else if Z.eqb kind 1 then bind_date (dt_in_of v)
  else bind_time trunc (time_in_of v).

Definition then_result {A} (b : result (option A)) (f : option A -> tree) : tree :=
  match b with Ok w => f w | Raise _ => L [] end.

Definition as_ekey (t : tree) : option ekey :=
  match t with
  | L [I 0%Z; o] => match as_N o with Some o => Some (EObj o) | None => None end
  | L [I 1%Z; s] => match as_N s with Some s => Some (EStr s) | None => None end
  | _ => None
  end.
Definition of_ekey (k : ekey) : tree :=
  match k with EObj o => L [I 0%Z; of_N o] | EStr s => L [I 1%Z; of_N s] end.

Fixpoint as_ty_fuel (fuel : nat) (t : tree) : option ty :=
  match fuel with
  | O => None
  | S f =>
      match t with
      | L [I 0%Z; hp] => match as_bool hp with Some b => Some (TBase b) | None => None end
      | L [I 1%Z; id; hb; hr; impl] =>
          match as_N id, as_bool hb, as_bool hr, as_ty_fuel f impl with
          | Some id, Some hb, Some hr, Some impl => Some (TDec id hb hr impl)
          | _, _, _, _ => None
          end
      | _ => None
      end
  end.
Definition as_ty := as_ty_fuel 12.

Fixpoint as_cexpr_fuel (fuel : nat) (t : tree) : option cexpr :=
  match fuel with
  | O => None
  | S f =>
      match t with
      | L [I 0%Z; ty] => match as_ty ty with Some x => Some (CCol x) | None => None end
      | L [I 4%Z; a; b] =>
          match as_cexpr_fuel f a, as_cexpr_fuel f b with Some a, Some b => Some (CUnion a b) | _, _ => None end
      | L [I 6%Z; ty; a] =>
          match as_ty ty, as_cexpr_fuel f a with Some x, Some a => Some (CCoerce x a) | _, _ => None end
      | L [I k; a] =>
          match as_cexpr_fuel f a with
          | Some a =>
              if Z.eqb k 1 then Some (CLabel a) else if Z.eqb k 2 then Some (CSubq a)
              else if Z.eqb k 3 then Some (CCte a) else if Z.eqb k 5 then Some (CScalar a)
              else if Z.eqb k 7 then Some (CReturning a) else if Z.eqb k 8 then Some (COrm a) else None
          | None => None
          end
      | _ => None
      end
  end.
Definition as_cexpr := as_cexpr_fuel 16.

Definition of_step (s : step) : tree :=
  match s with SImpl => I 0%Z | SBindParam i => L [I 1%Z; of_N i] | SResultValue i => L [I 2%Z; of_N i] end.

Definition of_numproc (p : numproc) : tree :=
  match p with NoProc => I 0%Z | ToFloat => I 1%Z | ToDecimal s => L [I 2%Z; of_N s] end.

Definition as_optN (t : tree) : option (option N) :=
  match t with L [] => Some None | _ => match as_N t with Some n => Some (Some n) | None => None end end.

Definition run_case (t : tree) : tree :=
  match t with
  | L [I 0%Z; I kind; I variant; tv] =>                       (* value -> wire -> value *)
      match as_dval tv with
      | Some v => let b := bind_of kind variant v in
                  L [of_bind of_str b; then_result b (result_of kind variant)]
      | None => bad_input
      end
  | L [I 1%Z; I kind; I variant; tw] =>                       (* a wire string through the result processor *)
      match as_str tw with Some w => L [result_of kind variant (Some w)] | None => bad_input end
  | L [I 2%Z; tv] =>                                          (* Interval *)
      match tv with
      | L [] => let b := bind_interval None in
                L [of_bind of_str b; then_result b (fun w => of_pres (fun z => I z) (result_interval w))]
      | I td => let b := bind_interval (Some td) in
                L [of_bind of_str b; then_result b (fun w => of_pres (fun z => I z) (result_interval w))]
      | _ => bad_input
      end
  | L [I 3%Z; tv] =>                                          (* Boolean *)
      let out (v : option bool_in) :=
        let b := bind_boolean v in
        L [of_bind (fun z => I z) b; then_result b (fun w => of_opt of_bool (int_to_boolean w))] in
      match tv with
      | L [] => out None
      | L [I 0%Z] => out (Some BTrue)
      | L [I 1%Z] => out (Some BFalse)
      | L [I 2%Z; I z] => out (Some (BInt z))
      | L [I 3%Z] => out (Some BOther)
      | L [I 4%Z; I z] => L [of_opt of_bool (int_to_boolean (Some z))]
      | _ => bad_input
      end
  | L [I 4%Z; fl; ad; sc; drs; I k; e] =>                     (* Numeric / Float on a dialect without native decimal *)
      match as_bool fl, as_bool ad, as_optN sc, as_optN drs, as_N e with
      | Some fl, Some ad, Some sc, Some drs, Some e =>
          let t := {| n_float := fl; n_asdecimal := ad; n_scale := sc; n_drs := drs |} in
          let rp := num_result_proc false t in
          L [of_numproc (num_bind_proc false t); of_numproc rp;
             match rp with
             | ToDecimal s => let r := to_decimal s {| d_k := k; d_e := e |} in L [I (d_k r); of_N (d_e r)]
             | _ => L []
             end]
      | _, _, _, _, _ => bad_input
      end
  | L [I 5%Z; tvals; tobjs; tvs; tin] =>                      (* Enum *)
      match as_list_of as_N tvals, as_list_of as_ekey tobjs, as_bool tvs with
      | Some vals, Some objs, Some vs =>
          let t := {| e_values := vals; e_objects := objs; e_validate_strings := vs |} in
          match tin with
          | L [] => let b := bind_enum t None in
                    L [of_bind of_N b; then_result b (fun w => of_bind of_ekey (result_enum t w))]
          | _ => match as_ekey tin with
                 | Some k => let b := bind_enum t (Some k) in
                             L [of_bind of_N b; then_result b (fun w => of_bind of_ekey (result_enum t w))]
                 | None => bad_input
                 end
          end
      | _, _, _ => bad_input
      end
  | L [I 6%Z; tv] =>                                          (* Uuid(as_uuid=True) as CHAR(32) *)
      match tv with
      | L [] => L [L []; of_bind of_N (result_uuid None)]
      | _ => match as_N tv with
             | Some u => let w := bind_uuid (Some u) in L [of_opt of_str w; of_bind of_N (result_uuid w)]
             | None => bad_input
             end
      end
  | L [I 16%Z; tw] =>
      match as_str tw with Some w => L [of_bind of_N (result_uuid (Some w))] | None => bad_input end
  | L [I 7%Z; te] =>                                          (* processors of a nested column expression *)
      match as_cexpr te with
      | Some e => L [of_list of_step (column_processor e);
                     of_list of_step (match bind_proc (type_of e) with Some p => p | None => [] end)]
      | None => bad_input
      end
  | L [I 7%Z; te; I _] =>                                     (* the same with a NULL stored: the steps do not depend on the value *)
      match as_cexpr te with
      | Some e => L [of_list of_step (column_processor e);
                     of_list of_step (match bind_proc (type_of e) with Some p => p | None => [] end)]
      | None => bad_input
      end
  | L [I 8%Z; tnan; tv] =>                                    (* JSON: document i is dumps'ed to i, None to -1 *)
      match as_bool tnan with
      | Some nan =>
          let go (v : json_in (J := Z)) :=
            let w := bind_json (fun d : Z => d) (-1)%Z nan v in
            L [of_opt (fun z => I z) w;
               of_opt (fun z => if Z.eqb z (-1) then L [] else I z) (result_json (fun d : Z => d) w)] in
          match tv with
          | L [I 0%Z] => go JPyNone
          | L [I 1%Z] => go JJsonNull
          | L [I 2%Z] => go JSqlNull
          | L [I 3%Z; I d] => go (JDoc d)
          | _ => bad_input
          end
      | None => bad_input
      end
  | _ => bad_input
  end.
