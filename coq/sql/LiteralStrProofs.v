(* C05 - string literals: the replace chain is a character-wise encoding; the rendered literal is one
   token denoting exactly the value and leaving the remainder of the statement untouched. *)
From Coq Require Import List NArith ZArith Bool Lia.
Import ListNotations.
From SAV.sql Require Import Literal.
Open Scope N_scope.

(* ------------------------------------------------------------------ replace1 / flat_map *)

Lemma flat_map_cons {A B} (f : A -> list B) x l : flat_map f (x :: l) = f x ++ flat_map f l.
Proof. reflexivity. Qed.

Lemma flat_map_flat_map {A B C} (f : A -> list B) (g : B -> list C) l :
  flat_map g (flat_map f l) = flat_map (fun x => flat_map g (f x)) l.
Proof.
  induction l as [|x l IH]; [reflexivity|].
  rewrite !flat_map_cons, flat_map_app, IH. reflexivity.
Qed.

Lemma replace1_app a b s t : replace1 a b (s ++ t) = replace1 a b s ++ replace1 a b t.
Proof. apply flat_map_app. Qed.

Lemma replace1_single a b c : replace1 a b [c] = if c =? a then b else [c].
Proof. unfold replace1. cbn [flat_map]. rewrite app_nil_r. reflexivity. Qed.

Lemma replace1_absent a b s : forallb (fun c => negb (c =? a)) s = true -> replace1 a b s = s.
Proof.
  induction s as [|c s IH]; intros H; [reflexivity|].
  cbn [forallb] in H. apply andb_prop in H. destruct H as [H1 H2].
  unfold replace1 in *. rewrite flat_map_cons, IH by exact H2.
  destruct (c =? a); [discriminate|reflexivity].
Qed.

(* ------------------------------------------------------------------ the character-wise encoding *)

Definition encc (dp bs : bool) (c : chr) : str :=
  if c =? 39 then [39; 39]
  else if (c =? 37) && dp then [37; 37]
  else if (c =? 92) && bs then [92; 92]
  else [c].
Definition enc (dp bs : bool) (s : str) : str := flat_map (encc dp bs) s.

(* backslash doubling is active: the dialect has the override and the flag is set *)
Definition bs_active (d : dialect) (fl : flags) : bool :=
  match d with MySQL | PG => f_bs fl | _ => false end.

Lemma string_replaces_charwise fl s :
  apply_repls fl string_replaces s = enc (f_dp fl) false s.
Proof.
  unfold apply_repls, string_replaces, enc. cbn [fold_left cond_holds r_when r_from r_to].
  destruct (f_dp fl).
  - unfold replace1 at 1. unfold replace1. rewrite flat_map_flat_map. apply flat_map_ext. intros c.
    unfold encc. destruct (N.eqb_spec c 39) as [->|Hq]; [reflexivity|].
    cbn [flat_map]. rewrite app_nil_r, andb_true_r, andb_false_r.
    destruct (c =? 37); reflexivity.
  - unfold replace1. apply flat_map_ext. intros c. unfold encc.
    rewrite !andb_false_r. destruct (c =? 39); reflexivity.
Qed.

Definition bsc (b : bool) (c : chr) : str := if (c =? 92) && b then [92; 92] else [c].

Lemma dialect_replaces_charwise d fl t :
  apply_repls fl (dialect_replaces d) t = flat_map (bsc (bs_active d fl)) t.
Proof.
  unfold bsc.
  assert (Hid : forall u : str, flat_map (fun c : chr => [c]) u = u).
  { induction u as [|x u IH]; [reflexivity|]. rewrite flat_map_cons, IH. reflexivity. }
  unfold apply_repls, bs_active.
  destruct d; cbn [dialect_replaces fold_left cond_holds r_when r_from r_to];
    try (erewrite flat_map_ext; [symmetry; apply Hid|]; intros c; rewrite andb_false_r; reflexivity).
  all: destruct (f_bs fl).
  all: try (unfold replace1; apply flat_map_ext; intros c; rewrite andb_true_r; reflexivity).
  all: erewrite flat_map_ext; [symmetry; apply Hid|]; intros c; rewrite andb_false_r; reflexivity.
Qed.

Definition nobs (c : chr) : bool := negb (c =? 92).
Lemma dialect_replaces_no_backslash d fl t :
  forallb nobs t = true -> apply_repls fl (dialect_replaces d) t = t.
Proof.
  intros H. rewrite dialect_replaces_charwise. unfold nobs in H.
  induction t as [|c t IH]; [reflexivity|].
  cbn [forallb] in H. apply andb_prop in H. destruct H as [H1 H2].
  rewrite flat_map_cons, IH by exact H2. unfold bsc.
  destruct (c =? 92); [discriminate|reflexivity].
Qed.

(* the whole rendering of a string literal, as one character-wise map between the quotes *)
Lemma render_string_charwise d fl n s :
  render_string d fl n s = string_prefix n ++ 39 :: enc (f_dp fl) (bs_active d fl) s ++ [39].
Proof.
  unfold render_string, string_process. rewrite dialect_replaces_charwise, string_replaces_charwise.
  rewrite !flat_map_app.
  assert (Hp : flat_map (bsc (bs_active d fl)) (string_prefix n) = string_prefix n)
    by (destruct n; reflexivity).
  rewrite Hp. change (flat_map (bsc (bs_active d fl)) [39]) with [39].
  cbn [app]. f_equal. f_equal. f_equal.
  unfold enc. rewrite flat_map_flat_map. apply flat_map_ext. intros c. unfold encc, bsc.
  destruct (N.eqb_spec c 39) as [->|Hq]; [reflexivity|].
  rewrite andb_false_r.
  destruct (N.eqb_spec c 37) as [->|Hp'].
  - destruct (f_dp fl); reflexivity.
  - cbn [andb flat_map]. rewrite app_nil_r. reflexivity.
Qed.

(* ------------------------------------------------------------------ the driver's %% collapse *)

Lemma collapse_cons_ne c r : c <> 37 -> collapse (c :: r) = c :: collapse r.
Proof.
  intros H. cbn [collapse]. destruct r as [|c2 r2]; [reflexivity|].
  destruct (N.eqb_spec c 37); [contradiction|reflexivity].
Qed.
Lemma collapse_pct_pct r : collapse (37 :: 37 :: r) = 37 :: collapse r.
Proof. reflexivity. Qed.

Lemma collapse_enc bs s t :
  collapse (enc true bs s ++ t) = enc false bs s ++ collapse t.
Proof.
  unfold enc. induction s as [|c s IH]; [reflexivity|].
  rewrite !flat_map_cons, <- !app_assoc. unfold encc at 1 3.
  destruct (N.eqb_spec c 39) as [->|Hq].
  - cbn [app]. rewrite !collapse_cons_ne by discriminate. rewrite IH. reflexivity.
  - destruct (N.eqb_spec c 37) as [->|Hp].
    + cbn [andb app]. rewrite collapse_pct_pct, IH.
      change ((37 =? 92) && bs) with false. reflexivity.
    + cbn [andb]. destruct (N.eqb_spec c 92) as [->|Hb].
      * destruct bs; cbn [andb app]; rewrite !collapse_cons_ne by discriminate; rewrite IH; reflexivity.
      * cbn [andb app]. rewrite collapse_cons_ne by exact Hp. rewrite IH. reflexivity.
Qed.

Lemma collapse_no_quote rest : no_quote_prefix rest -> no_quote_prefix (collapse rest).
Proof.
  destruct rest as [|c r]; [trivial|]. intros H. cbn [collapse].
  destruct r as [|c2 r2]; [exact H|].
  destruct ((c =? 37) && (c2 =? 37)) eqn:E; [|exact H].
  cbn. discriminate.
Qed.

(* ------------------------------------------------------------------ the lexer on an encoded body *)

Lemma scan_N_q em acc r : scan em Normal acc (39 :: r) = scan em AfterQ acc r.
Proof. reflexivity. Qed.
Lemma scan_Q_q em acc r : scan em AfterQ acc (39 :: r) = scan em Normal (39 :: acc) r.
Proof. reflexivity. Qed.
Lemma scan_N_bs em acc r : esc_on em = true -> scan em Normal acc (92 :: r) = scan em AfterBS acc r.
Proof. destruct em; [discriminate| |]; reflexivity. Qed.
Lemma scan_BS_bs em acc r : esc_on em = true -> scan em AfterBS acc (92 :: r) = scan em Normal (92 :: acc) r.
Proof. destruct em; [discriminate| |]; reflexivity. Qed.
Lemma scan_N_other em acc c r : c <> 39 -> (c =? 92) && esc_on em = false ->
  scan em Normal acc (c :: r) = scan em Normal (c :: acc) r.
Proof.
  intros H1 H2. cbn [scan]. destruct (N.eqb_spec c 39); [contradiction|]. rewrite H2. reflexivity.
Qed.
Lemma scan_Q_end em acc rest : no_quote_prefix rest -> scan em AfterQ acc rest = Some (rev acc, rest).
Proof.
  destruct rest as [|c r]; intros H; [reflexivity|]. cbn [scan].
  destruct (N.eqb_spec c 39); [contradiction|reflexivity].
Qed.

Lemma scan_enc em s : forall acc rest, no_quote_prefix rest ->
  scan em Normal acc (enc false (esc_on em) s ++ 39 :: rest) = Some (rev acc ++ s, rest).
Proof.
  unfold enc. induction s as [|c s IH]; intros acc rest Hr.
  - cbn [flat_map app]. rewrite scan_N_q, scan_Q_end by exact Hr. rewrite app_nil_r. reflexivity.
  - rewrite flat_map_cons, <- app_assoc. unfold encc at 1.
    destruct (N.eqb_spec c 39) as [->|Hq].
    + cbn [app]. rewrite scan_N_q, scan_Q_q, IH by exact Hr.
      cbn [rev]. rewrite <- app_assoc. reflexivity.
    + rewrite andb_false_r. destruct ((c =? 92) && esc_on em) eqn:E.
      * apply andb_prop in E. destruct E as [E1 E2]. apply N.eqb_eq in E1. subst c.
        cbn [app]. rewrite scan_N_bs, scan_BS_bs, IH by assumption.
        cbn [rev]. rewrite <- app_assoc. reflexivity.
      * cbn [app]. rewrite scan_N_other, IH by assumption.
        cbn [rev]. rewrite <- app_assoc. reflexivity.
Qed.

Lemma server_esc_on d fl : esc_on (lm_esc (server d fl)) = bs_active d fl.
Proof. destruct d; cbn [server lm_esc bs_active]; try reflexivity; destruct (f_bs fl); reflexivity. Qed.

(* ------------------------------------------------------------------ the round trip *)

Theorem string_literal_roundtrip : forall d fl n s rest,
  (n = true -> d = MSSQL) ->
  no_quote_prefix rest ->
  lex_str (server d fl) (driver fl (render_string d fl n s ++ rest)) = Some (s, driver fl rest).
Proof.
  intros d fl n s rest Hn Hr. rewrite render_string_charwise.
  assert (Hbody : forall rest', no_quote_prefix rest' ->
            lex_str (server d fl) (string_prefix n ++ 39 :: enc false (bs_active d fl) s ++ 39 :: rest')
            = Some (s, rest')).
  { intros rest' Hr'. rewrite <- server_esc_on.
    destruct n; cbn [string_prefix app lex_str].
    - rewrite (Hn eq_refl). cbn [server lm_n lm_esc]. apply (scan_enc EscNone s [] rest' Hr').
    - apply (scan_enc _ s [] rest' Hr'). }
  unfold driver. destruct (f_dp fl) eqn:Edp.
  - replace ((string_prefix n ++ 39 :: enc true (bs_active d fl) s ++ [39]) ++ rest)
      with (string_prefix n ++ 39 :: (enc true (bs_active d fl) s ++ 39 :: rest))
      by (rewrite <- !app_assoc; cbn [app]; rewrite <- app_assoc; reflexivity).
    assert (Hc : collapse (string_prefix n ++ 39 :: (enc true (bs_active d fl) s ++ 39 :: rest))
                 = string_prefix n ++ 39 :: enc false (bs_active d fl) s ++ 39 :: collapse rest).
    { destruct n; cbn [string_prefix app]; rewrite !collapse_cons_ne by discriminate;
        rewrite collapse_enc, collapse_cons_ne by discriminate; reflexivity. }
    rewrite Hc. apply Hbody. apply collapse_no_quote. exact Hr.
  - replace ((string_prefix n ++ 39 :: enc false (bs_active d fl) s ++ [39]) ++ rest)
      with (string_prefix n ++ 39 :: enc false (bs_active d fl) s ++ 39 :: rest)
      by (rewrite <- !app_assoc; cbn [app]; rewrite <- app_assoc; reflexivity).
    apply Hbody. exact Hr.
Qed.

(* a value whose characters need no escaping is rendered verbatim between the quotes *)
Definition plainc (c : chr) : bool := negb (c =? 39) && negb (c =? 37) && negb (c =? 92).
Lemma enc_plain dp bs s : forallb plainc s = true -> enc dp bs s = s.
Proof.
  unfold enc. induction s as [|c s IH]; intros H; [reflexivity|].
  cbn [forallb] in H. apply andb_prop in H. destruct H as [H1 H2].
  rewrite flat_map_cons, IH by exact H2. unfold encc, plainc in *.
  destruct (c =? 39); [discriminate|]. destruct (c =? 37); [discriminate|].
  destruct (c =? 92); [discriminate|]. reflexivity.
Qed.

(* ------------------------------------------------------------------ when the flag is wrong *)

(* the server treats backslash as an escape character but the dialect's flag says it does not:
   the value  \' OR 1=1 --   ends the literal early (the reason the flag exists) *)
Definition inj_value : str := [92; 39; 32; 79; 82; 32; 49; 61; 49; 32; 45; 45; 32].
Lemma backslash_flag_mismatch :
  lex_str (mkLex EscMySQL false) (render_string MySQL (mkFlags false false) false inj_value)
  = Some ([39], [32; 79; 82; 32; 49; 61; 49; 32; 45; 45; 32; 39]).
Proof. vm_compute. reflexivity. Qed.

(* the dialect doubles percent signs but the driver does not collapse them (or conversely): the
   value changes *)
Lemma percent_flag_mismatch :
  lex_str (mkLex EscNone false) (render_string SQLite (mkFlags true false) false [37]) = Some ([37; 37], []).
Proof. vm_compute. reflexivity. Qed.

(* ------------------------------------------------------------------ through render_literal_value *)

Lemma unicode_n_mssql d t s : unicode_n d t s = true -> d = MSSQL.
Proof. unfold unicode_n. destruct d; try discriminate. reflexivity. Qed.

Theorem string_value_roundtrip : forall d fl t s rest lit,
  render_value d fl (VStr t s) = Ok lit ->
  no_quote_prefix rest ->
  lex_str (server d fl) (driver fl (lit ++ rest)) = Some (s, driver fl rest).
Proof.
  intros d fl t s rest lit H Hr. cbn [render_value] in H. inversion H; subst lit.
  apply string_literal_roundtrip; [apply unicode_n_mssql|exact Hr].
Qed.
