(* C13 - executemany: all parameter sets, by induction; the required-bind error; the ORM parameter
   collection. *)
From Coq Require Import List ZArith Bool Lia PeanoNat.
Import ListNotations.
From SAV.sql Require Import Defaults DefaultsProofs.
Open Scope Z_scope.

Section M.
Variable cval : nat -> nat -> Z.
Variable ctxval : nat -> pset -> nat -> Z.
Variable sqlval : nat -> Z.
Variable srvval : nat -> Z.
Notation fire := (fire cval ctxval).
Notation fire_all := (fire_all cval ctxval).
Notation stored := (stored sqlval srvval).
Notation row_of := (row_of sqlval srvval).
Notation core_exec := (core_exec cval ctxval sqlval srvval).
Notation default_ok := (default_ok cval ctxval sqlval srvval).

(* how many prefetch columns call [f] (0 or 1 when no two columns share a callable) *)
Definition nuses (p0 : pset) (cols : list col) (f : nat) : nat := length (filter (uses p0 f) cols).

Lemma construct_all_ok : forall p0 cols ps g,
  (forall p, In p ps -> keys_agree cols p0 p) ->
  exists cps, construct_all p0 g cols ps = Ok cps /\
              Forall2 (fun p t => exists g', construct p0 g' cols p = Ok t) ps cps.
Proof.
  intros p0 cols. induction ps as [|p r IH]; intros g H; [exists []; split; [reflexivity|constructor]|].
  destruct (construct_ok p0 g cols p) as [t Ht].
  { intros c Hin Hh. rewrite (H p (or_introl eq_refl) c Hin). exact Hh. }
  destruct (IH (S g) (fun q Hq => H q (or_intror Hq))) as [cps [Hc HF]].
  exists (t :: cps). cbn [construct_all]. rewrite Ht, Hc. split; [reflexivity|]. constructor; eauto.
Qed.

Lemma fire_all_spec : forall p0 cols cps cs,
  let '(fps, cs') := fire_all p0 cols cps cs in
  length fps = length cps /\
  (forall f, count f cs' = (count f cs + length cps * nuses p0 cols f)%nat) /\
  (forall i t, nth_error cps i = Some t ->
     exists csi, (forall f, count f csi = (count f cs + i * nuses p0 cols f)%nat) /\
                 nth_error fps i = Some (fst (fire p0 cols t csi))).
Proof.
  intros p0 cols. induction cps as [|t r IH]; intros cs.
  - cbn [Defaults.fire_all]. split; [reflexivity|]. split; [intros; cbn; lia|]. intros [|i] t H; discriminate H.
  - cbn [Defaults.fire_all]. destruct (fire p0 cols t cs) as [t' cs1] eqn:E1.
    specialize (IH cs1). destruct (fire_all p0 cols r cs1) as [r' cs2] eqn:E2.
    destruct IH as [IH1 [IH2 IH3]].
    assert (C1 : forall f, count f cs1 = (count f cs + nuses p0 cols f)%nat).
    { intros f. pose proof (fire_count cval ctxval p0 cols t cs f) as X. rewrite E1 in X. exact X. }
    split; [cbn [length]; lia|]. split.
    + intros f. rewrite IH2, C1. cbn [length]. lia.
    + intros [|i] u H.
      * inversion H; subst. exists cs. split; [intros; lia|]. cbn [nth_error]. rewrite E1. reflexivity.
      * cbn [nth_error] in H. destruct (IH3 i u H) as [csi [A B]]. exists csi. split; [|exact B].
        intros f. rewrite A, C1. lia.
Qed.

Lemma get_row_of : forall p0 old cols params c, distinct_keys cols = true -> In c cols ->
  get (ckey c) (row_of p0 old cols params) = Some (stored p0 old params c).
Proof.
  intros p0 old. induction cols as [|c0 r IH]; intros params c Hk Hin; [destruct Hin|].
  unfold Defaults.row_of in *. cbn [map get]. destruct Hin as [->|Hin].
  - rewrite Nat.eqb_refl. reflexivity.
  - pose proof (distinct_keys_notin c0 r Hk c Hin) as Hne.
    destruct (Nat.eqb (ckey c) (ckey c0)) eqn:E; [apply Nat.eqb_eq in E; exfalso; auto|].
    apply IH; auto. cbn [distinct_keys] in Hk. apply andb_prop in Hk. apply Hk.
Qed.

Lemma nuses_one : forall p0 cols c f, distinct_fns cols = true -> In c cols ->
  plan_col p0 c = SPrefetch -> fn_of c = Some f -> nuses p0 cols f = 1%nat.
Proof.
  intros p0. unfold nuses. induction cols as [|c0 r IH]; intros c f Hf Hin Hp Hfn; [destruct Hin|].
  assert (Hf' : distinct_fns r = true) by (cbn [distinct_fns] in Hf; apply andb_prop in Hf; apply Hf).
  cbn [filter]. destruct Hin as [->|Hin].
  - unfold uses at 1. rewrite Hp, Hfn, Nat.eqb_refl. cbn [is_prefetch andb length]. f_equal.
    destruct (filter (uses p0 f) r) as [|c' t] eqn:E; [reflexivity|].
    assert (In c' (filter (uses p0 f) r)) as X by (rewrite E; left; reflexivity).
    apply filter_In in X. destruct X as [Hin' Hu]. unfold uses in Hu. apply andb_prop in Hu. destruct Hu as [_ Hu].
    destruct (fn_of c') as [f'|] eqn:E'; [|discriminate Hu]. apply Nat.eqb_eq in Hu. subst f'.
    exfalso. apply (distinct_fns_notin c r f Hf Hfn c' Hin' E').
  - assert (uses p0 f c0 = false) as ->; [|apply (IH c f Hf' Hin Hp Hfn)].
    unfold uses. destruct (fn_of c0) as [f0|] eqn:E0; [|apply andb_false_r].
    destruct (Nat.eqb f f0) eqn:E; [|apply andb_false_r]. apply Nat.eqb_eq in E. subst f0.
    exfalso. apply (distinct_fns_notin c0 r f Hf E0 c Hin Hfn).
Qed.
Lemma nuses_zero : forall p0 cols f,
  (forall c, In c cols -> fn_of c = Some f -> is_prefetch (plan_col p0 c) = false) -> nuses p0 cols f = 0%nat.
Proof.
  intros p0 cols f H. unfold nuses. destruct (filter (uses p0 f) cols) as [|c' t] eqn:E; [reflexivity|].
  assert (In c' (filter (uses p0 f) cols)) as X by (rewrite E; left; reflexivity).
  apply filter_In in X. destruct X as [Hin Hu]. unfold uses in Hu. apply andb_prop in Hu. destruct Hu as [Hp Hu].
  destruct (fn_of c') as [f'|] eqn:E'; [|discriminate Hu]. apply Nat.eqb_eq in Hu. subst f'.
  rewrite (H c' Hin E') in Hp. discriminate Hp.
Qed.

Lemma nth_error_map_combine : forall A B C (f : A * B -> C) (l1 : list A) (l2 : list B) i a b,
  nth_error l1 i = Some a -> nth_error l2 i = Some b ->
  nth_error (map f (combine l1 l2)) i = Some (f (a, b)).
Proof.
  intros A B C f. induction l1 as [|x l1 IH]; intros l2 i a b H1 H2; [destruct i; discriminate H1|].
  destruct l2 as [|y l2]; [destruct i; discriminate H2|]. destruct i as [|i]; cbn in *.
  - inversion H1; inversion H2; subst. reflexivity.
  - apply IH; auto.
Qed.
Lemma Forall2_nth : forall A B (R : A -> B -> Prop) l1 l2 i a, Forall2 R l1 l2 -> nth_error l1 i = Some a ->
  exists b, nth_error l2 i = Some b /\ R a b.
Proof.
  intros A B R l1 l2 i a H. revert i a. induction H as [|x y l1 l2 Hxy H IH]; intros i a Hn; [destruct i; discriminate Hn|].
  destruct i as [|i]; cbn in *; [inversion Hn; subst; eauto|apply IH, Hn].
Qed.

Lemma Forall2_len : forall A B (R : A -> B -> Prop) l1 l2, Forall2 R l1 l2 -> length l1 = length l2.
Proof. intros A B R l1 l2 H. induction H; cbn; auto. Qed.

(* ---- executemany under the documented precondition ---- *)
Theorem executemany_spec : forall cols p0 rest olds cs,
  distinct_keys cols = true -> distinct_fns cols = true ->
  (forall p, In p (p0 :: rest) -> keys_agree cols p0 p) ->
  length olds = length (p0 :: rest) ->
  exists rows cs',
    core_exec cols (p0 :: rest) olds cs = Ok (rows, cs') /\
    length rows = length (p0 :: rest) /\
    (forall f, count f cs' = (count f cs + length (p0 :: rest) * nuses p0 cols f)%nat) /\
    (forall i p old, nth_error (p0 :: rest) i = Some p -> nth_error olds i = Some old ->
       exists row, nth_error rows i = Some row /\
         forall c, In c cols ->
           (forall v, get (ckey c) p = Some v -> get (ckey c) row = Some v) /\
           (get (ckey c) p = None ->
              exists pr v, get (ckey c) row = Some v /\
                           default_ok old c p pr (fn_count c cs + i) v /\
                           (forall c' v', In c' cols -> get (ckey c') p = Some v' -> get (ckey c') pr = Some v'))).
Proof.
  intros cols p0 rest olds cs Hk Hf Ha Hl.
  destruct (construct_all_ok p0 cols (p0 :: rest) O Ha) as [cps [Hc HF]].
  unfold Defaults.core_exec. rewrite Hc. cbn [bind].
  pose proof (fire_all_spec p0 cols cps cs) as FS. destruct (fire_all p0 cols cps cs) as [fps cs'] eqn:E.
  destruct FS as [F1 [F2 F3]].
  assert (Lc : length cps = length (p0 :: rest)) by (symmetry; apply (Forall2_len _ _ _ _ _ HF)).
  eexists. eexists. split; [reflexivity|]. split; [rewrite map_length, combine_length; lia|].
  split; [intros f; rewrite F2, Lc; reflexivity|].
  intros i p old Hp Ho. destruct (Forall2_nth _ _ _ _ _ i p HF Hp) as [t [Ht [g' Hct]]].
  destruct (F3 i t Ht) as [csi [Hcnt Hfp]].
  eexists. split; [apply (nth_error_map_combine _ _ _ _ fps olds i _ old Hfp Ho)|].
  cbn [fst snd]. intros c Hin.
  assert (Hag : keys_agree cols p0 p) by (apply Ha; eapply nth_error_In; eauto).
  pose proof (row_spec cval ctxval sqlval srvval p0 g' cols p t csi old c Hk Hf Hag Hct Hin) as [RS1 RS2].
  rewrite (get_row_of p0 old cols _ c Hk Hin). split.
  - intros v Hv. f_equal. apply RS1, Hv.
  - intros Hn. destruct (RS2 Hn) as [pr [D A]]. exists pr. eexists. split; [reflexivity|]. split; [|exact A].
    (* the column is omitted: if it has a callable, exactly this column uses it *)
    destruct (fn_of c) as [f|] eqn:Efn.
    + assert (fn_count c csi = (fn_count c cs + i)%nat) as <-; [|exact D].
      unfold fn_count. rewrite Efn, Hcnt. assert (Hpre : plan_col p0 c = SPrefetch).
      { unfold plan_col. assert (has (ckey c) p0 = false) as ->.
        { rewrite <- (Hag c Hin). unfold has. rewrite Hn. reflexivity. }
        unfold fn_of in Efn. destruct (cdef c); try discriminate Efn; reflexivity. }
      rewrite (nuses_one p0 cols c f Hf Hin Hpre Efn). lia.
    + unfold Defaults.default_ok in *. unfold fn_of in Efn. destruct (cdef c); try discriminate Efn; exact D.
Qed.

(* a single execution *)
Theorem single_spec : forall cols p old cs,
  distinct_keys cols = true -> distinct_fns cols = true ->
  exists row cs',
    core_exec cols [p] [old] cs = Ok ([row], cs') /\
    forall c, In c cols ->
      (forall v, get (ckey c) p = Some v -> get (ckey c) row = Some v) /\
      (get (ckey c) p = None ->
         exists pr v, get (ckey c) row = Some v /\ default_ok old c p pr (fn_count c cs) v /\
                      (forall c' v', In c' cols -> get (ckey c') p = Some v' -> get (ckey c') pr = Some v')).
Proof.
  intros cols p old cs Hk Hf.
  destruct (executemany_spec cols p [] [old] cs Hk Hf) as [rows [cs' [E [L [_ R]]]]].
  { intros q [<-|[]] c _. reflexivity. }
  { reflexivity. }
  destruct (R O p old eq_refl eq_refl) as [row [Hr Hc]].
  destruct rows as [|r0 [|r1 rows]]; try discriminate L. cbn in Hr. inversion Hr; subst r0.
  exists row, cs'. split; [exact E|]. intros c Hin. destruct (Hc c Hin) as [A B]. split; [exact A|].
  intros Hn. destruct (B Hn) as [pr [v [G [D Ag]]]]. exists pr, v. rewrite Nat.add_0_r in D. auto.
Qed.

(* supplied_none_not_overridden (Core, any row of a homogeneous executemany) *)
Theorem supplied_none_kept : forall cols p0 rest olds cs i p old c,
  distinct_keys cols = true -> distinct_fns cols = true ->
  (forall q, In q (p0 :: rest) -> keys_agree cols p0 q) ->
  length olds = length (p0 :: rest) ->
  nth_error (p0 :: rest) i = Some p -> nth_error olds i = Some old -> In c cols ->
  get (ckey c) p = Some None ->
  exists rows cs' row, core_exec cols (p0 :: rest) olds cs = Ok (rows, cs') /\ nth_error rows i = Some row /\
                       get (ckey c) row = Some None.
Proof.
  intros cols p0 rest olds cs i p old c Hk Hf Ha Hl Hp Ho Hin Hn.
  destruct (executemany_spec cols p0 rest olds cs Hk Hf Ha Hl) as [rows [cs' [E [_ [_ R]]]]].
  destruct (R i p old Hp Ho) as [row [Hr Hc]]. exists rows, cs', row. split; [exact E|]. split; [exact Hr|].
  apply (proj1 (Hc c Hin)), Hn.
Qed.

(* callable_called_once_per_omitting_row *)
Theorem calls_once_per_row : forall cols p0 rest olds cs c f,
  distinct_keys cols = true -> distinct_fns cols = true ->
  (forall p, In p (p0 :: rest) -> keys_agree cols p0 p) ->
  length olds = length (p0 :: rest) -> In c cols -> fn_of c = Some f ->
  exists rows cs', core_exec cols (p0 :: rest) olds cs = Ok (rows, cs') /\
    count f cs' = (count f cs + if has (ckey c) p0 then 0 else length (p0 :: rest))%nat.
Proof.
  intros cols p0 rest olds cs c f Hk Hf Ha Hl Hin Hfn.
  destruct (executemany_spec cols p0 rest olds cs Hk Hf Ha Hl) as [rows [cs' [E [_ [Hc _]]]]].
  exists rows, cs'. split; [exact E|]. rewrite Hc. destruct (has (ckey c) p0) eqn:Hh.
  - rewrite nuses_zero; [lia|]. intros c' Hin' Hfn'.
    destruct (plan_col p0 c') eqn:Ep; try reflexivity. exfalso.
    (* c' is prefetch and uses f: it must be c, which is a bind *)
    assert (c' = c \/ c' <> c) as [->|N].
    { destruct c' as [k1 d1], c as [k2 d2]. destruct (Nat.eq_dec k1 k2) as [->|Nk]; [|right; intros X; inversion X; auto].
      unfold fn_of in *. cbn [cdef] in *.
      destruct d1, d2; try discriminate Hfn; try discriminate Hfn'; inversion Hfn; inversion Hfn'; subst;
        try (left; reflexivity); right; discriminate. }
    + apply plan_bind in Hh. rewrite Hh in Ep. discriminate Ep.
    + clear - Hf Hin Hin' Hfn Hfn' N. induction cols as [|c0 r IH]; [destruct Hin|].
      assert (Hf' : distinct_fns r = true) by (cbn [distinct_fns] in Hf; apply andb_prop in Hf; apply Hf).
      destruct Hin as [->|Hin], Hin' as [->|Hin'].
      * apply N. reflexivity.
      * apply (distinct_fns_notin c r f Hf Hfn c' Hin' Hfn').
      * apply (distinct_fns_notin c' r f Hf Hfn' c Hin Hfn).
      * apply IH; auto.
  - assert (Hp : plan_col p0 c = SPrefetch).
    { unfold plan_col. rewrite Hh. unfold fn_of in Hfn. destruct (cdef c); try discriminate Hfn; reflexivity. }
    rewrite (nuses_one p0 cols c f Hf Hin Hp Hfn). lia.
Qed.

(* ---- a later set that lacks a key of the first: error, raised before any default fires ---- *)
Lemma construct_missing : forall p0 g cols p,
  (exists c, In c cols /\ has (ckey c) p0 = true /\ has (ckey c) p = false) ->
  exists k, construct p0 g cols p = Err (ERequired g k) /\ has k p0 = true /\ has k p = false.
Proof.
  intros p0 g. induction cols as [|c0 r IH]; intros p [c [Hin [H0 Hp]]]; [destruct Hin|].
  cbn [construct]. destruct (plan_col p0 c0) eqn:Ep.
  - destruct (get (ckey c0) p) as [v|] eqn:Eg.
    + destruct Hin as [->|Hin]; [unfold has in Hp; rewrite Eg in Hp; discriminate Hp|].
      destruct (IH p (ex_intro _ c (conj Hin (conj H0 Hp)))) as [k [E [A B]]]. exists k. rewrite E. auto.
    + exists (ckey c0). split; [reflexivity|]. split; [apply plan_bind, Ep|unfold has; rewrite Eg; reflexivity].
  - destruct Hin as [->|Hin]; [apply plan_bind in H0; rewrite H0 in Ep; discriminate Ep|].
    destruct (IH p (ex_intro _ c (conj Hin (conj H0 Hp)))) as [k [E [A B]]]. exists k. rewrite E. auto.
  - destruct Hin as [->|Hin]; [apply plan_bind in H0; rewrite H0 in Ep; discriminate Ep|].
    apply IH. eauto.
  - destruct Hin as [->|Hin]; [apply plan_bind in H0; rewrite H0 in Ep; discriminate Ep|].
    apply IH. eauto.
Qed.

Theorem missing_key_error : forall cols p0 p olds cs,
  (exists c, In c cols /\ has (ckey c) p0 = true /\ has (ckey c) p = false) ->
  exists k, core_exec cols [p0; p] olds cs = Err (ERequired 1 k) /\ has k p0 = true /\ has k p = false.
Proof.
  intros cols p0 p olds cs Hm. unfold Defaults.core_exec. cbn [construct_all].
  destruct (construct_ok p0 O cols p0 (fun c _ H => H)) as [t0 Ht0]. rewrite Ht0. cbn [bind].
  destruct (construct_missing p0 1%nat cols p Hm) as [k [E [A B]]]. exists k. rewrite E. auto.
Qed.

(* ---- ORM parameter collection ---- *)
Lemma get_flat_map_notin : forall k (cols : list col) (F : col -> pset),
  (forall c, In c cols -> forall kv, In kv (F c) -> fst kv = ckey c) ->
  (forall c, In c cols -> ckey c <> k) -> get k (flat_map F cols) = None.
Proof.
  intros k cols F HF Hn. induction cols as [|c r IH]; [reflexivity|]. cbn [flat_map].
  assert (forall l, (forall kv, In kv l -> fst kv <> k) -> forall q, get k (l ++ q) = get k q) as X.
  { induction l as [|[k' v'] l IHl]; intros Hl q; [reflexivity|]. cbn [app get].
    destruct (Nat.eqb k k') eqn:E; [apply Nat.eqb_eq in E; exfalso; apply (Hl (k', v') (or_introl eq_refl)); auto|].
    apply IHl. intros kv Hkv. apply Hl. right. exact Hkv. }
  rewrite X; [apply IH; intros; [eapply HF|apply Hn]; try right; eauto|].
  intros kv Hkv. rewrite (HF c (or_introl eq_refl) kv Hkv). apply Hn. left. reflexivity.
Qed.

Lemma orm_insert_params_get : forall cols attrs c, distinct_keys cols = true -> In c cols ->
  get (ckey c) (orm_insert_params cols attrs) =
    match get (ckey c) attrs with
    | Some (Some z) => Some (Some z)
    | _ => if no_default c && negb (Nat.eqb (ckey c) O) then Some None else None
    end.
Proof.
  induction cols as [|c0 r IH]; intros attrs c Hk Hin; [destruct Hin|].
  assert (Hk' : distinct_keys r = true) by (cbn [distinct_keys] in Hk; apply andb_prop in Hk; apply Hk).
  unfold orm_insert_params in *. cbn [flat_map]. destruct Hin as [->|Hin].
  - set (F := fun c1 : col => match get (ckey c1) attrs with
                               | Some (Some z) => [(ckey c1, Some z)]
                               | _ => if no_default c1 && negb (Nat.eqb (ckey c1) O) then [(ckey c1, None)] else []
                               end).
    assert (Hrest : get (ckey c) (flat_map F r) = None).
    { apply get_flat_map_notin.
      - intros c1 _ kv Hkv. unfold F in Hkv. destruct (get (ckey c1) attrs) as [[z|]|];
          [destruct Hkv as [<-|[]]; reflexivity| |];
          (destruct (no_default c1 && negb (Nat.eqb (ckey c1) O)); [destruct Hkv as [<-|[]]; reflexivity|destruct Hkv]).
      - intros c1 Hc1 E. apply (distinct_keys_notin c r Hk c1 Hc1). auto. }
    fold F. destruct (get (ckey c) attrs) as [[z|]|]; cbn [app get]; rewrite ?Nat.eqb_refl; try reflexivity;
      (destruct (no_default c && negb (Nat.eqb (ckey c) O)); cbn [app get]; rewrite ?Nat.eqb_refl; [reflexivity|exact Hrest]).
  - pose proof (distinct_keys_notin c0 r Hk c Hin) as Hne.
    assert (forall l : pset, (forall kv, In kv l -> fst kv = ckey c0) -> forall q, get (ckey c) (l ++ q) = get (ckey c) q) as X.
    { induction l as [|[k' v'] l IHl]; intros Hl q; [reflexivity|]. cbn [app get].
      pose proof (Hl (k', v') (or_introl eq_refl)) as E. cbn [fst] in E. subst k'.
      destruct (Nat.eqb (ckey c) (ckey c0)) eqn:E2; [apply Nat.eqb_eq in E2; exfalso; auto|].
      apply IHl. intros kv Hkv. apply Hl. right. exact Hkv. }
    rewrite X; [apply (IH attrs c Hk' Hin)|].
    intros kv Hkv. destruct (get (ckey c0) attrs) as [[z|]|];
      [destruct Hkv as [<-|[]]; reflexivity| |];
      (destruct (no_default c0 && negb (Nat.eqb (ckey c0) O)); [destruct Hkv as [<-|[]]; reflexivity|destruct Hkv]).
Qed.

Lemma orm_update_params_get : forall cols old attrs c, distinct_keys cols = true -> In c cols -> ckey c <> O ->
  get (ckey c) (orm_update_params cols old attrs) =
    match get (ckey c) attrs with
    | Some v => if val_eqb v (match get (ckey c) old with Some o => o | None => None end) then None else Some v
    | None => None
    end.
Proof.
  induction cols as [|c0 r IH]; intros old attrs c Hk Hin Hnz; [destruct Hin|].
  assert (Hk' : distinct_keys r = true) by (cbn [distinct_keys] in Hk; apply andb_prop in Hk; apply Hk).
  unfold orm_update_params in *. cbn [flat_map].
  set (F := fun c1 : col => if Nat.eqb (ckey c1) O then [(O, match get O old with Some v => v | None => None end)]
                             else match get (ckey c1) attrs with
                                  | Some v => if val_eqb v (match get (ckey c1) old with Some o => o | None => None end)
                                              then [] else [(ckey c1, v)]
                                  | None => []
                                  end).
  assert (HF : forall c1 kv, In kv (F c1) -> fst kv = ckey c1).
  { intros c1 kv Hkv. unfold F in Hkv. destruct (Nat.eqb (ckey c1) O) eqn:E0.
    - destruct Hkv as [<-|[]]. cbn. apply Nat.eqb_eq in E0. auto.
    - destruct (get (ckey c1) attrs) as [v|]; [|destruct Hkv].
      destruct (val_eqb v _); [destruct Hkv|destruct Hkv as [<-|[]]; reflexivity]. }
  fold F. destruct Hin as [->|Hin].
  - assert (Hrest : get (ckey c) (flat_map F r) = None).
    { apply get_flat_map_notin; [intros c1 _ kv Hkv; apply HF, Hkv|].
      intros c1 Hc1 E. apply (distinct_keys_notin c r Hk c1 Hc1). auto. }
    unfold F at 1. apply Nat.eqb_neq in Hnz. rewrite Hnz.
    destruct (get (ckey c) attrs) as [v|]; [|exact Hrest].
    destruct (val_eqb v _); cbn [app get]; rewrite ?Nat.eqb_refl; [exact Hrest|reflexivity].
  - pose proof (distinct_keys_notin c0 r Hk c Hin) as Hne.
    assert (forall l : pset, (forall kv, In kv l -> fst kv = ckey c0) -> forall q, get (ckey c) (l ++ q) = get (ckey c) q) as X.
    { induction l as [|[k' v'] l IHl]; intros Hl q; [reflexivity|]. cbn [app get].
      pose proof (Hl (k', v') (or_introl eq_refl)) as E. cbn [fst] in E. subst k'.
      destruct (Nat.eqb (ckey c) (ckey c0)) eqn:E2; [apply Nat.eqb_eq in E2; exfalso; auto|].
      apply IHl. intros kv Hkv. apply Hl. right. exact Hkv. }
    rewrite X; [apply (IH old attrs c Hk' Hin Hnz)|]. intros kv Hkv. apply HF, Hkv.
Qed.

Lemma orm_bulk_update_params_get : forall cols m c, distinct_keys cols = true -> In c cols ->
  get (ckey c) (orm_bulk_update_params cols m) = get (ckey c) m.
Proof.
  induction cols as [|c0 r IH]; intros m c Hk Hin; [destruct Hin|].
  assert (Hk' : distinct_keys r = true) by (cbn [distinct_keys] in Hk; apply andb_prop in Hk; apply Hk).
  unfold orm_bulk_update_params in *. cbn [flat_map].
  set (F := fun c1 : col => match get (ckey c1) m with Some v => [(ckey c1, v)] | None => [] end).
  assert (HF : forall c1 kv, In kv (F c1) -> fst kv = ckey c1).
  { intros c1 kv Hkv. unfold F in Hkv. destruct (get (ckey c1) m); [destruct Hkv as [<-|[]]; reflexivity|destruct Hkv]. }
  fold F. destruct Hin as [->|Hin].
  - assert (Hrest : get (ckey c) (flat_map F r) = None).
    { apply get_flat_map_notin; [intros c1 _ kv Hkv; apply HF, Hkv|].
      intros c1 Hc1 E. apply (distinct_keys_notin c r Hk c1 Hc1). auto. }
    unfold F at 1. destruct (get (ckey c) m) as [v|]; cbn [app get]; rewrite ?Nat.eqb_refl; [reflexivity|exact Hrest].
  - pose proof (distinct_keys_notin c0 r Hk c Hin) as Hne.
    assert (forall l : pset, (forall kv, In kv l -> fst kv = ckey c0) -> forall q, get (ckey c) (l ++ q) = get (ckey c) q) as X.
    { induction l as [|[k' v'] l IHl]; intros Hl q; [reflexivity|]. cbn [app get].
      pose proof (Hl (k', v') (or_introl eq_refl)) as E. cbn [fst] in E. subst k'.
      destruct (Nat.eqb (ckey c) (ckey c0)) eqn:E2; [apply Nat.eqb_eq in E2; exfalso; auto|].
      apply IHl. intros kv Hkv. apply Hl. right. exact Hkv. }
    rewrite X; [apply (IH m c Hk' Hin)|]. intros kv Hkv. apply HF, Hkv.
Qed.

(* every group the unit of work emits is homogeneous: the executemany theorem applies to each statement *)
Lemma take_group_same : forall cols p0 ps g t, take_group cols p0 ps = (g, t) ->
  (forall x, In x g -> same_keys cols p0 (fst x) = true) /\ ps = g ++ t.
Proof.
  intros cols p0. induction ps as [|x r IH]; intros g t H; cbn [take_group] in H.
  - inversion H. split; [intros x []|reflexivity].
  - destruct (same_keys cols p0 (fst x)) eqn:E.
    + destruct (take_group cols p0 r) as [g' t'] eqn:E'. inversion H; subst. destruct (IH g' t eq_refl) as [A B].
      split; [intros y [<-|Hy]; auto|]. cbn [app]. f_equal. exact B.
    + inversion H; subst. split; [intros y []|reflexivity].
Qed.
Lemma same_keys_agree : forall cols a b, same_keys cols a b = true -> keys_agree cols a b.
Proof.
  intros cols a b H c Hin. unfold same_keys in H. rewrite forallb_forall in H.
  specialize (H c Hin). apply Bool.eqb_prop in H. auto.
Qed.

End M.
