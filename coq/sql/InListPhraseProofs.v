(* C07: the closed (value-substituted) forms of the rendered predicate are phrases of the evaluator with
   the prescribed truth value, in each syntactic context. *)
From Coq Require Import List ZArith NArith Bool Lia.
Import ListNotations.
From SAV.sql Require Import Val3 Val3Proofs InList InListSpecProofs InListBodyProofs.

Definition clhs (row : N -> sv) (l : lhs) : list tok :=
  match l with
  | LCol c => [TVal (row c)]
  | LTuple cs => row_toks (map (fun c => TVal (row c)) cs)
  end.
Definition crender (e : inexpr) (row : N -> sv) (right : list tok) : list tok :=
  match e.(ie_op) with
  | OIn => clhs row e.(ie_left) ++ [TIn] ++ right
  | ONotIn => if e.(ie_text) then clhs row e.(ie_left) ++ [TNot; TIn] ++ right
              else [TLp] ++ (clhs row e.(ie_left) ++ [TNot; TIn] ++ right) ++ [TRp]
  end.
Definition ctk (lit : bool) (z : Z) : tok := if lit then TNum z else TVal (SInt z).
Definition cctx_pre (p : position) (row : N -> sv) (lit : bool) : list tok :=
  match p with
  | PosBare => []
  | PosCase => [TLp]
  | PosAnd a _ => [TVal (row 0%N); TNe; ctk lit a; TAnd]
  | PosOr a => [TVal (row 0%N); TEq; ctk lit a; TOr]
  end.
Definition cctx_post (p : position) (row : N -> sv) (lit : bool) : list tok :=
  match p with
  | PosBare => []
  | PosCase => [TRp]
  | PosAnd _ b => [TAnd; TVal (row 0%N); TNe; ctk lit b]
  | PosOr _ => []
  end.

Definition lhs_ok (l : lhs) : Prop := match l with LCol _ => True | LTuple cs => cs <> [] end.

Lemma p_operand_clhs row l rest : lhs_ok l -> p_operand (clhs row l ++ rest) = Some (lhs_vals row l, rest).
Proof.
  intros H. destruct l as [c|cs]; [reflexivity|].
  cbn [clhs lhs_vals]. unfold row_toks. cbn [app]. rewrite <- app_assoc. cbn [app].
  rewrite (p_operand_row (map (fun c => TVal (row c)) cs) (map row cs)).
  - reflexivity.
  - rewrite <- (map_map row TVal). apply scal_vals.
  - destruct cs; [now destruct H|discriminate].
Qed.

Lemma clhs_head row l : lhs_ok l ->
  (exists v tl, clhs row l = TVal v :: tl /\ tl = []) \/ (exists tl, clhs row l = TLp :: tl).
Proof. destruct l; [left; now eexists _, _|right; now eexists]. Qed.

(* ---------------------------------------------------------------------------------------- *)
(** * comparison of two scalar tokens *)
Lemma phrase_cmp_tok (ne : bool) t1 t2 v1 v2 : scalar_of t1 = Some v1 -> scalar_of t2 = Some v2 ->
  phrase LNot [t1; if ne then TNe else TEq; t2] (if ne then not3 (eq3 v1 v2) else eq3 v1 v2).
Proof.
  intros H1 H2. apply phrase_lift_not.
  - apply phrase_atom. intros rest. cbn [app]. unfold p_simple. rewrite (p_operand_scalar _ _ _ H1).
    destruct ne; unfold p_cmp; rewrite (p_operand_scalar _ _ _ H1), (p_operand_scalar _ _ _ H2);
      cbn [same_arity length Nat.eqb row_eq3]; now rewrite and3_TT_r.
  - destruct t1; try discriminate; exact I.
Qed.

Lemma ctk_scalar lit z : scalar_of (ctk lit z) = Some (SInt z).
Proof. destruct lit; reflexivity. Qed.

(* ---------------------------------------------------------------------------------------- *)
(** * predicates as conjunctions of LNot-phrases; contexts *)
Definition good_pred (P : list tok) (v : tv) : Prop :=
  exists phs, phs <> [] /\ Forall (fun ph : list tok * tv => phrase LNot (fst ph) (snd ph)) phs /\
              P = join [TAnd] (map fst phs) /\ and3_list (map snd phs) = v /\ not_row_start P.

Lemma join_cons_ne sep (a : list tok) l : l <> [] -> join sep (a :: l) = a ++ sep ++ join sep l.
Proof. destruct l; [congruence|reflexivity]. Qed.
Lemma join_snoc sep l (b : list tok) : l <> [] -> join sep (l ++ [b]) = join sep l ++ sep ++ b.
Proof.
  induction l as [|a l IH]; [congruence|]. intros _. destruct l as [|a2 l].
  - reflexivity.
  - cbn [app]. rewrite !join_cons2. cbn [app] in IH. rewrite IH by discriminate. now rewrite <- !app_assoc.
Qed.

Lemma ctx_phrase p row lit P v : good_pred P v ->
  phrase LOr (cctx_pre p row lit ++ P ++ cctx_post p row lit) (ctx_value p row v).
Proof.
  intros (phs & Hne & Hph & -> & <- & Hnr).
  pose proof (phrase_conj phs Hne Hph) as Hc.
  destruct p as [| |a b|a]; cbn [cctx_pre cctx_post ctx_value].
  - rewrite app_nil_r. cbn [app]. now apply phrase_lift_or.
  - cbn [app]. apply phrase_lift_or, phrase_lift_and, phrase_lift_not; [|exact I].
    apply phrase_paren; [now apply phrase_lift_or|]. intros rest. now apply p_simple_paren_none.
  - pose (A := ([TVal (row 0%N); TNe; ctk lit a], not3 (eq3 (row 0%N) (SInt a)))).
    pose (B := ([TVal (row 0%N); TNe; ctk lit b], not3 (eq3 (row 0%N) (SInt b)))).
    assert (HA : phrase LNot (fst A) (snd A)) by (apply (phrase_cmp_tok true); [reflexivity|apply ctk_scalar]).
    assert (HB : phrase LNot (fst B) (snd B)) by (apply (phrase_cmp_tok true); [reflexivity|apply ctk_scalar]).
    assert (HF : Forall (fun ph : list tok * tv => phrase LNot (fst ph) (snd ph)) (A :: phs ++ [B])).
    { constructor; [exact HA|]. apply Forall_app. split; [exact Hph|]. constructor; [exact HB|constructor]. }
    pose proof (phrase_conj (A :: phs ++ [B]) ltac:(discriminate) HF) as H.
    cbn [map] in H. rewrite map_app in H. cbn [map] in H.
    rewrite join_cons_ne in H by (destruct phs; [congruence|discriminate]).
    rewrite join_snoc in H by (destruct phs; [congruence|discriminate]).
    rewrite map_app in H. cbn [map fst snd A B and3_list fold_right] in H.
    fold (and3_list (map snd phs ++ [not3 (eq3 (row 0%N) (SInt b))])) in H.
    rewrite and3_list_app in H. cbn [and3_list fold_right] in H. rewrite and3_TT_r in H.
    apply phrase_lift_or. exact H.
  - change ([TVal (row 0%N); TEq; ctk lit a; TOr] ++ join [TAnd] (map fst phs) ++ [])
      with ([TVal (row 0%N); TEq; ctk lit a] ++ TOr :: (join [TAnd] (map fst phs) ++ [])).
    rewrite app_nil_r. apply phrase_or; [|now apply phrase_lift_or].
    apply phrase_lift_and. apply (phrase_cmp_tok false); [reflexivity|apply ctk_scalar].
Qed.

(* ---------------------------------------------------------------------------------------- *)
(** * regular bodies:  lhs [NOT] IN ( body ) *)
Lemma in_atom row l (neg : bool) body k rows :
  lhs_ok l ->
  (forall rest, p_inbody (body ++ TRp :: rest) = Some (k, rows, rest)) ->
  rows_ok k (lhs_vals row l) rows = true ->
  phrase LNot (clhs row l ++ (if neg then [TNot; TIn] else [TIn]) ++ [TLp] ++ body ++ [TRp])
              (if neg then not3 (in_sem (lhs_vals row l) rows) else in_sem (lhs_vals row l) rows).
Proof.
  intros Hl Hb Hr. apply phrase_lift_not.
  - apply phrase_atom. intros rest. unfold p_simple. rewrite <- !app_assoc. rewrite (p_operand_clhs _ _ _ Hl).
    destruct neg; cbn [app]; rewrite Hb, Hr; reflexivity.
  - destruct l; exact I.
Qed.

Lemma clhs_not_row_start row l tl (neg : bool) : lhs_ok l ->
  not_row_start (clhs row l ++ (if neg then [TNot; TIn] else [TIn]) ++ tl).
Proof. destruct l, neg; cbn; intros; try exact I; repeat split; discriminate. Qed.

Lemma regular_pred e row body k rows :
  lhs_ok e.(ie_left) ->
  (forall rest, p_inbody (body ++ TRp :: rest) = Some (k, rows, rest)) ->
  rows_ok k (lhs_vals row e.(ie_left)) rows = true ->
  good_pred (crender e row ([TLp] ++ body ++ [TRp]))
            (match e.(ie_op) with OIn => in_sem (lhs_vals row e.(ie_left)) rows
                                | ONotIn => not3 (in_sem (lhs_vals row e.(ie_left)) rows) end).
Proof.
  intros Hl Hb Hr. unfold crender.
  destruct (ie_op e).
  - exists [(clhs row (ie_left e) ++ [TIn] ++ [TLp] ++ body ++ [TRp], in_sem (lhs_vals row (ie_left e)) rows)].
    split; [discriminate|]. split; [|split; [reflexivity|split]].
    + constructor; [|constructor]. apply (in_atom row (ie_left e) false body k rows Hl Hb Hr).
    + cbn [map and3_list fold_right snd]. apply and3_TT_r.
    + apply (clhs_not_row_start row (ie_left e) _ false Hl).
  - pose proof (in_atom row (ie_left e) true body k rows Hl Hb Hr) as HA.
    destruct (ie_text e).
    + eexists [(_, _)]. split; [discriminate|]. split; [|split; [reflexivity|split]].
      * constructor; [exact HA|constructor].
      * cbn [map and3_list fold_right snd]. apply and3_TT_r.
      * apply (clhs_not_row_start row (ie_left e) _ true Hl).
    + eexists [(_, _)]. split; [discriminate|]. split; [|split; [reflexivity|split]].
      * constructor; [|constructor]. cbn [fst snd]. cbn [app]. apply phrase_lift_not; [|exact I].
        apply phrase_paren; [apply phrase_lift_or, phrase_lift_and; exact HA|].
        intros rest. apply p_simple_paren_none. apply (clhs_not_row_start row (ie_left e) _ true Hl).
      * cbn [map and3_list fold_right snd]. apply and3_TT_r.
      * exact I.
Qed.

(* ---------------------------------------------------------------------------------------- *)
(** * the default empty-set forms  "NULL) AND (1 != 1"  /  "NULL) OR (1 = 1" *)
Definition null_body (k : nat) : list tok := if Nat.ltb 1 k then [TLp] ++ nulls k ++ [TRp] else [TNull].

Lemma map_repeat {A B} (f : A -> B) a n : map f (repeat a n) = repeat (f a) n.
Proof. induction n; cbn [repeat map]; [reflexivity|now rewrite IHn]. Qed.

Lemma null_body_inbody k rest : (1 <= k)%nat ->
  p_inbody (null_body k ++ TRp :: rest) = Some (k, [repeat SNull k], rest).
Proof.
  intros Hk. unfold null_body. destruct (Nat.ltb 1 k) eqn:E.
  - apply Nat.ltb_lt in E.
    assert (H1 : Forall2 scal [repeat TNull k] [repeat SNull k]).
    { constructor; [|constructor]. clear. induction k; cbn [repeat]; constructor; [reflexivity|assumption]. }
    assert (H2 : Forall (fun t : list tok => t <> []) [repeat TNull k]).
    { constructor; [|constructor]. destruct k; [lia|discriminate]. }
    pose proof (p_inbody_rows false [repeat TNull k] [repeat SNull k] rest H1 H2 ltac:(discriminate)) as H.
    cbn [map join app hd] in H. unfold row_toks, items in H. rewrite map_repeat in H.
    rewrite repeat_length in H. unfold nulls. cbn [app] in *. rewrite <- ?app_assoc in H. rewrite <- ?app_assoc. cbn [app] in *. exact H.
  - apply Nat.ltb_ge in E. assert (k = 1)%nat by lia. subst k.
    apply (p_inbody_items [TNull] [SNull] rest); [constructor; [reflexivity|constructor]|discriminate].
Qed.

Lemma rows_ok_null k x : length x = k -> rows_ok k x [repeat SNull k] = true.
Proof. intros H. unfold rows_ok. cbn [forallb]. now rewrite H, repeat_length, !Nat.eqb_refl. Qed.

Lemma paren_cmp_phrase (ne : bool) :
  phrase LNot [TLp; TNum 1; if ne then TNe else TEq; TNum 1; TRp] (if ne then TF else TT).
Proof.
  apply phrase_lift_not; [|exact I].
  change [TLp; TNum 1; if ne then TNe else TEq; TNum 1; TRp] with (TLp :: [TNum 1; if ne then TNe else TEq; TNum 1] ++ [TRp]).
  apply phrase_paren.
  - apply phrase_lift_or, phrase_lift_and.
    pose proof (phrase_cmp_tok ne (TNum 1) (TNum 1) (SInt 1) (SInt 1) eq_refl eq_refl) as H.
    destruct ne; exact H.
  - intros rest. apply p_simple_paren_none. destruct ne; cbn; repeat split; discriminate.
Qed.

(* IN:  lhs IN (NULL) AND (1 != 1) *)
Lemma trick_in_pred e row k :
  lhs_ok e.(ie_left) -> e.(ie_op) = OIn -> (1 <= k)%nat -> length (lhs_vals row e.(ie_left)) = k ->
  good_pred (crender e row ([TLp] ++ ((if Nat.ltb 1 k then [TLp] ++ nulls k ++ [TRp; TRp] else [TNull; TRp])
                                      ++ [TAnd; TLp; TNum 1; TNe; TNum 1]) ++ [TRp])) TF.
Proof.
  intros Hl Hop Hk Hx. unfold crender. rewrite Hop.
  exists [(clhs row (ie_left e) ++ [TIn] ++ [TLp] ++ null_body k ++ [TRp], in_sem (lhs_vals row (ie_left e)) [repeat SNull k]);
          ([TLp; TNum 1; TNe; TNum 1; TRp], TF)].
  split; [discriminate|]. split; [|split; [|split]].
  - constructor; [|constructor; [|constructor]].
    + apply (in_atom row (ie_left e) false (null_body k) k [repeat SNull k] Hl).
      * intros rest. now apply null_body_inbody.
      * now apply rows_ok_null.
    + apply (paren_cmp_phrase true).
  - cbn [map fst]. rewrite join_cons2. cbn [join]. unfold null_body.
    destruct (Nat.ltb 1 k); cbn [app]; rewrite <- ?app_assoc; cbn [app]; rewrite <- ?app_assoc; reflexivity.
  - cbn [map snd and3_list fold_right]. now destruct (in_sem _ _).
  - apply (clhs_not_row_start row (ie_left e) _ false Hl).
Qed.

(* NOT IN:  (lhs NOT IN (NULL) OR (1 = 1)) *)
Lemma trick_not_in_pred e row k :
  lhs_ok e.(ie_left) -> e.(ie_op) = ONotIn -> e.(ie_text) = false -> (1 <= k)%nat ->
  length (lhs_vals row e.(ie_left)) = k ->
  good_pred (crender e row ([TLp] ++ ((if Nat.ltb 1 k then [TLp] ++ nulls k ++ [TRp; TRp] else [TNull; TRp])
                                      ++ [TOr; TLp; TNum 1; TEq; TNum 1]) ++ [TRp])) TT.
Proof.
  intros Hl Hop Htx Hk Hx. unfold crender. rewrite Hop, Htx.
  pose (Q1 := clhs row (ie_left e) ++ [TNot; TIn] ++ [TLp] ++ null_body k ++ [TRp]).
  pose (Q2 := [TLp; TNum 1; TEq; TNum 1; TRp]).
  exists [(TLp :: (Q1 ++ TOr :: Q2) ++ [TRp], TT)].
  split; [discriminate|]. split; [|split; [|split]].
  - constructor; [|constructor]. cbn [fst snd]. apply phrase_lift_not; [|exact I].
    apply phrase_paren.
    + replace TT with (or3 (not3 (in_sem (lhs_vals row (ie_left e)) [repeat SNull k])) TT) by apply or3_TT_r.
      apply phrase_or.
      * apply phrase_lift_and. apply (in_atom row (ie_left e) true (null_body k) k [repeat SNull k] Hl).
        -- intros rest. now apply null_body_inbody.
        -- now apply rows_ok_null.
      * apply phrase_lift_or, phrase_lift_and. apply (paren_cmp_phrase false).
    + intros rest. apply p_simple_paren_none. unfold Q1. rewrite <- app_assoc.
      apply (clhs_not_row_start row (ie_left e) _ true Hl).
  - cbn [map fst join]. unfold Q1, Q2, null_body.
    destruct (Nat.ltb 1 k); cbn [app]; rewrite <- ?app_assoc; cbn [app]; rewrite <- ?app_assoc; cbn [app];
      rewrite <- ?app_assoc; reflexivity.
  - reflexivity.
  - exact I.
Qed.
