(* C04 - the region in which the parameter plumbing is correct: boolean guard and its meaning *)
From Coq Require Import List NArith ZArith Bool Lia.
Import ListNotations.
From SAV.sql Require Import Params ParamsDict.

Section Guard.
Variable tab : list (N * N).

(* the list given for an expanding bind, the (name, value) pairs it expands to *)
Definition plist (inp : input) (n : name) : list Z :=
  match dget n (i_params inp) with Some (PL l) => l | _ => [] end.
Definition xitems (inp : input) (n : name) : list (name * Z) :=
  match kind_of inp n with Expand => expanded_names (esc tab n) (plist inp n) | _ => [] end.
Definition xnames (inp : input) (n : name) : list name := map fst (xitems inp n).

Definition tok_ok (inp : input) (t : tok) : bool :=
  match t with
  | Txt _ => true
  | Bind n => memb n (i_order inp) && is_plain (kind_of inp n)
  | PC n => memb n (i_order inp) && negb (is_plain (kind_of inp n))
  end.
Definition shape_ok (inp : input) (n : name) : bool :=
  match kind_of inp n, dget n (i_params inp) with
  | Plain, Some (PS _) => true
  | Expand, Some (PL _) => true
  | LitExec, Some _ => true
  | _, _ => false
  end.
(* some registered bind is expanding or literal_execute *)
Definition has_postcompile (inp : input) : bool :=
  existsb (fun n => negb (is_plain (kind_of inp n))) (i_order inp).
Fixpoint nodupb (l : list name) : bool :=
  match l with [] => true | x :: r => negb (memb x r) && nodupb r end.

Definition guard (inp : input) : bool :=
  let order := i_order inp in
  (* every placeholder of the text belongs to a registered bind of the matching kind *)
  forallb (tok_ok inp) (i_toks inp)
  (* the post-compile step runs when there is something for it to do *)
  && implb (has_postcompile inp) (i_pc inp)
  (* distinct binds keep distinct names after escaping *)
  && forallb (fun a => forallb (fun b => implb (str_eqb (esc tab a) (esc tab b)) (str_eqb a b)) order) order
  (* values have the shape of their bind *)
  && forallb (shape_ok inp) order
  && nodupb (keys (i_params inp)) && forallb (fun k => memb k order) (keys (i_params inp))
  (* bind processors belong to registered binds *)
  && forallb (fun k => memb k order) (keys (i_procs inp))
  (* the names name_1 .. name_k created for an expanding bind are new *)
  && forallb (fun n =>
       nodupb (xnames inp n)
       && forallb (fun x => negb (memb x order)
                            && forallb (fun m => negb (str_eqb x (esc tab m))) order
                            && forallb (fun m => str_eqb m n || negb (memb x (xnames inp m))) order)
                  (xnames inp n)) order.

Record wf (inp : input) : Prop := {
  w_bind : forall n, In (Bind n) (i_toks inp) -> In n (i_order inp) /\ kind_of inp n = Plain;
  w_pc : forall n, In (PC n) (i_toks inp) -> In n (i_order inp) /\ kind_of inp n <> Plain;
  w_haspc : has_postcompile inp = true -> i_pc inp = true;
  w_inj : forall a b, In a (i_order inp) -> In b (i_order inp) -> esc tab a = esc tab b -> a = b;
  w_plain : forall n, In n (i_order inp) -> kind_of inp n = Plain -> exists v, dget n (i_params inp) = Some (PS v);
  w_expand : forall n, In n (i_order inp) -> kind_of inp n = Expand -> exists l, dget n (i_params inp) = Some (PL l);
  w_litv : forall n, In n (i_order inp) -> kind_of inp n = LitExec -> exists v, dget n (i_params inp) = Some v;
  w_pnodup : NoDup (keys (i_params inp));
  w_pkeys : forall k, In k (keys (i_params inp)) -> In k (i_order inp);
  w_prockeys : forall k, In k (keys (i_procs inp)) -> In k (i_order inp);
  w_xnodup : forall n, In n (i_order inp) -> NoDup (xnames inp n);
  w_xfresh : forall n x, In n (i_order inp) -> In x (xnames inp n) -> ~ In x (i_order inp);
  w_xesc : forall n m x, In n (i_order inp) -> In m (i_order inp) -> In x (xnames inp n) -> x <> esc tab m;
  w_xdisj : forall n m x, In n (i_order inp) -> In m (i_order inp) ->
            In x (xnames inp n) -> In x (xnames inp m) -> n = m
}.

Lemma nodupb_NoDup : forall l, nodupb l = true -> NoDup l.
Proof.
  induction l as [|x l IH]; cbn [nodupb]; intro H; [constructor|].
  apply andb_true_iff in H. destruct H as [H1 H2]. apply negb_true_iff in H1. apply memb_false in H1.
  constructor; [exact H1|apply IH; exact H2].
Qed.

Lemma guard_wf : forall inp, guard inp = true -> wf inp.
Proof.
  intros inp H. unfold guard in H.
  apply andb_true_iff in H. destruct H as [H G].
  apply andb_true_iff in H. destruct H as [H G7].
  apply andb_true_iff in H. destruct H as [H G4].
  apply andb_true_iff in H. destruct H as [H G5].
  apply andb_true_iff in H. destruct H as [H G3].
  apply andb_true_iff in H. destruct H as [H G1].
  apply andb_true_iff in H. destruct H as [G0 G6].
  rewrite forallb_forall in G0, G1, G3, G4, G7, G.
  constructor.
  - intros n Hn. specialize (G0 _ Hn). cbn [tok_ok] in G0. apply andb_true_iff in G0. destruct G0 as [A B].
    apply memb_In in A. split; [exact A|]. destruct (kind_of inp n); cbn in B; congruence.
  - intros n Hn. specialize (G0 _ Hn). cbn [tok_ok] in G0. apply andb_true_iff in G0. destruct G0 as [A B].
    apply memb_In in A. split; [exact A|]. destruct (kind_of inp n); cbn in B; congruence.
  - intro Hp. rewrite Hp in G6. exact G6.
  - intros a b Ha Hb He. specialize (G1 _ Ha). rewrite forallb_forall in G1. specialize (G1 _ Hb).
    rewrite He, str_eqb_refl in G1. cbn [implb] in G1. apply str_eqb_eq. exact G1.
  - intros n Hn Hk. specialize (G3 _ Hn). unfold shape_ok in G3. rewrite Hk in G3.
    destruct (dget n (i_params inp)) as [[v|l]|]; try discriminate. exists v. reflexivity.
  - intros n Hn Hk. specialize (G3 _ Hn). unfold shape_ok in G3. rewrite Hk in G3.
    destruct (dget n (i_params inp)) as [[v|l]|]; try discriminate. exists l. reflexivity.
  - intros n Hn Hk. specialize (G3 _ Hn). unfold shape_ok in G3. rewrite Hk in G3.
    destruct (dget n (i_params inp)) as [v|]; try discriminate. exists v. reflexivity.
  - apply nodupb_NoDup. exact G5.
  - intros k Hk. apply memb_In. apply G4. exact Hk.
  - intros k Hk. apply memb_In. apply G7. exact Hk.
  - intros n Hn. specialize (G _ Hn). apply andb_true_iff in G. destruct G as [A _]. apply nodupb_NoDup. exact A.
  - intros n x Hn Hx. specialize (G _ Hn). apply andb_true_iff in G. destruct G as [_ B].
    rewrite forallb_forall in B. specialize (B _ Hx). apply andb_true_iff in B. destruct B as [B _].
    apply andb_true_iff in B. destruct B as [B _]. apply negb_true_iff in B. apply memb_false in B. exact B.
  - intros n m x Hn Hm Hx. specialize (G _ Hn). apply andb_true_iff in G. destruct G as [_ B].
    rewrite forallb_forall in B. specialize (B _ Hx). apply andb_true_iff in B. destruct B as [B _].
    apply andb_true_iff in B. destruct B as [_ B]. rewrite forallb_forall in B. specialize (B _ Hm).
    apply negb_true_iff in B. intro He. subst. rewrite str_eqb_refl in B. discriminate.
  - intros n m x Hn Hm Hx Hx'. specialize (G _ Hn). apply andb_true_iff in G. destruct G as [_ B].
    rewrite forallb_forall in B. specialize (B _ Hx). apply andb_true_iff in B. destruct B as [_ B].
    rewrite forallb_forall in B. specialize (B _ Hm). apply orb_true_iff in B. destruct B as [B|B].
    + apply str_eqb_eq in B. congruence.
    + apply negb_true_iff in B. apply memb_false in B. contradiction.
Qed.
End Guard.
