(* C56 - the meaning of the user's construct (spec side) and of a rendered clause; guards (definitions only).

   [spec_of]  : what the arguments of on_conflict_do_update()/do_nothing() SAY: every set_ key resolved to
                its column (Column object, column key, or - for an "additional" name - column name), the
                SET items in the USER's order, conflict target elements resolved to columns.
   [abs_clauses] : what a rendered clause (names) denotes to the database. *)
From Coq Require Import List ZArith Bool Permutation.
Import ListNotations.
From SAV.sql Require Import Upsert UpsertAsm UpsertParse.

Definition norm_atom (a : atom) : atom := match a with AConst _ z => AConst false z | _ => a end.
Definition norm_expr (e : expr) : expr :=
  match e with EAtom a => EAtom (norm_atom a) | EAdd a b => EAdd (norm_atom a) (norm_atom b) end.
Definition norm_pred (p : pred) : pred :=
  match p with Pred c l r => Pred c (norm_expr l) (norm_expr r) end.

(* column references denote existing columns *)
Definition atom_ok (n : nat) (a : atom) : bool :=
  match a with ACol i => Nat.ltb i n | AExc i => Nat.ltb i n | _ => true end.
Definition expr_ok (n : nat) (e : expr) : bool :=
  match e with EAtom a => atom_ok n a | EAdd a b => atom_ok n a && atom_ok n b end.
Definition pred_ok (n : nat) (p : pred) : bool :=
  match p with Pred _ l r => expr_ok n l && expr_ok n r end.
Definition opred_ok (n : nat) (w : option pred) : bool :=
  match w with Some p => pred_ok n p | None => true end.

Fixpoint sequence {A} (l : list (option A)) : option (list A) :=
  match l with
  | [] => Some []
  | Some a :: r => match sequence r with Some r' => Some (a :: r') | None => None end
  | None :: _ => None
  end.

Fixpoint key_idx (cols : list coldesc) (k : Z) : option nat :=
  match cols with
  | [] => None
  | c :: cs => if Z.eqb (ckey c) k then Some O else option_map S (key_idx cs k)
  end.

(* the column a set_ key denotes *)
Definition key_col (cols : list coldesc) (k : skey) : option nat :=
  match k with
  | KCol i => if Nat.ltb i (length cols) then Some i else None
  | KStr s => match key_idx cols s with Some i => Some i | None => name_idx cols s end
  end.
Definition telem_col (cols : list coldesc) (e : telem) : option nat :=
  match e with
  | TECol i => if Nat.ltb i (length cols) then Some i else None
  | TEStr s => name_idx cols s
  end.

Definition is_nil {A} (l : list A) : bool := match l with [] => true | _ => false end.

Definition mk_target (n : nat) (ol : option (list nat)) (w : option pred) : option (option target) :=
  match ol with
  | Some l =>
      if negb (is_nil l) && opred_ok n w then Some (Some (TCols l (option_map norm_pred w))) else None
  | None => None
  end.

Definition set_item (n : nat) (oi : option nat) (e : expr) : option (nat * expr) :=
  match oi with
  | Some i => if expr_ok n e then Some (i, norm_expr e) else None
  | None => None
  end.

Definition mk_update (n : nat) (otg : option (option target)) (os : option (list (nat * expr)))
    (w : option pred) : option clause :=
  match otg, os with
  | Some tg, Some s =>
      if negb (is_nil s) && opred_ok n w then Some (tg, DoUpdate s (option_map norm_pred w)) else None
  | _, _ => None
  end.

(* ---- the user's construct ---- *)
Definition spec_target (cols : list coldesc) (t : sa_target) : option (option target) :=
  match t with
  | STNone => Some None
  | STConstraint n => Some (Some (TName n))
  | STElems e w => mk_target (length cols) (sequence (map (telem_col cols) e)) w
  end.

Definition spec_sets (cols : list coldesc) (s : list (skey * expr)) : option (list (nat * expr)) :=
  sequence (map (fun kv => set_item (length cols) (key_col cols (fst kv)) (snd kv)) s).

Definition spec_clause (cols : list coldesc) (c : sa_clause) : option clause :=
  match c with
  | SANothing t => match spec_target cols t with Some tg => Some (tg, DoNothing) | None => None end
  | SAUpdate t s w => mk_update (length cols) (spec_target cols t) (spec_sets cols s) w
  end.

Definition spec_of (cols : list coldesc) (sa : list sa_clause) : option (list clause) :=
  sequence (map (spec_clause cols) sa).

(* ---- a rendered clause ---- *)
Definition lhs_idx (cols : list coldesc) (l : lhs) : option nat :=
  match l with LName n => name_idx cols n | LAdd n => name_idx cols n | LQual _ => None end.

Definition abs_target (cols : list coldesc) (t : rtarget) : option (option target) :=
  match t with
  | RNone => Some None
  | RConstraint n => Some (Some (TName n))
  | RCols names w => mk_target (length cols) (sequence (map (name_idx cols) names)) w
  end.

Definition abs_sets (cols : list coldesc) (s : list (lhs * expr)) : option (list (nat * expr)) :=
  sequence (map (fun kv => set_item (length cols) (lhs_idx cols (fst kv)) (snd kv)) s).

Definition abs_clause (cols : list coldesc) (c : rclause) : option clause :=
  match c with
  | RNothing t => match abs_target cols t with Some tg => Some (tg, DoNothing) | None => None end
  | RUpdate t s w => mk_update (length cols) (abs_target cols t) (abs_sets cols s) w
  end.

Definition abs_clauses (cols : list coldesc) (cs : list rclause) : option (list clause) :=
  sequence (map (abs_clause cols) cs).

(* ---- guards ---- *)
Definition wf_cols (cols : list coldesc) : Prop :=
  NoDup (map cname cols) /\ NoDup (map ckey cols).

(* no column is assigned twice by one DO UPDATE *)
Definition sets_nodup (c : clause) : Prop :=
  match snd c with DoNothing => True | DoUpdate s _ => NoDup (map fst s) end.

(* per-row bindparam() outside the SET values *)
Definition has_iw_par (c : sa_clause) : bool :=
  match sa_tgt c with STElems _ (Some p) => pred_has_par p | _ => false end.
Definition batch_safe (sa : list sa_clause) : bool :=
  negb (existsb has_set_par sa) && negb (existsb has_where_par sa) && negb (existsb has_iw_par sa).

(* results agree: same error, or same table and the same returned rows up to order *)
Definition res_equiv (a b : res (table * list row)) : Prop :=
  match a, b with
  | Err e1, Err e2 => e1 = e2
  | Ok (t1, r1), Ok (t2, r2) => t1 = t2 /\ Permutation r1 r2
  | _, _ => False
  end.

(* two clause lists differ only in the order of the SET items *)
Definition clause_perm (a b : clause) : Prop :=
  fst a = fst b /\
  match snd a, snd b with
  | DoNothing, DoNothing => True
  | DoUpdate s w, DoUpdate s' w' => Permutation s s' /\ w = w'
  | _, _ => False
  end.

(* MySQL: the user's items as the database columns they denote, in the order given; keys that are no
   column of the table are dropped (with a warning) *)
Definition my_spec_ordered (cols : list coldesc) (upd : list (Z * expr)) : list (option (nat * expr)) :=
  flat_map (fun kv => match key_idx cols (fst kv) with
                      | Some i => [set_item (length cols) (Some i) (snd kv)]
                      | None => []
                      end) upd.
