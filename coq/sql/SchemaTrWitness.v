(* C16 - concrete statements and maps used by the Examples and the _refuted theorems of props/C16.v *)
From Coq Require Import List ZArith Bool String Ascii.
Import ListNotations.
From SAV.sql Require Import SchemaTr.
Open Scope Z_scope.

Fixpoint zs (s : string) : str :=
  match s with
  | EmptyString => []
  | String a r => Z.of_nat (nat_of_ascii a) :: zs r
  end.

(* a quote function that honours quote=True by wrapping in double quotes and leaves other names alone *)
Definition wq (f : option bool) (s : str) : str :=
  match f with Some true => 34 :: s ++ [34] | _ => s end.
Definition wmain : str := zs "main".

Definition tbl (n : string) : item := Sch {| r_map := true; r_name := Some (zs n); r_force := None |}.
Definition tbl_none : item := Sch {| r_map := true; r_name := None; r_force := None |}.
Definition tbl_forced (n : string) : item :=
  Sch {| r_map := true; r_name := Some (zs n); r_force := Some true |}.
Definition clause (n : string) : item := Sch {| r_map := false; r_name := Some (zs n); r_force := None |}.
Definition txt (s : string) : item := Txt (zs s).
Definition k (s : string) : option str := Some (zs s).

(* a join over two schemas, a schema-less table and a table() clause; the map chains a -> b -> c *)
Definition w_join : stmt :=
  [txt "SELECT "; tbl "a"; txt "t.v, "; tbl "b"; txt "u.v, "; tbl_none; txt "w.v, "; clause "a"; txt "x.v"].
Definition w_chain : smap := [(k "a", k "b"); (k "b", k "c"); (None, k "n")].
(* None target *)
Definition w_one : stmt := [txt "SELECT v FROM "; tbl "a"; txt "t"].
Definition w_to_none : smap := [(k "a", None)].
(* a schema literally called _none next to a schema-less table *)
Definition w_none_name : stmt := [txt "SELECT "; tbl_none; txt "t.v, "; tbl "_none"; txt "u.v"].
Definition w_none_map : smap := [(None, k "s1"); (k "_none", k "s2")].
(* text that contains a token *)
Definition w_marker : stmt := [txt "SELECT '__[SCHEMA_a]' FROM "; tbl "a"; txt "t"].
Definition w_ab : smap := [(k "a", k "b")].
(* explicit quote flag on a schema the map does not mention *)
Definition w_forced : stmt := [txt "SELECT v FROM "; tbl_forced "a"; txt "t"].
Definition w_xy : smap := [(k "x", k "y")].
(* histories *)
Definition w_none_stmt : stmt := [txt "SELECT v FROM "; tbl_none; txt "t"].
Definition w_stmts (sid : nat) : stmt :=
  match sid with
  | O => w_none_stmt
  | 1%nat => w_one
  | 2%nat => [txt "SELECT max(id) FROM "; tbl "a"; txt "u"]
  | 3%nat => [txt "SELECT v FROM "; tbl "a]b"; txt "u"]
  | _ => []
  end.
Definition w_s1 : smap := [(None, k "s1")].
Definition w_key_none_name : smap := [(k "_none", k "s2")].

(* SQL texts *)
Definition w_txt0 : str := zs "SELECT v FROM __[SCHEMA_a].t".
Definition w_txt1 : str := zs "SELECT __[SCHEMA__none].t.v, __[SCHEMA__none].u.v".
Definition w_txt2 : str := zs "SELECT '__[SCHEMA_a]' FROM __[SCHEMA_a].t".
Definition w_txt3 : str := zs "SELECT __[SCHEMA_a].t.v, __[SCHEMA_b].u.v, __[SCHEMA__none].w.v, a.x.v".
Definition w_txt4 : str := zs "SELECT b.t.v, c.u.v, n.w.v, a.x.v".
Definition w_txt5 : str := zs "SELECT v FROM s1.t".
Definition w_txt6 : str := zs "SELECT v FROM t".
Definition w_txt7 : str := zs "SELECT v FROM main.t".
Definition w_txt_default : str := zs "SELECT max(id) FROM b.u".
