(* C15: ddl_parse_roundtrip for the UNIQUE constraints of a CREATE TABLE text, the join with the
   autoindex signatures, and the refutations outside the guards *)
From Coq Require Import List NArith Bool Lia Arith.
Import ListNotations.
From SAV.sql Require Import Ident IdentProofs Reflect ReflectProofs.
Open Scope N_scope.

Section T.
Variable uni : N -> bool.
Variable p : prep.
Hypothesis Hdq : prep_dq p = true.

(* ------------------------------------------------------------------ _find_cols_in_sig on the rendered column list *)
Lemma col_rendered_chars : forall v q, quote p v = Ok q -> col_ok v q = true ->
  v <> [] /\ forallb (fun c => plainc c && negb (c =? rpar)) v = true /\
  (q = v /\ forallb sigc v = true \/ q = dq :: v ++ [dq]).
Proof.
  intros v q Hq Hok. unfold col_ok in Hok. apply andb_true_iff in Hok. destruct Hok as [Hok Hb].
  apply andb_true_iff in Hok. destruct Hok as [Hne Hp].
  assert (forallb plainc v = true) as Hpl.
  { apply forallb_forall. intros c Hc. apply forallb_forall with (x := c) in Hp; [|assumption].
    apply andb_true_iff in Hp. tauto. }
  split; [destruct v; [discriminate|discriminate]|]. split; [assumption|].
  destruct (quote_cases_plain p Hdq v q Hq Hpl) as [-> | ->]; [left|right; reflexivity].
  rewrite str_eqb_refl in Hb. auto.
Qed.

Definition sepc (c : N) : Prop := sigc c = false /\ (c =? dq) = false.

Lemma find_cols_skip : forall f c t, sigc c = false -> (c =? dq) = false ->
  find_cols (S f) (c :: t) = find_cols f t.
Proof. intros f c t H1 H2. cbn [find_cols]. rewrite H2, H1. reflexivity. Qed.

(* one rendered column followed by a tail that does not continue it *)
Lemma find_cols_one : forall v q tl f, quote p v = Ok q -> col_ok v q = true ->
  (tl = [] \/ exists c r, tl = c :: r /\ sigc c = false) -> (length (q ++ tl) <= f)%nat ->
  exists f', (length tl <= f')%nat /\ find_cols f (q ++ tl) = v :: find_cols f' tl.
Proof.
  intros v q tl f Hq Hok Htl Hf.
  destruct (col_rendered_chars v q Hq Hok) as [Hne [Hp [[-> Hs] | ->]]].
  - (* bare *)
    destruct v as [|c v']; [congruence|]. destruct f as [|f]; [cbn [length app] in Hf; lia|].
    assert ((c =? dq) = false) as Hcq.
    { cbn [forallb] in Hp. apply andb_true_iff in Hp. destruct Hp as [H _]. apply andb_true_iff in H.
      destruct H as [H _]. unfold plainc in H. apply andb_true_iff in H. destruct H as [H _]. apply negb_true_iff in H. exact H. }
    assert (sigc c = true) as Hsc by (cbn [forallb] in Hs; apply andb_true_iff in Hs; tauto).
    cbn [app find_cols]. rewrite Hcq, Hsc.
    change (c :: v' ++ tl) with ((c :: v') ++ tl).
    destruct Htl as [-> | [d [r [-> Hd]]]].
    + rewrite app_nil_r, (span_all_end sigc (c :: v') Hs). exists f. split; [cbn; lia|]. destruct f; reflexivity.
    + rewrite (span_all sigc (c :: v') d r Hs Hd). exists f. split; [|reflexivity].
      rewrite app_length in Hf. cbn [length] in *. lia.
  - (* delimited *)
    destruct f as [|f]; [cbn [length app] in Hf; lia|].
    cbn [app find_cols]. rewrite N.eqb_refl. rewrite <- app_assoc. cbn [app].
    assert (forallb (fun c => dotc c && negb (c =? dq)) v = true) as Hb.
    { apply forallb_forall. intros c Hc. apply forallb_forall with (x := c) in Hp; [|assumption].
      apply andb_true_iff in Hp. destruct Hp as [Hp _]. unfold plainc in Hp. rewrite andb_comm. exact Hp. }
    rewrite (lazy_dot_until_body dq v tl Hne Hb). exists f. split; [|reflexivity].
    cbn [length app] in Hf. rewrite !app_length in Hf. cbn [length] in Hf. lia.
Qed.

Lemma find_cols_nil : forall f, find_cols f [] = [].
Proof. destruct f; reflexivity. Qed.

Lemma find_cols_joined : forall cols qcols f, quote_all p cols = Ok qcols -> cols_ok p cols = true ->
  (length (join_cols qcols) <= f)%nat -> find_cols f (join_cols qcols) = cols.
Proof.
  induction cols as [|v cols IH]; intros qcols f Hq Hok Hf.
  - cbn [quote_all] in Hq. inversion Hq; subst. cbn [join_cols]. apply find_cols_nil.
  - cbn [quote_all] in Hq. destruct (quote p v) as [q|] eqn:Eq; [|discriminate].
    destruct (quote_all p cols) as [qr|] eqn:Er; [|discriminate]. inversion Hq; subst. clear Hq.
    cbn [cols_ok] in Hok. rewrite Eq in Hok. apply andb_true_iff in Hok. destruct Hok as [Hv Hr].
    destruct qr as [|q2 qr'].
    + (* last column *)
      cbn [join_cols]. destruct cols as [|v2 cols']; [|cbn [quote_all] in Er; destruct (quote p v2); [destruct (quote_all p cols')|]; discriminate].
      rewrite <- (app_nil_r q) in Hf |- *.
      destruct (find_cols_one v q [] f Eq Hv (or_introl eq_refl) Hf) as [f' [_ ->]]. rewrite find_cols_nil. reflexivity.
    + change (join_cols (q :: q2 :: qr')) with (q ++ [44; sp] ++ join_cols (q2 :: qr')) in *.
      destruct (find_cols_one v q ([44; sp] ++ join_cols (q2 :: qr')) f Eq Hv) as [f' [Hf' ->]]; [right; do 2 eexists; split; reflexivity| exact Hf |].
      f_equal. cbn [app] in Hf' |- *. destruct f' as [|f']; [cbn [length] in Hf'; lia|].
      rewrite find_cols_skip by reflexivity. destruct f' as [|f']; [cbn [length] in Hf'; lia|].
      rewrite find_cols_skip by reflexivity. apply (IH (q2 :: qr') f' eq_refl Hr). cbn [length] in Hf'. lia.
Qed.

(* the rendered column list contains neither ")" nor a newline, and is not empty *)
Lemma join_cols_chars : forall cols qcols, quote_all p cols = Ok qcols -> cols_ok p cols = true -> cols <> [] ->
  join_cols qcols <> [] /\ forallb (fun c => dotc c && negb (c =? rpar)) (join_cols qcols) = true.
Proof.
  induction cols as [|v cols IH]; intros qcols Hq Hok Hne; [congruence|].
  cbn [quote_all] in Hq. destruct (quote p v) as [q|] eqn:Eq; [|discriminate].
  destruct (quote_all p cols) as [qr|] eqn:Er; [|discriminate]. inversion Hq; subst. clear Hq.
  cbn [cols_ok] in Hok. rewrite Eq in Hok. apply andb_true_iff in Hok. destruct Hok as [Hv Hr].
  destruct (col_rendered_chars v q Eq Hv) as [Hvne [Hp Hc]].
  assert (q <> [] /\ forallb (fun c => dotc c && negb (c =? rpar)) q = true) as [Hqne Hqc].
  { assert (forallb (fun c => dotc c && negb (c =? rpar)) v = true) as Hvc.
    { apply forallb_forall. intros c Hc'. apply forallb_forall with (x := c) in Hp; [|assumption].
      apply andb_true_iff in Hp. destruct Hp as [Hp1 Hp2]. unfold plainc in Hp1. apply andb_true_iff in Hp1.
      destruct Hp1 as [_ Hd]. rewrite Hd, Hp2. reflexivity. }
    destruct Hc as [[-> _] | ->]; [split; assumption|]. split; [discriminate|].
    cbn [forallb]. rewrite forallb_app, Hvc. reflexivity. }
  destruct qr as [|q2 qr'].
  - cbn [join_cols]. split; assumption.
  - change (join_cols (q :: q2 :: qr')) with (q ++ [44; sp] ++ join_cols (q2 :: qr')).
    destruct cols as [|v2 cols']; [cbn [quote_all] in Er; discriminate|].
    destruct (IH (q2 :: qr') eq_refl Hr ltac:(discriminate)) as [_ Hrc].
    split; [destruct q; [congruence|discriminate]|].
    rewrite !forallb_app, Hqc, Hrc. reflexivity.
Qed.

(* ------------------------------------------------------------------ one attempt on a rendered clause *)
Lemma render_unique_some : forall q qc rest,
  render_unique (Some q) qc ++ rest = lit_constraint ++ q ++ sp :: (lit_unique_open ++ join_cols qc ++ rpar :: rest).
Proof. intros. unfold render_unique. repeat rewrite <- app_assoc. reflexivity. Qed.
Lemma render_unique_none : forall qc rest,
  render_unique None qc ++ rest = lit_unique_open ++ join_cols qc ++ rpar :: rest.
Proof. intros. unfold render_unique. cbn [app]. repeat rewrite <- app_assoc. reflexivity. Qed.

Lemma uq_at_rendered : forall n cols qn qcols rest,
  quote_opt p n = Ok qn -> quote_all p cols = Ok qcols ->
  opt_name_ok uni p n = true -> cols <> [] -> cols_ok p cols = true ->
  uq_at uni (render_unique qn qcols ++ rest) = Some (n, join_cols qcols, rest).
Proof.
  intros n cols qn qcols rest Hn Hc Hnok Hne Hcok.
  destruct (join_cols_chars cols qcols Hc Hcok Hne) as [Hbne Hbc].
  assert (uq_tail (lit_unique_open ++ join_cols qcols ++ rpar :: rest) = Some (join_cols qcols, rest)) as Ht
    by (apply uq_tail_rendered; assumption).
  unfold uq_at. destruct n as [v|].
  - cbn [quote_opt] in Hn. destruct (quote p v) as [q|] eqn:Eq; [|discriminate]. inversion Hn; subst.
    cbn [opt_name_ok] in Hnok. rewrite Eq in Hnok.
    rewrite render_unique_some.
    rewrite (named_rendered uni p Hdq _ uq_tail v q (lit_unique_open ++ join_cols qcols ++ rpar :: rest) (join_cols qcols, rest) Eq Hnok).
    + reflexivity.
    + intros c X' HX. unfold lit_unique_open, kwUNIQUE in HX. cbn [app] in HX. inversion HX; subst. reflexivity.
    + discriminate.
    + exact Ht.
  - cbn [quote_opt] in Hn. inversion Hn; subst. rewrite render_unique_none.
    assert (named uni uq_tail (lit_unique_open ++ join_cols qcols ++ rpar :: rest) = None) as -> by reflexivity.
    rewrite Ht. reflexivity.
Qed.

(* ------------------------------------------------------------------ scanning *)
Lemma scan_clean : forall s t f, clean uni s t = true -> (length (s ++ t) <= f)%nat ->
  scan_uq uni f (s ++ t) = scan_uq uni (f - length s) t.
Proof.
  induction s as [|c s IH]; intros t f Hc Hf.
  - cbn [app length]. rewrite Nat.sub_0_r. reflexivity.
  - cbn [clean] in Hc. apply andb_true_iff in Hc. destruct Hc as [Hn Hc].
    destruct f as [|f]; [cbn [length app] in Hf; lia|].
    cbn [app] in *. cbn [scan_uq]. destruct (uq_at uni (c :: s ++ t)); [discriminate|].
    cbn [length] in *. rewrite IH by (auto; lia). reflexivity.
Qed.

Fixpoint raw_of (ps : list part) : res (list (option str * str)) :=
  match ps with
  | [] => Ok []
  | Seg _ :: r => raw_of r
  | Uq n cols :: r => match quote_all p cols, raw_of r with
                      | Ok qc, Ok l => Ok ((n, join_cols qc) :: l)
                      | _, _ => RaiseIndexError
                      end
  end.

Lemma scan_nil : forall f, scan_uq uni f [] = [].
Proof. destruct f; reflexivity. Qed.

Lemma scan_parts : forall ps text f, wf_parts uni p ps = true -> render_parts p ps = Ok text ->
  (length text <= f)%nat -> exists raw, raw_of ps = Ok raw /\ scan_uq uni f text = raw.
Proof.
  induction ps as [|[s|n cols] ps IH]; intros text f Hwf Hr Hf.
  - cbn [render_parts] in Hr. inversion Hr; subst. exists []. split; [reflexivity|apply scan_nil].
  - cbn [render_parts] in Hr. destruct (render_parts p ps) as [t|] eqn:Et; [|discriminate]. inversion Hr; subst.
    cbn [wf_parts] in Hwf. rewrite Et in Hwf. apply andb_true_iff in Hwf. destruct Hwf as [Hc Hw].
    rewrite (scan_clean s t f Hc Hf).
    destruct (IH t (f - length s)%nat Hw eq_refl) as [raw [Hraw Hs]]; [rewrite app_length in Hf; lia|].
    exists raw. split; assumption.
  - cbn [render_parts] in Hr. destruct (quote_opt p n) as [qn|] eqn:En; [|discriminate].
    destruct (quote_all p cols) as [qc|] eqn:Ec; [|discriminate].
    destruct (render_parts p ps) as [t|] eqn:Et; [|discriminate]. inversion Hr; subst.
    cbn [wf_parts] in Hwf. apply andb_true_iff in Hwf. destruct Hwf as [Hwf Hw].
    apply andb_true_iff in Hwf. destruct Hwf as [Hwf Hcok]. apply andb_true_iff in Hwf. destruct Hwf as [Hnok Hne].
    assert (cols <> []) as Hne' by (destruct cols; [discriminate|discriminate]).
    pose proof (uq_at_rendered n cols qn qc t En Ec Hnok Hne' Hcok) as Hm.
    assert (exists c r0, render_unique qn qc = c :: r0) as [c [r0 Hcr0]].
    { unfold render_unique. destruct qn; cbn [app lit_constraint kwCONSTRAINT lit_unique_open kwUNIQUE]; do 2 eexists; reflexivity. }
    rewrite Hcr0 in *. cbn [app] in *.
    destruct f as [|f]; [cbn [length] in Hf; lia|].
    cbn [scan_uq]. rewrite Hm.
    destruct (IH t f Hw eq_refl) as [raw [Hraw Hs]].
    { cbn [length] in Hf. rewrite app_length in Hf. lia. }
    exists ((n, join_cols qc) :: raw). cbn [raw_of]. rewrite Ec, Hraw, Hs. split; reflexivity.
Qed.

Lemma raw_cols : forall ps raw, wf_parts uni p ps = true -> raw_of ps = Ok raw ->
  map (fun nc : option str * str => (fst nc, cols_in_sig (snd nc))) raw = uniques_of ps.
Proof.
  induction ps as [|[s|n cols] ps IH]; intros raw Hwf Hr.
  - cbn [raw_of] in Hr. inversion Hr; subst. reflexivity.
  - cbn [wf_parts] in Hwf. apply andb_true_iff in Hwf. destruct Hwf as [_ Hw]. cbn [raw_of uniques_of] in *. auto.
  - cbn [raw_of] in Hr. destruct (quote_all p cols) as [qc|] eqn:Ec; [|discriminate].
    destruct (raw_of ps) as [l|] eqn:El; [|discriminate]. inversion Hr; subst.
    cbn [wf_parts] in Hwf. apply andb_true_iff in Hwf. destruct Hwf as [Hwf Hw].
    apply andb_true_iff in Hwf. destruct Hwf as [Hwf Hcok].
    cbn [map uniques_of fst snd]. rewrite (IH l Hw eq_refl). f_equal. f_equal.
    unfold cols_in_sig. apply (find_cols_joined cols qc _ Ec Hcok). lia.
Qed.

(* parse_master_sql (render_ddl tbl) = constraints_of tbl, for the UNIQUE constraints *)
Theorem ddl_parse_roundtrip : forall ps text, wf_parts uni p ps = true -> render_parts p ps = Ok text ->
  parse_uqs uni text = uniques_of ps.
Proof.
  intros ps text Hwf Hr. unfold parse_uqs.
  destruct (scan_parts ps text (length text) Hwf Hr (le_n _)) as [raw [Hraw ->]].
  apply raw_cols; assumption.
Qed.
End T.

(* ------------------------------------------------------------------ get_unique_constraints: the join with the autoindexes *)
Lemma sig_eqb_eq : forall a b, sig_eqb a b = true <-> a = b.
Proof.
  induction a as [|x a IH]; intros [|y b]; cbn [sig_eqb]; split; intros H; try reflexivity; try discriminate.
  - apply andb_true_iff in H. destruct H as [H1 H2]. apply str_eqb_eq in H1. apply IH in H2. congruence.
  - inversion H; subst. rewrite str_eqb_refl. cbn [andb]. apply IH. reflexivity.
Qed.

Lemma remove_sig_none : forall s auto, ~ In s auto -> remove_sig s auto = None.
Proof.
  intros s auto. induction auto as [|a r IH]; intros Hn; cbn [remove_sig]; [reflexivity|].
  destruct (sig_eqb s a) eqn:E; [apply sig_eqb_eq in E; subst; exfalso; apply Hn; left; reflexivity|].
  rewrite IH; [reflexivity|]. intros Hi. apply Hn. right. exact Hi.
Qed.

Lemma remove_sig_some : forall s auto, In s auto -> NoDup auto ->
  exists auto', remove_sig s auto = Some auto' /\ NoDup auto' /\ (forall x, In x auto' <-> In x auto /\ x <> s).
Proof.
  intros s auto. induction auto as [|a r IH]; intros Hi Hnd; [destruct Hi|].
  inversion Hnd as [|? ? Hna Hndr]; subst. cbn [remove_sig].
  destruct (sig_eqb s a) eqn:E.
  - apply sig_eqb_eq in E. subst a. exists r. split; [reflexivity|]. split; [assumption|].
    intros x. split.
    + intros Hx. split; [right; assumption|]. intros ->. contradiction.
    + intros [[->|Hx] Hne]; [congruence|assumption].
  - assert (In s r) as Hir.
    { destruct Hi as [->|Hi]; [|assumption]. assert (sig_eqb s s = true) by (apply sig_eqb_eq; reflexivity). congruence. }
    destruct (IH Hir Hndr) as [r' [Hr [Hnd' Hin]]]. rewrite Hr. exists (a :: r'). split; [reflexivity|]. split.
    + constructor; [|assumption]. intros Ha. apply Hin in Ha. tauto.
    + intros x. cbn [In]. rewrite Hin. split.
      * intros [->|[Hx Hne]]; [split; [left; reflexivity|]|tauto]. intros ->. assert (sig_eqb s s = true) by (apply sig_eqb_eq; reflexivity). congruence.
      * intros [[->|Hx] Hne]; [left; reflexivity|right; tauto].
Qed.

Lemma join_auto_all : forall parsed auto tailp,
  NoDup (map snd parsed) -> incl (map snd parsed) auto -> NoDup auto ->
  (forall e, In e tailp -> ~ In (snd e) auto \/ In (snd e) (map snd parsed)) ->
  join_auto auto (parsed ++ tailp) = parsed.
Proof.
  induction parsed as [|[n c] r IH]; intros auto tailp Hnd Hincl Hna Ht.
  - cbn [app]. induction tailp as [|[n c] tl IHt]; [reflexivity|]. cbn [join_auto].
    rewrite remove_sig_none.
    + apply IHt. intros e He. apply Ht. right. exact He.
    + destruct (Ht (n, c) (or_introl eq_refl)) as [H|[]]. exact H.
  - cbn [app join_auto map snd] in *. inversion Hnd as [|? ? Hnc Hndr]; subst.
    destruct (remove_sig_some c auto (Hincl c (or_introl eq_refl)) Hna) as [auto' [Hr [Hnd' Hin]]].
    rewrite Hr. f_equal. apply IH; [assumption| |assumption|].
    + intros x Hx. apply Hin. split; [apply Hincl; right; exact Hx|]. intros ->. contradiction.
    + intros e He. destruct (Ht e He) as [H|[H|H]].
      * left. intros Hx. apply Hin in Hx. tauto.
      * left. intros Hx. apply Hin in Hx. destruct Hx as [_ Hx]. congruence.
      * right. exact H.
Qed.

(* the created UNIQUE constraints are exactly what get_unique_constraints reports, when SQLite's autoindex
   signatures contain theirs once each (they may contain more: the PRIMARY KEY's) and no INLINE match hits
   one of the others *)
Theorem reflect_uniques_roundtrip : forall uni p, prep_dq p = true ->
  forall ps text auto inline, wf_parts uni p ps = true -> render_parts p ps = Ok text ->
  NoDup (map snd (uniques_of ps)) -> incl (map snd (uniques_of ps)) auto -> NoDup auto ->
  (forall s, In s inline -> ~ In s auto \/ In s (map snd (uniques_of ps))) ->
  reflect_uniques uni auto inline text = uniques_of ps.
Proof.
  intros uni p Hdq ps text auto inline Hwf Hr Hnd Hincl Hna Hin. unfold reflect_uniques.
  rewrite (ddl_parse_roundtrip uni p Hdq ps text Hwf Hr).
  apply join_auto_all; try assumption.
  intros e He. apply in_map_iff in He. destruct He as [s [<- Hs]]. cbn [snd]. apply Hin. exact Hs.
Qed.

(* ------------------------------------------------------------------ refutations: outside the guards *)
Definition demo_prep : prep := {|
  p_reserved := p_reserved sample_prep; p_legal := p_legal sample_prep;
  p_illegal_initial := p_illegal_initial sample_prep; p_lower := p_lower sample_prep;
  p_iq := 34; p_fq := 34; p_esc := 34; p_unesc := 34; p_esc_pct := false |}.
Definition no_uni (c : N) : bool := false.
(* t(x) with one UNIQUE constraint called [nm] over column [col] *)
Definition demo_parts (nm : option str) (col : str) : list part :=
  [Seg [10; 67; 82; 69; 65; 84; 69; 32; 84; 65; 66; 76; 69; 32; 116; 32; 40; 10; 9; 120; 32; 73; 78; 84; 44; 32; 10; 9];
   Uq nm [col]; Seg [10; 41; 10; 10]].
Definition demo_reflect (nm : option str) (col : str) : option (list (option str * list str)) :=
  match render_parts demo_prep (demo_parts nm col) with
  | Ok text => Some (parse_uqs no_uni text)
  | RaiseIndexError => None
  end.

(* a constraint name containing a double quote comes back as it was given (repaired by /repo ae21374; it used to
   come back with the quote still doubled) *)
Example uq_name_dquote_roundtrip : demo_reflect (Some [97; 34; 98]) [120] = Some [(Some [97; 34; 98], [[120]])].
Proof. vm_compute. reflexivity. Qed.
(* what remains outside the guard [dq_ok]: a quote followed by white space and a UNIQUE clause inside the name *)
Definition evil_name : str := [120; 34; 32; 85; 78; 73; 81; 85; 69; 32; 40; 121].        (* x, a double quote, then " UNIQUE (y" *)
Theorem uq_name_dquote_space_refuted : demo_reflect (Some evil_name) [120] <> Some [(Some evil_name, [[120]])].
Proof. vm_compute. discriminate. Qed.
(* a constraint name containing a newline comes back as None *)
Theorem uq_name_newline_refuted : demo_reflect (Some [97; 10; 98]) [120] = Some [(None, [[120]])].
Proof. vm_compute. reflexivity. Qed.
(* a bare (legal, unquoted) constraint name containing $ comes back (repaired by /repo 24f65cc; it used to be None) *)
Example uq_name_dollar_roundtrip : demo_reflect (Some [98; 36]) [120] = Some [(Some [98; 36], [[120]])].
Proof. vm_compute. reflexivity. Qed.
(* column names: $ in a bare name truncates it; a double quote splits it; ")" ends the list early; with a
   newline the constraint is not found at all - in each case the signature no longer equals the autoindex's
   and get_unique_constraints drops the constraint *)
Theorem uq_col_dollar_refuted : demo_reflect None [98; 36] = Some [(None, [[98]])].
Proof. vm_compute. reflexivity. Qed.
Theorem uq_col_dquote_refuted : demo_reflect None [97; 34; 98] = Some [(None, [[97]; [98]])].
Proof. vm_compute. reflexivity. Qed.
Theorem uq_col_rparen_refuted : demo_reflect None [97; 41; 98] = Some [(None, [[97]])].
Proof. vm_compute. reflexivity. Qed.
Theorem uq_col_newline_refuted : demo_reflect None [97; 10; 98] = Some [].
Proof. vm_compute. reflexivity. Qed.
Theorem uq_col_dropped_refuted :
  reflect_uniques no_uni [[[98; 36]]] []
    (match render_parts demo_prep (demo_parts None [98; 36]) with Ok t => t | RaiseIndexError => [] end) = [].
Proof. vm_compute. reflexivity. Qed.
(* the guards are satisfiable: an ordinary table *)
Example wf_demo : prep_dq demo_prep = true /\
  wf_parts no_uni demo_prep (demo_parts (Some [117; 113; 32; 49]) [97; 32; 98]) = true /\
  wf_parts no_uni demo_prep (demo_parts (Some [117; 113]) [120]) = true /\
  wf_parts no_uni demo_prep (demo_parts (Some [97; 34; 98]) [120]) = true /\
  wf_parts no_uni demo_prep (demo_parts (Some [98; 36]) [120]) = true.
Proof. vm_compute. auto 6. Qed.
