(* C22 (a) - the compiler dispatch of SQLAlchemy as an executable model (definitions only).

   What the code does (sql/visitors.py, sql/compiler.py, sql/type_api.py):

   * every [Visitable] subclass that defines [__visit_name__ = X] gets a generated method
       _compiler_dispatch(self, visitor, **kw):
           try:    meth = getattr(visitor, "visit_X")
           except AttributeError as err:
                   return visitor.visit_unsupported_compilation(self, err, **kw)
           else:   return meth(self, **kw)
     ([Visitable._generate_compiler_dispatch]).  A Visitable class with no [__visit_name__] anywhere in its
     MRO has NO [_compiler_dispatch] attribute at all ([NNoDispatch] below).
   * [Compiled.visit_unsupported_compilation] / [TypeCompiler.visit_unsupported_compilation] raise
     [UnsupportedCompilationError] (a documented CompileError subclass).
   * the operator-carrying elements dispatch a second time on the operator's [__name__]:
       visit_binary:                 getattr(self, "visit_<op>_binary", None)  | OPERATORS[op] | KeyError -> UnsupportedCompilationError
       visit_expression_clauselist:  getattr(self, "visit_<op>_expression_clauselist", None) | OPERATORS[op] | KeyError -> Unsupported...
       visit_unary (operator):       getattr(self, "visit_<op>_unary_operator", None) | OPERATORS[op]      (KeyError NOT caught)
       visit_unary (modifier):       getattr(self, "visit_<op>_unary_modifier", None) | OPERATORS[op]      (KeyError NOT caught)
       visit_clauselist:             operator None -> " " | OPERATORS[op]                                  (KeyError NOT caught)
     and [custom_op] instances dispatch a third time on their [visit_name]
       getattr(self, "visit_<visit_name>_op_binary|unary", None) | generic rendering.
   * attribute lookup [getattr(visitor, name)] on a compiler instance is a search of the class MRO (no
     compiler class of the built-in dialects defines __getattr__; the translator checks this).

   Names (method names, operator names, class names) are interned as numbers by the translator
   (specs/c22.py); the tables below are regenerated from the running source on every check.  The BODIES of
   the visit methods are not modelled: a node's children are what its body passes to [self.process]. *)
From Coq Require Import List NArith Bool.
Import ListNotations.

Notation name := N (only parsing).
Notation clsid := N (only parsing).
Notation opid := N (only parsing).

(* the four operator-dispatch method names of one operator *)
Record opnames := {
  on_binary : name;      (* "visit_<op>_binary" *)
  on_unop   : name;      (* "visit_<op>_unary_operator" *)
  on_unmod  : name;      (* "visit_<op>_unary_modifier" *)
  on_elist  : name       (* "visit_<op>_expression_clauselist" *)
}.

Record dialect := { d_sql : clsid; d_ddl : clsid; d_type : clsid }.

Record tables := {
  cls_methods : list (clsid * list name);  (* class -> the visit_* names in its own __dict__ *)
  cls_mro     : list (clsid * list clsid); (* compiler class -> its __mro__ (itself first) *)
  dialects    : list dialect;              (* statement / ddl / type compiler class of every dialect class *)
  n_unsupported : name;                    (* "visit_unsupported_compilation" *)
  n_binary : name; n_unary : name; n_elist : name; n_clist : name;
                                           (* "visit_binary", "visit_unary", "visit_expression_clauselist", "visit_clauselist" *)
  generic_ops : list opid;                 (* keys of compiler.OPERATORS *)
  op_table    : list (opid * opnames);     (* every operator function of sql/operators.py *)
  unary_ops   : list (opid * bool);        (* (op, is_modifier) pairs the library itself places in a UnaryExpression *)
  clist_ops   : list opid                  (* operators the library itself passes to ClauseList(operator=...) *)
}.

Definition memN (x : N) (l : list N) : bool := existsb (N.eqb x) l.

Fixpoint assocN {A} (k : N) (l : list (N * A)) : option A :=
  match l with
  | [] => None
  | (k', v) :: r => if N.eqb k k' then Some v else assocN k r
  end.

Definition own_methods (T : tables) (c : clsid) : list name :=
  match assocN c (cls_methods T) with Some l => l | None => [] end.

(* getattr(<instance of compiler class c>, n) succeeds *)
Definition has_attr (T : tables) (c : clsid) (n : name) : bool :=
  match assocN c (cls_mro T) with
  | Some mro => existsb (fun k => memN n (own_methods T k)) mro
  | None => false
  end.

Inductive interr := AttributeErr | KeyErr.
Inductive docerr := Unsupported | CompileErr.

(* what one dispatch step selects *)
Inductive outcome :=
| Method (n : name)      (* a method that exists on the visitor is called *)
| Generic                (* rendered from the OPERATORS string / the custom operator's opstring *)
| Doc (e : docerr)       (* documented error raised by the dispatch itself *)
| Int (e : interr).      (* internal error raised by the dispatch itself *)

(* the generated Visitable._compiler_dispatch closure with getter "visit_<vn>" *)
Definition elem_dispatch (T : tables) (c : clsid) (vn : name) : outcome :=
  if has_attr T c vn then Method vn
  else if has_attr T c (n_unsupported T) then Doc Unsupported
  else Int AttributeErr.    (* visitor.visit_unsupported_compilation itself is missing *)

Definition names_of (T : tables) (op : opid) : option opnames := assocN op (op_table T).

(* SQLCompiler._get_custom_operator_dispatch + fallback; [cust] = id of "visit_<visit_name>_op_<binary|unary>" *)
Definition custom_dispatch (T : tables) (c : clsid) (cust : option name) : outcome :=
  match cust with
  | Some n => if has_attr T c n then Method n else Generic
  | None => Generic
  end.

(* second-level dispatch of visit_binary / visit_expression_clauselist: KeyError is converted *)
Definition op_dispatch_caught (T : tables) (c : clsid) (n : name) (op : opid) : outcome :=
  if has_attr T c n then Method n
  else if memN op (generic_ops T) then Generic
  else Doc Unsupported.

(* second-level dispatch of visit_unary: OPERATORS[op] is evaluated bare *)
Definition op_dispatch_bare (T : tables) (c : clsid) (n : name) (op : opid) : outcome :=
  if has_attr T c n then Method n
  else if memN op (generic_ops T) then Generic
  else Int KeyErr.

(* an operator that is not a function of sql/operators.py has no table entry; its dispatch names exist on no
   compiler, which is what a name outside every method list means *)
Definition binary_dispatch (T : tables) (c : clsid) (op : opid) : outcome :=
  match names_of T op with
  | Some ns => op_dispatch_caught T c (on_binary ns) op
  | None => if memN op (generic_ops T) then Generic else Doc Unsupported
  end.
Definition elist_dispatch (T : tables) (c : clsid) (op : opid) : outcome :=
  match names_of T op with
  | Some ns => op_dispatch_caught T c (on_elist ns) op
  | None => if memN op (generic_ops T) then Generic else Doc Unsupported
  end.
Definition unary_dispatch (T : tables) (c : clsid) (op : opid) (modifier : bool) : outcome :=
  match names_of T op with
  | Some ns => op_dispatch_bare T c (if modifier then on_unmod ns else on_unop ns) op
  | None => if memN op (generic_ops T) then Generic else Int KeyErr
  end.
Definition clist_dispatch (T : tables) (op : option opid) : outcome :=
  match op with
  | None => Generic
  | Some o => if memN o (generic_ops T) then Generic else Int KeyErr
  end.

Inductive ckind := KSql | KDdl | KType.
Definition comp_of (d : dialect) (k : ckind) : clsid :=
  match k with KSql => d_sql d | KDdl => d_ddl d | KType => d_type d end.

(* a construct tree, seen by the compiler: every node is one [process] call *)
Inductive node :=
| NElem (k : ckind) (vn : name) (kids : list node)
      (* any Visitable with a generated dispatch "visit_<vn>", handed to the dialect's compiler of kind k *)
| NNoDispatch
      (* a Visitable without _compiler_dispatch (e.g. TypeEngine(), TupleType): obj._compiler_dispatch fails *)
| NBinary (op : opid) (cust : option name) (l r : node)
| NUnary (operator modifier : option opid) (cust : option name) (e : node)
| NExprList (op : opid) (kids : list node)
| NClauseList (op : option opid) (kids : list node).

Inductive result := ROk | RDoc (e : docerr) | RInt (e : interr).

Definition continue_if (o : outcome) (k : result) : result :=
  match o with
  | Method _ | Generic => k
  | Doc e => RDoc e
  | Int e => RInt e
  end.

Section Walk.
  Variable T : tables.
  Variable d : dialect.

  (* first failing [process] call in evaluation order, or ROk *)
  Fixpoint walk (n : node) : result :=
    let fix walks (l : list node) : result :=
      match l with
      | [] => ROk
      | x :: r => match walk x with ROk => walks r | e => e end
      end in
    match n with
    | NElem k vn kids => continue_if (elem_dispatch T (comp_of d k) vn) (walks kids)
    | NNoDispatch => RInt AttributeErr
    | NBinary op cust l r =>
        continue_if (elem_dispatch T (d_sql d) (n_binary T))
          (continue_if (binary_dispatch T (d_sql d) op)
             (continue_if (custom_dispatch T (d_sql d) cust)
                (match walk l with ROk => walk r | e => e end)))
    | NUnary operator modifier cust e =>
        continue_if (elem_dispatch T (d_sql d) (n_unary T))
          (match operator, modifier with
           | Some _, Some _ => RDoc CompileErr     (* "does not support operator and modifier simultaneously" *)
           | Some o, None =>
               continue_if (unary_dispatch T (d_sql d) o false)
                 (continue_if (custom_dispatch T (d_sql d) cust) (walk e))
           | None, Some m =>
               continue_if (unary_dispatch T (d_sql d) m true)
                 (continue_if (custom_dispatch T (d_sql d) cust) (walk e))
           | None, None => RDoc CompileErr         (* "Unary expression has no operator or modifier" *)
           end)
    | NExprList op kids =>
        continue_if (elem_dispatch T (d_sql d) (n_elist T))
          (continue_if (elist_dispatch T (d_sql d) op) (walks kids))
    | NClauseList op kids =>
        continue_if (elem_dispatch T (d_sql d) (n_clist T))
          (continue_if (clist_dispatch T op) (walks kids))
    end.

  Fixpoint walks (l : list node) : result :=
    match l with
    | [] => ROk
    | x :: r => match walk x with ROk => walks r | e => e end
    end.
End Walk.

(* ---- the finite side condition, evaluated on the regenerated tables on every run ---- *)

Definition compilers_of (T : tables) : list clsid :=
  flat_map (fun d => [d_sql d; d_ddl d; d_type d]) (dialects T).

Definition not_internal (o : outcome) : bool := match o with Int _ => false | _ => true end.

Definition covers (T : tables) : bool :=
  (* 1. the documented escape hatch exists on every compiler *)
  forallb (fun c => has_attr T c (n_unsupported T)) (compilers_of T)
  (* 2. every operator the library places in a UnaryExpression resolves on every statement compiler *)
  && forallb (fun d => forallb (fun om => not_internal (unary_dispatch T (d_sql d) (fst om) (snd om))) (unary_ops T))
       (dialects T)
  (* 3. every operator the library passes to ClauseList has an OPERATORS entry *)
  && forallb (fun o => memN o (generic_ops T)) (clist_ops T).

(* trees whose operator positions hold only what the library itself puts there (or custom_op, which always
   resolves: its dispatch names are checked like any other unary operator in [unary_ops]) *)
Definition memOB (x : N * bool) (l : list (N * bool)) : bool :=
  existsb (fun y => N.eqb (fst x) (fst y) && Bool.eqb (snd x) (snd y)) l.

Fixpoint wf (T : tables) (n : node) : bool :=
  let fix wfs (l : list node) : bool :=
    match l with [] => true | x :: r => wf T x && wfs r end in
  match n with
  | NElem _ _ kids => wfs kids
  | NNoDispatch => false
  | NBinary _ _ l r => wf T l && wf T r
  | NUnary operator modifier _ e =>
      match operator, modifier with
      | Some o, None => memOB (o, false) (unary_ops T)
      | None, Some m => memOB (m, true) (unary_ops T)
      | _, _ => true
      end && wf T e
  | NExprList _ kids => wfs kids
  | NClauseList op kids =>
      match op with Some o => memN o (clist_ops T) | None => true end && wfs kids
  end.

Fixpoint wfs (T : tables) (l : list node) : bool :=
  match l with [] => true | x :: r => wf T x && wfs T r end.

(* sanity of a table (checked on the regenerated tables on every run, not needed by the theorems): every
   compiler of a dialect has an MRO, every MRO class has a method list, and the four operator-carrying
   elements themselves resolve on every statement compiler *)
Definition tables_ok (T : tables) : bool :=
  forallb (fun c => match assocN c (cls_mro T) with
                    | Some mro => forallb (fun k => match assocN k (cls_methods T) with Some _ => true | None => false end) mro
                    | None => false end) (compilers_of T)
  && forallb (fun d => has_attr T (d_sql d) (n_binary T) && has_attr T (d_sql d) (n_unary T)
                       && has_attr T (d_sql d) (n_elist T) && has_attr T (d_sql d) (n_clist T)) (dialects T)
  && negb (match dialects T with [] => true | _ => false end).
