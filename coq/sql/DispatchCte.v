(* C22 - the CTE registry of SQLCompiler.visit_cte (definitions only).

   self.ctes_by_level_name is a dict keyed by (level, name).  When a CTE that was already registered is received
   again with a "nest_here" location (cte_opts.nesting), it is MOVED:
       old_level_name = (cte_level, cte_name)
       cte_level = len(self.stack) if nesting else 1
       new_level_name = (cte_level, cte_name)
       del self.ctes_by_level_name[old_level_name]
       self.ctes_by_level_name[new_level_name] = existing_cte
       self.level_name_by_cte[_reference_cte] = new_level_name + (cte_opts,)
   The old and the new key are EQUAL when the CTE is pinned at the level where it was first seen (e.g. a CTE first
   reached through another CTE of the same statement and then named in add_cte(..., nest_here=True)).  Every later
   reference does  existing_cte = self.ctes_by_level_name[cte_level_name]  with the key stored in level_name_by_cte. *)
From Coq Require Import List NArith Bool.
Import ListNotations.

Definition lkey := (N * N)%type.                 (* (level, name) *)
Definition lkey_eqb (a b : lkey) : bool := N.eqb (fst a) (fst b) && N.eqb (snd a) (snd b).
Definition registry := list (lkey * N).          (* key -> CTE *)

Fixpoint reg_get (k : lkey) (m : registry) : option N :=
  match m with [] => None | (k', v) :: r => if lkey_eqb k k' then Some v else reg_get k r end.
Definition reg_del (k : lkey) (m : registry) : registry := filter (fun e => negb (lkey_eqb k (fst e))) m.
Definition reg_set (k : lkey) (v : N) (m : registry) : registry := (k, v) :: reg_del k m.

(* the move as written: delete, then set *)
Definition move (old new : lkey) (cte : N) (m : registry) : registry := reg_set new cte (reg_del old m).
(* the same two statements in the other order *)
Definition move_swapped (old new : lkey) (cte : N) (m : registry) : registry := reg_del old (reg_set new cte m).
