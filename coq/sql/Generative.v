(* C03: heap model of generative statements.

   A statement object is a record of fields, each referring to a heap cell.  `_generate()` makes a
   SHALLOW copy (same cells).  A generative method then runs a list of effects on the copy:
     Rebind f v : self.f = <new value>          (a fresh cell is allocated; the old cell is untouched)
     Mutate f v : self.f.append(..) / self.f[k] = .. / self.f += <mutable>   (the cell f refers to is
                  modified in place - visible through every object sharing that cell)
   The effect lists are regenerated on every run from the source of every @_generative method
   (translate/generative.py); [rebind_only] is the reflective side condition. *)
From Coq Require Import List Arith Bool Lia.
Import ListNotations.

Definition field := nat.
Definition cell := nat.
Definition val := nat.
Inductive eff := Rebind (f : field) (v : val) | Mutate (f : field) (v : val).
Definition heap := list val.
Definition obj := list (field * cell).

Fixpoint lookup (f : field) (o : obj) : option cell :=
  match o with [] => None | (g, c) :: r => if Nat.eqb g f then Some c else lookup f r end.
Fixpoint setf (f : field) (c : cell) (o : obj) : obj :=
  match o with
  | [] => [(f, c)]
  | (g, d) :: r => if Nat.eqb g f then (f, c) :: r else (g, d) :: setf f c r
  end.
Fixpoint updh (h : heap) (c : cell) (v : val) : heap :=
  match h, c with [], _ => [] | _ :: r, O => v :: r | x :: r, S k => x :: updh r k v end.

Definition run_eff (st : heap * obj) (e : eff) : heap * obj :=
  let (h, o) := st in
  match e with
  | Rebind f v => (h ++ [v], setf f (length h) o)
  | Mutate f v => match lookup f o with Some c => (updh h c v, o) | None => (h, o) end
  end.
Definition run_method (h : heap) (o : obj) (m : list eff) : heap * obj := fold_left run_eff m (h, o).

(* what compilation reads of an object *)
Definition observe (h : heap) (o : obj) : list (field * val) := map (fun p => (fst p, nth (snd p) h 0)) o.

(* side condition: an in-place mutation only ever hits a field rebound earlier in the same call *)
Fixpoint rebind_only_from (fresh : list field) (m : list eff) : bool :=
  match m with
  | [] => true
  | Rebind f _ :: r => rebind_only_from (f :: fresh) r
  | Mutate f _ :: r => existsb (Nat.eqb f) fresh && rebind_only_from fresh r
  end.
Definition rebind_only (m : list eff) : bool := rebind_only_from [] m.

(* a chain s0 --m1--> s1 --m2--> ... : each method runs on a shallow copy of the previous object;
   returns the final heap and all objects (oldest first) *)
Fixpoint chain (h : heap) (o : obj) (ms : list (list eff)) : heap * list obj :=
  match ms with
  | [] => (h, [o])
  | m :: r => let (h1, o1) := run_method h o m in
              let (hn, os) := chain h1 o1 r in (hn, o :: os)
  end.
(* the heaps at which each object of the chain came into being *)
Fixpoint chain_heaps (h : heap) (o : obj) (ms : list (list eff)) : list heap :=
  match ms with
  | [] => [h]
  | m :: r => let (h1, o1) := run_method h o m in h :: chain_heaps h1 o1 r
  end.

Definition wf (h : heap) (o : obj) : Prop := forall p, In p o -> snd p < length h.
