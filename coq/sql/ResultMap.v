(* C11 - executable model of the result map: how a compiled SELECT and a cursor description become the
   key -> index map of a Row (definitions only).

   Transcribes, branch by branch:
     sql/selectable.py  SelectsRows._generate_columns_plus_names        (gen_cpn)
     sql/compiler.py    SQLCompiler._label_select_column                 (label_select_column)
                        SQLCompiler.visit_label / visit_column / visit_textclause (result-map part)
                        SQLCompiler._add_to_result_map                   (add_to_result_map)
                        SQLCompiler.visit_textual_select (result-map part) (compile_textual)
     engine/cursor.py   CursorResultMetaData.__init__                    (keymap_of, build)
                        ._merge_cursor_description                       (merge)
                        ._merge_textual_cols_by_position / ._merge_cols_by_name /
                        ._create_description_match_map / ._merge_cols_by_none
                        ._adapt_to_context                               (adapt)
     engine/result.py   ResultMetaData._make_key_to_index / ._key_not_found
     engine/_row_cy.py  BaseRow._get_by_key_impl                         (lookup)

   Strings only need equality here, so a string is an atom (N) interned by the harness; an
   _anonymous_label "%(<hash>[<<16|idx] <seed>[_])s" is the structured value [NA hash idx seed].
   Name truncation / anonymous numbering (SQLCompiler._truncated_identifier, C21) is the function
   [resolve] - a Section variable in the theorems, a table in the executable runner. *)
From Coq Require Import List NArith Bool Arith.
Import ListNotations.

(* ---------- names and keys ---------- *)
Inductive nm := NP (a : N) | NA (h idx : N) (seed : nm).

Fixpoint nm_eqb (a b : nm) : bool :=
  match a, b with
  | NP x, NP y => N.eqb x y
  | NA h i s, NA h' i' s' => N.eqb h h' && N.eqb i i' && nm_eqb s s'
  | _, _ => false
  end.

(* a dict key of the keymap: None, a string, or a Python object (compared by identity) *)
Inductive key := KN | KS (n : nm) | KO (o : N).

Definition key_eqb (a b : key) : bool :=
  match a, b with
  | KN, KN => true
  | KS x, KS y => nm_eqb x y
  | KO x, KO y => N.eqb x y
  | _, _ => false
  end.

Definition memk (k : key) (l : list key) : bool := existsb (key_eqb k) l.

(* fixed atoms *)
Definition a_anon : N := 1.       (* "anon" *)
Definition a_star : N := 3.       (* "*" *)

(* a possibly-truncatable name: (raw text, isinstance(_, _truncated_label)) *)
Definition tname := (nm * bool)%type.

(* ---------- insertion-ordered dict ---------- *)
Section Dict.
  Context {K V : Type} (eqb : K -> K -> bool).
  Fixpoint dset (k : K) (v : V) (d : list (K * V)) : list (K * V) :=
    match d with
    | [] => [(k, v)]
    | (k', v') :: r => if eqb k k' then (k, v) :: r else (k', v') :: dset k v r
    end.
  Fixpoint dget (d : list (K * V)) (k : K) : option V :=
    match d with
    | [] => None
    | (k', v) :: r => if eqb k k' then Some v else dget r k
    end.
  (* d.update(l) / {k: v for k, v in l} on top of d *)
  Definition dupdate (d : list (K * V)) (l : list (K * V)) : list (K * V) :=
    fold_left (fun d kv => dset (fst kv) (snd kv) d) l d.
  Definition dict_of (l : list (K * V)) : list (K * V) := dupdate [] l.
  Definition dmem (d : list (K * V)) (k : K) : bool :=
    match dget d k with Some _ => true | None => false end.
End Dict.

(* ================= compiler side ================= *)

Inductive ccls := CLabel | CColumnClause | CText | CUnnamed.

(* the attributes of one selected column element that the code reads *)
Record cdesc := {
  d_obj : N;                     (* the Python object *)
  d_hash : N;                    (* hash(c) *)
  d_cls : ccls;
  d_lit : bool;                  (* ColumnClause.is_literal *)
  d_table : bool;                (* ColumnClause.table is not None *)
  d_render : bool;               (* _render_label_in_columns_clause *)
  d_name : option tname;         (* getattr(c, "name", None) *)
  d_key : key;                   (* c.key *)
  d_tq : option tname;           (* _tq_label *)
  d_nonanon : option tname;      (* _non_anon_label *)
  d_anon_name : nm;              (* _anon_name_label *)
  d_anon_tq : nm;                (* _anon_tq_label *)
  d_exprlabel : option nm;       (* _expression_label *)
  d_proxy : key                  (* key_naming_convention(c): the proxy name *)
}.

Inductive style := StNone | StTable | StDisamb.

(* ColumnElement._anon_label(seed, add_hash=idx) *)
Definition anon_label (c : cdesc) (seed : nm) (idx : N) : nm := NA (d_hash c) idx seed.
(* _dedupe_anon_tq_label_idx:  label = getattr(self, "_tq_label", None) or "anon" *)
Definition dedupe_anon_tq (c : cdesc) (idx : N) : nm :=
  anon_label c (match d_tq c with Some (n, _) => n | None => NP a_anon end) idx.
(* _dedupe_anon_label_idx *)
Definition dedupe_anon (c : cdesc) (idx : N) : nm :=
  match d_name c with
  | None => dedupe_anon_tq c idx
  | Some (n, _) => anon_label c n idx
  end.

(* one element of compile_state.columns_plus_names *)
Record cpn := {
  p_required : option tname;
  p_proxy : key;
  p_fallback : option tname;
  p_col : cdesc;
  p_repeated : bool
}.

Definition names_t := list (nm * N).     (* names: effective name -> hash of the column stored *)
Definition nmem (names : names_t) (n : nm) : bool := dmem nm_eqb names n.

Definition raw (o : option tname) : option nm := match o with Some (n, _) => Some n | None => None end.
Definition anon (n : nm) : option tname := Some (n, true).   (* every _anonymous_label is a _truncated_label *)

(* one iteration of the loop of _generate_columns_plus_names; state = (names, dedupe_hash) *)
Definition cpn_step (st : style) (anon_for_dupe_key : bool) (s : names_t * N) (c : cdesc)
  : (names_t * N) * cpn :=
  let '(names, dh) := s in
  let tq := match st with StTable => true | _ => false end in
  (* first part: effective / required / fallback name, [repeated] for unnamed expressions *)
  let '(names, dh, eff, req, fb, rep) :=
    if negb (d_render c) then (names, dh, None, None, None, false)
    else match st with
    | StNone =>
        (names, dh, None, None,
         match d_nonanon c with Some n => Some n | None => anon (d_anon_name c) end, false)
    | _ =>
        let '(eff, req, fb) :=
          if tq then (d_tq c, d_tq c, d_tq c) else (d_nonanon c, None, d_nonanon c) in
        match eff with
        | Some _ => (names, dh, eff, req, fb, false)
        | None =>
            match d_exprlabel c with
            | None =>
                (* dupe_name = c._anon_name_label in names;
                   repeated = dupe_name and hash(names[c._anon_name_label]) == hash(c) *)
                let dupe_name := nmem names (d_anon_name c) in
                let rep := match dget nm_eqb names (d_anon_name c) with
                           | Some h => N.eqb h (d_hash c)
                           | None => false
                           end in
                let names := dset nm_eqb (d_anon_name c) (d_hash c) names in
                if dupe_name then
                  (names, (dh + 1)%N, None, None,
                   anon (if tq then dedupe_anon_tq c dh else dedupe_anon c dh), rep)
                else (names, dh, None, None, anon (d_anon_name c), false)
            | Some e => (names, dh, Some (e, false), Some (e, false), Some (e, false), false)
            end
        end
    end in
  (* second part: de-duplication on the effective name *)
  let '(names, dh, req, fb, rep) :=
    match eff with
    | None => (names, dh, req, fb, rep)
    | Some (en, _) =>
        match dget nm_eqb names en with
        | Some h =>
            if negb (N.eqb h (d_hash c)) then
              let r := if tq then d_anon_tq c else d_anon_name c in
              if anon_for_dupe_key && nmem names r then
                let r' := if tq then dedupe_anon_tq c dh else dedupe_anon c dh in
                (names, (dh + 1)%N, anon r', anon r', true)
              else (dset nm_eqb r (d_hash c) names, dh, anon r, anon r, rep)
            else if anon_for_dupe_key then
              let r' := if tq then dedupe_anon_tq c dh else dedupe_anon c dh in
              (names, (dh + 1)%N, anon r', anon r', true)
            else (names, dh, req, fb, rep)
        | None => (dset nm_eqb en (d_hash c) names, dh, req, fb, rep)
        end
    end in
  ((names, dh), {| p_required := req; p_proxy := d_proxy c; p_fallback := fb; p_col := c; p_repeated := rep |}).

Fixpoint cpn_loop (st : style) (afd : bool) (s : names_t * N) (cols : list cdesc) : list cpn :=
  match cols with
  | [] => []
  | c :: r => let '(s', p) := cpn_step st afd s c in p :: cpn_loop st afd s' r
  end.
Definition gen_cpn (st : style) (afd : bool) (cols : list cdesc) : list cpn := cpn_loop st afd ([], 1%N) cols.

(* ---- result columns ---- *)
Record rc := { rc_keyname : key; rc_name : key; rc_objs : list key }.

(* compiler flags (_ordered_columns, _textual_ordered_columns, _ad_hoc_textual, _loose_column_name_matching) *)
Record cflags := { f_ordered : bool; f_textual_ordered : bool; f_adhoc : bool; f_loose : bool }.

Section Compile.
  Variable resolve : nm -> nm.       (* _truncated_identifier("colident", name) *)

  Definition final (t : tname) : nm := if snd t then resolve (fst t) else fst t.
  Definition kopt (o : option tname) : key := match o with Some (n, _) => KS n | None => KN end.

  (* visit_label(label, add_to_result_map=...) within the columns clause; [lobj] is the Label or the
     _CompileLabel, [alt] = label._alt_names *)
  Definition visit_label (lobj : N) (name : tname) (alt : list key) : rc :=
    let labelname := final name in
    {| rc_keyname := KS labelname; rc_name := KS (fst name); rc_objs := KO lobj :: KS labelname :: alt |}.

  (* visit_column(column, add_to_result_map=...) *)
  Definition visit_column (c : cdesc) : rc :=
    match d_name c with
    | None => {| rc_keyname := KN; rc_name := KN; rc_objs := [KO (d_obj c)] |}   (* not reached: a ColumnClause has a name *)
    | Some (n, tr) =>
        let name := if negb (d_lit c) && tr then resolve n else n in
        {| rc_keyname := KS name; rc_name := KS n;
           rc_objs := [KO (d_obj c); KS name; d_key c]
                      ++ match d_tq c with Some (t, _) => [KS t] | None => [] end |}
    end.

  (* visit_textclause(..., add_to_result_map=...) *)
  Definition visit_text (c : cdesc) : rc := {| rc_keyname := KN; rc_name := KN; rc_objs := [KO (d_obj c)] |}.

  (* the entry appended by _label_select_column for one element of columns_plus_names; [cl] is the
     identity of the _CompileLabel created for it *)
  Definition label_select_column (asfrom : bool) (cl : N) (p : cpn) : rc :=
    let c := p_col p in
    let e :=
      match d_cls c with
      | CLabel =>
          match d_name c with
          | Some n => visit_label (d_obj c) n []
          | None => visit_text c
          end
      | _ =>
          match p_required p with
          | Some n =>
              (* _CompileLabel(col_expr, name, alt_names=(proxy_name, column._tq_label)) *)
              visit_label cl n [KO (d_obj c); p_proxy p; kopt (d_tq c)]
          | None =>
              let render_with_label :=
                match d_cls c with
                | CColumnClause => asfrom && negb (d_lit c) && d_table c
                | CText => false
                | _ => true
                end in
              if render_with_label then
                let fb := match p_fallback p with Some (n, _) => n | None => d_anon_name c end in
                visit_label cl (fb, true) [KO (d_obj c); p_proxy p]
              else match d_cls c with CText => visit_text c | _ => visit_column c end
          end
      end in
    (* column_is_repeated: the targets are replaced by (keyname,) *)
    if p_repeated p
    then {| rc_keyname := rc_keyname e; rc_name := rc_name e; rc_objs := [rc_keyname e] |}
    else e.

  (* _add_to_result_map: keyname None or "*" switches to ad-hoc textual matching *)
  Definition add_flags (f : cflags) (e : rc) : cflags :=
    match rc_keyname e with
    | KN => {| f_ordered := false; f_textual_ordered := f_textual_ordered f; f_adhoc := true; f_loose := f_loose f |}
    | KS (NP a) =>
        if N.eqb a a_star
        then {| f_ordered := false; f_textual_ordered := f_textual_ordered f; f_adhoc := true; f_loose := f_loose f |}
        else f
    | _ => f
    end.

  Fixpoint lsc_loop (asfrom : bool) (cl : N) (ps : list cpn) : list rc :=
    match ps with
    | [] => []
    | p :: r => label_select_column asfrom cl p :: lsc_loop asfrom (cl + 1)%N r
    end.

  Definition cl_base : N := 1000.
  (* visit_select, top level: result columns and flags *)
  Definition compile_select (st : style) (cols : list cdesc) : list rc * cflags :=
    let rcs := lsc_loop false cl_base (gen_cpn st true cols) in
    (rcs, fold_left add_flags rcs
            {| f_ordered := true; f_textual_ordered := false; f_adhoc := false; f_loose := false |}).

  (* visit_textual_select: every column argument is processed directly *)
  Definition compile_textual (positional : bool) (cols : list cdesc) : list rc * cflags :=
    let rcs := map (fun c => match d_cls c with
                             | CLabel => match d_name c with Some n => visit_label (d_obj c) n [] | None => visit_text c end
                             | CText => visit_text c
                             | _ => visit_column c
                             end) cols in
    (rcs, fold_left add_flags rcs
            {| f_ordered := positional; f_textual_ordered := positional; f_adhoc := false;
               f_loose := negb positional && negb (Nat.eqb (length cols) 0) |}).
End Compile.

(* ================= cursor side ================= *)

Inductive rix := RNone | RAt (n : nat) | RAmb.       (* MD_RESULT_MAP_INDEX: None / int / -1 *)
Definition rix_eqb (a b : rix) : bool :=
  match a, b with
  | RNone, RNone => true | RAmb, RAmb => true | RAt x, RAt y => Nat.eqb x y | _, _ => false
  end.

Record mrec := {
  m_idx : option nat;        (* MD_INDEX; None = ambiguous *)
  m_ridx : rix;
  m_objs : list key;         (* MD_OBJECTS (None and () are both falsy: []) *)
  m_key : key;               (* MD_LOOKUP_KEY *)
  m_rend : key;              (* MD_RENDERED_NAME *)
  m_untr : key               (* MD_UNTRANSLATED, KN = None *)
}.

Inductive exn := Ambiguous | NoSuchColumn | DuplicateTextual.
Inductive result (A : Type) := Ok (a : A) | Raise (e : exn).
Arguments Ok {A} a.
Arguments Raise {A} e.

(* one entry of the cursor description after _colnames_from_description: (colname, untranslated) *)
Definition dcol := (key * key)%type.

Fixpoint mapi_from {A B} (f : nat -> A -> B) (i : nat) (l : list A) : list B :=
  match l with [] => [] | x :: r => f i x :: mapi_from f (S i) r end.
Definition mapi {A B} (f : nat -> A -> B) (l : list A) : list B := mapi_from f 0 l.

(* positional 1:1 case *)
Definition raw_positional (rcs : list rc) : list mrec :=
  mapi (fun i e => {| m_idx := Some i; m_ridx := RAt i; m_objs := rc_objs e; m_key := rc_name e;
                      m_rend := rc_keyname e; m_untr := KN |}) rcs.

(* _merge_textual_cols_by_position *)
Fixpoint textual_loop (rcs : list rc) (i : nat) (desc : list dcol) (seen : list key) : result (list mrec) :=
  match desc with
  | [] => Ok []
  | (colname, untr) :: r =>
      match nth_error rcs i with
      | Some e =>                                    (* idx < num_ctx_cols *)
          let o0 := hd KN (rc_objs e) in
          if memk o0 seen then Raise DuplicateTextual
          else match textual_loop rcs (S i) r (o0 :: seen) with
               | Raise x => Raise x
               | Ok l => Ok ({| m_idx := Some i; m_ridx := RAt i; m_objs := rc_objs e; m_key := colname;
                                m_rend := colname; m_untr := untr |} :: l)
               end
      | None =>
          match textual_loop rcs (S i) r seen with
          | Raise x => Raise x
          | Ok l => Ok ({| m_idx := Some i; m_ridx := RNone; m_objs := []; m_key := colname;
                           m_rend := colname; m_untr := untr |} :: l)
          end
      end
  end.
Definition raw_textual (rcs : list rc) (desc : list dcol) : result (list mrec) := textual_loop rcs 0 desc [].

(* _create_description_match_map: key -> (objects, ridx) (the name and type slots are not used for lookups) *)
Definition mm_step (loose : bool) (d : list (key * (list key * nat))) (ie : nat * rc) : list (key * (list key * nat)) :=
  let '(ridx, e) := ie in
  let k := rc_keyname e in
  let d := match dget key_eqb d k with
           | Some (eo, _) => dset key_eqb k (eo ++ rc_objs e, ridx) d
           | None => dset key_eqb k (rc_objs e, ridx) d
           end in
  if loose then
    fold_left (fun d rk => match dget key_eqb d rk with
                           | Some _ => d                                   (* setdefault *)
                           | None => dset key_eqb rk (rc_objs e, ridx) d
                           end) (rc_objs e) d
  else d.
Definition match_map (loose : bool) (rcs : list rc) : list (key * (list key * nat)) :=
  fold_left (mm_step loose) (mapi (fun i e => (i, e)) rcs) [].

(* _merge_cols_by_name *)
Definition raw_byname (rcs : list rc) (loose : bool) (desc : list dcol) : list mrec :=
  let mm := match_map loose rcs in
  mapi (fun i cu =>
          let '(colname, untr) := cu in
          match dget key_eqb mm colname with
          | Some (objs, ridx) => {| m_idx := Some i; m_ridx := RAt ridx; m_objs := objs; m_key := colname;
                                    m_rend := colname; m_untr := untr |}
          | None => {| m_idx := Some i; m_ridx := RNone; m_objs := []; m_key := colname; m_rend := colname;
                       m_untr := untr |}
          end) desc.

(* _merge_cols_by_none *)
Definition raw_bynone (desc : list dcol) : list mrec :=
  mapi (fun i cu => {| m_idx := Some i; m_ridx := RNone; m_objs := []; m_key := fst cu; m_rend := fst cu;
                       m_untr := snd cu |}) desc.

(* _merge_cursor_description (driver_column_names = False) *)
Definition merge (rcs : list rc) (f : cflags) (desc : list dcol) : result (list mrec) :=
  let n := length rcs in
  if negb (Nat.eqb n 0) && f_ordered f && negb (f_textual_ordered f) && Nat.eqb n (length desc)
  then Ok (raw_positional rcs)
  else if f_textual_ordered f || (f_adhoc f && Nat.eqb (length desc) n) then raw_textual rcs desc
  else if negb (Nat.eqb n 0) then Ok (raw_byname rcs (f_loose f) desc)
  else Ok (raw_bynone desc).

Definition keymap := list (key * mrec).

(* the dupes loop of __init__: index_by_key.setdefault(key, idx) != idx *)
Definition dupes_step (s : list (key * option nat) * list key) (r : mrec) : list (key * option nat) * list key :=
  fold_left (fun s k =>
               let '(ibk, dupes) := s in
               match dget key_eqb ibk k with
               | Some i0 =>
                   if match i0, m_idx r with Some a, Some b => Nat.eqb a b | None, None => true | _, _ => false end
                   then (ibk, dupes)
                   else (ibk, if memk k dupes then dupes else dupes ++ [k])
               | None => (dset key_eqb k (m_idx r) ibk, dupes)
               end) (m_rend r :: m_objs r) s.
Definition dupes_of (rw : list mrec) : list key := snd (fold_left dupes_step rw ([], [])).

Definition amb_rec (k : key) : mrec :=
  {| m_idx := None; m_ridx := RAmb; m_objs := []; m_key := k; m_rend := k; m_untr := KN |}.

Definition by_key_of (rw : list mrec) : keymap := dict_of key_eqb (map (fun r => (m_key r, r)) rw).
Definition obj_entries (rw : list mrec) (excl : list key) : list (key * mrec) :=
  flat_map (fun r => map (fun o => (o, r)) (filter (fun o => negb (memk o excl)) (m_objs r))) rw.

(* the keymap part of CursorResultMetaData.__init__; [n] = num_ctx_cols; [translate] =
   bool(context._translate_colname) *)
Definition keymap_of (rw : list mrec) (n : nat) (translate : bool) : keymap :=
  let km :=
    if negb (Nat.eqb n 0) then
      let by_key := by_key_of rw in
      (* len(by_key) != num_ctx_cols or len(by_key) != len(raw) *)
      if negb (Nat.eqb (length by_key) n) || negb (Nat.eqb (length by_key) (length rw)) then
        let dupes := dupes_of rw in
        let km := dict_of key_eqb (obj_entries rw dupes) in
        let by_key := dupdate key_eqb by_key (map (fun k => (k, amb_rec k)) dupes) in
        dupdate key_eqb km by_key
      else dupdate key_eqb (dict_of key_eqb (obj_entries rw [])) by_key
    else by_key_of rw in
  if Nat.eqb n 0 && translate then
    dupdate key_eqb km
      (flat_map (fun r => match m_untr r with
                          | KN => []
                          | u => match dget key_eqb km (m_key r) with Some x => [(u, x)] | None => [] end
                          end) rw)
  else km.

Record metadata := { md_keymap : keymap; md_keys : list key; md_safe : bool }.

(* _safe_for_cache as set by _merge_cursor_description (driver_column_names = False): the metadata of the
   first execution may be reused for later executions of the cached statement only when it does not depend
   on the order in which the cursor happens to deliver the columns *)
Definition safe_for_cache (rcs : list rc) (f : cflags) (desc : list dcol) : bool :=
  let n := length rcs in
  if negb (Nat.eqb n 0) && f_ordered f && negb (f_textual_ordered f) && Nat.eqb n (length desc) then true
  else if f_textual_ordered f || (f_adhoc f && Nat.eqb (length desc) n) then true
  else false.

Definition build (rcs : list rc) (f : cflags) (desc : list dcol) (translate : bool) : result metadata :=
  match merge rcs f desc with
  | Raise e => Raise e
  | Ok rw =>
      let n := length rcs in
      let positional :=
        negb (Nat.eqb n 0) && f_ordered f && negb (f_textual_ordered f) && Nat.eqb n (length desc) in
      Ok {| md_keymap := keymap_of rw n translate;
            md_keys := if positional then map rc_keyname rcs else map m_key rw;
            md_safe := safe_for_cache rcs f desc |}
  end.

(* _key_to_index.get(key) *)
Definition k2i_get (km : keymap) (k : key) : option nat :=
  match dget key_eqb km k with Some r => m_idx r | None => None end.

(* BaseRow._get_by_key_impl + ResultMetaData._key_not_found *)
Definition lookup (km : keymap) (k : key) : result nat :=
  match k2i_get km k with
  | Some i => Ok i
  | None => if dmem key_eqb km k then Raise Ambiguous else Raise NoSuchColumn
  end.

(* _adapt_to_context: keymap_by_position = {rec[MD_RESULT_MAP_INDEX]: rec for rec in keymap.values()} *)
Definition by_position (km : keymap) : list (rix * mrec) :=
  dict_of rix_eqb (map (fun kr => (m_ridx (snd kr), snd kr)) km).
Definition adapt (km : keymap) (news : list key) : keymap :=
  let bp := by_position km in
  dupdate key_eqb km
    (flat_map (fun x => x)
       (mapi (fun i new => match dget rix_eqb bp (RAt i) with Some r => [(new, r)] | None => [] end) news)).

(* ================= spec side ================= *)
(* the names a column can be stored under in the [names] dict of _generate_columns_plus_names *)
Definition effnames (c : cdesc) : list nm :=
  match d_tq c with Some (n, _) => [n] | None => [] end ++
  match d_nonanon c with Some (n, _) => [n] | None => [] end ++
  match d_exprlabel c with Some e => [e] | None => [] end.
Definition anonnames (c : cdesc) : list nm := [d_anon_name c; d_anon_tq c].
Definition allnames (c : cdesc) : list nm := effnames c ++ anonnames c.

(* an anonymous label "%(hash name)s" belongs to one column identity: it is not a name of a selected
   column with another hash (the code asserts this in _generate_columns_plus_names) *)
Definition anon_labels_private (cols : list cdesc) : Prop :=
  forall c c' n, In c cols -> In c' cols -> In n (anonnames c) -> In n (allnames c') -> d_hash c' = d_hash c.

Definition is_obj (k : key) : bool := match k with KO _ => true | _ => false end.
