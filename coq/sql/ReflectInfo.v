(* C15: engine/reflection.py _ReflectionInfo.update - the merge that runs when a table is reflected only
   because another table's foreign key points at it (Table(child, autoload_with=...) pulling in the parent,
   MetaData.reflect(only=[...])).  A _ReflectionInfo has one dict (table key -> reflected data) per category;
   an optional category may be None.  [merged] is the set of categories the update loop visits - extracted
   from the source on every run; the theorem holds when it is all of them. *)
From Coq Require Import List NArith Bool Arith Lia.
Import ListNotations.
Open Scope N_scope.

Definition dict := list (N * N).                       (* table key -> (an identifier of) the reflected data *)
Definition info := N -> option dict.                   (* category index -> its dict, None for a missing optional one *)
Fixpoint dget (d : dict) (k : N) : option N :=
  match d with [] => None | (k', v) :: r => if k =? k' then Some v else dget r k end.
(* dict.update(other): the other's entries win *)
Definition dupdate (a b : dict) : dict := b ++ a.
Definition merge_field (v ov : option dict) : option dict :=
  match ov with
  | None => v
  | Some o => match v with None => Some o | Some d => Some (dupdate d o) end
  end.
Definition memN' (c : N) (l : list N) : bool := existsb (N.eqb c) l.
Definition update (merged : list N) (self other : info) : info :=
  fun f => if memN' f merged then merge_field (self f) (other f) else self f.
Definition lookup (i : info) (f k : N) : option N :=
  match i f with Some d => dget d k | None => None end.

Lemma dget_app : forall a b k, dget (b ++ a) k = match dget b k with Some v => Some v | None => dget a k end.
Proof.
  intros a b k. induction b as [|[k' v] b IH]; cbn [app dget]; [reflexivity|].
  destruct (k =? k'); [reflexivity|exact IH].
Qed.

(* after the merge every category knows everything either side knew - the data of the pulled-in table included *)
Theorem update_complete : forall merged nfields, (forall f, f < nfields -> memN' f merged = true) ->
  forall self other f k, f < nfields ->
  lookup (update merged self other) f k =
  match lookup other f k with Some v => Some v | None => lookup self f k end.
Proof.
  intros merged nfields Hall self other f k Hf. unfold lookup, update. rewrite (Hall f Hf).
  unfold merge_field. destruct (other f) as [o|]; [|reflexivity].
  destruct (self f) as [d|].
  - unfold dupdate. apply dget_app.
  - destruct (dget o k); reflexivity.
Qed.

(* REFUTED when a category is left out: its data of the pulled-in table is lost (category 4 = unique_constraints) *)
Theorem update_missing_category_refuted :
  let self := fun f => Some [(1, 10 + f)] in
  let other := fun f => Some [(2, 20 + f)] in
  lookup (update [0; 1; 2; 3; 5; 6; 7; 8] self other) 4 2 = None /\
  lookup (update [0; 1; 2; 3; 4; 5; 6; 7; 8] self other) 4 2 = Some 24.
Proof. vm_compute. split; reflexivity. Qed.

Definition all_below (n : N) (merged : list N) : bool :=
  forallb (fun f => memN' f merged) (map N.of_nat (seq 0 (N.to_nat n))).
Lemma all_below_spec : forall n merged, all_below n merged = true -> forall f, f < n -> memN' f merged = true.
Proof.
  intros n merged H f Hf. unfold all_below in H. rewrite forallb_forall in H. apply H.
  apply in_map_iff. exists (N.to_nat f). split; [apply N2Nat.id|]. apply in_seq. lia.
Qed.
