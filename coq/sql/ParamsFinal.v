(* C04 - facts shared by the three placeholder families after the postcompile loop *)
From Coq Require Import List NArith ZArith Bool Lia.
Import ListNotations.
From SAV.sql Require Import Params ParamsDict ParamsEscape ParamsGuard ParamsPost ParamsInline.

Section Final.
Variable tab : list (N * N).
Variable lit : Z -> str.
Variable empty_expr : str.
Variable ps : style.
Variable inp : input.
Hypothesis W : wf tab inp.

Notation order := (i_order inp).
Notation ebn := (ebn_of tab (i_order inp)).
Notation repl_of := (repl_of tab lit empty_expr ps inp).
Notation Inv := (Inv tab lit empty_expr ps inp).

(* the token that stands for a source token once binds are rendered by [b] *)
Definition ctok (b : name -> otok) (t : tok) : otok :=
  match t with Txt s => OTxt (pct ps s) | Bind n => b n | PC n => OPC (esc tab n) end.
Definition final_tok (b : name -> otok) (t : tok) : list otok :=
  match t with Txt s => [OTxt (pct ps s)] | Bind n => [b n] | PC n => repl_of n end.
Definition subst_fun (st : pcstate) (t : otok) : result (list otok) :=
  match t with
  | OPC k => match dget k (s_repl st) with Some r => Ok r | None => Raise KeyError end
  | _ => Ok [t]
  end.

Lemma subst_ok : forall (b : name -> otok) st toks,
  (forall n, match b n with OPC _ => False | _ => True end) ->
  (forall n, In (PC n) toks -> dget (esc tab n) (s_repl st) = Some (repl_of n)) ->
  concatM (subst_fun st) (map (ctok b) toks) = Ok (flat_map (final_tok b) toks).
Proof.
  intros b st toks Hb. induction toks as [|t toks IH]; intro H; [reflexivity|].
  cbn [map concatM flat_map]. rewrite IH by (intros n Hn; apply H; right; exact Hn).
  destruct t as [s|n|n]; cbn [ctok subst_fun final_tok bind app].
  - reflexivity.
  - specialize (Hb n). destruct (b n); try reflexivity. destruct Hb.
  - rewrite (H n (or_introl eq_refl)). reflexivity.
Qed.

Lemma no_pc_final : forall (b : name -> otok) toks,
  (forall n, ~ In (PC n) toks) -> flat_map (final_tok b) toks = map (ctok b) toks.
Proof.
  intros b toks. induction toks as [|t toks IH]; intro H; [reflexivity|].
  cbn [flat_map map]. rewrite IH by (intros n Hn; apply (H n); right; exact Hn).
  destruct t as [s|n|n]; try reflexivity. exfalso. apply (H n). left. reflexivity.
Qed.

(* ---- the dictionary handed to a named / pyformat driver ---- *)
Definition fdict (d : dict pval) : dict pval :=
  match ebn with [] => d | _ => drekey (dget_or_key ebn) d end.

Lemma rename_inj : forall done st, Inv done st ->
  forall a b, In a (keys (s_params st)) -> In b (keys (s_params st)) ->
  dget_or_key ebn a = dget_or_key ebn b -> a = b.
Proof.
  intros done st I a b Ha Hb.
  destruct (v_keys _ _ _ _ _ _ _ I a Ha) as [Ha'|[na [Hna Hxa]]];
  destruct (v_keys _ _ _ _ _ _ _ I b Hb) as [Hb'|[nb [Hnb Hxb]]].
  - rewrite !ebn_get_or_key_in by assumption. apply (w_inj _ _ W); assumption.
  - rewrite (ebn_get_or_key_in tab _ _ Ha'), (ebn_get_or_key_out tab _ b) by (exact (w_xfresh _ _ W nb b Hnb Hxb)).
    intro He. exfalso. exact (w_xesc _ _ W nb a b Hnb Ha' Hxb (eq_sym He)).
  - rewrite (ebn_get_or_key_in tab _ _ Hb'), (ebn_get_or_key_out tab _ a) by (exact (w_xfresh _ _ W na a Hna Hxa)).
    intro He. exfalso. exact (w_xesc _ _ W na b a Hna Hb' Hxa He).
  - rewrite (ebn_get_or_key_out tab _ a) by (exact (w_xfresh _ _ W na a Hna Hxa)).
    rewrite (ebn_get_or_key_out tab _ b) by (exact (w_xfresh _ _ W nb b Hnb Hxb)). tauto.
Qed.

Lemma fdict_get : forall done st k, Inv done st -> In k (keys (s_params st)) ->
  dget (dget_or_key ebn k) (fdict (s_params st)) = dget k (s_params st).
Proof.
  intros done st k I Hk. unfold fdict. destruct ebn as [|e0 er] eqn:E.
  - reflexivity.
  - rewrite <- E. rewrite drekey_inj.
    + apply dget_rekey_map. intros a Ha He. apply (rename_inj done st I); assumption.
    + apply (rename_inj done st I).
    + exact (v_nodup _ _ _ _ _ _ _ I).
Qed.

(* a plain bind: its (escaped) name finds the value given for it *)
Lemma fdict_plain : forall done st n, Inv done st -> In n order -> kind_of inp n = Plain ->
  dget (esc tab n) (fdict (s_params st)) = dget n (i_params inp).
Proof.
  intros done st n I Hn K. rewrite <- (ebn_get_or_key_in tab _ _ Hn).
  assert (Hg : dget n (s_params st) = dget n (i_params inp)) by (apply (v_keep _ _ _ _ _ _ _ I); [exact Hn|right; exact K]).
  rewrite (fdict_get done st n I); [exact Hg|].
  apply dget_In_keys. rewrite Hg. destruct (w_plain _ _ W n Hn K) as [v Hv]. congruence.
Qed.

(* an expanded name finds its element *)
Lemma fdict_x : forall done st n k v, Inv done st -> In n done -> In (k, v) (xitems tab inp n) ->
  dget k (fdict (s_params st)) = Some (PS v).
Proof.
  intros done st n k v I Hn Hx.
  assert (Hg : dget k (s_params st) = Some (PS v)) by exact (v_x _ _ _ _ _ _ _ I n k v Hn Hx).
  assert (Ho : In n order) by exact (v_done _ _ _ _ _ _ _ I n Hn).
  rewrite <- (ebn_get_or_key_out tab order k) at 1.
  - rewrite (fdict_get done st k I); [exact Hg|]. apply dget_In_keys. congruence.
  - exact (w_xfresh _ _ W n k Ho (xitem_name _ _ _ _ _ Hx)).
Qed.

(* ---- the reference meaning of a source token ---- *)
Lemma spec_bind : forall n v, dget n (i_params inp) = Some (PS v) -> spec_tok lit empty_expr inp (Bind n) = Some [Val v].
Proof. intros n v H. cbn [spec_tok]. rewrite H. reflexivity. Qed.

Lemma kind_pv : forall n v, dget n (i_params inp) = Some v -> pv inp n = v.
Proof. intros n v H. unfold pv. rewrite H. reflexivity. Qed.
End Final.
