(* C04 - facts shared by the three placeholder families after the postcompile loop *)
From Coq Require Import List NArith ZArith Bool Lia.
Import ListNotations.
From SAV.sql Require Import Params ParamsDict ParamsEscape ParamsGuard ParamsPost ParamsInline.

Section Final.
Variable tab : list (N * N).
Variable lit : Z -> str.
Variable empty_expr : str.
Variable proc : N -> Z -> Z.
Variable ps : style.
Variable inp : input.
Hypothesis W : wf tab inp.

Notation order := (i_order inp).
Notation ebn := (ebn_of tab (i_order inp)).
Notation repl_of := (repl_of tab lit empty_expr ps inp).
Notation Inv := (Inv tab lit empty_expr ps inp).

(* the token that stands for a source token once binds are rendered by [b] *)
Definition ctok (b : name -> otok) (t : tok) : otok :=
  match t with Txt s => OTxt (pct ps s) | Bind n => b n | PC n => OPC (esc tab n) end.
Definition final_tok (b : name -> otok) (t : tok) : list otok :=
  match t with Txt s => [OTxt (pct ps s)] | Bind n => [b n] | PC n => repl_of n end.
Definition subst_fun (st : pcstate) (t : otok) : result (list otok) :=
  match t with
  | OPC k => match dget k (s_repl st) with Some r => Ok r | None => Raise KeyError end
  | _ => Ok [t]
  end.

Lemma subst_ok : forall (b : name -> otok) st toks,
  (forall n, match b n with OPC _ => False | _ => True end) ->
  (forall n, In (PC n) toks -> dget (esc tab n) (s_repl st) = Some (repl_of n)) ->
  concatM (subst_fun st) (map (ctok b) toks) = Ok (flat_map (final_tok b) toks).
Proof.
  intros b st toks Hb. induction toks as [|t toks IH]; intro H; [reflexivity|].
  cbn [map concatM flat_map]. rewrite IH by (intros n Hn; apply H; right; exact Hn).
  destruct t as [s|n|n]; cbn [ctok subst_fun final_tok bind app].
  - reflexivity.
  - specialize (Hb n). destruct (b n); try reflexivity. destruct Hb.
  - rewrite (H n (or_introl eq_refl)). reflexivity.
Qed.

Lemma no_pc_final : forall (b : name -> otok) toks,
  (forall n, ~ In (PC n) toks) -> flat_map (final_tok b) toks = map (ctok b) toks.
Proof.
  intros b toks. induction toks as [|t toks IH]; intro H; [reflexivity|].
  cbn [flat_map map]. rewrite IH by (intros n Hn; apply (H n); right; exact Hn).
  destruct t as [s|n|n]; try reflexivity. exfalso. apply (H n). left. reflexivity.
Qed.

(* ---- bind processors ---- *)
(* flattened_processors *)
Definition fprocs (st : pcstate) : dict N := dupdate (s_procs st) (i_procs inp).
Notation pz := (pz proc inp).

Lemma dget_In_pair : forall {V} k (v : V) (d : dict V), dget k d = Some v -> In (k, v) d.
Proof.
  induction d as [|[k' v'] d IH]; cbn [dget]; [discriminate|].
  destruct (str_eqb_spec k k') as [->|Hn]; intro H.
  - inversion H; subst. left. reflexivity.
  - right. apply IH. exact H.
Qed.

Lemma fprocs_plain : forall done st n, Inv done st -> In n order -> dget n (fprocs st) = dget n (i_procs inp).
Proof.
  intros done st n I Hn. unfold fprocs. apply dget_dupdate_other. intro Hk.
  destruct (v_procs_keys _ _ _ _ _ _ _ I n Hk) as [n1 [B1 B2]].
  exact (w_xfresh _ _ W n1 n (v_done _ _ _ _ _ _ _ I n1 B1) B2 Hn).
Qed.

Lemma fprocs_x : forall done st n k v, Inv done st -> In n done -> In (k, v) (xitems tab inp n) ->
  dget k (fprocs st) = dget n (i_procs inp).
Proof.
  intros done st n k v I Hn Hx. unfold fprocs.
  pose proof (v_procs_x _ _ _ _ _ _ _ I n k v Hn Hx) as G.
  destruct (dget k (s_procs st)) as [p|] eqn:E.
  - rewrite <- G. apply dget_dupdate_in; [exact (v_procs_nodup _ _ _ _ _ _ _ I)|apply dget_In_pair; exact E].
  - rewrite dget_dupdate_other by (apply dget_None_keys; exact E). rewrite <- G.
    apply dget_None_keys. intro Hk. apply (w_prockeys _ _ W) in Hk.
    exact (w_xfresh _ _ W n k (v_done _ _ _ _ _ _ _ I n Hn) (xitem_name _ _ _ _ _ Hx) Hk).
Qed.

Lemma papply_pz : forall fp k n z, dget k fp = dget n (i_procs inp) -> papply proc fp k (PS z) = PS (pz n z).
Proof. intros fp k n z H. unfold papply, Params.pz. rewrite H. destruct (dget n (i_procs inp)); reflexivity. Qed.

(* the values after their processors were applied (what both branches of _init_compiled compute) *)
Definition processed (st : pcstate) : dict pval :=
  map (fun kv => (fst kv, papply proc (fprocs st) (fst kv) (snd kv))) (s_params st).

Lemma keys_processed : forall st, keys (processed st) = keys (s_params st).
Proof. intro st. unfold processed, keys. rewrite map_map. reflexivity. Qed.
Lemma dget_processed : forall st k, dget k (processed st) = option_map (papply proc (fprocs st) k) (dget k (s_params st)).
Proof.
  intros st k. unfold processed. induction (s_params st) as [|[k' v'] d IH]; [reflexivity|].
  cbn [map fst snd dget]. destruct (str_eqb_spec k k') as [->|Hn]; [reflexivity|exact IH].
Qed.

(* ---- the dictionary handed to a named / pyformat driver ---- *)
Definition fdict (d : dict pval) : dict pval :=
  match ebn with [] => d | _ => drekey (dget_or_key ebn) d end.

Lemma rename_inj : forall done st, Inv done st ->
  forall a b, In a (keys (s_params st)) -> In b (keys (s_params st)) ->
  dget_or_key ebn a = dget_or_key ebn b -> a = b.
Proof.
  intros done st I a b Ha Hb.
  destruct (v_keys _ _ _ _ _ _ _ I a Ha) as [Ha'|[na [Hna Hxa]]];
  destruct (v_keys _ _ _ _ _ _ _ I b Hb) as [Hb'|[nb [Hnb Hxb]]].
  - rewrite !ebn_get_or_key_in by assumption. apply (w_inj _ _ W); assumption.
  - rewrite (ebn_get_or_key_in tab _ _ Ha'), (ebn_get_or_key_out tab _ b) by (exact (w_xfresh _ _ W nb b Hnb Hxb)).
    intro He. exfalso. exact (w_xesc _ _ W nb a b Hnb Ha' Hxb (eq_sym He)).
  - rewrite (ebn_get_or_key_in tab _ _ Hb'), (ebn_get_or_key_out tab _ a) by (exact (w_xfresh _ _ W na a Hna Hxa)).
    intro He. exfalso. exact (w_xesc _ _ W na b a Hna Hb' Hxa He).
  - rewrite (ebn_get_or_key_out tab _ a) by (exact (w_xfresh _ _ W na a Hna Hxa)).
    rewrite (ebn_get_or_key_out tab _ b) by (exact (w_xfresh _ _ W nb b Hnb Hxb)). tauto.
Qed.

Lemma fdict_get : forall done st k, Inv done st -> In k (keys (s_params st)) ->
  dget (dget_or_key ebn k) (fdict (processed st)) = dget k (processed st).
Proof.
  intros done st k I Hk. unfold fdict. destruct ebn as [|e0 er] eqn:E.
  - reflexivity.
  - rewrite <- E. rewrite drekey_inj.
    + apply dget_rekey_map. rewrite keys_processed. intros a Ha He. apply (rename_inj done st I); assumption.
    + rewrite keys_processed. apply (rename_inj done st I).
    + rewrite keys_processed. exact (v_nodup _ _ _ _ _ _ _ I).
Qed.

(* a plain bind: its (escaped) name finds the value given for it, processed once *)
Lemma fdict_plain : forall done st n v, Inv done st -> In n order -> kind_of inp n = Plain ->
  dget n (i_params inp) = Some (PS v) ->
  dget (esc tab n) (fdict (processed st)) = Some (PS (pz n v)).
Proof.
  intros done st n v I Hn K Hv. rewrite <- (ebn_get_or_key_in tab _ _ Hn).
  assert (Hg : dget n (s_params st) = Some (PS v)).
  { rewrite (v_keep _ _ _ _ _ _ _ I n Hn (or_intror K)). exact Hv. }
  rewrite (fdict_get done st n I) by (apply dget_In_keys; congruence).
  rewrite dget_processed, Hg. cbn [option_map]. f_equal. apply papply_pz. exact (fprocs_plain done st n I Hn).
Qed.

(* an expanded name finds its element, processed once by the processor of the expanding bind *)
Lemma fdict_x : forall done st n k v, Inv done st -> In n done -> In (k, v) (xitems tab inp n) ->
  dget k (fdict (processed st)) = Some (PS (pz n v)).
Proof.
  intros done st n k v I Hn Hx.
  assert (Hg : dget k (s_params st) = Some (PS v)) by exact (v_x _ _ _ _ _ _ _ I n k v Hn Hx).
  assert (Ho : In n order) by exact (v_done _ _ _ _ _ _ _ I n Hn).
  rewrite <- (ebn_get_or_key_out tab order k) at 1.
  - rewrite (fdict_get done st k I) by (apply dget_In_keys; congruence).
    rewrite dget_processed, Hg. cbn [option_map]. f_equal. apply papply_pz. exact (fprocs_x done st n k v I Hn Hx).
  - exact (w_xfresh _ _ W n k Ho (xitem_name _ _ _ _ _ Hx)).
Qed.

(* ---- the reference meaning of a source token ---- *)
Lemma spec_bind : forall n v, dget n (i_params inp) = Some (PS v) ->
  spec_tok lit empty_expr proc inp (Bind n) = Some [Val (pz n v)].
Proof. intros n v H. cbn [spec_tok]. rewrite H. reflexivity. Qed.

Lemma kind_pv : forall n v, dget n (i_params inp) = Some v -> pv inp n = v.
Proof. intros n v H. unfold pv. rewrite H. reflexivity. Qed.
End Final.
