(* C04 - named / pyformat: the dictionary handed to the driver gives every placeholder its bind's value *)
From Coq Require Import List NArith ZArith Bool Lia.
Import ListNotations.
From SAV.sql Require Import Params ParamsDict ParamsEscape ParamsGuard ParamsPost ParamsInline ParamsFinal.

Lemma numeric_positional : forall ps, positional ps = false -> numeric ps = false.
Proof. destruct ps; cbn; congruence. Qed.

Lemma expand_from_snd : forall e l i, map snd (expand_from e i l) = l.
Proof. induction l as [|v l IH]; intro i; cbn [expand_from map snd]; [reflexivity|]. f_equal. apply IH. Qed.
Lemma expand_from_length : forall e l i, length (expand_from e i l) = length l.
Proof. induction l as [|v l IH]; intro i; cbn [expand_from length]; [reflexivity|]. f_equal. apply IH. Qed.

Lemma has_postcompile_false0 : forall inp n, has_postcompile inp = false -> In n (i_order inp) -> kind_of inp n = Plain.
Proof.
  intros inp n H Hn. unfold has_postcompile in H.
  destruct (kind_of inp n) eqn:K; [reflexivity| |];
    (assert (existsb (fun n => negb (is_plain (kind_of inp n))) (i_order inp) = true);
     [apply existsb_exists; exists n; split; [exact Hn|rewrite K; reflexivity]|congruence]).
Qed.

(* when the post-compile step is skipped every bind is plain *)
Lemma has_postcompile_false : forall tab inp n, wf tab inp -> i_pc inp = false -> In n (i_order inp) -> kind_of inp n = Plain.
Proof.
  intros tab inp n W H Hn. apply has_postcompile_false0; [|exact Hn].
  destruct (has_postcompile inp) eqn:E; [|reflexivity]. rewrite (w_haspc _ _ W E) in H. discriminate.
Qed.

Section Named.
Variable tab : list (N * N).
Variable lit : Z -> str.
Variable empty_expr : str.
Variable proc : N -> Z -> Z.
Variable ps : style.
Variable inp : input.
Hypothesis W : wf tab inp.
Hypothesis Hps : positional ps = false.

Notation order := (i_order inp).
Notation ebn := (ebn_of tab (i_order inp)).
Notation Inv := (Inv tab lit empty_expr ps inp).
Notation bnamed := (fun n : name => OPh (esc tab n)).

Lemma bind_tok_named : forall k, bind_tok ps k = OPh k.
Proof. intro k. revert Hps. destruct ps; cbn; congruence. Qed.

Lemma inline_join_named : forall D (g : Z -> Z) (items : list (name * Z)),
  (forall k v, In (k, v) items -> dget k D = Some (PS (g v))) -> items <> [] ->
  inline_dict ps (join_toks (map (fun kv => OPh (fst kv)) items)) D = Some (join_vals (map g (map snd items))).
Proof.
  intros D g items. induction items as [|[k v] items IH]; intros H Hne; [congruence|].
  destruct items as [|[k2 v2] items].
  - cbn [map join_toks fst snd inline_dict join_vals]. rewrite (H k v (or_introl eq_refl)). reflexivity.
  - cbn [map fst snd]. rewrite join_toks_cons2, join_vals_cons2. cbn [inline_dict].
    rewrite (H k v (or_introl eq_refl)).
    change (OPh k2 :: map (fun kv : name * Z => OPh (fst kv)) items)
      with (map (fun kv : name * Z => OPh (fst kv)) ((k2, v2) :: items)).
    rewrite IH; [|intros k' v' Hi; apply H; right; exact Hi|discriminate].
    cbn [option_map map snd]. rewrite unpct_comma. reflexivity.
Qed.

(* one source token *)
Lemma named_token : forall done st t, Inv done st ->
  (forall n, t = Bind n -> In n order /\ kind_of inp n = Plain) ->
  (forall n, t = PC n -> In n order /\ kind_of inp n <> Plain /\ In n done) ->
  exists r, spec_tok lit empty_expr proc inp t = Some r /\
            inline_dict ps (final_tok tab lit empty_expr ps inp bnamed t) (fdict tab inp (processed proc inp st)) = Some r.
Proof.
  intros done st t I Hb Hp. destruct t as [s|n|n].
  - exists (map Ch s). split; [reflexivity|]. cbn [final_tok inline_dict option_map]. rewrite unpct_pct, app_nil_r. reflexivity.
  - destruct (Hb n eq_refl) as [Hn K]. destruct (w_plain _ _ W n Hn K) as [v Hv].
    exists [Val (pz proc inp n v)]. split; [apply spec_bind; exact Hv|].
    cbn [final_tok inline_dict]. rewrite (fdict_plain tab lit empty_expr proc ps inp W done st n v I Hn K Hv). reflexivity.
  - destruct (Hp n eq_refl) as [Hn [K Hd]]. cbn [final_tok spec_tok]. unfold repl_of.
    destruct (kind_of inp n) eqn:K'; [congruence| |].
    + destruct (w_expand _ _ W n Hn K') as [l Hl]. rewrite Hl. unfold plist. rewrite Hl.
      destruct l as [|z l].
      * exists (map Ch empty_expr). split; [reflexivity|]. cbn [repl_expand inline_dict option_map].
        rewrite unpct_pct, app_nil_r. reflexivity.
      * exists (join_vals (map (pz proc inp n) (z :: l))). split; [reflexivity|]. unfold repl_expand.
        rewrite (map_ext _ (fun kv => OPh (fst kv))) by (intro kv; apply bind_tok_named).
        assert (Hx : expanded_names (esc tab n) (z :: l) = xitems tab inp n).
        { unfold xitems, plist. rewrite K', Hl. reflexivity. }
        rewrite (inline_join_named _ (pz proc inp n)).
        -- unfold expanded_names. rewrite expand_from_snd. reflexivity.
        -- intros k v Hi. rewrite Hx in Hi. exact (fdict_x tab lit empty_expr proc ps inp W done st n k v I Hd Hi).
        -- discriminate.
    + destruct (w_litv _ _ W n Hn K') as [v Hv]. rewrite Hv, (kind_pv inp n v Hv).
      exists (map Ch (lit_of lit empty_expr v)). split; [reflexivity|].
      cbn [inline_dict option_map]. rewrite unpct_pct, app_nil_r. reflexivity.
Qed.

Lemma named_tokens : forall done st toks, Inv done st ->
  (forall n, In (Bind n) toks -> In n order /\ kind_of inp n = Plain) ->
  (forall n, In (PC n) toks -> In n order /\ kind_of inp n <> Plain /\ In n done) ->
  exists sp, concat_opt (map (spec_tok lit empty_expr proc inp) toks) = Some sp /\
             inline_dict ps (flat_map (final_tok tab lit empty_expr ps inp bnamed) toks) (fdict tab inp (processed proc inp st)) = Some sp.
Proof.
  intros done st toks I. induction toks as [|t toks IH]; intros Hb Hp.
  - exists []. split; reflexivity.
  - destruct (named_token done st t I) as [r [R1 R2]].
    + intros n ->. apply Hb. left. reflexivity.
    + intros n ->. apply Hp. left. reflexivity.
    + destruct IH as [sp [S1 S2]].
      * intros n Hn. apply Hb. right. exact Hn.
      * intros n Hn. apply Hp. right. exact Hn.
      * exists (r ++ sp). cbn [map concat_opt flat_map]. rewrite R1, S1. split; [reflexivity|].
        rewrite inline_dict_app, R2, S2. reflexivity.
Qed.

Theorem named_ok :
  exists ts fp sp, run tab lit empty_expr proc ps inp = Ok (ts, fp) /\
                   inline_spec lit empty_expr proc inp = Some sp /\ inline ps ts fp = Some sp.
Proof.
  pose proof (numeric_positional ps Hps) as Hnum.
  unfold run, compile. rewrite Hnum, Hps. cbn [bind c_toks c_positiontup].
  change (carrier tab ps (i_toks inp)) with (map (ctok tab ps bnamed) (i_toks inp)).
  destruct (i_pc inp) eqn:HP.
  - unfold postcompile. rewrite Hps. cbn [c_toks].
    destruct (pc_loop tab lit empty_expr ps inp W order (incl_refl _)) as [st [E I]].
    unfold init_state in E. rewrite E. cbn [bind].
    pose proof (subst_ok tab lit empty_expr ps inp bnamed st (i_toks inp)) as HS. unfold subst_fun in HS.
    rewrite HS; clear HS.
    + cbn [bind]. rewrite Hnum. cbn [bind].
      destruct (named_tokens order st (i_toks inp) I) as [sp [S1 S2]].
      * exact (w_bind _ _ W).
      * intros n Hn. destruct (w_pc _ _ W n Hn) as [A B]. split; [exact A|split; [exact B|exact A]].
      * eexists _, _, sp. split; [reflexivity|]. split; [exact S1|].
        unfold inline. rewrite Hps. exact S2.
    + intro n. exact Logic.I.
    + intros n Hn. destruct (w_pc _ _ W n Hn) as [A B]. exact (v_repl_in _ _ _ _ _ _ _ I n A B).
  - assert (Hno : forall n, ~ In (PC n) (i_toks inp)).
    { intros n Hn. destruct (w_pc _ _ W n Hn) as [A B]. apply B. exact (has_postcompile_false tab inp n W HP A). }
    rewrite <- (no_pc_final tab lit empty_expr ps inp bnamed (i_toks inp) Hno).
    destruct (named_tokens [] (init_state inp) (i_toks inp) (Inv_init tab lit empty_expr ps inp W)) as [sp [S1 S2]].
    + exact (w_bind _ _ W).
    + intros n Hn. exfalso. exact (Hno n Hn).
    + eexists _, _, sp. split; [reflexivity|]. split; [exact S1|].
      unfold inline. rewrite Hps. exact S2.
Qed.
End Named.
