(* Proofs about the ORM bulk INSERT grouping / splicing of IMV.v (section 7). *)
From Coq Require Import List ZArith Bool Lia Permutation.
Import ListNotations.
From SAV.sql Require Import IMV.

Section OrmProofs.
Context {A K R : Type}.
Variable key_eqb : K -> K -> bool.
Variable key : A -> K.
Local Notation group_by := (group_by key_eqb key).

Lemma group_by_concat l : concat (group_by l) = l.
Proof.
  induction l as [|x r IH]; [reflexivity|]. cbn [IMV.group_by].
  destruct (group_by r) as [|[|y g] gs] eqn:E.
  - cbn in IH. subst r. reflexivity.
  - cbn [concat app] in IH. cbn [concat app]. rewrite <- IH. reflexivity.
  - cbn [concat app] in IH. destruct (key_eqb (key x) (key y)); cbn [concat app]; rewrite <- IH; reflexivity.
Qed.

Lemma group_by_nonempty l : Forall (fun g => g <> []) (group_by l).
Proof.
  induction l as [|x r IH]; [constructor|]. cbn [IMV.group_by].
  destruct (group_by r) as [|[|y g] gs] eqn:E.
  - constructor; [discriminate|constructor].
  - inversion IH; subst. congruence.
  - inversion IH; subst. destruct (key_eqb (key x) (key y)).
    + constructor; [discriminate|assumption].
    + constructor; [discriminate|]. constructor; assumption.
Qed.

(* every group is a run of records with one and the same key *)
Lemma group_by_same_key l : (forall a b c, key_eqb a b = true -> key_eqb b c = true -> key_eqb a c = true) ->
  (forall a, key_eqb a a = true) ->
  Forall (fun g => match g with [] => True | x :: _ => Forall (fun y => key_eqb (key x) (key y) = true) g end) (group_by l).
Proof.
  intros Htr Hrefl. induction l as [|x r IH]; [constructor|]. cbn [IMV.group_by].
  destruct (group_by r) as [|[|y g] gs] eqn:E.
  - repeat constructor. apply Hrefl.
  - inversion IH; subst. constructor; [repeat constructor; apply Hrefl|assumption].
  - inversion IH; subst. destruct (key_eqb (key x) (key y)) eqn:Ek.
    + constructor; [|assumption]. constructor; [apply Hrefl|].
      eapply Forall_impl; [|exact H1]. cbn beta. intros z Hz. eapply Htr; eassumption.
    + constructor; [repeat constructor; apply Hrefl|]. constructor; assumption.
Qed.

Lemma splice_from (rs : list (list R)) a : fold_left splice_step rs (Some a) = Some (a ++ concat rs).
Proof.
  revert a. induction rs as [|r t IH]; intros a; cbn; [rewrite app_nil_r; reflexivity|].
  rewrite IH, app_assoc. reflexivity.
Qed.
Lemma splice_results_spec (rs : list (list R)) :
  splice_results rs = match rs with [] => None | _ :: _ => Some (concat rs) end.
Proof. destruct rs as [|r t]; [reflexivity|]. unfold splice_results. cbn [fold_left splice_step]. apply splice_from. Qed.

(* if every per-group executemany returns its rows in parameter order (c12_sorted_returning_guarded),
   the spliced result of the whole bulk insert is in parameter order, for every way the key sets
   alternate *)
Theorem orm_bulk_in_parameter_order (exec_group : list A -> list R) (row_of : A -> R) records :
  (forall g, In g (group_by records) -> exec_group g = map row_of g) ->
  orm_bulk_insert key_eqb key exec_group records
  = match records with [] => None | _ :: _ => Some (map row_of records) end.
Proof.
  intros H. unfold orm_bulk_insert. rewrite splice_results_spec.
  assert (E : concat (map exec_group (group_by records)) = map row_of records).
  { rewrite <- (group_by_concat records) at 2. rewrite concat_map. f_equal.
    apply map_ext_in. exact H. }
  destruct records as [|x r]; [reflexivity|].
  destruct (map exec_group (group_by (x :: r))) eqn:E2.
  - exfalso. pose proof (group_by_concat (x :: r)) as Hc.
    destruct (group_by (x :: r)); [discriminate|discriminate].
  - rewrite E. reflexivity.
Qed.

(* without ordering inside the groups: still exactly one row per record *)
Theorem orm_bulk_one_row_per_record (exec_group : list A -> list R) (row_of : A -> R) records rows :
  (forall g, In g (group_by records) -> Permutation (map row_of g) (exec_group g)) ->
  orm_bulk_insert key_eqb key exec_group records = Some rows ->
  Permutation (map row_of records) rows.
Proof.
  intros H. unfold orm_bulk_insert. rewrite splice_results_spec.
  assert (P : Permutation (map row_of records) (concat (map exec_group (group_by records)))).
  { rewrite <- (group_by_concat records) at 1. rewrite concat_map.
    induction (group_by records) as [|g gs IH]; [constructor|]. cbn [map concat].
    apply Permutation_app; [apply H; left; reflexivity|]. apply IH. intros g' Hg'. apply H. right. exact Hg'. }
  destruct (map exec_group (group_by records)) eqn:E2; [discriminate|]. intros Hs. inversion Hs; subst rows. exact P.
Qed.
End OrmProofs.
