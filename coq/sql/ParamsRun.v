(* executable entry point for the correspondence check of C04 *)
From Coq Require Import List NArith ZArith Bool.
Import ListNotations.
From SAV.base Require Import Tree.
From SAV.sql Require Import Params.

(* ---- strings travel packed: 5 bytes per integer, little endian, with a leading 1 as end marker ---- *)
Fixpoint unchunk (fuel : nat) (z : Z) : list N :=
  match fuel with
  | O => []
  | S f => if (z <=? 1)%Z then [] else Z.to_N (z mod 256) :: unchunk f (z / 256)%Z
  end.
Definition as_str (t : tree) : option str :=
  match as_list_of as_Z t with
  | Some l => Some (flat_map (unchunk 6) l)
  | None => None
  end.
Fixpoint chunk_val (l : list N) : Z :=
  match l with [] => 1%Z | c :: r => (Z.of_N c + 256 * chunk_val r)%Z end.
Fixpoint chunks (fuel : nat) (s : str) : list tree :=
  match fuel with
  | O => []
  | S f => match s with
           | [] => []
           | _ => I (chunk_val (firstn 5 s)) :: chunks f (skipn 5 s)
           end
  end.
Definition of_str (s : str) : tree := L (chunks (S (length s)) s).

(* the statement text is compared by length and a 60-bit multiplicative hash (the cases files would
   otherwise be dominated by six copies of every statement) *)
Definition HASH_MASK : Z := 1152921504606846975%Z.      (* 2^60 - 1 *)
Definition hash_str (s : str) : Z :=
  fold_left (fun h c => Z.land (h * 1000003 + Z.of_N c + 1) HASH_MASK) s 0%Z.
Definition of_text (s : str) : tree := L [I (hash_str s); I (Z.of_nat (length s))].

(* ---- decoding of a case ---- *)
Definition as_tok (t : tree) : option tok :=
  match t with
  | L [I 0%Z; s] => option_map Txt (as_str s)
  | L [I 1%Z; s] => option_map Bind (as_str s)
  | L [I 2%Z; s] => option_map PC (as_str s)
  | _ => None
  end.
Definition as_kind (t : tree) : option bkind :=
  match t with I 0%Z => Some Plain | I 1%Z => Some Expand | I 2%Z => Some LitExec | _ => None end.
(* a scalar value is an integer, a list value a list of integers *)
Definition as_pval (t : tree) : option pval :=
  match t with
  | I v => Some (PS v)
  | L _ => option_map PL (as_list_of as_Z t)
  end.
Definition as_values (t : tree) : option (option (list name)) :=
  match t with
  | L [] => Some None
  | L [l] => option_map Some (as_list_of as_str l)
  | _ => None
  end.
Definition as_input (t : tree) : option input :=
  match t with
  | L [t1; t2; t3; t4; t5; t6; t7] =>
    match as_list_of as_tok t1, as_list_of as_str t2, as_list_of (as_pair_of as_str as_kind) t3,
          as_values t4, as_list_of (as_pair_of as_str as_pval) t5, as_bool t6,
          as_list_of (as_pair_of as_str as_N) t7 with
    | Some toks, Some order, Some kinds, Some vals, Some params, Some pc, Some procs =>
        Some {| i_toks := toks; i_order := order; i_kind := kinds; i_values := vals; i_params := params;
                i_pc := pc; i_procs := procs |}
    | _, _, _, _, _, _, _ => None
    end
  | _ => None
  end.

(* ---- rendering of the final token list as the SQL string handed to the driver ---- *)
Definition s_of (l : list N) : str := l.
Definition ph_text (ps : style) (n : name) : str :=
  match ps with
  | Named => 58%N :: n                                   (* :n *)
  | _ => [37%N; 40%N] ++ n ++ [41%N; 115%N]              (* %(n)s *)
  end.
Definition pos_text (ps : style) : str := match ps with Format => [37%N; 115%N] | _ => [63%N] end.
Definition num_text (ps : style) (k : N) : str :=
  (match ps with NumericDollar => 36%N | _ => 58%N end) :: dec k.
Definition POSTCOMPILE : str :=
  [95;95;91;80;79;83;84;67;79;77;80;73;76;69;95]%N.      (* __[POSTCOMPILE_ *)
Definition otok_text (ps : style) (t : otok) : str :=
  match t with
  | OTxt s => s
  | OPh n => ph_text ps n
  | OPos => pos_text ps
  | ONum k => num_text ps k
  | OPC n => POSTCOMPILE ++ n ++ [93%N]
  end.
Definition text_of (ps : style) (ts : list otok) : str := flat_map (otok_text ps) ts.

(* ---- decimal literal of an integer value ---- *)
Definition lit_dec (z : Z) : str :=
  match z with
  | Z0 => [48%N]
  | Zpos p => dec (Npos p)
  | Zneg p => 45%N :: dec (Npos p)
  end.

(* ---- canonical order of a parameter dictionary: sorted by name ---- *)
Fixpoint str_ltb (a b : str) : bool :=
  match a, b with
  | _, [] => false
  | [], _ :: _ => true
  | x :: a', y :: b' => if N.ltb x y then true else if N.eqb x y then str_ltb a' b' else false
  end.
Fixpoint ins_sorted {V} (kv : name * V) (l : list (name * V)) : list (name * V) :=
  match l with
  | [] => [kv]
  | kv' :: r => if str_ltb (fst kv') (fst kv) then kv' :: ins_sorted kv r else kv :: l
  end.
Definition sort_dict {V} (d : dict V) : dict V := fold_right ins_sorted [] d.

Definition of_pval (v : pval) : tree :=
  match v with PS z => I z | PL l => of_list I l end.
(* a parameter dictionary is compared by its size and the hash of its sorted (name, value) items *)
Definition hash_zs (l : list Z) : Z :=
  fold_left (fun h z => Z.land (h * 1000003 + z + 1) HASH_MASK) l 0%Z.
Definition pval_zs (v : pval) : list Z :=
  match v with PS z => [z] | PL l => (-2)%Z :: l ++ [(-3)%Z] end.
Definition dict_zs (d : dict pval) : list Z :=
  flat_map (fun kv => map Z.of_N (fst kv) ++ (-1)%Z :: pval_zs (snd kv) ++ [(-4)%Z]) (sort_dict d).
Definition of_fparams (fp : fparams) : tree :=
  match fp with
  | FPos l => L [I 0%Z; of_list of_pval l]
  | FDict d => L [I 1%Z; I (hash_zs (dict_zs d)); I (Z.of_nat (length d))]
  end.
Definition of_exn (e : exn) : tree :=
  L [I (match e with AssertionError => 1 | KeyError => 2 | TypeError => 3 end)%Z].

(* the bind processors of the harness' TypeDecorators: processor p sends v to 10 v + p *)
Definition run_proc (p : N) (z : Z) : Z := (z * 10 + Z.of_N p)%Z.

Definition styles : list style := [Qmark; Format; Numeric; NumericDollar; Named; Pyformat].

(* input   L [toks; order; kinds; values; params; has-post-compile-binds; bind processors]
   output  L [ per style:  L [I 0; L [hash text; length text]; params]  |  L [I code] ]
   params  L [I 0; L values]  (positional)  |  L [I 1; hash of the sorted items; size]  (dictionary) *)
Definition run_with (tab : list (N * N)) (empty_expr : str) (t : tree) : tree :=
  match as_input t with
  | Some inp =>
      L (map (fun ps => match run tab lit_dec empty_expr run_proc ps inp with
                        | Ok (ts, fp) => L [I 0%Z; of_text (text_of ps ts); of_fparams fp]
                        | Raise e => of_exn e
                        end) styles)
  | None => bad_input
  end.

(* ---- T1: BIND_TEMPLATES ---- *)
(* Python's  template % {"name": n}  restricted to what the templates use: "%%" -> "%", "%(name)s" -> n *)
Fixpoint pyfmt (t : str) (n : str) : str :=
  match t with
  | 37%N :: 37%N :: r => 37%N :: pyfmt r n
  | 37%N :: 40%N :: 110%N :: 97%N :: 109%N :: 101%N :: 41%N :: 115%N :: r => n ++ pyfmt r n
  | c :: r => c :: pyfmt r n
  | [] => []
  end.
(* the placeholder texts the model renders, in the order qmark, format, numeric, numeric_dollar, named,
   pyformat (the two numeric templates are only pinned: _process_numeric builds ":<n>" / "$<n>" itself) *)
Definition POSITION : str := [91;95;80;79;83;73;84;73;79;78;93]%N.   (* [_POSITION] *)
Definition model_templates (n : name) : list str :=
  [pos_text Qmark; pos_text Format; 58%N :: POSITION; 36%N :: POSITION; ph_text Named n; ph_text Pyformat n].
