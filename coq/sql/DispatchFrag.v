(* C22 (b) - two small fragments in which a compile ends in an INTERNAL exception (definitions only).

   1. Index names.  DDLCompiler.visit_create_index / visit_drop_index of the base compiler test
      [index.name is None] and raise CompileError; several dialect overrides do not, and reach
          IdentifierPreparer.format_constraint:   if constraint.name is _NONE_NAME: name = convention name or (return None)
                                                  else: name = constraint.name
                                                  assert name is not None          <- AssertionError
          IdentifierPreparer.format_index:        name = self.format_constraint(index); assert name is not None
      through DDLCompiler._prepared_index_name.  Which override has the test is read from the source by the
      translator on every run ([name_check]).
   2. Pickling an element whose [comparator] is memoized.  ColumnElement.comparator is a memoized attribute
      holding TypeEngine.Comparator(expr) with slots (expr, type = expr.type at creation);
      Comparator.__reduce__ = (cls, (expr,)).  The comparator sits in expr.__dict__, so it is rebuilt while
      its owner is still an empty shell: [expr.type] falls to ColumnElement.type's memoized default NullType.
      The comparator CLASS is still the one of the original type.  HasExpressionLookup.Comparator
      (Integer, Numeric, Date, DateTime, Time, Interval) then evaluates self.type._expression_adaptations on a
      NullType: AttributeError, raised e.g. by the MSSQL/Oracle LIMIT emulation (limit_clause + offset_clause)
      inside compile(). *)
From Coq Require Import List NArith Bool.
Import ListNotations.

(* ------------------------------------------------------------------ 1. index names *)
Notation str := (list N) (only parsing).

Inductive iname :=
| NameNone                          (* index.name is None: Index(None, col) and no "ix" naming convention *)
| NameDeferred (conv : option str)  (* index.name is _NONE_NAME; conv = what _constraint_name_for_table returns *)
| NameStr (s : str).                (* an explicit or already resolved name *)

Inductive ddlres := DOk (s : str) | DCompileError | DAssertionError.

(* IdentifierPreparer.format_constraint; rendering/truncation of a present name is C21's business: identity here *)
Definition format_constraint (n : iname) : option (option str) :=   (* None = the assert fails *)
  match n with
  | NameDeferred None => Some None           (* "if name is None: return None" *)
  | NameDeferred (Some s) => Some (Some s)
  | NameStr s => Some (Some s)
  | NameNone => None                         (* name = constraint.name = None; assert name is not None *)
  end.

(* IdentifierPreparer.format_index *)
Definition format_index (n : iname) : ddlres :=
  match format_constraint n with
  | Some (Some s) => DOk s
  | Some None => DAssertionError             (* format_index's own assert *)
  | None => DAssertionError
  end.

(* index.name as the attribute is read by "index.name is None": _NONE_NAME is not None *)
Definition name_is_none (n : iname) : bool := match n with NameNone => true | _ => false end.

(* visit_create_index / visit_drop_index: [checked] = this override tests "index.name is None" first *)
Definition visit_index_ddl (checked : bool) (n : iname) : ddlres :=
  if checked && name_is_none n then DCompileError else format_index n.

(* ------------------------------------------------------------------ 2. pickled comparator *)
Inductive ty := TInteger | TNumeric | TDate | TString | TNull.

(* types whose comparator_factory is HasExpressionLookup.Comparator *)
Definition has_lookup (t : ty) : bool :=
  match t with TInteger | TNumeric | TDate => true | _ => false end.
(* types that define _expression_adaptations *)
Definition has_adaptations (t : ty) : bool := has_lookup t.

Record comparator := { c_cls : ty; c_type : ty }.   (* class = comparator_factory of the creating type; slot "type" *)
Record elem := { e_type : ty; e_memo : option comparator }.

Definition new_comparator (e : elem) : comparator := {| c_cls := e_type e; c_type := e_type e |}.

(* ColumnElement.comparator (memoized) *)
Definition get_comparator (e : elem) : elem * comparator :=
  match e_memo e with
  | Some c => (e, c)
  | None => let c := new_comparator e in ({| e_type := e_type e; e_memo := Some c |}, c)
  end.

Inductive opres := OpOk | OpAttributeError.

(* comparator._adapt_expression as used by "expr + other" *)
Definition adapt_expression (c : comparator) : opres :=
  if has_lookup (c_cls c) then (if has_adaptations (c_type c) then OpOk else OpAttributeError) else OpOk.

(* expr.operate(add, other): returns the element with its memo filled *)
Definition operate (e : elem) : elem * opres :=
  let (e', c) := get_comparator e in (e', adapt_expression c).

(* pickle.loads(pickle.dumps(e)): the memoized comparator is rebuilt as cls(expr) against the empty shell *)
Definition pickle_roundtrip (e : elem) : elem :=
  {| e_type := e_type e;
     e_memo := match e_memo e with
               | Some c => Some {| c_cls := c_cls c; c_type := TNull |}
               | None => None
               end |}.

Inductive step := Operate | Pickle.

(* run a history; the result is the outcome of every Operate *)
Fixpoint run (e : elem) (h : list step) : list opres :=
  match h with
  | [] => []
  | Operate :: r => let (e', o) := operate e in o :: run e' r
  | Pickle :: r => run (pickle_roundtrip e) r
  end.

Definition fresh (t : ty) : elem := {| e_type := t; e_memo := None |}.

(* the comparator, when present, was built from the element's own type *)
Definition consistent (e : elem) : bool :=
  match e_memo e with
  | Some c => match c_cls c, c_type c, e_type e with
              | TInteger, TInteger, TInteger | TNumeric, TNumeric, TNumeric | TDate, TDate, TDate
              | TString, TString, TString | TNull, TNull, TNull => true
              | _, _, _ => false
              end
  | None => true
  end.

Fixpoint operate_before_pickle (seen_operate : bool) (h : list step) : bool :=
  match h with
  | [] => false
  | Operate :: r => operate_before_pickle true r
  | Pickle :: r => seen_operate || operate_before_pickle seen_operate r
  end.
