(* C02 - proofs, part 4: the statements used by props/C02.v *)
From Coq Require Import List NArith ZArith Bool Lia.
Import ListNotations.
From SAV.sql Require Import CacheKey CacheKeyProofs CacheKeyBinds CacheExec CacheExecProofs.

(* ---- known gaps: attributes the compiler reads that are not in the key ---- *)
Definition keep (G : list (N * N)) (c a : N) : bool :=
  negb (existsb (fun g => N.eqb (fst g) c && N.eqb (snd g) a) G).
Lemma vget_vminus : forall V G c, vget (vminus V G) c = filter (keep G c) (vget V c).
Proof.
  intros V G c. unfold vget, vminus.
  induction V as [|[c' l] r IH]; cbn; [reflexivity|].
  destruct (N.eqb_spec c' c) as [->|Hn]; [reflexivity | exact IH].
Qed.
Lemma flat_map_filter_nil : forall {A B} (f : A -> list B) (p : A -> bool) l,
  (forall a, In a l -> p a = false -> f a = []) -> flat_map f (filter p l) = flat_map f l.
Proof.
  induction l as [|x r IH]; intro H; [reflexivity|]. cbn.
  destruct (p x) eqn:E; cbn.
  - f_equal. apply IH. intros a Ha. apply H. right; exact Ha.
  - rewrite (H x (or_introl eq_refl) E). cbn. apply IH. intros a Ha. apply H. right; exact Ha.
Qed.

Lemma view_gapfree : forall T V G n, gapfree G n = true -> view T V n = view T (vminus V G) n.
Proof.
  intros T V G. induction n as [lbl cls atoms kids IH] using node_ind'. intro Hg.
  cbn [gapfree] in Hg. apply andb_true_iff in Hg as [Hg Hk].
  cbn [view]. unfold view_body. destruct (ck (tget T cls)); [|reflexivity|].
  all: rewrite vget_vminus; f_equal.
  all: try (symmetry; apply flat_map_filter_nil; intros a _ Hp; unfold keep in Hp;
            apply negb_false_iff in Hp; apply existsb_exists in Hp as [g [Hi Hb]];
            apply andb_true_iff in Hb as [H1 H2]; apply N.eqb_eq in H1; apply N.eqb_eq in H2;
            rewrite forallb_forall in Hg; specialize (Hg g Hi); rewrite H1, N.eqb_refl in Hg; cbn in Hg;
            apply andb_true_iff in Hg as [Ha _]; subst a; apply negb_true_iff in Ha; rewrite Ha; reflexivity).
  all: assert (forall a, kget a (map (fun p => (fst p, map (view T V) (snd p))) kids)
                       = kget a (map (fun p => (fst p, map (view T (vminus V G)) (snd p))) kids)) as Hsame
      by (intro a; rewrite (kget_map (view T V)), (kget_map (view T (vminus V G)));
          apply map_ext_in; intros x Hx; unfold kget in Hx;
          destruct (alookup a kids) as [l|] eqn:El; [|contradiction];
          apply alookup_In in El; rewrite Forall_forall in IH; specialize (IH _ El); cbn in IH;
          rewrite Forall_forall in IH; apply (IH _ Hx);
          rewrite forallb_forall in Hk; specialize (Hk _ El); cbn in Hk;
          rewrite forallb_forall in Hk; exact (Hk _ Hx)).
  all: rewrite (flat_map_filter_nil _ (keep G cls));
    [apply flat_map_ext_in; intros a _; rewrite Hsame; reflexivity|].
  all: intros a _ Hp; unfold keep in Hp;
       apply negb_false_iff in Hp; apply existsb_exists in Hp as [g [Hi Hb]];
       apply andb_true_iff in Hb as [H1 H2]; apply N.eqb_eq in H1; apply N.eqb_eq in H2;
       rewrite forallb_forall in Hg; specialize (Hg g Hi); rewrite H1, N.eqb_refl in Hg; cbn in Hg;
       apply andb_true_iff in Hg as [_ Hb]; subst a; apply negb_true_iff in Hb;
       rewrite (kget_map (view T (vminus V G))); destruct (kget (snd g) kids); [reflexivity | discriminate].
Qed.

(* ---- key_determines_sql ---- *)
Theorem key_determines_sql : forall T V, covers T V = true ->
  forall (OUT : Type) (compile_direct : ktree -> OUT) s1 s2 k b1 b2,
  wf T s1 = true -> wf T s2 = true -> gen_key T s1 = Some (k, b1) -> gen_key T s2 = Some (k, b2) ->
  compile_direct (view T V s1) = compile_direct (view T V s2) /\ map blbl b1 = map blbl b2.
Proof.
  intros T V Hc OUT cd s1 s2 k b1 b2 W1 W2 K1 K2. split.
  - rewrite (key_determines_view T V Hc s1 s2 k b1 b2 W1 W2 K1 K2). reflexivity.
  - rewrite (gen_key_labels T s1 k b1 K1), (gen_key_labels T s2 k b2 K2). reflexivity.
Qed.

Theorem key_determines_sql_guarded : forall T V G, covers T (vminus V G) = true ->
  forall (OUT : Type) (compile_direct : ktree -> OUT) s1 s2 k b1 b2,
  gapfree G s1 = true -> gapfree G s2 = true ->
  wf T s1 = true -> wf T s2 = true -> gen_key T s1 = Some (k, b1) -> gen_key T s2 = Some (k, b2) ->
  compile_direct (view T V s1) = compile_direct (view T V s2) /\ map blbl b1 = map blbl b2.
Proof.
  intros T V G Hc OUT cd s1 s2 k b1 b2 G1 G2 W1 W2 K1 K2. split.
  - rewrite (view_gapfree T V G s1 G1), (view_gapfree T V G s2 G2),
      (key_determines_view T (vminus V G) Hc s1 s2 k b1 b2 W1 W2 K1 K2). reflexivity.
  - rewrite (gen_key_labels T s1 k b1 K1), (gen_key_labels T s2 k b2 K2). reflexivity.
Qed.

(* ---- histories ---- *)
Definition stmts (h : list step) : list node := map s_stmt h.
(* statements with equal keys agree on WHICH of their bind parameters have a callable *)
Definition callable_uniform (T : ttab) (U : list node) : Prop :=
  forall s1 s2 k b1 b2, In s1 U -> In s2 U ->
    gen_key T s1 = Some (k, b1) -> gen_key T s2 = Some (k, b2) -> map bcall b1 = map bcall b2.

Theorem cached_exec_eq_direct_gaps : forall T V G, covers T (vminus V G) = true ->
  forall (SQL : Type) (render : atom -> ktree -> SQL * list N),
  (forall ctx v, incl (snd (render ctx v)) (kbl T v)) ->
  forall h1 h2 : list step,
  (forall s, In s (stmts (h1 ++ h2)) -> wf T s = true /\ gapfree G s = true) ->
  callable_uniform T (stmts (h1 ++ h2)) ->
  fst (run T V SQL render (snd (run T V SQL render [] h1)) h2)
  = map (fun x => exec_direct T V SQL render (s_ctx x) (s_stmt x) (s_sets x)) h2.
Proof.
  intros T V G Hc SQL render Hh h1 h2 HU Hcall.
  set (U := stmts (h1 ++ h2)).
  assert (forall s, In s U -> wf T s = true) as HUw by (intros s Hs; apply HU, Hs).
  assert (forall s1 s2 k b1 b2, In s1 U -> In s2 U ->
            gen_key T s1 = Some (k, b1) -> gen_key T s2 = Some (k, b2) -> view T V s1 = view T V s2) as HUv.
  { intros s1 s2 k b1 b2 I1 I2 K1 K2.
    rewrite (view_gapfree T V G s1 (proj2 (HU _ I1))), (view_gapfree T V G s2 (proj2 (HU _ I2))).
    exact (key_determines_view T (vminus V G) Hc s1 s2 k b1 b2 (HUw _ I1) (HUw _ I2) K1 K2). }
  assert (forall s, In s U -> incl (kbl T (view T V s)) (kbl T (proj T s))) as HUk.
  { intros s Hs. rewrite (view_gapfree T V G s (proj2 (HU _ Hs))), (view_restrict T (vminus V G) Hc s).
    apply kbl_restrict. }
  assert (forall h, incl h (h1 ++ h2) -> forall x, In x h -> In (s_stmt x) U) as Hin.
  { intros h Hi x Hx. unfold U, stmts. apply in_map. apply Hi, Hx. }
  destruct (run_ok T V SQL render U Hh HUw HUv HUk Hcall h1 [] (Inv_nil T V SQL render U)
              (Hin h1 (incl_appl h2 (incl_refl h1)))) as [_ I1].
  exact (proj1 (run_ok T V SQL render U Hh HUw HUv HUk Hcall h2 _ I1 (Hin h2 (incl_appr h1 (incl_refl h2))))).
Qed.

Lemma vminus_nil : forall V, vminus V [] = V.
Proof.
  unfold vminus. induction V as [|[c l] r IH]; cbn [map fst snd]; [reflexivity|]. rewrite IH. f_equal. f_equal.
  clear. induction l as [|a l' IHl]; [reflexivity|]. cbn [filter existsb negb]. f_equal. exact IHl.
Qed.
Lemma gapfree_nil : forall n, gapfree [] n = true.
Proof.
  induction n as [lbl cls atoms kids IH] using node_ind'. cbn. apply forallb_forall. intros p Hp.
  apply forallb_forall. intros x Hx. rewrite Forall_forall in IH. specialize (IH _ Hp).
  rewrite Forall_forall in IH. exact (IH _ Hx).
Qed.

Theorem cached_exec_eq_direct : forall T V, covers T V = true ->
  forall (SQL : Type) (render : atom -> ktree -> SQL * list N),
  (forall ctx v, incl (snd (render ctx v)) (kbl T v)) ->
  forall h1 h2 : list step,
  (forall s, In s (stmts (h1 ++ h2)) -> wf T s = true) ->
  callable_uniform T (stmts (h1 ++ h2)) ->
  fst (run T V SQL render (snd (run T V SQL render [] h1)) h2)
  = map (fun x => exec_direct T V SQL render (s_ctx x) (s_stmt x) (s_sets x)) h2.
Proof.
  intros T V Hc SQL render Hh h1 h2 HU Hcall.
  apply (cached_exec_eq_direct_gaps T V []); auto.
  - rewrite vminus_nil; exact Hc.
  - intros s Hs. split; [apply HU, Hs | apply gapfree_nil].
Qed.

(* the positional re-binding on its own: a Compiled made for s0, given the extracted parameters of s *)
Theorem rebind_positional_gaps : forall T V G, covers T (vminus V G) = true ->
  forall (SQL : Type) (render : atom -> ktree -> SQL * list N),
  (forall ctx v, incl (snd (render ctx v)) (kbl T v)) ->
  forall ctx s0 s k b0 b (sets : list pset),
  wf T s0 = true -> wf T s = true -> gapfree G s0 = true -> gapfree G s = true ->
  gen_key T s0 = Some (k, b0) -> gen_key T s = Some (k, b) -> map bcall b0 = map bcall b ->
  (tsql SQL (compile T V SQL render ctx s0 b0), rebind_many SQL (compile T V SQL render ctx s0 b0) b sets)
  = exec_direct T V SQL render ctx s sets.
Proof.
  intros T V G Hc SQL render Hh ctx s0 s k b0 b sets W0 W1 G0 G1 K0 K1 Hcall.
  assert (forall z, In z [s0; s] -> wf T z = true) as HUw by (intros z [<-|[<-|[]]]; assumption).
  assert (forall z, In z [s0; s] -> gapfree G z = true) as HUg by (intros z [<-|[<-|[]]]; assumption).
  assert (forall z, In z [s0; s] -> forall kz bz, gen_key T z = Some (kz, bz) -> kz = k -> map bcall bz = map bcall b) as Hcb.
  { intros z [<-|[<-|[]]] kz bz Kz Ek; subst kz.
    - rewrite K0 in Kz; inversion Kz; subst; exact Hcall.
    - rewrite K1 in Kz; inversion Kz; subst; reflexivity. }
  refine (rebind_positional T V SQL render [s0; s] Hh HUw _ _ _ ctx s0 s k b0 b sets _ _ K0 K1).
  - intros s1 s2 k' b1 b2 I1 I2 K1' K2'.
    rewrite (view_gapfree T V G s1 (HUg _ I1)), (view_gapfree T V G s2 (HUg _ I2)).
    exact (key_determines_view T (vminus V G) Hc s1 s2 k' b1 b2 (HUw _ I1) (HUw _ I2) K1' K2').
  - intros z Hz. rewrite (view_gapfree T V G z (HUg _ Hz)), (view_restrict T (vminus V G) Hc z).
    apply kbl_restrict.
  - intros s1 s2 k' b1 b2 I1 I2 K1' K2'.
    assert (k' = k) as Ek.
    { destruct I1 as [<-|[<-|[]]].
      - rewrite K0 in K1'; inversion K1'; reflexivity.
      - rewrite K1 in K1'; inversion K1'; reflexivity. }
    rewrite (Hcb s1 I1 k' b1 K1' Ek), (Hcb s2 I2 k' b2 K2' Ek). reflexivity.
  - left; reflexivity.
  - right; left; reflexivity.
Qed.

(* ---- the callable guard as a decidable check ---- *)
Lemma ktree_eqb_refl : forall k, ktree_eqb k k = true.
Proof.
  induction k as [l c ka kk IH | l c | a] using ktree_ind'; cbn.
  - rewrite !N.eqb_refl. cbn.
    assert ((fix ga (x y : list (N * atom)) : bool :=
               match x, y with
               | [], [] => true
               | (i, p) :: x', (j, q) :: y' => N.eqb i j && atom_eqb p q && ga x' y'
               | _, _ => false end) ka ka = true) as ->.
    { induction ka as [|[i p] x IHx]; [reflexivity|]. rewrite N.eqb_refl, atom_eqb_refl, IHx. reflexivity. }
    cbn. induction IH as [|[i p] x Hp Hx IHx]; [reflexivity|].
    rewrite N.eqb_refl, IHx. cbn. rewrite andb_true_r. cbn in Hp.
    induction Hp as [|s u Hs Hu IHu]; [reflexivity|]. rewrite Hs, IHu. reflexivity.
  - rewrite !N.eqb_refl; reflexivity.
  - apply atom_eqb_refl.
Qed.

Fixpoint bools_eqb (x y : list bool) : bool :=
  match x, y with
  | [], [] => true
  | a :: x', b :: y' => Bool.eqb a b && bools_eqb x' y'
  | _, _ => false
  end.
Lemma bools_eqb_eq : forall x y, bools_eqb x y = true -> x = y.
Proof.
  induction x as [|a x IH]; intros [|b y] H; try discriminate; [reflexivity|].
  cbn in H. apply andb_true_iff in H as [H1 H2]. apply eqb_prop in H1. subst. f_equal. apply IH, H2.
Qed.
Definition cunib (T : ttab) (U : list node) : bool :=
  forallb (fun s1 => forallb (fun s2 =>
    match gen_key T s1, gen_key T s2 with
    | Some (k1, b1), Some (k2, b2) => negb (ktree_eqb k1 k2) || bools_eqb (map bcall b1) (map bcall b2)
    | _, _ => true
    end) U) U.
Lemma cunib_sound : forall T U, cunib T U = true -> callable_uniform T U.
Proof.
  intros T U H s1 s2 k b1 b2 I1 I2 K1 K2. unfold cunib in H.
  rewrite forallb_forall in H. specialize (H s1 I1). rewrite forallb_forall in H. specialize (H s2 I2).
  rewrite K1, K2, ktree_eqb_refl in H. cbn in H. apply bools_eqb_eq, H.
Qed.
