(* C07: re-expanding one Compiled object (engine cache hit, or after render_postcompile populated it)
   gives the same statement and parameters as a fresh compilation, for any sequence of lists. *)
From Coq Require Import List ZArith NArith Bool Lia.
Import ListNotations.
From SAV.sql Require Import Val3 InList.

(* what _process_parameters_for_postcompile reads from the Compiled object *)
Definition same (c0 c : compiled) : Prop :=
  c_dialect c = c_dialect c0 /\ c_bind c = c_bind c0 /\ c_bind_names c = c_bind_names c0 /\
  or_else (c_pre_string c) (c_string c) = or_else (c_pre_string c0) (c_string c0) /\
  (d_positional (c_dialect c0) = true ->
   or_else (c_pre_positiontup c) (c_positiontup c) = or_else (c_pre_positiontup c0) (c_positiontup c0)).

Lemma same_refl c : same c c.
Proof. repeat split; reflexivity. Qed.

Lemma process_eq c0 c others vals pop : same c0 c ->
  match process c0 others vals false, process c others vals pop with
  | Ok (x0, _), Ok (x, c') => x0 = x /\ same c0 c'
  | Raise e0, Raise e => e0 = e
  | _, _ => False
  end.
Proof.
  intros (Hd & Hb & Hn & Ht & Hp). unfold process. rewrite Hd, Hb, Hn, Ht.
  destruct (d_positional (c_dialect c0)) eqn:Ed.
  - rewrite (Hp eq_refl).
    destruct (run_names _ _ _ _ _) as [st|ex]; cbn [bind]; [|reflexivity].
    destruct (subst _ _) as [stmt|ex]; cbn [bind]; [|reflexivity].
    split; [reflexivity|]. destruct pop; [|unfold same; rewrite Ed; repeat split; assumption].
    unfold same. cbn [c_dialect c_bind c_bind_names c_string c_pre_string c_positiontup c_pre_positiontup or_else].
    rewrite Ed. repeat split; try reflexivity.
  - destruct (run_names _ _ _ _ _) as [st|ex]; cbn [bind]; [|reflexivity].
    destruct (subst _ _) as [stmt|ex]; cbn [bind]; [|reflexivity].
    split; [reflexivity|]. destruct pop; [|unfold same; rewrite Ed; repeat split; assumption].
    unfold same. cbn [c_dialect c_bind c_bind_names c_string c_pre_string c_positiontup c_pre_positiontup or_else].
    rewrite Ed. repeat split; try reflexivity. intros; discriminate.
Qed.

Lemma process_same c0 c others vals pop x c0' : same c0 c ->
  process c0 others vals false = Ok (x, c0') ->
  exists c', process c others vals pop = Ok (x, c') /\ same c0 c'.
Proof.
  intros Hs H0. pose proof (process_eq c0 c others vals pop Hs) as H. rewrite H0 in H.
  destruct (process c others vals pop) as [[x' c']|]; [|destruct H].
  destruct H as [<- H]. now exists c'.
Qed.

Lemma process_same_rev c0 c others vals pop x c' : same c0 c ->
  process c others vals pop = Ok (x, c') ->
  (exists c0', process c0 others vals false = Ok (x, c0')) /\ same c0 c'.
Proof.
  intros Hs H1. pose proof (process_eq c0 c others vals pop Hs) as H. rewrite H1 in H.
  destruct (process c0 others vals false) as [[x0 c0']|]; [|destruct H].
  destruct H as [-> H]. split; [now exists c0'|exact H].
Qed.

Theorem cached_reexpand_gen c0 others execs : forall c xs, same c0 c ->
  run_execs c others execs = Ok xs ->
  Forall2 (fun ex x => exists c0', process c0 others (fst ex) false = Ok (x, c0')) execs xs.
Proof.
  induction execs as [|[vals pop] execs IH]; intros c xs Hs H.
  - cbn [run_execs] in H. inversion H. constructor.
  - cbn [run_execs] in H.
    destruct (process c others vals pop) as [[x c']|] eqn:E; [|discriminate]. cbn [bind fst snd] in H.
    destruct (run_execs c' others execs) as [xs'|] eqn:E2; [|discriminate]. cbn [bind] in H.
    inversion H; subst. destruct (process_same_rev c0 c others vals pop x c' Hs E) as [Hx Hs'].
    constructor; [exact Hx|]. now apply (IH c' xs' Hs').
Qed.

Theorem cached_reexpand c0 others execs xs :
  run_execs c0 others execs = Ok xs ->
  Forall2 (fun ex x => exists c0', process c0 others (fst ex) false = Ok (x, c0')) execs xs.
Proof. apply cached_reexpand_gen, same_refl. Qed.

(* and the sequence succeeds whenever each fresh expansion does *)
Theorem cached_total_gen c0 others execs : forall c, same c0 c ->
  (forall ex, In ex execs -> exists x c0', process c0 others (fst ex) false = Ok (x, c0')) ->
  exists xs, run_execs c others execs = Ok xs.
Proof.
  induction execs as [|[vals pop] execs IH]; intros c Hs H.
  - now exists [].
  - destruct (H (vals, pop) (or_introl eq_refl)) as (x & c0' & Hx). cbn [fst] in Hx.
    destruct (process_same c0 c others vals pop x c0' Hs Hx) as (c' & Hp & Hs').
    destruct (IH c' Hs' (fun ex Hin => H ex (or_intror Hin))) as (xs & Hxs).
    exists (x :: xs). cbn [run_execs]. rewrite Hp. cbn [bind fst snd]. now rewrite Hxs.
Qed.
