(* C04 - lemmas about strings, the association-list dictionaries and the small monads of Params.v *)
From Coq Require Import List NArith ZArith Bool Lia.
Import ListNotations.
From SAV.sql Require Import Params.

Lemma str_eqb_spec : forall a b, reflect (a = b) (str_eqb a b).
Proof.
  induction a as [|x a IH]; destruct b as [|y b]; cbn [str_eqb]; try (constructor; congruence).
  destruct (N.eqb_spec x y) as [->|Hn]; cbn [andb].
  - destruct (IH b) as [->|Hn]; constructor; congruence.
  - constructor; congruence.
Qed.
Lemma str_eqb_refl : forall a, str_eqb a a = true.
Proof. intro a. destruct (str_eqb_spec a a); congruence. Qed.
Lemma str_eqb_neq : forall a b, a <> b -> str_eqb a b = false.
Proof. intros a b H. destruct (str_eqb_spec a b); congruence. Qed.
Lemma str_eqb_eq : forall a b, str_eqb a b = true -> a = b.
Proof. intros a b H. destruct (str_eqb_spec a b); congruence. Qed.

Lemma memb_In : forall n l, memb n l = true <-> In n l.
Proof.
  intros n l. unfold memb. rewrite existsb_exists. split.
  - intros [x [Hx He]]. apply str_eqb_eq in He. subst. exact Hx.
  - intro H. exists n. split; [exact H|apply str_eqb_refl].
Qed.
Lemma memb_false : forall n l, memb n l = false <-> ~ In n l.
Proof.
  intros n l. rewrite <- memb_In. destruct (memb n l); split; intro H; congruence.
Qed.

Lemma NoDup_app_intro : forall {A} (a b : list A),
  NoDup a -> NoDup b -> (forall x, In x a -> In x b -> False) -> NoDup (a ++ b).
Proof.
  induction a as [|x a IH]; intros b Ha Hb Hd; [exact Hb|].
  inversion Ha as [|? ? Hni Hnd]; subst. cbn [app]. constructor.
  - intro Hi. apply in_app_or in Hi. destruct Hi as [Hi|Hi]; [exact (Hni Hi)|].
    exact (Hd x (or_introl eq_refl) Hi).
  - apply IH; [exact Hnd|exact Hb|]. intros y Hy. apply Hd. right. exact Hy.
Qed.
Lemma NoDup_app_elim : forall {A} (a b : list A), NoDup (a ++ b) ->
  NoDup a /\ NoDup b /\ (forall x, In x a -> In x b -> False).
Proof.
  induction a as [|x a IH]; intros b H.
  - split; [constructor|]. split; [exact H|intros x []].
  - cbn [app] in H. inversion H as [|? ? Hni Hnd]; subst.
    destruct (IH b Hnd) as [Ha [Hb Hd]]. split; [|split; [exact Hb|]].
    + constructor; [|exact Ha]. intro Hi. apply Hni. apply in_or_app. left. exact Hi.
    + intros y [<-|Hy] Hyb; [apply Hni; apply in_or_app; right; exact Hyb|exact (Hd y Hy Hyb)].
Qed.

(* ---- dget / dset / dpop ---- *)
Section Dict.
Context {V : Type}.
Implicit Types (d : dict V) (k : name) (v : V).

Definition keys d : list name := map fst d.

Lemma dget_In_keys : forall k d, dget k d <> None <-> In k (keys d).
Proof.
  induction d as [|[k' v'] d IH]; cbn [dget keys map fst].
  - split; [congruence|intros []].
  - destruct (str_eqb_spec k k') as [->|Hn].
    + split; [intros _; left; reflexivity|congruence].
    + rewrite IH. unfold keys. split; [intro H; right; exact H|intros [H|H]; [congruence|exact H]].
Qed.
Lemma dget_None_keys : forall k d, dget k d = None <-> ~ In k (keys d).
Proof.
  intros k d. rewrite <- dget_In_keys. destruct (dget k d); split; intro H; try congruence.
  exfalso. apply H. congruence.
Qed.
Lemma dmem_In : forall k d, dmem k d = true <-> In k (keys d).
Proof.
  intros k d. rewrite <- dget_In_keys. unfold dmem. destruct (dget k d); split; congruence.
Qed.
Lemma dmem_false : forall k d, dmem k d = false <-> ~ In k (keys d).
Proof.
  intros k d. rewrite <- dget_In_keys. unfold dmem. destruct (dget k d); split; try congruence.
  intro H. exfalso. apply H. congruence.
Qed.

Lemma dget_dset_same : forall k v d, dget k (dset k v d) = Some v.
Proof.
  induction d as [|[k' v'] d IH]; cbn [dset dget].
  - rewrite str_eqb_refl. reflexivity.
  - destruct (str_eqb_spec k k') as [->|Hn]; cbn [dget].
    + rewrite str_eqb_refl. reflexivity.
    + rewrite (str_eqb_neq _ _ Hn). exact IH.
Qed.
Lemma dget_dset_other : forall k k' v d, k <> k' -> dget k (dset k' v d) = dget k d.
Proof.
  induction d as [|[k2 v2] d IH]; intro Hn; cbn [dset dget].
  - rewrite (str_eqb_neq _ _ Hn). reflexivity.
  - destruct (str_eqb_spec k' k2) as [->|Hn2]; cbn [dget].
    + rewrite (str_eqb_neq _ _ Hn). reflexivity.
    + destruct (str_eqb k k2); [reflexivity|apply IH; exact Hn].
Qed.
Lemma keys_dset : forall k v d, keys (dset k v d) = if dmem k d then keys d else keys d ++ [k].
Proof.
  induction d as [|[k' v'] d IH]; cbn [dset keys map fst].
  - reflexivity.
  - unfold dmem. cbn [dget]. destruct (str_eqb_spec k k') as [->|Hn]; cbn [keys map fst].
    + reflexivity.
    + fold (keys (dset k v d)). rewrite IH. unfold dmem. fold (keys d).
      destruct (dget k d); reflexivity.
Qed.
Lemma keys_dset_absent : forall k v d, ~ In k (keys d) -> dset k v d = d ++ [(k, v)].
Proof.
  induction d as [|[k' v'] d IH]; intro H; cbn [dset].
  - reflexivity.
  - cbn [keys map fst] in H. rewrite str_eqb_neq by (intro; subst; apply H; left; reflexivity).
    cbn [app]. f_equal. apply IH. intro Hi. apply H. right. exact Hi.
Qed.
Lemma In_keys_dset : forall x k v d, In x (keys (dset k v d)) <-> x = k \/ In x (keys d).
Proof.
  intros x k v d. rewrite keys_dset. destruct (dmem k d) eqn:E.
  - apply dmem_In in E. split; [intro H; right; exact H|intros [->|H]; assumption].
  - rewrite in_app_iff. cbn [In]. split; [intros [H|[H|[]]]; [right; exact H|left; congruence]
                                          |intros [->|H]; [right; left; reflexivity|left; exact H]].
Qed.
Lemma NoDup_keys_dset : forall k v d, NoDup (keys d) -> NoDup (keys (dset k v d)).
Proof.
  intros k v d H. rewrite keys_dset. destruct (dmem k d) eqn:E; [exact H|].
  apply dmem_false in E. apply NoDup_app_intro; [exact H|constructor; [intros []|constructor]|].
  intros x Hx [Hy|[]]. subst. exact (E Hx).
Qed.

Lemma dget_dpop_same : forall k d, NoDup (keys d) -> dget k (dpop k d) = None.
Proof.
  induction d as [|[k' v'] d IH]; intro H; cbn [dpop dget]; [reflexivity|].
  cbn [keys map fst] in H. inversion H as [|? ? Hni Hnd]; subst.
  destruct (str_eqb_spec k k') as [->|Hn].
  - apply dget_None_keys. exact Hni.
  - cbn [dget]. rewrite (str_eqb_neq _ _ Hn). apply IH. exact Hnd.
Qed.
Lemma dget_dpop_other : forall k k' d, k <> k' -> dget k (dpop k' d) = dget k d.
Proof.
  induction d as [|[k2 v2] d IH]; intro Hn; cbn [dpop dget]; [reflexivity|].
  destruct (str_eqb_spec k' k2) as [->|Hn2]; cbn [dget].
  - rewrite (str_eqb_neq _ _ Hn). reflexivity.
  - destruct (str_eqb k k2); [reflexivity|apply IH; exact Hn].
Qed.
Lemma In_keys_dpop : forall x k d, In x (keys (dpop k d)) -> In x (keys d).
Proof.
  induction d as [|[k2 v2] d IH]; cbn [dpop keys map fst]; [intros []|].
  destruct (str_eqb k k2); cbn [keys map fst In].
  - intro H. right. exact H.
  - intros [H|H]; [left; exact H|right; apply IH; exact H].
Qed.
Lemma NoDup_keys_dpop : forall k d, NoDup (keys d) -> NoDup (keys (dpop k d)).
Proof.
  induction d as [|[k2 v2] d IH]; cbn [dpop keys map fst]; intro H; [constructor|].
  inversion H as [|? ? Hni Hnd]; subst. destruct (str_eqb k k2); [exact Hnd|].
  cbn [keys map fst]. constructor; [|apply IH; exact Hnd].
  intro Hi. apply Hni. apply (In_keys_dpop _ _ _ Hi).
Qed.

(* ---- dupdate ---- *)
Lemma dupdate_nil : forall d, dupdate [] d = d.
Proof. reflexivity. Qed.
Lemma dupdate_cons : forall k v items d, dupdate ((k, v) :: items) d = dupdate items (dset k v d).
Proof. reflexivity. Qed.
Lemma dget_dupdate_other : forall k items d, ~ In k (map fst items) -> dget k (dupdate items d) = dget k d.
Proof.
  induction items as [|[k' v'] items IH]; intros d H; [reflexivity|].
  rewrite dupdate_cons. cbn [map fst In] in H. rewrite IH by tauto.
  apply dget_dset_other. intro; subst; tauto.
Qed.
Lemma dget_dupdate_in : forall k v items d, NoDup (map fst items) -> In (k, v) items ->
  dget k (dupdate items d) = Some v.
Proof.
  induction items as [|[k' v'] items IH]; intros d Hnd Hin; [destruct Hin|].
  rewrite dupdate_cons. cbn [map fst] in Hnd. inversion Hnd as [|? ? Hni Hnd']; subst.
  destruct Hin as [He|Hin].
  - inversion He; subst. rewrite dget_dupdate_other by exact Hni. apply dget_dset_same.
  - apply IH; assumption.
Qed.
Lemma In_keys_dupdate : forall x items d, In x (keys (dupdate items d)) <-> In x (map fst items) \/ In x (keys d).
Proof.
  induction items as [|[k' v'] items IH]; intro d.
  - cbn. tauto.
  - rewrite dupdate_cons, IH, In_keys_dset. cbn [map fst In]. split; intros H; intuition congruence.
Qed.
Lemma NoDup_keys_dupdate : forall items d, NoDup (keys d) -> NoDup (keys (dupdate items d)).
Proof.
  induction items as [|[k' v'] items IH]; intros d H; [exact H|].
  rewrite dupdate_cons. apply IH. apply NoDup_keys_dset. exact H.
Qed.
End Dict.

(* ---- drekey ---- *)
Section Rekey.
Context {V : Type}.

Lemma dget_app : forall k (a b : dict V),
  dget k (a ++ b) = match dget k a with Some v => Some v | None => dget k b end.
Proof.
  induction a as [|[k' v'] a IH]; intro b; cbn [app dget]; [reflexivity|].
  destruct (str_eqb k k'); [reflexivity|apply IH].
Qed.

Definition rekey_map (f : name -> name) (d : dict V) : dict V := map (fun kv => (f (fst kv), snd kv)) d.

Lemma keys_rekey_map : forall f (d : dict V), keys (rekey_map f d) = map f (keys d).
Proof. intros f d. unfold keys, rekey_map. rewrite !map_map. reflexivity. Qed.

Lemma drekey_snoc : forall (f : name -> name) (d : dict V) k v,
  drekey f (d ++ [(k, v)]) = dset (f k) v (drekey f d).
Proof. intros. unfold drekey. rewrite fold_left_app. reflexivity. Qed.

(* with f injective on the (distinct) keys, re-keying is a plain map: nothing is overwritten *)
Lemma drekey_inj : forall (f : name -> name) (d : dict V),
  (forall a b, In a (keys d) -> In b (keys d) -> f a = f b -> a = b) ->
  NoDup (keys d) -> drekey f d = rekey_map f d.
Proof.
  intros f d. induction d as [|[k v] d IH] using rev_ind; intros Hinj Hnd; [reflexivity|].
  rewrite drekey_snoc. unfold keys in Hinj, Hnd. rewrite map_app in Hinj, Hnd. cbn [map fst] in Hinj, Hnd.
  apply NoDup_remove in Hnd. rewrite app_nil_r in Hnd. destruct Hnd as [Hnd Hni].
  rewrite IH; [|intros a b Ha Hb; apply Hinj; apply in_or_app; left; assumption|exact Hnd].
  rewrite keys_dset_absent.
  - unfold rekey_map. rewrite map_app. reflexivity.
  - rewrite keys_rekey_map. intro Hi. apply in_map_iff in Hi. destruct Hi as [a [He Ha]].
    apply Hni. assert (a = k); [|subst; exact Ha].
    apply Hinj; [apply in_or_app; left; exact Ha|apply in_or_app; right; left; reflexivity|exact He].
Qed.

Lemma dget_rekey_map : forall (f : name -> name) (d : dict V) k,
  (forall a, In a (keys d) -> f a = f k -> a = k) ->
  dget (f k) (rekey_map f d) = dget k d.
Proof.
  induction d as [|[k' v'] d IH]; intros k Hinj; [reflexivity|].
  cbn [rekey_map map fst snd dget]. fold (rekey_map f d).
  destruct (str_eqb_spec k k') as [->|Hn].
  - rewrite str_eqb_refl. reflexivity.
  - rewrite str_eqb_neq.
    + apply IH. intros a Ha. apply Hinj. right. exact Ha.
    + intro He. apply Hn. symmetry. apply Hinj; [left; reflexivity|symmetry; exact He].
Qed.
End Rekey.

(* {v: k for k, v in d.items()} with distinct values is the list of swapped pairs *)
Lemma reverse_dict_inj : forall (d : dict name),
  NoDup (map snd d) -> reverse_dict d = map (fun kv => (snd kv, fst kv)) d.
Proof.
  intro d. induction d as [|[k v] d IH] using rev_ind; intro Hnd; [reflexivity|].
  unfold reverse_dict. rewrite fold_left_app. cbn [fold_left fst snd]. fold (reverse_dict d).
  rewrite map_app in Hnd. cbn [map snd] in Hnd.
  apply NoDup_remove in Hnd. rewrite app_nil_r in Hnd. destruct Hnd as [Hnd Hni].
  rewrite IH by exact Hnd. rewrite keys_dset_absent.
  - rewrite map_app. reflexivity.
  - unfold keys. rewrite map_map. cbn [fst]. exact Hni.
Qed.

(* ---- monadic folds ---- *)
Lemma mapM_ok : forall {A B} (f : A -> result B) (g : A -> B) l,
  (forall a, In a l -> f a = Ok (g a)) -> mapM f l = Ok (map g l).
Proof.
  induction l as [|a l IH]; intro H; [reflexivity|].
  cbn [mapM map]. rewrite (H a (or_introl eq_refl)). cbn [bind].
  rewrite IH by (intros; apply H; right; assumption). reflexivity.
Qed.
Lemma concatM_ok : forall {A B} (f : A -> result (list B)) (g : A -> list B) l,
  (forall a, In a l -> f a = Ok (g a)) -> concatM f l = Ok (flat_map g l).
Proof.
  induction l as [|a l IH]; intro H; [reflexivity|].
  cbn [concatM flat_map]. rewrite (H a (or_introl eq_refl)). cbn [bind].
  rewrite IH by (intros; apply H; right; assumption). reflexivity.
Qed.
Lemma foldM_app : forall {A B} (f : A -> B -> result A) l1 l2 a,
  foldM f (l1 ++ l2) a = bind (foldM f l1 a) (foldM f l2).
Proof.
  induction l1 as [|b l1 IH]; intros l2 a; [reflexivity|].
  cbn [app foldM]. destruct (f a b); cbn [bind]; [apply IH|reflexivity].
Qed.
