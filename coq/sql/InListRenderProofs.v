(* C07, code side: the statement produced by compile + _process_parameters_for_postcompile (or by
   literal_binds), what it looks like once the DBAPI has substituted the values, and its truth value. *)
From Coq Require Import List ZArith NArith Bool Lia.
Import ListNotations.
From SAV.sql Require Import Val3 Val3Proofs InList InListSpecProofs InListCloseProofs InListLeepProofs.

(* ---------------------------------------------------------------------------------------- *)
(** * names are unique *)
Lemma nodup_app {A} (l1 l2 : list A) : NoDup l1 -> NoDup l2 -> (forall x, In x l1 -> In x l2 -> False) -> NoDup (l1 ++ l2).
Proof.
  intros H1 H2 Hd. induction H1 as [|a l1 Ha H1 IH]; [exact H2|].
  cbn [app]. constructor.
  - intros Hin. apply in_app_or in Hin as [Hin|Hin]; [now apply Ha|]. apply (Hd a); [now left|exact Hin].
  - apply IH. intros x Hx. apply Hd. now right.
Qed.

Lemma nodup_map_inj {A B} (f : A -> B) l : (forall x y, f x = f y -> x = y) -> NoDup l -> NoDup (map f l).
Proof.
  intros Hf H. induction H as [|a l Ha H IH]; cbn [map]; constructor; [|exact IH].
  intros Hin. apply in_map_iff in Hin as (y & Hy & Hin). apply Hf in Hy. now subst.
Qed.

Lemma nodup_tu_scalar ss : NoDup (map fst (tu_scalar ss)).
Proof.
  unfold tu_scalar. rewrite map_map. cbn [fst].
  rewrite <- (map_map (fun iv : N * sv => fst iv) (fun i : N => (i, 0%N))).
  apply nodup_map_inj; [intros x y H; now inversion H|apply enum_from_nodup].
Qed.

Lemma block_keys_fst (n : N) (te : list sv) (x : N * N * sv) :
  In x (map (fun jv : N * sv => ((n, fst jv), snd jv)) (enum_from 1 te)) -> fst (fst x) = n.
Proof. intros H. apply in_map_iff in H as (y & <- & _). reflexivity. Qed.

Lemma blocks_keys_ge (n : N) ts (x : N * N * sv) : In x (concat (blocks_from n ts)) -> (n <= fst (fst x))%N.
Proof.
  revert n. induction ts as [|t0 ts IH]; intros n H; [destruct H|].
  unfold blocks_from in H. cbn [enum_from map concat fst snd] in H. fold (blocks_from (N.succ n) ts) in H.
  apply in_app_or in H as [H|H].
  - apply block_keys_fst in H. lia.
  - apply IH in H. lia.
Qed.

Lemma nodup_blocks n ts : NoDup (map fst (concat (blocks_from n ts))).
Proof.
  revert n. induction ts as [|t0 ts IH]; intro n; [constructor|].
  unfold blocks_from. cbn [enum_from map concat fst snd]. fold (blocks_from (N.succ n) ts).
  rewrite map_app. apply nodup_app.
  - rewrite map_map. cbn [fst]. rewrite <- (map_map (fun jv : N * sv => fst jv) (fun j : N => (n, j))).
    apply nodup_map_inj; [intros x y H; now inversion H|apply enum_from_nodup].
  - apply IH.
  - intros k H1 H2. apply in_map_iff in H1 as (x & <- & Hx). apply in_map_iff in H2 as (y & Hy & Hin).
    apply block_keys_fst in Hx. apply blocks_keys_ge in Hin. rewrite Hy in Hin. lia.
Qed.

(* ---------------------------------------------------------------------------------------- *)
(** * substituting values for the placeholders of an expansion *)
Section CLOSE.
Variable row : N -> sv.
Variable d : dialect.
Variable base : list (pname * sv).
Variable tu : list (key * sv).
Hypothesis Hbase : no_exp base.
Hypothesis Hnd : NoDup (map fst tu).

Definition pargs (ents : list (key * sv)) : list sv := if d.(d_positional) then map snd ents else [].

Lemma close_bind1 kv : In kv tu ->
  close row (base ++ exp_params tu) (pargs [kv]) [render_bindtemplate d (fst kv)] = Some [TVal (snd kv)].
Proof.
  intros Hin. unfold pargs, render_bindtemplate. destruct (d_positional d); cbn [close map option_map].
  - reflexivity.
  - rewrite (lookup_app_no_exp _ _ _ Hbase).
    destruct kv as [[i j] v]. cbn [fst snd]. rewrite (lookup_exp_in tu (i, j) v Hnd Hin). reflexivity.
Qed.

Lemma pargs_concat blks : pargs (concat blks) = concat (map pargs blks).
Proof.
  unfold pargs. destruct (d_positional d).
  - now rewrite concat_map.
  - induction blks; [reflexivity|]. cbn [map concat]. now rewrite <- IHblks.
Qed.

Lemma pargs_singletons ents : concat (map (fun kv : key * sv => pargs [kv]) ents) = pargs ents.
Proof.
  unfold pargs. destruct (d_positional d); induction ents as [|kv ents IH]; cbn [map concat app]; try reflexivity.
  - f_equal. exact IH.
  - exact IH.
Qed.

Definition val_items (ents : list (key * sv)) : list tok := items (map (fun kv => TVal (snd kv)) ents).

Lemma close_bind_items ents : incl ents tu ->
  close row (base ++ exp_params tu) (pargs ents) (bind_items d ents) = Some (val_items ents).
Proof.
  intros Hin.
  pose (segs := map (fun kv : key * sv => (pargs [kv], [render_bindtemplate d (fst kv)], [TVal (snd kv)])) ents).
  assert (E1 : concat (map (fun x : list sv * list tok * list tok => fst (fst x)) segs) = pargs ents).
  { unfold segs. rewrite map_map. cbn [fst]. apply pargs_singletons. }
  assert (E2 : map (fun x : list sv * list tok * list tok => snd (fst x)) segs = map (fun kv => [render_bindtemplate d (fst kv)]) ents)
    by (unfold segs; now rewrite map_map).
  assert (E3 : map snd segs = map (fun t => [t]) (map (fun kv => TVal (snd kv)) ents))
    by (unfold segs; now rewrite !map_map).
  unfold bind_items, val_items, items. rewrite <- E1, <- E2, <- E3.
  apply close_join; [reflexivity|].
  unfold segs. apply Forall_forall. intros x Hx. apply in_map_iff in Hx as (kv & <- & Hkv).
  cbn [fst snd]. apply close_bind1. now apply Hin.
Qed.

Definition val_rows (blks : list (list (key * sv))) : list tok :=
  join [TComma] (map (fun blk => row_toks (map (fun kv => TVal (snd kv)) blk)) blks).

Lemma close_bind_rows blks : incl (concat blks) tu ->
  close row (base ++ exp_params tu) (pargs (concat blks)) (bind_rows d blks) = Some (val_rows blks).
Proof.
  intros Hin.
  pose (segs := map (fun blk : list (key * sv) =>
                  (pargs blk, [TLp] ++ bind_items d blk ++ [TRp], row_toks (map (fun kv => TVal (snd kv)) blk))) blks).
  assert (E1 : concat (map (fun x : list sv * list tok * list tok => fst (fst x)) segs) = pargs (concat blks))
    by (unfold segs; rewrite map_map; cbn [fst]; now rewrite pargs_concat).
  assert (E2 : map (fun x : list sv * list tok * list tok => snd (fst x)) segs = map (fun blk => [TLp] ++ bind_items d blk ++ [TRp]) blks)
    by (unfold segs; now rewrite map_map).
  assert (E3 : map snd segs = map (fun blk => row_toks (map (fun kv => TVal (snd kv)) blk)) blks)
    by (unfold segs; now rewrite map_map).
  unfold bind_rows, val_rows. rewrite <- E1, <- E2, <- E3.
  apply close_join; [reflexivity|].
  unfold segs. apply Forall_forall. intros x Hx. apply in_map_iff in Hx as (blk & <- & Hblk).
  cbn [fst snd]. unfold row_toks.
  change (pargs blk) with ([] ++ pargs blk). change (TLp :: items ?x ++ [TRp]) with ([TLp] ++ items x ++ [TRp]).
  apply close_app; [reflexivity|].
  rewrite <- (app_nil_r (pargs blk)). apply close_app; [|reflexivity].
  apply close_bind_items. intros kv Hkv. apply Hin. apply in_concat. now exists blk.
Qed.

(* the positional argument tuple built from positiontup *)
Lemma args_of_names ents : incl ents tu ->
  all_some (map (fun p => lookup_param p (base ++ exp_params tu)) (map (fun kv => PExp (fst kv)) ents))
  = Some (map snd ents).
Proof.
  intros Hin. induction ents as [|kv ents IH]; [reflexivity|].
  cbn [map all_some]. rewrite (lookup_app_no_exp _ _ _ Hbase).
  destruct kv as [k v]. cbn [fst snd]. rewrite (lookup_exp_in tu k v Hnd (Hin _ (or_introl eq_refl))).
  rewrite IH; [reflexivity|]. intros x Hx. apply Hin. now right.
Qed.
End CLOSE.

(* ---------------------------------------------------------------------------------------- *)
(** * the statement string after substitution of the replacement expression *)
Definition is_post (t : tok) : bool := match t with TPost => true | _ => false end.
Definition nopost (s : list tok) : bool := forallb (fun t => negb (is_post t)) s.
Definition subst_pure (repl : list tok) (s : list tok) : list tok :=
  flat_map (fun t => match t with TPost => repl | _ => [t] end) s.

Lemma subst_some r s : subst (Some r) s = Ok (subst_pure r s).
Proof.
  unfold subst. induction s as [|t s IH]; [reflexivity|].
  cbn [fold_right flat_map subst_pure]. rewrite IH. destruct t; reflexivity.
Qed.
Lemma subst_pure_app r a b : subst_pure r (a ++ b) = subst_pure r a ++ subst_pure r b.
Proof. apply flat_map_app. Qed.
Lemma subst_pure_nopost r s : nopost s = true -> subst_pure r s = s.
Proof.
  induction s as [|t s IH]; intros H; [reflexivity|].
  cbn [nopost forallb] in H. apply andb_true_iff in H as [Ht Hs].
  cbn [subst_pure flat_map]. fold (subst_pure r s). rewrite (IH Hs). destruct t; try reflexivity; discriminate.
Qed.

Lemma forallb_join (P : tok -> bool) sep parts :
  forallb P sep = true -> Forall (fun p => forallb P p = true) parts -> forallb P (join sep parts) = true.
Proof.
  intros Hs H. induction H as [|p parts Hp H IH]; [reflexivity|].
  destruct parts as [|q parts]; [exact Hp|].
  rewrite join_cons2, !forallb_app, Hp, Hs. exact IH.
Qed.

Lemma nopost_lhs l : nopost (lhs_tokens l) = true.
Proof.
  destruct l as [c|cs]; [reflexivity|]. unfold lhs_tokens, nopost. cbn [forallb negb is_post andb].
  rewrite forallb_app. cbn [forallb negb is_post andb]. rewrite andb_true_r.
  apply forallb_join; [reflexivity|]. apply Forall_forall. intros p Hp. apply in_map_iff in Hp as (c & <- & _). reflexivity.
Qed.

Lemma subst_render e r :
  subst_pure r (compile_template e) = render_binary e ([TLp] ++ r ++ [TRp]).
Proof.
  unfold compile_template, render_binary, generic_binary, bind_template.
  destruct (ie_op e), (ie_text e); cbn [op_tokens];
    rewrite ?subst_pure_app, !(subst_pure_nopost r (lhs_tokens _) (nopost_lhs _));
    cbn [subst_pure flat_map app]; rewrite ?app_nil_r; reflexivity.
Qed.

Lemma nopost_ctx d p : nopost (ctx_pre d p) = true /\ nopost (ctx_post d p) = true.
Proof. destruct p; unfold ctx_pre, ctx_post, other_tok; destruct (d_positional d); split; reflexivity. Qed.

Lemma subst_stmt d p e r :
  subst (Some r) (ctx_pre d p ++ compile_template e ++ ctx_post d p)
  = Ok (ctx_pre d p ++ render_binary e ([TLp] ++ r ++ [TRp]) ++ ctx_post d p).
Proof.
  rewrite subst_some, !subst_pure_app, subst_render.
  destruct (nopost_ctx d p) as [H1 H2]. now rewrite (subst_pure_nopost _ _ H1), (subst_pure_nopost _ _ H2).
Qed.

(* ---------------------------------------------------------------------------------------- *)
(** * one execution of a freshly compiled statement *)
Lemma no_exp_others p : no_exp (ctx_others p).
Proof. destruct p; intros kv H; cbn in H; repeat (destruct H as [<-|H]; [exact I|]); destruct H. Qed.

Lemma process_fresh d p e vals tu repl pop :
  leep d e.(ie_bind) vals = Ok (tu, repl) ->
  exists c',
  process (compile d p e) (ctx_others p) vals pop =
  Ok ({| x_statement := ctx_pre d p ++ render_binary e ([TLp] ++ repl ++ [TRp]) ++ ctx_post d p;
         x_params := ctx_others p ++ exp_params tu;
         x_positiontup := if d.(d_positional)
                          then Some (ctx_names_pre p ++ map (fun kv => PExp (fst kv)) tu ++ ctx_names_post p)
                          else None |}, c').
Proof.
  intros H. unfold process, compile.
  cbn [c_dialect c_bind c_bind_names c_string c_pre_string c_positiontup c_pre_positiontup or_else].
  rewrite <- (update_params_fresh (ctx_others p) tu (no_exp_others p)).
  destruct p; destruct (d_positional d) eqn:Ed;
    cbn [ctx_names_pre ctx_names_post ctx_others app map run_names step bind lookup_param find fst snd N.eqb Pos.eqb ps_repl ps_params ps_pos remove_param filter];
    rewrite H; cbn [bind fst snd ps_repl ps_params ps_pos run_names step option_map app remove_param filter negb];
    rewrite subst_stmt; cbn [bind]; rewrite ?Ed, ?app_nil_r; eexists; reflexivity.
Qed.
