(* C11 - lemmas about the insertion-ordered dict of ResultMap.v and decidable equality of keys *)
From Coq Require Import List NArith Bool Arith Lia.
Import ListNotations.
From SAV.sql Require Import ResultMap.

Lemma nm_eqb_eq : forall a b, nm_eqb a b = true <-> a = b.
Proof.
  induction a as [x|h i s IH]; destruct b as [y|h' i' s']; cbn [nm_eqb]; split; intro H; try discriminate.
  - apply N.eqb_eq in H. now subst.
  - injection H as ->. apply N.eqb_refl.
  - apply andb_true_iff in H as [H Hs]. apply andb_true_iff in H as [Hh Hi].
    apply N.eqb_eq in Hh, Hi. apply IH in Hs. now subst.
  - injection H as -> -> ->. rewrite !N.eqb_refl. cbn. now apply IH.
Qed.

Lemma key_eqb_eq : forall a b, key_eqb a b = true <-> a = b.
Proof.
  destruct a, b; cbn [key_eqb]; split; intro H; try discriminate; try reflexivity.
  - apply nm_eqb_eq in H. now subst.
  - injection H as ->. now apply nm_eqb_eq.
  - apply N.eqb_eq in H. now subst.
  - injection H as ->. apply N.eqb_refl.
Qed.

Lemma key_eqb_refl : forall a, key_eqb a a = true.
Proof. intro a. now apply key_eqb_eq. Qed.

Lemma key_eqb_neq : forall a b, key_eqb a b = false <-> a <> b.
Proof.
  intros a b. split.
  - intros H E. apply key_eqb_eq in E. congruence.
  - intro H. destruct (key_eqb a b) eqn:E; [|reflexivity]. apply key_eqb_eq in E. contradiction.
Qed.

Lemma key_eqb_sym : forall a b, key_eqb a b = key_eqb b a.
Proof.
  intros a b. destruct (key_eqb a b) eqn:E.
  - apply key_eqb_eq in E. subst. symmetry. apply key_eqb_refl.
  - symmetry. apply key_eqb_neq. apply key_eqb_neq in E. congruence.
Qed.

Lemma rix_eqb_eq : forall a b, rix_eqb a b = true <-> a = b.
Proof.
  destruct a, b; cbn [rix_eqb]; split; intro H; try discriminate; try reflexivity.
  - apply Nat.eqb_eq in H. now subst.
  - injection H as ->. apply Nat.eqb_refl.
Qed.

Lemma memk_In : forall k l, memk k l = true <-> In k l.
Proof.
  intros k l. unfold memk. rewrite existsb_exists. split.
  - intros [x [Hx E]]. apply key_eqb_eq in E. now subst.
  - intro H. exists k. split; [assumption|apply key_eqb_refl].
Qed.

Lemma memk_false : forall k l, memk k l = false <-> ~ In k l.
Proof.
  intros k l. split.
  - intros H Hin. apply memk_In in Hin. congruence.
  - intro H. destruct (memk k l) eqn:E; [|reflexivity]. apply memk_In in E. contradiction.
Qed.

(* ---------- generic dict lemmas ---------- *)
Section DictLemmas.
  Context {K V : Type} (eqb : K -> K -> bool).
  Hypothesis eqb_eq : forall a b, eqb a b = true <-> a = b.

  Lemma eqb_refl' : forall a, eqb a a = true.
  Proof. intro a. now apply eqb_eq. Qed.

  Lemma dget_dset : forall (d : list (K * V)) k v k',
    dget eqb (dset eqb k v d) k' = if eqb k' k then Some v else dget eqb d k'.
  Proof.
    induction d as [|[k0 v0] r IH]; intros k v k'; cbn [dset dget].
    - reflexivity.
    - destruct (eqb k k0) eqn:E.
      + apply eqb_eq in E. subst k0. cbn [dget]. destruct (eqb k' k); reflexivity.
      + cbn [dget]. destruct (eqb k' k0) eqn:E0.
        * apply eqb_eq in E0. subst k0. destruct (eqb k' k) eqn:E1; [|reflexivity].
          apply eqb_eq in E1. subst k'. rewrite eqb_refl' in E. discriminate.
        * apply IH.
  Qed.

  (* the last value bound to [k] in an association list, scanning left to right *)
  Fixpoint alast (l : list (K * V)) (k : K) : option V :=
    match l with
    | [] => None
    | (k', v) :: r => match alast r k with Some x => Some x | None => if eqb k k' then Some v else None end
    end.

  Lemma dupdate_cons : forall (d : list (K * V)) k v r,
    dupdate eqb d ((k, v) :: r) = dupdate eqb (dset eqb k v d) r.
  Proof. reflexivity. Qed.

  Lemma dget_dupdate : forall (l d : list (K * V)) k,
    dget eqb (dupdate eqb d l) k = match alast l k with Some v => Some v | None => dget eqb d k end.
  Proof.
    induction l as [|[k0 v0] r IH]; intros d k.
    - reflexivity.
    - rewrite dupdate_cons, IH. cbn [alast]. destruct (alast r k); [reflexivity|].
      rewrite dget_dset. destruct (eqb k k0); reflexivity.
  Qed.

  Lemma dget_dict_of : forall (l : list (K * V)) k, dget eqb (dict_of eqb l) k = alast l k.
  Proof. intros l k. unfold dict_of. rewrite dget_dupdate. destruct (alast l k); reflexivity. Qed.

  Lemma alast_Some_In : forall (l : list (K * V)) k v, alast l k = Some v -> In (k, v) l.
  Proof.
    induction l as [|[k0 v0] r IH]; intros k v H; cbn [alast] in H; [discriminate|].
    destruct (alast r k) eqn:E.
    - injection H as ->. right. now apply IH.
    - destruct (eqb k k0) eqn:E0; [|discriminate]. injection H as ->. apply eqb_eq in E0. subst. now left.
  Qed.

  Lemma alast_None : forall (l : list (K * V)) k, alast l k = None <-> (forall v, ~ In (k, v) l).
  Proof.
    induction l as [|[k0 v0] r IH]; intros k; cbn [alast].
    - split; [intros _ v []|reflexivity].
    - destruct (alast r k) eqn:E.
      + split; [discriminate|]. intro H. exfalso. apply (H v). right. now apply alast_Some_In.
      + destruct (eqb k k0) eqn:E0.
        * split; [discriminate|]. intro H. exfalso. apply eqb_eq in E0. subst. apply (H v0). now left.
        * split; [|reflexivity]. intros _ v [H|H].
          -- injection H as -> ->. rewrite eqb_refl' in E0. discriminate.
          -- destruct (IH k) as [H1 _]. exact (H1 E v H).
  Qed.

  Lemma alast_In_Some : forall (l : list (K * V)) k v, In (k, v) l -> exists v', alast l k = Some v'.
  Proof.
    intros l k v H. destruct (alast l k) eqn:E; [eauto|]. exfalso.
    destruct (alast_None l k) as [H1 _]. exact (H1 E v H).
  Qed.

  Lemma alast_app : forall (l1 l2 : list (K * V)) k,
    alast (l1 ++ l2) k = match alast l2 k with Some v => Some v | None => alast l1 k end.
  Proof.
    induction l1 as [|[k0 v0] r IH]; intros l2 k; cbn [app alast].
    - destruct (alast l2 k); reflexivity.
    - rewrite IH. destruct (alast l2 k); reflexivity.
  Qed.

  (* keys of a dict built by dset are pairwise distinct; its length is the number of distinct keys *)
  Lemma dset_keys_In : forall (d : list (K * V)) k v k', In k' (map fst (dset eqb k v d)) <-> k' = k \/ In k' (map fst d).
  Proof.
    induction d as [|[k0 v0] r IH]; intros k v k'; cbn [dset map fst In].
    - split; [intros [H|[]]; now left | intros [H|[]]; now left].
    - destruct (eqb k k0) eqn:E.
      + apply eqb_eq in E. subst k0. cbn [map fst In]. split.
        * intros [H|H]; [left; congruence|right; now right].
        * intros [H|[H|H]]; [left; congruence|left; assumption|right; assumption].
      + cbn [map fst In]. rewrite IH. tauto.
  Qed.

  Lemma dset_NoDup : forall (d : list (K * V)) k v, NoDup (map fst d) -> NoDup (map fst (dset eqb k v d)).
  Proof.
    induction d as [|[k0 v0] r IH]; intros k v H; cbn [dset map fst].
    - constructor; [intros []|constructor].
    - inversion H as [|? ? Hn Hr]; subst. destruct (eqb k k0) eqn:E.
      + apply eqb_eq in E. subst k0. cbn [map fst]. now constructor.
      + cbn [map fst]. constructor.
        * rewrite dset_keys_In. intros [Hk|Hk]; [|contradiction]. subst k0. rewrite eqb_refl' in E. discriminate.
        * now apply IH.
  Qed.

  Lemma dupdate_NoDup : forall (l d : list (K * V)), NoDup (map fst d) -> NoDup (map fst (dupdate eqb d l)).
  Proof.
    induction l as [|[k0 v0] r IH]; intros d H; [assumption|].
    rewrite dupdate_cons. apply IH. now apply dset_NoDup.
  Qed.

  Lemma dupdate_keys_In : forall (l d : list (K * V)) k,
    In k (map fst (dupdate eqb d l)) <-> In k (map fst l) \/ In k (map fst d).
  Proof.
    induction l as [|[k0 v0] r IH]; intros d k.
    - cbn. tauto.
    - rewrite dupdate_cons, IH, dset_keys_In. cbn [map fst In]. split; [intros [H|[H|H]]|intros [[H|H]|H]]; auto.
  Qed.

  Lemma dget_In : forall (d : list (K * V)) k v, dget eqb d k = Some v -> In (k, v) d.
  Proof.
    induction d as [|[k0 v0] r IH]; intros k v H; cbn [dget] in H; [discriminate|].
    destruct (eqb k k0) eqn:E.
    - injection H as ->. apply eqb_eq in E. subst. now left.
    - right. now apply IH.
  Qed.

  Lemma In_dget : forall (d : list (K * V)) k v, NoDup (map fst d) -> In (k, v) d -> dget eqb d k = Some v.
  Proof.
    induction d as [|[k0 v0] r IH]; intros k v Hn Hin; [destruct Hin|].
    cbn [map fst] in Hn. inversion Hn as [|? ? Hk Hr]; subst. cbn [dget]. destruct Hin as [H|H].
    - injection H as -> ->. now rewrite eqb_refl'.
    - destruct (eqb k k0) eqn:E.
      + apply eqb_eq in E. subst k0. exfalso. apply Hk. apply in_map_iff. exists (k, v). now split.
      + now apply IH.
  Qed.

  Lemma dget_None_keys : forall (d : list (K * V)) k, dget eqb d k = None <-> ~ In k (map fst d).
  Proof.
    induction d as [|[k0 v0] r IH]; intros k; cbn [dget map fst In].
    - split; [intros _ []|reflexivity].
    - destruct (eqb k k0) eqn:E.
      + split; [discriminate|]. intro H. exfalso. apply H. left. apply eqb_eq in E. congruence.
      + rewrite IH. split.
        * intros H [H1|H1]; [|contradiction]. subst. rewrite eqb_refl' in E. discriminate.
        * tauto.
  Qed.
End DictLemmas.
