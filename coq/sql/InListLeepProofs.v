(* C07: what _literal_execute_expanding_parameter (leep) returns, in closed form. *)
From Coq Require Import List ZArith NArith Bool Lia.
Import ListNotations.
From SAV.sql Require Import Val3 InList InListSpecProofs InListCloseProofs.


(* the (name, value) pairs added to the parameter dictionary *)
Definition tu_scalar (ss : list sv) : list (key * sv) :=
  map (fun iv => ((fst iv, 0%N), snd iv)) (enum_from 1 ss).
Definition blocks_from (n : N) (ts : list (list sv)) : list (list (key * sv)) :=
  map (fun it => map (fun jv => ((fst it, fst jv), snd jv)) (enum_from 1 (snd it))) (enum_from n ts).
Definition bind_items (d : dialect) (ents : list (key * sv)) : list tok :=
  join [TComma] (map (fun kv => [render_bindtemplate d (fst kv)]) ents).
Definition bind_rows (d : dialect) (blks : list (list (key * sv))) : list tok :=
  join [TComma] (map (fun blk => [TLp] ++ bind_items d blk ++ [TRp]) blks).

Lemma all_scalar_ok vals : all_scalar vals = true ->
  all_ok (map (fun v => match v with VScalar s => Ok s | VTuple _ => Raise TypeError end) vals)
  = Ok (map (fun v => match v with VScalar s => s | VTuple _ => SNull end) vals).
Proof.
  intros H. apply all_ok_map. intros a Ha.
  unfold all_scalar in H. rewrite forallb_forall in H. specialize (H a Ha). now destruct a.
Qed.
Lemma all_scalar_rows vals : all_scalar vals = true ->
  map value_row vals = map (fun v => [v]) (map (fun v => match v with VScalar s => s | VTuple _ => SNull end) vals).
Proof.
  intros H. rewrite map_map. apply map_ext_in. intros a Ha.
  unfold all_scalar in H. rewrite forallb_forall in H. specialize (H a Ha). now destruct a.
Qed.

Lemma all_tuple_ok k vals : all_tuple k vals = true -> all_ok (map tuple_items vals) = Ok (map value_row vals).
Proof.
  intros H. apply all_ok_map. intros a Ha.
  unfold all_tuple in H. rewrite forallb_forall in H. specialize (H a Ha). now destruct a.
Qed.
Lemma all_tuple_len k vals : all_tuple k vals = true -> Forall (fun te => length te = k) (map value_row vals).
Proof.
  intros H. apply Forall_forall. intros te Hin. apply in_map_iff in Hin as (v & <- & Hv).
  unfold all_tuple in H. rewrite forallb_forall in H. specialize (H v Hv).
  destruct v; [discriminate|]. now apply Nat.eqb_eq in H.
Qed.

(* ---- scalar branch ---- *)
Lemma leep_scalar d b vals : vals <> [] -> all_scalar vals = true -> tuple_branch b vals = false ->
  leep d b vals =
  let ss := map (fun v => match v with VScalar s => s | VTuple _ => SNull end) vals in
  Ok (tu_scalar ss, bind_items d (tu_scalar ss)).
Proof.
  intros Hne Hs Hb. unfold leep. destruct vals as [|v0 vals]; [congruence|].
  rewrite Hb. rewrite (all_scalar_ok _ Hs). reflexivity.
Qed.

(* ---- tuple branch ---- *)
Lemma enum_from_nth {A} n (l : list A) j :
  nth_error (enum_from n l) j = option_map (fun a => ((n + N.of_nat j)%N, a)) (nth_error l j).
Proof.
  revert n j. induction l as [|a l IH]; intros n j.
  - destruct j; reflexivity.
  - destruct j as [|j]; cbn [enum_from nth_error option_map].
    + f_equal. f_equal. lia.
    + rewrite IH. destruct (nth_error l j); cbn [option_map]; [|reflexivity]. f_equal. f_equal. lia.
Qed.

Lemma nth_error_concat_blocks k ts : Forall (fun te => length te = k) ts ->
  forall n i te j, nth_error ts i = Some te -> (j < k)%nat ->
  nth_error (A := (N * N * sv)) (concat (blocks_from n ts)) (i * k + j)
  = Some (((n + N.of_nat i)%N, (1 + N.of_nat j)%N), nth j te SNull).
Proof.
  intros H. induction H as [|t0 ts Ht0 H IH]; intros n i te j Hi Hj.
  - destruct i; discriminate.
  - unfold blocks_from. cbn [enum_from map concat fst snd]. fold (blocks_from (N.succ n) ts).
    remember (map (fun jv : N * sv => ((n, fst jv), snd jv)) (enum_from 1 t0)) as b0 eqn:Eb0.
    assert (Hb0 : length b0 = k) by (subst b0; now rewrite map_length, enum_from_length).
    destruct i as [|i].
    + cbn [nth_error] in Hi. inversion Hi; subst te. cbn [Nat.mul Nat.add].
      rewrite nth_error_app1 by lia. subst b0. rewrite nth_error_map, enum_from_nth.
      destruct (nth_error t0 j) as [a|] eqn:E.
      * cbn [option_map fst snd]. f_equal. f_equal; [f_equal; lia|]. symmetry. now apply nth_error_nth.
      * apply nth_error_None in E. lia.
    + cbn [nth_error] in Hi.
      replace (S i * k + j)%nat with (length b0 + (i * k + j))%nat by (rewrite Hb0; cbn [Nat.mul]; lia).
      rewrite nth_error_app2 by lia.
      replace (length b0 + (i * k + j) - length b0)%nat with (i * k + j)%nat by lia.
      rewrite (IH (N.succ n) i te j Hi Hj). f_equal. f_equal. f_equal. lia.
Qed.

Lemma enum_map_seq {A B} (f : N -> B) m (l : list A) :
  map (fun jv => f (fst jv)) (enum_from m l) = map (fun j => f (m + N.of_nat j)%N) (seq 0 (length l)).
Proof.
  revert m. induction l as [|a l IH]; intro m; [reflexivity|].
  cbn [enum_from map length seq fst]. f_equal; [f_equal; lia|].
  rewrite IH. rewrite <- seq_shift, map_map. apply map_ext. intros j. f_equal. lia.
Qed.

Lemma in_combine_seq {A} (l : list A) s i a : In (i, a) (combine (seq s (length l)) l) -> nth_error l (i - s) = Some a /\ (s <= i)%nat.
Proof.
  revert s. induction l as [|x l IH]; intros s H; [destruct H|].
  cbn [length seq combine] in H. destruct H as [H|H].
  - inversion H; subst. rewrite Nat.sub_diag. split; [reflexivity|lia].
  - apply IH in H as [H1 H2]. split; [|lia]. replace (i - s)%nat with (S (i - S s)) by lia. exact H1.
Qed.

Lemma rows_eq_blocks d k ts : Forall (fun te => length te = k) ts -> forall s,
  map (fun it : nat * list sv =>
         [TLp] ++ join [TComma] (map (fun c => [c])
             (map (fun j => render_bindtemplate d ((1 + N.of_nat (fst it))%N, (1 + N.of_nat j)%N)) (seq 0 (length (snd it))))) ++ [TRp])
      (combine (seq s (length ts)) ts)
  = map (fun blk => [TLp] ++ bind_items d blk ++ [TRp]) (blocks_from (1 + N.of_nat s) ts).
Proof.
  intros H. induction H as [|t0 ts Ht0 H IH]; intro s; [reflexivity|].
  cbn [length seq combine map]. unfold blocks_from. cbn [enum_from map]. fold (blocks_from (N.succ (1 + N.of_nat s)) ts).
  f_equal.
  - cbn [fst snd]. f_equal. f_equal. unfold bind_items. f_equal. rewrite !map_map. cbn [fst].
    rewrite (enum_map_seq (fun j => [render_bindtemplate d ((1 + N.of_nat s)%N, j)]) 1 t0). reflexivity.
  - rewrite IH. f_equal. f_equal. lia.
Qed.

Lemma leep_tuple d b vals k : vals <> [] -> all_tuple k vals = true -> tuple_branch b vals = true ->
  leep d b vals =
  let blks := blocks_from 1 (map value_row vals) in
  Ok (concat blks, (if d.(d_tuple_in_values) then [TValues] else []) ++ bind_rows d blks).
Proof.
  intros Hne Ht Hb. unfold leep. destruct vals as [|v0 vals]; [congruence|].
  rewrite Hb. rewrite (all_tuple_ok _ _ Ht). cbn [bind].
  set (ts := map value_row (v0 :: vals)).
  pose proof (all_tuple_len _ _ Ht) as Hlen. fold ts in Hlen.
  rewrite flat_map_concat_map. fold (blocks_from 1 ts).
  erewrite (all_ok_map _ (fun it : nat * list sv =>
         [TLp] ++ join [TComma] (map (fun c => [c])
             (map (fun j => render_bindtemplate d ((1 + N.of_nat (fst it))%N, (1 + N.of_nat j)%N)) (seq 0 (length (snd it))))) ++ [TRp])).
  - cbn [bind]. cbv zeta. f_equal. f_equal. f_equal. unfold bind_rows. f_equal.
    apply (rows_eq_blocks d k ts Hlen 0%nat).
  - intros [i te] Hin. cbn [fst snd]. apply in_combine_seq in Hin as [Hnth _]. rewrite Nat.sub_0_r in Hnth.
    erewrite (all_ok_map _ (fun j => render_bindtemplate d ((1 + N.of_nat i)%N, (1 + N.of_nat j)%N))); [reflexivity|].
    intros j Hj. apply in_seq in Hj.
    assert (Hte : length te = k).
    { rewrite Forall_forall in Hlen. apply Hlen. eapply nth_error_In; eauto. }
    rewrite Hte. pose proof (nth_error_concat_blocks k ts Hlen 1%N i te j Hnth) as HH.
    rewrite HH by lia. reflexivity.
Qed.
