(* C14 - MetaData.sorted_tables; refutation witnesses; create_all followed by drop_all *)
From Coq Require Import List NArith Bool Lia Permutation.
Import ListNotations.
From SAV.util Require Import Topo Cycles TopoProofs TopoCycle TopoExtra CyclesSound CyclesComplete CyclesExact.
From SAV.sql Require Import DDLOrder DDLOrderBase DDLOrderSort DDLOrderExec DDLOrderCreate DDLOrderDrop.

(* the dependency graph sort_tables works on: add_is_dependent_on edges and one edge (referred table,
   table) per ForeignKeyConstraint without use_alter to another table *)
Definition deps (md : metadata) : list edge := fixed md ++ mutable0 none_filter md.

Lemma insert_table_perm t l : Permutation (insert_table t l) (t :: l).
Proof. induction l as [|u l IH]; simpl; [apply Permutation_refl|].
  destruct (N.leb (t_name t) (t_name u)); [apply Permutation_refl|].
  etransitivity; [apply perm_skip; exact IH|apply perm_swap]. Qed.

Lemma key_sort_perm md : Permutation (key_sort md) md.
Proof. unfold key_sort. induction md as [|t l IH]; simpl; [constructor|].
  etransitivity; [apply insert_table_perm|]. constructor. exact IH. Qed.

Lemma ks_in md t : In t (key_sort md) <-> In t md.
Proof. split; apply Permutation_in; [|apply Permutation_sym]; apply key_sort_perm. Qed.

Lemma ks_names md : Permutation (names (key_sort md)) (names md).
Proof. unfold names. apply Permutation_map. apply key_sort_perm. Qed.

Lemma ks_fixed md e : In e (fixed (key_sort md)) <-> In e (fixed md).
Proof. rewrite !In_fixed. split; intros [t [Ht H]]; exists t; (split; [|exact H]).
  - apply (proj1 (ks_in md t)). exact Ht.
  - apply (proj2 (ks_in md t)). exact Ht. Qed.

Lemma ks_mutable0 md e : In e (mutable0 none_filter (key_sort md)) <-> In e (mutable0 none_filter md).
Proof. rewrite !In_mutable0. split; intros [t [f [Ht H]]]; exists t, f; (split; [|exact H]).
  - apply (proj1 (ks_in md t)). exact Ht.
  - apply (proj2 (ks_in md t)). exact Ht. Qed.

Lemma ks_deps md e : In e (E0 none_filter (key_sort md)) <-> In e (deps md).
Proof. unfold E0, deps. rewrite !in_app_iff, ks_fixed, ks_mutable0. tauto. Qed.

Lemma dep_fk_none t f : dep_fk none_filter t f = negb (fk_alter f) && negb (N.eqb (fk_ref f) (t_name t)).
Proof. unfold dep_fk, pre_deferred, none_filter. simpl. rewrite orb_false_r. reflexivity. Qed.

Theorem sorted_tables_spec md o w : wf md -> sorted_tables md = Ok (o, w) ->
  Permutation o (names md) /\
  (forall t f, In t md -> In f (t_fks t) -> fk_alter f = false -> fk_ref f <> t_name t ->
     ~ on_cycle (deps md) (t_name t) -> before o (fk_ref f) (t_name t)) /\
  (forall t p, In t md -> In p (t_extra t) -> In p (names md) -> before o p (t_name t)) /\
  (w = false <-> ~ exists c, cycle (deps md) c /\ incl c (names md)) /\
  (w = false -> forall t f, In t md -> In f (t_fks t) -> fk_alter f = false -> fk_ref f <> t_name t ->
     before o (fk_ref f) (t_name t)).
Proof.
  intros Hwf. unfold sorted_tables.
  destruct (sort_tables_and_constraints none_filter (key_sort md)) as [[[o' cyc] w']| |] eqn:Hs; try discriminate.
  intros H; inversion H; subst o' w'. clear H.
  destruct (stc_ok _ _ _ _ _ Hs) as [Hsort [Hsound [Hw0 Hw1]]].
  assert (Hperm : Permutation o (names md)).
  { etransitivity; [exact (sort_perm _ _ _ Hsort)|apply ks_names]. }
  assert (Hnm : forall n, In n (names md) -> In n (names (key_sort md))).
  { intros n. apply Permutation_in. apply Permutation_sym, ks_names. }
  assert (Hdep : forall t f, In t md -> In f (t_fks t) -> fk_alter f = false -> fk_ref f <> t_name t ->
     hit none_filter (key_sort md) cyc t = false -> before o (fk_ref f) (t_name t)).
  { intros t f Ht Hf Ha Hne Hh. apply (sort_order _ _ _ Hsort).
    - apply in_or_app. right. apply In_mutable1. exists t, f. split; [apply ks_in; exact Ht|]. split; [exact Hf|].
      split; [|split; [|reflexivity]].
      + rewrite dep_fk_none, Ha. simpl. apply negb_true_iff, N.eqb_neq. exact Hne.
      + unfold discarded. rewrite Hh. reflexivity.
    - apply Hnm. destruct Hwf as [_ [Hr _]]. eapply Hr; eassumption.
    - apply Hnm. unfold names. apply in_map. exact Ht. }
  split; [exact Hperm|]. split; [|split; [|split]].
  - intros t f Ht Hf Ha Hne Hnc. apply Hdep; try assumption.
    destruct (hit none_filter (key_sort md) cyc t) eqn:Hh; [|reflexivity]. exfalso. apply Hnc.
    apply hit_in_cyc in Hh. apply Hsound in Hh. unfold on_cycle in *.
    eapply reach_ext; [|exact Hh]. intros e. apply ks_deps.
  - intros t p Ht Hp Hpn. apply (sort_order _ _ _ Hsort).
    + apply in_or_app. left. apply ks_fixed. apply In_fixed. exists t. simpl. auto.
    + apply Hnm. exact Hpn.
    + apply Hnm. unfold names. apply in_map. exact Ht.
  - split.
    + intros Hw [c [Hc Hi]]. destruct (Hw0 Hw) as [_ Hok].
      assert (X : sort (E0 none_filter (key_sort md)) (names (key_sort md)) = Circular).
      { apply sort_circular_iff. exists c. split.
        - eapply cycle_incl; [exact Hc|]. intros e. apply ks_deps.
        - intros x Hx. apply Hnm, Hi, Hx. }
      congruence.
    + intros Hn. destruct w; [|reflexivity]. exfalso. apply Hn. destruct (Hw1 eq_refl) as [Hc _].
      apply sort_circular_iff in Hc. destruct Hc as [c [Hc Hi]]. exists c. split.
      * eapply cycle_incl; [exact Hc|]. intros e. apply ks_deps.
      * intros x Hx. apply (Permutation_in _ (ks_names md)). apply Hi, Hx.
  - intros Hw t f Ht Hf Ha Hne. apply Hdep; try assumption. destruct (Hw0 Hw) as [-> _]. reflexivity. Qed.

Theorem sorted_tables_circular_iff md :
  sorted_tables md = Circular <-> exists c, cycle (fixed md) c /\ incl c (names md).
Proof. unfold sorted_tables. split.
  - destruct (sort_tables_and_constraints none_filter (key_sort md)) as [[[o cyc] w]| |] eqn:Hs; try discriminate.
    intros _. apply stc_none_circular in Hs. destruct Hs as [c [Hc Hi]]. exists c. split.
    + eapply cycle_incl; [exact Hc|]. intros e. apply ks_fixed.
    + intros x Hx. apply (Permutation_in _ (ks_names md)). apply Hi, Hx.
  - intros [c [Hc Hi]].
    assert (X : sort_tables_and_constraints none_filter (key_sort md) = Circular).
    { apply stc_none_circular_iff. exists c. split.
      - eapply cycle_incl; [exact Hc|]. intros e. apply ks_fixed.
      - intros x Hx. apply (Permutation_in _ (Permutation_sym (ks_names md))). apply Hi, Hx. }
    rewrite X. reflexivity. Qed.

Theorem sorted_tables_total md : sorted_tables md <> OutOfFuel.
Proof. unfold sorted_tables.
  destruct (sort_tables_and_constraints none_filter (key_sort md)) as [[[o cyc] w]| |] eqn:Hs; try discriminate.
  exfalso. exact (stc_never_fuel _ _ Hs). Qed.

(* ---------------------------------------------------------------- create_all then drop_all *)
Lemma cat_equiv_consistent md d : wf md -> cat_equiv d md ->
  consistent d md /\ forall t, In t md -> has_table (t_name t) d = true.
Proof. intros Hwf [Hp Hf].
  assert (Hall : forall n, In n (names md) -> has_table n d = true).
  { intros n Hn. apply has_table_In. apply (Permutation_in _ (Permutation_sym Hp)). exact Hn. }
  split; [|intros t Ht; apply Hall; unfold names; apply in_map; exact Ht].
  split; [eapply Permutation_NoDup; [apply Permutation_sym; exact Hp|apply Hwf]|].
  split; [intros n Hn; apply (Permutation_in _ Hp); exact Hn|].
  intros t Ht _. split; [apply Hf; exact Ht|]. intros f Hff. apply Hall. destruct Hwf as [_ [Hr _]]. eapply Hr; eassumption. Qed.

Lemma consistent_nil md : consistent [] md.
Proof. split; [constructor|]. split; [intros n []|]. intros t _ H. discriminate. Qed.

Lemma drop_plan_nocheck ex ex' md : drop_plan ex false md = drop_plan ex' false md.
Proof. reflexivity. Qed.

Theorem create_then_drop md : wf md -> alter_named md -> siblings_agree md ->
  ~ (exists w, cycle (fixed md ++ unnamed_deps md) w /\ incl w (names md)) ->
  exists c d, create_script (create_plan [] false md) = Some c /\
              drop_script (drop_plan (names md) false md) = Some d /\
              exec [] (c ++ d) = Some [].
Proof.
  intros Hwf Hg1 Hg2 Hcyc.
  assert (Hfix : ~ (exists w, cycle (fixed md) w /\ incl w (names md))).
  { intros [w [Hw Hi]]. apply Hcyc. exists w. split; [|exact Hi]. eapply cycle_incl; [exact Hw|].
    intros e He. apply in_or_app. left. exact He. }
  destruct (create_all_succeeds_main md [] false Hwf (consistent_nil md) (fun _ => eq_refl) Hfix) as [o [u [Hc Hex]]].
  destruct (Hex u (Permutation_refl _)) as [d1 [He1 Heq]].
  destruct (cat_equiv_consistent md d1 Hwf Heq) as [Hcons Hall].
  destruct (drop_all_succeeds_main md d1 false Hwf Hcons (fun _ => Hall) Hg1 Hg2 Hcyc) as [o2 [u2 [Hd Hex2]]].
  simpl in Hc. exists (o ++ u), (u2 ++ o2). split; [rewrite Hc; reflexivity|]. split.
  - rewrite (drop_plan_nocheck _ (map fst d1)). rewrite Hd. reflexivity.
  - rewrite exec_app, He1. apply Hex2. apply Permutation_refl. Qed.

(* ---------------------------------------------------------------- witnesses *)
(* t0 has a named and an unnamed constraint to t1, t1 a named one to t0 *)
Definition md_sibling : metadata :=
  [ mktable 0 [mkfk 0 1 false true; mkfk 1 1 false false] [];
    mktable 1 [mkfk 0 0 false true] [] ].

Lemma no_cycle_by_sort ts items : sort ts items <> Circular -> ~ exists w, cycle ts w /\ incl w items.
Proof. intros H Hc. apply H. apply sort_circular_iff. exact Hc. Qed.

Lemma md_sibling_wf : wf md_sibling.
Proof. unfold wf, md_sibling. split; [|split].
  - simpl. repeat constructor; simpl; intuition discriminate.
  - intros t f [<-|[<-|[]]]; simpl; intuition (subst; simpl; auto).
  - intros t [<-|[<-|[]]]; simpl; repeat constructor; simpl; intuition discriminate. Qed.

Theorem drop_all_unguarded_refuted :
  exists md s, wf md /\ alter_named md /\
    ~ (exists w, cycle (fixed md ++ unnamed_deps md) w /\ incl w (names md)) /\
    drop_script (drop_plan (names md) false md) = Some s /\
    exec (catalog_of md) s = None /\
    (* although the same ALTERs followed by the other DROP order are accepted *)
    exists s', Permutation s' s /\ exec (catalog_of md) s' = Some [].
Proof.
  exists md_sibling. eexists. split; [exact md_sibling_wf|]. split; [|split; [|split; [|split]]].
  - unfold alter_named, md_sibling. intros t f Ht Hf Ha. simpl in Ht.
    destruct Ht as [<-|[<-|[]]]; simpl in Hf; intuition (subst; simpl in *; congruence).
  - apply no_cycle_by_sort. vm_compute. discriminate.
  - vm_compute. reflexivity.
  - vm_compute. reflexivity.
  - exists [DropFK 0 (mkfk 0 1 false true); DropFK 1 (mkfk 0 0 false true); DropT 0; DropT 1].
    split; [|vm_compute; reflexivity]. apply perm_skip. apply perm_skip. apply perm_swap. Qed.

(* t1 <-> t2 is a cycle; t1 also refers to t3, which is on no cycle: that dependency is ignored *)
Definition md_feeder : metadata :=
  [ mktable 1 [mkfk 0 2 false false; mkfk 1 3 false false] [];
    mktable 2 [mkfk 0 1 false false] [];
    mktable 3 [] [] ].

Theorem sorted_tables_edge_reading_refuted :
  exists md t f o, wf md /\ In t md /\ In f (t_fks t) /\ fk_alter f = false /\ fk_ref f <> t_name t /\
    ~ on_cycle (deps md) (fk_ref f) /\
    sorted_tables md = Ok (o, true) /\ ~ before o (fk_ref f) (t_name t).
Proof.
  exists md_feeder, (mktable 1 [mkfk 0 2 false false; mkfk 1 3 false false] []), (mkfk 1 3 false false), [1;2;3]%N.
  split; [|split; [|split; [|split; [|split; [|split; [|split]]]]]].
  - unfold wf, md_feeder. split; [|split].
    + simpl. repeat constructor; simpl; intuition discriminate.
    + intros t f [<-|[<-|[<-|[]]]]; simpl; intuition (subst; simpl; auto).
    + intros t [<-|[<-|[<-|[]]]]; simpl; repeat constructor; simpl; intuition discriminate.
  - left. reflexivity.
  - right. left. reflexivity.
  - reflexivity.
  - simpl. discriminate.
  - destruct (cycles_of_exact (deps md_feeder)) as [out [Ho Hx]]. intros Hc. apply Hx in Hc.
    vm_compute in Ho. inversion Ho; subst out. simpl in Hc. intuition discriminate.
  - vm_compute. reflexivity.
  - intros Hb. apply (before_prefix [1;2;3]%N 3%N 1%N [] [2;3]%N) in Hb; [exact Hb| |reflexivity].
    repeat constructor; simpl; intuition discriminate. Qed.
