(* C20 - lemmas about the splitting primitives (span, rsplit, split_on, join) *)
From Coq Require Import List NArith Bool Lia.
Import ListNotations.
From SAV.sql Require Import UrlCodec.
Open Scope N_scope.

Definition stops (p : N -> bool) (b : str) : Prop :=
  match b with [] => True | x :: _ => p x = false end.

Lemma span_eq : forall p l a b, span p l = (a, b) -> l = a ++ b.
Proof.
  induction l as [|x r IH]; intros a b H; cbn [span] in H.
  - inversion H; reflexivity.
  - destruct (p x).
    + destruct (span p r) as [a' b'] eqn:E. inversion H; subst. cbn. f_equal. apply IH; reflexivity.
    + inversion H; reflexivity.
Qed.

Lemma span_all : forall p l a b, span p l = (a, b) -> forallb p a = true.
Proof.
  induction l as [|x r IH]; intros a b H; cbn [span] in H.
  - inversion H; reflexivity.
  - destruct (p x) eqn:Px.
    + destruct (span p r) as [a' b'] eqn:E. inversion H; subst. cbn. rewrite Px. cbn. eapply IH; reflexivity.
    + inversion H; reflexivity.
Qed.

Lemma span_stop : forall p l a b, span p l = (a, b) -> stops p b.
Proof.
  induction l as [|x r IH]; intros a b H; cbn [span] in H.
  - inversion H; exact I.
  - destruct (p x) eqn:Px.
    + destruct (span p r) as [a' b'] eqn:E. inversion H; subst. eapply IH; reflexivity.
    + inversion H; subst. exact Px.
Qed.

Lemma span_app : forall p a b, forallb p a = true ->
  span p (a ++ b) = (a ++ fst (span p b), snd (span p b)).
Proof.
  induction a as [|x a IH]; intros b H; cbn [app].
  - destruct (span p b); reflexivity.
  - cbn in H. apply andb_true_iff in H as [Hx Ha]. cbn [span]. rewrite Hx, (IH b Ha). reflexivity.
Qed.

Lemma span_stops_nil : forall p b, stops p b -> span p b = ([], b).
Proof. intros p [|x b] H; cbn in *; [reflexivity | rewrite H; reflexivity]. Qed.

Lemma span_here : forall p a b, forallb p a = true -> stops p b -> span p (a ++ b) = (a, b).
Proof.
  intros p a b Ha Hb. rewrite (span_app p a b Ha), (span_stops_nil p b Hb). cbn. rewrite app_nil_r. reflexivity.
Qed.

Lemma span_all_id : forall p a, forallb p a = true -> span p a = (a, []).
Proof. intros p a H. rewrite <- (app_nil_r a) at 1. apply span_here; [exact H | exact I]. Qed.

Lemma forallb_impl : forall (p q : N -> bool) l,
  (forall x, p x = true -> q x = true) -> forallb p l = true -> forallb q l = true.
Proof.
  induction l as [|x l IH]; intros Hpq H; [reflexivity|]. cbn in *.
  apply andb_true_iff in H as [Hx Hl]. rewrite (Hpq x Hx), (IH Hpq Hl). reflexivity.
Qed.

(* ---------- rsplit ---------- *)
Lemma rsplit_none : forall c l, forallb (nb c) l = true -> rsplit c l = None.
Proof.
  induction l as [|x l IH]; intros H; [reflexivity|]. cbn in H. apply andb_true_iff in H as [Hx Hl].
  cbn [rsplit]. rewrite (IH Hl). unfold nb in Hx. apply negb_true_iff in Hx. rewrite Hx. reflexivity.
Qed.

Lemma rsplit_app : forall c a b, forallb (nb c) b = true -> rsplit c (a ++ c :: b) = Some (a, b).
Proof.
  induction a as [|x a IH]; intros b H; cbn [app rsplit].
  - rewrite (rsplit_none c b H), N.eqb_refl. reflexivity.
  - rewrite (IH b H). reflexivity.
Qed.

Lemma rsplit_spec : forall c l a b, rsplit c l = Some (a, b) ->
  l = a ++ c :: b /\ forallb (nb c) b = true.
Proof.
  induction l as [|x l IH]; intros a b H; cbn [rsplit] in H; [discriminate|].
  destruct (rsplit c l) as [[a' b']|] eqn:E.
  - inversion H; subst. destruct (IH a' b eq_refl) as [-> Hb]. split; [reflexivity | exact Hb].
  - destruct (N.eqb_spec x c) as [->|Hne]; [|discriminate]. inversion H; subst. split; [reflexivity|].
    clear H IH. revert E. induction b as [|y b IHb]; [reflexivity|]. cbn [rsplit].
    destruct (rsplit c b) as [[? ?]|]; [discriminate|]. destruct (N.eqb_spec y c); [discriminate|].
    intros _. cbn. unfold nb at 1. destruct (N.eqb_spec y c); [contradiction|]. cbn. apply IHb. reflexivity.
Qed.

(* ---------- split_on / join ---------- *)
Lemma split_on_nonnil : forall c l, split_on c l <> [].
Proof.
  induction l as [|x l IH]; cbn [split_on]; [discriminate|].
  destruct (x =? c); [discriminate|]. destruct (split_on c l); [contradiction | discriminate].
Qed.

Lemma split_on_nosep : forall c a, forallb (nb c) a = true -> split_on c a = [a].
Proof.
  induction a as [|x a IH]; intros H; [reflexivity|]. cbn in H. apply andb_true_iff in H as [Hx Ha].
  cbn [split_on]. unfold nb in Hx. apply negb_true_iff in Hx. rewrite Hx, (IH Ha). reflexivity.
Qed.

Lemma split_on_app : forall c a b, forallb (nb c) a = true ->
  split_on c (a ++ c :: b) = a :: split_on c b.
Proof.
  induction a as [|x a IH]; intros b H; cbn [app split_on].
  - rewrite N.eqb_refl. reflexivity.
  - cbn in H. apply andb_true_iff in H as [Hx Ha]. unfold nb in Hx. apply negb_true_iff in Hx.
    rewrite Hx, (IH b Ha). reflexivity.
Qed.

Lemma split_on_join : forall c ps, ps <> [] ->
  Forall (fun p => forallb (nb c) p = true) ps -> split_on c (join c ps) = ps.
Proof.
  induction ps as [|p ps IH]; intros Hne HF; [contradiction|].
  inversion HF as [|? ? Hp Hps]; subst. destruct ps as [|p2 ps].
  - cbn [join]. apply split_on_nosep; exact Hp.
  - change (join c (p :: p2 :: ps)) with (p ++ c :: join c (p2 :: ps)).
    rewrite (split_on_app c p _ Hp), IH; [reflexivity | discriminate | exact Hps].
Qed.

(* a joined string of non-empty pieces is non-empty *)
Lemma join_nonnil : forall c p ps, p <> [] -> join c (p :: ps) <> [].
Proof. intros c p [|q ps] Hp; cbn [join]; [exact Hp|]. destruct p; [contradiction | discriminate]. Qed.

Lemma forallb_app_N : forall (p : N -> bool) a b, forallb p (a ++ b) = forallb p a && forallb p b.
Proof. intros. apply forallb_app. Qed.

Lemma forallb_join : forall (p : N -> bool) c ps,
  p c = true -> Forall (fun x => forallb p x = true) ps -> forallb p (join c ps) = true.
Proof.
  induction ps as [|x ps IH]; intros Hc HF; [reflexivity|].
  inversion HF as [|? ? Hx Hps]; subst. destruct ps as [|y ps]; [exact Hx|].
  change (join c (x :: y :: ps)) with (x ++ c :: join c (y :: ps)).
  rewrite forallb_app. cbn [forallb]. rewrite Hx, Hc, (IH Hc Hps). reflexivity.
Qed.

(* ---------- str_eqb ---------- *)
Lemma str_eqb_spec : forall a b, reflect (a = b) (str_eqb a b).
Proof.
  induction a as [|x a IH]; destruct b as [|y b]; cbn [str_eqb]; try (constructor; congruence).
  destruct (N.eqb_spec x y) as [->|Hne]; cbn.
  - destruct (IH b) as [->|Hne]; constructor; congruence.
  - constructor; congruence.
Qed.
Lemma str_eqb_refl : forall a, str_eqb a a = true.
Proof. intros a. destruct (str_eqb_spec a a); [reflexivity | congruence]. Qed.
