(* SQL scalar values and three-valued (Kleene) logic; shared by C07 (IN lists) and C43 (ORM evaluator).
   Definitions only; lemmas are in Val3Proofs.v. *)
From Coq Require Import List ZArith NArith Bool.
Import ListNotations.

(* exact integers, text as a list of code points; NULL *)
Inductive sv := SNull | SInt (z : Z) | SText (s : list N).

(* truth values: TRUE / FALSE / UNKNOWN (a NULL in boolean position) *)
Inductive tv := TT | TF | TU.

Definition and3 (a b : tv) : tv :=
  match a, b with TF, _ | _, TF => TF | TT, TT => TT | _, _ => TU end.
Definition or3 (a b : tv) : tv :=
  match a, b with TT, _ | _, TT => TT | TF, TF => TF | _, _ => TU end.
Definition not3 (a : tv) : tv := match a with TT => TF | TF => TT | TU => TU end.
Definition tv_of_bool (b : bool) : tv := if b then TT else TF.
Definition is_true (t : tv) : bool := match t with TT => true | _ => false end.
Definition is_unknown (t : tv) : bool := match t with TU => true | _ => false end.
Definition tv_eqb (a b : tv) : bool :=
  match a, b with TT, TT | TF, TF | TU, TU => true | _, _ => false end.

Definition and3_list (l : list tv) : tv := fold_right and3 TT l.
Definition or3_list (l : list tv) : tv := fold_right or3 TF l.

Fixpoint text_eqb (a b : list N) : bool :=
  match a, b with
  | [], [] => true
  | x :: a', y :: b' => N.eqb x y && text_eqb a' b'
  | _, _ => false
  end.

Definition sv_eqb (a b : sv) : bool :=
  match a, b with
  | SNull, SNull => true
  | SInt x, SInt y => Z.eqb x y
  | SText x, SText y => text_eqb x y
  | _, _ => false
  end.

(* SQL "=" : UNKNOWN as soon as one side is NULL; values of different storage classes are unequal *)
Definition eq3 (a b : sv) : tv :=
  match a, b with
  | SNull, _ | _, SNull => TU
  | SInt x, SInt y => tv_of_bool (Z.eqb x y)
  | SText x, SText y => tv_of_bool (text_eqb x y)
  | _, _ => TF
  end.

(* row-value equality  (a1,..,ak) = (b1,..,bk)  is  a1 = b1 AND .. AND ak = bk ; a scalar is a row of
   arity 1.  (Arity agreement is checked by the callers; the zip truncates.) *)
Fixpoint row_eq3 (a b : list sv) : tv :=
  match a, b with
  | x :: a', y :: b' => and3 (eq3 x y) (row_eq3 a' b')
  | _, _ => TT
  end.

(* the value of a truth value when it is selected as a column (SQLite: 1 / 0 / NULL) *)
Definition sv_of_tv (t : tv) : sv := match t with TT => SInt 1 | TF => SInt 0 | TU => SNull end.
