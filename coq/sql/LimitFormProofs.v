(* C18 - every rendered form, read by the database, is the requested slice *)
From Coq Require Import List ZArith Bool Lia Permutation Sorted.
Import ListNotations.
From SAV.sql Require Import Limit LimitListProofs.
Open Scope Z_scope.

Lemma slice_some : forall A off lim (rows : list A),
  slice off (Some lim) rows = takeZ lim (dropZ off rows).
Proof. intros. unfold slice. now rewrite takeZ_firstn, dropZ_skipn. Qed.
Lemma slice_none : forall A off (rows : list A), slice off None rows = dropZ off rows.
Proof. intros. unfold slice. now rewrite dropZ_skipn. Qed.
Lemma slice_opt : forall A off lim (rows : list A),
  slice off lim rows = match lim with Some l => takeZ l (dropZ off rows) | None => dropZ off rows end.
Proof. intros. destruct lim; [apply slice_some|apply slice_none]. Qed.

(* ceil semantics of PERCENT *)
Lemma pct_count_ceil : forall p total, 0 <= p -> 0 <= total ->
  p * total <= 100 * pct_count p total < p * total + 100.
Proof. intros. unfold pct_count. Z.div_mod_to_equations. lia. Qed.

(* ---------------------------------------------------------------------------------------------- *)
Section Ties.
Variable A : Type.
Variable lek : A -> A -> bool.               (* the ORDER BY, as a total preorder on rows *)
Variable eqk : A -> A -> bool.
Hypothesis lek_trans : forall a b c, lek a b = true -> lek b c = true -> lek a c = true.
Hypothesis eqk_def : forall a b, eqk a b = lek a b && lek b a.
Let R (a b : A) : Prop := lek a b = true.

Lemma SSorted_app : forall (a b : list A), StronglySorted R (a ++ b) ->
  StronglySorted R b /\ forall x y, In x a -> In y b -> R x y.
Proof.
  induction a as [|h a IH]; intros b H; cbn [app] in H.
  - split; [exact H|intros x y []].
  - apply StronglySorted_inv in H. destruct H as [H1 H2]. apply IH in H1. destruct H1 as [H1 H3].
    split; [exact H1|]. intros x y [<-|Hx] Hy.
    + rewrite Forall_forall in H2. apply H2. apply in_or_app. now right.
    + now apply H3.
Qed.

Lemma SSorted_filter : forall (f : A -> bool) (l : list A),
  StronglySorted R l -> StronglySorted R (filter f l).
Proof.
  induction l as [|x r IH]; intros H; [constructor|]. apply StronglySorted_inv in H.
  destruct H as [H1 H2]. cbn [filter]. destruct (f x); [|now apply IH].
  constructor; [now apply IH|]. rewrite Forall_forall in *. intros y Hy.
  apply filter_In in Hy. now apply H2.
Qed.

Lemma dedup_incl : forall (eqA : A -> A -> bool) l x, In x (dedup eqA l) -> In x l.
Proof.
  induction l as [|y r IH]; intros x H; [exact H|]. cbn [dedup] in H. destruct H as [<-|H]; [now left|].
  right. apply filter_In in H. now apply IH.
Qed.

Lemma SSorted_dedup : forall (eqA : A -> A -> bool) (l : list A),
  StronglySorted R l -> StronglySorted R (dedup eqA l).
Proof.
  induction l as [|x r IH]; intros H; [constructor|]. apply StronglySorted_inv in H.
  destruct H as [H1 H2]. cbn [dedup]. constructor; [apply SSorted_filter; now apply IH|].
  rewrite Forall_forall in *. intros y Hy. apply filter_In in Hy. apply H2.
  eapply dedup_incl. exact (proj1 Hy).
Qed.

Lemma SSorted_dropZ : forall (l : list A) n, StronglySorted R l -> StronglySorted R (dropZ n l).
Proof.
  intros l n H. rewrite <- (takeZ_dropZ A l n) in H. now apply SSorted_app in H.
Qed.

(* below the pivot's tie group nothing matches any more *)
Lemma filter_take_while_sorted : forall (pivot : A) (t : list A),
  StronglySorted R t -> (forall y, In y t -> R pivot y) ->
  filter (eqk pivot) t = take_while (eqk pivot) t.
Proof.
  induction t as [|x t IH]; intros Hs Hp; [reflexivity|].
  apply StronglySorted_inv in Hs. destruct Hs as [Hs Hx]. cbn [filter take_while].
  destruct (eqk pivot x) eqn:E.
  - f_equal. apply IH; [exact Hs|]. intros y Hy. apply Hp. now right.
  - rewrite Forall_forall in Hx.
    assert (G : forall y, In y t -> eqk pivot y = false).
    { intros y Hy. destruct (eqk pivot y) eqn:E2; [|reflexivity].
      rewrite eqk_def in E2. apply andb_prop in E2. destruct E2 as [_ E2].
      assert (lek x pivot = true) by (eapply lek_trans; [apply Hx; exact Hy|exact E2]).
      rewrite eqk_def in E. rewrite (Hp x (or_introl eq_refl)), H in E. discriminate. }
    clear -G. induction t as [|y t IH]; [reflexivity|]. cbn [filter].
    rewrite (G y (or_introl eq_refl)). apply IH. intros z Hz. apply G. now right.
Qed.

Lemma number_app : forall (a b : list A) k,
  number k (a ++ b) = number k a ++ number (k + Z.of_nat (length a)) b.
Proof.
  induction a as [|x a IH]; intros b k; cbn [app number length].
  - now rewrite Z.add_0_r.
  - f_equal. rewrite IH. f_equal. f_equal. lia.
Qed.

Lemma number_snd_lt : forall (l : list A) k xr, In xr (number k l) -> snd xr < k + Z.of_nat (length l).
Proof.
  induction l as [|x r IH]; intros k xr H; cbn [number] in H; [destruct H|].
  cbn [length]. destruct H as [<-|H]; [cbn; lia|]. apply IH in H. lia.
Qed.

Lemma filter_number_fst : forall (f : A -> bool) (l : list A) k,
  map fst (filter (fun xi : A * Z => f (fst xi)) (number k l)) = filter f l.
Proof.
  induction l as [|x r IH]; intros k; [reflexivity|]. cbn [number filter fst].
  destruct (f x); cbn [map fst]; now rewrite IH.
Qed.

Lemma last_opt_In : forall (l : list A) x, last_opt l = Some x -> In x l.
Proof.
  intros [|y r] x H; [discriminate|]. cbn [last_opt] in H. injection H as <-.
  revert y. induction r as [|z r IH]; intros y; [now left|].
  destruct r as [|w r']; [right; now left|].
  change (last (z :: w :: r') y) with (last (w :: r') y).
  destruct (IH y) as [H|H]; [left; exact H|right; right; exact H].
Qed.

Lemma dropZ_all : forall (l : list A) n, Z.of_nat (length l) <= n -> dropZ n l = [].
Proof.
  induction l as [|x r IH]; intros n H; [reflexivity|]. cbn [length] in H. cbn [dropZ].
  destruct (n <=? 0) eqn:E; [lia|]. apply IH. lia.
Qed.

(* the database's WITH TIES (prefix, then the run of rows tied with its last row) is the declarative
   one (positions < n, plus every row with the key of the n-th) on a result sorted by the ORDER BY *)
Lemma ties_ext_spec : forall n (r : list A), StronglySorted R r ->
  ties_ext A eqk n r = with_ties_spec eqk n r.
Proof.
  intros n r Hs. unfold ties_ext, with_ties_spec. rewrite <- takeZ_firstn.
  destruct (last_opt (takeZ n r)) as [pivot|] eqn:EL; [|reflexivity].
  assert (Hpin := last_opt_In _ _ EL).
  assert (Hn : 0 < n).
  { destruct (Z_lt_le_dec 0 n); [assumption|]. rewrite takeZ_nonpos in Hpin by assumption. destruct Hpin. }
  unfold index. rewrite <- (takeZ_dropZ A r n) at 3.
  rewrite number_app, filter_app, map_app. f_equal.
  - symmetry. rewrite filter_all; [apply map_fst_number|]. intros xi Hin. apply number_snd_lt in Hin.
    rewrite takeZ_length in Hin by lia. apply orb_true_iff. left. lia.
  - symmetry. rewrite Z.add_0_l.
    destruct (Z_lt_le_dec n (Z.of_nat (length r))) as [Hlt|Hge].
    + rewrite takeZ_length by lia. replace (Z.min n (Z.of_nat (length r))) with n by lia.
      rewrite <- (takeZ_dropZ A r n) in Hs. apply SSorted_app in Hs. destruct Hs as [Hs Hcross].
      rewrite <- (filter_take_while_sorted pivot _ Hs) by (intros y Hy; now apply Hcross).
      rewrite <- (filter_number_fst (eqk pivot) (dropZ n r) n). f_equal. apply filter_ext_in.
      intros xi Hin. apply number_snd_ge in Hin. replace (snd xi <? n) with false by lia. reflexivity.
    + rewrite dropZ_all by assumption. reflexivity.
Qed.
End Ties.

(* ---------------------------------------------------------------------------------------------- *)
Section Forms.
Variable A : Type.
Variable eqA : A -> A -> bool.
Variable eqk : A -> A -> bool.
Variable reorder : list A -> list A.

Notation exec := (exec A eqA eqk reorder).
Notation result := (result A eqA).

(* MSSQL: SELECT TOP n *)
Lemma top_eq_slice : forall n distinct pre,
  exec (PTop n false false) distinct pre = slice 0 (Some n) (result distinct pre).
Proof. intros. cbn [exec fetch_sem opt0]. rewrite slice_some. reflexivity. Qed.

(* OFFSET o ROWS FETCH FIRST f ROWS ONLY, with either part optional *)
Lemma offset_fetch_eq_slice : forall o f distinct pre,
  exec (PFetch o f false false) distinct pre = slice (opt0 o) f (result distinct pre).
Proof. intros. cbn [exec fetch_sem]. rewrite slice_opt. destruct f; reflexivity. Qed.

(* LIMIT l [OFFSET o] *)
Lemma limit_eq_slice : forall l o distinct pre, 0 <= l ->
  exec (PLimit l o) distinct pre = slice (opt0 o) (Some l) (result distinct pre).
Proof.
  intros. cbn [exec]. unfold limit_sem. replace (l <? 0) with false by lia. now rewrite slice_some.
Qed.

(* SQLite / generic: LIMIT -1 OFFSET o  (any negative LIMIT) *)
Lemma limit_negative_eq_slice : forall l o distinct pre, l < 0 ->
  exec (PLimit l o) distinct pre = slice (opt0 o) None (result distinct pre).
Proof.
  intros. cbn [exec]. unfold limit_sem. replace (l <? 0) with true by lia. now rewrite slice_none.
Qed.

(* PostgreSQL: LIMIT ALL OFFSET o *)
Lemma limit_all_eq_slice : forall o distinct pre,
  exec (PLimitAll o) distinct pre = slice o None (result distinct pre).
Proof. intros. cbn [exec]. now rewrite slice_none. Qed.

(* MySQL: LIMIT [o,] l *)
Lemma mysql_eq_slice : forall o l distinct pre,
  exec (PMySQL o l) distinct pre = slice (opt0 o) (Some l) (result distinct pre).
Proof. intros. cbn [exec]. now rewrite slice_some. Qed.

(* MySQL: LIMIT o, 18446744073709551615 is "no limit" exactly as long as the rows left fit in 2^64-1 *)
Lemma mysql_no_limit_iff : forall o distinct pre, 0 <= o ->
  exec (PMySQL (Some o) mysql_no_limit) distinct pre = slice o None (result distinct pre)
  <-> Z.of_nat (length (result distinct pre)) - o <= mysql_no_limit.
Proof.
  intros o distinct pre Ho. cbn [exec opt0]. rewrite slice_none, takeZ_all_iff.
  rewrite dropZ_length by assumption. split.
  - intros [H|H]; [lia|]. apply (f_equal (@length A)) in H.
    assert (E := dropZ_length A (result distinct pre) o Ho). rewrite H in E. cbn [length] in E.
    unfold mysql_no_limit. lia.
  - intros H. left. unfold mysql_no_limit in *. lia.
Qed.

(* FETCH / TOP with PERCENT and / or WITH TIES *)
Section WithTies.
Variable lek : A -> A -> bool.
Hypothesis lek_trans : forall a b c, lek a b = true -> lek b c = true -> lek a c = true.
Hypothesis eqk_def : forall a b, eqk a b = lek a b && lek b a.

Lemma sorted_result : forall distinct pre,
  StronglySorted (fun a b => lek a b = true) pre ->
  StronglySorted (fun a b => lek a b = true) (result distinct pre).
Proof. intros [] pre H; cbn [Limit.result]; [now apply SSorted_dedup|exact H]. Qed.

Lemma fetch_sem_spec : forall o n percent ties rows,
  (ties = true -> StronglySorted (fun a b => lek a b = true) rows) ->
  fetch_sem A eqk o (Some n) percent ties rows = fetch_spec A eqk (opt0 o) n percent ties rows.
Proof.
  intros o n percent ties rows Hs. unfold fetch_sem, fetch_spec.
  destruct ties.
  - rewrite slice_none. apply (ties_ext_spec A lek eqk lek_trans eqk_def).
    apply SSorted_dropZ. now apply Hs.
  - now rewrite slice_some.
Qed.
End WithTies.

(* ---- MSSQL ROW_NUMBER() wrapper ---- *)
Lemma preds_hold_mssql : forall lim off rn,
  preds_hold lim off (preds_on MssqlRn (mssql_tr (is_some lim) (is_some off))) rn =
  match off, lim with
  | Some o, Some l => (o <? rn) && (rn <=? l + o)
  | Some o, None => o <? rn
  | None, _ => rn <=? opt0 lim
  end.
Proof.
  intros [l|] [o|] rn; cbn; rewrite ?andb_true_r; reflexivity.
Qed.

(* what the wrapper computes: the slice of the rows BEFORE DISTINCT *)
Lemma rownumber_core : forall lim off (pre : list A),
  is_some lim || is_some off = true -> 0 <= opt0 lim -> 0 <= opt0 off ->
  map fst (filter (fun xr : A * Z =>
             preds_hold lim off (preds_on MssqlRn (mssql_tr (is_some lim) (is_some off))) (snd xr))
           (number 1 pre))
  = slice (opt0 off) lim pre.
Proof.
  intros lim off pre Hsome Hl Ho.
  rewrite (filter_ext _ _ (fun xr => preds_hold_mssql lim off (snd xr))).
  rewrite slice_opt. destruct off as [o|], lim as [l|]; cbn [opt0 is_some orb] in *; try discriminate.
  - rewrite (filter_and _ (fun xr : A * Z => o <? snd xr) (fun xr => snd xr <=? l + o)).
    rewrite number_filter_gt by lia. rewrite number_filter_le, map_fst_number.
    replace (o + 1 - 1) with o by lia. f_equal. lia.
  - rewrite number_filter_gt by lia. rewrite map_fst_number. f_equal. lia.
  - rewrite number_filter_le, map_fst_number. rewrite dropZ_nonpos by lia. f_equal. lia.
Qed.

Lemma exec_rownumber : forall lim off distinct (pre : list A),
  is_some lim || is_some off = true -> 0 <= opt0 lim -> 0 <= opt0 off ->
  exec (PRowNumber (preds_on MssqlRn (mssql_tr (is_some lim) (is_some off))) lim off) distinct pre
  = reorder (slice (opt0 off) lim pre).
Proof.
  intros. cbn [exec]. f_equal.
  replace (if distinct then dedup (eqP A eqA) (number 1 pre) else number 1 pre) with (number 1 pre)
    by (destruct distinct; [now rewrite dedup_number|reflexivity]).
  now apply rownumber_core.
Qed.

Lemma nodupb_dedup : forall l : list A, nodupb A eqA l = true -> dedup eqA l = l.
Proof.
  induction l as [|x r IH]; intros H; [reflexivity|]. cbn [nodupb] in H. apply andb_prop in H.
  destruct H as [H1 H2]. cbn [dedup]. rewrite IH by assumption. f_equal. apply filter_all.
  intros y Hy. destruct (eqA x y) eqn:E; [|reflexivity].
  assert (existsb (eqA x) r = true) by (apply existsb_exists; eauto).
  rewrite H in H1. discriminate.
Qed.

(* ---- Oracle ROWNUM wrapper(s) ---- *)
Lemma exec_rownum : forall lim off distinct (pre : list A),
  is_some lim || is_some off = true -> 0 <= opt0 lim -> 0 <= opt0 off ->
  exec (PRowNum (preds_on RowNum (oracle_tr (is_some lim) (is_some off)))
                (if is_some off then Some (preds_on OraRn (oracle_tr (is_some lim) (is_some off))) else None)
                lim off) distinct pre
  = reorder (slice (opt0 off) lim (result distinct pre)).
Proof.
  intros lim off distinct pre Hsome Hl Ho. cbn [exec]. generalize (result distinct pre). intros rows.
  rewrite slice_opt.
  destruct off as [o|], lim as [l|]; cbn [opt0 is_some orb] in *; try discriminate; f_equal.
  - (* ROWNUM <= l + o inside, ora_rn > o outside *)
    cbn [oracle_tr preds_on filter map app fst snd rncol_eqb].
    rewrite (rownum_filter_ext _ (preds_hold (Some l) (Some o) [(CLe, AAdd ALim AOff)])
               (fun rn => rn <=? l + o)) by (intros z; cbn; now rewrite andb_true_r).
    rewrite rownum_filter_le.
    rewrite (filter_ext _ (fun xr : A * Z => o <? snd xr)) by (intros xr; cbn; now rewrite andb_true_r).
    rewrite number_filter_gt by lia. rewrite map_fst_number.
    replace (o + 1 - 1) with o by lia. replace (l + o - 1 + 1) with (l + o) by lia.
    now apply take_drop_comm.
  - (* no ROWNUM predicate inside, ora_rn > o outside *)
    cbn [oracle_tr preds_on filter map app fst snd rncol_eqb].
    rewrite (rownum_filter_ext _ (preds_hold None (Some o) []) (fun _ => true)) by reflexivity.
    rewrite rownum_filter_true.
    rewrite (filter_ext _ (fun xr : A * Z => o <? snd xr)) by (intros xr; cbn; now rewrite andb_true_r).
    rewrite number_filter_gt by lia. rewrite map_fst_number. f_equal. lia.
  - (* single wrapper: ROWNUM <= l *)
    cbn [oracle_tr preds_on filter map app fst snd rncol_eqb].
    rewrite (rownum_filter_ext _ (preds_hold (Some l) None [(CLe, ALim)])
               (fun rn => rn <=? l)) by (intros z; cbn; now rewrite andb_true_r).
    rewrite rownum_filter_le, map_fst_number. rewrite dropZ_nonpos by lia. f_equal. lia.
Qed.

End Forms.
