(* executable entry point for the correspondence check of C07 *)
From Coq Require Import List ZArith NArith Bool.
Import ListNotations.
From SAV.base Require Import Tree.
From SAV.sql Require Import Val3 InList.
Open Scope Z_scope.

(* ---- decoding ---- *)
Definition as_sv (t : tree) : option sv :=
  match t with
  | L [I 0] => Some SNull
  | L [I 1; I z] => Some (SInt z)
  | L (I 2 :: cs) => option_map SText (Tree.all_some (map as_N cs))
  | _ => None
  end.
Definition as_value (t : tree) : option value :=
  match t with
  | L [I 0; v] => option_map VScalar (as_sv v)
  | L [I 1; l] => option_map VTuple (as_list_of as_sv l)
  | _ => None
  end.
Definition as_dialect (t : tree) : option dialect :=
  match t with
  | I 0 => Some sqlite_dialect | I 1 => Some default_dialect
  | I 2 => Some pg_dialect | I 3 => Some mysql_dialect
  | _ => None
  end.
Definition as_lhs (t : tree) : option lhs :=
  match t with
  | L [I 0; c] => option_map LCol (as_N c)
  | L [I 1; cs] => option_map LTuple (as_list_of as_N cs)
  | _ => None
  end.
Definition as_op (t : tree) : option inop :=
  match t with I 0 => Some OIn | I 1 => Some ONotIn | _ => None end.
Fixpoint iter_negate (n : nat) (e : inexpr) : inexpr :=
  match n with O => e | S k => negate (iter_negate k e) end.
(* [ctor; op; number of ~]  ctor 0: in_() on a typed operand, 1: in_() on an untyped operand
   (literal_column), 2: text("x [NOT] IN :q") *)
Definition as_expr (l : lhs) (t : tree) : option inexpr :=
  match t with
  | L [I c; o; n] =>
      match as_op o, as_nat n with
      | Some op, Some k =>
          if Z.eqb c 0 then Some (iter_negate k (in_impl l (lhs_kind l) op))
          else if Z.eqb c 1 then Some (iter_negate k (in_impl l KNull op))
          else if Z.eqb c 2 then Some (text_in l op)
          else None
      | _, _ => None
      end
  | _ => None
  end.
Definition as_position (t : tree) : option position :=
  match t with
  | L [I 0] => Some PosBare
  | L [I 1] => Some PosCase
  | L [I 2; I a; I b] => Some (PosAnd a b)
  | L [I 3; I a] => Some (PosOr a)
  | _ => None
  end.
(* rows of the table: [id; x; y] *)
Definition as_row (t : tree) : option (N -> sv) :=
  match as_list_of as_sv t with
  | Some [a; b; c] => Some (fun n => if N.eqb n 0 then a else if N.eqb n 1 then b else c)
  | _ => None
  end.

(* the standard table of the harness: id = 1..9, x in {NULL,1,2} (major), y in {NULL,'a','b'} *)
Definition std_rows : list (N -> sv) :=
  let xs := [SNull; SInt 1; SInt 2] in
  let ys := [SNull; SText [97%N]; SText [98%N]] in
  map (fun ixy : nat * (sv * sv) =>
         fun n : N => if N.eqb n 0 then SInt (Z.of_nat (S (fst ixy))) else if N.eqb n 1 then fst (snd ixy) else snd (snd ixy))
      (combine (seq 0 9) (list_prod xs ys)).
Definition as_rows (t : tree) : option (list (N -> sv)) :=
  match t with
  | I 0 => Some std_rows
  | _ => as_list_of as_row t
  end.

(* ---- encoding ---- *)
Definition of_sv (v : sv) : tree :=
  match v with SNull => L [I 0] | SInt z => L [I 1; I z] | SText s => L (I 2 :: map of_N s) end.
Definition of_tok (t : tok) : tree :=
  match t with
  | TLp => L [I 0] | TRp => L [I 1] | TComma => L [I 2] | TIn => L [I 3] | TNot => L [I 4]
  | TAnd => L [I 5] | TOr => L [I 6] | TNull => L [I 7] | TEq => L [I 8] | TNe => L [I 9]
  | TSelect => L [I 10] | TFrom => L [I 11] | TWhere => L [I 12] | TValues => L [I 13]
  | TNum z => L [I 14; I z] | TStr s => L (I 15 :: map of_N s) | TCol c => L [I 16; of_N c]
  | TQ => L [I 17] | TBind i j => L [I 18; of_N i; of_N j] | TOther n => L [I 19; of_N n]
  | TPost => L [I 20] | TWord w => L [I 21; of_N w] | TVal v => L [I 22; of_sv v]
  end.
Definition of_pname (p : pname) : tree :=
  match p with PParam => L [I 0] | POther n => L [I 1; of_N n] | PExp k => L [I 2; of_N (fst k); of_N (snd k)] end.
Definition of_exn (e : exn) : Z :=
  match e with NotImplementedError => 1 | KeyError => 2 | IndexError => 3 | TypeError => 4 | AttributeError => 5 end.

(* what reaches the DBAPI: positional -> the argument tuple; named -> the parameter dictionary *)
Definition of_args (x : expanded) : tree :=
  match x.(x_positiontup) with
  | Some pos =>
      L (map (fun p => match lookup_param p x.(x_params) with
                       | Some v => L [L [I 9]; of_sv v] | None => L [I (-1)] end) pos)
  | None => L (map (fun kv => L [of_pname (fst kv); of_sv (snd kv)]) x.(x_params))
  end.

(* mode 0: do not execute; 1: value of the predicate as a column (3-valued); 2: row matched or not *)
Definition of_truth (mode : Z) (t : tv) : Z :=
  if Z.eqb mode 1 then match t with TF => 0 | TT => 1 | TU => 2 end
  else match t with TT => 1 | _ => 0 end.
Definition truths (mode : Z) (rows : list (N -> sv)) (ev : (N -> sv) -> eres) : tree :=
  if Z.eqb mode 0 then L [] else
  let rs := map ev rows in
  if existsb (fun r => match r with EFuel => true | _ => false end) rs then L [I 8]
  else if existsb (fun r => match r with EErr => true | _ => false end) rs then L [I 9]
  else L (map (fun r => match r with EOk t => I (of_truth mode t) | _ => I 9 end) rs).

Definition obs_expanded (mode : Z) (rows : list (N -> sv)) (x : expanded) : tree :=
  L [I 0; of_list of_tok x.(x_statement); of_args x; truths mode rows (fun row => exec_sem row x)].
Definition obs_literal (mode : Z) (rows : list (N -> sv)) (ts : list tok) : tree :=
  L [I 0; of_list of_tok ts; L []; truths mode rows (fun row => exec_literal row ts)].

(* input  L [way; dialect; lhs; expr; position; mode; lists; rows]
     way 0: bound, compiled fresh                 (lists = [l])
     way 1: literal_binds                         (lists = [l])
     way 2: one compiled object (engine cache), one execution per list
     way 3: compiled with render_postcompile for the first list (_populate_self), then
            construct_expanded_state for each further list
   output L [one observation per execution]; an exception ends the sequence with L [I code] *)
Definition run_case (t : tree) : tree :=
  match t with
  | L [I way; td; tl; te; tp; I mode; tlists; trows] =>
      match as_dialect td, as_lhs tl, as_position tp,
            as_list_of (as_list_of as_value) tlists, as_rows trows with
      | Some d, Some l, Some p, Some lists, Some rows =>
          match as_expr l te with
          | Some e =>
              if Z.eqb way 1 then
                L (map (fun vals =>
                     match compile_literal_stmt d p e vals with
                     | Ok ts => obs_literal mode rows ts
                     | Raise ex => L [I (of_exn ex)]
                     end) lists)
              else if Z.eqb way 0 || Z.eqb way 2 || Z.eqb way 3 then
                let execs := if Z.eqb way 3
                             then match lists with
                                  | [] => []
                                  | l0 :: r => (l0, true) :: map (fun v => (v, false)) r
                                  end
                             else map (fun v => (v, false)) lists in
                (* observations up to the first exception *)
                L ((fix go (c : compiled) (execs : list (list value * bool)) : list tree :=
                   match execs with
                   | [] => []
                   | (vals, pop) :: r =>
                       match process c (ctx_others p) vals pop with
                       | Ok (x, c') => obs_expanded mode rows x :: go c' r
                       | Raise ex => [L [I (of_exn ex)]]
                       end
                   end) (compile d p e) execs)
              else bad_input
          | None => bad_input
          end
      | _, _, _, _, _ => bad_input
      end
  | _ => bad_input
  end.
