(* C21 - a whole compilation (sequence of name requests, bind parameters included): invariants and
   the statement-level theorems *)
From Coq Require Import List NArith ZArith Bool Lia.
Import ListNotations.
From SAV.sql Require Import Trunc TruncDigits TruncMaxlen TruncLabels.

Local Open Scope Z_scope.

Section Binds.
  Variable benv : N -> bindrec.
  Notation truncate_bindparam := (truncate_bindparam benv).
  Notation visit_bindparam := (visit_bindparam benv).
  Notation step := (step benv).
  Notation run := (run benv).

  Definition bn_find (st : cstate) (oid : N) : option str := assoc N.eqb oid (st_bind_names st).
  Definition b_find (st : cstate) (nm : str) : option N := assoc str_eqb nm (st_binds st).

  Definition names_ok (st : cstate) : Prop :=
    forall oid nm, bn_find st oid = Some nm ->
      match b_key (benv oid) with
      | BPlain s => nm = s
      | BTrunc t => memo_find st cls_bindparam t = Some nm
      end.
  Definition owner_ok (st : cstate) (oid : N) (nm : str) : Prop :=
    exists ex, b_find st nm = Some ex
               /\ (ex = oid \/ (b_unique (benv ex) = false /\ b_unique (benv oid) = false)).

  Record BInv (ll : Z) (st : cstate) : Prop := {
    bi_t : TInv ll st;
    bi_names : names_ok st;
    bi_owner : forall oid nm, bn_find st oid = Some nm -> owner_ok st oid nm;
    bi_back : forall nm ex, b_find st nm = Some ex -> bn_find st ex = Some nm
  }.

  Lemma BInv_init : forall ll, BInv ll init_state.
  Proof. intros. constructor; [apply TInv_init|intros ? ? H; discriminate|intros ? ? H; discriminate|intros ? ? H; discriminate]. Qed.

  Definition bn_mono (st st' : cstate) : Prop :=
    forall oid nm, bn_find st oid = Some nm -> bn_find st' oid = Some nm.

  Lemma memo_mono_refl : forall st, memo_mono st st.
  Proof. intros st c n o H. exact H. Qed.
  Lemma memo_mono_trans : forall a b c, memo_mono a b -> memo_mono b c -> memo_mono a c.
  Proof. intros a b c H1 H2 cl n o H. apply H2, H1, H. Qed.

  Lemma truncate_bindparam_spec : forall ll st oid st1 nm, BInv ll st ->
    truncate_bindparam ll st oid = (st1, nm) ->
    TInv ll st1 /\ names_ok st1 /\ memo_mono st st1 /\ bn_mono st st1
    /\ st_binds st1 = st_binds st /\ bn_find st1 oid = Some nm
    /\ (forall o' n', bn_find st1 o' = Some n' -> o' <> oid -> bn_find st o' = Some n')
    /\ (length (st_memo st1) <= S (length (st_memo st)))%nat.
  Proof.
    intros ll st oid st1 nm I H. unfold Trunc.truncate_bindparam in H.
    destruct (assoc N.eqb oid (st_bind_names st)) as [nm0|] eqn:F.
    - inversion H; subst. split; [apply I|split; [apply I|split; [apply memo_mono_refl|]]].
      split; [intros o n K; exact K|split; [reflexivity|split; [exact F|split; [auto|lia]]]].
    - destruct (b_key (benv oid)) as [s|t] eqn:K.
      + inversion H; subst; clear H. cbn [st_am st_memo st_tctr st_binds st_bind_names].
        set (st1 := {| st_am := st_am st; st_memo := st_memo st; st_tctr := st_tctr st;
                       st_binds := st_binds st; st_bind_names := (oid, nm) :: st_bind_names st |}).
        assert (Hbn : forall o, bn_find st1 o = if N.eqb o oid then Some nm else bn_find st o) by reflexivity.
        split; [eapply TInv_same; [| | |exact (bi_t _ _ I)]; reflexivity|].
        split.
        { intros o n Hn. rewrite Hbn in Hn. destruct (N.eqb o oid) eqn:E.
          - apply N.eqb_eq in E. subst o. inversion Hn; subst n. rewrite K. reflexivity.
          - exact (bi_names _ _ I _ _ Hn). }
        split; [intros c n o Hm; exact Hm|]. split.
        { intros o n Hn. rewrite Hbn. destruct (N.eqb o oid) eqn:E; [|exact Hn].
          apply N.eqb_eq in E. subst o. unfold bn_find in Hn. congruence. }
        split; [reflexivity|]. split; [rewrite Hbn, N.eqb_refl; reflexivity|]. split; [|cbn; lia].
        intros o n Hn Hne. rewrite Hbn in Hn. destruct (N.eqb o oid) eqn:E; [|exact Hn].
        apply N.eqb_eq in E. contradiction.
      + destruct (truncated_identifier ll st cls_bindparam t) as [st0 nm0] eqn:T.
        inversion H; subst; clear H.
        destruct (truncated_identifier_spec _ _ _ _ _ _ (bi_t _ _ I) T) as (I0 & M0 & F0 & B0 & N0 & _).
        set (st1 := {| st_am := st_am st0; st_memo := st_memo st0; st_tctr := st_tctr st0;
                       st_binds := st_binds st0; st_bind_names := (oid, nm) :: st_bind_names st0 |}).
        assert (Hbn : forall o, bn_find st1 o = if N.eqb o oid then Some nm else bn_find st o).
        { intros o. unfold bn_find, st1. cbn [st_bind_names assoc]. rewrite N0. reflexivity. }
        assert (Hmf : forall c n, memo_find st1 c n = memo_find st0 c n) by reflexivity.
        split; [eapply TInv_same; [| | |exact I0]; reflexivity|].
        split.
        { intros o n Hn. rewrite Hbn in Hn. destruct (N.eqb o oid) eqn:E.
          - apply N.eqb_eq in E. subst o. inversion Hn; subst n. rewrite K, Hmf. exact F0.
          - pose proof (bi_names _ _ I _ _ Hn) as Q. destruct (b_key (benv o)); [exact Q|].
            rewrite Hmf. apply M0. exact Q. }
        split; [intros c n o Hm; rewrite Hmf; apply M0; exact Hm|]. split.
        { intros o n Hn. rewrite Hbn. destruct (N.eqb o oid) eqn:E; [|exact Hn].
          apply N.eqb_eq in E. subst o. unfold bn_find in Hn. congruence. }
        split; [exact B0|]. split; [rewrite Hbn, N.eqb_refl; reflexivity|]. split.
        { intros o n Hn Hne. rewrite Hbn in Hn. destruct (N.eqb o oid) eqn:E; [|exact Hn].
          apply N.eqb_eq in E. contradiction. }
        cbn [st_memo st1]. unfold truncated_identifier in T.
        destruct (assoc ckey_eqb (cls_bindparam, t) (st_memo st)).
        * inversion T; subst. lia.
        * destruct (apply_map (st_am st) t). destruct (label_too_long _ ll); inversion T; subst; cbn; lia.
  Qed.

  Lemma visit_bindparam_spec : forall ll st oid st' nm, BInv ll st ->
    visit_bindparam ll st oid = Ok (st', nm) ->
    BInv ll st' /\ memo_mono st st' /\ bn_mono st st' /\ bn_find st' oid = Some nm
    /\ (length (st_memo st') <= S (length (st_memo st)))%nat.
  Proof.
    intros ll st oid st' nm I H. unfold Trunc.visit_bindparam in H.
    destruct (truncate_bindparam ll st oid) as [st1 nm1] eqn:T.
    destruct (truncate_bindparam_spec _ _ _ _ _ I T) as (I1 & NO & MM & BM & EB & FB & OLD & LEN).
    set (st2 := {| st_am := st_am st1; st_memo := st_memo st1; st_tctr := st_tctr st1;
                   st_binds := (nm1, oid) :: st_binds st1; st_bind_names := st_bind_names st1 |}) in H.
    assert (Hok : (st', nm) = (st2, nm1) ->
              (b_find st1 nm1 = None \/ (exists ex, b_find st1 nm1 = Some ex /\
                 (ex = oid \/ (b_unique (benv ex) = false /\ b_unique (benv oid) = false)))) ->
              BInv ll st' /\ memo_mono st st' /\ bn_mono st st' /\ bn_find st' oid = Some nm
              /\ (length (st_memo st') <= S (length (st_memo st)))%nat).
    { intros E Hc. inversion E; subst st' nm; clear E.
      assert (Hbf : forall n, b_find st2 n = if str_eqb n nm1 then Some oid else b_find st1 n) by reflexivity.
      split; [|split; [exact MM|split; [exact BM|split; [exact FB|exact LEN]]]].
      constructor.
      - eapply TInv_same; [| | |exact I1]; reflexivity.
      - exact NO.
      - intros o n Hn. change (bn_find st2 o) with (bn_find st1 o) in Hn.
        unfold owner_ok. rewrite Hbf. destruct (str_eqb n nm1) eqn:En.
        + apply str_eqb_eq in En. subst n. exists oid. split; [reflexivity|].
          destruct (N.eq_dec o oid) as [->|Hne]; [left; reflexivity|].
          pose proof (OLD _ _ Hn Hne) as Hold. destruct (bi_owner _ _ I _ _ Hold) as (ex & Hex & Hrel).
          unfold b_find in Hex. rewrite <- EB in Hex. fold (b_find st1 nm1) in Hex.
          destruct Hc as [Hc|(ex' & Hex' & Hrel')]; [congruence|].
          assert (ex' = ex) by congruence. subst ex'.
          destruct Hrel' as [->|(U1 & U2)].
          * destruct Hrel as [->|(U3 & U4)]; [contradiction|]. right. auto.
          * destruct Hrel as [->|(U3 & U4)]; right; auto.
        + destruct (N.eq_dec o oid) as [->|Hne].
          * rewrite FB in Hn. inversion Hn; subst n. rewrite (eqb_refl_of _ str_eqb_eq) in En. discriminate.
          * pose proof (OLD _ _ Hn Hne) as Hold. destruct (bi_owner _ _ I _ _ Hold) as (ex & Hex & Hrel).
            exists ex. split; [|exact Hrel]. unfold b_find. rewrite EB. exact Hex.
      - intros n ex Hb. change (bn_find st2 ex) with (bn_find st1 ex). rewrite Hbf in Hb.
        destruct (str_eqb n nm1) eqn:En.
        + apply str_eqb_eq in En. subst n. inversion Hb; subst ex. exact FB.
        + apply BM. apply (bi_back _ _ I). unfold b_find in *. rewrite <- EB. exact Hb. }
    fold (b_find st1 nm1) in H. destruct (b_find st1 nm1) as [ex|] eqn:Fb.
    - destruct (N.eqb ex oid) eqn:E1.
      + apply N.eqb_eq in E1. apply Hok; [congruence|]. right. exists ex. auto.
      + destruct (b_unique (benv ex) || b_unique (benv oid)) eqn:E2; [discriminate|].
        apply orb_false_iff in E2.
        destruct (negb (eqb (b_expanding (benv ex)) (b_expanding (benv oid)))); [discriminate|].
        apply Hok; [congruence|]. right. exists ex. split; [reflexivity|right; tauto].
    - apply Hok; [congruence|]. left. reflexivity.
  Qed.

  Definition out_ok (st' : cstate) (r : req) (o : str) : Prop :=
    match r with
    | RName cls (LStr s) => o = s
    | RName cls (LTrunc n) => memo_find st' cls n = Some o
    | RBind oid => bn_find st' oid = Some o
    end.

  Lemma step_spec : forall ll st r st' o, BInv ll st -> step ll st r = Ok (st', o) ->
    BInv ll st' /\ memo_mono st st' /\ bn_mono st st' /\ out_ok st' r o
    /\ (length (st_memo st') <= S (length (st_memo st)))%nat.
  Proof.
    intros ll st r st' o I H. destruct r as [cls [s|n]|oid]; cbn [Trunc.step element_name] in H.
    - inversion H; subst. split; [exact I|split; [apply memo_mono_refl|split; [intros ? ? K; exact K|split; [reflexivity|lia]]]].
    - destruct (truncated_identifier ll st cls n) as [st0 o0] eqn:T. inversion H; subst; clear H.
      destruct (truncated_identifier_spec _ _ _ _ _ _ (bi_t _ _ I) T) as (I0 & M0 & F0 & B0 & N0 & _).
      assert (Hbn : forall o, bn_find st' o = bn_find st o) by (intros; unfold bn_find; rewrite N0; reflexivity).
      assert (Hbf : forall n, b_find st' n = b_find st n) by (intros; unfold b_find; rewrite B0; reflexivity).
      split; [|split; [exact M0|split; [intros ? ? K; rewrite Hbn; exact K|split; [exact F0|]]]].
      + constructor; [exact I0| | |].
        * intros oid nm Hn. rewrite Hbn in Hn. pose proof (bi_names _ _ I _ _ Hn) as Q.
          destruct (b_key (benv oid)); [exact Q|apply M0; exact Q].
        * intros oid nm Hn. rewrite Hbn in Hn. destruct (bi_owner _ _ I _ _ Hn) as (ex & Hex & Hrel).
          exists ex. rewrite Hbf. auto.
        * intros nm ex Hb. rewrite Hbf in Hb. rewrite Hbn. apply (bi_back _ _ I). exact Hb.
      + unfold truncated_identifier in T. destruct (assoc ckey_eqb (cls, n) (st_memo st)).
        * inversion T; subst. lia.
        * destruct (apply_map (st_am st) n). destruct (label_too_long _ ll); inversion T; subst; cbn; lia.
    - destruct (visit_bindparam_spec _ _ _ _ _ I H) as (I' & M & B & F & L). auto.
  Qed.

  Lemma run_spec : forall ll rs st st' os, BInv ll st -> run ll st rs = Ok (st', os) ->
    BInv ll st' /\ memo_mono st st' /\ bn_mono st st' /\ length os = length rs
    /\ (forall r o, In (r, o) (combine rs os) -> out_ok st' r o)
    /\ (length (st_memo st') <= length (st_memo st) + length rs)%nat.
  Proof.
    induction rs as [|r rs IH]; intros st st' os I H; cbn [Trunc.run] in H.
    - inversion H; subst. split; [exact I|split; [apply memo_mono_refl|split; [intros ? ? K; exact K|]]].
      split; [reflexivity|split; [intros ? ? []|cbn; lia]].
    - destruct (step ll st r) as [[st1 o]|] eqn:S1; [|discriminate].
      destruct (run ll st1 rs) as [[st2 os2]|] eqn:R; [|discriminate]. inversion H; subst; clear H.
      destruct (step_spec _ _ _ _ _ I S1) as (I1 & M1 & B1 & O1 & L1).
      destruct (IH _ _ _ I1 R) as (I2 & M2 & B2 & Len & O2 & L2).
      split; [exact I2|split; [eapply memo_mono_trans; eauto|split; [intros ? ? K; apply B2, B1, K|]]].
      split; [cbn; lia|split; [|cbn [length]; lia]].
      intros r0 o0 [E|Hin]; [|apply O2; exact Hin]. inversion E; subst r0 o0.
      destruct r as [cls [s|n]|oid]; cbn [out_ok] in *; [exact O1|apply M2; exact O1|apply B2; exact O1].
  Qed.

  (* ---------------- the statement-level theorems ---------------- *)
  Lemma count_cls_le : forall cls m, (count_cls cls m <= N.of_nat (length m))%N.
  Proof.
    intros cls m. induction m as [|[[c n] o] r IH]; cbn [count_cls length]; [lia|].
    destruct (N.eqb c cls); lia.
  Qed.

  (* a compilation that succeeds never gives the same rendered name to two different truncatable
     names of one identifier class, unless they anonymise to the same short text *)
  Theorem run_labels_injective : forall ll rs st os cls n1 n2 o,
    run ll init_state rs = Ok (st, os) ->
    In (RName cls (LTrunc n1), o) (combine rs os) -> In (RName cls (LTrunc n2), o) (combine rs os) ->
    n1 = n2 \/ (anon_pure (st_am st) n1 = anon_pure (st_am st) n2
                /\ slen (anon_pure (st_am st) n1) <= ll - 6).
  Proof.
    intros ll rs st os cls n1 n2 o H H1 H2.
    destruct (run_spec _ _ _ _ _ (BInv_init ll) H) as (I & _ & _ & _ & O & _).
    eapply memo_injective; [apply I|apply (O _ _ H1)|apply (O _ _ H2)].
  Qed.

  Theorem run_labels_injective_small_ll : forall ll rs st os cls n1 n2 o, ll < 6 ->
    run ll init_state rs = Ok (st, os) ->
    In (RName cls (LTrunc n1), o) (combine rs os) -> In (RName cls (LTrunc n2), o) (combine rs os) ->
    n1 = n2.
  Proof.
    intros ll rs st os cls n1 n2 o Hl H H1 H2.
    destruct (run_spec _ _ _ _ _ (BInv_init ll) H) as (I & _ & _ & _ & O & _).
    eapply memo_injective_small_ll; [apply I|exact Hl|apply (O _ _ H1)|apply (O _ _ H2)].
  Qed.

  (* the same element is rendered the same way wherever it occurs in the statement *)
  Theorem run_stable : forall ll rs st os r o1 o2,
    run ll init_state rs = Ok (st, os) ->
    In (r, o1) (combine rs os) -> In (r, o2) (combine rs os) -> o1 = o2.
  Proof.
    intros ll rs st os r o1 o2 H H1 H2.
    destruct (run_spec _ _ _ _ _ (BInv_init ll) H) as (_ & _ & _ & _ & O & _).
    pose proof (O _ _ H1) as A. pose proof (O _ _ H2) as B.
    destruct r as [cls [s|n]|oid]; cbn [out_ok] in A, B; congruence.
  Qed.

  (* anonymous elements: the generated names of distinct (id, body) keys differ *)
  Theorem run_anon_keys_distinct : forall ll rs st os k1 k2 v,
    run ll init_state rs = Ok (st, os) ->
    am_find (st_am st) k1 = Some v -> am_find (st_am st) k2 = Some v -> k1 = k2.
  Proof.
    intros ll rs st os k1 k2 v H. destruct (run_spec _ _ _ _ _ (BInv_init ll) H) as (I & _).
    apply anon_names_injective. apply I.
  Qed.

  (* single anonymous labels (col.label(None), anonymous aliases, col == value binds): same rendered name
     in one class only for the same element *)
  Theorem run_anon_labels_distinct : forall ll rs st os cls k1 k2 o,
    run ll init_state rs = Ok (st, os) ->
    In (RName cls (LTrunc [Anon (fst k1) (snd k1)]), o) (combine rs os) ->
    In (RName cls (LTrunc [Anon (fst k2) (snd k2)]), o) (combine rs os) -> k1 = k2.
  Proof.
    intros ll rs st os cls [i1 b1] [i2 b2] o H H1 H2. cbn [fst snd] in *.
    destruct (run_spec _ _ _ _ _ (BInv_init ll) H) as (I & _ & _ & _ & O & _).
    pose proof (O _ _ H1) as A. pose proof (O _ _ H2) as B. cbn [out_ok] in A, B.
    destruct (memo_injective _ _ _ _ _ _ (bi_t _ _ I) A B) as [E|(E & _)]; [inversion E; reflexivity|].
    destruct (ti_entries _ _ (bi_t _ _ I) _ _ _ A) as (C1 & _).
    destruct (ti_entries _ _ (bi_t _ _ I) _ _ _ B) as (C2 & _).
    cbn [anon_pure] in E. rewrite !app_nil_r in E.
    fold (am_find (st_am st) (i1, b1)) in E. fold (am_find (st_am st) (i2, b2)) in E.
    destruct (am_find (st_am st) (i1, b1)) as [v1|] eqn:F1; [|exfalso; apply (C1 i1 b1); [left; reflexivity|exact F1]].
    destruct (am_find (st_am st) (i2, b2)) as [v2|] eqn:F2; [|exfalso; apply (C2 i2 b2); [left; reflexivity|exact F2]].
    subst v2. eapply anon_names_injective; [apply (ti_am _ _ (bi_t _ _ I))|exact F1|exact F2].
  Qed.

  (* bind parameters: in a compilation that succeeds, two different parameters of which at least one
     is "unique" (anonymous) never share a name *)
  Theorem run_binds_distinct : forall ll rs st os o1 o2 n1 n2,
    run ll init_state rs = Ok (st, os) ->
    In (RBind o1, n1) (combine rs os) -> In (RBind o2, n2) (combine rs os) ->
    o1 <> o2 -> b_unique (benv o1) = true \/ b_unique (benv o2) = true -> n1 <> n2.
  Proof.
    intros ll rs st os o1 o2 n1 n2 H H1 H2 Hne Hu E. subst n2.
    destruct (run_spec _ _ _ _ _ (BInv_init ll) H) as (I & _ & _ & _ & O & _).
    pose proof (O _ _ H1) as A. pose proof (O _ _ H2) as B. cbn [out_ok] in A, B.
    destruct (bi_owner _ _ I _ _ A) as (ex1 & F1 & R1). destruct (bi_owner _ _ I _ _ B) as (ex2 & F2 & R2).
    assert (ex2 = ex1) by congruence. subst ex2.
    destruct R1 as [->|(U1 & U2)], R2 as [->|(U3 & U4)]; try contradiction;
    destruct Hu as [Hu|Hu]; congruence.
  Qed.

  (* length: with label_length >= 6 and fewer than 16^5 name requests, every rendered truncatable name
     (labels, aliases, anonymous bind names) fits label_length *)
  Theorem run_len_bounded : forall ll rs st os, 6 <= ll -> (N.of_nat (length rs) < hex_limit)%N ->
    run ll init_state rs = Ok (st, os) ->
    (forall cls n o, In (RName cls (LTrunc n), o) (combine rs os) -> slen o <= ll)
    /\ (forall oid t o, In (RBind oid, o) (combine rs os) -> b_key (benv oid) = BTrunc t -> slen o <= ll).
  Proof.
    intros ll rs st os Hl Hn H.
    destruct (run_spec _ _ _ _ _ (BInv_init ll) H) as (I & _ & _ & _ & O & L).
    assert (Hc : forall cls, (count_cls cls (st_memo st) < hex_limit)%N).
    { intros cls. pose proof (count_cls_le cls (st_memo st)). cbn [init_state st_memo length] in L. lia. }
    split.
    - intros cls n o Hin. pose proof (O _ _ Hin) as A. cbn [out_ok] in A.
      eapply memo_len_bounded_count; [apply I|exact Hl|apply Hc|exact A].
    - intros oid t o Hin K. pose proof (O _ _ Hin) as A. cbn [out_ok] in A.
      pose proof (bi_names _ _ I _ _ A) as Q. rewrite K in Q.
      eapply memo_len_bounded_count; [apply I|exact Hl|apply Hc|exact Q].
  Qed.
End Binds.
