(* executable entry point for the correspondence check of C17 *)
From Coq Require Import List NArith ZArith Bool.
Import ListNotations.
From SAV.base Require Import Tree.
From SAV.sql Require Import Lambda.

(* values: [0] None | [1,z] int | [2,[chars]] str | [3,[vals]] list | [4,t,c] column | [5,t] table | [6,code,[cap]] function *)
Fixpoint dec_val (fuel : nat) (t : tree) : option val :=
  match fuel with
  | O => None
  | S f =>
    match t with
    | L [I 0%Z] => Some VNone
    | L [I 1%Z; I z] => Some (VInt z)
    | L [I 2%Z; L s] => match all_some (map as_Z s) with Some s' => Some (VStr s') | None => None end
    | L [I 3%Z; L l] => match all_some (map (dec_val f) l) with Some l' => Some (VList l') | None => None end
    | L [I 4%Z; I t; I c] => Some (VCol (Z.to_N t) (Z.to_N c))
    | L [I 5%Z; I t] => Some (VTab (Z.to_N t))
    | L [I 6%Z; I k; L cap] => match all_some (map (dec_val f) cap) with Some c' => Some (VFun (Z.to_N k) c') | None => None end
    | _ => None
    end
  end.

Fixpoint enc_val (v : val) : tree :=
  match v with
  | VNone => L [I 0%Z]
  | VInt z => L [I 1%Z; I z]
  | VStr s => L [I 2%Z; L (map I s)]
  | VList l => L [I 3%Z; L (map enc_val l)]
  | VCol t c => L [I 4%Z; of_N t; of_N c]
  | VTab t => L [I 5%Z; of_N t]
  | VFun k cap => L [I 6%Z; of_N k; L (map enc_val cap)]
  end.

Definition dec_op (z : Z) : option cmpop :=
  match z with 0%Z => Some Eq | 1%Z => Some Ne | 2%Z => Some Lt | 3%Z => Some Gt | _ => None end.
Definition enc_op (o : cmpop) : tree := I (match o with Eq => 0 | Ne => 1 | Lt => 2 | Gt => 3 end)%Z.

Definition dec_use (t : tree) : option use :=
  match t with
  | L [I 0%Z; I i] => Some (UFrom (Z.to_nat i))
  | L [I 1%Z; I t; I c; I op; I i] => match dec_op op with Some o => Some (UCmp (Z.to_N t) (Z.to_N c) o (Z.to_nat i)) | None => None end
  | L [I 2%Z; I t; I c; I i] => Some (UIn (Z.to_N t) (Z.to_N c) (Z.to_nat i))
  | L [I 3%Z; I i; I op; I k] => match dec_op op with Some o => Some (UColCmp (Z.to_nat i) o k) | None => None end
  | L [I 4%Z; I i; I c; I op; I j] => match dec_op op with Some o => Some (UTabCmp (Z.to_nat i) (Z.to_N c) o (Z.to_nat j)) | None => None end
  | L [I 5%Z; I i] => Some (UCall (Z.to_nat i))
  | L [I 6%Z; I i; I j] => Some (UCallArg (Z.to_nat i) (Z.to_nat j))
  | L [I 7%Z; I i] => Some (ULimit (Z.to_nat i))
  | L [I 8%Z; I t; I c; I i; I k1; I k2] => Some (UIf (Z.to_N t) (Z.to_N c) (Z.to_nat i) k1 k2)
  | L [I 9%Z; I t; I c; I op; I i; I k] => match dec_op op with Some o => Some (UIndex (Z.to_N t) (Z.to_N c) o (Z.to_nat i) (Z.to_nat k)) | None => None end
  | _ => None
  end.

Definition enc_item (it : item) : tree :=
  match it with
  | IFrom t => L [I 0%Z; of_N t]
  | ICrit (CCmp t c op v) => L [I 1%Z; of_N t; of_N c; enc_op op; enc_val v]
  | ICrit (CIsNull t c) => L [I 2%Z; of_N t; of_N c]
  | ICrit (CIsNotNull t c) => L [I 3%Z; of_N t; of_N c]
  | ICrit (CIn t c vs) => L [I 4%Z; of_N t; of_N c; L (map enc_val vs)]
  | ILimit v => L [I 5%Z; enc_val v]
  end.

(* the SQL text shows the criteria in order and then the LIMIT of the last .limit() call *)
Definition is_limit (it : item) : bool := match it with ILimit _ => true | _ => false end.
Definition normalize (l : list item) : list item :=
  filter (fun it => negb (is_limit it)) l ++ match rev (filter is_limit l) with x :: _ => [x] | [] => [] end.

Definition enc_res (r : res (list item)) : tree :=
  match r with
  | Ok l => L [I 0%Z; L (map enc_item (normalize l))]
  | Rejected => L [I 1%Z]
  | TypeErr => L [I 2%Z]
  | DomErr => L [I 3%Z]
  end.

Definition enc_cls (ci : bool * cls) : tree :=
  I (match snd ci with Bound => 0 | KeyElem => 1 | KeyCode | KeySeqBad => 2 | Reject => 3 end)%Z.

Fixpoint assocZ {A} (k : N) (l : list (N * A)) : option A :=
  match l with [] => None | (k', v) :: r => if N.eqb k k' then Some v else assocZ k r end.

Definition dec_body (t : tree) : option (N * list use) :=
  match t with
  | L [I k; L us] => match all_some (map dec_use us) with Some u => Some (Z.to_N k, u) | None => None end
  | _ => None
  end.
Definition dec_fdesc (t : tree) : option (N * fdesc) :=
  match t with
  | L [I k; I t; I c; I op; I z] =>
      match dec_op op with
      | Some o => Some (Z.to_N k, {| f_t := Z.to_N t; f_c := Z.to_N c; f_op := o; f_const := z |})
      | None => None
      end
  | _ => None
  end.
Definition dec_link (t : tree) : option (N * list val) :=
  match t with
  | L [I k; L e] => match all_some (map (dec_val 16) e) with Some e' => Some (Z.to_N k, e') | None => None end
  | _ => None
  end.
Definition dec_chain (t : tree) : option (list (N * list val)) :=
  match t with L l => all_some (map dec_link l) | _ => None end.

(* the whole history, threading the state, plus the final per-code classifications *)
Fixpoint run_state (F : N -> fdesc) (U : N -> list use) (st : state) (h : list (list (N * list val)))
  : state * list (res (list item)) :=
  match h with
  | [] => (st, [])
  | ch :: r => let (st1, o) := invoke F U st ch in let (st2, os) := run_state F U st1 r in (st2, o :: os)
  end.

(* input  [ [bodies: [code,[uses]]...], [helpers: [code,t,c,op,const]...], [history: [[code,[vals]]...]...] ]
   output [ [result per construction...], [ [code, [class per cell]] for every analysed code, in body order ] ] *)
Definition run_case (t : tree) : tree :=
  match t with
  | L [L bodies; L helpers; L hist] =>
      match all_some (map dec_body bodies), all_some (map dec_fdesc helpers), all_some (map dec_chain hist) with
      | Some bs, Some hs, Some h =>
          let U := fun k => match assocZ k bs with Some u => u | None => [] end in
          let F := fun k => match assocZ k hs with Some d => d | None => {| f_t := 0; f_c := 0; f_op := Eq; f_const := 0 |} end in
          let (st, outs) := run_state F U empty_state h in
          L [L (map enc_res outs);
             L (flat_map (fun b => match assoc_code (fst b) (analyses st) with
                                   | Some a => [L [of_N (fst b); L (map enc_cls a)]]
                                   | None => []
                                   end) bs)]
      | _, _, _ => bad_input
      end
  | _ => bad_input
  end.
