(* C11 - proofs about the compiler side: one result-map entry per selected column, carrying the column
   object unless the column is a repeat of an earlier equal column *)
From Coq Require Import List NArith Bool Arith Lia.
Import ListNotations.
From SAV.sql Require Import ResultMap ResultMapDict ResultMapKeymapProofs ResultMapModeProofs.

Lemma cpn_step_col : forall st afd s c, p_col (snd (cpn_step st afd s c)) = c.
Proof.
  intros st afd [names dh] c. unfold cpn_step.
  repeat match goal with
  | |- context [let '(_, _) := ?x in _] => destruct x
  | |- context [match ?x with _ => _ end] => destruct x
  end; reflexivity.
Qed.

Lemma cpn_step_proxy : forall st afd s c, p_proxy (snd (cpn_step st afd s c)) = d_proxy c.
Proof.
  intros st afd [names dh] c. unfold cpn_step.
  repeat match goal with
  | |- context [let '(_, _) := ?x in _] => destruct x
  | |- context [match ?x with _ => _ end] => destruct x
  end; reflexivity.
Qed.

Lemma cpn_loop_length : forall st afd cols s, length (cpn_loop st afd s cols) = length cols.
Proof.
  induction cols as [|c r IH]; intros s; cbn [cpn_loop]; [reflexivity|].
  destruct (cpn_step st afd s c) as [s' p]. cbn [length]. now rewrite IH.
Qed.

Lemma cpn_loop_nth : forall st afd cols s i p, nth_error (cpn_loop st afd s cols) i = Some p ->
  nth_error cols i = Some (p_col p).
Proof.
  induction cols as [|c r IH]; intros s i p H; cbn [cpn_loop] in H.
  - destruct i; discriminate.
  - destruct (cpn_step st afd s c) as [s' p0] eqn:E. destruct i as [|i]; cbn [nth_error] in *.
    + injection H as <-. pose proof (cpn_step_col st afd s c) as Hc. rewrite E in Hc. cbn [snd] in Hc. now rewrite Hc.
    + exact (IH _ _ _ H).
Qed.

Definition names_ok (done : list cdesc) (names : names_t) : Prop :=
  forall n h, dget nm_eqb names n = Some h -> exists c', In c' done /\ d_hash c' = h /\ In n (allnames c').

Lemma names_ok_weaken : forall done names c, names_ok done names -> names_ok (done ++ [c]) names.
Proof.
  intros done names c H n h E. destruct (H n h E) as (c' & Hc & Hh & Hn). exists c'. split; [apply in_or_app; now left|auto].
Qed.

Lemma names_ok_dset : forall done names c n, names_ok done names -> In n (allnames c) ->
  names_ok (done ++ [c]) (dset nm_eqb n (d_hash c) names).
Proof.
  intros done names c n H Hn n' h E. rewrite (dget_dset nm_eqb nm_eqb_eq) in E.
  destruct (nm_eqb n' n) eqn:En.
  - apply nm_eqb_eq in En. subst n'. injection E as <-. exists c. split; [apply in_or_app; right; now left|auto].
  - destruct (H n' h E) as (c' & Hc & Hh & Hn'). exists c'. split; [apply in_or_app; now left|auto].
Qed.

Lemma nmem_true : forall names n, nmem names n = true -> exists h, dget nm_eqb names n = Some h.
Proof. intros names n H. unfold nmem, dmem in H. destruct (dget nm_eqb names n); [eauto|discriminate]. Qed.

Definition fresh_for (done : list cdesc) (c : cdesc) : Prop :=
  forall c' n, In c' done -> In n (anonnames c) -> In n (allnames c') -> d_hash c' = d_hash c.

Lemma cpn_step_inv : forall st done s c s' p,
  cpn_step st true s c = (s', p) -> names_ok done (fst s) -> fresh_for done c ->
  names_ok (done ++ [c]) (fst s') /\
  (p_repeated p = true -> exists c', In c' done /\ d_hash c' = d_hash c).
Proof.
  intros st done [names dh] c s' p H Hok Hfr. cbn [fst] in Hok.
  assert (A1 : In (d_anon_name c) (anonnames c)) by (left; reflexivity).
  assert (A2 : In (d_anon_tq c) (anonnames c)) by (right; left; reflexivity).
  assert (R : forall r, In r (anonnames c) -> nmem names r = true -> exists c', In c' done /\ d_hash c' = d_hash c).
  { intros r Hr Hm. apply nmem_true in Hm as (h & Hh). destruct (Hok _ _ Hh) as (c' & Hc & _ & Hn).
    exists c'. split; [assumption|]. exact (Hfr c' r Hc Hr Hn). }
  unfold cpn_step in H.
  destruct (d_render c) eqn:Er; cbn [negb] in H.
  2:{ injection H as <- <-. cbn. split; [now apply names_ok_weaken|discriminate]. }
  destruct st.
  - (* StNone *) injection H as <- <-. cbn. split; [now apply names_ok_weaken|discriminate].
  - (* StTable *)
    destruct (d_tq c) as [[tq ttr]|] eqn:Etq.
    + destruct (dget nm_eqb names tq) as [h|] eqn:Eg.
      * destruct (N.eqb h (d_hash c)) eqn:Eh; cbn [negb] in H.
        -- cbn [andb] in H. injection H as <- <-. cbn. split; [now apply names_ok_weaken|]. intros _.
           destruct (Hok _ _ Eg) as (c' & Hc & Hh & _). apply N.eqb_eq in Eh. exists c'. split; congruence.
        -- cbn [andb] in H. destruct (nmem names (d_anon_tq c)) eqn:Em.
           ++ injection H as <- <-. cbn. split; [now apply names_ok_weaken|]. intros _. exact (R _ A2 Em).
           ++ injection H as <- <-. cbn. split; [|discriminate]. apply names_ok_dset; [assumption|].
              unfold allnames. apply in_or_app. now right.
      * injection H as <- <-. cbn. split; [|discriminate]. apply names_ok_dset; [assumption|].
        unfold allnames, effnames. rewrite Etq. cbn. now left.
    + destruct (d_exprlabel c) as [el|] eqn:Eel.
      * destruct (dget nm_eqb names el) as [h|] eqn:Eg.
        -- destruct (N.eqb h (d_hash c)) eqn:Eh; cbn [negb andb] in H.
           ++ injection H as <- <-. cbn. split; [now apply names_ok_weaken|]. intros _.
              destruct (Hok _ _ Eg) as (c' & Hc & Hh & _). apply N.eqb_eq in Eh. exists c'. split; congruence.
           ++ destruct (nmem names (d_anon_tq c)) eqn:Em.
              ** injection H as <- <-. cbn. split; [now apply names_ok_weaken|]. intros _. exact (R _ A2 Em).
              ** injection H as <- <-. cbn. split; [|discriminate]. apply names_ok_dset; [assumption|].
                 unfold allnames. apply in_or_app. now right.
        -- injection H as <- <-. cbn. split; [|discriminate]. apply names_ok_dset; [assumption|].
           unfold allnames, effnames. rewrite Eel. apply in_or_app. left. apply in_or_app. right. apply in_or_app. right. now left.
      * destruct (nmem names (d_anon_name c)) eqn:Em.
        -- injection H as <- <-. cbn. split; [|intros _; exact (R _ A1 Em)]. apply names_ok_dset; [assumption|].
           unfold allnames. apply in_or_app. now right.
        -- injection H as <- <-. cbn. split; [|discriminate]. apply names_ok_dset; [assumption|].
           unfold allnames. apply in_or_app. now right.
  - (* StDisamb *)
    destruct (d_nonanon c) as [[na ntr]|] eqn:Ena.
    + destruct (dget nm_eqb names na) as [h|] eqn:Eg.
      * destruct (N.eqb h (d_hash c)) eqn:Eh; cbn [negb] in H.
        -- cbn [andb] in H. injection H as <- <-. cbn. split; [now apply names_ok_weaken|]. intros _.
           destruct (Hok _ _ Eg) as (c' & Hc & Hh & _). apply N.eqb_eq in Eh. exists c'. split; congruence.
        -- cbn [andb] in H. destruct (nmem names (d_anon_name c)) eqn:Em.
           ++ injection H as <- <-. cbn. split; [now apply names_ok_weaken|]. intros _. exact (R _ A1 Em).
           ++ injection H as <- <-. cbn. split; [|discriminate]. apply names_ok_dset; [assumption|].
              unfold allnames. apply in_or_app. now right.
      * injection H as <- <-. cbn. split; [|discriminate]. apply names_ok_dset; [assumption|].
        unfold allnames, effnames. rewrite Ena. apply in_or_app. left. apply in_or_app. right. apply in_or_app. left. now left.
    + destruct (d_exprlabel c) as [el|] eqn:Eel.
      * destruct (dget nm_eqb names el) as [h|] eqn:Eg.
        -- destruct (N.eqb h (d_hash c)) eqn:Eh; cbn [negb andb] in H.
           ++ injection H as <- <-. cbn. split; [now apply names_ok_weaken|]. intros _.
              destruct (Hok _ _ Eg) as (c' & Hc & Hh & _). apply N.eqb_eq in Eh. exists c'. split; congruence.
           ++ destruct (nmem names (d_anon_name c)) eqn:Em.
              ** injection H as <- <-. cbn. split; [now apply names_ok_weaken|]. intros _. exact (R _ A1 Em).
              ** injection H as <- <-. cbn. split; [|discriminate]. apply names_ok_dset; [assumption|].
                 unfold allnames. apply in_or_app. now right.
        -- injection H as <- <-. cbn. split; [|discriminate]. apply names_ok_dset; [assumption|].
           unfold allnames, effnames. rewrite Eel. apply in_or_app. left. apply in_or_app. right. apply in_or_app. right. now left.
      * destruct (nmem names (d_anon_name c)) eqn:Em.
        -- injection H as <- <-. cbn. split; [|intros _; exact (R _ A1 Em)]. apply names_ok_dset; [assumption|].
           unfold allnames. apply in_or_app. now right.
        -- injection H as <- <-. cbn. split; [|discriminate]. apply names_ok_dset; [assumption|].
           unfold allnames. apply in_or_app. now right.
Qed.

Lemma cpn_loop_nth_proxy : forall st afd cols s i p, nth_error (cpn_loop st afd s cols) i = Some p ->
  p_proxy p = d_proxy (p_col p).
Proof.
  induction cols as [|c r IH]; intros s i p H; cbn [cpn_loop] in H.
  - destruct i; discriminate.
  - destruct (cpn_step st afd s c) as [s' p0] eqn:E. destruct i as [|i]; cbn [nth_error] in *.
    + injection H as <-. pose proof (cpn_step_col st afd s c) as Hc. pose proof (cpn_step_proxy st afd s c) as Hp.
      rewrite E in Hc, Hp. cbn [snd] in Hc, Hp. now rewrite Hc, Hp.
    + exact (IH _ _ _ H).
Qed.

Lemma In_firstn_nth : forall {A} (l : list A) i x, In x (firstn i l) -> exists j, j < i /\ nth_error l j = Some x.
Proof.
  induction l as [|a r IH]; intros i x H; destruct i; cbn [firstn] in H; try destruct H.
  - exists 0. split; [lia|now subst].
  - destruct (IH _ _ H) as (j & Hj & Hn). exists (S j). split; [lia|assumption].
Qed.

Lemma cpn_loop_repeated : forall all st cols done s,
  anon_labels_private all -> incl done all -> incl cols all -> names_ok done (fst s) ->
  forall i p, nth_error (cpn_loop st true s cols) i = Some p -> p_repeated p = true ->
  exists c', In c' (done ++ firstn i cols) /\ d_hash c' = d_hash (p_col p).
Proof.
  intros all st. induction cols as [|c r IH]; intros done s Hpriv Hd Hc Hok i p H Hrep; cbn [cpn_loop] in H.
  - destruct i; discriminate.
  - destruct (cpn_step st true s c) as [s' p0] eqn:E.
    assert (Hfr : fresh_for done c).
    { intros c' n Hc' Hn Ha. apply (Hpriv c c' n); auto. apply Hc. now left. }
    destruct (cpn_step_inv st done s c s' p0 E Hok Hfr) as [Hok' Hr0].
    destruct i as [|i]; cbn [nth_error] in H.
    + injection H as <-. destruct (Hr0 Hrep) as (c' & Hin & Hh). exists c'. cbn [firstn]. rewrite app_nil_r.
      pose proof (cpn_step_col st true s c) as Hcol. rewrite E in Hcol. cbn [snd] in Hcol. rewrite Hcol. auto.
    + destruct (IH (done ++ [c]) s' Hpriv) with (i := i) (p := p) as (c' & Hin & Hh); try assumption.
      * intros x Hx. apply in_app_or in Hx as [Hx|[Hx|[]]]; [now apply Hd|subst; apply Hc; now left].
      * intros x Hx. apply Hc. now right.
      * exists c'. split; [|assumption]. cbn [firstn]. rewrite <- app_assoc in Hin. exact Hin.
Qed.

(* a column marked "repeated" repeats an earlier column with the same identity *)
Theorem repeated_has_earlier_equal : forall st cols i p,
  anon_labels_private cols ->
  nth_error (gen_cpn st true cols) i = Some p -> p_repeated p = true ->
  exists j c', j < i /\ nth_error cols j = Some c' /\ d_hash c' = d_hash (p_col p).
Proof.
  intros st cols i p Hpriv H Hrep. unfold gen_cpn in H.
  destruct (cpn_loop_repeated cols st cols [] ([], 1%N) Hpriv) with (i := i) (p := p) as (c' & Hin & Hh);
    try assumption.
  - intros x [].
  - apply incl_refl.
  - intros n h E. discriminate.
  - cbn [app] in Hin. apply In_firstn_nth in Hin as (j & Hj & Hn). eauto.
Qed.

(* every selected column identity has a position (the first one) that is not a repeat *)
Theorem every_identity_has_carrier : forall st cols, anon_labels_private cols ->
  forall i c, nth_error cols i = Some c ->
  exists j c' p', j <= i /\ nth_error cols j = Some c' /\ d_hash c' = d_hash c /\
                 nth_error (gen_cpn st true cols) j = Some p' /\ p_col p' = c' /\ p_repeated p' = false.
Proof.
  intros st cols Hpriv i. induction i as [i IH] using lt_wf_ind. intros c Hc.
  assert (Hlen : i < length (gen_cpn st true cols)).
  { unfold gen_cpn. rewrite cpn_loop_length. apply nth_error_Some. congruence. }
  destruct (nth_error (gen_cpn st true cols) i) as [p|] eqn:Ep; [|apply nth_error_None in Ep; lia].
  pose proof (cpn_loop_nth _ _ _ _ _ _ Ep) as Hcol. rewrite Hc in Hcol. injection Hcol as Hcol.
  destruct (p_repeated p) eqn:Er.
  - destruct (repeated_has_earlier_equal st cols i p Hpriv Ep Er) as (j & c' & Hj & Hn & Hh).
    destruct (IH j Hj c' Hn) as (j' & c'' & p' & Hle & Hn' & Hh' & Hp' & Hcp & Hr').
    exists j', c'', p'. repeat split; try assumption; [lia|congruence].
  - exists i, c, p. repeat split; auto.
Qed.

(* ---------- _label_select_column ---------- *)
Section LSC.
  Variable resolve : nm -> nm.

  Lemma lsc_has_obj : forall asfrom cl p, p_repeated p = false ->
    In (KO (d_obj (p_col p))) (rc_objs (label_select_column resolve asfrom cl p)).
  Proof.
    intros asfrom cl p Hr. unfold label_select_column. rewrite Hr.
    destruct (d_cls (p_col p)); destruct (d_name (p_col p)) as [[n tr]|]; destruct (p_required p) as [[rn rt]|];
      unfold visit_label, visit_column, visit_text; cbn [rc_objs];
      repeat match goal with |- context [if ?b then _ else _] => destruct b end;
      try destruct (d_name (p_col p)) as [[n' tr']|]; cbn [rc_objs In app]; tauto.
  Qed.

  Lemma lsc_KO : forall asfrom cl p x, is_obj (d_key (p_col p)) = false -> is_obj (p_proxy p) = false ->
    let e := label_select_column resolve asfrom cl p in
    In (KO x) (rc_name e :: rc_keyname e :: rc_objs e) -> x = d_obj (p_col p) \/ x = cl.
  Proof.
    intros asfrom cl p x Hk Hp e H. subst e.
    unfold label_select_column, visit_label, visit_column, visit_text, kopt in H.
    destruct (d_key (p_col p)) eqn:Ek; try discriminate Hk; destruct (p_proxy p) eqn:Epx; try discriminate Hp;
    destruct (p_repeated p); destruct (d_cls (p_col p)); destruct (d_name (p_col p)) as [[nn tr]|];
      destruct (p_required p) as [[rn rt]|]; destruct (d_tq (p_col p)) as [[tq tt]|];
      cbn [rc_objs rc_name rc_keyname] in H;
      repeat match type of H with context [if ?b then _ else _] => destruct b end;
      cbn [rc_objs rc_name rc_keyname In app] in H;
      repeat match type of H with
             | _ \/ _ => destruct H as [H|H]
             | False => destruct H
             | KO _ = KO _ => injection H as H; auto
             | _ = _ => discriminate H
             end.
  Qed.

  Lemma lsc_loop_length : forall asfrom ps cl, length (lsc_loop resolve asfrom cl ps) = length ps.
  Proof. induction ps as [|p r IH]; intros cl; cbn; [reflexivity|now rewrite IH]. Qed.

  Lemma lsc_loop_nth : forall asfrom ps cl i e, nth_error (lsc_loop resolve asfrom cl ps) i = Some e ->
    exists p, nth_error ps i = Some p /\ e = label_select_column resolve asfrom (cl + N.of_nat i)%N p.
  Proof.
    induction ps as [|p r IH]; intros cl i e H; cbn [lsc_loop] in H.
    - destruct i; discriminate.
    - destruct i as [|i]; cbn [nth_error] in *.
      + injection H as <-. exists p. rewrite N.add_0_r. auto.
      + destruct (IH _ _ _ H) as (p' & Hp & He). exists p'. split; [assumption|].
        rewrite He. f_equal. lia.
  Qed.

  Lemma add_flags_textual : forall rcs f, f_textual_ordered (fold_left add_flags rcs f) = f_textual_ordered f.
  Proof.
    induction rcs as [|e r IH]; intros f; cbn [fold_left]; [reflexivity|]. rewrite IH.
    unfold add_flags. destruct (rc_keyname e) as [|[a|]|]; try reflexivity. destruct (N.eqb a a_star); reflexivity.
  Qed.

  (* one entry per selected column *)
  Theorem select_entry_per_column : forall st cols,
    length (fst (compile_select resolve st cols)) = length cols.
  Proof. intros. unfold compile_select. cbn [fst]. rewrite lsc_loop_length. unfold gen_cpn. apply cpn_loop_length. Qed.

  (* the entry of a column that is not a repeat carries the column object *)
  Theorem select_entry_has_object : forall st cols i c p,
    nth_error cols i = Some c -> nth_error (gen_cpn st true cols) i = Some p -> p_repeated p = false ->
    exists e, nth_error (fst (compile_select resolve st cols)) i = Some e /\ In (KO (d_obj c)) (rc_objs e).
  Proof.
    intros st cols i c p Hc Hp Hr. unfold compile_select. cbn [fst].
    assert (Hlen : i < length (lsc_loop resolve false cl_base (gen_cpn st true cols))).
    { rewrite lsc_loop_length. apply nth_error_Some. congruence. }
    destruct (nth_error (lsc_loop resolve false cl_base (gen_cpn st true cols)) i) as [e|] eqn:Ee;
      [|apply nth_error_None in Ee; lia].
    exists e. split; [reflexivity|]. apply lsc_loop_nth in Ee as (p' & Hp' & ->).
    rewrite Hp in Hp'. injection Hp' as <-.
    pose proof (cpn_loop_nth _ _ _ _ _ _ Hp) as Hcol. rewrite Hc in Hcol. injection Hcol as ->.
    now apply lsc_has_obj.
  Qed.

  (* end to end, positional mode: a column object that is selected once and is not a repeat of an earlier
     equal column is found at its own position, whatever names, keys and labels collide *)
  Theorem select_lookup_by_column_object : forall st cols desc tr i c p,
    nth_error cols i = Some c ->
    (forall j c', nth_error cols j = Some c' -> d_obj c' = d_obj c -> j = i) ->
    (forall c', In c' cols -> (d_obj c' < cl_base)%N /\ is_obj (d_key c') = false /\ is_obj (d_proxy c') = false) ->
    nth_error (gen_cpn st true cols) i = Some p -> p_repeated p = false ->
    f_ordered (snd (compile_select resolve st cols)) = true -> length desc = length cols ->
    exists md, build (fst (compile_select resolve st cols)) (snd (compile_select resolve st cols)) desc tr = Ok md /\
               lookup (md_keymap md) (KO (d_obj c)) = Ok i.
  Proof.
    intros st cols desc tr i c p Hc Honce Hwf Hp Hr Hord Hlen.
    pose proof (select_entry_per_column st cols) as Hn.
    destruct (select_entry_has_object st cols i c p Hc Hp Hr) as (e & He & Hobj).
    set (rcs := fst (compile_select resolve st cols)) in *.
    set (fl := snd (compile_select resolve st cols)) in *.
    assert (Hne : length rcs <> 0).
    { intro H0. apply length_zero_iff_nil in H0. rewrite H0 in He. destruct i; discriminate. }
    assert (Htx : f_textual_ordered fl = false).
    { subst fl. unfold compile_select. cbn [snd]. now rewrite add_flags_textual. }
    unfold build, merge. apply Nat.eqb_neq in Hne. rewrite Hne, Hord, Htx, Hlen, <- Hn, Nat.eqb_refl. cbn [negb andb].
    eexists. split; [reflexivity|]. cbn [md_keymap]. fold (km_pos rcs tr).
    apply (lookup_by_object rcs tr i e); [assumption|now right|].
    intros j e' Hj Hk. subst rcs. unfold compile_select in Hj. cbn [fst] in Hj.
    apply lsc_loop_nth in Hj as (p' & Hp' & ->).
    pose proof (cpn_loop_nth _ _ _ _ _ _ Hp') as Hcol.
    assert (Hin : In (p_col p') cols) by (eapply nth_error_In; eassumption).
    destruct (Hwf _ Hin) as (Hlt & Hk1 & Hk2).
    assert (Hpx : p_proxy p' = d_proxy (p_col p')) by (eapply cpn_loop_nth_proxy; exact Hp').
    rewrite <- Hpx in Hk2.
    destruct (lsc_KO false (cl_base + N.of_nat j)%N p' (d_obj c) Hk1 Hk2 Hk) as [Hx|Hx].
    - apply (Honce j (p_col p') Hcol). congruence.
    - exfalso. destruct (Hwf c (nth_error_In _ _ Hc)) as (Hlt' & _). lia.
  Qed.
End LSC.
