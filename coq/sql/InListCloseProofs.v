(* C07: generic lemmas about the code-side helpers (all_ok, enum_from, parameter dictionaries) and
   about [close] (substitution of values for placeholders). *)
From Coq Require Import List ZArith NArith Bool Lia.
Import ListNotations.
From SAV.sql Require Import Val3 InList InListSpecProofs.

(* ---------------------------------------------------------------------------------------- *)
Lemma all_ok_map {A B} (f : A -> result B) (g : A -> B) l :
  (forall a, In a l -> f a = Ok (g a)) -> all_ok (map f l) = Ok (map g l).
Proof.
  induction l as [|a l IH]; intros H; [reflexivity|].
  cbn [map all_ok]. rewrite (H a (or_introl eq_refl)). rewrite IH; [reflexivity|].
  intros; apply H; now right.
Qed.

Lemma enum_from_length {A} n (l : list A) : length (enum_from n l) = length l.
Proof. revert n; induction l; intro n; cbn [enum_from length]; [reflexivity|now rewrite IHl]. Qed.
Lemma enum_from_snd {A} n (l : list A) : map snd (enum_from n l) = l.
Proof. revert n; induction l; intro n; cbn [enum_from map]; [reflexivity|now rewrite IHl]. Qed.
Lemma enum_from_ge {A} n (l : list A) x : In x (enum_from n l) -> (n <= fst x)%N.
Proof.
  revert n; induction l as [|a l IH]; intros n H; [destruct H|].
  cbn [enum_from] in H. destruct H as [<-|H]; [cbn; lia|]. apply IH in H. lia.
Qed.
Lemma enum_from_nodup {A} n (l : list A) : NoDup (map fst (enum_from n l)).
Proof.
  revert n; induction l as [|a l IH]; intro n; cbn [enum_from map]; constructor; [|apply IH].
  intros H. apply in_map_iff in H as (x & Hx & Hin). apply enum_from_ge in Hin. cbn [fst] in *. lia.
Qed.

(* ---------------------------------------------------------------------------------------- *)
(** * parameter dictionaries *)
Definition no_exp (l : list (pname * sv)) : Prop := forall kv, In kv l -> match fst kv with PExp _ => False | _ => True end.

Lemma key_eqb_refl k : key_eqb k k = true.
Proof. unfold key_eqb. now rewrite !N.eqb_refl. Qed.
Lemma key_eqb_eq a b : key_eqb a b = true -> a = b.
Proof.
  unfold key_eqb. intros H. apply andb_true_iff in H as [H1 H2].
  apply N.eqb_eq in H1, H2. destruct a, b; cbn in *; now subst.
Qed.

Lemma update_params_fresh base tu : no_exp base -> update_params base tu = base ++ exp_params tu.
Proof.
  intros Hb. unfold update_params. f_equal. f_equal.
  induction tu as [|kv tu IH]; [reflexivity|]. cbn [filter].
  replace (existsb _ base) with false; [cbn [negb]; now rewrite IH|].
  symmetry. apply not_true_is_false. intros H. apply existsb_exists in H as (x & Hx & H).
  specialize (Hb x Hx). destruct (fst x); try discriminate. destruct Hb.
Qed.

Lemma lookup_app_no_exp base l k : no_exp base -> lookup_param (PExp k) (base ++ l) = lookup_param (PExp k) l.
Proof.
  intros Hb. unfold lookup_param. induction base as [|kv base IH]; [reflexivity|].
  cbn [app find]. pose proof (Hb kv (or_introl eq_refl)) as H. destruct (fst kv); try (destruct H).
  - apply IH. intros x Hx. apply Hb. now right.
  - apply IH. intros x Hx. apply Hb. now right.
Qed.

Lemma lookup_exp_in tu k v : NoDup (map fst tu) -> In (k, v) tu -> lookup_param (PExp k) (exp_params tu) = Some v.
Proof.
  intros Hn Hin. unfold lookup_param, exp_params. induction tu as [|kv tu IH]; [destruct Hin|].
  cbn [map find fst]. inversion Hn; subst. destruct Hin as [->|Hin].
  - cbn [fst snd]. now rewrite key_eqb_refl.
  - destruct (key_eqb (fst kv) k) eqn:E.
    + apply key_eqb_eq in E. subst. exfalso. apply H1. apply in_map_iff. now exists (fst kv, v).
    + now apply IH.
Qed.

Lemma lookup_other_app base l n :
  lookup_param (POther n) (base ++ exp_params l) = lookup_param (POther n) base.
Proof.
  unfold lookup_param. induction base as [|kv base IH].
  - cbn [app]. induction l as [|x l IHl]; [reflexivity|]. cbn [exp_params map find fst]. apply IHl.
  - cbn [app find]. destruct (fst kv); try apply IH. destruct (N.eqb n0 n); [reflexivity|apply IH].
Qed.

(* ---------------------------------------------------------------------------------------- *)
(** * close *)
Definition static (t : tok) : bool :=
  match t with TQ | TBind _ _ | TOther _ | TCol _ | TPost => false | _ => true end.

Lemma close_static row ps s : forallb static s = true -> close row ps [] s = Some s.
Proof.
  induction s as [|t s IH]; intros H; [reflexivity|].
  cbn [forallb] in H. apply andb_true_iff in H as [Ht Hs].
  destruct t; try discriminate; cbn [close]; now rewrite (IH Hs).
Qed.

Lemma close_app row ps a1 s1 c1 a2 s2 c2 :
  close row ps a1 s1 = Some c1 -> close row ps a2 s2 = Some c2 ->
  close row ps (a1 ++ a2) (s1 ++ s2) = Some (c1 ++ c2).
Proof.
  revert a1 c1. induction s1 as [|t s1 IH]; intros a1 c1 H1 H2.
  - cbn [close] in H1. destruct a1; [|discriminate]. inversion H1; subst. exact H2.
  - cbn [app]. destruct t;
      try (cbn [close] in *; destruct (close row ps a1 s1) as [cc|] eqn:E; cbn [option_map] in H1; [|discriminate H1];
           inversion H1; subst; rewrite (IH a1 cc E H2); reflexivity).
    + (* TQ *) destruct a1 as [|x a1]; cbn [close] in *; [discriminate H1|]. cbn [app close].
      destruct (close row ps a1 s1) as [cc|] eqn:E; cbn [option_map] in H1; [|discriminate H1].
      inversion H1; subst. now rewrite (IH a1 cc E H2).
    + (* TBind *) cbn [close] in *. destruct (lookup_param _ ps); [|discriminate H1].
      destruct (close row ps a1 s1) as [cc|] eqn:E; cbn [option_map] in H1; [|discriminate H1].
      inversion H1; subst. now rewrite (IH a1 cc E H2).
    + (* TOther *) cbn [close] in *. destruct (lookup_param _ ps); [|discriminate H1].
      destruct (close row ps a1 s1) as [cc|] eqn:E; cbn [option_map] in H1; [|discriminate H1].
      inversion H1; subst. now rewrite (IH a1 cc E H2).
Qed.

Lemma close_join row ps sep (segs : list (list sv * list tok * list tok)) :
  forallb static sep = true ->
  Forall (fun x => close row ps (fst (fst x)) (snd (fst x)) = Some (snd x)) segs ->
  close row ps (concat (map (fun x => fst (fst x)) segs)) (join sep (map (fun x => snd (fst x)) segs))
  = Some (join sep (map snd segs)).
Proof.
  intros Hs H. induction H as [|x segs Hx H IH]; [reflexivity|].
  destruct segs as [|y segs].
  - cbn [map concat join]. now rewrite app_nil_r.
  - change (map (fun x0 => snd (fst x0)) (x :: y :: segs)) with
      (snd (fst x) :: snd (fst y) :: map (fun x0 => snd (fst x0)) segs).
    change (map snd (x :: y :: segs)) with (snd x :: snd y :: map snd segs).
    rewrite !join_cons2.
    change (concat (map (fun x0 => fst (fst x0)) (x :: y :: segs))) with
      (fst (fst x) ++ ([] ++ concat (map (fun x0 => fst (fst x0)) (y :: segs)))).
    apply close_app; [exact Hx|].
    apply close_app; [now apply close_static|]. apply IH.
Qed.
