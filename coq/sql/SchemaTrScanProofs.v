(* C16 - lemmas about the hand-written scanner for  re.sub(r"(__\[SCHEMA_([^\]]+)\])", replace, text):
   a token is matched where it starts, and nothing is matched inside text free of "__[SCHEMA". *)
From Coq Require Import List ZArith Bool Lia.
Import ListNotations.
From SAV.sql Require Import SchemaTr.
Open Scope Z_scope.

Lemma bind_ok_r : forall A (r : result A), bind r (fun x => Ok x) = r.
Proof. intros A [a|e]; reflexivity. Qed.

Lemma strip_prefix_app : forall p r, strip_prefix p (p ++ r) = Some r.
Proof.
  induction p as [|a p IH]; intros r; [reflexivity|].
  cbn [strip_prefix app]. rewrite Z.eqb_refl. apply IH.
Qed.

Lemma strip_prefix_is_prefix : forall p s r, strip_prefix p s = Some r -> is_prefix p s = true.
Proof.
  induction p as [|a p IH]; intros s r H; [reflexivity|].
  destruct s as [|b s]; [discriminate H|]. cbn [strip_prefix] in H. cbn [is_prefix].
  destruct (Z.eqb a b); [|discriminate H]. cbn. eapply IH; eauto.
Qed.

Definition no_rb (n : str) : bool := negb (existsb (fun c => Z.eqb c c_rb) n).

Lemma span_name_app : forall n r, no_rb n = true -> span_name (n ++ c_rb :: r) = (n, c_rb :: r).
Proof.
  unfold no_rb. induction n as [|c n IH]; intros r H.
  - cbn [app span_name]. rewrite Z.eqb_refl. reflexivity.
  - cbn [existsb] in H. rewrite negb_orb in H. apply andb_prop in H. destruct H as [H1 H2].
    cbn [app span_name]. apply negb_true_iff in H1. rewrite H1. rewrite (IH r H2). reflexivity.
Qed.

Lemma try_match_token : forall n r, n <> [] -> no_rb n = true -> try_match (token n ++ r) = Some n.
Proof.
  intros n r Hn Hr. unfold try_match, token. rewrite <- app_assoc. rewrite strip_prefix_app.
  rewrite <- app_assoc. cbn [app]. rewrite (span_name_app n r Hr).
  destruct n; [contradiction|reflexivity].
Qed.

Lemma scan_aux_nil : forall repl k, scan_aux repl k [] = Ok [].
Proof. intros repl [|k]; reflexivity. Qed.

Lemma scan_aux_skip : forall repl l r, scan_aux repl (length l) (l ++ r) = scan_aux repl 0 r.
Proof.
  induction l as [|c l IH]; intros r; [reflexivity|].
  cbn [length app scan_aux]. apply IH.
Qed.

Lemma token_length : forall n, length (token n) = match_len n.
Proof. intros. unfold token, match_len, tok_prefix. rewrite !app_length. cbn [length]. lia. Qed.

Lemma scan_token : forall repl n r, n <> [] -> no_rb n = true ->
  scan repl (token n ++ r) = bind (repl n) (fun t => bind (scan repl r) (fun u => Ok (t ++ u))).
Proof.
  intros repl n r Hn Hr. unfold scan. pose proof (try_match_token n r Hn Hr) as Hm.
  pose proof (token_length n) as Hl.
  destruct (token n) as [|c tk] eqn:Et; [discriminate Et|].
  cbn [app] in *. cbn [scan_aux]. rewrite Hm.
  destruct (repl n) as [t|e]; [|reflexivity]. cbn [bind].
  replace (match_len n - 1)%nat with (length tk) by (cbn [length] in Hl; lia).
  rewrite scan_aux_skip. reflexivity.
Qed.

(* ---- nothing starts inside marker-free text ---- *)
Lemma is_prefix_app_l : forall p a b, is_prefix p a = true -> is_prefix p (a ++ b) = true.
Proof.
  induction p as [|x p IH]; intros a b H; [reflexivity|].
  destruct a as [|y a]; [discriminate H|]. cbn [is_prefix app] in *.
  apply andb_prop in H. destruct H as [H1 H2]. rewrite H1. cbn. apply IH, H2.
Qed.
Lemma occurs_app_l : forall p a b, occurs p a = true -> occurs p (a ++ b) = true.
Proof.
  intros p. induction a as [|x a IH]; intros b H.
  - cbn [occurs] in H. rewrite orb_false_r in H. destruct p; [|discriminate H].
    destruct b; reflexivity.
  - cbn [occurs app] in *. apply orb_true_iff in H. apply orb_true_iff. destruct H as [H|H].
    + left. apply (is_prefix_app_l p (x :: a) b H).
    + right. apply IH, H.
Qed.
Lemma occurs_app_r : forall p a b, occurs p b = true -> occurs p (a ++ b) = true.
Proof.
  intros p. induction a as [|x a IH]; intros b H; [exact H|].
  cbn [occurs app]. apply orb_true_iff. right. apply IH, H.
Qed.
Lemma no_occurs_app : forall p a b, occurs p (a ++ b) = false -> occurs p a = false /\ occurs p b = false.
Proof.
  intros p a b H. split.
  - destruct (occurs p a) eqn:E; [|reflexivity]. rewrite (occurs_app_l p a b E) in H. discriminate H.
  - destruct (occurs p b) eqn:E; [|reflexivity]. rewrite (occurs_app_r p a b E) in H. discriminate H.
Qed.

Ltac crush :=
  repeat match goal with
         | H : _ && _ = true |- _ => apply andb_prop in H; destruct H
         | H : (_ =? _) = true |- _ => apply Z.eqb_eq in H; try discriminate H; subst
         | H : false = true |- _ => discriminate H
         | H : true = false |- _ => discriminate H
         end.

(* the 10-character prefix "__[SCHEMA_" cannot begin inside [x] and end in what follows when what
   follows is empty or itself begins with "__[SCHEMA_" (the only border of the prefix is "_", and it is
   preceded by "__[SCHEMA") *)
Lemma prefix_in_lit : forall x rest, x <> [] ->
  is_prefix tok_prefix (x ++ rest) = true ->
  rest = [] \/ is_prefix tok_prefix rest = true ->
  is_prefix marker x = true.
Proof.
  intros x rest Hx H Hr.
  assert (Hr' : match rest with [] => True | [a] => False | a :: b :: _ => a = 95 /\ b = 95 end).
  { destruct Hr as [->|Hr]; [exact I|]. unfold tok_prefix in Hr.
    destruct rest as [|a [|b rest]]; cbn [is_prefix] in Hr; try discriminate Hr.
    - crush.
    - crush. split; reflexivity. }
  clear Hr. unfold tok_prefix, marker in *.
  destruct x as [|c1 x]; [contradiction|]. clear Hx.
  do 8 (destruct x as [|? x];
        [ cbn [app is_prefix] in H; destruct rest as [|a [|b rest]];
          [ crush | contradiction | destruct Hr' as [-> ->]; cbn [is_prefix] in H; crush ]
        | ]).
  cbn [app is_prefix] in H. crush. reflexivity.
Qed.

Lemma try_match_lit : forall c l rest, occurs marker (c :: l) = false ->
  rest = [] \/ is_prefix tok_prefix rest = true ->
  try_match (c :: l ++ rest) = None.
Proof.
  intros c l rest Ho Hr. unfold try_match.
  destruct (strip_prefix tok_prefix (c :: l ++ rest)) as [r|] eqn:E; [|reflexivity].
  apply strip_prefix_is_prefix in E.
  assert (is_prefix marker (c :: l) = true) as P.
  { apply (prefix_in_lit (c :: l) rest); [discriminate|exact E|exact Hr]. }
  cbn [occurs] in Ho. rewrite P in Ho. discriminate Ho.
Qed.

Lemma scan_lit : forall repl l rest, occurs marker l = false ->
  rest = [] \/ is_prefix tok_prefix rest = true ->
  scan repl (l ++ rest) = bind (scan repl rest) (fun u => Ok (l ++ u)).
Proof.
  intros repl. induction l as [|c l IH]; intros rest Ho Hr.
  - cbn [app]. symmetry. apply bind_ok_r.
  - unfold scan in *. cbn [app scan_aux]. rewrite (try_match_lit c l rest Ho Hr).
    cbn [occurs] in Ho. apply orb_false_iff in Ho. destruct Ho as [_ Ho].
    rewrite (IH rest Ho Hr). destruct (scan_aux repl 0 rest); reflexivity.
Qed.

(* ---- a sequence of literal pieces and tokens ---- *)
Fixpoint trans (repl : str -> result str) (g : list seg) : result str :=
  match g with
  | [] => Ok []
  | Lit s :: r => bind (trans repl r) (fun u => Ok (s ++ u))
  | Tok n :: r => bind (repl n) (fun t => bind (trans repl r) (fun u => Ok (t ++ u)))
  end.
Definition tok_ok (x : seg) : bool :=
  match x with Lit _ => true | Tok n => negb (match n with [] => true | _ => false end) && no_rb n end.

Lemma token_prefix : forall n r, is_prefix tok_prefix (token n ++ r) = true.
Proof. intros. unfold token. rewrite <- app_assoc. apply is_prefix_app_l.
  unfold tok_prefix. cbn. rewrite ?Z.eqb_refl. reflexivity. Qed.

Lemma scan_flat : forall repl g acc, occurs marker (acc ++ skel g) = false -> forallb tok_ok g = true ->
  scan repl (acc ++ flat g) = bind (trans repl g) (fun u => Ok (acc ++ u)).
Proof.
  intros repl. induction g as [|x g IH]; intros acc Ho Hg.
  - unfold flat, skel in *. cbn [map concat] in *. rewrite (scan_lit repl acc []); auto.
    rewrite app_nil_r in Ho. exact Ho.
  - cbn [forallb] in Hg. apply andb_prop in Hg. destruct Hg as [Hx Hg]. destruct x as [s|n].
    + unfold flat, skel in *. cbn [map concat seg_text] in *. rewrite app_assoc in *.
      rewrite (IH (acc ++ s) Ho Hg). cbn [trans]. destruct (trans repl g); cbn [bind]; [|reflexivity].
      rewrite app_assoc. reflexivity.
    + cbn [tok_ok] in Hx. apply andb_prop in Hx. destruct Hx as [Hn Hrb].
      assert (n <> []) as Hn' by (destruct n; [discriminate Hn|discriminate]).
      unfold flat, skel in *. cbn [map concat seg_text] in *.
      apply no_occurs_app in Ho. destruct Ho as [Hacc Ho].
      apply (no_occurs_app marker [c_rb]) in Ho. destruct Ho as [_ Ho].
      rewrite (scan_lit repl acc); [|exact Hacc|right; apply token_prefix].
      rewrite (scan_token repl n _ Hn' Hrb). cbn [trans].
      destruct (repl n) as [t|e]; cbn [bind]; [|reflexivity].
      pose proof (IH [] Ho Hg) as IH'. cbn [app] in IH'. unfold flat in IH'. rewrite IH'.
      destruct (trans repl g); cbn [bind]; reflexivity.
Qed.

Lemma trans_app : forall repl a b,
  trans repl (a ++ b) = bind (trans repl a) (fun x => bind (trans repl b) (fun y => Ok (x ++ y))).
Proof.
  intros repl. induction a as [|x a IH]; intros b.
  - cbn [app trans bind]. symmetry. apply bind_ok_r.
  - cbn [app]. destruct x as [s|n]; cbn [trans]; rewrite IH.
    + destruct (trans repl a); cbn [bind]; [|reflexivity].
      destruct (trans repl b); cbn [bind]; [|reflexivity]. rewrite app_assoc. reflexivity.
    + destruct (repl n); cbn [bind]; [|reflexivity].
      destruct (trans repl a); cbn [bind]; [|reflexivity].
      destruct (trans repl b); cbn [bind]; [|reflexivity]. rewrite app_assoc. reflexivity.
Qed.
