(* C22 (b) - proofs about the two fragments of DispatchFrag.v *)
From Coq Require Import List NArith Bool.
Import ListNotations.
From SAV.sql Require Import DispatchFrag.

(* ---------------- 1. index names ---------------- *)
Lemma index_unchecked_none_asserts : visit_index_ddl false NameNone = DAssertionError.
Proof. reflexivity. Qed.

Lemma index_checked_none_documented : visit_index_ddl true NameNone = DCompileError.
Proof. reflexivity. Qed.

(* with the test in place the only remaining assertion is format_index's own, for a deferred (_NONE_NAME)
   name that no convention resolves; Index objects never carry _NONE_NAME (only the CHECK constraints of
   Boolean/Enum do) *)
Lemma index_checked_no_assert : forall n, n <> NameDeferred None -> visit_index_ddl true n <> DAssertionError.
Proof. intros [|[s|]|s] H; cbn; try discriminate. contradiction. Qed.

Lemma index_named_ok : forall checked s, visit_index_ddl checked (NameStr s) = DOk s.
Proof. intros [|] s; reflexivity. Qed.

Lemma index_assert_iff : forall checked n,
  visit_index_ddl checked n = DAssertionError <-> (n = NameDeferred None \/ (checked = false /\ n = NameNone)).
Proof.
  intros [|] [|[s|]|s]; cbn; split; intros H; try discriminate; auto;
    destruct H as [H|[H1 H2]]; try discriminate; auto.
Qed.

(* ---------------- 2. pickled comparator ---------------- *)
Lemma adapt_consistent : forall e c, consistent e = true -> e_memo e = Some c -> adapt_expression c = OpOk.
Proof.
  intros e c H E. unfold consistent in H. rewrite E in H. unfold adapt_expression.
  destruct (c_cls c), (c_type c), (e_type e); try discriminate; reflexivity.
Qed.

Lemma operate_consistent : forall e, consistent e = true ->
  snd (operate e) = OpOk /\ consistent (fst (operate e)) = true /\ e_memo (fst (operate e)) <> None.
Proof.
  intros e H. unfold operate, get_comparator. destruct (e_memo e) as [c|] eqn:E.
  - cbn. split; [eapply adapt_consistent; eauto|]. split; [exact H|]. rewrite E. discriminate.
  - cbn. split; [|split; [|discriminate]].
    + unfold adapt_expression, new_comparator. cbn. destruct (e_type e); reflexivity.
    + unfold consistent. cbn. destruct (e_type e); reflexivity.
Qed.

Lemma pickle_no_memo : forall e, e_memo e = None -> pickle_roundtrip e = e.
Proof. intros [t m] H. cbn in H. subst. reflexivity. Qed.

(* state invariant: before the first Operate there is no memo; afterwards the memo is consistent *)
Lemma run_guarded_gen : forall h e seen,
  (if seen : bool then consistent e = true else e_memo e = None) ->
  operate_before_pickle seen h = false -> Forall (fun o => o = OpOk) (run e h).
Proof.
  induction h as [|s r IH]; intros e seen Hinv Hg; [constructor|].
  destruct s; cbn [run operate_before_pickle] in *.
  - assert (Hc : consistent e = true).
    { destruct seen; [exact Hinv|]. unfold consistent. rewrite Hinv. reflexivity. }
    destruct (operate_consistent e Hc) as (H1 & H2 & H3).
    destruct (operate e) as [e' o]. cbn [fst snd] in *. constructor; [exact H1|].
    apply (IH e' true); assumption.
  - destruct seen; [discriminate|]. cbn in Hg. rewrite (pickle_no_memo e Hinv). apply (IH e false); assumption.
Qed.

Theorem pickle_before_operate_guarded : forall t h,
  operate_before_pickle false h = false -> Forall (fun o => o = OpOk) (run (fresh t) h).
Proof. intros t h H. apply (run_guarded_gen h (fresh t) false); [reflexivity|exact H]. Qed.

Theorem pickled_comparator_attributeerror : run (fresh TInteger) [Operate; Pickle; Operate] = [OpOk; OpAttributeError].
Proof. reflexivity. Qed.

(* the failure needs a lookup-based comparator class: String/NullType elements survive (with a wrong slot) *)
Lemma pickled_comparator_nolookup_ok : forall t h, has_lookup t = false -> Forall (fun o => o = OpOk) (run (fresh t) h).
Proof.
  intros t h Ht.
  assert (G : forall h e, e_type e = t -> (forall c, e_memo e = Some c -> c_cls c = t) -> Forall (fun o => o = OpOk) (run e h)).
  { induction h0 as [|s r IH]; intros e He Hc; [constructor|]. destruct s; cbn [run].
    - unfold operate, get_comparator. destruct (e_memo e) as [c|] eqn:E.
      + constructor.
        * unfold adapt_expression. rewrite (Hc c eq_refl), Ht. reflexivity.
        * apply IH; [exact He|]. intros c' Hc'. apply Hc. rewrite <- Hc'. symmetry. exact E.
      + constructor.
        * unfold adapt_expression, new_comparator. cbn. rewrite He, Ht. reflexivity.
        * apply IH; [exact He|]. cbn. intros c' Hc'. inversion Hc'. cbn. exact He.
    - apply IH; [exact He|]. cbn. intros c' Hc'. destruct (e_memo e) as [c|] eqn:E; [|discriminate].
      inversion Hc'. cbn. apply Hc. reflexivity. }
  apply G; [reflexivity|]. cbn. discriminate.
Qed.
