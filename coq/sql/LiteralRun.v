(* executable entry point for the correspondence check of C05 *)
From Coq Require Import List NArith ZArith Bool.
Import ListNotations.
From SAV.base Require Import Tree.
From SAV.sql Require Import Literal.
Open Scope N_scope.

Definition as_str (t : tree) : option str := as_list_of as_N t.
Definition of_str (s : str) : tree := of_list of_N s.

Definition as_dialect (t : tree) : option dialect :=
  match t with
  | I 0%Z => Some SQLite | I 1%Z => Some PG | I 2%Z => Some MySQL | I 3%Z => Some MSSQL
  | I 4%Z => Some Oracle | _ => None
  end.
(* 0..5 explicit paramstyle, 6 = the dialect's default *)
Definition as_paramstyle (d : dialect) (t : tree) : option paramstyle :=
  match t with
  | I 0%Z => Some Qmark | I 1%Z => Some Format | I 2%Z => Some Pyformat | I 3%Z => Some Named
  | I 4%Z => Some Numeric | I 5%Z => Some NumericDollar | I 6%Z => Some (default_paramstyle d)
  | _ => None
  end.
(* 0/1 explicit _backslash_escapes, 2 = the dialect's default *)
Definition as_bs (d : dialect) (t : tree) : option bool :=
  match t with I 0%Z => Some false | I 1%Z => Some true | I 2%Z => Some (default_bs d) | _ => None end.

Definition as_cfg (t : tree) : option (dialect * flags * paramstyle) :=
  match t with
  | L [td; tb; tp] =>
    match as_dialect td with
    | Some d =>
      match as_bs d tb, as_paramstyle d tp with
      | Some b, Some p => Some (d, mkFlags (dp_of_paramstyle p) b, p)
      | _, _ => None
      end
    | None => None
    end
  | _ => None
  end.

Definition as_nkind (t : tree) : option nkind :=
  match t with
  | I 0%Z => Some KStr | I 1%Z => Some KFloat | I 2%Z => Some KDecimal | I 3%Z => Some KInt | _ => None
  end.

(* type codes: 0 String 1 Unicode 2 (none given) 3 Integer 4 Boolean 5 Numeric 6 Float 7 Date 8 Time
   9 DateTime 10 TypeDecorator(String) holding non-str objects;  value: L [I kind; payload] *)
Definition as_value (ty : Z) (t : tree) : option value :=
  match t with
  | L [I 0%Z] => Some VNone
  | L [I 1%Z; ts] =>
    match as_str ts with
    | Some s => if Z.eqb ty 0 then Some (VStr TString s) else if Z.eqb ty 1 then Some (VStr TUnicode s)
                else if Z.eqb ty 2 then Some (VStr TAuto s) else None
    | None => None
    end
  (* a non-str Python object of a TypeDecorator over String (process_bind_param -> str): rendered by
     the String processor *)
  | L [I 8%Z; ts] =>
    match as_str ts with
    | Some s => if Z.eqb ty 10 then Some (VStr TString s) else None
    | None => None
    end
  | L [I 2%Z; I z] => if Z.eqb ty 3 then Some (VInt z) else None
  | L [I 3%Z; tb] =>
    match as_bool tb with
    | Some b => if Z.eqb ty 3 then Some (VInt (if b then 1 else 0)%Z)
                else if Z.eqb ty 4 then Some (VBool b) else None
    | None => None
    end
  | L [I 4%Z; L [tk; tx]] =>
    match as_nkind tk, as_str tx with
    | Some k, Some text => if Z.eqb ty 5 || Z.eqb ty 6 then Some (VNum k text) else None
    | _, _ => None
    end
  | L [I 5%Z; L [y; m; d]] =>
    match as_N y, as_N m, as_N d with
    | Some y, Some m, Some d => if Z.eqb ty 7 then Some (VTemporal (VDate (mkDate y m d))) else None
    | _, _, _ => None
    end
  | L [I 6%Z; L [h; mi; s; us]] =>
    match as_N h, as_N mi, as_N s, as_N us with
    | Some h, Some mi, Some s, Some us =>
        if Z.eqb ty 8 then Some (VTemporal (VTime (mkTime h mi s us))) else None
    | _, _, _, _ => None
    end
  | L [I 7%Z; L [y; m; d; h; mi; s; us]] =>
    match as_N y, as_N m, as_N d, as_N h, as_N mi, as_N s, as_N us with
    | Some y, Some m, Some d, Some h, Some mi, Some s, Some us =>
        if Z.eqb ty 9 then Some (VTemporal (VDateTime (mkDate y m d) (mkTime h mi s us))) else None
    | _, _, _, _, _, _, _ => None
    end
  | _ => None
  end.

Fixpoint all_ok (l : list (result str)) : result (list str) :=
  match l with
  | [] => Ok []
  | Ok a :: r => match all_ok r with Ok r' => Ok (a :: r') | CompileError => CompileError end
  | CompileError :: _ => CompileError
  end.

Definition s_lower : str := [108; 111; 119; 101; 114; 40].   (* lower( *)

(* position codes: 2 = IN list, 9 = IN list whose type has bind_expression lower(...), 10 = operand of
   unary minus, anything else = a single literal.  mode: 0 literal_binds, 1 literal_execute.
   Observation: [0; text] | [1] CompileError | [3] KeyError (numeric paramstyle: the %(name)s
   pass finds its pattern inside the rendered text; the harness statements have no such name) *)
Definition observe (p : paramstyle) (mode : Z) (text : str) : tree :=
  if is_numeric_style p then
    match find_pyformat text with Some _ => L [I 3%Z] | None => L [I 0%Z; of_str text] end
  else match positional_placeholder p with
       | Some ph => if Z.eqb mode 0 then L [I 0%Z; of_str (pysub ph 0 text)] else L [I 0%Z; of_str text]
       | None => L [I 0%Z; of_str text]
       end.

Definition render_case (d : dialect) (fl : flags) (p : paramstyle) (mode pos : Z) (vals : list value) : tree :=
  match all_ok (map (render_value d fl) vals) with
  | CompileError => L [I 1%Z]
  | Ok lits =>
    if Z.eqb pos 2 then
      match lits with [] => bad_input | _ => observe p mode (render_in_list lits) end
    else if Z.eqb pos 9 then
      match lits with
      | [] => bad_input
      | _ => observe p mode (if Z.eqb mode 0 then render_in_list_be s_lower [41] lits
                             else process_expanding_be s_lower [41] lits)
      end
    else if Z.eqb pos 10 then
      (* operand of unary minus: the observation includes the operator *)
      match lits with [x] => observe p mode (render_neg (Z.eqb mode 1) x) | _ => bad_input end
    else match lits with [x] => observe p mode x | _ => bad_input end
  end.

(* ---- spec-side validation families *)
Definition is_blank (c : chr) : bool := (c =? 32) || (c =? 10).
Fixpoint skip_blank (s : str) : str :=
  match s with c :: r => if is_blank c then skip_blank r else s | [] => [] end.

Definition as_escmode (t : tree) : option escmode :=
  match t with I 0%Z => Some EscNone | I 1%Z => Some EscMySQL | I 2%Z => Some EscPG | _ => None end.

Definition of_lex (o : option (str * str)) : tree :=
  match o with Some (s, rest) => L [I 1%Z; of_str s; of_str rest] | None => L [I 0%Z] end.

(* ---- post-compile substitution: bindings  L [name; I kind; L values]
   kind 0 = scalar literal_execute string, 1 = expanding literal_execute list of strings,
   2 = expanding bound list (qmark placeholders) *)
Fixpoint join_q (n : nat) : str :=
  match n with O => [] | S O => [63] | S k => 63 :: SEP ++ join_q k end.
Definition as_binding (d : dialect) (fl : flags) (t : tree) : option (str * str) :=
  match t with
  | L [tn; I k; tv] =>
    match as_str tn, as_list_of as_str tv with
    | Some n, Some vs =>
      let lits := map (render_string d fl false) vs in
      if Z.eqb k 0 then match lits with [x] => Some (n, x) | _ => None end
      else if Z.eqb k 1 then match lits with [] => None | _ => Some (n, render_in_list lits) end
      else if Z.eqb k 2 then match lits with [] => None | _ => Some (n, join_q (length lits)) end
      else None
    | _, _ => None
    end
  | _ => None
  end.
Fixpoint lookup (bs : list (str * str)) (n : str) : option str :=
  match bs with
  | [] => None
  | (k, v) :: r => if str_eqb k n then Some v else lookup r n
  end.

Definition run_case (t : tree) : tree :=
  match t with
  (* rendering *)
  | L [I 0%Z; tcfg; I mode; I pos; I ty; tvals] =>
    match as_cfg tcfg, as_list_of (as_value ty) tvals with
    | Some (d, fl, p), Some vals => render_case d fl p mode pos vals
    | _, _ => bad_input
    end
  (* SQLite:  SELECT (<text>)  returns one string  <->  the text is exactly one string literal *)
  | L [I 1%Z; tr] =>
    match as_str tr with
    | Some r =>
      match lex_str (mkLex EscNone false) (skip_blank r) with
      | Some (s, rest) => if forallb is_blank rest then L [I 1%Z; of_str s] else L [I 0%Z]
      | None => L [I 0%Z]
      end
    | None => bad_input
    end
  (* CPython: decimal.Decimal(text) does not raise *)
  | L [I 2%Z; tr] =>
    match as_str tr with Some r => L [of_bool (decimal_accepts r)] | None => bad_input end
  (* the string lexers (compared with the oracle's Python transcription) *)
  | L [I 3%Z; tem; tn; tr] =>
    match as_escmode tem, as_bool tn, as_str tr with
    | Some em, Some n, Some r => of_lex (lex_str (mkLex em n) r)
    | _, _, _ => bad_input
    end
  (* the numeric lexer *)
  | L [I 4%Z; tr] =>
    match as_str tr with Some r => of_lex (lex_signed r) | None => bad_input end
  (* post-compile substitution of the pre-expanded statement text *)
  | L [I 6%Z; tcfg; tpre; tbs] =>
    match as_cfg tcfg, as_str tpre with
    | Some (d, fl, _), Some pre =>
      match as_list_of (as_binding d fl) tbs with
      | Some bs => match pcsub (lookup bs) 0 pre with
                   | POk o => L [I 0%Z; of_str o]
                   | PKeyError => L [I 3%Z]
                   end
      | None => bad_input
      end
    | _, _ => bad_input
    end
  (* the driver's %% collapse *)
  | L [I 5%Z; tr] =>
    match as_str tr with Some r => of_str (collapse r) | None => bad_input end
  | _ => bad_input
  end.
