(* C15, second part: the attributes reflection takes from places other than the CREATE TABLE text.
   * columns: get_columns computes `nullable` from PRAGMA table_info's notnull flag; the DDL compiler emits
     NOT NULL iff `not column.nullable`; SQLite sets notnull iff NOT NULL was written (also for PRIMARY KEY
     columns: a non-rowid primary key column without NOT NULL really accepts NULL) - validated live.
   * partial indexes: get_indexes fetches the CREATE INDEX text with
       SELECT sql FROM <schema>.sqlite_master WHERE name = ? AND type = 'index'
     (the table's own schema; unqualified = main) and searches it with  \)\s+where\s+(.+)  (re.I | re.DOTALL:
     the group runs to the end of the text, newlines included - /repo dd187db).
   The expression of the nullable rule and the schema qualification of the query are extracted from the
   current source on every run (Gen_C15.v); the theorems are stated for any rule / flag satisfying the
   per-run obligation. *)
From Coq Require Import List NArith Bool Lia.
Import ListNotations.
From SAV.sql Require Import Ident IdentProofs Reflect ReflectProofs.
Open Scope N_scope.

Definition kwWHERE : str := [87; 72; 69; 82; 69].

(* (.+) with DOTALL: greedy, to the end of the text, at least one character *)
Definition line_of (t : str) : option str := match t with [] => None | g => Some g end.
(* \s+(.+) after at least one space was consumed: consume more spaces first (greedy), else start the group here *)
Fixpoint best (t : str) : option str :=
  match t with
  | c :: r => if is_space c then match best r with Some g => Some g | None => line_of t end else line_of t
  | [] => None
  end.
Definition pred_tail (t : str) : option str :=
  match t with c :: r => if is_space c then best r else None | [] => None end.
(* one attempt right after a ")" :  \s+where\s+(.+) *)
Definition pred_after_paren (t : str) : option str :=
  match spaces1 t with
  | Some t1 => match ci_prefix kwWHERE t1 with Some t2 => pred_tail t2 | None => None end
  | None => None
  end.
(* partial_pred_re.search(index_sql) *)
Fixpoint pred_search (t : str) : option str :=
  match t with
  | [] => None
  | c :: r => if c =? rpar then match pred_after_paren r with Some g => Some g | None => pred_search r end
              else pred_search r
  end.

(* visit_create_index: CREATE [UNIQUE ]INDEX <name> ON <table> (<cols>)[ WHERE <pred>] *)
Definition sCREATE : str := [67; 82; 69; 65; 84; 69; 32].
Definition sUNIQUEsp : str := [85; 78; 73; 81; 85; 69; 32].
Definition sINDEXsp : str := [73; 78; 68; 69; 88; 32].
Definition sON : str := [32; 79; 78; 32].
Definition render_index_head (unique : bool) (qname qtable : str) (qcols : list str) : str :=
  sCREATE ++ (if unique then sUNIQUEsp else []) ++ sINDEXsp ++ qname ++ sON ++ qtable ++ [sp; lpar] ++ join_cols qcols.
Definition render_index (unique : bool) (qname qtable : str) (qcols : list str) (where_ : option str) : str :=
  render_index_head unique qname qtable qcols ++ rpar ::
  match where_ with Some w => [sp] ++ kwWHERE ++ [sp] ++ w | None => [] end.

(* sqlite_master of every attached database: schema -> (index name -> sql); [None] as a query schema = main *)
Definition masters := list (str * list (str * str)).
Definition s_main : str := [109; 97; 105; 110].
Fixpoint assoc_s {A} (d : list (str * A)) (k : str) : option A :=
  match d with [] => None | (k', v) :: r => if str_eqb k k' then Some v else assoc_s r k end.
(* the schema the lookup query names: the table's schema when the query is qualified *)
Definition query_schema (qualified : bool) (schema : option str) : str :=
  match (if qualified then schema else None) with Some s => s | None => s_main end.
Definition reflect_where (qualified : bool) (ms : masters) (schema : option str) (iname : str) : option str :=
  match assoc_s ms (query_schema qualified schema) with
  | Some m => match assoc_s m iname with Some sql => pred_search sql | None => None end
  | None => None
  end.

(* no attempt of the pattern succeeds at a ")" inside the head (index/table/column names may contain anything) *)
Fixpoint iclean (s t : str) : bool :=
  match s with
  | [] => true
  | c :: s' => (if c =? rpar then is_none (pred_after_paren (s' ++ t)) else true) && iclean s' t
  end.
Definition pred_ok (w : str) : bool :=
  match w with c :: _ => negb (is_space c) | [] => false end.

Lemma pred_search_clean : forall s t, iclean s t = true -> pred_search (s ++ t) = pred_search t.
Proof.
  induction s as [|c s IH]; intros t H; [reflexivity|].
  cbn [iclean] in H. apply andb_true_iff in H. destruct H as [Hc Hs].
  cbn [app pred_search]. destruct (c =? rpar).
  - destruct (pred_after_paren (s ++ t)); [discriminate|]. apply IH. exact Hs.
  - apply IH. exact Hs.
Qed.

Lemma pred_after_paren_rendered : forall w, pred_ok w = true ->
  pred_after_paren ([sp] ++ kwWHERE ++ [sp] ++ w) = Some w.
Proof.
  intros [|c w] H; [discriminate|]. unfold pred_ok in H. apply negb_true_iff in H. rename H into Hs.
  unfold pred_after_paren. cbn [app]. rewrite spaces1_sp.
  change (drop_spaces (kwWHERE ++ sp :: c :: w)) with (kwWHERE ++ sp :: c :: w).
  rewrite ci_prefix_self. unfold pred_tail. change (is_space sp) with true. cbn match.
  cbn [best]. rewrite Hs. reflexivity.
Qed.

(* the predicate of a rendered partial index is read back, for every index name / table / column list that
   passes the boolean guard, and a non-partial index has none when its text is clean *)
Theorem index_pred_roundtrip : forall unique qname qtable qcols w,
  pred_ok w = true ->
  iclean (render_index_head unique qname qtable qcols) (rpar :: [sp] ++ kwWHERE ++ [sp] ++ w) = true ->
  pred_search (render_index unique qname qtable qcols (Some w)) = Some w.
Proof.
  intros unique qname qtable qcols w Hw Hc. unfold render_index.
  rewrite (pred_search_clean _ _ Hc). cbn [pred_search]. rewrite N.eqb_refl.
  rewrite (pred_after_paren_rendered w Hw). reflexivity.
Qed.

Theorem index_nopred_roundtrip : forall unique qname qtable qcols,
  iclean (render_index_head unique qname qtable qcols) [rpar] = true ->
  pred_search (render_index unique qname qtable qcols None) = None.
Proof.
  intros unique qname qtable qcols Hc. unfold render_index. rewrite (pred_search_clean _ _ Hc). reflexivity.
Qed.

(* ... through the catalog: the query must name the schema the index lives in *)
Theorem reflect_where_roundtrip : forall ms schema m iname unique qname qtable qcols where_,
  assoc_s ms (query_schema true schema) = Some m ->
  assoc_s m iname = Some (render_index unique qname qtable qcols where_) ->
  match where_ with
  | Some w => pred_ok w = true /\
              iclean (render_index_head unique qname qtable qcols) (rpar :: [sp] ++ kwWHERE ++ [sp] ++ w) = true
  | None => iclean (render_index_head unique qname qtable qcols) [rpar] = true
  end ->
  reflect_where true ms schema iname = where_.
Proof.
  intros ms schema m iname unique qname qtable qcols where_ Hm Hi Hg. unfold reflect_where. rewrite Hm, Hi.
  destruct where_ as [w|].
  - destruct Hg as [Hw Hc]. apply index_pred_roundtrip; assumption.
  - apply index_nopred_roundtrip. exact Hg.
Qed.

(* REFUTED for an unqualified query: an index of a table in an attached schema is looked up in main *)
Definition demo_sql : str :=
  render_index true [117; 113] [116] [[120]] (Some [120; 32; 62; 32; 48]).       (* CREATE UNIQUE INDEX uq ON t (x) WHERE x > 0 *)
Definition demo_masters : masters := [(s_main, []); ([97; 117; 120], [([117; 113], demo_sql)])].
Theorem unqualified_index_query_refuted :
  reflect_where true demo_masters (Some [97; 117; 120]) [117; 113] = Some [120; 32; 62; 32; 48] /\
  reflect_where false demo_masters (Some [97; 117; 120]) [117; 113] = None.
Proof. vm_compute. split; reflexivity. Qed.

(* ------------------------------------------------------------------ nullable *)
(* a column as created: nullable flag, position in the primary key (0 = not part of it) *)
Record col := { c_nullable : bool; c_pk : N }.
(* SQLite's table_info for it: notnull iff the DDL said NOT NULL, i.e. iff not nullable *)
Definition table_info_notnull (c : col) : bool := negb (c_nullable c).
Definition reflect_nullable (rule : bool -> bool -> bool) (c : col) : bool :=
  rule (table_info_notnull c) (negb (c_pk c =? 0)).
(* reflect(create(T)) = T on `nullable`, for EVERY column - primary key members included *)
Theorem nullable_roundtrip : forall rule, (forall nn pk, rule nn pk = negb nn) ->
  forall c, reflect_nullable rule c = c_nullable c.
Proof. intros rule H c. unfold reflect_nullable, table_info_notnull. rewrite H. apply negb_involutive. Qed.
(* REFUTED for a rule that also looks at the primary key *)
Theorem nullable_pk_rule_refuted :
  reflect_nullable (fun nn pk => negb nn && negb pk) {| c_nullable := true; c_pk := 2 |} = false.
Proof. reflexivity. Qed.

(* a predicate spanning several lines is read back whole (repaired by /repo dd187db; it used to be cut at the newline) *)
Example index_pred_newline_roundtrip :
  pred_search (render_index false [105] [116] [[120]] (Some [34; 97; 10; 98; 34; 32; 62; 32; 48])) =
  Some [34; 97; 10; 98; 34; 32; 62; 32; 48].
Proof. vm_compute. reflexivity. Qed.
