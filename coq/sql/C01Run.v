(* executable entry point for the correspondence check of C01, parameterised by the operator table *)
From Coq Require Import List Arith ZArith Bool.
Import ListNotations.
From SAV.base Require Import Tree.
From SAV.sql Require Import Prec SAExpr.

(* uex encoding: [0,n] atom | [1,o,l,r] binary | [2,l,r] and_ | [3,l,r] or_ | [4,e] ~e | [5,e] -e *)
Fixpoint dec_uex (fuel : nat) (t : tree) : option uex :=
  match fuel with
  | O => None
  | S f =>
    match t with
    | L [I 0%Z; I n] => Some (UA (Z.to_nat n))
    | L [I 1%Z; I o; l; r] =>
        match dec_uex f l, dec_uex f r with Some a, Some b => Some (UB (Z.to_nat o) a b) | _, _ => None end
    | L [I 2%Z; l; r] =>
        match dec_uex f l, dec_uex f r with Some a, Some b => Some (UAnd a b) | _, _ => None end
    | L [I 3%Z; l; r] =>
        match dec_uex f l, dec_uex f r with Some a, Some b => Some (UOr a b) | _, _ => None end
    | L [I 4%Z; e] => match dec_uex f e with Some a => Some (UNot a) | None => None end
    | L [I 5%Z; e] => match dec_uex f e with Some a => Some (UNeg a) | None => None end
    | _ => None
    end
  end.

Definition enc_tok (t : tok) : tree :=
  match t with
  | TA n => L [I 0%Z; of_nat n]
  | TO o => L [I 1%Z; of_nat o]
  | TP u => L [I 2%Z; of_nat u]
  | TL => L [I 3%Z]
  | TR => L [I 4%Z]
  end.

Definition run_with (T : satab) (t : tree) : tree :=
  match dec_uex 64 t with
  | Some u => L (map enc_tok (render (construct T u)))
  | None => bad_input
  end.
