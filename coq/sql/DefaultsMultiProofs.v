(* C13 - insert().values([rows]) (crud._extend_values_for_multiparams), Update.ordered_values() (the
   "remaining columns" rule of _scan_cols) and the pre-executed primary key default *)
From Coq Require Import List ZArith Bool Lia PeanoNat.
Import ListNotations.
From SAV.sql Require Import Defaults DefaultsProofs DefaultsManyProofs.
Open Scope Z_scope.

Section MV.
Variable cval : nat -> nat -> Z.
Variable ctxval : nat -> pset -> nat -> Z.
Variable sqlval : nat -> Z.
Variable srvval : nat -> Z.
Notation multi_row := (multi_row cval ctxval sqlval srvval).
Notation multi_rows := (multi_rows cval ctxval sqlval srvval).
Notation core_exec := (core_exec cval ctxval sqlval srvval).

Definition absent_val (c : col) : val := match cdef c with ServerSide e => Some (srvval e) | _ => None end.
(* the value column [c] gets in a row, reached with call counters [cs] *)
Definition mval (p0 : pset) (c : col) (row : pset) (cs : calls) : val :=
  if in_values0 p0 c then
    match get (ckey c) row with
    | Some v => v
    | None => match cdef c with
              | Scalar z => Some z
              | Callable f => Some (cval f (count f cs))
              | CtxCallable f => Some (ctxval f row (count f cs))
              | SqlExpr e => Some (sqlval e)
              | _ => None
              end
    end
  else absent_val c.
Definition mfires (p0 : pset) (row : pset) (c : col) : bool := in_values0 p0 c && negb (has (ckey c) row).
Definition mnext (p0 : pset) (c : col) (row : pset) (cs : calls) : calls :=
  if mfires p0 row c then match fn_of c with Some f => bump f cs | None => cs end else cs.

Lemma multi_row_cons : forall p0 c r row cs,
  multi_row p0 (c :: r) row cs =
    ((ckey c, mval p0 c row cs) :: fst (multi_row p0 r row (mnext p0 c row cs)),
     snd (multi_row p0 r row (mnext p0 c row cs))).
Proof.
  intros. cbn [Defaults.multi_row]. unfold mval, mnext, mfires, has, fn_of, absent_val.
  destruct (in_values0 p0 c); cbn [andb].
  - destruct (get (ckey c) row) as [v|]; cbn [negb].
    + destruct (multi_row p0 r row cs); reflexivity.
    + destruct (cdef c); cbn [negb];
        match goal with |- context [Defaults.multi_row _ _ _ _ _ r row ?x] => destruct (multi_row p0 r row x) end; reflexivity.
  - destruct (multi_row p0 r row cs); reflexivity.
Qed.

Lemma multi_row_get : forall p0 cols row cs c, distinct_keys cols = true -> In c cols ->
  exists csi, get (ckey c) (fst (multi_row p0 cols row cs)) = Some (mval p0 c row csi) /\
              (forall f, (forall c', In c' cols -> c' <> c -> fn_of c' <> Some f) -> count f csi = count f cs).
Proof.
  intros p0. induction cols as [|c0 r IH]; intros row cs c Hk Hin; [destruct Hin|].
  assert (Hk' : distinct_keys r = true) by (cbn [distinct_keys] in Hk; apply andb_prop in Hk; apply Hk).
  rewrite multi_row_cons. cbn [fst get]. destruct Hin as [->|Hin].
  - rewrite Nat.eqb_refl. exists cs. auto.
  - pose proof (distinct_keys_notin c0 r Hk c Hin) as Hne.
    destruct (Nat.eqb (ckey c) (ckey c0)) eqn:E; [apply Nat.eqb_eq in E; exfalso; auto|].
    destruct (IH row (mnext p0 c0 row cs) c Hk' Hin) as [csi [G C]]. exists csi. split; [exact G|].
    intros f Hf. rewrite C; [|intros c' Hc' N; apply Hf; [right; exact Hc'|exact N]].
    unfold mnext. destruct (mfires p0 row c0); [|reflexivity].
    destruct (fn_of c0) as [f0|] eqn:E0; [|reflexivity].
    apply count_bump_other. intros ->. apply (Hf c0 (or_introl eq_refl)); [|exact E0].
    intros ->. apply Hne. reflexivity.
Qed.

Lemma multi_row_count : forall p0 cols row cs f,
  count f (snd (multi_row p0 cols row cs)) =
    (count f cs + length (filter (fun c => mfires p0 row c && match fn_of c with Some f' => Nat.eqb f f' | None => false end) cols))%nat.
Proof.
  intros p0. induction cols as [|c r IH]; intros row cs f; [cbn; lia|].
  rewrite multi_row_cons. cbn [snd filter]. rewrite IH. unfold mnext.
  destruct (mfires p0 row c); cbn [andb]; [|lia].
  destruct (fn_of c) as [f0|]; [|lia]. destruct (Nat.eqb f f0) eqn:E.
  - apply Nat.eqb_eq in E. subst. rewrite count_bump_same. cbn [length]. lia.
  - apply Nat.eqb_neq in E. rewrite count_bump_other; auto.
Qed.

(* with distinct callables the only column that can call [f] is the one that carries it *)
Lemma mfires_filter : forall p0 cols row c f, distinct_fns cols = true -> In c cols -> fn_of c = Some f ->
  length (filter (fun c' => mfires p0 row c' && match fn_of c' with Some f' => Nat.eqb f f' | None => false end) cols)
  = if mfires p0 row c then 1%nat else 0%nat.
Proof.
  intros p0. induction cols as [|c0 r IH]; intros row c f Hf Hin Hfn; [destruct Hin|].
  assert (Hf' : distinct_fns r = true) by (cbn [distinct_fns] in Hf; apply andb_prop in Hf; apply Hf).
  cbn [filter]. destruct Hin as [->|Hin].
  - rewrite Hfn, Nat.eqb_refl, andb_true_r.
    assert (filter (fun c' => mfires p0 row c' && match fn_of c' with Some f' => Nat.eqb f f' | None => false end) r = []) as E.
    { destruct (filter _ r) as [|c' t] eqn:E; [reflexivity|].
      assert (In c' (c' :: t)) as X by (left; reflexivity). rewrite <- E in X. apply filter_In in X.
      destruct X as [Hin' Hu]. apply andb_prop in Hu. destruct Hu as [_ Hu].
      destruct (fn_of c') as [f'|] eqn:E'; [|discriminate Hu]. apply Nat.eqb_eq in Hu. subst f'.
      exfalso. apply (distinct_fns_notin c r f Hf Hfn c' Hin' E'). }
    destruct (mfires p0 row c); cbn [length]; rewrite E; reflexivity.
  - assert ((mfires p0 row c0 && match fn_of c0 with Some f' => Nat.eqb f f' | None => false end) = false) as ->;
      [|apply (IH row c f Hf' Hin Hfn)].
    destruct (fn_of c0) as [f0|] eqn:E0; [|apply andb_false_r].
    destruct (Nat.eqb f f0) eqn:E; [|apply andb_false_r]. apply Nat.eqb_eq in E. subst f0.
    exfalso. apply (distinct_fns_notin c0 r f Hf E0 c Hin Hfn).
Qed.

Lemma omitting_app : forall c a b, omitting c (a ++ b) = (omitting c a + omitting c b)%nat.
Proof. intros. unfold omitting. rewrite filter_app, app_length. reflexivity. Qed.

(* every row of the statement *)
Lemma multi_rows_nth : forall p0 cols, distinct_fns cols = true ->
  forall rows cs i row, nth_error rows i = Some row ->
  exists csi, nth_error (fst (multi_rows p0 cols rows cs)) i = Some (fst (multi_row p0 cols row csi)) /\
    forall c f, In c cols -> fn_of c = Some f -> in_values0 p0 c = true ->
      count f csi = (count f cs + omitting c (firstn i rows))%nat.
Proof.
  intros p0 cols Hf. induction rows as [|r0 rest IH]; intros cs i row Hn; [destruct i; discriminate Hn|].
  cbn [Defaults.multi_rows]. destruct (multi_row p0 cols r0 cs) as [a cs1] eqn:E1.
  destruct (multi_rows p0 cols rest cs1) as [b cs2] eqn:E2. cbn [fst]. destruct i as [|i].
  - inversion Hn; subst. exists cs. cbn [nth_error firstn]. rewrite E1. split; [reflexivity|].
    intros. unfold omitting. cbn. lia.
  - cbn [nth_error] in Hn. destruct (IH cs1 i row Hn) as [csi [G C]]. rewrite E2 in G. cbn [fst] in G.
    exists csi. split; [exact G|]. intros c f Hin Hfn Hv. rewrite (C c f Hin Hfn Hv).
    cbn [firstn]. change (r0 :: firstn i rest) with ([r0] ++ firstn i rest). rewrite omitting_app.
    pose proof (multi_row_count p0 cols r0 cs f) as X. rewrite E1 in X. cbn [snd] in X. rewrite X.
    rewrite (mfires_filter p0 cols r0 c f Hf Hin Hfn). unfold mfires, omitting. rewrite Hv. cbn [andb filter].
    destruct (has (ckey c) r0); cbn [negb length]; lia.
Qed.

Lemma multi_rows_count : forall p0 cols, distinct_fns cols = true ->
  forall rows cs c f, In c cols -> fn_of c = Some f -> in_values0 p0 c = true ->
  count f (snd (multi_rows p0 cols rows cs)) = (count f cs + omitting c rows)%nat.
Proof.
  intros p0 cols Hf. induction rows as [|r0 rest IH]; intros cs c f Hin Hfn Hv; [unfold omitting; cbn; lia|].
  cbn [Defaults.multi_rows]. destruct (multi_row p0 cols r0 cs) as [a cs1] eqn:E1.
  destruct (multi_rows p0 cols rest cs1) as [b cs2] eqn:E2. cbn [snd].
  pose proof (IH cs1 c f Hin Hfn Hv) as X. rewrite E2 in X. cbn [snd] in X. rewrite X.
  pose proof (multi_row_count p0 cols r0 cs f) as Y. rewrite E1 in Y. cbn [snd] in Y. rewrite Y.
  rewrite (mfires_filter p0 cols r0 c f Hf Hin Hfn). change (r0 :: rest) with ([r0] ++ rest). rewrite omitting_app.
  unfold mfires, omitting. rewrite Hv. cbn [andb filter]. destruct (has (ckey c) r0); cbn [negb length]; lia.
Qed.

(* a column with a Python or SQL default is always in the VALUES list *)
Lemma in_values0_default : forall p0 c,
  match cdef c with Scalar _ | Callable _ | CtxCallable _ | SqlExpr _ => True | _ => False end -> in_values0 p0 c = true.
Proof. intros p0 c H. unfold in_values0, plan_col. destruct (has (ckey c) p0); [reflexivity|]. destruct (cdef c); try reflexivity; destruct H. Qed.

(* the per-row presence rule of _extend_values_for_multiparams, for every row and every column *)
Theorem multi_values_rule : forall cols p0 rest cs i row c,
  distinct_keys cols = true -> distinct_fns cols = true ->
  nth_error (p0 :: rest) i = Some row -> In c cols ->
  exists srow, nth_error (fst (multi_rows p0 cols (p0 :: rest) cs)) i = Some srow /\
    (* in the VALUES list and present in this row: the row's value, None included *)
    (in_values0 p0 c = true -> forall v, get (ckey c) row = Some v -> get (ckey c) srow = Some v) /\
    (* omitted in this row: the default again *)
    (get (ckey c) row = None ->
       match cdef c with
       | Scalar z => get (ckey c) srow = Some (Some z)
       | SqlExpr e => get (ckey c) srow = Some (Some (sqlval e))
       | Callable f => get (ckey c) srow = Some (Some (cval f (count f cs + omitting c (firstn i (p0 :: rest)))))
       | _ => True
       end) /\
    (* not in the VALUES list row 0 decided: the statement does not mention it, whatever the row supplies *)
    (in_values0 p0 c = false -> get (ckey c) srow = Some (absent_val c)).
Proof.
  intros cols p0 rest cs i row c Hk Hf Hn Hin.
  destruct (multi_rows_nth p0 cols Hf (p0 :: rest) cs i row Hn) as [csi [G C]].
  destruct (multi_row_get p0 cols row csi c Hk Hin) as [csj [Gc Cc]].
  eexists. split; [exact G|]. rewrite Gc. unfold mval. split; [|split].
  - intros Hv v Hg. rewrite Hv, Hg. reflexivity.
  - intros Hg. destruct (cdef c) eqn:Ed; try exact I.
    + rewrite (in_values0_default p0 c) by (rewrite Ed; exact I). rewrite Hg. reflexivity.
    + assert (Hv : in_values0 p0 c = true) by (apply in_values0_default; rewrite Ed; exact I).
      rewrite Hv, Hg. f_equal. f_equal. f_equal.
      assert (Hfn : fn_of c = Some f) by (unfold fn_of; rewrite Ed; reflexivity).
      rewrite Cc; [apply (C c f Hin Hfn Hv)|].
      intros c' Hc' N E'.
      clear - Hf Hin Hc' N E' Hfn. induction cols as [|c0 r IH]; [destruct Hin|].
      assert (Hf' : distinct_fns r = true) by (cbn [distinct_fns] in Hf; apply andb_prop in Hf; apply Hf).
      destruct Hin as [->|Hin], Hc' as [->|Hc'].
      * apply N. reflexivity.
      * apply (distinct_fns_notin c r f Hf Hfn c' Hc' E').
      * apply (distinct_fns_notin c' r f Hf E' c Hin Hfn).
      * apply IH; auto.
    + rewrite (in_values0_default p0 c) by (rewrite Ed; exact I). rewrite Hg. reflexivity.
  - intros Hv. rewrite Hv. reflexivity.
Qed.

(* callables: once per row that omits the column, over the whole statement *)
Theorem multi_values_calls : forall cols p0 rest cs c f,
  distinct_fns cols = true -> In c cols -> cdef c = Callable f ->
  count f (snd (multi_rows p0 cols (p0 :: rest) cs)) = (count f cs + omitting c (p0 :: rest))%nat.
Proof.
  intros cols p0 rest cs c f Hf Hin Ed. apply multi_rows_count; auto.
  - unfold fn_of. rewrite Ed. reflexivity.
  - apply in_values0_default. rewrite Ed. exact I.
Qed.

(* the CompileError of _process_multiparam_default_bind: raised exactly for a row that lacks a column of the
   VALUES list which has no Python / SQL default *)
Theorem multi_check_row_spec : forall p0 i cols row,
  multi_check_row p0 i cols row = None <->
  forall c, In c cols -> in_values0 p0 c = true -> has (ckey c) row = false ->
    match cdef c with NoDefault | ServerSide _ => False | _ => True end.
Proof.
  intros p0 i. induction cols as [|c0 r IH]; intros row; cbn [multi_check_row].
  - split; [intros _ c []|reflexivity].
  - destruct (in_values0 p0 c0 && negb (has (ckey c0) row) &&
              match cdef c0 with NoDefault | ServerSide _ => true | _ => false end) eqn:E.
    + split; [discriminate|]. intros H. exfalso. apply andb_prop in E. destruct E as [E E3].
      apply andb_prop in E. destruct E as [E1 E2]. apply negb_true_iff in E2.
      specialize (H c0 (or_introl eq_refl) E1 E2). destruct (cdef c0); try discriminate E3; exact H.
    + rewrite IH. split.
      * intros H c [<-|Hin] Hv Hh; [|apply H; auto].
        rewrite Hv, Hh in E. cbn [negb andb] in E. destruct (cdef c0); try discriminate E; exact I.
      * intros H c Hin. apply H. right. exact Hin.
Qed.

(* ---- ordered_values: every column of the table is still scanned ---- *)
Lemma ordered_cols_In : forall order cols c, In c (ordered_cols order cols) <-> In c cols.
Proof.
  intros order cols c. unfold ordered_cols. rewrite in_app_iff. split.
  - intros [H|H].
    + apply in_flat_map in H. destruct H as [k [_ H]]. apply filter_In in H. apply H.
    + apply filter_In in H. apply H.
  - intros H. destruct (existsb (Nat.eqb (ckey c)) order) eqn:E.
    + left. apply existsb_exists in E. destruct E as [k [Hk Ek]]. apply in_flat_map. exists k. split; [exact Hk|].
      apply filter_In. split; [exact H|exact Ek].
    + right. apply filter_In. split; [exact H|]. rewrite E. reflexivity.
Qed.

Theorem ordered_values_rule : forall order cols p old cs,
  distinct_keys (ordered_cols order cols) = true -> distinct_fns (ordered_cols order cols) = true ->
  exists row cs',
    core_exec (ordered_cols order cols) [p] [old] cs = Ok ([row], cs') /\
    forall c, In c cols ->
      (forall v, get (ckey c) p = Some v -> get (ckey c) row = Some v) /\
      (get (ckey c) p = None ->
         exists pr v, get (ckey c) row = Some v /\
                      default_ok cval ctxval sqlval srvval old c p pr (fn_count c cs) v /\
                      (forall c' v', In c' cols -> get (ckey c') p = Some v' -> get (ckey c') pr = Some v')).
Proof.
  intros order cols p old cs Hk Hf.
  destruct (single_spec cval ctxval sqlval srvval (ordered_cols order cols) p old cs Hk Hf) as [row [cs' [E R]]].
  exists row, cs'. split; [exact E|]. intros c Hin.
  destruct (R c (proj2 (ordered_cols_In order cols c) Hin)) as [A B]. split; [exact A|].
  intros Hn. destruct (B Hn) as [pr [v [G [D Ag]]]]. exists pr, v. split; [exact G|]. split; [exact D|].
  intros c' v' Hc'. apply Ag. apply ordered_cols_In. exact Hc'.
Qed.

(* ---- the pre-executed primary key default: whatever non-NULL value was fetched is the key ---- *)
Theorem preexec_pk_kept : forall cols p old cs z c,
  distinct_keys cols = true -> distinct_fns cols = true -> In c cols -> ckey c = O ->
  exists row cs',
    core_exec cols [(O, preexec_param None (Some z)) :: p] [old] cs = Ok ([row], cs') /\
    get O row = Some (Some z).
Proof.
  intros cols p old cs z c Hk Hf Hin Hc.
  destruct (single_spec cval ctxval sqlval srvval cols ((O, preexec_param None (Some z)) :: p) old cs Hk Hf)
    as [row [cs' [E R]]].
  exists row, cs'. split; [exact E|]. destruct (R c Hin) as [A _]. rewrite Hc in A. apply A. reflexivity.
Qed.

End MV.
