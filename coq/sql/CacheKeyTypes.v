(* C02 - the type component of the cache key.  TypeEngine._static_cache_key (sql/type_api.py):
     (cls,) + tuple((k, self.__dict__[k]) for k in util.get_cls_kwargs(cls)
                    if k in self.__dict__ and not k.startswith("_") and <skip test>)
   with the skip test  self.__dict__[k] is not None.  Model + proof that the key is injective in the
   constructor arguments for that skip test, and is not for a truthiness test. *)
From Coq Require Import List NArith ZArith Bool Lia.
Import ListNotations.
From SAV.sql Require Import CacheKey.

Inductive skipmode := SkipNone (* "is not None" *) | SkipFalsy (* "if value" *).
(* one constructor argument name of the class: is it in __dict__ under a public name, and its value *)
Record targ := mkArg { tpresent : bool; tval : atom }.
Definition keeps (m : skipmode) (a : targ) : bool :=
  tpresent a && match m with SkipNone => negb (is_none (tval a)) | SkipFalsy => atruthy (tval a) end.
(* the (name, value) pairs of the key; names are positions in get_cls_kwargs(cls) *)
Fixpoint tkey_from (m : skipmode) (i : nat) (args : list targ) : list (nat * atom) :=
  match args with
  | [] => []
  | a :: r => (if keeps m a then [(i, tval a)] else []) ++ tkey_from m (S i) r
  end.
Definition tkey (m : skipmode) (args : list targ) : list (nat * atom) := tkey_from m 0 args.
(* what the instance was constructed with: None when the argument was not given *)
Definition eff (a : targ) : atom := if tpresent a then tval a else ANone.

Fixpoint tkey_eqb (x y : list (nat * atom)) : bool :=
  match x, y with
  | [], [] => true
  | (i, a) :: x', (j, b) :: y' => Nat.eqb i j && atom_eqb a b && tkey_eqb x' y'
  | _, _ => false
  end.

Lemma tkey_from_ge : forall m args i p, In p (tkey_from m i args) -> i <= fst p.
Proof.
  induction args as [|a r IH]; intros i p H; [contradiction|]. cbn in H. apply in_app_or in H as [H|H].
  - destruct (keeps m a); [|contradiction]. destruct H as [<-|[]]. cbn. lia.
  - specialize (IH _ _ H). lia.
Qed.

Lemma is_none_eq : forall x, is_none x = true -> x = ANone.
Proof.
  intros [i t]; unfold is_none; cbn. intro H. apply andb_true_iff in H as [H1 H2].
  apply Z.eqb_eq in H1. apply negb_true_iff in H2. subst; reflexivity.
Qed.
Lemma unkept_none : forall a, keeps SkipNone a = false -> eff a = ANone.
Proof.
  intros [p v]; unfold keeps, eff; cbn. destruct p; [|reflexivity]. cbn. intro H.
  apply negb_false_iff in H. apply is_none_eq, H.
Qed.
Lemma kept_eff : forall m a, keeps m a = true -> eff a = tval a.
Proof. intros m [p v]; unfold keeps, eff; cbn. destruct p; [reflexivity | discriminate]. Qed.

(* two instances of one class (same argument names) with equal static keys were constructed with
   equal arguments *)
Theorem tkey_injective : forall a1 a2, length a1 = length a2 ->
  tkey SkipNone a1 = tkey SkipNone a2 -> map eff a1 = map eff a2.
Proof.
  unfold tkey. generalize 0. intros i a1. revert i.
  induction a1 as [|a r IH]; intros i [|b r'] Hl H; try discriminate; [reflexivity|].
  cbn in Hl. injection Hl as Hl. cbn [tkey_from map] in *.
  destruct (keeps SkipNone a) eqn:Ka, (keeps SkipNone b) eqn:Kb; cbn [app] in H.
  - injection H as Hv Hr. rewrite (kept_eff _ _ Ka), (kept_eff _ _ Kb), Hv. f_equal. exact (IH _ _ Hl Hr).
  - exfalso. assert (In (i, tval a) (tkey_from SkipNone (S i) r')) as Hi by (rewrite <- H; left; reflexivity).
    apply tkey_from_ge in Hi. cbn in Hi. lia.
  - exfalso. assert (In (i, tval b) (tkey_from SkipNone (S i) r)) as Hi by (rewrite H; left; reflexivity).
    apply tkey_from_ge in Hi. cbn in Hi. lia.
  - rewrite (unkept_none _ Ka), (unkept_none _ Kb). f_equal. exact (IH _ _ Hl H).
Qed.

(* with a truthiness test Numeric(10, 0) and Numeric(10) share their key *)
Definition numeric_10_0 : list targ := [mkArg true (mkA 10 true); mkArg true (mkA 77 false)].
Definition numeric_10   : list targ := [mkArg true (mkA 10 true); mkArg true ANone].
Lemma tkey_falsy_not_injective :
  tkey SkipFalsy numeric_10_0 = tkey SkipFalsy numeric_10 /\ map eff numeric_10_0 <> map eff numeric_10 /\
  tkey SkipNone numeric_10_0 <> tkey SkipNone numeric_10.
Proof. repeat split; vm_compute; discriminate. Qed.
