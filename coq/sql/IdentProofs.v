(* C06 - proofs about the identifier quoting model (Ident.v) *)
From Coq Require Import List NArith Bool Lia.
Import ListNotations.
From SAV.sql Require Import Ident.
Open Scope N_scope.

Ltac bsplit :=
  repeat match goal with
         | H : _ && _ = true |- _ => apply andb_prop in H; destruct H
         end.

(* ---------------- basic equalities ---------------- *)
Lemma str_eqb_eq : forall a b, str_eqb a b = true <-> a = b.
Proof.
  induction a as [|x a IH]; destruct b as [|y b]; cbn [str_eqb]; split; intro H; try discriminate; auto.
  - apply andb_prop in H. destruct H as [H1 H2]. apply N.eqb_eq in H1. apply IH in H2. now subst.
  - inversion H; subst. rewrite N.eqb_refl. cbn. now apply IH.
Qed.
Lemma str_eqb_refl : forall a, str_eqb a a = true.
Proof. intro a. now apply str_eqb_eq. Qed.

Lemma memN_In : forall c l, memN c l = true <-> In c l.
Proof.
  intros c l. unfold memN. rewrite existsb_exists. split.
  - intros [x [Hx He]]. apply N.eqb_eq in He. now subst.
  - intro H. exists c. split; auto. apply N.eqb_refl.
Qed.
Lemma memN_false : forall c l, memN c l = false <-> ~ In c l.
Proof.
  intros c l. rewrite <- memN_In. destruct (memN c l); split; intro H; auto; try discriminate.
  exfalso. now apply H.
Qed.
Lemma mem_str_In : forall s l, mem_str s l = true <-> In s l.
Proof.
  intros s l. unfold mem_str. rewrite existsb_exists. split.
  - intros [x [Hx He]]. apply str_eqb_eq in He. now subst.
  - intro H. exists s. split; auto. apply str_eqb_refl.
Qed.

(* ---------------- ranges ---------------- *)
Lemma enum_range_In : forall r c, N.leb (fst r) c && N.leb c (snd r) = true -> In c (enum_range r).
Proof.
  intros [lo hi] c H. cbn [fst snd] in *. apply andb_prop in H. destruct H as [H1 H2].
  apply N.leb_le in H1. apply N.leb_le in H2. unfold enum_range. cbn [fst snd].
  apply in_map_iff. exists (N.to_nat (c - lo)). split.
  - rewrite N2Nat.id. lia.
  - apply in_seq. lia.
Qed.
Lemma enum_ranges_In : forall rs c, in_ranges rs c = true -> In c (enum_ranges rs).
Proof.
  intros rs c H. unfold in_ranges in H. apply existsb_exists in H. destruct H as [r [Hr Hc]].
  unfold enum_ranges. apply in_flat_map. exists r. split; auto. now apply enum_range_In.
Qed.

(* ---------------- double / undouble ---------------- *)
Lemma double_cons : forall c x s, double c (x :: s) = (if N.eqb x c then [c; c] else [x]) ++ double c s.
Proof. reflexivity. Qed.

Lemma double_notin : forall c s, ~ In c s -> double c s = s.
Proof.
  intros c s. induction s as [|x s IH]; intro H; [reflexivity|].
  rewrite double_cons. destruct (N.eqb_spec x c) as [E|E].
  - exfalso. apply H. left. auto.
  - cbn [app]. f_equal. apply IH. intro. apply H. now right.
Qed.

Lemma undouble_notin : forall c s, ~ In c s -> undouble c s = s.
Proof.
  intros c s. induction s as [|x s IH]; intro H; [reflexivity|].
  cbn [undouble]. destruct (N.eqb_spec x c) as [E|E].
  - exfalso. apply H. left. auto.
  - f_equal. apply IH. intro. apply H. now right.
Qed.

Lemma undouble_double_app : forall c s t, undouble c (double c s ++ t) = s ++ undouble c t.
Proof.
  intros c s t. induction s as [|x s IH]; [reflexivity|].
  rewrite double_cons. destruct (N.eqb_spec x c) as [E|E].
  - subst x. cbn [app undouble]. rewrite !N.eqb_refl. now rewrite IH.
  - cbn [app undouble]. destruct (N.eqb_spec x c); [contradiction|]. now rewrite IH.
Qed.
Lemma undouble_double : forall c s, undouble c (double c s) = s.
Proof. intros c s. rewrite <- (app_nil_r (double c s)), undouble_double_app. cbn. apply app_nil_r. Qed.

Lemma undouble_strict_notin : forall c s, ~ In c s -> undouble_strict c s = Some s.
Proof.
  intros c s. induction s as [|x s IH]; intro H; [reflexivity|].
  cbn [undouble_strict]. destruct (N.eqb_spec x c) as [E|E].
  - exfalso. apply H. left. auto.
  - rewrite IH; auto. intro. apply H. now right.
Qed.
Lemma undouble_strict_double_app : forall c s t u, undouble_strict c t = Some u ->
  undouble_strict c (double c s ++ t) = Some (s ++ u).
Proof.
  intros c s t u Ht. induction s as [|x s IH]; [exact Ht|].
  rewrite double_cons. destruct (N.eqb_spec x c) as [E|E].
  - subst x. cbn [app undouble_strict]. rewrite !N.eqb_refl. now rewrite IH.
  - cbn [app undouble_strict]. destruct (N.eqb_spec x c); [contradiction|]. now rewrite IH.
Qed.

Lemma double_In_other : forall c d s, In d (double c s) -> In d s.
Proof.
  intros c d s. induction s as [|x s IH]; [auto|]. rewrite double_cons. intro H.
  apply in_app_or in H. destruct H as [H|H].
  - destruct (N.eqb_spec x c) as [E|E]; cbn in H.
    + left. subst. destruct H as [H|[H|[]]]; auto.
    + destruct H as [H|[]]. now left.
  - right. auto.
Qed.

Lemma double_nonempty : forall c s, s <> [] -> double c s <> [].
Proof.
  intros c [|x s] H; [contradiction|]. rewrite double_cons. destruct (N.eqb x c); discriminate.
Qed.

(* ---------------- lower ---------------- *)
Lemma assoc_lower_notin : forall t c, memN c (map fst t) = false -> assoc_lower t c = [c].
Proof.
  induction t as [|[k v] t IH]; intros c H; [reflexivity|].
  cbn [assoc_lower]. cbn [map fst memN existsb] in H. unfold memN in IH.
  apply orb_false_iff in H. destruct H as [H1 H2]. rewrite N.eqb_sym, H1. now apply IH.
Qed.
Lemma assoc_lower_in : forall t c, forallb lower_entry_ok t = true -> memN c (map fst t) = true ->
  exists h r, assoc_lower t c = h :: r /\ h <> c.
Proof.
  induction t as [|[k v] t IH]; intros c Hok H; [discriminate|].
  cbn [forallb] in Hok. apply andb_prop in Hok. destruct Hok as [Hk Hok].
  cbn [assoc_lower]. destruct (N.eqb_spec k c) as [E|E].
  - subst k. unfold lower_entry_ok in Hk. cbn [fst snd] in Hk. destruct v as [|h r]; [discriminate|].
    exists h, r. split; auto. apply negb_true_iff in Hk. now apply N.eqb_neq in Hk.
  - apply IH; auto. cbn [map fst memN existsb] in H. unfold memN. apply orb_prop in H. destruct H as [H|H]; auto.
    apply N.eqb_eq in H. congruence.
Qed.

Lemma lower_fix_notin : forall p s, forallb lower_entry_ok (p_lower p) = true -> lower p s = s ->
  Forall (fun c => memN c (map fst (p_lower p)) = false) s.
Proof.
  intros p s Hok. unfold lower. induction s as [|c s IH]; intro H; [constructor|].
  cbn [flat_map] in H. destruct (memN c (map fst (p_lower p))) eqn:Hm.
  - destruct (assoc_lower_in _ _ Hok Hm) as [h [r [Ha Hne]]]. rewrite Ha in H. cbn in H. inversion H. contradiction.
  - rewrite (assoc_lower_notin _ _ Hm) in H. cbn in H. inversion H as [H'].
    constructor; auto. rewrite H'. now apply IH.
Qed.

Lemma ascii_lower_id : forall (dom : list N) s,
  forallb (fun c => memN c dom) (enum_range (65, 90)) = true ->
  Forall (fun c => memN c dom = false) s -> map ascii_lower1 s = s.
Proof.
  intros dom s Hd H. induction H as [|c s Hc _ IH]; [reflexivity|].
  cbn [map]. rewrite IH. f_equal. unfold ascii_lower1.
  destruct (N.leb 65 c && N.leb c 90) eqn:E; auto.
  exfalso. rewrite forallb_forall in Hd. specialize (Hd c (enum_range_In (65, 90) c E)). congruence.
Qed.

(* ---------------- legal_match ---------------- *)
Lemma all_legal_forall : forall p s, all_legal p s = true -> s <> [] /\ Forall (fun c => in_ranges (p_legal p) c = true) s.
Proof.
  intros p [|c s] H; [discriminate|]. split; [discriminate|]. unfold all_legal in H.
  apply Forall_forall. now apply forallb_forall.
Qed.

(* every character of a legal-matching string is legal *)
Lemma legal_match_chars : forall p s, legal_match p s = true ->
  exists c r, s = c :: r /\ in_ranges (p_legal p) c = true /\
              Forall (fun x => in_ranges (p_legal p) x = true \/ x = nl) s.
Proof.
  intros p s H. unfold legal_match in H.
  apply all_legal_forall in H. destruct H as [Hne Hf]. destruct s as [|c r]; [contradiction|].
  exists c, r. split; auto. split; [now inversion Hf|]. eapply Forall_impl; [|exact Hf]. cbn. auto.
Qed.

(* ---------------- requires_quotes ---------------- *)
Lemma requires_quotes_nonempty : forall p c r, requires_quotes p (c :: r) <> RaiseIndexError.
Proof. intros p c r. unfold requires_quotes. destruct (mem_str _ _); discriminate. Qed.

Lemma requires_quotes_empty : forall p, mem_str [] (p_reserved p) = false -> requires_quotes p [] = RaiseIndexError.
Proof. intros p H. unfold requires_quotes. cbn. now rewrite H. Qed.

Lemma requires_quotes_false : forall p v, requires_quotes p v = Ok false ->
  exists c r, v = c :: r /\ mem_str v (p_reserved p) = false /\ memN c (p_illegal_initial p) = false /\
              legal_match p v = true /\ lower p v = v.
Proof.
  intros p v H. unfold requires_quotes in H. remember (lower p v) as lc eqn:Hlc.
  destruct (mem_str lc (p_reserved p)) eqn:Hr; [discriminate|].
  destruct v as [|c r]; [discriminate|]. injection H as H'.
  apply orb_false_iff in H'. destruct H' as [H' H3]. apply orb_false_iff in H'. destruct H' as [H1 H2].
  apply negb_false_iff in H2. apply negb_false_iff in H3. apply str_eqb_eq in H3.
  exists c, r. subst lc. rewrite H3 in *. repeat split; auto.
Qed.

Lemma requires_quotes_not_legal : forall p v, v <> [] -> legal_match p v = false -> requires_quotes p v = Ok true.
Proof.
  intros p v Hne Hl. unfold requires_quotes. destruct (mem_str _ _); auto. destruct v; [contradiction|].
  rewrite Hl. cbn. now rewrite orb_true_r.
Qed.

(* ---------------- white space ---------------- *)
Lemma drop_ws_head : forall c s, is_ws c = false -> drop_ws (c :: s) = c :: s.
Proof. intros c s H. cbn [drop_ws]. now rewrite H. Qed.

Lemma trim_ws_ends : forall a m z, is_ws a = false -> is_ws z = false -> trim_ws (a :: m ++ [z]) = a :: m ++ [z].
Proof.
  intros a m z Ha Hz. unfold trim_ws. rewrite drop_ws_head by auto.
  change (a :: m ++ [z]) with ((a :: m) ++ [z]). rewrite rev_app_distr. cbn [rev app].
  rewrite drop_ws_head by auto. change (z :: rev m ++ [a]) with ([z] ++ rev (a :: m)).
  rewrite rev_app_distr, rev_involutive. reflexivity.
Qed.
Lemma trim_ws_single : forall a, is_ws a = false -> trim_ws [a] = [a].
Proof. intros a Ha. unfold trim_ws. rewrite drop_ws_head by auto. cbn [rev app]. now rewrite drop_ws_head. Qed.

Lemma trim_ws_nows : forall s, Forall (fun c => is_ws c = false) s -> trim_ws s = s.
Proof.
  intros s H. destruct s as [|a s]; [reflexivity|].
  destruct (@exists_last _ (a :: s)) as [m [z E]]; [discriminate|].
  destruct m as [|a' m].
  - cbn in E. injection E as E1 E2. subst. apply trim_ws_single. now inversion H.
  - cbn [app] in E. injection E as E1 E2. subst a' s.
    apply trim_ws_ends.
    + now inversion H.
    + change (a :: m ++ [z]) with ((a :: m) ++ [z]) in H. apply Forall_app in H. destruct H as [_ H]. now inversion H.
Qed.

Lemma trim_ws_final_ws : forall w z, w <> [] -> Forall (fun c => is_ws c = false) w -> is_ws z = true ->
  trim_ws (w ++ [z]) = w.
Proof.
  intros w z Hne Hw Hz. destruct w as [|a w]; [contradiction|].
  unfold trim_ws. cbn [app]. rewrite drop_ws_head by now inversion Hw.
  change (a :: w ++ [z]) with ((a :: w) ++ [z]). rewrite rev_app_distr. cbn [rev app drop_ws]. rewrite Hz.
  assert (Hr : Forall (fun c => is_ws c = false) (rev w ++ [a])).
  { apply Forall_app. split; [apply Forall_rev; now inversion Hw|constructor; [now inversion Hw|constructor]]. }
  destruct (rev w ++ [a]) as [|y l] eqn:E.
  - destruct (rev w); discriminate.
  - rewrite drop_ws_head by now inversion Hr. rewrite <- E. rewrite rev_app_distr, rev_involutive. reflexivity.
Qed.

(* ---------------- backend lexer on the two output shapes ---------------- *)
Lemma delim_body_double : forall fq v, delim_body fq (double fq v ++ [fq]) = Some (v, []).
Proof.
  intros fq v. induction v as [|x v IH].
  - cbn. now rewrite N.eqb_refl.
  - rewrite double_cons. destruct (N.eqb_spec x fq) as [E|E].
    + subst x. cbn [app delim_body]. rewrite !N.eqb_refl. now rewrite IH.
    + cbn [app delim_body]. destruct (N.eqb_spec x fq); [contradiction|]. now rewrite IH.
Qed.

Section WithTables.
Variable p : prep.
Variable b : backend.
Hypothesis Hwf : wf_prep p = true.
Hypothesis Hc : compat p b = true.

Lemma wf_facts :
  p_esc p = p_fq p /\ p_unesc p = p_fq p /\
  in_ranges (p_legal p) (p_iq p) = false /\ in_ranges (p_legal p) (p_fq p) = false /\
  in_ranges (p_legal p) dot = false /\ in_ranges (p_legal p) pct = false /\
  (forall c, is_ws c = true -> in_ranges (p_legal p) c = false) /\
  p_fq p <> dot /\ p_fq p <> pct /\ p_iq p <> dot /\ p_iq p <> pct /\
  is_ws (p_iq p) = false /\ is_ws (p_fq p) = false /\
  forallb lower_entry_ok (p_lower p) = true /\ mem_str [] (p_reserved p) = false.
Proof.
  pose proof Hwf as H. unfold wf_prep in H. bsplit.
  repeat match goal with
         | H : negb _ = true |- _ => apply negb_true_iff in H
         | H : N.eqb _ _ = true |- _ => apply N.eqb_eq in H
         | H : N.eqb _ _ = false |- _ => apply N.eqb_neq in H
         end.
  repeat split; auto.
  intros c Hw. unfold is_ws in Hw. apply memN_In in Hw.
  match goal with H : existsb _ _ = false |- _ => rename H into Hex end.
  destruct (in_ranges (p_legal p) c) eqn:E; auto.
  assert (existsb (in_ranges (p_legal p)) [32; 9; 10; 12; 13] = true) by (apply existsb_exists; eauto).
  congruence.
Qed.

Lemma compat_facts :
  b_iq b = p_iq p /\ b_fq b = p_fq p /\
  (forall c, in_ranges (p_legal p) c = true -> memN c (p_illegal_initial p) = false -> in_ranges (b_start b) c = true) /\
  (forall c, in_ranges (p_legal p) c = true -> in_ranges (b_cont b) c = true) /\
  (forall w, In w (b_kw b) -> In w (p_reserved p)) /\
  forallb (fun c => memN c (map fst (p_lower p))) (enum_range (65, 90)) = true /\
  p_esc_pct p = b_pct b.
Proof.
  pose proof Hc as H. unfold compat in H. bsplit.
  repeat match goal with H : N.eqb _ _ = true |- _ => apply N.eqb_eq in H end.
  match goal with H : Bool.eqb _ _ = true |- _ => apply eqb_prop in H end.
  repeat split; auto.
  - intros c Hl Hi. match goal with H : forallb (fun c => memN c (p_illegal_initial p) || _) _ = true |- _ =>
      rewrite forallb_forall in H; specialize (H c (enum_ranges_In _ _ Hl)); rewrite Hi in H; exact H end.
  - intros c Hl. match goal with H : forallb (in_ranges (b_cont b)) _ = true |- _ =>
      rewrite forallb_forall in H; exact (H c (enum_ranges_In _ _ Hl)) end.
  - intros w Hw. match goal with H : forallb (fun w => mem_str w (p_reserved p)) _ = true |- _ =>
      rewrite forallb_forall in H; apply mem_str_In; exact (H w Hw) end.
Qed.

(* a delimited identifier always reads back as the name it was built from (empty name included) *)
Lemma quote_identifier_lexes_back : forall v,
  lex_sent b (quote_identifier p v) = Some v.
Proof.
  intro v. destruct wf_facts as (He & _ & _ & _ & _ & _ & _ & Hfd & Hfp & Hid & Hip & Hwi & Hwf' & _).
  destruct compat_facts as (Hbi & Hbf & _ & _ & _ & _ & Hpct).
  assert (Hd : driver b (quote_identifier p v) = Some (p_iq p :: double (p_fq p) v ++ [p_fq p])).
  { unfold driver, quote_identifier, escape_identifier. rewrite He, <- Hpct. destruct (p_esc_pct p); auto.
    cbn [undouble_strict]. destruct (N.eqb_spec (p_iq p) pct); [contradiction|].
    rewrite (undouble_strict_double_app pct _ [p_fq p] [p_fq p]); auto.
    cbn [undouble_strict]. destruct (N.eqb_spec (p_fq p) pct); [contradiction|]. reflexivity. }
  unfold lex_sent. rewrite Hd. unfold lex_ident. rewrite trim_ws_ends by auto.
  rewrite Hbi, N.eqb_refl, Hbf, delim_body_double. reflexivity.
Qed.

(* a name that quote() leaves bare and that consists of legal characters only lexes as itself, folded *)
Lemma bare_lexes_back : forall v, requires_quotes p v = Ok false -> all_legal p v = true ->
  lex_sent b v = Some (fold b v).
Proof.
  intros v Hq Hl.
  destruct wf_facts as (_ & _ & Hli & _ & _ & Hlp & Hws & _ & _ & _ & _ & _ & _ & Hlo & _).
  destruct compat_facts as (Hbi & _ & Hst & Hco & Hkw & Hdom & _).
  destruct (requires_quotes_false _ _ Hq) as (c & r & Hv & Hres & Hini & _ & Hlow).
  apply all_legal_forall in Hl. destruct Hl as [_ Hall].
  assert (Hd : driver b v = Some v).
  { unfold driver. destruct (b_pct b); auto. apply undouble_strict_notin. intro Hin.
    rewrite Forall_forall in Hall. specialize (Hall _ Hin). congruence. }
  unfold lex_sent. rewrite Hd. unfold lex_ident. rewrite trim_ws_nows.
  2:{ eapply Forall_impl; [|exact Hall]. cbn. intros a Ha. destruct (is_ws a) eqn:E; auto.
      rewrite (Hws a E) in Ha. discriminate. }
  subst v. inversion Hall as [|? ? Hcl Hrl]; subst.
  destruct (N.eqb_spec c (b_iq b)) as [E|E]; [rewrite Hbi in E; subst c; congruence|].
  rewrite (Hst c Hcl Hini). cbn [andb].
  assert (Hr : forallb (in_ranges (b_cont b)) r = true).
  { apply forallb_forall. intros x Hx. rewrite Forall_forall in Hrl. auto. }
  rewrite Hr.
  assert (Hal : map ascii_lower1 (c :: r) = c :: r).
  { apply (ascii_lower_id (map fst (p_lower p))); auto. now apply lower_fix_notin. }
  rewrite Hal.
  destruct (mem_str (c :: r) (b_kw b)) eqn:Ek; auto.
  apply mem_str_In in Ek. apply Hkw in Ek. apply mem_str_In in Ek. congruence.
Qed.

(* THE quoting theorem *)
Lemma quote_lexes_back : forall v, v <> [] ->
  exists q, quote p v = Ok q /\ lex_sent b q = Some (stored p b v).
Proof.
  intros v Hne. unfold quote, quote_force, stored.
  destruct (requires_quotes p v) as [[|]|] eqn:Hq.
  - eexists. split; [reflexivity|]. apply quote_identifier_lexes_back.
  - eexists. split; [reflexivity|]. apply bare_lexes_back; auto.
    destruct (requires_quotes_false _ _ Hq) as (c & r & _ & _ & _ & Hlm & _). exact Hlm.
  - destruct v; [contradiction|]. exfalso. eapply requires_quotes_nonempty; eauto.
Qed.

(* whenever quoting is skipped the backend's folding does not change the name (lower/none folding) *)
Lemma bare_fold_identity : forall v, requires_quotes p v = Ok false -> b_fold b <> FoldUpper -> fold b v = v.
Proof.
  intros v Hq Hf. unfold fold. destruct (b_fold b); auto; [|contradiction].
  destruct wf_facts as (_ & _ & _ & _ & _ & _ & _ & _ & _ & _ & _ & _ & _ & Hlo & _).
  destruct compat_facts as (_ & _ & _ & _ & _ & Hdom & _).
  destruct (requires_quotes_false _ _ Hq) as (c & r & Hv & _ & _ & _ & Hlow).
  apply (ascii_lower_id (map fst (p_lower p))); auto. now apply lower_fix_notin.
Qed.

(* upper-folding backends (Oracle): the stored name is the name up to ASCII case - lower-casing it, as
   normalize_name does for all-upper-case reflected names, gives the name back *)
Lemma ascii_lower_upper : forall s, Forall (fun c => N.leb 65 c && N.leb c 90 = false) s ->
  map ascii_lower1 (map ascii_upper1 s) = s.
Proof.
  intros s H. induction H as [|c s Hcc _ IH]; [reflexivity|]. cbn [map]. rewrite IH. f_equal.
  unfold ascii_upper1, ascii_lower1. destruct (N.leb 97 c && N.leb c 122) eqn:E.
  - apply andb_prop in E. destruct E as [E1 E2]. apply N.leb_le in E1. apply N.leb_le in E2.
    replace (N.leb 65 (c - 32) && N.leb (c - 32) 90) with true.
    + lia.
    + symmetry. apply andb_true_intro. split; apply N.leb_le; lia.
  - now rewrite Hcc.
Qed.

Lemma bare_fold_upper_lower : forall v, requires_quotes p v = Ok false ->
  map ascii_lower1 (map ascii_upper1 v) = v.
Proof.
  intros v Hq.
  destruct wf_facts as (_ & _ & _ & _ & _ & _ & _ & _ & _ & _ & _ & _ & _ & Hlo & _).
  destruct compat_facts as (_ & _ & _ & _ & _ & Hdom & _).
  destruct (requires_quotes_false _ _ Hq) as (c & r & Hv & _ & _ & _ & Hlow).
  apply ascii_lower_upper. pose proof (lower_fix_notin p v Hlo Hlow) as Hn.
  eapply Forall_impl; [|exact Hn]. cbn. intros a Ha.
  destruct (N.leb 65 a && N.leb a 90) eqn:E; auto.
  rewrite forallb_forall in Hdom. specialize (Hdom a (enum_range_In (65, 90) a E)). congruence.
Qed.

Lemma stored_identity : forall v, b_fold b <> FoldUpper -> stored p b v = v.
Proof.
  intros v Hf. unfold stored. destruct (requires_quotes p v) as [[|]|] eqn:E; auto. now apply bare_fold_identity.
Qed.
End WithTables.

(* ---------------- unformat_identifiers ---------------- *)
Lemma qbody_double : forall fq v t, (forall x t', t = x :: t' -> x <> fq) ->
  qbody fq (double fq v ++ fq :: t) = (double fq v, fq :: t).
Proof.
  intros fq v t Ht. induction v as [|x v IH].
  - cbn [double flat_map app qbody]. rewrite N.eqb_refl. destruct t as [|y t']; auto.
    destruct (N.eqb_spec y fq) as [E|E]; auto. exfalso. eapply Ht; eauto.
  - rewrite double_cons. destruct (N.eqb_spec x fq) as [E|E].
    + subst x. cbn [app qbody]. rewrite !N.eqb_refl. now rewrite IH.
    + cbn [app qbody]. destruct (N.eqb_spec x fq); [contradiction|]. now rewrite IH.
Qed.

Lemma span_nodot_app : forall v t, ~ In dot v -> (t = [] \/ exists t', t = dot :: t') ->
  span_nodot (v ++ t) = (v, t).
Proof.
  intros v t Hv Ht. induction v as [|x v IH].
  - cbn [app]. destruct Ht as [->|[t' ->]]; cbn; auto.
  - cbn [app span_nodot]. destruct (N.eqb_spec x dot) as [E|E].
    + exfalso. apply Hv. left. auto.
    + rewrite IH; auto. intro. apply Hv. now right.
Qed.

Lemma qbody_length : forall fq s, (length (fst (qbody fq s)) + length (snd (qbody fq s)) = length s)%nat.
Proof.
  intro fq. fix IH 1. intros [|c r]; [reflexivity|].
  cbn [qbody]. destruct (N.eqb c fq).
  - destruct r as [|c2 r2]; [reflexivity|]. destruct (N.eqb c2 fq); [|reflexivity].
    specialize (IH r2). destruct (qbody fq r2) as [bb tt]. cbn [fst snd length] in *. lia.
  - specialize (IH r). destruct (qbody fq r) as [bb tt]. cbn [fst snd length] in *. lia.
Qed.
Lemma span_nodot_length : forall s, (length (fst (span_nodot s)) + length (snd (span_nodot s)) = length s)%nat.
Proof.
  induction s as [|c r IH]; [reflexivity|]. cbn [span_nodot]. destruct (N.eqb c dot); [reflexivity|].
  destruct (span_nodot r) as [bb tt]. cbn [fst snd length] in *. lia.
Qed.

Definition step (p : prep) (s : str) : str * str :=
  match try_quoted p s with Some ar => ar | None => span_nodot s end.

Lemma unformat_fuel_unfold : forall f p c r,
  unformat_fuel (S f) p (c :: r) =
  if N.eqb c dot then unformat_fuel f p r
  else match unformat_fuel f p (snd (step p (c :: r))) with
       | Some l => Some (unescape_identifier p (fst (step p (c :: r))) :: l)
       | None => None
       end.
Proof.
  intros f p c r. cbn [unformat_fuel]. destruct (N.eqb c dot); auto. unfold step.
  destruct (try_quoted p (c :: r)) as [[a rest]|]; auto. destruct (span_nodot (c :: r)) as [a rest]; auto.
Qed.

Lemma step_shrinks : forall p c r, c <> dot -> (length (snd (step p (c :: r))) < length (c :: r))%nat.
Proof.
  intros p c r Hc. unfold step. destruct (try_quoted p (c :: r)) as [[a rest]|] eqn:E.
  - unfold try_quoted in E. destruct (N.eqb c (p_iq p)); [|discriminate].
    pose proof (qbody_length (p_fq p) r) as HL. destruct (qbody (p_fq p) r) as [bb tt]. cbn [fst snd] in HL.
    destruct bb as [|b0 bb]; [discriminate|]. destruct tt as [|f0 t']; [discriminate|].
    cbn [length] in *. destruct t' as [|x r'].
    + inversion E; subst. cbn [snd length] in *. lia.
    + destruct (N.eqb x dot).
      * inversion E; subst. cbn [snd length] in *. lia.
      * destruct (N.eqb x nl); [|discriminate]. destruct r'; [|discriminate]. inversion E; subst. cbn [snd length] in *. lia.
  - pose proof (span_nodot_length (c :: r)) as HL. cbn [span_nodot] in *.
    destruct (N.eqb_spec c dot); [contradiction|]. destruct (span_nodot r) as [bb tt]. cbn [fst snd length] in *. lia.
Qed.

Lemma unformat_fuel_total : forall p fuel s, (length s < fuel)%nat -> unformat_fuel fuel p s <> None.
Proof.
  intros p fuel. induction fuel as [|f IH]; intros s H; [lia|].
  destruct s as [|c r]; [discriminate|]. rewrite unformat_fuel_unfold.
  destruct (N.eqb_spec c dot) as [E|E].
  - apply IH. cbn [length] in H. lia.
  - pose proof (step_shrinks p c r E) as Hs.
    destruct (unformat_fuel f p (snd (step p (c :: r)))) eqn:Eu; [discriminate|].
    exfalso. eapply IH; [|exact Eu]. lia.
Qed.
Lemma unformat_total : forall p s, unformat p s <> None.
Proof. intros p s. apply unformat_fuel_total. lia. Qed.

(* what unformat_identifiers gives back for a component: the name with every "%" doubled when the
   dialect doubles percent signs (the escape of "%" is never undone), the name itself otherwise *)
Definition pctd (p : prep) (v : str) : str := if p_esc_pct p then double pct v else v.

Lemma double_app : forall c a b, double c (a ++ b) = double c a ++ double c b.
Proof. intros. unfold double. apply flat_map_app. Qed.

Lemma double_comm : forall c d s, c <> d -> double c (double d s) = double d (double c s).
Proof.
  intros c d s Hcd. induction s as [|x s IH]; [reflexivity|].
  rewrite (double_cons d x s), (double_cons c x s), !double_app, IH. f_equal.
  destruct (N.eqb_spec x d) as [Ed|Ed]; destruct (N.eqb_spec x c) as [Ec|Ec]; try congruence.
  - subst x. cbn. destruct (N.eqb_spec d c); [congruence|]. now rewrite N.eqb_refl.
  - subst x. cbn. destruct (N.eqb_spec c d); [congruence|]. now rewrite N.eqb_refl.
  - cbn. destruct (N.eqb_spec x c); [congruence|]. destruct (N.eqb_spec x d); [congruence|]. reflexivity.
Qed.

Lemma double_length_le : forall c s, (length s <= length (double c s))%nat.
Proof.
  intros c s. induction s as [|x s IH]; [auto|]. rewrite double_cons, app_length. cbn [length].
  destruct (N.eqb x c); cbn [length]; lia.
Qed.
Lemma double_length_lt : forall c s, In c s -> (length s < length (double c s))%nat.
Proof.
  intros c s. induction s as [|x s IH]; intro H; [destruct H|].
  rewrite double_cons, app_length. cbn [length]. destruct (N.eqb_spec x c) as [E|E].
  - cbn [length]. pose proof (double_length_le c s). lia.
  - destruct H as [H|H]; [congruence|]. cbn [length]. specialize (IH H). lia.
Qed.

Section Unformat.
Variable p : prep.
Hypothesis Hwf : wf_prep p = true.

Definition good_tail (t : str) : Prop := t = [] \/ exists t', t = dot :: t'.

Lemma escape_as_double : forall v, escape_identifier p v = double (p_fq p) (pctd p v).
Proof.
  intro v. destruct (wf_facts p Hwf) as (He & _ & _ & _ & _ & _ & _ & _ & Hfp & _).
  unfold escape_identifier, pctd. rewrite He. destruct (p_esc_pct p); auto.
  apply double_comm. auto.
Qed.

(* one delimited output of quote() followed by "." or the end is consumed as exactly one component *)
Lemma step_quoted : forall v t, v <> [] -> good_tail t ->
  step p (quote_identifier p v ++ t) = (double (p_fq p) (pctd p v), t) /\
  unescape_identifier p (double (p_fq p) (pctd p v)) = pctd p v.
Proof.
  intros v t Hne Ht.
  destruct (wf_facts p Hwf) as (He & Hu & _ & _ & _ & _ & _ & Hfd & Hfp & _).
  assert (Hne' : pctd p v <> []).
  { unfold pctd. destruct (p_esc_pct p); auto. now apply double_nonempty. }
  split.
  - unfold step, try_quoted, quote_identifier. rewrite escape_as_double. cbn [app]. rewrite N.eqb_refl.
    rewrite <- app_assoc. cbn [app]. rewrite qbody_double.
    2:{ intros x t' Hx. destruct Ht as [->|[t'' ->]]; [discriminate|]. inversion Hx; subst. auto. }
    pose proof (double_nonempty (p_fq p) (pctd p v) Hne') as Hd.
    destruct (double (p_fq p) (pctd p v)) as [|d0 dd] eqn:Ed; [contradiction|].
    destruct Ht as [->|[t' ->]]; reflexivity.
  - unfold unescape_identifier. rewrite Hu. apply undouble_double.
Qed.

Lemma step_bare : forall v t, requires_quotes p v = Ok false -> good_tail t ->
  step p (v ++ t) = (v, t) /\ unescape_identifier p v = v /\ pctd p v = v.
Proof.
  intros v t Hq Ht.
  destruct (wf_facts p Hwf) as (_ & Hu & Hli & Hlf & Hld & Hlp & Hws & _ & _ & _ & _ & _ & Hwf' & _).
  destruct (requires_quotes_false _ _ Hq) as (c & r & Hv & _ & _ & Hlm & _).
  destruct (legal_match_chars _ _ Hlm) as (c' & r' & Hv' & Hc' & Hall).
  assert (Hnot : forall x, In x v -> x <> dot /\ x <> p_fq p /\ x <> pct).
  { intros x Hx. rewrite Forall_forall in Hall. destruct (Hall x Hx) as [Hx'|Hx'].
    - repeat split; intro; subst x; congruence.
    - subst x. split; [discriminate|]. split; [|discriminate]. intro E. rewrite <- E in Hwf'. discriminate. }
  split; [|split].
  - unfold step, try_quoted. rewrite Hv' in *. cbn [app].
    destruct (N.eqb_spec c' (p_iq p)) as [E|E]; [subst c'; congruence|].
    change (c' :: r' ++ t) with ((c' :: r') ++ t). apply span_nodot_app; auto.
    intro Hin. destruct (Hnot _ Hin) as (? & ? & ?). auto.
  - unfold unescape_identifier. rewrite Hu. apply undouble_notin. intro Hin. destruct (Hnot _ Hin) as (? & ? & ?). auto.
  - unfold pctd. destruct (p_esc_pct p); auto. apply double_notin. intro Hin. destruct (Hnot _ Hin) as (? & ? & ?). auto.
Qed.

Lemma quote_head_not_dot : forall v q, quote p v = Ok q -> exists c r, q = c :: r /\ c <> dot.
Proof.
  intros v q H. destruct (wf_facts p Hwf) as (_ & _ & _ & _ & Hld & _ & _ & _ & _ & Hid & _).
  unfold quote, quote_force in H. destruct (requires_quotes p v) as [[|]|] eqn:Hq; inversion H; subst.
  - unfold quote_identifier. eauto.
  - destruct (requires_quotes_false _ _ Hq) as (c & r & Hv & _ & _ & Hlm & _).
    destruct (legal_match_chars _ _ Hlm) as (c' & r' & Hv' & Hc' & _). exists c', r'. split; auto.
    intro; subst c'. congruence.
Qed.

Lemma step_quote : forall v q t, v <> [] -> quote p v = Ok q -> good_tail t ->
  snd (step p (q ++ t)) = t /\ unescape_identifier p (fst (step p (q ++ t))) = pctd p v.
Proof.
  intros v q t Hne H Ht. unfold quote, quote_force in H.
  destruct (requires_quotes p v) as [[|]|] eqn:Hq; inversion H; subst.
  - destruct (step_quoted v t Hne Ht) as [H1 H2]. rewrite H1. auto.
  - destruct (step_bare q t Hq Ht) as (H1 & H2 & H3). rewrite H1, H3. auto.
Qed.

Lemma unformat_format_fuel : forall names qs, quote_all p names = Ok qs ->
  Forall (fun v => v <> []) names ->
  forall fuel, (length (join_dot qs) < fuel)%nat ->
  unformat_fuel fuel p (join_dot qs) = Some (map (pctd p) names).
Proof.
  induction names as [|v names IH]; intros qs Hq Hne fuel Hf.
  - inversion Hq; subst. destruct fuel; [cbn in Hf; lia|]. reflexivity.
  - cbn [quote_all] in Hq. destruct (quote p v) as [q|] eqn:Hqv; [|discriminate].
    destruct (quote_all p names) as [qr|] eqn:Hqr; [|discriminate]. inversion Hq; subst qs. clear Hq.
    inversion Hne as [|? ? Hv Hne']; subst.
    destruct (quote_head_not_dot _ _ Hqv) as (c & r & Hqc & Hcd).
    set (t := match qr with [] => [] | _ => dot :: join_dot qr end).
    assert (Hj : join_dot (q :: qr) = q ++ t).
    { subst t. cbn [join_dot]. destruct qr; [now rewrite app_nil_r|reflexivity]. }
    assert (Ht : good_tail t). { subst t. destruct qr; [left; auto|right; eauto]. }
    rewrite Hj in *. destruct (step_quote v q t Hv Hqv Ht) as [H1 H2].
    destruct fuel as [|f]; [lia|]. rewrite Hqc in *. cbn [app] in *. rewrite unformat_fuel_unfold.
    destruct (N.eqb_spec c dot); [contradiction|]. rewrite H1, H2.
    assert (Hrest : unformat_fuel f p t = Some (map (pctd p) names)).
    { subst t. destruct qr as [|q2 qr'].
      - destruct names as [|v2 names']; [|cbn [quote_all] in Hqr; destruct (quote p v2); [destruct (quote_all p names')|]; discriminate].
        destruct f; [cbn [length] in Hf; lia|]. reflexivity.
      - destruct f as [|f']; [cbn [length] in Hf; lia|]. cbn [unformat_fuel]. rewrite N.eqb_refl.
        apply IH; auto. cbn [length] in Hf. rewrite app_length in Hf. cbn [length] in Hf. lia. }
    rewrite Hrest. reflexivity.
Qed.

(* EXACT: splitting the dotted form gives the components with "%" doubled where the dialect doubles it *)
Lemma unformat_format_exact : forall names text, format_path p names = Ok text ->
  Forall (fun v => v <> []) names -> unformat p text = Some (map (pctd p) names).
Proof.
  intros names text H Hne. unfold format_path in H. destruct (quote_all p names) as [qs|] eqn:Hq; [|discriminate].
  inversion H; subst. unfold unformat. eapply unformat_format_fuel; eauto.
Qed.

Definition pct_guard (names : list str) : Prop := p_esc_pct p = false \/ Forall (fun v => ~ In pct v) names.

(* splitting the dotted form recovers the components (guarded by the "%" defect) *)
Lemma unformat_format_guarded : forall names text, format_path p names = Ok text ->
  pct_guard names -> Forall (fun v => v <> []) names -> unformat p text = Some names.
Proof.
  intros names text H Hg Hne. rewrite (unformat_format_exact names text H Hne). f_equal.
  assert (Hid : forall l : list str, map (fun v : str => v) l = l) by (intro l; apply map_id).
  unfold pctd. destruct Hg as [Hg|Hg]; [rewrite Hg; apply Hid|].
  destruct (p_esc_pct p); [|apply Hid].
  clear H Hne. induction Hg as [|v l Hv _ IH]; [reflexivity|]. cbn [map]. rewrite IH. f_equal. now apply double_notin.
Qed.

(* ... and the guard is exact: outside it the components are NOT recovered *)
Lemma unformat_format_refuted_all : forall names text, format_path p names = Ok text ->
  Forall (fun v => v <> []) names -> p_esc_pct p = true -> Exists (fun v => In pct v) names ->
  unformat p text <> Some names.
Proof.
  intros names text H Hne Hp Hex. rewrite (unformat_format_exact names text H Hne). unfold pctd. rewrite Hp.
  intro E. inversion E as [E']. clear E H Hne.
  induction Hex as [v l Hv|v l _ IH].
  - cbn [map] in E'. inversion E' as [[E1 E2]]. pose proof (double_length_lt pct v Hv) as HL. rewrite E1 in HL. lia.
  - cbn [map] in E'. inversion E'. auto.
Qed.
End Unformat.

(* format_table / format_column are the dotted form of their components *)
Lemma format_column_path : forall p s t c x, s <> [] -> format_column p (Some s) t c = Ok x ->
  format_path p [s; t; c] = Ok x.
Proof.
  intros p s t c x Hs H. unfold format_column, format_table in H. unfold format_path. cbn [quote_all].
  destruct (quote p t) as [qt|]; [|discriminate]. destruct s as [|s0 s']; [contradiction|].
  destruct (quote p (s0 :: s')) as [qs|]; [|discriminate]. destruct (quote p c) as [qc|]; [|discriminate].
  inversion H; subst. cbn [join_dot]. rewrite <- app_assoc. reflexivity.
Qed.
Lemma format_column_path_noschema : forall p t c x, format_column p None t c = Ok x ->
  format_path p [t; c] = Ok x.
Proof.
  intros p t c x H. unfold format_column, format_table in H. unfold format_path. cbn [quote_all].
  destruct (quote p t) as [qt|]; [|discriminate]. destruct (quote p c) as [qc|]; [|discriminate].
  inversion H; subst. reflexivity.
Qed.
Lemma format_table_path : forall p s t x, s <> [] -> format_table p (Some s) t = Ok x -> format_path p [s; t] = Ok x.
Proof.
  intros p s t x Hs H. unfold format_table in H. unfold format_path. cbn [quote_all].
  destruct (quote p t) as [qt|]; [|discriminate]. destruct s as [|s0 s']; [contradiction|].
  destruct (quote p (s0 :: s')) as [qs|]; [|discriminate]. inversion H; subst. reflexivity.
Qed.

(* the finite keyword check lifted to a statement about every listed word *)
Lemma reserved_complete : forall (kw reserved : list str),
  forallb (fun w => mem_str w reserved) kw = true -> forall w, In w kw -> In w reserved.
Proof. intros kw reserved H w Hw. rewrite forallb_forall in H. apply mem_str_In. auto. Qed.

Lemma empty_name_index_error : forall p, wf_prep p = true -> quote p [] = RaiseIndexError.
Proof.
  intros p Hwf. destruct (wf_facts p Hwf) as (_ & _ & _ & _ & _ & _ & _ & _ & _ & _ & _ & _ & _ & _ & Hr).
  unfold quote, quote_force. now rewrite requires_quotes_empty.
Qed.

(* the backend's keyword set may be any set the dialect's reserved_words covers *)
Definition set_kw (b : backend) (kw : list str) : backend :=
  {| b_iq := b_iq b; b_fq := b_fq b; b_start := b_start b; b_cont := b_cont b; b_kw := kw; b_fold := b_fold b;
     b_pct := b_pct b |}.
Lemma compat_kw_incl : forall p b, compat p b = true -> forall kw,
  (forall w, In w kw -> In w (p_reserved p)) -> compat p (set_kw b kw) = true.
Proof.
  intros p b H kw Hkw. unfold compat in *. cbn [set_kw b_iq b_fq b_start b_cont b_kw b_fold b_pct].
  rewrite !andb_true_iff in *. destruct H as [[[[[[A B] C] D0] E] F] G]. repeat split; auto.
  apply forallb_forall. intros w Hw. apply mem_str_In. auto.
Qed.

Lemma format_column_unformat_guarded : forall p, wf_prep p = true -> forall s t c text,
  s <> [] -> t <> [] -> c <> [] ->
  format_column p (Some s) t c = Ok text ->
  (p_esc_pct p = false \/ Forall (fun v => ~ In pct v) [s; t; c]) ->
  unformat p text = Some [s; t; c].
Proof.
  intros p Hw s t c text Hs Ht Hc H Hg.
  apply (unformat_format_guarded p Hw [s; t; c] text (format_column_path p s t c text Hs H) Hg).
  repeat constructor; auto.
Qed.
Lemma format_table_unformat_guarded : forall p, wf_prep p = true -> forall s t text,
  s <> [] -> t <> [] ->
  format_table p (Some s) t = Ok text ->
  (p_esc_pct p = false \/ Forall (fun v => ~ In pct v) [s; t]) ->
  unformat p text = Some [s; t].
Proof.
  intros p Hw s t text Hs Ht H Hg.
  apply (unformat_format_guarded p Hw [s; t] text (format_table_path p s t text Hs H) Hg).
  repeat constructor; auto.
Qed.

(* DDLCompiler._prepared_index_name: the schema-qualified index name is the dotted form of its two
   components, each the output of quote() *)
Lemma prepared_index_name_components : forall p s i x, s <> [] ->
  prepared_index_name p true (Some s) i = Ok x ->
  exists qs qi, quote p s = Ok qs /\ quote p i = Ok qi /\ x = qs ++ dot :: qi.
Proof.
  intros p s i x Hs H. unfold prepared_index_name, format_index in H. destruct s as [|c s']; [contradiction|].
  destruct (quote p (c :: s')) as [qs|]; [|discriminate]. destruct (quote p i) as [qi|]; [|discriminate].
  inversion H; subst. eauto.
Qed.
Lemma prepared_index_name_noschema : forall p sch i, (sch = None \/ sch = Some []) ->
  prepared_index_name p true sch i = quote p i /\ forall sch', prepared_index_name p false sch' i = quote p i.
Proof. intros p sch i [->| ->]; split; reflexivity. Qed.
Lemma prepared_index_name_path : forall p s i x, s <> [] ->
  prepared_index_name p true (Some s) i = Ok x -> format_path p [s; i] = Ok x.
Proof.
  intros p s i x Hs H. destruct (prepared_index_name_components p s i x Hs H) as (qs & qi & H1 & H2 & ->).
  unfold format_path. cbn [quote_all]. rewrite H1, H2. reflexivity.
Qed.
Lemma prepared_index_name_unformat_guarded : forall p, wf_prep p = true -> forall s i text,
  s <> [] -> i <> [] -> prepared_index_name p true (Some s) i = Ok text ->
  (p_esc_pct p = false \/ Forall (fun v => ~ In pct v) [s; i]) ->
  unformat p text = Some [s; i].
Proof.
  intros p Hw s i text Hs Hi H Hg.
  apply (unformat_format_guarded p Hw [s; i] text (prepared_index_name_path p s i text Hs H) Hg).
  repeat constructor; auto.
Qed.
(* ... and the backend reads each of the two components back as the stored name *)
Lemma prepared_index_name_lexes_back : forall p b, wf_prep p = true -> compat p b = true ->
  forall s i, s <> [] -> i <> [] ->
  exists qs qi, prepared_index_name p true (Some s) i = Ok (qs ++ dot :: qi) /\
                lex_sent b qs = Some (stored p b s) /\ lex_sent b qi = Some (stored p b i).
Proof.
  intros p b Hw Hc s i Hs Hi.
  destruct (quote_lexes_back p b Hw Hc s Hs) as (qs & Hqs & Hls).
  destruct (quote_lexes_back p b Hw Hc i Hi) as (qi & Hqi & Hli).
  exists qs, qi. split; auto. unfold prepared_index_name, format_index. destruct s as [|c s']; [contradiction|].
  now rewrite Hqs, Hqi.
Qed.
