(* executable entry point for the correspondence check of C20 *)
From Coq Require Import List NArith ZArith Bool.
Import ListNotations.
From SAV.base Require Import Tree.
From SAV.sql Require Import UrlCodec Url.

Definition as_str (t : tree) : option str := as_list_of as_N t.
Definition as_opt {A} (f : tree -> option A) (t : tree) : option (option A) :=
  match t with
  | L [] => Some None
  | L [x] => match f x with Some a => Some (Some a) | None => None end
  | _ => None
  end.
Definition as_qval (t : tree) : option qval :=
  match t with
  | L [I 0%Z; s] => option_map QStr (as_str s)
  | L [I 1%Z; l] => option_map QSeq (as_list_of as_str l)
  | _ => None
  end.
Definition as_url (t : tree) : option url :=
  match t with
  | L [d; us; pw; ho; po; db; q] =>
    match as_str d, as_opt as_str us, as_opt as_str pw, as_opt as_str ho, as_opt as_Z po,
          as_opt as_str db, as_list_of (as_pair_of as_str as_qval) q with
    | Some d', Some us', Some pw', Some ho', Some po', Some db', Some q' =>
      Some (mkUrl d' us' pw' ho' po' db' q')
    | _, _, _, _, _, _, _ => None
    end
  | _ => None
  end.

Definition of_str (s : str) : tree := of_list of_N s.
Definition of_opt_t {A} (f : A -> tree) (o : option A) : tree :=
  match o with Some a => L [f a] | None => L [] end.
Definition of_qval (v : qval) : tree :=
  match v with QStr s => L [I 0%Z; of_str s] | QSeq l => L [I 1%Z; of_list of_str l] end.
Definition of_url (u : url) : tree :=
  L [of_str (u_drv u); of_opt_t of_str (u_user u); of_opt_t of_str (u_pass u);
     of_opt_t of_str (u_host u); of_opt_t I (u_port u); of_opt_t of_str (u_db u);
     of_list (fun kv => L [of_str (fst kv); of_qval (snd kv)]) (u_query u)].

Definition exn_code (e : exn) : Z :=
  match e with ArgumentError => 1 | ValueError => 2 | UnicodeEncodeError => 3 end.
Definition of_result {A} (f : A -> tree) (r : result A) : tree :=
  match r with Ok a => L [I 0%Z; f a] | Raise e => L [I (exn_code e)] end.
Definition of_optres {A} (f : A -> tree) (r : option A) : tree :=
  match r with Some a => L [I 0%Z; f a] | None => L [I 1%Z] end.

(* the non-ASCII code points of the generator's pool that Python's \w accepts (checked by the
   generator against [re] on every run); every other non-ASCII code point of the pool is not a word
   character *)
Definition uw_pool (c : N) : bool := mem c [170; 223; 233; 241; 1635; 2048; 20013; 65536]%N.

Definition of_comps (c : comps) : tree :=
  L [of_str (c_drv c); of_opt_t of_str (c_user c); of_opt_t of_str (c_pass c);
     of_opt_t of_str (c_host c); of_opt_t of_str (c_port c); of_opt_t of_str (c_db c);
     of_opt_t of_str (c_query c)].

(* input L [I op; args...]:
   0 url         -> [render; make_url(rendered)]      1 str -> make_url
   2 safe str    -> quote        3 str -> quote_plus      4 str -> unquote     5 kb str -> parse_qsl
   6 str         -> regex groups 7 bytes -> decode('utf-8','replace')
   8 str         -> int()        9 z -> str()             10 keys -> sorted *)
Definition run_case (t : tree) : tree :=
  match t with
  | L [I 0%Z; tu] =>
    match as_url tu with
    | Some u => L [of_result of_str (render u); of_result of_url (roundtrip uw_pool u)]
    | None => bad_input
    end
  | L [I 1%Z; ts] =>
    match as_str ts with Some s => of_result of_url (parse uw_pool s) | None => bad_input end
  | L [I 2%Z; tsafe; ts] =>
    match as_str tsafe, as_str ts with
    | Some safe, Some s => of_optres of_str (quote safe s)
    | _, _ => bad_input
    end
  | L [I 3%Z; ts] =>
    match as_str ts with Some s => of_optres of_str (quote_plus s) | None => bad_input end
  | L [I 4%Z; ts] =>
    match as_str ts with Some s => of_str (unquote s) | None => bad_input end
  | L [I 5%Z; tk; ts] =>
    match as_bool tk, as_str ts with
    | Some kb, Some s => of_list (fun kv => L [of_str (fst kv); of_str (snd kv)]) (parse_qsl kb s)
    | _, _ => bad_input
    end
  | L [I 6%Z; ts] =>
    match as_str ts with
    | Some s => match split_url uw_pool s with Some c => L [of_comps c] | None => L [] end
    | None => bad_input
    end
  | L [I 7%Z; ts] =>
    match as_str ts with Some s => of_str (utf8_dec s) | None => bad_input end
  | L [I 8%Z; ts] =>
    match as_str ts with Some s => of_optres I (py_int s) | None => bad_input end
  | L [I 9%Z; I z] => of_str (str_of_Z z)
  | L [I 10%Z; tl] =>
    match as_list_of as_str tl with Some l => of_list of_str (sort_keys l) | None => bad_input end
  | _ => bad_input
  end.
