(* executable entry point for the correspondence check of C12: instantiates the database of IMV.v
   with a concrete one (fresh table, ids in VALUES order, rows of each statement returned stably
   sorted by the case's keys, then the injected fault) *)
From Coq Require Import List ZArith Bool.
Import ListNotations.
From SAV.base Require Import Tree.
From SAV.sql Require Import IMV.
Open Scope Z_scope.

Definition param := (nat * list Z)%type.     (* global index, DBAPI parameter tuple *)
Definition row := list Z.

Fixpoint list_eqb (a b : list Z) : bool :=
  match a, b with
  | [], [] => true
  | x :: a', y :: b' => (x =? y) && list_eqb a' b'
  | _, _ => false
  end.

Definition sent_of_param (sent_pos : list nat) (p : param) : list Z := map (fun j => nth j (snd p) 0) sent_pos.
Definition sent_of_row (nsc : nat) (r : row) : list Z := skipn (length r - nsc) r.
Definition sort_key (r : row) : Z := last r 0.
Definition ext_of (mask : list bool) (p : param) : list Z := map snd (select_mask false mask (snd p)).

(* rowspec column: [0] id | [1; j] tuple[j] | [2; j] tuple[j] + first non-VALUES parameter | [3] NULL
                   | [4] the first non-VALUES parameter of the statement (upsert SET col = :param) *)
Definition db_col (x : option (list Z)) (p : param) (spec : list Z) : Z :=
  match spec with
  | [0] => Z.of_nat (fst p) + 1
  | [1; j] => nth (Z.to_nat j) (snd p) 0
  | [2; j] => nth (Z.to_nat j) (snd p) 0 + match x with Some (e :: _) => e | _ => 0 end
  | [4] => match x with Some (e :: _) => e | _ => 0 end
  | _ => -1
  end.
Definition db_row (rowspec : list (list Z)) (x : option (list Z)) (p : param) : row := map (db_col x p) rowspec.

Definition apply_fault (fault : list Z) (pairs : list (nat * row)) : list (nat * row) :=
  match fault with
  | [1; fi; _] => filter (fun ir => negb (Nat.eqb (fst ir) (Z.to_nat fi))) pairs
  | [2; fi; fv] => map (fun ir => if Nat.eqb (fst ir) (Z.to_nat fi) then (fst ir, removelast (snd ir) ++ [fv]) else ir) pairs
  | [3; fi; _] => pairs ++ filter (fun ir => Nat.eqb (fst ir) (Z.to_nat fi)) pairs
  | _ => pairs
  end.

Definition fetch_db (rowspec : list (list Z)) (keys fault : list Z) (k : nat) (x : option (list Z)) (items : list param)
  : list row :=
  let keyed := map (fun p => (nth (fst p) keys 0, (fst p, db_row rowspec x p))) items in
  map snd (apply_fault fault (map snd (sort_rows (fun kr : Z * (nat * row) => fst kr) keyed))).

(* ---------------- decoding ---------------- *)
Definition as_boolz (t : tree) : option bool := match t with I z => Some (negb (z =? 0)) | _ => None end.
Definition as_natlist (t : tree) : option (list nat) := as_list_of as_nat t.
Definition as_zlist (t : tree) : option (list Z) := as_list_of as_Z t.

Record runcfg := mkRun { r_cfg : config; r_layout : layout }.

Definition decode_cfg (t : tree) (mask : list bool) : option runcfg :=
  match as_zlist t with
  | Some [de; dm; mv; rc; sn; up; em; ub; page; maxp; tot; per; ret; sbo; nsc; imp; hk; nm; ni; nu; vb] =>
    let b z := negb (z =? 0) in
    Some (mkRun
      (mkConfig (mkFlags (b de) (b dm) (b mv) (b rc) (b sn) (b up) (b em) (b ub))
                page maxp tot per vb (b ret) (b sbo) nsc (b imp) (b hk) (b nm))
      (mkLayout mask ni (b nu) (b em)))
  | _ => None
  end.

(* ---------------- encoding ---------------- *)
Definition of_Z (z : Z) : tree := I z.
Definition of_zlist (l : list Z) : tree := L (map I l).

Definition enc_named (l : list (nat * option nat * Z)) : tree :=
  L (map (fun e => match e with (j, oi, v) =>
        L [of_nat j; match oi with Some i => of_nat i | None => I (-1) end; I v] end) l).

Definition enc_batch (rc : runcfg) (rowmode : bool) (all : list param) (b : batch param) : tree :=
  let c := r_cfg rc in
  let items := map snd (b_items b) in
  let head := [I (b_cbs b); I (b_num b); I (b_total b); of_bool (b_sorted b); of_bool (b_downgraded b)] in
  if rowmode then
    let params := if c_named c
                  then enc_named (map (fun jv => (fst jv, None, snd jv))
                                      (combine (seq 0 (length (hd [] items))) (hd [] items)))
                  else of_zlist (hd [] items) in
    L (head ++ [params; I (-1); L []; L []])
  else if c_named c then
    L (head ++ [enc_named (expand_named (l_mask (r_layout rc)) (hd [] (map snd all)) items);
                I (named_groups items); L []; of_zlist (named_counters (l_embed (r_layout rc)) items)])
  else
    match expand_positional (r_layout rc) items (b_cbs b) with
    | Ok e => L (head ++ [of_zlist (e_params e); I (e_groups e); of_zlist (e_numbers e); of_zlist (e_counters e)])
    | _ => L (head ++ [I (-9)])
    end.

Definition status_code {A} (r : result A) : Z :=
  match r with
  | Ok _ => 0
  | Raise ZeroDivisionError => 1
  | Raise IndexError => 2
  | Raise AssertionError => 3
  | Raise RowCountMismatch => 4
  | Raise SentinelKeyError => 5
  | OutOfFuel => 6
  end.

Fixpoint index_from (i : nat) (l : list (list Z)) : list param :=
  match l with [] => [] | x :: r => (i, x) :: index_from (S i) r end.

(* ---------------- ORM bulk insert (IMV.v section 7) ---------------- *)
(* record = (global index, (key set id, name)); the mapped table has an autoincrement key, so the row
   of a record is [index + 1; name].  sbo: every group's rows arrive in parameter order; otherwise in
   some order - canonicalised (by the harness too) by sorting each group's rows by name *)
Definition orm_record := (nat * (Z * Z))%type.
Definition orm_row (r : orm_record) : row := [Z.of_nat (fst r) + 1; snd (snd r)].
Definition orm_exec (sbo : bool) (g : list orm_record) : list row :=
  if sbo then map orm_row g else sort_rows (fun r : row => nth 1 r 0) (map orm_row g).
Fixpoint orm_index (i : nat) (ks names : list Z) : list orm_record :=
  match ks, names with
  | k :: kt, n :: nt => (i, (k, n)) :: orm_index (S i) kt nt
  | _, _ => []
  end.
Definition run_orm (sbo : bool) (ks names : list Z) : tree :=
  let recs := orm_index 0 ks names in
  match orm_bulk_insert Z.eqb (fun r : orm_record => fst (snd r)) (orm_exec sbo) recs with
  | Some rows => L [L (map (fun r => L (map I r)) rows); L (map (fun r => L (map I (orm_row r))) recs)]
  | None => L [L []; L []]
  end.

(* the (key, value) pairs of the table after an upsert whose rows all existed before: the final rows *)
Fixpoint insert_pair (r : row) (l : list row) : list row :=
  match l with
  | [] => [r]
  | x :: t => if hd 0 r <=? hd 0 x then r :: l else x :: insert_pair r t
  end.

(* input  L [cfg; mask; sent_pos; rowspec; tuples; keys; fault; setup; post]   |  L [I 100; sbo; keysets; names; setup]
   output L [cfg; mask; batches; status; rows; inserted; table]               |  L [rows; table] *)
Definition run_case (t : tree) : tree :=
  match t with
  | L [I 100; I sbo; tks; tnames; _] =>
    match as_list_of as_Z tks, as_list_of as_Z tnames with
    | Some ks, Some names => run_orm (negb (sbo =? 0)) ks names
    | _, _ => bad_input
    end
  | L [tcfg; tmask; tsent; tspec; ttuples; tkeys; tfault; _; tpost] =>
    match as_list_of as_boolz tmask, as_natlist tsent, as_list_of as_zlist tspec,
          as_list_of as_zlist ttuples, as_zlist tkeys, as_zlist tfault with
    | Some mask, Some sent_pos, Some rowspec, Some tuples, Some keys, Some fault =>
      match decode_cfg tcfg mask with
      | Some rc =>
        let c := r_cfg rc in
        let nsc := Z.to_nat (c_num_sentinel c) in
        let ps := index_from 0 tuples in
        let out := execute list_eqb (sent_of_param sent_pos) (sent_of_row nsc) sort_key (ext_of mask)
                           (fetch_db rowspec keys fault) c ps in
        let rowmode := fst (decide_mode (c_sbo c) (c_flags c)) in
        let neg := match o_result out with OutOfFuel => true | _ => false end in
        L [tcfg; tmask;
           L (if neg then [] else map (enc_batch rc rowmode ps) (o_executed out));
           I (status_code (o_result out));
           match o_result out with
           | Ok rows => L (map (fun r => of_zlist (firstn (length r - nsc) r)) rows)
           | _ => L []
           end;
           L (if neg then [] else map (fun p : param => of_nat (fst p)) (concat (map b_items (o_executed out))));
           match tpost, o_result out with
           | L [I 1], Ok rows => L (map (fun r => of_zlist r) (fold_right insert_pair [] (map (firstn 2) rows)))
           | _, _ => L []
           end]
      | None => bad_input
      end
    | _, _, _, _, _, _ => bad_input
    end
  | _ => bad_input
  end.
