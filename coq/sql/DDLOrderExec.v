(* C14 - the reference catalog: how blocks of CREATE TABLE / ALTER ADD / ALTER DROP / DROP TABLE
   statements execute *)
From Coq Require Import List NArith Bool Lia Permutation.
Import ListNotations.
From SAV.util Require Import Topo TopoProofs TopoExtra.
From SAV.sql Require Import DDLOrder DDLOrderBase.

(* ---------------------------------------------------------------- catalog observations *)
Lemma has_table_In n d : has_table n d = true <-> In n (map fst d).
Proof. unfold has_table. rewrite existsb_exists, in_map_iff. split.
  - intros [r [H1 H2]]. apply N.eqb_eq in H2. exists r. tauto.
  - intros [r [H1 H2]]. exists r. split; [exact H2|]. apply N.eqb_eq. exact H1. Qed.

Lemma has_table_false n d : has_table n d = false <-> ~ In n (map fst d).
Proof. rewrite <- has_table_In. destruct (has_table n d); split; intros H; congruence. Qed.

Lemma has_table_app n d d' : has_table n (d ++ d') = has_table n d || has_table n d'.
Proof. apply existsb_app. Qed.

Lemma fks_in_app n d d' : fks_in n (d ++ d') = if has_table n d then fks_in n d else fks_in n d'.
Proof. unfold fks_in, has_table. induction d as [|r d IH]; simpl; [reflexivity|].
  destruct (N.eqb (fst r) n); simpl; [reflexivity|exact IH]. Qed.

Lemma fks_in_none n d : has_table n d = false -> fks_in n d = [].
Proof. unfold fks_in, has_table. induction d as [|r d IH]; simpl; [reflexivity|].
  destruct (N.eqb (fst r) n); simpl; [discriminate|exact IH]. Qed.

Lemma row_fks_in u l d : NoDup (map fst d) -> In (u, l) d -> fks_in u d = l.
Proof. unfold fks_in. induction d as [|r d IH]; simpl; [tauto|]. intros Hn [->|H].
  - simpl. rewrite N.eqb_refl. reflexivity.
  - inversion Hn; subst. destruct (N.eqb (fst r) u) eqn:E.
    + apply N.eqb_eq in E. exfalso. apply H2. rewrite E. apply in_map_iff. exists (u, l). auto.
    + apply IH; assumption. Qed.

Lemma exec_app l1 : forall d l2,
  exec d (l1 ++ l2) = match exec d l1 with Some d' => exec d' l2 | None => None end.
Proof. induction l1 as [|s l1 IH]; intros d l2; simpl; [reflexivity|].
  destruct (exec1 d s); [apply IH|reflexivity]. Qed.

(* upd_fks *)
Lemma upd_names n g d : map fst (upd_fks n g d) = map fst d.
Proof. unfold upd_fks. rewrite map_map. apply map_ext. intros r. destruct (N.eqb (fst r) n); reflexivity. Qed.

Lemma upd_has m n g d : has_table m (upd_fks n g d) = has_table m d.
Proof. apply bool_ext. rewrite !has_table_In, upd_names. tauto. Qed.

Lemma upd_fks_same n g d : has_table n d = true -> fks_in n (upd_fks n g d) = g (fks_in n d).
Proof. unfold fks_in, has_table, upd_fks. induction d as [|r d IH]; simpl; [discriminate|].
  destruct (N.eqb (fst r) n) eqn:E; simpl.
  - rewrite E. reflexivity.
  - rewrite E. exact IH. Qed.

Lemma upd_fks_other m n g d : m <> n -> fks_in m (upd_fks n g d) = fks_in m d.
Proof. intros Hne. unfold fks_in, upd_fks. induction d as [|r d IH]; simpl; [reflexivity|].
  destruct (N.eqb (fst r) n) eqn:E; simpl.
  - apply N.eqb_eq in E. destruct (N.eqb (fst r) m) eqn:E2; [apply N.eqb_eq in E2; congruence|exact IH].
  - destruct (N.eqb (fst r) m); [reflexivity|exact IH]. Qed.

(* ---------------------------------------------------------------- a block of CREATE TABLE *)
Definition rows_of (inl : node -> list fk) (l : list node) : db := map (fun n => (n, inl n)) l.

Lemma rows_names inl l : map fst (rows_of inl l) = l.
Proof. unfold rows_of. rewrite map_map. simpl. apply map_id. Qed.

Section Creates.
Variable inl : node -> list fk.
Variable d0 : db.
Variable o : list node.
Hypothesis o_nodup : NoDup o.
Hypothesis o_new : forall n, In n o -> has_table n d0 = false.
Hypothesis o_refs : forall pre n suf, o = pre ++ n :: suf -> forall f, In f (inl n) ->
  fk_ref f = n \/ has_table (fk_ref f) d0 = true \/ In (fk_ref f) pre.

Lemma exec_creates_gen : forall suf pre, pre ++ suf = o ->
  exec (d0 ++ rows_of inl pre) (map (fun n => CreateT n (inl n)) suf) = Some (d0 ++ rows_of inl o).
Proof.
  induction suf as [|n suf IH]; intros pre E.
  - rewrite app_nil_r in E. subst. reflexivity.
  - cbn [map exec exec1].
    assert (Hn : has_table n (d0 ++ rows_of inl pre) = false).
    { rewrite has_table_app. rewrite o_new by (rewrite <- E; apply in_or_app; right; left; reflexivity).
      simpl. apply has_table_false. rewrite rows_names. intros Hp. rewrite <- E in o_nodup.
      apply (NoDup_app_disj pre (n :: suf) n o_nodup Hp). left; reflexivity. }
    rewrite Hn.
    assert (Hf : forallb (fun f => N.eqb (fk_ref f) n || has_table (fk_ref f) (d0 ++ rows_of inl pre)) (inl n) = true).
    { apply forallb_forall. intros f Hf. destruct (o_refs pre n suf (eq_sym E) f Hf) as [H|[H|H]].
      - rewrite H, N.eqb_refl. reflexivity.
      - rewrite has_table_app, H. simpl. apply orb_true_r.
      - rewrite has_table_app. replace (has_table (fk_ref f) (rows_of inl pre)) with true.
        + rewrite !orb_true_r. reflexivity.
        + symmetry. apply has_table_In. rewrite rows_names. exact H. }
    rewrite Hf. rewrite <- app_assoc.
    pose proof (IH (pre ++ [n])) as IH'. unfold rows_of in IH' |- *. rewrite map_app in IH'.
    cbn [map] in IH'. apply IH'. rewrite <- app_assoc. exact E. Qed.

Lemma exec_creates : exec d0 (map (fun n => CreateT n (inl n)) o) = Some (d0 ++ rows_of inl o).
Proof. pose proof (exec_creates_gen o [] eq_refl) as H. simpl in H. rewrite app_nil_r in H. exact H. Qed.
End Creates.

(* ---------------------------------------------------------------- a block of ALTER TABLE ADD *)
Definition adds_for (n : N) (l : list stmt) : list fk :=
  flat_map (fun s => match s with AddFK t f => if N.eqb t n then [f] else [] | _ => [] end) l.
Definition is_add (s : stmt) : Prop := match s with AddFK _ _ => True | _ => False end.

Lemma adds_for_perm n l l' : Permutation l l' -> Permutation (adds_for n l) (adds_for n l').
Proof. unfold adds_for. induction 1; simpl.
  - constructor.
  - apply Permutation_app_head. assumption.
  - rewrite !app_assoc. apply Permutation_app_tail. apply Permutation_app_comm.
  - etransitivity; eassumption. Qed.

Lemma exec_adds : forall l d, Forall is_add l ->
  (forall t f, In (AddFK t f) l -> has_table t d = true /\ has_table (fk_ref f) d = true) ->
  (forall n, NoDup (map fk_id (fks_in n d ++ adds_for n l))) ->
  exists d', exec d l = Some d' /\ map fst d' = map fst d /\
             forall n, has_table n d = true -> fks_in n d' = fks_in n d ++ adds_for n l.
Proof.
  induction l as [|s l IH]; intros d Hall Hex Hnd.
  - exists d. split; [reflexivity|]. split; [reflexivity|]. intros n _. simpl. rewrite app_nil_r. reflexivity.
  - inversion Hall as [|s' l' Hs Hall']; subst. destruct s as [| t f | |]; try (exfalso; exact Hs).
    destruct (Hex t f (or_introl eq_refl)) as [Ht Hr].
    cbn [exec exec1]. rewrite Ht, Hr.
    assert (Hid : has_fk (fk_id f) (fks_in t d) = false).
    { specialize (Hnd t). simpl in Hnd. rewrite N.eqb_refl in Hnd. simpl in Hnd.
      rewrite map_app in Hnd. simpl in Hnd. apply NoDup_remove_2 in Hnd.
      destruct (has_fk (fk_id f) (fks_in t d)) eqn:E; [|reflexivity]. exfalso. apply Hnd.
      unfold has_fk in E. apply existsb_exists in E. destruct E as [g [Hg1 Hg2]]. apply N.eqb_eq in Hg2.
      apply in_or_app. left. rewrite <- Hg2. apply in_map. exact Hg1. }
    rewrite Hid. cbn [negb andb].
    set (d1 := upd_fks t (fun l0 => l0 ++ [f]) d).
    destruct (IH d1) as [d' [H1 [H2 H3]]].
    + exact Hall'.
    + intros t' f' Hin. unfold d1. rewrite !upd_has. apply Hex. right. exact Hin.
    + intros n. unfold d1. destruct (N.eqb_spec t n) as [->|Hne].
      * rewrite upd_fks_same by exact Ht. specialize (Hnd n). simpl in Hnd. rewrite N.eqb_refl in Hnd.
        rewrite <- app_assoc. exact Hnd.
      * rewrite upd_fks_other by congruence. specialize (Hnd n). simpl in Hnd.
        replace (N.eqb t n) with false in Hnd by (symmetry; apply N.eqb_neq; exact Hne). exact Hnd.
    + exists d'. split; [exact H1|]. split; [rewrite H2; unfold d1; apply upd_names|].
      intros n Hn. rewrite H3 by (unfold d1; rewrite upd_has; exact Hn). unfold d1.
      destruct (N.eqb_spec t n) as [->|Hne].
      * rewrite upd_fks_same by exact Ht. simpl. rewrite N.eqb_refl. rewrite <- app_assoc. reflexivity.
      * rewrite upd_fks_other by congruence. simpl.
        replace (N.eqb t n) with false by (symmetry; apply N.eqb_neq; exact Hne). reflexivity. Qed.

(* ---------------------------------------------------------------- a block of ALTER TABLE DROP CONSTRAINT *)
Definition drops_for (n : N) (l : list stmt) : list N :=
  flat_map (fun s => match s with DropFK t f => if N.eqb t n then [fk_id f] else [] | _ => [] end) l.
Definition is_dropfk (s : stmt) : Prop := match s with DropFK _ _ => True | _ => False end.

Lemma drops_for_perm n l l' : Permutation l l' -> Permutation (drops_for n l) (drops_for n l').
Proof. unfold drops_for. induction 1; simpl.
  - constructor.
  - apply Permutation_app_head. assumption.
  - rewrite !app_assoc. apply Permutation_app_tail. apply Permutation_app_comm.
  - etransitivity; eassumption. Qed.

Lemma filter_filter {A} (p q : A -> bool) l : filter p (filter q l) = filter (fun x => q x && p x) l.
Proof. induction l as [|a l IH]; simpl; [reflexivity|]. destruct (q a); simpl; [destruct (p a); simpl; congruence|exact IH]. Qed.

Lemma has_fk_In i l : has_fk i l = true <-> In i (map fk_id l).
Proof. unfold has_fk. rewrite existsb_exists, in_map_iff. split.
  - intros [g [H1 H2]]. apply N.eqb_eq in H2. exists g. tauto.
  - intros [g [H1 H2]]. exists g. split; [exact H2|]. apply N.eqb_eq. exact H1. Qed.

Lemma exec_dropfks : forall l d, Forall is_dropfk l ->
  (forall t f, In (DropFK t f) l -> has_table t d = true /\ fk_named f = true) ->
  (forall n, NoDup (drops_for n l) /\ forall i, In i (drops_for n l) -> has_fk i (fks_in n d) = true) ->
  exists d', exec d l = Some d' /\ map fst d' = map fst d /\
             forall n, fks_in n d' = filter (fun g => negb (memb (fk_id g) (drops_for n l))) (fks_in n d).
Proof.
  induction l as [|s l IH]; intros d Hall Hex Hnd.
  - exists d. split; [reflexivity|]. split; [reflexivity|]. intros n. simpl.
    induction (fks_in n d) as [|a r IHr]; simpl; congruence.
  - inversion Hall as [|s' l' Hs Hall']; subst. destruct s as [| | | t f]; try (exfalso; exact Hs).
    destruct (Hex t f (or_introl eq_refl)) as [Ht Hnm].
    cbn [exec exec1]. rewrite Ht, Hnm.
    assert (Hid : has_fk (fk_id f) (fks_in t d) = true).
    { apply (proj2 (Hnd t)). simpl. rewrite N.eqb_refl. left. reflexivity. }
    rewrite Hid. cbn [andb].
    set (d1 := upd_fks t (filter (fun g => negb (N.eqb (fk_id g) (fk_id f)))) d).
    destruct (IH d1) as [d' [H1 [H2 H3]]].
    + exact Hall'.
    + intros t' f' Hin. unfold d1. rewrite upd_has. apply Hex. right. exact Hin.
    + intros n. destruct (Hnd n) as [Hn1 Hn2]. simpl in Hn1, Hn2. unfold d1.
      destruct (N.eqb_spec t n) as [->|Hne].
      * simpl in Hn1. apply NoDup_cons_iff in Hn1. destruct Hn1 as [H4 Hn1]. split; [exact Hn1|]. intros i Hi.
        rewrite upd_fks_same by exact Ht. apply has_fk_In. specialize (Hn2 i (or_intror Hi)).
        apply has_fk_In in Hn2. apply in_map_iff in Hn2. destruct Hn2 as [g [Hg1 Hg2]].
        apply in_map_iff. exists g. split; [exact Hg1|]. apply filter_In. split; [exact Hg2|].
        apply negb_true_iff. apply N.eqb_neq. intros Heq. apply H4. rewrite <- Heq, Hg1. exact Hi.
      * simpl in Hn1. split; [exact Hn1|]. intros i Hi. rewrite upd_fks_other by congruence. apply Hn2. exact Hi.
    + exists d'. split; [exact H1|]. split; [rewrite H2; unfold d1; apply upd_names|].
      intros n. rewrite H3. unfold d1. destruct (N.eqb_spec t n) as [->|Hne].
      * rewrite upd_fks_same by exact Ht. rewrite filter_filter. apply filter_ext. intros g. simpl.
        rewrite N.eqb_refl. simpl. rewrite N.eqb_sym. destruct (N.eqb (fk_id f) (fk_id g)); reflexivity.
      * rewrite upd_fks_other by congruence. simpl.
        replace (N.eqb t n) with false by (symmetry; apply N.eqb_neq; exact Hne). reflexivity. Qed.

(* ---------------------------------------------------------------- a block of DROP TABLE *)
Lemma has_table_filter_names n (l : list node) d :
  has_table n (filter (fun r => negb (memb (fst r) l)) d) = has_table n d && negb (memb n l).
Proof. apply bool_ext. rewrite andb_true_iff. unfold has_table. rewrite !existsb_exists. split.
  - intros [r [H1 H2]]. apply filter_In in H1. destruct H1 as [H1 H3]. apply N.eqb_eq in H2. subst n.
    split; [|exact H3]. exists r. split; [exact H1|apply N.eqb_refl].
  - intros [[r [H1 H2]] H3]. apply N.eqb_eq in H2. subst n. exists r. split; [|apply N.eqb_refl].
    apply filter_In. split; [exact H1|exact H3]. Qed.

Lemma filter_true {A} (l : list A) : filter (fun _ => true) l = l.
Proof. induction l as [|a r IH]; simpl; congruence. Qed.

Section Drops.
Variable d : db.
Variable l : list node.
Hypothesis l_nodup : NoDup l.
Hypothesis d_nodup : NoDup (map fst d).
Hypothesis l_has : forall n, In n l -> has_table n d = true.
Hypothesis l_order : forall pre t suf, l = pre ++ t :: suf ->
  forall u g, has_table u d = true -> u <> t -> In g (fks_in u d) -> fk_ref g = t -> In u pre.

Lemma exec_dropts_gen : forall suf pre, pre ++ suf = l ->
  exec (filter (fun r => negb (memb (fst r) pre)) d) (map DropT suf) =
  Some (filter (fun r => negb (memb (fst r) l)) d).
Proof.
  induction suf as [|t suf IH]; intros pre E.
  - rewrite app_nil_r in E. subst. reflexivity.
  - cbn [map exec exec1]. rewrite has_table_filter_names.
    rewrite l_has by (rewrite <- E; apply in_or_app; right; left; reflexivity).
    assert (Hp : memb t pre = false).
    { apply memb_false. intros Hp. rewrite <- E in l_nodup.
      apply (NoDup_app_disj pre (t :: suf) t l_nodup Hp). left; reflexivity. }
    rewrite Hp. cbn [negb andb].
    match goal with |- context [forallb ?P ?L] => assert (Hf : forallb P L = true) end.
    { apply forallb_forall. intros [u fl] Hr. apply filter_In in Hr. destruct Hr as [Hr Hu]. simpl in *.
      destruct (N.eqb_spec u t) as [|Hne]; [reflexivity|]. simpl.
      apply forallb_forall. intros g Hg. apply negb_true_iff. apply N.eqb_neq. intros Href.
      assert (Hup : In u pre).
      { apply (l_order pre t suf (eq_sym E) u g); try assumption.
        - apply has_table_In. apply in_map_iff. exists (u, fl). auto.
        - rewrite (row_fks_in u fl d d_nodup Hr). exact Hg. }
      apply negb_true_iff in Hu. apply memb_false in Hu. contradiction. }
    rewrite Hf. rewrite filter_filter.
    rewrite <- (IH (pre ++ [t])) by (rewrite <- app_assoc; exact E).
    f_equal. apply filter_ext. intros r. unfold memb. rewrite existsb_app. simpl.
    rewrite orb_false_r. rewrite negb_orb. reflexivity. Qed.

Lemma exec_dropts : exec d (map DropT l) = Some (filter (fun r => negb (memb (fst r) l)) d).
Proof. pose proof (exec_dropts_gen l [] eq_refl) as H. simpl in H.
  rewrite filter_true in H. exact H. Qed.
End Drops.
