(* C05 - qmark / format / numeric / numeric_dollar paramstyles: the %(name)s pass of the compiler also
   runs over rendered literals (refuted), unless the value has no "%(" (guarded). *)
From Coq Require Import List NArith ZArith Bool Lia.
Import ListNotations.
From SAV.sql Require Import Literal LiteralStrProofs.
Open Scope N_scope.

(* no  %(  anywhere *)
Fixpoint nopl (s : str) : bool :=
  match s with
  | c :: r => negb ((c =? 37) && match r with c2 :: _ => c2 =? 40 | [] => false end) && nopl r
  | [] => true
  end.

Lemma nopl_find s : nopl s = true -> find_pyformat s = None.
Proof.
  induction s as [|c r IH]; intros H; [reflexivity|].
  cbn [nopl] in H. apply andb_prop in H. destruct H as [H1 H2]. apply negb_true_iff in H1.
  cbn [find_pyformat]. unfold pyformat_at. destruct r as [|c2 r2].
  - reflexivity.
  - rewrite H1. apply IH. exact H2.
Qed.

Definition hd_or (x : chr) (s : str) : chr := match s with c :: _ => c | [] => x end.

Lemma encc_head dp bs c : exists r, encc dp bs c = c :: r.
Proof.
  unfold encc. destruct (N.eqb_spec c 39) as [->|]; [eexists; reflexivity|].
  destruct ((c =? 37) && dp) eqn:E0.
  { apply andb_prop in E0. destruct E0 as [E0 _]. apply N.eqb_eq in E0. subst c. eexists; reflexivity. }
  destruct ((c =? 92) && bs) eqn:E.
  - apply andb_prop in E. destruct E as [E _]. apply N.eqb_eq in E. subst c. eexists; reflexivity.
  - eexists; reflexivity.
Qed.

Lemma enc_head dp bs s : exists r, enc dp bs s ++ [39] = hd_or 39 s :: r.
Proof.
  destruct s as [|c s]; [exists []; reflexivity|]. unfold enc. cbn [flat_map hd_or].
  destruct (encc_head dp bs c) as [r ->]. eexists. cbn [app]. reflexivity.
Qed.

Lemma nopl_cons c t : nopl (c :: t) = negb ((c =? 37) && (hd_or 0 t =? 40)) && nopl t.
Proof. cbn [nopl]. destruct t; reflexivity. Qed.

Lemma enc_nopl dp bs s : nopl s = true -> nopl (enc dp bs s ++ [39]) = true.
Proof.
  induction s as [|c s IH]; intros H; [reflexivity|].
  rewrite nopl_cons in H. apply andb_prop in H. destruct H as [H1 H2]. apply negb_true_iff in H1.
  specialize (IH H2). destruct (enc_head dp bs s) as [r Er].
  unfold enc in *. cbn [flat_map]. rewrite <- app_assoc. rewrite Er in *.
  assert (Hh : (c =? 37) && (hd_or 39 s =? 40) = false).
  { destruct s as [|c2 s2]; cbn [hd_or] in *; [rewrite andb_false_r; reflexivity|exact H1]. }
  unfold encc. destruct (N.eqb_spec c 39) as [->|Hq].
  - cbn [app]. rewrite 2!nopl_cons. cbn [hd_or]. rewrite IH. reflexivity.
  - destruct ((c =? 37) && dp) eqn:E0.
    + apply andb_prop in E0. destruct E0 as [E0 _]. apply N.eqb_eq in E0. subst c.
      cbn [app]. rewrite 2!nopl_cons. cbn [hd_or]. rewrite Hh, IH. reflexivity.
    + destruct ((c =? 92) && bs) eqn:E.
      * apply andb_prop in E. destruct E as [E _]. apply N.eqb_eq in E. subst c.
        cbn [app]. rewrite 2!nopl_cons. cbn [hd_or]. rewrite IH. reflexivity.
      * cbn [app]. rewrite nopl_cons. cbn [hd_or]. rewrite Hh, IH. reflexivity.
Qed.

(* a value without "%(" gives a literal in which the %(name)s pattern matches nowhere ... *)
Theorem pyformat_guarded : forall d fl n s,
  nopl s = true -> find_pyformat (render_string d fl n s) = None.
Proof.
  intros d fl n s H. apply nopl_find. rewrite render_string_charwise.
  pose proof (enc_nopl (f_dp fl) (bs_active d fl) s H) as He.
  destruct n; cbn [string_prefix app]; [rewrite 2!nopl_cons|rewrite nopl_cons]; cbn [hd_or]; rewrite He; reflexivity.
Qed.

(* ... so the positional pass leaves it alone *)
Lemma pysub_none ph : forall s, find_pyformat s = None -> pysub ph 0 s = s.
Proof.
  induction s as [|c r IH]; intros H; [reflexivity|].
  cbn [find_pyformat] in H. cbn [pysub].
  destruct (pyformat_at (c :: r)) as [[nm rest]|]; [discriminate|].
  rewrite IH by exact H. reflexivity.
Qed.

Theorem positional_pass_guarded : forall d fl n s ph,
  nopl s = true -> pysub ph 0 (render_string d fl n s) = render_string d fl n s.
Proof. intros. apply pysub_none. apply pyformat_guarded. assumption. Qed.

(* the whole pipeline under the guard: processor, dialect override, the compiler's positional pass,
   the driver's %% collapse, the server's lexer *)
Theorem string_literal_roundtrip_after_pass : forall d fl n s ph rest,
  (n = true -> d = MSSQL) -> no_quote_prefix rest -> nopl s = true ->
  lex_str (server d fl) (driver fl (pysub ph 0 (render_string d fl n s) ++ rest)) = Some (s, driver fl rest).
Proof.
  intros d fl n s ph rest Hn Hr H. rewrite positional_pass_guarded by exact H.
  apply string_literal_roundtrip; assumption.
Qed.

(* a value containing  %(x)s : literal_binds on the default SQLite dialect (qmark) renders '?' -
   the literal now denotes the one-character string "?" *)
Theorem positional_pass_refuted : exists s,
  lex_str (server SQLite (default_flags SQLite))
          (pysub [63] 0 (render_string SQLite (default_flags SQLite) false s)) = Some ([63], []) /\
  s <> [63].
Proof. exists [37; 40; 120; 41; 115]. split; [vm_compute; reflexivity|discriminate]. Qed.

(* under a numeric paramstyle the compiler asks for a parameter x_1 (KeyError) or, if the statement
   has an expanding parameter x, puts its positional marker into the string literal *)
Theorem pyformat_refuted : exists s,
  find_pyformat (render_string PG (mkFlags (dp_of_paramstyle NumericDollar) false) false s)
  = Some [120; 95; 49].
Proof. exists [37; 40; 120; 95; 49; 41; 115]. vm_compute. reflexivity. Qed.
