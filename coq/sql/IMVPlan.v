(* Proofs about the batching plan of IMV.v: clamp, total_batches, the slice-and-delete loop. *)
From Coq Require Import List ZArith Bool Lia Arith ZifyBool.
Import ListNotations.
From SAV.sql Require Import IMV.
Open Scope Z_scope.

(* ---------------- mode decision ---------------- *)
Lemma mode_row_or_batched sbo f :
  decide_mode sbo f = (true, false) \/ decide_mode sbo f = (true, true) \/ decide_mode sbo f = (false, false).
Proof. unfold decide_mode. destruct (mode_cond1 f), (mode_cond2 sbo f), (mode_cond3 f); auto. Qed.

(* batching is only chosen for a sorted RETURNING when a sentinel exists, and for upserts only with
   the VALUES counter *)
Lemma mode_batched_safe sbo f dg : decide_mode sbo f = (false, dg) ->
  dg = false /\ supports_multivalues_insert f = true /\
  (is_default_expr f = true -> supports_default_metavalue f = true) /\
  (sbo = true -> result_columns f = true ->
     sentinel_columns_none f = false /\ (includes_upsert_behaviors f = true -> embed_values_counter f = true)) /\
  (has_upsert_bound_parameters f = true -> result_columns f = true -> embed_values_counter f = true).
Proof.
  unfold decide_mode, mode_cond1, mode_cond2, mode_cond3.
  destruct f as [a b c d e g h i]; cbn [is_default_expr supports_default_metavalue supports_multivalues_insert
    result_columns sentinel_columns_none includes_upsert_behaviors embed_values_counter has_upsert_bound_parameters].
  destruct a, b, c, d, e, g, h, i, sbo; cbn; intros H; inversion H; repeat split; intros; congruence.
Qed.

Lemma mode_downgraded sbo f : decide_mode sbo f = (true, true) ->
  mode_cond2 sbo f = true \/ mode_cond3 f = true.
Proof. unfold decide_mode. destruct (mode_cond1 f), (mode_cond2 sbo f), (mode_cond3 f); intros H; inversion H; auto. Qed.

(* ---------------- clamp ---------------- *)
Lemma clamp_off bs tot per : clamp bs 0 tot per = Ok bs.
Proof. reflexivity. Qed.

(* if one row's worth of parameters fits under the limit, the clamped size stays >= 1 *)
Lemma clamp_ge_1 bs mp tot per : 1 <= bs -> 1 <= per -> tot <= mp ->
  exists bs', clamp bs mp tot per = Ok bs' /\ 1 <= bs' <= bs.
Proof.
  intros Hbs Hper Htot. unfold clamp, truthy.
  destruct (mp =? 0) eqn:E; cbn [negb]; [exists bs; split; [reflexivity|lia]|].
  destruct (per =? 0) eqn:E2; [lia|].
  eexists; split; [reflexivity|]. unfold clamp_expr.
  assert (1 <= (mp - (tot - per)) / per).
  { apply Z.div_le_lower_bound; lia. }
  lia.
Qed.

(* the purpose of the clamp: outside + size * per_row <= max_params, where per_row is the number
   the code uses (the number of VALUES elements, not of bind parameters) *)
Lemma clamp_limit bs mp tot per bs' : 1 <= per -> mp <> 0 -> clamp bs mp tot per = Ok bs' ->
  (tot - per) + bs' * per <= mp.
Proof.
  intros Hper Hmp. unfold clamp, truthy.
  destruct (mp =? 0) eqn:E; [lia|]. cbn [negb]. destruct (per =? 0) eqn:E2; [lia|].
  intros H; inversion H; subst; clear H. unfold clamp_expr.
  pose proof (Z.mul_div_le (mp - (tot - per)) per ltac:(lia)).
  assert (Z.min bs ((mp - (tot - per)) / per) * per <= (mp - (tot - per)) / per * per) by (apply Z.mul_le_mono_nonneg_r; lia).
  lia.
Qed.

(* ... which bounds the parameters of the statement only if no VALUES element holds more than one
   bound parameter: k = bound parameters per VALUES row, so the statement carries
   (tot - k) + size * k parameters *)
Lemma clamp_limit_binds bs mp tot per k bs' : 1 <= per -> mp <> 0 -> 0 <= k <= per -> 1 <= bs' ->
  clamp bs mp tot per = Ok bs' -> (tot - k) + bs' * k <= mp.
Proof.
  intros Hper Hmp Hk Hbs H. pose proof (clamp_limit bs mp tot per bs' Hper Hmp H).
  assert (k * (bs' - 1) <= per * (bs' - 1)) by (apply Z.mul_le_mono_nonneg_r; lia). lia.
Qed.
(* since e06ceea the divisor is max(elements, bound parameters), so the limit holds for every k *)
Lemma clamp_limit_binds_fixed bs mp tot elems k bs' : 1 <= elems -> mp <> 0 -> 0 <= k -> 1 <= bs' ->
  clamp bs mp tot (params_per_batch_expr elems k) = Ok bs' -> (tot - k) + bs' * k <= mp.
Proof.
  intros He Hmp Hk Hbs H. unfold params_per_batch_expr in H.
  apply (clamp_limit_binds bs mp tot (Z.max elems k) k bs'); try assumption; lia.
Qed.
(* what the old divisor (the number of elements alone) did *)
Lemma clamp_limit_elements_only_refuted :
  exists bs mp tot per k bs', 1 <= per /\ 1 <= bs /\ tot <= mp /\ per <= k /\
    clamp bs mp tot per = Ok bs' /\ 1 <= bs' /\ (tot - k) + bs' * k > mp.
Proof. exists 20000, 32700, 3, 1, 3, 20000. repeat split; try lia; reflexivity. Qed.

(* ---------------- total_batches ---------------- *)
Lemma total_batches_small n bs : 0 < n <= bs -> total_batches_expr n bs = 1.
Proof.
  intros H. unfold total_batches_expr, truthy.
  destruct (Z.eq_dec n bs) as [->|Hne].
  - rewrite Z.div_same, Z.mod_same by lia. reflexivity.
  - rewrite Z.div_small, Z.mod_small by lia. destruct (n =? 0) eqn:E; [lia|reflexivity].
Qed.
Lemma total_batches_step n bs : 0 < bs -> total_batches_expr (n + bs) bs = total_batches_expr n bs + 1.
Proof.
  intros H. unfold total_batches_expr.
  replace (n + bs) with (n + 1 * bs) by lia. rewrite Z.div_add, Z.mod_add by lia. lia.
Qed.
Lemma total_batches_zero bs : bs <> 0 -> total_batches_expr 0 bs = 0.
Proof. intros. unfold total_batches_expr. rewrite Z.div_0_l, Z.mod_0_l by lia. reflexivity. Qed.

(* ---------------- slices ---------------- *)
Lemma py_stop_pos len bs : 1 <= bs -> py_stop len bs = Nat.min (Z.to_nat bs) len.
Proof. intros H. unfold py_stop. destruct (bs <? 0) eqn:E; lia. Qed.

Section SplitProofs.
Context {A : Type}.
Implicit Types l : list A.

Lemma take_front_pos bs l : 1 <= bs -> take_front bs l = firstn (Z.to_nat bs) l.
Proof.
  intros H. unfold take_front. rewrite py_stop_pos by exact H.
  destruct (Nat.le_ge_cases (Z.to_nat bs) (length l)) as [Hle|Hge].
  - rewrite Nat.min_l by exact Hle. reflexivity.
  - rewrite Nat.min_r by exact Hge. rewrite firstn_all. symmetry. apply firstn_all2. exact Hge.
Qed.
Lemma drop_front_pos bs l : 1 <= bs -> drop_front bs l = skipn (Z.to_nat bs) l.
Proof.
  intros H. unfold drop_front. rewrite py_stop_pos by exact H.
  destruct (Nat.le_ge_cases (Z.to_nat bs) (length l)) as [Hle|Hge].
  - rewrite Nat.min_l by exact Hle. reflexivity.
  - rewrite Nat.min_r by exact Hge. rewrite skipn_all. symmetry. apply skipn_all2. exact Hge.
Qed.

(* every chunk but the last is full *)
Fixpoint full_but_last (bs : Z) (chunks : list (list A * Z)) : Prop :=
  match chunks with
  | [] => True
  | c :: r => match r with [] => True | _ :: _ => Z.of_nat (length (fst c)) = bs end /\ full_but_last bs r
  end.

Definition chunk_ok (bs : Z) (c : list A * Z) : Prop :=
  1 <= Z.of_nat (length (fst c)) <= bs /\ snd c = Z.of_nat (length (fst c)).

Lemma split_loop_spec bs : 1 <= bs -> forall fuel l, (length l <= fuel)%nat ->
  exists chunks, split_loop fuel bs l = Ok chunks /\
    concat (map fst chunks) = l /\
    Forall (chunk_ok bs) chunks /\
    full_but_last bs chunks /\
    Z.of_nat (length chunks) = total_batches_expr (Z.of_nat (length l)) bs.
Proof.
  intros Hbs. induction fuel as [|f IH]; intros l Hl.
  - destruct l; [|cbn in Hl; lia]. exists []. cbn [split_loop map concat length full_but_last].
    rewrite total_batches_zero by lia. repeat split; constructor.
  - destruct l as [|a l'].
    + exists []. cbn [split_loop map concat length full_but_last].
      rewrite total_batches_zero by lia. repeat split; constructor.
    + cbn [split_loop]. remember (a :: l') as l eqn:El.
      assert (Hlen : (1 <= length l)%nat) by (subst; cbn; lia).
      rewrite take_front_pos, drop_front_pos by exact Hbs.
      set (n := Z.to_nat bs). assert (Hn : (1 <= n)%nat) by (subst n; lia).
      destruct (IH (skipn n l)) as (chunks & Hc & Hcat & Hall & Hfull & Hcnt).
      { rewrite skipn_length. lia. }
      rewrite Hc. cbn [bind].
      eexists; split; [reflexivity|].
      assert (Hfl : length (firstn n l) = Nat.min n (length l)) by apply firstn_length.
      split; [|split; [|split]].
      * cbn [map concat fst]. rewrite Hcat. apply firstn_skipn.
      * constructor; [|exact Hall]. unfold chunk_ok. cbn [fst snd]. rewrite Hfl.
        destruct (skipn n l) eqn:Es.
        -- split; [subst n; lia|reflexivity].
        -- assert (length (skipn n l) = (length l - n)%nat) by apply skipn_length.
           rewrite Es in H. cbn [length] in H. split; subst n; lia.
      * cbn [full_but_last fst]. split; [|exact Hfull].
        destruct chunks as [|c r]; [exact I|].
        destruct (skipn n l) eqn:Es.
        -- destruct f; cbn in Hc; inversion Hc.
        -- assert (length (skipn n l) = (length l - n)%nat) by apply skipn_length.
           rewrite Es in H. cbn [length] in H. rewrite Hfl. subst n. lia.
      * cbn [length]. rewrite Nat2Z.inj_succ, Hcnt, skipn_length.
        destruct (Nat.le_ge_cases (length l) n) as [Hle|Hge].
        -- replace (length l - n)%nat with O by lia. rewrite total_batches_zero by lia.
           rewrite total_batches_small; [reflexivity|subst n; lia].
        -- replace (Z.of_nat (length l)) with (Z.of_nat (length l - n) + bs) by (subst n; lia).
           rewrite total_batches_step by lia. lia.
Qed.

(* a negative size never terminates normally on a non-empty list (the model runs out of any fuel;
   the implementation keeps yielding statements with an empty VALUES list) *)
Lemma drop_front_neg_nonempty bs l : bs < 0 -> l <> [] -> drop_front bs l <> [].
Proof.
  intros Hbs Hl. unfold drop_front, py_stop. destruct (bs <? 0) eqn:E; [|lia].
  intros H. apply (f_equal (@length A)) in H. rewrite skipn_length in H. cbn in H.
  destruct l; [congruence|]. cbn [length] in H. lia.
Qed.
Lemma split_loop_neg bs : bs < 0 -> forall fuel l, l <> [] -> split_loop fuel bs l = OutOfFuel.
Proof.
  intros Hbs. induction fuel as [|f IH]; intros l Hl; destruct l as [|a l']; try congruence; [reflexivity|].
  cbn [split_loop]. rewrite IH; [reflexivity|]. apply drop_front_neg_nonempty; [exact Hbs|congruence].
Qed.
End SplitProofs.

(* ---------------- plan ---------------- *)
Section PlanProofs.
Context {P : Type}.
Implicit Types ps : list P.

Lemma row_batches_items n t s d ps : concat (map b_items (row_batches n t s d ps)) = ps.
Proof. revert n. induction ps as [|p r IH]; intros n; cbn; [reflexivity|]. rewrite IH. reflexivity. Qed.
Lemma row_batches_singletons n t s d ps :
  Forall (fun b => exists p, b_items b = [p] /\ b_cbs b = 1 /\ b_downgraded b = d /\ b_sorted b = s /\ b_total b = t)
         (row_batches n t s d ps).
Proof. revert n. induction ps as [|p r IH]; intros n; cbn; constructor; [exists p; cbn; auto|apply IH]. Qed.
Lemma row_batches_length n t s d ps : length (row_batches n t s d ps) = length ps.
Proof. revert n. induction ps as [|p r IH]; intros n; cbn; [reflexivity|]. rewrite IH. reflexivity. Qed.
Lemma row_batches_nums n t s d ps : map b_num (row_batches n t s d ps) = zrange n (length ps).
Proof. revert n. induction ps as [|p r IH]; intros n; cbn; [reflexivity|]. rewrite IH. reflexivity. Qed.

Lemma number_batches_items n t s (chunks : list (list P * Z)) :
  map b_items (number_batches n t s chunks) = map fst chunks.
Proof. revert n. induction chunks as [|[i c] r IH]; intros n; cbn; [reflexivity|]. rewrite IH. reflexivity. Qed.
Lemma number_batches_nums n t s (chunks : list (list P * Z)) :
  map b_num (number_batches n t s chunks) = zrange n (length chunks).
Proof. revert n. induction chunks as [|[i c] r IH]; intros n; cbn; [reflexivity|]. rewrite IH. reflexivity. Qed.
Lemma number_batches_forall n t s (chunks : list (list P * Z)) (Q : list P -> Z -> Prop) :
  Forall (fun c => Q (fst c) (snd c)) chunks ->
  Forall (fun b => Q (b_items b) (b_cbs b) /\ b_downgraded b = false /\ b_sorted b = s /\ b_total b = t)
         (number_batches n t s chunks).
Proof.
  revert n. induction chunks as [|[i c] r IH]; intros n H; cbn; constructor; inversion H; subst.
  - cbn. auto.
  - apply IH. assumption.
Qed.

(* precondition under which the clamp cannot push the size below 1 *)
Definition clamp_pre (c : config) : Prop :=
  c_max_params c = 0 \/ (1 <= c_per_batch c /\ c_total_params c <= c_max_params c).

Definition batch_ok (c : config) (total : Z) (b : batch P) : Prop :=
  b_items b <> [] /\ b_cbs b = Z.of_nat (length (b_items b)) /\ b_cbs b <= Z.max 1 (c_batch_size c) /\
  b_sorted b = c_sbo c /\ b_total b = total /\
  b_downgraded b = snd (decide_mode (c_sbo c) (c_flags c)).

Theorem plan_spec (c : config) ps : 1 <= c_batch_size c -> clamp_pre c ->
  exists bl, plan c ps = Ok bl /\
    concat (map b_items bl) = ps /\
    map b_num bl = zrange 1 (length bl) /\
    Forall (batch_ok c (Z.of_nat (length bl))) bl /\
    (fst (decide_mode (c_sbo c) (c_flags c)) = true -> Forall (fun b => length (b_items b) = 1%nat) bl).
Proof.
  intros Hbs Hpre. unfold plan.
  destruct (mode_row_or_batched (c_sbo c) (c_flags c)) as [Hm|[Hm|Hm]]; rewrite Hm.
  - eexists; split; [reflexivity|]. split; [apply row_batches_items|].
    rewrite row_batches_length. split; [apply row_batches_nums|]. split.
    + eapply Forall_impl; [|apply row_batches_singletons]. cbn beta. intros b (p & H1 & H2 & H3 & H4 & H5).
      unfold batch_ok. rewrite H1, H2, H3, H4, H5, Hm. cbn. repeat split; try congruence; lia.
    + intros _. eapply Forall_impl; [|apply row_batches_singletons]. cbn beta. intros b (p & H1 & _). rewrite H1. reflexivity.
  - eexists; split; [reflexivity|]. split; [apply row_batches_items|].
    rewrite row_batches_length. split; [apply row_batches_nums|]. split.
    + eapply Forall_impl; [|apply row_batches_singletons]. cbn beta. intros b (p & H1 & H2 & H3 & H4 & H5).
      unfold batch_ok. rewrite H1, H2, H3, H4, H5, Hm. cbn. repeat split; try congruence; lia.
    + intros _. eapply Forall_impl; [|apply row_batches_singletons]. cbn beta. intros b (p & H1 & _). rewrite H1. reflexivity.
  - assert (Hcl : exists bs', clamp (c_batch_size c) (c_max_params c) (c_total_params c) (c_per_batch c) = Ok bs'
                 /\ 1 <= bs' <= c_batch_size c).
    { destruct Hpre as [H0|[H1 H2]].
      - rewrite H0, clamp_off. exists (c_batch_size c). split; [reflexivity|lia].
      - apply clamp_ge_1; assumption. }
    destruct Hcl as (bs' & Hcl & Hb'). rewrite Hcl. cbn [bind].
    unfold total_batches. destruct (bs' =? 0) eqn:E0; [lia|]. cbn [bind].
    destruct (split_loop_spec bs' ltac:(lia) (length ps) ps (le_n _)) as (chunks & Hs & Hcat & Hall & _ & Hcnt).
    rewrite Hs. cbn [bind]. eexists; split; [reflexivity|].
    split; [rewrite number_batches_items; exact Hcat|].
    assert (Hlen : length (number_batches 1 (total_batches_expr (Z.of_nat (length ps)) bs') (c_sbo c) chunks) = length chunks).
    { rewrite <- (map_length b_num), number_batches_nums. clear. generalize 1. induction (length chunks); intros; cbn; [reflexivity|]. rewrite IHn. reflexivity. }
    split; [rewrite Hlen; apply number_batches_nums|].
    split.
    + rewrite Hlen, Hcnt.
      eapply Forall_impl; [|apply (number_batches_forall 1 _ (c_sbo c) chunks (fun i cb => chunk_ok bs' (i, cb)))].
      * cbn beta. intros b ((H1 & H2) & H3 & H4 & H5). cbn [fst snd] in H1, H2. unfold batch_ok.
        rewrite H3, H4, H5. repeat split; try reflexivity.
        -- intros Hn. rewrite Hn in H1. cbn in H1. lia.
        -- exact H2.
        -- rewrite H2. lia.
        -- rewrite Hm. reflexivity.
      * eapply Forall_impl; [|exact Hall]. intros [i cb] H. exact H.
    + cbn. congruence.
Qed.

(* batch_size = 0: lenparams // 0 *)
Theorem plan_zero_size (c : config) ps : fst (decide_mode (c_sbo c) (c_flags c)) = false ->
  c_batch_size c = 0 -> c_max_params c = 0 -> plan c ps = Raise ZeroDivisionError.
Proof.
  intros Hm H0 H1. unfold plan. destruct (decide_mode (c_sbo c) (c_flags c)) as [[|] d]; [discriminate|].
  rewrite H0, H1. reflexivity.
Qed.

(* batch_size < 0 never completes *)
Theorem plan_negative_size (c : config) ps : fst (decide_mode (c_sbo c) (c_flags c)) = false ->
  c_batch_size c < 0 -> c_max_params c = 0 -> ps <> [] -> plan c ps = OutOfFuel.
Proof.
  intros Hm H0 H1 Hps. unfold plan. destruct (decide_mode (c_sbo c) (c_flags c)) as [[|] d]; [discriminate|].
  rewrite H1, clamp_off. cbn [bind]. unfold total_batches. destruct (c_batch_size c =? 0) eqn:E; [lia|].
  cbn [bind]. rewrite split_loop_neg by assumption. reflexivity.
Qed.
End PlanProofs.
