(* executable entry point for the correspondence check of C22, parameterised by the regenerated tables *)
From Coq Require Import List NArith ZArith Bool.
Import ListNotations.
From SAV.base Require Import Tree.
From SAV.sql Require Import Dispatch DispatchFrag.

Definition optN (z : Z) : option N := if (z <? 0)%Z then None else Some (Z.to_N z).

Definition enc_outcome (o : outcome) : tree :=
  match o with
  | Method n => L [I 0%Z; of_N n]
  | Generic => L [I 1%Z]
  | Doc Unsupported => L [I 2%Z]
  | Doc CompileErr => L [I 3%Z]
  | Int AttributeErr => L [I 4%Z]
  | Int KeyErr => L [I 5%Z]
  end.

Definition enc_result (r : result) : tree :=
  match r with
  | ROk => L [I 0%Z]
  | RDoc Unsupported => L [I 1%Z]
  | RDoc CompileErr => L [I 2%Z]
  | RInt AttributeErr => L [I 3%Z]
  | RInt KeyErr => L [I 4%Z]
  end.

Definition result_is (want got : result) : bool := tree_eqb (enc_result want) (enc_result got).

Definition dec_kind (z : Z) : option ckind :=
  if Z.eqb z 0 then Some KSql else if Z.eqb z 1 then Some KDdl else if Z.eqb z 2 then Some KType else None.

(* node encoding: [0,k,vn,[kids]] | [1] | [2,op,cust,l,r] | [3,operator,modifier,cust,e] | [4,op,[kids]] | [5,op,[kids]]
   (-1 = None for the optional numbers) *)
Fixpoint dec_node (fuel : nat) (t : tree) : option node :=
  match fuel with
  | O => None
  | S f =>
    match t with
    | L [I 0%Z; I k; I vn; L kids] =>
        match dec_kind k, all_some (map (dec_node f) kids) with
        | Some k', Some ks => Some (NElem k' (Z.to_N vn) ks)
        | _, _ => None
        end
    | L [I 1%Z] => Some NNoDispatch
    | L [I 2%Z; I op; I cust; l; r] =>
        match dec_node f l, dec_node f r with
        | Some a, Some b => Some (NBinary (Z.to_N op) (optN cust) a b)
        | _, _ => None
        end
    | L [I 3%Z; I o; I m; I cust; e] =>
        match dec_node f e with Some a => Some (NUnary (optN o) (optN m) (optN cust) a) | None => None end
    | L [I 4%Z; I op; L kids] =>
        match all_some (map (dec_node f) kids) with Some ks => Some (NExprList (Z.to_N op) ks) | None => None end
    | L [I 5%Z; I op; L kids] =>
        match all_some (map (dec_node f) kids) with Some ks => Some (NClauseList (optN op) ks) | None => None end
    | _ => None
    end
  end.

(* the final choice of an operator dispatch: custom_op's own visit method hands over to the visit_name dispatch *)
Definition finally (T : tables) (c : clsid) (is_custom : bool) (cust : option name) (o : outcome) : outcome :=
  match o with
  | Method _ => if is_custom then custom_dispatch T c cust else o
  | _ => o
  end.

Definition dec_iname (t : tree) : option iname :=
  match t with
  | L [I 0%Z] => Some NameNone
  | L [I 1%Z] => Some (NameDeferred None)
  | L [I 2%Z; L s] => match all_some (map as_N s) with Some s' => Some (NameDeferred (Some s')) | None => None end
  | L [I 3%Z; L s] => match all_some (map as_N s) with Some s' => Some (NameStr s') | None => None end
  | _ => None
  end.

Definition enc_ddlres (r : ddlres) : tree :=
  match r with DOk s => L [I 0%Z; of_list of_N s] | DCompileError => L [I 1%Z] | DAssertionError => L [I 2%Z] end.

Definition dec_ty (z : Z) : option ty :=
  match z with 0%Z => Some TInteger | 1%Z => Some TNumeric | 2%Z => Some TDate | 3%Z => Some TString | 4%Z => Some TNull | _ => None end.
Definition dec_step (t : tree) : option step :=
  match t with I 0%Z => Some Operate | I 1%Z => Some Pickle | _ => None end.
Definition enc_opres (o : opres) : tree := match o with OpOk => I 0%Z | OpAttributeError => I 1%Z end.

(* input
     [0, compiler, vn]                          one generated _compiler_dispatch step
     [1, compiler, position, op, is_custom, cust]   operator dispatch; position 0 binary 1 unary operator 2 unary modifier
                                                3 expression_clauselist 4 clauselist (op -1 = None)
     [2, dialect index, node]                   whole-tree walk
     [3, ddl compiler, 0 create | 1 drop, iname]  CREATE/DROP INDEX name handling
     [4, type, [steps]]                         operate / pickle history *)
Definition run_with (T : tables) (NC : list (N * (bool * bool))) (t : tree) : tree :=
  match t with
  | L [I 0%Z; I c; I vn] => enc_outcome (elem_dispatch T (Z.to_N c) (Z.to_N vn))
  | L [I 1%Z; I c; I pos; I op; I isc; I cust] =>
      let c' := Z.to_N c in
      let fin := finally T c' (Z.eqb isc 1) (optN cust) in
      if Z.eqb pos 0 then enc_outcome (fin (binary_dispatch T c' (Z.to_N op)))
      else if Z.eqb pos 1 then enc_outcome (fin (unary_dispatch T c' (Z.to_N op) false))
      else if Z.eqb pos 2 then enc_outcome (fin (unary_dispatch T c' (Z.to_N op) true))
      else if Z.eqb pos 3 then enc_outcome (elist_dispatch T c' (Z.to_N op))
      else if Z.eqb pos 4 then enc_outcome (clist_dispatch T (optN op))
      else bad_input
  | L [I 2%Z; I di; n] =>
      match nth_error (dialects T) (Z.to_nat di), dec_node 64 n with
      | Some d, Some n' => enc_result (walk T d n')
      | _, _ => bad_input
      end
  | L [I 3%Z; I c; I which; n] =>
      match assocN (Z.to_N c) NC, dec_iname n with
      | Some (cr, dr), Some n' => enc_ddlres (visit_index_ddl (if Z.eqb which 0 then cr else dr) n')
      | _, _ => bad_input
      end
  | L [I 4%Z; I ty; L h] =>
      match dec_ty ty, all_some (map dec_step h) with
      | Some t', Some h' => L (map enc_opres (run (fresh t') h'))
      | _, _ => bad_input
      end
  | _ => bad_input
  end.
