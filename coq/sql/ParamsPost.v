(* C04 - the loop of _process_parameters_for_postcompile: invariant over the names processed so far *)
From Coq Require Import List NArith ZArith Bool Lia.
Import ListNotations.
From SAV.sql Require Import Params ParamsDict ParamsEscape ParamsGuard.

Lemma flat_map_snoc : forall {A B} (f : A -> list B) l x, flat_map f (l ++ [x]) = flat_map f l ++ f x.
Proof. intros. rewrite flat_map_app. cbn [flat_map]. rewrite app_nil_r. reflexivity. Qed.

Definition name_eq_dec : forall a b : name, {a = b} + {a <> b} := list_eq_dec N.eq_dec.

Section Post.
Variable tab : list (N * N).
Variable lit : Z -> str.
Variable empty_expr : str.
Variable ps : style.
Variable inp : input.
Hypothesis W : wf tab inp.

Notation order := (i_order inp).
Notation ebn := (ebn_of tab (i_order inp)).

(* the value given for a bind *)
Definition pv (n : name) : pval := match dget n (i_params inp) with Some v => v | None => PS 0 end.
(* what replaces __[POSTCOMPILE_n] *)
Definition repl_of (n : name) : list otok :=
  match kind_of inp n with
  | Expand => repl_expand empty_expr ps (esc tab n) (plist inp n)
  | _ => [OTxt (pct ps (lit_of lit empty_expr (pv n)))]
  end.
Definition newpos_of (n : name) : list name :=
  match kind_of inp n with
  | Plain => [n]
  | Expand => if numeric ps then [] else xnames tab inp n
  | LitExec => []
  end.
Definition numpos_of (n : name) : list name :=
  match kind_of inp n with Expand => xnames tab inp n | _ => [] end.

Record Inv (done : list name) (st : pcstate) : Prop := {
  v_done : incl done order;
  v_nodup : NoDup (keys (s_params st));
  v_x : forall n k v, In n done -> In (k, v) (xitems tab inp n) -> dget k (s_params st) = Some (PS v);
  v_keep : forall k, In k order -> (~ In k done \/ kind_of inp k = Plain) ->
           dget k (s_params st) = dget k (i_params inp);
  v_keys : forall k, In k (keys (s_params st)) ->
           In k order \/ exists n, In n order /\ In k (xnames tab inp n);
  v_repl_in : forall n, In n done -> kind_of inp n <> Plain -> dget (esc tab n) (s_repl st) = Some (repl_of n);
  v_repl_out : forall n, In n order -> ~ In n done -> dget (esc tab n) (s_repl st) = None;
  v_upd : forall n, In n done -> kind_of inp n = Expand -> dget (esc tab n) (s_upd st) = Some (xitems tab inp n);
  v_newpos : s_newpos st = if positional ps then flat_map newpos_of done else [];
  v_numpos : s_numpos st = if numeric ps then flat_map numpos_of done else [];
  v_procs_x : forall n k v, In n done -> In (k, v) (xitems tab inp n) ->
              dget k (s_procs st) = dget n (i_procs inp);
  v_procs_keys : forall k, In k (keys (s_procs st)) -> exists n, In n done /\ In k (xnames tab inp n);
  v_procs_nodup : NoDup (keys (s_procs st))
}.

Definition init_state : pcstate :=
  {| s_params := i_params inp; s_repl := []; s_upd := []; s_newpos := []; s_numpos := []; s_procs := [] |}.

Lemma Inv_init : Inv [] init_state.
Proof.
  constructor; cbn [init_state s_params s_repl s_upd s_newpos s_numpos s_procs flat_map].
  - intros x [].
  - exact (w_pnodup _ _ W).
  - intros n k v [].
  - reflexivity.
  - intros k H. left. exact (w_pkeys _ _ W k H).
  - intros n [].
  - reflexivity.
  - intros n [].
  - destruct (positional ps); reflexivity.
  - destruct (numeric ps); reflexivity.
  - intros n k v [].
  - intros k [].
  - constructor.
Qed.

Lemma xitems_nonexpand : forall n, kind_of inp n <> Expand -> xitems tab inp n = [].
Proof. intros n H. unfold xitems. destruct (kind_of inp n); congruence. Qed.

Lemma In_snoc_done : forall (done : list name) n x, In n done -> (In x (done ++ [n]) <-> In x done).
Proof.
  intros done n x Hn. rewrite in_app_iff. cbn [In]. split; [intros [H|[<-|[]]]; assumption|intro H; left; exact H].
Qed.

(* appending a name that was already processed changes nothing in the membership-based clauses *)
Lemma Inv_again : forall done st n, Inv done st -> In n done -> kind_of inp n = LitExec -> Inv (done ++ [n]) st.
Proof.
  intros done st n I Hn K. destruct I. constructor; try assumption.
  - intros x Hx. apply in_app_or in Hx. destruct Hx as [Hx|[<-|[]]]; [apply v_done0; exact Hx|apply v_done0; exact Hn].
  - intros n0 k v H. apply (In_snoc_done done n n0 Hn) in H. apply v_x0. exact H.
  - intros k Hk [H|H]; apply v_keep0; try exact Hk; [left|right; exact H].
    intro Hi. apply H. apply in_or_app. left. exact Hi.
  - intros n0 H. apply (In_snoc_done done n n0 Hn) in H. apply v_repl_in0. exact H.
  - intros n0 Ho H. apply v_repl_out0; [exact Ho|]. intro Hi. apply H. apply in_or_app. left. exact Hi.
  - intros n0 H. apply (In_snoc_done done n n0 Hn) in H. apply v_upd0. exact H.
  - rewrite v_newpos0. destruct (positional ps); [|reflexivity]. rewrite flat_map_snoc.
    unfold newpos_of at 3. rewrite K, app_nil_r. reflexivity.
  - rewrite v_numpos0. destruct (numeric ps); [|reflexivity]. rewrite flat_map_snoc.
    unfold numpos_of at 3. rewrite K, app_nil_r. reflexivity.
  - intros n0 k v H. apply (In_snoc_done done n n0 Hn) in H. apply v_procs_x0. exact H.
  - intros k Hk. destruct (v_procs_keys0 k Hk) as [n0 [A B]]. exists n0. split; [apply in_or_app; left; exact A|exact B].
Qed.

Lemma xitem_name : forall n k v, In (k, v) (xitems tab inp n) -> In k (xnames tab inp n).
Proof. intros n k v H. unfold xnames. apply in_map_iff. exists (k, v). split; [reflexivity|exact H]. Qed.

Lemma xnames_upd : forall n, map fst (map (fun kv : name * Z => (fst kv, PS (snd kv))) (xitems tab inp n)) = xnames tab inp n.
Proof. intro n. rewrite map_map. reflexivity. Qed.

Lemma positional_cases :
  (if positional ps && negb (numeric ps) then true else false) = (if positional ps then negb (numeric ps) else false).
Proof. destruct ps; reflexivity. Qed.

(* one iteration of the loop *)
Lemma pc_step_inv : forall done st n, Inv done st -> In n order ->
  exists st', pc_step lit empty_expr ps inp ebn st n = Ok st' /\ Inv (done ++ [n]) st'.
Proof.
  intros done st n I Hn. unfold pc_step. rewrite (ebn_get_or_key_in tab _ _ Hn).
  assert (Hdone' : incl (done ++ [n]) order).
  { intros x Hx. apply in_app_or in Hx. destruct Hx as [Hx|[<-|[]]]; [apply (v_done _ _ I); exact Hx|exact Hn]. }
  destruct (kind_of inp n) eqn:K.
  - (* Plain *)
    eexists. split; [reflexivity|]. destruct I. constructor; cbn [s_params s_repl s_upd s_newpos s_numpos s_procs]; try assumption.
    + intros n0 k v H Hx. apply in_app_or in H. destruct H as [H|[<-|[]]]; [apply (v_x0 n0); assumption|].
      rewrite xitems_nonexpand in Hx by congruence. destruct Hx.
    + intros k Hk [H|H]; apply v_keep0; try exact Hk; [left|right; exact H].
      intro Hi. apply H. apply in_or_app. left. exact Hi.
    + intros n0 H Hk. apply in_app_or in H. destruct H as [H|[<-|[]]]; [apply v_repl_in0; assumption|congruence].
    + intros n0 Ho H. apply v_repl_out0; [exact Ho|]. intro Hi. apply H. apply in_or_app. left. exact Hi.
    + intros n0 H Hk. apply in_app_or in H. destruct H as [H|[<-|[]]]; [apply v_upd0; assumption|congruence].
    + rewrite v_newpos0. destruct (positional ps); [|reflexivity]. rewrite flat_map_snoc.
      unfold newpos_of at 3. rewrite K. reflexivity.
    + rewrite v_numpos0. destruct (numeric ps); [|reflexivity]. rewrite flat_map_snoc.
      unfold numpos_of at 3. rewrite K, app_nil_r. reflexivity.
    + intros n0 k v H Hx. apply in_app_or in H. destruct H as [H|[<-|[]]]; [apply (v_procs_x0 n0 k v); assumption|].
      rewrite xitems_nonexpand in Hx by congruence. destruct Hx.
    + intros k Hk. destruct (v_procs_keys0 k Hk) as [n0 [A B]]. exists n0. split; [apply in_or_app; left; exact A|exact B].
  - (* Expand *)
    assert (Hd : forall k, In k (xnames tab inp n) -> k <> n).
    { intros k Hk ->. exact (w_xfresh _ _ W n n Hn Hk Hn). }
    assert (Hfin : forall st1,
      NoDup (keys (s_params st1)) ->
      (forall n0 k v, In n0 done -> In (k, v) (xitems tab inp n0) -> dget k (s_params st1) = Some (PS v)) ->
      (forall k, In k order -> (~ In k (done ++ [n]) \/ kind_of inp k = Plain) -> dget k (s_params st1) = dget k (i_params inp)) ->
      (forall k, In k (keys (s_params st1)) -> In k order \/ exists n, In n order /\ In k (xnames tab inp n)) ->
      (forall n0, In n0 (done ++ [n]) -> kind_of inp n0 <> Plain -> dget (esc tab n0) (s_repl st1) = Some (repl_of n0)) ->
      (forall n0, In n0 order -> ~ In n0 (done ++ [n]) -> dget (esc tab n0) (s_repl st1) = None) ->
      (forall n0, In n0 (done ++ [n]) -> kind_of inp n0 = Expand -> dget (esc tab n0) (s_upd st1) = Some (xitems tab inp n0)) ->
      s_newpos st1 = s_newpos st -> s_numpos st1 = s_numpos st -> s_procs st1 = s_procs st ->
      Inv (done ++ [n])
        {| s_params := dupdate (map (fun kv : name * Z => (fst kv, PS (snd kv))) (xitems tab inp n)) (s_params st1);
           s_repl := s_repl st1; s_upd := s_upd st1;
           s_newpos := if positional ps && negb (numeric ps) then s_newpos st1 ++ map fst (xitems tab inp n) else s_newpos st1;
           s_numpos := if numeric ps then s_numpos st1 ++ map fst (xitems tab inp n) else s_numpos st1;
           s_procs := match dget n (i_procs inp) with
                      | Some p => dupdate (map (fun kv : name * Z => (fst kv, p)) (xitems tab inp n)) (s_procs st1)
                      | None => s_procs st1
                      end |}).
    { intros st1 A1 A2 A3 A4 A5 A6 A7 A8 A9 A10.
      constructor; cbn [s_params s_repl s_upd s_newpos s_numpos s_procs]; try assumption.
      - apply NoDup_keys_dupdate. exact A1.
      - intros n0 k v H Hx. destruct (in_dec name_eq_dec k (xnames tab inp n)) as [Hk|Hk].
        + assert (n0 = n).
          { apply (w_xdisj _ _ W n0 n k); [apply Hdone'; exact H|exact Hn|exact (xitem_name _ _ _ Hx)|exact Hk]. }
          subst n0. apply dget_dupdate_in.
          * rewrite xnames_upd. exact (w_xnodup _ _ W n Hn).
          * apply in_map_iff. exists (k, v). split; [reflexivity|exact Hx].
        + rewrite dget_dupdate_other by (rewrite xnames_upd; exact Hk).
          apply in_app_or in H. destruct H as [H|[<-|[]]]; [apply (A2 n0); assumption|].
          exfalso. apply Hk. exact (xitem_name _ _ _ Hx).
      - intros k Hk H. rewrite dget_dupdate_other; [apply A3; assumption|].
        rewrite xnames_upd. intro Hx. exact (w_xfresh _ _ W n k Hn Hx Hk).
      - intros k H. apply In_keys_dupdate in H. destruct H as [H|H]; [|apply A4; exact H].
        rewrite xnames_upd in H. right. exists n. split; assumption.
      - rewrite A8, (v_newpos _ _ I).
        assert (Hnp : newpos_of n = if numeric ps then [] else xnames tab inp n) by (unfold newpos_of; rewrite K; reflexivity).
        destruct (positional ps) eqn:P; destruct (numeric ps) eqn:Nn; cbn [andb negb]; try reflexivity;
          rewrite flat_map_snoc, Hnp; [rewrite app_nil_r|]; reflexivity.
      - rewrite A9, (v_numpos _ _ I). destruct (numeric ps); [|reflexivity]. rewrite flat_map_snoc.
        unfold numpos_of at 3. rewrite K. reflexivity.
      - (* processors of the expanded names *)
        rewrite A10. intros n0 k v H Hx.
        assert (Hmf : forall p : N, map fst (map (fun kv : name * Z => (fst kv, p)) (xitems tab inp n)) = xnames tab inp n).
        { intro p. rewrite map_map. reflexivity. }
        destruct (in_dec name_eq_dec k (xnames tab inp n)) as [Hk|Hk].
        + assert (n0 = n).
          { apply (w_xdisj _ _ W n0 n k); [apply Hdone'; exact H|exact Hn|exact (xitem_name _ _ _ Hx)|exact Hk]. }
          subst n0. destruct (dget n (i_procs inp)) as [p|] eqn:Ep.
          * apply (dget_dupdate_in k p).
            -- rewrite Hmf. exact (w_xnodup _ _ W n Hn).
            -- apply in_map_iff. exists (k, v). split; [reflexivity|exact Hx].
          * apply in_app_or in H. destruct H as [H|_].
            -- rewrite (v_procs_x _ _ I n k v H Hx). exact Ep.
            -- destruct (in_dec name_eq_dec n done) as [Hd0|Hd0].
               ++ rewrite (v_procs_x _ _ I n k v Hd0 Hx). exact Ep.
               ++ apply dget_None_keys. intro Hkk. destruct (v_procs_keys _ _ I k Hkk) as [n1 [B1 B2]].
                  apply Hd0. rewrite (w_xdisj _ _ W n n1 k Hn (v_done _ _ I n1 B1) Hk B2). exact B1.
        + assert (Hold : dget k (s_procs st) = dget n0 (i_procs inp)).
          { apply in_app_or in H. destruct H as [H|[<-|[]]]; [exact (v_procs_x _ _ I n0 k v H Hx)|].
            exfalso. apply Hk. exact (xitem_name _ _ _ Hx). }
          destruct (dget n (i_procs inp)) as [p|]; [|exact Hold].
          rewrite dget_dupdate_other; [exact Hold|]. rewrite Hmf. exact Hk.
      - rewrite A10. intros k Hk. destruct (dget n (i_procs inp)) as [p|].
        + apply In_keys_dupdate in Hk. destruct Hk as [Hk|Hk].
          * rewrite map_map in Hk. exists n. split; [apply in_or_app; right; left; reflexivity|exact Hk].
          * destruct (v_procs_keys _ _ I k Hk) as [n1 [B1 B2]]. exists n1. split; [apply in_or_app; left; exact B1|exact B2].
        + destruct (v_procs_keys _ _ I k Hk) as [n1 [B1 B2]]. exists n1. split; [apply in_or_app; left; exact B1|exact B2].
      - rewrite A10. destruct (dget n (i_procs inp)); [apply NoDup_keys_dupdate|]; exact (v_procs_nodup _ _ I). }
    destruct (dmem (esc tab n) (s_repl st)) eqn:D.
    + (* seen before *)
      assert (Hin : In n done).
      { destruct (in_dec name_eq_dec n done) as [H|H]; [exact H|].
        rewrite (proj2 (dmem_false _ _)) in D; [discriminate|].
        apply dget_None_keys. apply (v_repl_out _ _ I); assumption. }
      rewrite (v_upd _ _ I n Hin K). cbn [bind]. eexists. split; [reflexivity|].
      apply Hfin; try reflexivity.
      * exact (v_nodup _ _ I).
      * exact (v_x _ _ I).
      * intros k Hk [H|H]; apply (v_keep _ _ I); try exact Hk; [left|right; exact H].
        intro Hi. apply H. apply in_or_app. left. exact Hi.
      * exact (v_keys _ _ I).
      * intros n0 H. apply (In_snoc_done done n n0 Hin) in H. apply (v_repl_in _ _ I). exact H.
      * intros n0 Ho H. apply (v_repl_out _ _ I); [exact Ho|]. intro Hi. apply H. apply in_or_app. left. exact Hi.
      * intros n0 H. apply (In_snoc_done done n n0 Hin) in H. apply (v_upd _ _ I). exact H.
    + (* first time *)
      assert (Hout : ~ In n done).
      { intro H. unfold dmem in D. rewrite (v_repl_in _ _ I n H) in D by congruence. discriminate. }
      destruct (w_expand _ _ W n Hn K) as [l Hl].
      rewrite (v_keep _ _ I n Hn (or_introl Hout)), Hl. cbn [bind].
      assert (Hx : expanded_names (esc tab n) l = xitems tab inp n).
      { unfold xitems, plist. rewrite K, Hl. reflexivity. }
      rewrite Hx. eexists. split; [reflexivity|].
      apply Hfin; cbn [s_params s_repl s_upd s_newpos s_numpos s_procs]; try reflexivity.
      * apply NoDup_keys_dpop. exact (v_nodup _ _ I).
      * intros n0 k v H Hxi. rewrite dget_dpop_other; [apply (v_x _ _ I n0); assumption|].
        intros ->. exact (w_xfresh _ _ W n0 n (v_done _ _ I n0 H) (xitem_name _ _ _ Hxi) Hn).
      * intros k Hk H. assert (k <> n).
        { intros ->. destruct H as [H|H]; [apply H; apply in_or_app; right; left; reflexivity|congruence]. }
        rewrite dget_dpop_other by assumption. apply (v_keep _ _ I); [exact Hk|].
        destruct H as [H|H]; [left|right; exact H]. intro Hi. apply H. apply in_or_app. left. exact Hi.
      * intros k H. apply In_keys_dpop in H. apply (v_keys _ _ I). exact H.
      * intros n0 H Hk. apply in_app_or in H. destruct H as [H|[<-|[]]].
        -- rewrite dget_dset_other; [apply (v_repl_in _ _ I); assumption|].
           intro He. apply Hout. rewrite <- (w_inj _ _ W n0 n (v_done _ _ I n0 H) Hn He). exact H.
        -- rewrite dget_dset_same. unfold repl_of. rewrite K. unfold plist. rewrite Hl. reflexivity.
      * intros n0 Ho H. rewrite dget_dset_other; [apply (v_repl_out _ _ I); [exact Ho|]|].
        -- intro Hi. apply H. apply in_or_app. left. exact Hi.
        -- intro He. apply H. apply in_or_app. right. left. symmetry. exact (w_inj _ _ W n0 n Ho Hn He).
      * intros n0 H Hk. apply in_app_or in H. destruct H as [H|[<-|[]]].
        -- rewrite dget_dset_other; [apply (v_upd _ _ I); assumption|].
           intro He. apply Hout. rewrite <- (w_inj _ _ W n0 n (v_done _ _ I n0 H) Hn He). exact H.
        -- apply dget_dset_same.
  - (* LitExec *)
    destruct (dmem (esc tab n) (s_repl st)) eqn:D.
    + assert (Hin : In n done).
      { destruct (in_dec name_eq_dec n done) as [H|H]; [exact H|].
        rewrite (proj2 (dmem_false _ _)) in D; [discriminate|].
        apply dget_None_keys. apply (v_repl_out _ _ I); assumption. }
      eexists. split; [reflexivity|]. apply Inv_again; assumption.
    + assert (Hout : ~ In n done).
      { intro H. unfold dmem in D. rewrite (v_repl_in _ _ I n H) in D by congruence. discriminate. }
      destruct (w_litv _ _ W n Hn K) as [v Hv].
      assert (Hg : dget n (s_params st) = Some v) by (rewrite (v_keep _ _ I n Hn (or_introl Hout)); exact Hv).
      (* the un-escaped name is a key of the parameters: it is the one popped *)
      assert (Hm : pop_key n (esc tab n) (s_params st) = n) by (unfold pop_key, dmem; rewrite Hg; reflexivity).
      rewrite Hm, Hg.
      eexists. split; [reflexivity|]. destruct I.
      constructor; cbn [s_params s_repl s_upd s_newpos s_numpos s_procs]; try assumption.
      * apply NoDup_keys_dpop. exact v_nodup0.
      * intros n0 k v1 H Hxi. apply in_app_or in H. destruct H as [H|[<-|[]]].
        -- rewrite dget_dpop_other; [apply (v_x0 n0); assumption|].
           intros ->. exact (w_xfresh _ _ W n0 n (v_done0 n0 H) (xitem_name _ _ _ Hxi) Hn).
        -- rewrite xitems_nonexpand in Hxi by congruence. destruct Hxi.
      * intros k Hk H. assert (k <> n).
        { intros ->. destruct H as [H|H]; [apply H; apply in_or_app; right; left; reflexivity|congruence]. }
        rewrite dget_dpop_other by assumption. apply v_keep0; [exact Hk|].
        destruct H as [H|H]; [left|right; exact H]. intro Hi. apply H. apply in_or_app. left. exact Hi.
      * intros k H. apply In_keys_dpop in H. apply v_keys0. exact H.
      * intros n0 H Hk. apply in_app_or in H. destruct H as [H|[<-|[]]].
        -- rewrite dget_dset_other; [apply v_repl_in0; assumption|].
           intro He'. apply Hout. rewrite <- (w_inj _ _ W n0 n (v_done0 n0 H) Hn He'). exact H.
        -- rewrite dget_dset_same. unfold repl_of, pv. rewrite K, Hv. reflexivity.
      * intros n0 Ho H. rewrite dget_dset_other; [apply v_repl_out0; [exact Ho|]|].
        -- intro Hi. apply H. apply in_or_app. left. exact Hi.
        -- intro He'. apply H. apply in_or_app. right. left. symmetry. exact (w_inj _ _ W n0 n Ho Hn He').
      * intros n0 H Hk. apply in_app_or in H. destruct H as [H|[<-|[]]]; [apply v_upd0; assumption|congruence].
      * rewrite v_newpos0. destruct (positional ps); [|reflexivity]. rewrite flat_map_snoc.
        unfold newpos_of at 3. rewrite K, app_nil_r. reflexivity.
      * rewrite v_numpos0. destruct (numeric ps); [|reflexivity]. rewrite flat_map_snoc.
        unfold numpos_of at 3. rewrite K, app_nil_r. reflexivity.
      * intros n0 k v1 H Hx. apply in_app_or in H. destruct H as [H|[<-|[]]]; [apply (v_procs_x0 n0 k v1); assumption|].
        rewrite xitems_nonexpand in Hx by congruence. destruct Hx.
      * intros k Hk. destruct (v_procs_keys0 k Hk) as [n0 [A B]]. exists n0. split; [apply in_or_app; left; exact A|exact B].
Qed.

(* the whole loop *)
Lemma pc_loop_inv : forall names done st, Inv done st -> incl names order ->
  exists st', foldM (pc_step lit empty_expr ps inp ebn) names st = Ok st' /\ Inv (done ++ names) st'.
Proof.
  induction names as [|n names IH]; intros done st I Hi.
  - exists st. split; [reflexivity|]. rewrite app_nil_r. exact I.
  - destruct (pc_step_inv done st n I (Hi n (or_introl eq_refl))) as [st1 [E1 I1]].
    destruct (IH (done ++ [n]) st1 I1 (fun x Hx => Hi x (or_intror Hx))) as [st2 [E2 I2]].
    exists st2. cbn [foldM]. rewrite E1. cbn [bind]. split; [exact E2|].
    rewrite <- app_assoc in I2. exact I2.
Qed.

Lemma pc_loop : forall names, incl names order ->
  exists st', foldM (pc_step lit empty_expr ps inp ebn) names init_state = Ok st' /\ Inv names st'.
Proof. intros names H. exact (pc_loop_inv names [] init_state Inv_init H). Qed.
End Post.
