(* executable entry point for the correspondence check of C21 *)
From Coq Require Import List NArith ZArith Bool.
Import ListNotations.
From SAV.base Require Import Tree.
From SAV.sql Require Import Trunc.

(* ---- strings travel run-length encoded:  L [L [I char; I count]; ...] ---- *)
Definition as_run (t : tree) : option (N * nat) := as_pair_of as_N as_nat t.
Definition as_str (t : tree) : option str :=
  match as_list_of as_run t with
  | Some runs => Some (flat_map (fun r => repeat (fst r) (snd r)) runs)
  | None => None
  end.
Fixpoint rle (s : str) : list (N * N) :=
  match s with
  | [] => []
  | c :: r => match rle r with
              | (c', n) :: rest => if N.eqb c c' then (c, N.succ n) :: rest else (c, 1%N) :: (c', n) :: rest
              | [] => [(c, 1%N)]
              end
  end.
Definition of_str (s : str) : tree := L (map (fun r => L [of_N (fst r); of_N (snd r)]) (rle s)).

Definition bind {A B} (o : option A) (f : A -> option B) : option B :=
  match o with Some a => f a | None => None end.

(* ---- op 0: the name of one constraint / index in DDL ---- *)
Definition as_token (t : tree) : option token :=
  match t with
  | L [I 0%Z; s] => bind (as_str s) (fun s => Some (TLit s))
  | L [I 1%Z] => Some TTable
  | L [I 2%Z; i] => bind (as_nat i) (fun i => Some (TCol i))
  | L [I 3%Z; b] => bind (as_bool b) (fun b => Some (TColN b))
  | L [I 4%Z] => Some TCName
  | L [I 5%Z] => Some TRefTable
  | _ => None
  end.
Definition as_conv (t : tree) : option (option (list token)) :=
  match t with
  | L [] => Some None
  | L [toks] => bind (as_list_of as_token toks) (fun l => Some (Some l))
  | _ => None
  end.
Definition as_gname (t : tree) : option gname :=
  match t with
  | L [I 0%Z] => Some GNone
  | L [I 1%Z] => Some GNoneName
  | L [I 2%Z; s] => bind (as_str s) (fun s => Some (GPlain s))
  | L [I 3%Z; s] => bind (as_str s) (fun s => Some (GConv s))
  | _ => None
  end.
Definition as_dialect (t : tree) : option dialect :=
  match t with
  | L [I m; i; c] => bind (as_optZ i) (fun i => bind (as_optZ c) (fun c =>
                       Some {| d_maxid := m; d_idx := i; d_con := c |}))
  | _ => None
  end.
Definition as_env (t : tree) : option cenv :=
  match t with
  | L [tb; cols; rf] =>
      bind (as_str tb) (fun tb => bind (as_list_of as_str cols) (fun cols => bind (as_str rf) (fun rf =>
        Some {| e_table := tb; e_cols := cols; e_ref := rf |})))
  | _ => None
  end.
Definition of_exn (e : exn) : tree :=
  L [I (match e with IdentifierError => 2 | InvalidRequestError => 3 | CompileError => 4 | ArgumentError => 5 end)%Z].

Definition run_ddl (d ix cv g env md5 : tree) : tree :=
  match as_dialect d, as_bool ix, as_conv cv, as_gname g, as_env env, as_list_of as_N md5 with
  | Some d, Some ix, Some cv, Some g, Some env, Some md5 =>
      match ddl_name (fun _ => md5) d ix cv g env with
      | Ok (Some s) => L [I 0%Z; of_str s]
      | Ok None => L [I 1%Z]
      | Raise e => of_exn e
      end
  | _, _, _, _, _, _ => bad_input
  end.

(* ---- op 1: a sequence of _truncated_identifier calls on one compiler ---- *)
Definition as_seg (t : tree) : option seg :=
  match t with
  | L [I 0%Z; s] => bind (as_str s) (fun s => Some (Lit s))
  | L [I 1%Z; i; b] => bind (as_N i) (fun i => bind (as_str b) (fun b => Some (Anon i b)))
  | _ => None
  end.
Definition as_tname (t : tree) : option tname := as_list_of as_seg t.
Definition as_treq (t : tree) : option (N * tname) := as_pair_of as_N as_tname t.
Definition no_binds : N -> bindrec :=
  fun _ => {| b_key := BPlain []; b_unique := false; b_expanding := false |}.

Fixpoint run_tis (ll : Z) (st : cstate) (rs : list (N * tname)) : list str :=
  match rs with
  | [] => []
  | (cls, n) :: rest => let (st', o) := truncated_identifier ll st cls n in o :: run_tis ll st' rest
  end.
Definition run_lowlevel (ll maxid ctrs rs : tree) : tree :=
  match as_optZ ll, as_Z maxid, as_list_of (as_pair_of as_N as_N) ctrs, as_list_of as_treq rs with
  | Some ll, Some maxid, Some ctrs, Some rs =>
      let st := {| st_am := st_am init_state; st_memo := []; st_tctr := ctrs;
                   st_binds := []; st_bind_names := [] |} in
      L (map of_str (run_tis (py_or ll maxid) st rs))
  | _, _, _, _ => bad_input
  end.

(* ---- op 2: SELECT <items> FROM <table or anonymous alias> WHERE <comparisons>, compiled ----
   items: [0; col] table-qualified label (LABEL_STYLE_TABLENAME_PLUS_COL), [1; col] col.label(None)
   where: [0; col] col == <value>, [1; name; unique] col0 == bindparam(name, unique=unique)
   anonymous ids: alias 0, item i -> 1 + i, where j -> 1 + #items + j; bind identities are 0.. *)
Inductive item := ITq (c : nat) | IAnon (c : nat).
Inductive wh := WCmp (c : nat) | WExpl (name : str) (unique : bool).
Definition as_item (t : tree) : option item :=
  match t with
  | L [I 0%Z; c] => bind (as_nat c) (fun c => Some (ITq c))
  | L [I 1%Z; c] => bind (as_nat c) (fun c => Some (IAnon c))
  | _ => None
  end.
Definition as_wh (t : tree) : option wh :=
  match t with
  | L [I 0%Z; c] => bind (as_nat c) (fun c => Some (WCmp c))
  | L [I 1%Z; s; u] => bind (as_str s) (fun s => bind (as_bool u) (fun u => Some (WExpl s u)))
  | _ => None
  end.

Section Stmt.
  Variables (tn : str) (aliased : bool) (cols : list str) (items : list item) (whs : list wh).
  Definition col (c : nat) : str := nth c cols [].
  Definition alias_name : tname := [Anon 0 tn].
  Definition alias_req : list req := if aliased then [RName cls_alias (LTrunc alias_name)] else [].
  Definition item_reqs (i : nat) (it : item) : list req :=
    match it with
    | ITq c =>
        RName cls_colident
          (LTrunc (if aliased then [Anon 0 tn; Lit (underscore :: col c)]
                   else [Lit (tn ++ underscore :: col c)])) :: alias_req
    | IAnon c => RName cls_colident (LTrunc [Anon (N.of_nat (1 + i)) (col c)]) :: alias_req
    end.
  Fixpoint items_reqs (i : nat) (l : list item) : list req :=
    match l with [] => [] | it :: r => item_reqs i it ++ items_reqs (S i) r end.
  Fixpoint whs_reqs (j : nat) (l : list wh) : list req :=
    match l with [] => [] | _ :: r => alias_req ++ RBind (N.of_nat j) :: whs_reqs (S j) r end.
  Definition stmt_reqs : list req := items_reqs 0 items ++ alias_req ++ whs_reqs 0 whs.
  Definition stmt_benv (oid : N) : bindrec :=
    let j := N.to_nat oid in
    match nth_error whs j with
    | Some (WCmp c) => {| b_key := BTrunc [Anon (N.of_nat (1 + length items + j)) (col c)];
                          b_unique := true; b_expanding := false |}
    | Some (WExpl s true) => {| b_key := BTrunc [Anon (N.of_nat (1 + length items + j)) s];
                                b_unique := true; b_expanding := false |}
    | Some (WExpl s false) => {| b_key := BPlain s; b_unique := false; b_expanding := false |}
    | None => no_binds oid
    end.
End Stmt.

Fixpoint pick (want : req -> bool) (rs : list req) (os : list str) : list str :=
  match rs, os with
  | r :: rs', o :: os' => if want r then o :: pick want rs' os' else pick want rs' os'
  | _, _ => []
  end.

(* [extra] is appended to a successful observation *)
Definition run_stmt_with (ll : Z) (extra : list tree) (tn aliased cols items whs : tree) : tree :=
  match as_str tn, as_bool aliased, as_list_of as_str cols, as_list_of as_item items, as_list_of as_wh whs with
  | Some tn, Some aliased, Some cols, Some items, Some whs =>
      let rs := stmt_reqs tn aliased cols items whs in
      match run (stmt_benv cols items whs) ll init_state rs with
      | Raise e => of_exn e
      | Ok (_, os) =>
          L ([I 0%Z;
              L (map of_str (pick (fun r => match r with RName 0%N _ => true | _ => false end) rs os));
              L (map of_str (firstn 1 (pick (fun r => match r with RName 1%N _ => true | _ => false end) rs os)));
              L (map of_str (pick (fun r => match r with RBind _ => true | _ => false end) rs os))] ++ extra)
      end
  | _, _, _, _, _ => bad_input
  end.
Definition run_stmt (ll maxid tn aliased cols items whs : tree) : tree :=
  match as_optZ ll, as_Z maxid with
  | Some ll, Some maxid => run_stmt_with (py_or ll maxid) [] tn aliased cols items whs
  | _, _ => bad_input
  end.

(* ---- op 3: the same conv() names rendered several times on ONE dialect whose limits are changed
   between the renderings; step = [[maxid; idx; con]; is_index; name index] ---- *)
Definition as_step (t : tree) : option (dialect * bool * nat) :=
  match t with
  | L [d; ix; k] => bind (as_dialect d) (fun d => bind (as_bool ix) (fun ix => bind (as_nat k) (fun k =>
                      Some (d, ix, k))))
  | _ => None
  end.
Fixpoint lookup_md5 (tbl : list (str * str)) (s : str) : str :=
  match tbl with
  | [] => []
  | (n, d) :: r => if str_eqb s n then d else lookup_md5 r s
  end.
Definition env_none : cenv := {| e_table := []; e_cols := []; e_ref := [] |}.
Definition run_multi (names md5s steps : tree) : tree :=
  match as_list_of as_str names, as_list_of (as_list_of as_N) md5s, as_list_of as_step steps with
  | Some names, Some md5s, Some steps =>
      let md5 := lookup_md5 (combine names md5s) in
      L (map (fun st => match st with (d, ix, k) =>
                match ddl_name md5 d ix None (GConv (nth k names [])) env_none with
                | Ok (Some s) => L [I 0%Z; of_str s]
                | Ok None => L [I 1%Z]
                | Raise e => of_exn e
                end end) steps)
  | _, _, _ => bad_input
  end.

(* ---- op 4: an engine whose dialect detects its identifier limit on the first connection, then a
   SELECT compiled through it ---- *)
Definition run_engine (cls user ll det tn aliased cols items whs : tree) : tree :=
  match as_Z cls, as_optZ user, as_optZ ll, as_optZ det with
  | Some cls, Some user, Some ll, Some det =>
      match initialize cls user ll det with
      | Raise e => of_exn e
      | Ok m => run_stmt_with (py_or ll m) [I m] tn aliased cols items whs
      end
  | _, _, _, _ => bad_input
  end.

Definition run_case (t : tree) : tree :=
  match t with
  | L [I 0%Z; d; ix; cv; g; env; md5] => run_ddl d ix cv g env md5
  | L [I 1%Z; ll; maxid; ctrs; rs] => run_lowlevel ll maxid ctrs rs
  | L [I 2%Z; ll; maxid; tn; aliased; cols; items; whs] => run_stmt ll maxid tn aliased cols items whs
  | L [I 3%Z; names; md5s; steps] => run_multi names md5s steps
  | L [I 4%Z; cls; user; ll; det; tn; aliased; cols; items; whs] => run_engine cls user ll det tn aliased cols items whs
  | _ => bad_input
  end.
