(* C17 - the main theorem: every construction in every history equals the directly built statement (or is the
   documented refusal), under the guard; structural changes change the key *)
From Coq Require Import List NArith ZArith Bool Lia.
Import ListNotations.
From SAV.sql Require Import Lambda LambdaBase LambdaProofs.

Section Main.
  Variable F : N -> fdesc.
  Variable U : N -> list use.
  Variable Kf : N -> list N.          (* the kinds of the closure cells of each lambda: stable over the history *)

  Definition good (code : N) (e : list val) : Prop :=
    map kind e = Kf code /\ safe_env (U code) e = true /\ safe_body (U code) = true.

  Definition chain_good (ch : list (N * list val)) : Prop := forall code e, In (code, e) ch -> good code e.

  Definition Inv (st : state) : Prop :=
    (forall code a, assoc_code code (analyses st) = Some a ->
       exists e0, map kind e0 = Kf code /\ a = classify_cells (U code) 0 e0) /\
    (forall key p, assoc_key key (cache st) = Some p ->
       exists pk code e0, key = pk ++ [(code, keyparts (classify_cells (U code) 0 e0) e0)] /\ good code e0 /\
                          build_uses F (classify_cells (U code) 0 e0) e0 (U code) = Ok p).

  Lemma Inv_empty : Inv empty_state.
  Proof. split; cbn; intros; discriminate. Qed.

  Lemma analyze_ok : forall us e a, analyze us e = Ok a -> a = classify_cells us 0 e.
  Proof.
    intros us e a H. unfold analyze in H.
    destruct (rejects _ true); [discriminate|].
    destruct (rejects _ false); [discriminate|]. inversion H. reflexivity.
  Qed.

  Lemma analyze_not_typeerr : forall us e, analyze us e <> TypeErr /\ analyze us e <> DomErr.
  Proof.
    intros us e. unfold analyze.
    destruct (rejects _ true); [split; discriminate|]. destruct (rejects _ false); split; discriminate.
  Qed.

  Definition link_post (e : list val) (its : list item) (r : res (ckey * list sitem)) : Prop :=
    r = Rejected \/ exists key p, r = Ok (key, p) /\ fill e p = its.

  Lemma invoke_link_ok : forall st pkey code e its, Inv st -> good code e -> direct_uses F e (U code) = Ok its ->
    Inv (fst (invoke_link F U st pkey code e)) /\ link_post e its (snd (invoke_link F U st pkey code e)).
  Proof.
    intros st pkey code e its [I1 I2] (GK & GS & GB) Hd. unfold invoke_link.
    (* the analysis in force, and the state after it is stored *)
    assert (HA : exists a st1,
      ((assoc_code code (analyses st) = Some a /\ st1 = st) \/
       (assoc_code code (analyses st) = None /\ analyze (U code) e = Ok a /\
        st1 = {| analyses := (code, a) :: analyses st; cache := cache st |})) \/
      (assoc_code code (analyses st) = None /\ analyze (U code) e = Rejected /\ a = [] /\ st1 = st)).
    { destruct (assoc_code code (analyses st)) as [a|] eqn:EA.
      - exists a, st. left. left. auto.
      - destruct (analyze (U code) e) as [a| | |] eqn:EN.
        + exists a, {| analyses := (code, a) :: analyses st; cache := cache st |}. left. right. auto.
        + exists [], st. right. auto.
        + exfalso. apply (proj1 (analyze_not_typeerr (U code) e)). exact EN.
        + exfalso. apply (proj2 (analyze_not_typeerr (U code) e)). exact EN. }
    destruct HA as (a & st1 & [[[EA ->]|(EA & EN & ->)]|(EA & EN & -> & ->)]).
    3: { rewrite EA, EN. cbn. split; [split; assumption|left; reflexivity]. }
    - (* stored analysis *)
      rewrite EA. destruct (I1 code a EA) as (e00 & K00 & ->).
      assert (Ha : classify_cells (U code) 0 e00 = classify_cells (U code) 0 e).
      { apply classify_cells_kind. congruence. }
      match goal with |- context [existsb ?f (classify_cells (U code) 0 e00)] => destruct (existsb f (classify_cells (U code) 0 e00)) end; [cbn; split; [split; assumption|left; reflexivity]|].
      set (key := pkey ++ [(code, keyparts (classify_cells (U code) 0 e00) e)]).
      destruct (build_fill_uses F (classify_cells (U code) 0 e00) e (U code) its GS Hd)
        as (p' & Hb' & Hf').
      destruct (assoc_key key (cache st)) as [p|] eqn:EC.
      + cbn. split; [split; assumption|]. right. exists key, p. split; [reflexivity|].
        destruct (I2 key p EC) as (pk & code' & e0 & Hkey & (GK0 & GS0 & GB0) & Hb0).
        unfold key in Hkey. apply app_inj_tail in Hkey. destruct Hkey as [_ Hk]. inversion Hk; subst code'.
        assert (Ha0 : classify_cells (U code) 0 e0 = classify_cells (U code) 0 e00).
        { apply classify_cells_kind. congruence. }
        rewrite Ha0 in *.
        assert (Hsame : build_uses F (classify_cells (U code) 0 e00) e (U code) =
                        build_uses F (classify_cells (U code) 0 e00) e0 (U code)).
        { apply (build_uses_same_key F (U code) e00 e e0 ltac:(congruence) ltac:(congruence) H1 (U code) (incl_refl _) GB GS GS0). }
        rewrite Hb', Hb0 in Hsame. injection Hsame as <-. exact Hf'.
      + rewrite Hb'. cbn. split.
        * split; [exact I1|]. cbn. intros k q Hq. destruct (ckey_eqb k key) eqn:EK.
          -- inversion Hq; subst q. apply ckey_eqb_eq in EK. subst k.
             exists pkey, code, e. rewrite <- Ha. split; [reflexivity|]. split; [repeat split; assumption|exact Hb'].
          -- exact (I2 k q Hq).
        * right. exists key, p'. split; [reflexivity|exact Hf'].
    - (* fresh analysis *)
      rewrite EA, EN. pose proof (analyze_ok _ _ _ EN) as ->.
      set (a := classify_cells (U code) 0 e).
      set (key := pkey ++ [(code, keyparts a e)]).
      assert (I1' : forall code0 a0, assoc_code code0 ((code, a) :: analyses st) = Some a0 ->
                    exists e0, map kind e0 = Kf code0 /\ a0 = classify_cells (U code0) 0 e0).
      { cbn. intros code0 a0 H0. destruct (N.eqb code0 code) eqn:EQ.
        - apply N.eqb_eq in EQ. subst code0. inversion H0. exists e. split; [exact GK|reflexivity].
        - exact (I1 code0 a0 H0). }
      match goal with |- context [existsb ?f a] => destruct (existsb f a) end; [cbn; split; [split; [exact I1'|exact I2]|left; reflexivity]|].
      destruct (build_fill_uses F a e (U code) its GS Hd) as (p' & Hb' & Hf').
      cbn [cache analyses].
      destruct (assoc_key key (cache st)) as [p|] eqn:EC.
      + cbn. split; [split; [exact I1'|exact I2]|]. right. exists key, p. split; [reflexivity|].
        destruct (I2 key p EC) as (pk & code' & e0 & Hkey & (GK0 & GS0 & GB0) & Hb0).
        unfold key in Hkey. apply app_inj_tail in Hkey. destruct Hkey as [_ Hk]. inversion Hk; subst code'.
        assert (Ha0 : classify_cells (U code) 0 e0 = a).
        { apply classify_cells_kind. congruence. }
        rewrite Ha0 in *.
        assert (Hsame : build_uses F a e (U code) = build_uses F a e0 (U code)).
        { apply (build_uses_same_key F (U code) e e e0 eq_refl ltac:(congruence) H1 (U code) (incl_refl _) GB GS GS0). }
        rewrite Hb', Hb0 in Hsame. injection Hsame as <-. exact Hf'.
      + rewrite Hb'. cbn. split.
        * split; [exact I1'|]. cbn. intros k q Hq. destruct (ckey_eqb k key) eqn:EK.
          -- inversion Hq; subst q. apply ckey_eqb_eq in EK. subst k.
             exists pkey, code, e. split; [reflexivity|]. split; [repeat split; assumption|exact Hb'].
          -- exact (I2 k q Hq).
        * right. exists key, p'. split; [reflexivity|exact Hf'].
  Qed.

  Lemma direct_chain_cons : forall code e r its, direct_chain F U ((code, e) :: r) = Ok its ->
    exists a b, direct_uses F e (U code) = Ok a /\ direct_chain F U r = Ok b /\ its = a ++ b.
  Proof.
    intros code e r its H. cbn in H. destruct (direct_uses F e (U code)) as [a| | |]; try discriminate.
    destruct (direct_chain F U r) as [b| | |]; try discriminate. inversion H. eauto.
  Qed.

  Lemma invoke_chain_ok : forall ch st pkey its, Inv st -> chain_good ch -> direct_chain F U ch = Ok its ->
    Inv (fst (invoke_chain F U st pkey ch)) /\
    (snd (invoke_chain F U st pkey ch) = Rejected \/ snd (invoke_chain F U st pkey ch) = Ok its).
  Proof.
    induction ch as [|[code e] r IH]; intros st pkey its HI HG Hd.
    - cbn in *. inversion Hd. auto.
    - destruct (direct_chain_cons _ _ _ _ Hd) as (a & b & Ha & Hb & ->).
      assert (G1 : good code e) by (apply HG; left; reflexivity).
      destruct (invoke_link_ok st pkey code e a HI G1 Ha) as [HI1 HP].
      cbn [invoke_chain]. destruct (invoke_link F U st pkey code e) as [st1 r1]. cbn [fst snd] in HI1, HP.
      destruct HP as [->|(key & p & -> & Hf)]; [cbn; auto|].
      assert (HG' : chain_good r) by (intros c0 e0 H0; apply HG; right; exact H0).
      destruct (IH st1 key b HI1 HG' Hb) as [HI2 HR].
      destruct (invoke_chain F U st1 key r) as [st2 r2]. cbn [fst snd] in HI2, HR.
      destruct HR as [->| ->]; cbn; [auto|]. rewrite Hf. auto.
  Qed.

  (* every construction of every history *)
  Theorem lambda_eq_direct_gen : forall h st, Inv st ->
    (forall ch, In ch h -> chain_good ch /\ exists its, direct_chain F U ch = Ok its) ->
    Forall2 (fun ch r => r = Rejected \/ r = direct_chain F U ch) h (run F U st h).
  Proof.
    induction h as [|ch r IH]; intros st HI HG; [constructor|].
    destruct (HG ch (or_introl eq_refl)) as [G1 [its Hd]].
    pose proof (invoke_chain_ok ch st [] its HI G1 Hd) as [HI1 HR].
    cbn [run]. unfold invoke. destruct (invoke_chain F U st [] ch) as [st1 r1]. cbn [fst snd] in HI1, HR.
    constructor.
    - rewrite Hd. exact HR.
    - apply IH; [exact HI1|]. intros c0 H0. apply HG. right. exact H0.
  Qed.

  Theorem lambda_eq_direct : forall h,
    (forall ch, In ch h -> chain_good ch /\ exists its, direct_chain F U ch = Ok its) ->
    Forall2 (fun ch r => r = Rejected \/ r = direct_chain F U ch) h (run F U empty_state h).
  Proof. intros h H. apply lambda_eq_direct_gen; [exact Inv_empty|exact H]. Qed.
End Main.
