(* C04 - delivery of bound parameters to placeholders: executable model (definitions only).

   Transcribes, from lib/sqlalchemy/sql/compiler.py and lib/sqlalchemy/engine/default.py:
     SQLCompiler.bindparam_string            -> [esc], [ebn_of], [carrier]
     SQLCompiler._process_positional         -> [process_positional]
     SQLCompiler._process_numeric            -> [numeric_order], [num_step], [process_numeric]
     SQLCompiler._literal_execute_expanding_parameter(_literal_binds) -> [expanded_names], [repl_expand], [lit_of]
     SQLCompiler._process_parameters_for_postcompile -> [pc_step], [postcompile]
     DefaultExecutionContext._init_compiled (parameter assembly) -> [assemble]
   The compiler's string is kept as a token list: literal text, a bind placeholder, a
   "__[POSTCOMPILE_name]" marker.  Python dicts are insertion-ordered association lists. *)
From Coq Require Import List NArith ZArith Bool.
Import ListNotations.

Definition str := list N.
Definition name := str.

Fixpoint str_eqb (a b : str) : bool :=
  match a, b with
  | [], [] => true
  | x :: a', y :: b' => N.eqb x y && str_eqb a' b'
  | _, _ => false
  end.

Definition memb (n : name) (l : list name) : bool := existsb (str_eqb n) l.

(* ---- Python dict: insertion ordered, unique keys ---- *)
Definition dict (V : Type) := list (name * V).

Fixpoint dget {V} (k : name) (d : dict V) : option V :=
  match d with
  | [] => None
  | (k', v) :: r => if str_eqb k k' then Some v else dget k r
  end.
Definition dmem {V} (k : name) (d : dict V) : bool := match dget k d with Some _ => true | None => false end.
(* d[k] = v : replaces in place, or appends *)
Fixpoint dset {V} (k : name) (v : V) (d : dict V) : dict V :=
  match d with
  | [] => [(k, v)]
  | (k', v') :: r => if str_eqb k k' then (k', v) :: r else (k', v') :: dset k v r
  end.
Fixpoint dpop {V} (k : name) (d : dict V) : dict V :=
  match d with
  | [] => []
  | (k', v') :: r => if str_eqb k k' then r else (k', v') :: dpop k r
  end.
(* d.update(items) *)
Definition dupdate {V} (items : list (name * V)) (d : dict V) : dict V :=
  fold_left (fun acc kv => dset (fst kv) (snd kv) acc) items d.
(* {f(k): v for k, v in d.items()} *)
Definition drekey {V} (f : name -> name) (d : dict V) : dict V :=
  fold_left (fun acc kv => dset (f (fst kv)) (snd kv) acc) d [].
(* d.get(k, k) *)
Definition dget_or_key (d : dict name) (k : name) : name := match dget k d with Some e => e | None => k end.

(* ---- data ---- *)
Inductive style := Qmark | Format | Numeric | NumericDollar | Named | Pyformat.
(* how the bind registered under a name is handled: ordinary; in post_compile_params ("expanding");
   in literal_execute_params *)
Inductive bkind := Plain | Expand | LitExec.
Inductive pval := PS (v : Z) | PL (l : list Z).
Inductive tok := Txt (s : str) | Bind (n : name) | PC (n : name).
Inductive exn := AssertionError | KeyError | TypeError.
Inductive result (A : Type) := Ok (a : A) | Raise (e : exn).
Arguments Ok {A} a.
Arguments Raise {A} e.

Definition bind {A B} (r : result A) (f : A -> result B) : result B :=
  match r with Ok a => f a | Raise e => Raise e end.

Record input := {
  i_toks : list tok;               (* compiled text before positional processing, ORIGINAL bind names *)
  i_order : list name;             (* list(compiler.bind_names.values()) : order of first visit *)
  i_kind : dict bkind;             (* classification of compiler.binds[name] *)
  i_values : option (list name);   (* compiler._values_bindparam if _insertmanyvalues is set and it is not None *)
  i_params : dict pval;            (* construct_params(escape_names=False) *)
  i_pc : bool;                     (* bool(compiler.literal_execute_params or compiler.post_compile_params) *)
  i_procs : dict N                 (* compiler._bind_processors: bind name -> (identifier of) its bind processor *)
}.

Definition kind_of (inp : input) (n : name) : bkind :=
  match dget n (i_kind inp) with Some k => k | None => Plain end.
Definition is_plain (k : bkind) : bool := match k with Plain => true | _ => false end.

Definition positional (ps : style) : bool := match ps with Named | Pyformat => false | _ => true end.
Definition numeric (ps : style) : bool := match ps with Numeric | NumericDollar => true | _ => false end.
Definition doubles_percent (ps : style) : bool := match ps with Format | Pyformat => true | _ => false end.

(* ---- text of the compiled string between binds: "%" is doubled for format / pyformat ---- *)
Definition PCT : N := 37.
Fixpoint double_pct (s : str) : str :=
  match s with [] => [] | c :: r => if N.eqb c PCT then PCT :: PCT :: double_pct r else c :: double_pct r end.
Definition pct (ps : style) (s : str) : str := if doubles_percent ps then double_pct s else s.

(* ---- bindparam_string: escaping of bind names by the table bindname_escape_characters ---- *)
Section Escape.
Variable tab : list (N * N).

Fixpoint tab_get (c : N) (t : list (N * N)) : option N :=
  match t with [] => None | (k, r) :: t' => if N.eqb c k then Some r else tab_get c t' end.
Definition esc_char (c : N) : N := match tab_get c tab with Some r => r | None => c end.
Definition esc (n : name) : name := map esc_char n.
(* _bind_translate_re.search(name) *)
Definition needs_esc (n : name) : bool :=
  existsb (fun c => match tab_get c tab with Some _ => true | None => false end) n.
(* compiler.escaped_bind_names after all binds were visited *)
Definition ebn_of (order : list name) : dict name :=
  fold_left (fun d n => if needs_esc n then dset n (esc n) d else d) order [].

(* ---- the token list the later stages work on ---- *)
Inductive otok :=
  | OTxt (s : str)      (* literal text *)
  | OPh (n : name)      (* "%(n)s" carrier / ":n" / "%(n)s" final, by style *)
  | OPos                (* "?" / "%s" *)
  | ONum (k : N)        (* ":k" / "$k" *)
  | OPC (n : name).     (* "__[POSTCOMPILE_n]" *)

Definition carrier (ps : style) (ts : list tok) : list otok :=
  map (fun t => match t with
                | Txt s => OTxt (pct ps s)
                | Bind n => OPh (esc n)
                | PC n => OPC (esc n)
                end) ts.

(* ---- _process_positional ---- *)
Definition positions (ts : list otok) : list name :=
  flat_map (fun t => match t with OPh n => [n] | OPC n => [n] | _ => [] end) ts.
(* {v: k for k, v in d.items()} *)
Definition reverse_dict (d : dict name) : dict name :=
  fold_left (fun r kv => dset (snd kv) (fst kv) r) d [].

Definition process_positional (ebn : dict name) (ts : list otok) : result (list otok * list name) :=
  let ts' := map (fun t => match t with OPh _ => OPos | _ => t end) ts in
  match ebn with
  | [] => Ok (ts', positions ts)
  | _ => let rev := reverse_dict ebn in
         if Nat.eqb (length ebn) (length rev)
         then Ok (ts', map (dget_or_key rev) (positions ts))
         else Raise AssertionError
  end.

(* ---- _process_numeric ---- *)
Definition numeric_order (inp : input) : list name :=
  match i_values inp with
  | Some vb => filter (fun n => negb (memb n vb)) (i_order inp) ++ i_order inp
  | None => i_order inp
  end.

Definition num_step (inp : input) (st : dict (option N) * N) (n : name) : dict (option N) * N :=
  let '(pp, num) := st in
  if dmem n pp then st
  else if is_plain (kind_of inp n) then (dset n (Some num) pp, (num + 1)%N)
  else (dset n None pp, num).

Fixpoint mapM {A B} (f : A -> result B) (l : list A) : result (list B) :=
  match l with
  | [] => Ok []
  | a :: r => bind (f a) (fun b => bind (mapM f r) (fun r' => Ok (b :: r')))
  end.

(* result: tokens, positiontup, next_numeric_pos *)
Definition process_numeric (inp : input) (ebn : dict name) (ts : list otok)
  : result (list otok * list name * N) :=
  let '(pp, next) := fold_left (num_step inp) (numeric_order inp) ([], 1%N) in
  let positiontup := map fst pp in
  bind (match ebn with
        | [] => Ok pp
        | _ => let pp' := drekey (dget_or_key ebn) pp in
               if Nat.eqb (length pp') (length pp) then Ok pp' else Raise AssertionError
        end) (fun pp' =>
  bind (mapM (fun t => match t with
                       | OPh e => match dget e pp' with
                                  | Some (Some k) => Ok (ONum k)
                                  | Some None => Ok (OTxt [])      (* re.sub takes a None result as "" *)
                                  | None => Raise KeyError
                                  end
                       | _ => Ok t
                       end) ts) (fun ts' =>
  Ok (ts', positiontup, next))).

(* ---- _literal_execute_expanding_parameter ---- *)
Variable lit : Z -> str.          (* render_literal_value of the bind's type *)
Variable empty_expr : str.        (* visit_empty_set_op_expr *)
Variable proc : N -> Z -> Z.      (* the bind processors (type-level conversion of a value for the DBAPI) *)

Fixpoint uint_str (u : Decimal.uint) : str :=
  match u with
  | Decimal.Nil => []
  | Decimal.D0 r => 48%N :: uint_str r | Decimal.D1 r => 49%N :: uint_str r | Decimal.D2 r => 50%N :: uint_str r
  | Decimal.D3 r => 51%N :: uint_str r | Decimal.D4 r => 52%N :: uint_str r | Decimal.D5 r => 53%N :: uint_str r
  | Decimal.D6 r => 54%N :: uint_str r | Decimal.D7 r => 55%N :: uint_str r | Decimal.D8 r => 56%N :: uint_str r
  | Decimal.D9 r => 57%N :: uint_str r
  end.
Definition dec (n : N) : str := uint_str (N.to_uint n).
Definition USCORE : N := 95.
Definition COMMA_SP : str := [44%N; 32%N].

(* [("%s_%s" % (name, i), value) for i, value in enumerate(values, 1)] *)
Fixpoint expand_from (e : name) (i : N) (l : list Z) : list (name * Z) :=
  match l with
  | [] => []
  | v :: r => (e ++ USCORE :: dec i, v) :: expand_from e (i + 1)%N r
  end.
Definition expanded_names (e : name) (l : list Z) : list (name * Z) := expand_from e 1%N l.

(* ", ".join(...) on token level *)
Fixpoint join_toks (l : list otok) : list otok :=
  match l with
  | [] => []
  | [x] => [x]
  | x :: r => x :: OTxt COMMA_SP :: join_toks r
  end.
Fixpoint join_str (l : list str) : str :=
  match l with
  | [] => []
  | [x] => x
  | x :: r => x ++ COMMA_SP ++ join_str r
  end.

(* bind_template % {"name": key} : self.bindtemplate, or the pyformat carrier for numeric *)
Definition bind_tok (ps : style) (k : name) : otok :=
  match ps with Qmark | Format => OPos | _ => OPh k end.

Definition repl_expand (ps : style) (e : name) (l : list Z) : list otok :=
  match l with
  | [] => [OTxt (pct ps empty_expr)]
  | _ => join_toks (map (fun kv => bind_tok ps (fst kv)) (expanded_names e l))
  end.

(* render_literal_bindparam(parameter, render_literal_value=value) *)
Definition lit_of (v : pval) : str :=
  match v with
  | PS z => lit z
  | PL [] => empty_expr
  | PL l => join_str (map lit l)
  end.

(* ---- _process_parameters_for_postcompile ---- *)
Record pcstate := {
  s_params : dict pval;                     (* parameters *)
  s_repl : dict (list otok);                (* replacement_expressions *)
  s_upd : dict (list (name * Z));           (* to_update_sets *)
  s_newpos : list name;                     (* new_positiontup *)
  s_numpos : list name;                     (* numeric_positiontup *)
  s_procs : dict N                          (* new_processors *)
}.

(* parameters.pop(name if name in parameters else escaped_name) *)
Definition pop_key (n e : name) (d : dict pval) : name := if dmem n d then n else e.

Definition pc_step (ps : style) (inp : input) (ebn : dict name) (st : pcstate) (n : name) : result pcstate :=
  let e := dget_or_key ebn n in
  match kind_of inp n with
  | LitExec =>
      if dmem e (s_repl st) then Ok st
      else match dget (pop_key n e (s_params st)) (s_params st) with
           | None => Raise KeyError
           | Some v => Ok {| s_params := dpop (pop_key n e (s_params st)) (s_params st);
                             s_repl := dset e [OTxt (pct ps (lit_of v))] (s_repl st);
                             s_upd := s_upd st; s_newpos := s_newpos st; s_numpos := s_numpos st;
                             s_procs := s_procs st |}
           end
  | Expand =>
      bind (if dmem e (s_repl st)
            then match dget e (s_upd st) with
                 | Some u => Ok (u, st)
                 | None => Raise KeyError
                 end
            else match dget n (s_params st) with    (* parameters.pop(name) *)
                 | None => Raise KeyError
                 | Some (PS _) => Raise TypeError   (* enumerate(<int>) *)
                 | Some (PL l) =>
                     let u := expanded_names e l in
                     Ok (u, {| s_params := dpop n (s_params st);
                               s_repl := dset e (repl_expand ps e l) (s_repl st);
                               s_upd := dset e u (s_upd st);
                               s_newpos := s_newpos st; s_numpos := s_numpos st; s_procs := s_procs st |})
                 end)
           (fun ust =>
              let '(u, st') := ust in
              let names := map fst u in
              Ok {| s_params := dupdate (map (fun kv => (fst kv, PS (snd kv))) u) (s_params st');
                    s_repl := s_repl st'; s_upd := s_upd st';
                    s_newpos := if positional ps && negb (numeric ps) then s_newpos st' ++ names else s_newpos st';
                    s_numpos := if numeric ps then s_numpos st' ++ names else s_numpos st';
                    (* new_processors.update((key, single_processors[name]) ... if name in single_processors) *)
                    s_procs := match dget n (i_procs inp) with
                               | Some p => dupdate (map (fun kv => (fst kv, p)) u) (s_procs st')
                               | None => s_procs st'
                               end |})
  | Plain =>
      Ok {| s_params := s_params st; s_repl := s_repl st; s_upd := s_upd st;
            s_newpos := if positional ps then s_newpos st ++ [n] else s_newpos st;
            s_numpos := s_numpos st; s_procs := s_procs st |}
  end.

Fixpoint foldM {A B} (f : A -> B -> result A) (l : list B) (a : A) : result A :=
  match l with
  | [] => Ok a
  | b :: r => bind (f a b) (foldM f r)
  end.

Fixpoint concatM {A B} (f : A -> result (list B)) (l : list A) : result (list B) :=
  match l with
  | [] => Ok []
  | a :: r => bind (f a) (fun x => bind (concatM f r) (fun y => Ok (x ++ y)))
  end.

Fixpoint nseq (start : N) (len : nat) : list N :=
  match len with O => [] | S k => start :: nseq (start + 1)%N k end.

(* compiled state handed from the compiler to the execution context *)
Record compiled := {
  c_toks : list otok;
  c_positiontup : list name;
  c_next : N
}.

Definition postcompile (ps : style) (inp : input) (ebn : dict name) (c : compiled) (params : dict pval)
  : result (list otok * list name * dict pval * dict N) :=
  let names := if positional ps then c_positiontup c else i_order inp in
  bind (foldM (pc_step ps inp ebn) names
          {| s_params := params; s_repl := []; s_upd := []; s_newpos := []; s_numpos := []; s_procs := [] |}) (fun st =>
  bind (concatM (fun t => match t with
                          | OPC k => match dget k (s_repl st) with Some r => Ok r | None => Raise KeyError end
                          | _ => Ok [t]
                          end) (c_toks c)) (fun ts =>
  if numeric ps then
    (* {key: num for num, key in enumerate(numeric_positiontup, next_numeric_pos)} *)
    let pp := dupdate (combine (s_numpos st) (nseq (c_next c) (length (s_numpos st)))) [] in
    bind (mapM (fun t => match t with
                         | OPh k => match dget k pp with Some num => Ok (ONum num) | None => Raise KeyError end
                         | _ => Ok t
                         end) ts) (fun ts' =>
    Ok (ts', s_newpos st ++ s_numpos st, s_params st, s_procs st))
  else Ok (ts, s_newpos st, s_params st, s_procs st))).

(* ---- SQLCompiler.__init__ tail: positional processing by style ---- *)
Definition compile (ps : style) (inp : input) : result (compiled * dict name) :=
  let ebn := ebn_of (i_order inp) in
  let ts := carrier ps (i_toks inp) in
  if numeric ps then
    bind (process_numeric inp ebn ts) (fun r =>
      let '(ts', ptup, next) := r in Ok ({| c_toks := ts'; c_positiontup := ptup; c_next := next |}, ebn))
  else if positional ps then
    bind (process_positional ebn ts) (fun r =>
      let '(ts', ptup) := r in Ok ({| c_toks := ts'; c_positiontup := ptup; c_next := 0%N |}, ebn))
  else Ok ({| c_toks := ts; c_positiontup := []; c_next := 0%N |}, ebn).

(* ---- DefaultExecutionContext._init_compiled ---- *)
Inductive fparams := FPos (l : list pval) | FDict (d : dict pval).

(* flattened_processors[key](value) if key in flattened_processors else value *)
Definition papply (fp : dict N) (k : name) (v : pval) : pval :=
  match dget k fp, v with
  | Some p, PS z => PS (proc p z)
  | _, _ => v
  end.

Definition run (ps : style) (inp : input) : result (list otok * fparams) :=
  bind (compile ps inp) (fun ce =>
  let '(c, ebn) := ce in
  bind (if i_pc inp
        then postcompile ps inp ebn c (i_params inp)
        else Ok (c_toks c, c_positiontup c, i_params inp, [])) (fun r =>
  let '(ts, ptup, params, newprocs) := r in
  (* flattened_processors = dict(processors); flattened_processors.update(expanded_state.processors) *)
  let fp := dupdate newprocs (i_procs inp) in
  if positional ps then
    bind (mapM (fun k => match dget k params with Some v => Ok (papply fp k v) | None => Raise KeyError end) ptup)
         (fun l => Ok (ts, FPos l))
  else
    let processed := map (fun kv => (fst kv, papply fp (fst kv) (snd kv))) params in
    Ok (ts, FDict (match ebn with [] => processed | _ => drekey (dget_or_key ebn) processed end)))).

(* ---- what the driver does with (statement, parameters): every placeholder replaced by its value ---- *)
Inductive rchar := Ch (c : N) | Val (v : Z).

Fixpoint undouble_pct (s : str) : str :=
  match s with
  | [] => []
  | c :: r => if N.eqb c PCT
              then match r with
                   | c2 :: r' => if N.eqb c2 PCT then PCT :: undouble_pct r' else c :: undouble_pct r
                   | [] => [c]
                   end
              else c :: undouble_pct r
  end.
Definition unpct (ps : style) (s : str) : str := if doubles_percent ps then undouble_pct s else s.

(* qmark / format: the i-th placeholder takes the i-th parameter, and all parameters are used *)
Fixpoint inline_seq (ps : style) (ts : list otok) (vals : list pval) : option (list rchar) :=
  match ts with
  | [] => match vals with [] => Some [] | _ => None end
  | OTxt s :: r => option_map (app (map Ch (unpct ps s))) (inline_seq ps r vals)
  | OPos :: r => match vals with
                 | PS v :: vs => option_map (cons (Val v)) (inline_seq ps r vs)
                 | _ => None
                 end
  | _ => None
  end.
(* numeric: placeholder k takes the k-th parameter (1-based) *)
Fixpoint inline_num (ps : style) (ts : list otok) (vals : list pval) : option (list rchar) :=
  match ts with
  | [] => Some []
  | OTxt s :: r => option_map (app (map Ch (unpct ps s))) (inline_num ps r vals)
  | ONum k :: r => if N.eqb k 0 then None
                   else match nth_error vals (N.to_nat k - 1) with
                        | Some (PS v) => option_map (cons (Val v)) (inline_num ps r vals)
                        | _ => None
                        end
  | _ => None
  end.
(* named / pyformat: placeholder n takes parameters[n] *)
Fixpoint inline_dict (ps : style) (ts : list otok) (d : dict pval) : option (list rchar) :=
  match ts with
  | [] => Some []
  | OTxt s :: r => option_map (app (map Ch (unpct ps s))) (inline_dict ps r d)
  | OPh k :: r => match dget k d with
                  | Some (PS v) => option_map (cons (Val v)) (inline_dict ps r d)
                  | _ => None
                  end
  | _ => None
  end.
Definition inline (ps : style) (ts : list otok) (fp : fparams) : option (list rchar) :=
  match fp with
  | FPos l => if numeric ps then inline_num ps ts l
              else if positional ps then inline_seq ps ts l else None
  | FDict d => if positional ps then None else inline_dict ps ts d
  end.

(* ---- the meaning of the statement: every bind replaced by the value given for ITS name, converted by
   ITS processor (once) ---- *)
Definition pz (inp : input) (n : name) (z : Z) : Z :=
  match dget n (i_procs inp) with Some p => proc p z | None => z end.
Fixpoint join_vals (l : list Z) : list rchar :=
  match l with
  | [] => []
  | [v] => [Val v]
  | v :: r => Val v :: map Ch COMMA_SP ++ join_vals r
  end.

Definition spec_tok (inp : input) (t : tok) : option (list rchar) :=
  match t with
  | Txt s => Some (map Ch s)
  | Bind n => match dget n (i_params inp) with Some (PS v) => Some [Val (pz inp n v)] | _ => None end
  | PC n => match kind_of inp n, dget n (i_params inp) with
            | Expand, Some (PL []) => Some (map Ch empty_expr)
            | Expand, Some (PL l) => Some (join_vals (map (pz inp n) l))
            | LitExec, Some v => Some (map Ch (lit_of v))
            | _, _ => None
            end
  end.
Fixpoint concat_opt {A} (l : list (option (list A))) : option (list A) :=
  match l with
  | [] => Some []
  | Some x :: r => option_map (app x) (concat_opt r)
  | None :: _ => None
  end.
Definition inline_spec (inp : input) : option (list rchar) := concat_opt (map (spec_tok inp) (i_toks inp)).

End Escape.
