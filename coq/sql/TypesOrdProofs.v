(* C09 - CPython's _ord2ymd inverts _ymd2ord on every ordinal of the date range: shift to the first
   400-year cycle (proved), then an exhaustive check of that cycle (146097 days, by reflection) *)
From Coq Require Import List NArith ZArith Bool Lia Zify.
Import ListNotations.
From SAV.sql Require Import Types.
Open Scope Z_scope.

Ltac Zify.zify_post_hook ::= Z.div_mod_to_equations.

Definition cyc : Z := 146097.
Definition add_years (d : date) (k : Z) : date := {| dy := (dy d + Z.to_N k)%N; dm := dm d; dd := dd d |}.

Lemma ymd_in_cycle_shift : forall q r, 0 <= q -> 0 <= r < cyc ->
  ymd_in_cycle q r = add_years (ymd_in_cycle 0 r) (400 * q).
Proof.
  intros q r Hq Hr. unfold cyc in Hr. unfold ymd_in_cycle. cbv zeta.
  repeat match goal with |- context [if ?b then _ else _] => destruct b end;
    unfold add_years; cbn [dy dm dd]; f_equal; lia.
Qed.

(* ---- a 400-year shift changes nothing but the ordinal, by one cycle ---- *)
Lemma is_leap_shift : forall a b, is_leap (a + 400 * b)%N = is_leap a.
Proof.
  intros a b. unfold is_leap.
  replace ((a + 400 * b) mod 4)%N with (a mod 4)%N
    by (replace (a + 400 * b)%N with (a + (100 * b) * 4)%N by lia; now rewrite N.mod_add).
  replace ((a + 400 * b) mod 100)%N with (a mod 100)%N
    by (replace (a + 400 * b)%N with (a + (4 * b) * 100)%N by lia; now rewrite N.mod_add).
  replace ((a + 400 * b) mod 400)%N with (a mod 400)%N
    by (replace (a + 400 * b)%N with (a + b * 400)%N by lia; now rewrite N.mod_add).
  reflexivity.
Qed.

Lemma days_before_year_shift : forall y q, days_before_year (y + 400 * q) = days_before_year y + cyc * q.
Proof. intros y q. unfold days_before_year, cyc. lia. Qed.

Lemma days_before_month_shift : forall y q m, 0 <= y -> 0 <= q ->
  days_before_month (y + 400 * q) m = days_before_month y m.
Proof.
  intros y q m Hy Hq. unfold days_before_month.
  replace (Z.to_N (y + 400 * q)) with (Z.to_N y + 400 * Z.to_N q)%N by lia. now rewrite is_leap_shift.
Qed.

Lemma days_before_month_nonneg : forall y m, 0 <= days_before_month y m.
Proof.
  intros y m. unfold days_before_month.
  destruct ((2 <? m) && is_leap (Z.to_N y));
    repeat match goal with |- context [match ?x with _ => _ end] => destruct x end; lia.
Qed.

Lemma ymd2ord_shift : forall d q, 0 <= q -> ymd2ord (add_years d (400 * q)) = ymd2ord d + cyc * q.
Proof.
  intros d q Hq. unfold ymd2ord, add_years. cbn [dy dm dd].
  replace (Z.of_N (dy d + Z.to_N (400 * q))) with (Z.of_N (dy d) + 400 * q) by lia.
  rewrite days_before_year_shift, days_before_month_shift by lia. lia.
Qed.

Lemma valid_date_shift : forall d q, 0 <= q -> valid_date d = true -> (dy d + Z.to_N (400 * q) <= 9999)%N ->
  valid_date (add_years d (400 * q)) = true.
Proof.
  intros d q Hq H Hle. unfold valid_date, add_years in *. cbn [dy dm dd].
  repeat (apply andb_true_iff in H as [H ?]).
  assert (Hdim : days_in_month (dy d + Z.to_N (400 * q)) (dm d) = days_in_month (dy d) (dm d)).
  { unfold days_in_month. replace (Z.to_N (400 * q)) with (400 * Z.to_N q)%N by lia. now rewrite is_leap_shift. }
  rewrite Hdim. repeat (apply andb_true_iff; split); try assumption; apply N.leb_le.
  - apply N.leb_le in H. lia.
  - exact Hle.
Qed.

(* ---- the first cycle, exhaustively ---- *)
Definition base_ok (r : Z) : bool :=
  (cyc <=? r) ||
  (let d := ymd_in_cycle 0 r in valid_date d && (ymd2ord d =? r + 1) && (dy d <=? 400)%N).

Fixpoint check_range (f : Z -> bool) (lo : Z) (k : nat) : bool :=
  match k with
  | O => f lo
  | S k' => check_range f lo k' && check_range f (lo + 2 ^ Z.of_nat k') k'
  end.

Lemma check_range_spec : forall f k lo, check_range f lo k = true ->
  forall z, lo <= z < lo + 2 ^ Z.of_nat k -> f z = true.
Proof.
  intros f. induction k as [|k IH]; intros lo H z Hz; cbn [check_range] in H.
  - cbn in Hz. replace z with lo by lia. exact H.
  - apply andb_true_iff in H as [H1 H2]. rewrite Nat2Z.inj_succ, Z.pow_succ_r in Hz by lia.
    destruct (Z_lt_dec z (lo + 2 ^ Z.of_nat k)).
    + apply (IH lo H1). lia.
    + apply (IH _ H2). lia.
Qed.

Lemma first_cycle_checked : check_range base_ok 0 18 = true.
Proof. vm_compute. reflexivity. Qed.

Lemma first_cycle : forall r, 0 <= r < cyc ->
  let d := ymd_in_cycle 0 r in valid_date d = true /\ ymd2ord d = r + 1 /\ (dy d <= 400)%N.
Proof.
  intros r Hr d. assert (H := check_range_spec base_ok 18 0 first_cycle_checked r).
  assert (Hb : base_ok r = true) by (apply H; unfold cyc in Hr; cbn; lia).
  unfold base_ok in Hb. replace (cyc <=? r) with false in Hb by (symmetry; apply Z.leb_gt; lia).
  cbn [orb] in Hb. fold d in Hb. apply andb_true_iff in Hb as [Hb H3]. apply andb_true_iff in Hb as [H1 H2].
  apply Z.eqb_eq in H2. apply N.leb_le in H3. auto.
Qed.

Theorem ordinal_law_holds : ordinal_law.
Proof.
  intros n Hn. unfold max_ord in Hn. unfold ord2ymd.
  set (q := (n - 1) / 146097). set (r := (n - 1) mod 146097).
  assert (Hq : 0 <= q <= 24) by (subst q; lia).
  assert (Hr : 0 <= r < cyc) by (subst r; unfold cyc; lia).
  assert (Hnqr : n = r + 1 + cyc * q) by (subst q r; unfold cyc; lia).
  rewrite ymd_in_cycle_shift by lia.
  destruct (first_cycle r Hr) as (Hv & Ho & Hy). set (d := ymd_in_cycle 0 r) in *.
  split.
  - apply valid_date_shift; [lia|assumption|].
    destruct (Z.eq_dec q 24) as [E|E]; [|lia].
    (* the last, incomplete cycle: year 400 of the cycle would lie beyond max_ord *)
    destruct (N.eq_dec (dy d) 400) as [E4|E4]; [|lia]. exfalso.
    assert (Hlow : 145732 <= ymd2ord d).
    { unfold ymd2ord. rewrite E4. pose proof (days_before_month_nonneg (Z.of_N 400) (Z.of_N (dm d))).
      unfold valid_date in Hv. repeat (apply andb_true_iff in Hv as [Hv ?]).
      match goal with H : (1 <=? dd d)%N = true |- _ => apply N.leb_le in H end.
      change (days_before_year (Z.of_N 400)) with 145731. lia. }
    unfold cyc in *. lia.
  - rewrite ymd2ord_shift by lia. lia.
Qed.
