(* C07: negated forms, re-binding with semantics, unsupported empty sets, the refuted literal cases. *)
From Coq Require Import List ZArith NArith Bool Lia.
Import ListNotations.
From SAV.sql Require Import Val3 Val3Proofs InList InListSpecProofs InListRenderProofs InListMainProofs InListCacheProofs.

(* ---- construction and negation keep expressions consistent ---- *)
Lemma consistent_in_impl l k op : consistent (in_impl l k op) = true.
Proof. destruct op; reflexivity. Qed.
Lemma consistent_text_in l op : consistent (text_in l op) = true.
Proof. destruct op; reflexivity. Qed.
Lemma consistent_negate e : consistent e = true -> consistent (negate e) = true.
Proof.
  unfold consistent, negate, negate_in_binary. cbn [ie_bind ie_op ie_negate ie_text].
  intros H. apply andb_true_iff in H as [H1 H2]. apply inop_eqb_eq in H2. rewrite H2.
  destruct (bp_expand_op (ie_bind e)) as [o|] eqn:E.
  - apply andb_true_iff in H1 as [H1 H3]. apply inop_eqb_eq in H1. subst o.
    unfold opt_inop_eqb. destruct (ie_op e); cbn [inop_eqb negate_op bp_expand_op andb]; now rewrite H3.
  - cbn [opt_inop_eqb]. rewrite E. now destruct (ie_op e).
Qed.
Lemma negate_op_of e : consistent e = true -> ie_op (negate e) = negate_op (ie_op e).
Proof.
  unfold consistent. intros H. apply andb_true_iff in H as [_ H]. apply inop_eqb_eq in H. exact H.
Qed.
Lemma negate_wf e vals : wf (negate e) vals = wf e vals.
Proof.
  unfold wf, negate, negate_in_binary. cbn [ie_left ie_bind].
  destruct (opt_inop_eqb _ _); reflexivity.
Qed.
Lemma negate_left e : ie_left (negate e) = ie_left e.
Proof. reflexivity. Qed.

Lemma expected_negate op X R : expected (negate_op op) X R = not3 (expected op X R).
Proof. destruct op; cbn [negate_op expected]; [reflexivity|now rewrite not3_invol]. Qed.

(* ---- re-binding one compiled statement: every execution has the prescribed truth value ---- *)
Theorem rebound_correct d p e execs row :
  consistent e = true ->
  (forall ex, In ex execs -> wf e (fst ex) = true /\ empty_ok d e (fst ex) = true) ->
  exists xs, run_execs (compile d p e) (ctx_others p) execs = Ok xs /\
    Forall2 (fun ex x => exec_sem row x =
               EOk (ctx_value p row (expected e.(ie_op) (lhs_vals row e.(ie_left)) (map value_row (fst ex)))))
            execs xs.
Proof.
  intros Hc H.
  assert (Hfresh : forall ex, In ex execs -> exists x c0', process (compile d p e) (ctx_others p) (fst ex) false = Ok (x, c0')).
  { intros ex Hin. destruct (H ex Hin) as [H1 H2].
    destruct (bound_correct d p e (fst ex) row false Hc H1 H2) as (x & c' & Hp & _). now exists x, c'. }
  destruct (cached_total_gen (compile d p e) (ctx_others p) execs _ (same_refl _) Hfresh) as (xs & Hxs).
  exists xs. split; [exact Hxs|].
  pose proof (cached_reexpand _ _ _ _ Hxs) as HF.
  clear Hxs Hfresh. induction HF as [|ex x execs xs Hx HF IH]; constructor.
  - destruct Hx as (c0' & Hx). destruct (H ex (or_introl eq_refl)) as [H1 H2].
    destruct (bound_correct d p e (fst ex) row false Hc H1 H2) as (x' & c' & Hp & Hsem).
    rewrite Hx in Hp. inversion Hp; subst. exact Hsem.
  - apply IH. intros ex' Hin. apply H. now right.
Qed.

(* ---- the documented failure: no empty-set expression for a bare expanding parameter ---- *)
Theorem empty_unsupported_iff d e :
  empty_ok d e [] = false <->
  (d.(d_empty_op_override) = true \/ e.(ie_bind).(bp_expand_op) = None) /\ d.(d_empty) = ENone.
Proof.
  unfold empty_ok, visit_empty_set_op_expr, visit_empty_set_expr.
  destruct (d_empty_op_override d), (bp_expand_op (ie_bind e)) as [[|]|], (d_empty d);
    split; intros H; try discriminate; try reflexivity; try (split; [auto|reflexivity]);
    destruct H as [[H|H] H']; discriminate.
Qed.

Theorem empty_unsupported_raises d p e pop :
  empty_ok d e [] = false ->
  process (compile d p e) (ctx_others p) [] pop = Raise NotImplementedError.
Proof.
  intros H. unfold empty_ok in H.
  destruct (visit_empty_set_op_expr d (type_count (ie_bind e)) (bp_expand_op (ie_bind e))) as [E|ex] eqn:HE; [discriminate|].
  assert (ex = NotImplementedError).
  { unfold visit_empty_set_op_expr, visit_empty_set_expr in HE.
    destruct (d_empty_op_override d), (bp_expand_op (ie_bind e)) as [[|]|], (d_empty d); congruence. }
  subst ex.
  assert (Hleep : leep d (ie_bind e) [] = Raise NotImplementedError) by (unfold leep; now rewrite HE).
  unfold process, compile.
  cbn [c_dialect c_bind c_bind_names c_string c_pre_string c_positiontup c_pre_positiontup or_else].
  destruct p; destruct (d_positional d);
    cbn [ctx_names_pre ctx_names_post ctx_others app map run_names step bind lookup_param find fst snd N.eqb Pos.eqb ps_repl ps_params ps_pos remove_param filter];
    rewrite Hleep; reflexivity.
Qed.

(* ---- literal rendering outside the guard ---- *)
Definition row_null : N -> sv := fun _ => SNull.
(* repaired by a8e8272: tuple_(x, y).in_([]) rendered literally on SQLite is the bare empty-set subquery
   (formerly "VALUES SELECT ..": not SQL) and, like the bound form, FALSE even for NULL operands *)
Example literal_empty_tuple_fixed :
  let e := in_impl (LTuple [1%N; 2%N]) (KTuple 2) OIn in
  consistent e = true /\ wf e [] = true /\ empty_ok sqlite_dialect e [] = true /\
  literal_guard sqlite_dialect e [] = true /\
  (exists x c', process (compile sqlite_dialect PosBare e) [] [] false = Ok (x, c') /\ exec_sem row_null x = EOk TF) /\
  exists ts, compile_literal_stmt sqlite_dialect PosBare e [] = Ok ts /\ exec_literal row_null ts = EOk TF.
Proof.
  cbv zeta. repeat split; try reflexivity.
  - eexists _, _. split; vm_compute; reflexivity.
  - eexists. split; vm_compute; reflexivity.
Qed.

Example literal_nulltype_tuple_refuted :
  let e := in_impl (LTuple [1%N; 2%N]) KNull OIn in
  let vals := [VTuple [SInt 1; SInt 1]] in
  consistent e = true /\ wf e vals = true /\ literal_guard sqlite_dialect e vals = false /\
  (exists x c', process (compile sqlite_dialect PosBare e) [] vals false = Ok (x, c') /\
                exec_sem (fun _ => SInt 1) x = EOk TT) /\
  compile_literal_stmt sqlite_dialect PosBare e vals = Raise AttributeError.
Proof.
  cbv zeta. repeat split; try reflexivity.
  eexists _, _. split; vm_compute; reflexivity.
Qed.

(* ---- packaged statements used by props/C07.v ---- *)
Theorem empty_set_correct d e row pop :
  consistent e = true -> wf e [] = true -> empty_ok d e [] = true ->
  exists x c', process (compile d PosBare e) [] [] pop = Ok (x, c') /\
    exec_sem row x = EOk (match e.(ie_op) with OIn => TF | ONotIn => TT end).
Proof.
  intros Hc Hw He.
  destruct (bound_correct d PosBare e [] row pop Hc Hw He) as (x & c' & H1 & H2).
  exists x, c'. split; [exact H1|]. rewrite H2. now destruct (ie_op e).
Qed.

Theorem negated_forms e : consistent e = true ->
  consistent (negate e) = true /\
  (forall vals, wf (negate e) vals = wf e vals) /\
  (forall x rows, expected (ie_op (negate e)) x rows = not3 (expected (ie_op e) x rows)).
Proof.
  intros H. split; [exact (consistent_negate e H)|]. split; [exact (negate_wf e)|].
  intros x rows. rewrite (negate_op_of e H). exact (expected_negate (ie_op e) x rows).
Qed.

Theorem literal_nulltype_tuple_refuted_ex :
  exists d e vals row,
    consistent e = true /\ wf e vals = true /\ literal_guard d e vals = false /\
    (exists x c', process (compile d PosBare e) [] vals false = Ok (x, c') /\ exec_sem row x = EOk TT) /\
    compile_literal_stmt d PosBare e vals = Raise AttributeError.
Proof.
  exists sqlite_dialect, (in_impl (LTuple [1%N; 2%N]) KNull OIn), [VTuple [SInt 1; SInt 1]], (fun _ => SInt 1).
  exact literal_nulltype_tuple_refuted.
Qed.

(* ---- the rendered binds are exactly the list: as many placeholders as values, the same values in the
   same order, for EVERY length (no padding, truncation or de-duplication) ---- *)
From SAV.sql Require Import InListCloseProofs InListLeepProofs.
Theorem bound_values_exact d b vals :
  vals <> [] ->
  (all_scalar vals = true -> tuple_branch b vals = false ->
   exists tu repl, leep d b vals = Ok (tu, repl) /\
     map snd tu = map (fun v => match v with VScalar s => s | VTuple _ => SNull end) vals /\
     length tu = length vals /\ repl = bind_items d tu) /\
  (forall k, all_tuple k vals = true -> tuple_branch b vals = true ->
   exists tu repl, leep d b vals = Ok (tu, repl) /\
     map snd tu = concat (map value_row vals) /\ length tu = (length vals * k)%nat).
Proof.
  intros Hne. split.
  - intros Hs Hb. rewrite (leep_scalar d b vals Hne Hs Hb). cbv zeta. eexists _, _. split; [reflexivity|].
    rewrite tu_scalar_snd. split; [reflexivity|]. split; [|reflexivity].
    unfold tu_scalar. rewrite map_length, enum_from_length. apply map_length.
  - intros k Ht Hb. rewrite (leep_tuple d b vals k Hne Ht Hb). cbv zeta. eexists _, _. split; [reflexivity|].
    rewrite concat_map, blocks_snd. split; [reflexivity|].
    rewrite <- (map_length snd), concat_map, blocks_snd.
    pose proof (all_tuple_len k vals Ht) as Hl. rewrite <- (map_length value_row vals).
    induction Hl as [|te ts Hte Hl IH]; [reflexivity|]. cbn [concat map length]. rewrite app_length, IH, Hte. lia.
Qed.
