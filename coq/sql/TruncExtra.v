(* C21 - further theorems: anonymous bind parameters never conflict; exact counter behaviour and the
   point where label_length is exceeded; concrete refutations *)
From Coq Require Import List NArith ZArith Bool Lia FinFun.
Import ListNotations.
From SAV.sql Require Import Trunc TruncDigits TruncMaxlen TruncLabels TruncRunProofs.

Local Open Scope Z_scope.

Section AnonBinds.
  Variable benv : N -> bindrec.
  (* every bind parameter of the statement is anonymous: its key is "%(<its own id> <body>)s"
     (what  col == value  and  bindparam(name, unique=True)  produce) *)
  Hypothesis all_anon : forall oid, exists b, b_key (benv oid) = BTrunc [Anon oid b].

  Lemma visit_anon_never_raises : forall ll st oid e, BInv benv ll st ->
    visit_bindparam benv ll st oid = Raise e -> False.
  Proof.
    intros ll st oid e I H. unfold visit_bindparam in H.
    destruct (truncate_bindparam benv ll st oid) as [st1 nm1] eqn:T.
    destruct (truncate_bindparam_spec benv _ _ _ _ _ I T) as (I1 & NO & MM & BM & EB & FB & OLD & _).
    destruct (assoc str_eqb nm1 (st_binds st1)) as [ex|] eqn:Fb; [|discriminate].
    destruct (N.eqb ex oid) eqn:E1; [discriminate|]. apply N.eqb_neq in E1.
    (* ex was named nm1 before *)
    assert (Hex : bn_find st1 ex = Some nm1).
    { apply BM. apply (bi_back _ _ _ I). unfold b_find. rewrite <- EB. exact Fb. }
    pose proof (NO _ _ Hex) as Q1. pose proof (NO _ _ FB) as Q2.
    destruct (all_anon ex) as (b1 & K1). destruct (all_anon oid) as (b2 & K2). rewrite K1 in Q1. rewrite K2 in Q2.
    destruct (memo_injective _ _ _ _ _ _ I1 Q1 Q2) as [E|(E & _)]; [inversion E; contradiction|].
    destruct (ti_entries _ _ I1 _ _ _ Q1) as (C1 & _). destruct (ti_entries _ _ I1 _ _ _ Q2) as (C2 & _).
    cbn [anon_pure] in E. rewrite !app_nil_r in E.
    fold (am_find (st_am st1) (ex, b1)) in E. fold (am_find (st_am st1) (oid, b2)) in E.
    destruct (am_find (st_am st1) (ex, b1)) as [v1|] eqn:F1; [|apply (C1 ex b1); [left; reflexivity|exact F1]].
    destruct (am_find (st_am st1) (oid, b2)) as [v2|] eqn:F2; [|apply (C2 oid b2); [left; reflexivity|exact F2]].
    subst v2. pose proof (anon_names_injective _ _ _ _ (ti_am _ _ I1) F1 F2) as K. inversion K. contradiction.
  Qed.

  (* a statement all of whose bind parameters are anonymous always compiles: the generated and
     truncated bind names never produce a (spurious) name conflict, for any label_length *)
  Theorem anon_binds_never_conflict : forall ll rs, exists st os, run benv ll init_state rs = Ok (st, os).
  Proof.
    intros ll rs. assert (G : forall st, BInv benv ll st -> exists st' os, run benv ll st rs = Ok (st', os)).
    { induction rs as [|r rs IH]; intros st I; cbn [run].
      - eauto.
      - destruct (step benv ll st r) as [[st1 o]|e] eqn:S1.
        + destruct (step_spec benv _ _ _ _ _ I S1) as (I1 & _). destruct (IH _ I1) as (st2 & os & ->). eauto.
        + exfalso. destruct r as [cls n|oid]; cbn [step] in S1; [discriminate|].
          exact (visit_anon_never_raises _ _ _ _ I S1). }
    apply G. apply BInv_init.
  Qed.
End AnonBinds.

(* ---------- the per-class counter: exact behaviour on fresh over-long names ---------- *)
Section Counter.
  Variable benv : N -> bindrec.

  Fixpoint outs_from (ll : Z) (c : N) (names : list str) : list str :=
    match names with
    | [] => []
    | s :: r => truncname ll s c :: outs_from ll (c + 1)%N r
    end.
  Definition reqs_of (cls : N) (names : list str) : list req :=
    map (fun s => RName cls (LTrunc [Lit s])) names.

  Lemma fresh_long_run : forall ll cls names st,
    (forall s, In s names -> label_too_long (slen s) ll = true) -> NoDup names ->
    (forall s, In s names -> memo_find st cls [Lit s] = None) ->
    exists st', run benv ll st (reqs_of cls names) = Ok (st', outs_from ll (tcounter st cls) names)
                /\ tcounter st' cls = (tcounter st cls + N.of_nat (length names))%N.
  Proof.
    intros ll cls. induction names as [|s r IH]; intros st Hl Hnd Hfresh.
    - exists st. split; [reflexivity|]. cbn. lia.
    - pose proof (Hfresh s (or_introl eq_refl)) as F.
      set (c := tcounter st cls).
      set (st1 := {| st_am := st_am st; st_memo := (cls, [Lit s], truncname ll s c) :: st_memo st;
                     st_tctr := (cls, counter_next c) :: st_tctr st;
                     st_binds := st_binds st; st_bind_names := st_bind_names st |}).
      assert (Hstep : step benv ll st (RName cls (LTrunc [Lit s])) = Ok (st1, truncname ll s c)).
      { cbn [step element_name]. unfold truncated_identifier. unfold memo_find in F. rewrite F.
        cbn [apply_map]. rewrite app_nil_r. rewrite (Hl s (or_introl eq_refl)). reflexivity. }
      inversion Hnd as [|? ? Hnotin Hnd']; subst.
      assert (Hc1 : tcounter st1 cls = (c + 1)%N).
      { unfold tcounter, st1. cbn [st_tctr assoc]. rewrite N.eqb_refl. reflexivity. }
      destruct (IH st1) as (st2 & R & C).
      + intros s' Hin. apply Hl. right. exact Hin.
      + exact Hnd'.
      + intros s' Hin. unfold memo_find, st1. cbn [st_memo assoc].
        match goal with |- context [if ?c then _ else _] => destruct c eqn:E end; [|fold (memo_find st cls [Lit s'])].
        * apply ckey_eqb_eq in E. inversion E; subst. contradiction.
        * apply (Hfresh s'). right. exact Hin.
      + change (reqs_of cls (s :: r)) with (RName cls (LTrunc [Lit s]) :: reqs_of cls r).
        cbn [run]. rewrite Hstep. rewrite Hc1 in R. rewrite R. exists st2. split; [reflexivity|].
        rewrite C, Hc1. unfold c. cbn [length]. generalize (tcounter st cls) (length r). clear. intros. lia.
  Qed.

  Lemma outs_from_app : forall ll names c s,
    outs_from ll c (names ++ [s]) = outs_from ll c names ++ [truncname ll s (c + N.of_nat (length names))%N].
  Proof.
    intros ll. induction names as [|x r IH]; intros c s; cbn [outs_from app length].
    - rewrite N.add_0_r. reflexivity.
    - rewrite IH. replace (c + 1 + N.of_nat (length r))%N with (c + N.of_nat (S (length r)))%N by lia. reflexivity.
  Qed.

  Lemma outs_from_length : forall ll l c, length (outs_from ll c l) = length l.
  Proof. intros ll. induction l as [|x r IH]; intros c; cbn [outs_from length]; [reflexivity|]. rewrite IH. reflexivity. Qed.

  (* a family of pairwise different names, each longer than label_length *)
  Definition long_name (ll : Z) (i : nat) : str := repeat 97%N (Z.to_nat ll) ++ py_dec (N.of_nat i).
  Definition family (ll : Z) (n : nat) : list str := map (long_name ll) (seq 0 n).

  Lemma long_name_long : forall ll i, label_too_long (slen (long_name ll i)) ll = true.
  Proof.
    intros. unfold label_too_long, long_name. apply Z.gtb_lt. rewrite slen_app. unfold slen at 1.
    rewrite repeat_length. pose proof (slen_nonneg (py_dec (N.of_nat i))). lia.
  Qed.
  Lemma family_nodup : forall ll n, NoDup (family ll n).
  Proof.
    intros. unfold family. apply Injective_map_NoDup; [|apply seq_NoDup].
    intros i j E. unfold long_name in E. apply app_inv_head in E. apply py_dec_inj in E. lia.
  Qed.

  (* the k-th fresh over-long name of a class gets counter k; its rendered length is
     max(label_length - 6, 0) + 1 + (number of hex digits of k) *)
  Theorem kth_truncated_name : forall ll cls m, exists st os,
    run benv ll init_state (reqs_of cls (family ll (S m))) = Ok (st, os)
    /\ length os = S m
    /\ slen (last os []) = label_cut ll + 1 + slen (hexs (N.of_nat (S m))).
  Proof.
    intros ll cls m.
    destruct (fresh_long_run ll cls (family ll (S m)) init_state) as (st & R & _).
    - intros s Hin. unfold family in Hin. apply in_map_iff in Hin. destruct Hin as (i & <- & _).
      apply long_name_long.
    - apply family_nodup.
    - intros. reflexivity.
    - exists st, (outs_from ll (tcounter init_state cls) (family ll (S m))). split; [exact R|].
      unfold family. rewrite seq_S, map_app. cbn [map]. rewrite outs_from_app. split.
      + rewrite app_length, outs_from_length, map_length, seq_length. cbn [length]. lia.
      + rewrite last_last. rewrite truncname_len by apply long_name_long.
        rewrite map_length, seq_length. unfold tcounter, counter_start. cbn [init_state st_tctr assoc].
        replace (1 + N.of_nat m)%N with (N.of_nat (S m)) by lia. reflexivity.
  Qed.

  (* with label_length >= 6, the 1 048 576th over-long name of one class in one statement is rendered one
     character longer than label_length (6 hex digits); no earlier one is (run_len_bounded) *)
  Lemma overflow_at : forall ll cls m, 6 <= ll -> N.of_nat (S m) = hex_limit -> exists names st os,
    N.of_nat (length names) = hex_limit /\ NoDup names
    /\ run benv ll init_state (reqs_of cls names) = Ok (st, os)
    /\ slen (last os []) = ll + 1.
  Proof.
    intros ll cls m Hl E.
    destruct (kth_truncated_name ll cls m) as (st & os & R & _ & L).
    exists (family ll (S m)), st, os. split; [|split; [apply family_nodup|split; [exact R|]]].
    - unfold family. rewrite map_length, seq_length. exact E.
    - rewrite L, E.
      assert (slen (hexs hex_limit) = 6).
      { pose proof (hexs_len_gt5 hex_limit ltac:(lia)). unfold slen in *. rewrite hexs_len in *.
        pose proof (digits_len_le 16 hex_limit 6 ltac:(lia) ltac:(lia) ltac:(unfold hex_limit; lia)). lia. }
      unfold label_cut. lia.
  Qed.

  Theorem label_overflow_at_16_pow_5 : forall ll cls, 6 <= ll -> exists names st os,
    N.of_nat (length names) = hex_limit /\ NoDup names
    /\ run benv ll init_state (reqs_of cls names) = Ok (st, os)
    /\ slen (last os []) = ll + 1.
  Proof.
    intros ll cls Hl. apply (overflow_at ll cls (N.to_nat 1048575%N) Hl).
    rewrite Nat2N.inj_succ, N2Nat.id. reflexivity.
  Qed.
End Counter.

(* ---------- an engine: limits after the first connection ---------- *)
(* if the engine starts, the label length the compiler will use fits the identifier limit then in force
   (which is the detected one unless the user fixed it) *)
Lemma initialize_ok : forall cls user ll det m, initialize cls user ll det = Ok m ->
  m = (if truthy user then py_or user cls else py_or det (py_or user cls)) /\ py_or ll m <= m.
Proof.
  intros cls user ll det m H. unfold initialize in H.
  set (m1 := if truthy user then py_or user cls else py_or det (py_or user cls)) in *.
  destruct (truthy ll && (py_or ll 0 >? m1)) eqn:E; [discriminate|]. inversion H; subst m. split; [reflexivity|].
  apply andb_false_iff in E. destruct ll as [z|]; cbn [py_or truthy] in *.
  - destruct (z =? 0) eqn:Z0; [lia|]. destruct E as [E|E]; [discriminate|].
    pose proof (Zgt_cases z m1) as G. rewrite E in G. lia.
  - lia.
Qed.
(* ... and it refuses to start exactly when a label_length above that limit was asked for *)
Lemma initialize_error_iff : forall cls user ll det e, initialize cls user ll det = Raise e <->
  (e = ArgumentError /\ exists l, ll = Some l /\ l <> 0
     /\ (if truthy user then py_or user cls else py_or det (py_or user cls)) < l).
Proof.
  intros cls user ll det e. unfold initialize.
  set (m1 := if truthy user then py_or user cls else py_or det (py_or user cls)).
  destruct ll as [z|]; cbn [truthy py_or andb].
  - destruct (z =? 0) eqn:Z0; cbn [negb andb].
    + split; [discriminate|]. intros (_ & l & E & Hn & _). inversion E; subst. apply Z.eqb_eq in Z0. contradiction.
    + destruct (z >? m1) eqn:G.
      * apply Z.gtb_lt in G. apply Z.eqb_neq in Z0. split; [intro H; inversion H; split; [reflexivity|exists z; auto]|].
        intros (-> & _). reflexivity.
      * pose proof (Zgt_cases z m1) as G'. rewrite G in G'. split; [discriminate|].
        intros (_ & l & E & _ & Hl). inversion E; subst. lia.
  - split; [discriminate|]. intros (_ & l & E & _). discriminate.
Qed.

Section EngineLabels.
  Variable benv : N -> bindrec.
  (* labels, aliases and anonymous bind names compiled through a started engine fit the identifier limit
     in force after the first connection *)
  Theorem engine_labels_within_identifier_limit : forall cls user ll det m rs st os,
    initialize cls user ll det = Ok m -> 6 <= py_or ll m -> (N.of_nat (length rs) < hex_limit)%N ->
    run benv (py_or ll m) init_state rs = Ok (st, os) ->
    (forall c n o, In (RName c (LTrunc n), o) (combine rs os) -> slen o <= m)
    /\ (forall oid t o, In (RBind oid, o) (combine rs os) -> b_key (benv oid) = BTrunc t -> slen o <= m).
  Proof.
    intros cls user ll det m rs st os Hi H6 Hn Hr. destruct (initialize_ok _ _ _ _ _ Hi) as (_ & Hle).
    destruct (run_len_bounded benv _ _ _ _ H6 Hn Hr) as (A & B). split.
    - intros c n o Hin. specialize (A c n o Hin). lia.
    - intros oid t o Hin K. specialize (B oid t o Hin K). lia.
  Qed.
End EngineLabels.

(* ---------- concrete refutations (witnesses evaluated by the kernel) ---------- *)
Definition no_binds : N -> bindrec := fun _ => {| b_key := BPlain []; b_unique := false; b_expanding := false |}.
Definition s_of (l : list N) : str := l.

(* "x_y" / "x_y_1" *)
Definition w_xy : str := [120; 95; 121]%N.
Definition w_xy1 : str := [120; 95; 121; 95; 49]%N.

(* an anonymous label (element named x_y) and a literal truncatable label "x_y_1" (table x, column y_1
   under LABEL_STYLE_TABLENAME_PLUS_COL) are rendered identically *)
Lemma anon_vs_literal_collision :
  exists rs st os n1 n2 o, run no_binds 30 init_state rs = Ok (st, os)
    /\ In (RName cls_colident (LTrunc n1), o) (combine rs os)
    /\ In (RName cls_colident (LTrunc n2), o) (combine rs os) /\ n1 <> n2.
Proof.
  exists [RName cls_colident (LTrunc [Anon 1 w_xy]); RName cls_colident (LTrunc [Lit w_xy1])].
  eexists. eexists. exists [Anon 1%N w_xy], [Lit w_xy1], w_xy1.
  split; [vm_compute; reflexivity|]. split; [left; reflexivity|]. split; [right; left; reflexivity|discriminate].
Qed.
(* ... and so are an anonymous label and an explicit plain-str label of the same text *)
Lemma anon_vs_plain_collision :
  exists rs st os n s, run no_binds 30 init_state rs = Ok (st, os)
    /\ In (RName cls_colident (LTrunc n), s) (combine rs os)
    /\ In (RName cls_colident (LStr s), s) (combine rs os).
Proof.
  exists [RName cls_colident (LTrunc [Anon 1 w_xy]); RName cls_colident (LStr w_xy1)].
  eexists. eexists. exists [Anon 1%N w_xy], w_xy1.
  split; [vm_compute; reflexivity|]. split; [left; reflexivity|right; left; reflexivity].
Qed.

Definition mysql_like : dialect := {| d_maxid := 255; d_idx := Some 64; d_con := Some 64 |}.
Definition env0 : cenv := {| e_table := [116%N]; e_cols := [[99%N]]; e_ref := [] |}.

(* a user-given (plain) index name of 100 characters passes validate_identifier (255) and is rendered
   although max_index_name_length is 64 *)
Lemma plain_name_exceeds_specific_limit : forall md5,
  dialect_ok mysql_like = true /\
  exists s, ddl_name md5 mysql_like true None (GPlain (repeat 105%N 100)) env0 = Ok (Some s)
            /\ max_for mysql_like true < slen s.
Proof.
  intros md5. split; [reflexivity|]. exists (repeat 105%N 100). split; [reflexivity|].
  vm_compute. reflexivity.
Qed.

(* max_ < 8: the slice end max_ - 8 is negative and Python drops only the last 8 - max_ characters *)
Lemma small_max_overlong : forall md5, (forall s, 4 <= slen (md5 s)) ->
  exists name max_, 0 < max_ < 8 /\ max_ < slen (truncate_maxlen md5 name max_)
                    /\ slen name < slen (truncate_maxlen md5 name max_).
Proof.
  intros md5 Hm. exists (repeat 97%N 100), 5. split; [lia|].
  unfold truncate_maxlen, maxlen_too_long, maxlen_cut, md5_tail.
  assert (E : slen (repeat 97%N 100) = 100) by reflexivity. rewrite E.
  change (100 >? 5) with true. cbv iota. rewrite !slen_app.
  rewrite slice_to_len_neg by lia. rewrite slice_from_len_neg by lia. rewrite E.
  specialize (Hm (repeat 97%N 100)). unfold underscore, slen at 1 3. cbn [length]. lia.
Qed.
