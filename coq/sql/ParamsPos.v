(* C04 - qmark / format: positiontup is the text order of the binds and every "?" gets its own value *)
From Coq Require Import List NArith ZArith Bool Lia.
Import ListNotations.
From SAV.sql Require Import Params ParamsDict ParamsEscape ParamsGuard ParamsPost ParamsInline ParamsFinal ParamsNamed.

Lemma flat_map_flat_map : forall {A B C} (f : B -> list C) (g : A -> list B) l,
  flat_map f (flat_map g l) = flat_map (fun x => flat_map f (g x)) l.
Proof.
  induction l as [|x l IH]; [reflexivity|]. cbn [flat_map]. rewrite flat_map_app, IH. reflexivity.
Qed.

Lemma flat_map_ext_in' : forall {A B} (f g : A -> list B) l,
  (forall a, In a l -> f a = g a) -> flat_map f l = flat_map g l.
Proof.
  induction l as [|x l IH]; intro H; [reflexivity|]. cbn [flat_map].
  rewrite (H x (or_introl eq_refl)), IH by (intros a Ha; apply H; right; exact Ha). reflexivity.
Qed.

Lemma NoDup_map_inj_on : forall {A B} (f : A -> B) l,
  (forall a b, In a l -> In b l -> f a = f b -> a = b) -> NoDup l -> NoDup (map f l).
Proof.
  induction l as [|x l IH]; intros Hi Hn; [constructor|].
  inversion Hn as [|? ? Hni Hnd]; subst. cbn [map]. constructor.
  - intro H. apply in_map_iff in H. destruct H as [y [He Hy]]. apply Hni.
    rewrite (Hi x y (or_introl eq_refl) (or_intror Hy) (eq_sym He)). exact Hy.
  - apply IH; [|exact Hnd]. intros a b Ha Hb. apply Hi; right; assumption.
Qed.

(* names of the binds in text order *)
Definition tok_name (t : tok) : list name := match t with Txt _ => [] | Bind n => [n] | PC n => [n] end.
Definition names_of (ts : list tok) : list name := flat_map tok_name ts.

(* the values a source token contributes to the parameter sequence of a qmark / format driver *)
Definition tok_vals (proc : N -> Z -> Z) (inp : input) (t : tok) : list pval :=
  match t with
  | Txt _ => []
  | Bind n => match dget n (i_params inp) with
              | Some (PS v) => [PS (pz proc inp n v)]
              | Some v => [v]
              | None => []
              end
  | PC n => match kind_of inp n, dget n (i_params inp) with
            | Expand, Some (PL l) => map (fun z => PS (pz proc inp n z)) l
            | _, _ => []
            end
  end.

(* parameters[key] after flattened_processors *)
Definition getv (proc : N -> Z -> Z) (fp : dict N) (d : dict pval) (k : name) : pval :=
  match dget k d with Some v => papply proc fp k v | None => PS 0 end.

Section Pos.
Variable tab : list (N * N).
Variable inp : input.
Hypothesis W : wf tab inp.
Notation order := (i_order inp).
Notation ebn := (ebn_of tab (i_order inp)).

Lemma names_of_order : incl (names_of (i_toks inp)) order.
Proof.
  intros n H. unfold names_of in H. apply in_flat_map in H. destruct H as [t [Ht Hn]].
  destruct t as [s|m|m]; cbn [tok_name] in Hn.
  - destruct Hn.
  - destruct Hn as [->|[]]. exact (proj1 (w_bind _ _ W n Ht)).
  - destruct Hn as [->|[]]. exact (proj1 (w_pc _ _ W n Ht)).
Qed.

Lemma positions_carrier : forall ps ts, positions (carrier tab ps ts) = map (esc tab) (names_of ts).
Proof.
  intros ps ts. unfold positions, carrier, names_of. induction ts as [|t ts IH]; [reflexivity|].
  cbn [map flat_map]. rewrite map_app, IH. destruct t; reflexivity.
Qed.

Lemma ebn_values_nodup : NoDup (map snd ebn).
Proof.
  destruct (ebn_keys tab order) as [Hnd Hk].
  assert (He : map snd ebn = map (esc tab) (keys ebn)).
  { unfold keys. rewrite map_map. apply map_ext_in. intros [k e] Hi. cbn [fst snd].
    exact (proj1 (ebn_entries tab order k e Hi)). }
  rewrite He. apply NoDup_map_inj_on; [|exact Hnd].
  intros a b Ha Hb. apply (w_inj _ _ W); [exact (proj1 (Hk a Ha))|exact (proj1 (Hk b Hb))].
Qed.

Lemma dget_swap : forall n (d : dict name), In n order ->
  (forall k e, In (k, e) d -> e = esc tab k /\ In k order) ->
  dget (esc tab n) (map (fun kv => (snd kv, fst kv)) d) = if dmem n d then Some n else None.
Proof.
  intros n d Hn. induction d as [|[k e] d IH]; intro H; [reflexivity|].
  cbn [map fst snd dget]. unfold dmem. cbn [dget].
  destruct (H k e (or_introl eq_refl)) as [-> Hk].
  destruct (str_eqb_spec (esc tab n) (esc tab k)) as [He|He].
  - rewrite (w_inj _ _ W n k Hn Hk He), str_eqb_refl. reflexivity.
  - rewrite str_eqb_neq by (intros ->; apply He; reflexivity).
    apply IH. intros k' e' Hi. apply H. right. exact Hi.
Qed.

(* reverse_escape.get(escaped, escaped) gives back the bind's own name *)
Lemma reverse_escape_escape : forall n, In n order -> dget_or_key (reverse_dict ebn) (esc tab n) = n.
Proof.
  intros n Hn. rewrite reverse_dict_inj by exact ebn_values_nodup.
  unfold dget_or_key. rewrite (dget_swap n ebn Hn (ebn_entries tab order)).
  unfold dmem. rewrite ebn_get. apply memb_In in Hn. rewrite Hn. cbn [andb].
  destruct (needs_esc tab n) eqn:E; [reflexivity|]. apply needs_esc_false_esc. exact E.
Qed.

(* _process_positional: the placeholders become positional and positiontup lists the binds in text order *)
Lemma positiontup_in_text_order : forall ps,
  process_positional ebn (carrier tab ps (i_toks inp)) =
  Ok (map (ctok tab ps (fun _ => OPos)) (i_toks inp), names_of (i_toks inp)).
Proof.
  intro ps. unfold process_positional.
  assert (Hts : map (fun t => match t with OPh _ => OPos | _ => t end) (carrier tab ps (i_toks inp))
                = map (ctok tab ps (fun _ => OPos)) (i_toks inp)).
  { unfold carrier. rewrite map_map. apply map_ext. intros [s|n|n]; reflexivity. }
  rewrite Hts, positions_carrier.
  assert (Hrev : map (dget_or_key (reverse_dict ebn)) (map (esc tab) (names_of (i_toks inp))) = names_of (i_toks inp)).
  { rewrite map_map. rewrite <- (map_id (names_of (i_toks inp))) at 2. apply map_ext_in.
    intros n Hn. apply reverse_escape_escape. exact (names_of_order n Hn). }
  assert (Hlen : length (reverse_dict ebn) = length ebn).
  { rewrite (reverse_dict_inj ebn ebn_values_nodup). apply map_length. }
  destruct ebn as [|e0 er] eqn:E.
  - f_equal. f_equal. rewrite <- (map_id (names_of (i_toks inp))) at 2. apply map_ext_in. intros n Hn.
    apply needs_esc_false_esc. pose proof (ebn_get tab order n) as G. rewrite E in G. cbn [dget] in G.
    apply names_of_order in Hn. apply memb_In in Hn. rewrite Hn in G. cbn [andb] in G.
    destruct (needs_esc tab n); [discriminate|reflexivity].
  - rewrite Hlen, Nat.eqb_refl, Hrev. reflexivity.
Qed.
End Pos.

Section PosRun.
Variable tab : list (N * N).
Variable lit : Z -> str.
Variable empty_expr : str.
Variable proc : N -> Z -> Z.
Variable ps : style.
Variable inp : input.
Hypothesis W : wf tab inp.
Hypothesis Hps : positional ps = true.
Hypothesis Hnum : numeric ps = false.

Notation order := (i_order inp).
Notation ebn := (ebn_of tab (i_order inp)).
Notation Inv := (Inv tab lit empty_expr ps inp).
Notation bpos := (fun _ : name => OPos).
Notation newpos_of := (newpos_of tab ps inp).

Lemma bind_tok_pos : forall k, bind_tok ps k = OPos.
Proof. intro k. revert Hps Hnum. destruct ps; cbn; congruence. Qed.

Notation getv := (fun st : pcstate => getv proc (fprocs inp st) (s_params st)).
(* the entries of the final positiontup contributed by one source token *)
Definition tok_pos (t : tok) : list name :=
  match t with Txt _ => [] | Bind n => newpos_of n | PC n => newpos_of n end.

Lemma inline_join_pos : forall (g : Z -> Z) (items : list (name * Z)), items <> [] ->
  inline_seq ps (join_toks (map (fun _ => OPos) items)) (map (fun kv => PS (g (snd kv))) items)
  = Some (join_vals (map g (map snd items))).
Proof.
  intro g. induction items as [|[k v] items IH]; intro Hne; [congruence|].
  destruct items as [|[k2 v2] items].
  - reflexivity.
  - cbn [map snd]. rewrite join_toks_cons2, join_vals_cons2. cbn [inline_seq].
    change (OPos :: map (fun _ : name * Z => OPos) items) with (map (fun _ : name * Z => OPos) ((k2, v2) :: items)).
    change (PS (g v2) :: map (fun kv : name * Z => PS (g (snd kv))) items) with (map (fun kv : name * Z => PS (g (snd kv))) ((k2, v2) :: items)).
    rewrite IH by discriminate. cbn [option_map map snd]. rewrite unpct_comma. reflexivity.
Qed.

Lemma pos_token : forall done st t, Inv done st ->
  (forall n, t = Bind n -> In n order /\ kind_of inp n = Plain) ->
  (forall n, t = PC n -> In n order /\ kind_of inp n <> Plain /\ In n done) ->
  exists r, spec_tok lit empty_expr proc inp t = Some r /\
            inline_seq ps (final_tok tab lit empty_expr ps inp bpos t) (map (getv st) (tok_pos t)) = Some r /\
            (forall k, In k (tok_pos t) -> dget k (s_params st) <> None).
Proof.
  intros done st t I Hb Hp. destruct t as [s|n|n].
  - exists (map Ch s). split; [reflexivity|]. split; [|intros k []].
    cbn [final_tok tok_pos map inline_seq option_map]. rewrite unpct_pct, app_nil_r. reflexivity.
  - destruct (Hb n eq_refl) as [Hn K]. destruct (w_plain _ _ W n Hn K) as [v Hv].
    assert (Hg : dget n (s_params st) = Some (PS v)).
    { rewrite (v_keep _ _ _ _ _ _ _ I n Hn (or_intror K)). exact Hv. }
    exists [Val (pz proc inp n v)]. split; [apply spec_bind; exact Hv|].
    cbn [final_tok tok_pos]. unfold ParamsPost.newpos_of. rewrite K. cbn [map]. unfold ParamsPos.getv. rewrite Hg.
    rewrite (papply_pz proc inp _ n n v (fprocs_plain tab lit empty_expr ps inp W done st n I Hn)).
    split; [reflexivity|]. intros k [<-|[]]. congruence.
  - destruct (Hp n eq_refl) as [Hn [K Hd]]. cbn [final_tok spec_tok tok_pos]. unfold repl_of, ParamsPost.newpos_of.
    destruct (kind_of inp n) eqn:K'; [congruence| |].
    + destruct (w_expand _ _ W n Hn K') as [l Hl]. rewrite Hl, Hnum. unfold plist. rewrite Hl.
      assert (Hx : expanded_names (esc tab n) l = xitems tab inp n).
      { unfold xitems, plist. rewrite K', Hl. reflexivity. }
      assert (Hv : map (getv st) (xnames tab inp n) = map (fun kv => PS (pz proc inp n (snd kv))) (xitems tab inp n)).
      { unfold xnames. rewrite map_map. apply map_ext_in. intros [k v] Hi. cbn [fst snd]. unfold ParamsPos.getv.
        rewrite (v_x _ _ _ _ _ _ _ I n k v Hd Hi).
        exact (papply_pz proc inp _ k n v (fprocs_x tab lit empty_expr ps inp W done st n k v I Hd Hi)). }
      assert (Hk : forall k, In k (xnames tab inp n) -> dget k (s_params st) <> None).
      { intros k Hk. unfold xnames in Hk. apply in_map_iff in Hk. destruct Hk as [[k' v] [<- Hi]].
        cbn [fst]. rewrite (v_x _ _ _ _ _ _ _ I n k' v Hd Hi). congruence. }
      destruct l as [|z l].
      * exists (map Ch empty_expr). split; [reflexivity|]. split; [|exact Hk].
        unfold xnames, xitems, plist. rewrite K', Hl. cbn [expanded_names expand_from map repl_expand inline_seq option_map].
        rewrite unpct_pct, app_nil_r. reflexivity.
      * exists (join_vals (map (pz proc inp n) (z :: l))). split; [reflexivity|]. split; [|exact Hk]. unfold repl_expand.
        rewrite (map_ext _ (fun _ => OPos)) by (intro kv; apply bind_tok_pos).
        rewrite Hv, Hx. rewrite (inline_join_pos (pz proc inp n)).
        -- rewrite <- Hx. unfold expanded_names. rewrite expand_from_snd. reflexivity.
        -- rewrite <- Hx. discriminate.
    + destruct (w_litv _ _ W n Hn K') as [v Hv]. rewrite Hv, (kind_pv inp n v Hv).
      exists (map Ch (lit_of lit empty_expr v)). split; [reflexivity|]. split; [|intros k []].
      cbn [map inline_seq option_map]. rewrite unpct_pct, app_nil_r. reflexivity.
Qed.

Lemma pos_tokens : forall done st toks, Inv done st ->
  (forall n, In (Bind n) toks -> In n order /\ kind_of inp n = Plain) ->
  (forall n, In (PC n) toks -> In n order /\ kind_of inp n <> Plain /\ In n done) ->
  exists sp, concat_opt (map (spec_tok lit empty_expr proc inp) toks) = Some sp /\
             inline_seq ps (flat_map (final_tok tab lit empty_expr ps inp bpos) toks)
                        (map (getv st) (flat_map tok_pos toks)) = Some sp /\
             (forall k, In k (flat_map tok_pos toks) -> dget k (s_params st) <> None).
Proof.
  intros done st toks I. induction toks as [|t toks IH]; intros Hb Hp.
  - exists []. split; [reflexivity|]. split; [reflexivity|intros k []].
  - destruct (pos_token done st t I) as [r [R1 [R2 R3]]].
    + intros n ->. apply Hb. left. reflexivity.
    + intros n ->. apply Hp. left. reflexivity.
    + destruct IH as [sp [S1 [S2 S3]]].
      * intros n Hn. apply Hb. right. exact Hn.
      * intros n Hn. apply Hp. right. exact Hn.
      * exists (r ++ sp). cbn [map concat_opt flat_map]. rewrite R1, S1. split; [reflexivity|]. split.
        -- rewrite map_app. rewrite (inline_seq_app ps _ _ r _ _ R2), S2. reflexivity.
        -- intros k Hk. apply in_app_or in Hk. destruct Hk as [Hk|Hk]; [apply R3|apply S3]; exact Hk.
Qed.

Lemma pos_token_vals : forall done st t, Inv done st ->
  (forall n, t = Bind n -> In n order /\ kind_of inp n = Plain) ->
  (forall n, t = PC n -> In n order /\ kind_of inp n <> Plain /\ In n done) ->
  map (getv st) (tok_pos t) = tok_vals proc inp t.
Proof.
  intros done st t I Hb Hp. destruct t as [s|n|n]; cbn [tok_pos tok_vals].
  - reflexivity.
  - destruct (Hb n eq_refl) as [Hn K]. destruct (w_plain _ _ W n Hn K) as [v Hv].
    unfold ParamsPost.newpos_of. rewrite K, Hv. cbn [map]. unfold ParamsPos.getv.
    rewrite (v_keep _ _ _ _ _ _ _ I n Hn (or_intror K)), Hv.
    rewrite (papply_pz proc inp _ n n v (fprocs_plain tab lit empty_expr ps inp W done st n I Hn)). reflexivity.
  - destruct (Hp n eq_refl) as [Hn [K Hd]]. unfold ParamsPost.newpos_of.
    destruct (kind_of inp n) eqn:K'; [congruence| |].
    + destruct (w_expand _ _ W n Hn K') as [l Hl]. rewrite Hl, Hnum.
      unfold xnames. rewrite map_map.
      assert (Hx : xitems tab inp n = expanded_names (esc tab n) l).
      { unfold xitems, plist. rewrite K', Hl. reflexivity. }
      rewrite (map_ext_in _ (fun kv => PS (pz proc inp n (snd kv)))).
      * rewrite Hx. rewrite <- (map_map snd (fun z => PS (pz proc inp n z))). unfold expanded_names. rewrite expand_from_snd. reflexivity.
      * intros [k v] Hi. cbn [fst snd]. unfold ParamsPos.getv. rewrite (v_x _ _ _ _ _ _ _ I n k v Hd Hi).
        exact (papply_pz proc inp _ k n v (fprocs_x tab lit empty_expr ps inp W done st n k v I Hd Hi)).
    + destruct (dget n (i_params inp)); reflexivity.
Qed.

Lemma pos_tokens_vals : forall done st toks, Inv done st ->
  (forall n, In (Bind n) toks -> In n order /\ kind_of inp n = Plain) ->
  (forall n, In (PC n) toks -> In n order /\ kind_of inp n <> Plain /\ In n done) ->
  map (getv st) (flat_map tok_pos toks) = flat_map (tok_vals proc inp) toks.
Proof.
  intros done st toks I Hb Hp. induction toks as [|t toks IH]; [reflexivity|].
  cbn [flat_map]. rewrite map_app, IH.
  - f_equal. apply (pos_token_vals done st t I).
    + intros n ->. apply Hb. left. reflexivity.
    + intros n ->. apply Hp. left. reflexivity.
  - intros n Hn. apply Hb. right. exact Hn.
  - intros n Hn. apply Hp. right. exact Hn.
Qed.

Lemma names_newpos : forall toks, flat_map newpos_of (names_of toks) = flat_map tok_pos toks.
Proof.
  intro toks. unfold names_of. rewrite flat_map_flat_map. apply flat_map_ext.
  intros [s|n|n]; cbn [tok_name tok_pos flat_map]; try rewrite app_nil_r; reflexivity.
Qed.

Lemma assemble_ok : forall fp (d : dict pval) ptup, (forall k, In k ptup -> dget k d <> None) ->
  mapM (fun k => match dget k d with Some v => Ok (papply proc fp k v) | None => Raise KeyError end) ptup
  = Ok (map (ParamsPos.getv proc fp d) ptup).
Proof.
  intros fp d ptup H. apply mapM_ok. intros k Hk. unfold ParamsPos.getv. specialize (H k Hk).
  destruct (dget k d); [reflexivity|congruence].
Qed.

(* the driver receives, in text order, exactly the values of the binds (an expanding bind contributes its
   elements in order, a literal_execute bind nothing) and every placeholder consumes its own value *)
Theorem pos_ok :
  exists ts sp, run tab lit empty_expr proc ps inp = Ok (ts, FPos (flat_map (tok_vals proc inp) (i_toks inp))) /\
                inline_spec lit empty_expr proc inp = Some sp /\
                inline ps ts (FPos (flat_map (tok_vals proc inp) (i_toks inp))) = Some sp.
Proof.
  unfold run, compile. rewrite Hnum, Hps, (positiontup_in_text_order tab inp W ps). cbn [bind c_toks c_positiontup].
  destruct (i_pc inp) eqn:HP.
  - unfold postcompile. rewrite Hps. cbn [c_toks c_positiontup].
    destruct (pc_loop tab lit empty_expr ps inp W (names_of (i_toks inp)) (names_of_order tab inp W)) as [st [E I]].
    unfold init_state in E. rewrite E. cbn [bind].
    pose proof (subst_ok tab lit empty_expr ps inp bpos st (i_toks inp)) as HS. unfold subst_fun in HS.
    rewrite HS; clear HS.
    + cbn [bind]. rewrite Hnum. cbn [bind].
      destruct (pos_tokens (names_of (i_toks inp)) st (i_toks inp) I) as [sp [S1 [S2 S3]]].
      * exact (w_bind _ _ W).
      * intros n Hn. destruct (w_pc _ _ W n Hn) as [A B]. split; [exact A|split; [exact B|]].
        unfold names_of. apply in_flat_map. exists (PC n). split; [exact Hn|left; reflexivity].
      * rewrite (v_newpos _ _ _ _ _ _ _ I), Hps, names_newpos.
        rewrite (assemble_ok _ _ _ S3). cbn [bind].
        assert (Hp' : forall n, In (PC n) (i_toks inp) -> In n order /\ kind_of inp n <> Plain /\ In n (names_of (i_toks inp))).
        { intros n Hn. destruct (w_pc _ _ W n Hn) as [A B]. split; [exact A|split; [exact B|]].
          unfold names_of. apply in_flat_map. exists (PC n). split; [exact Hn|left; reflexivity]. }
        change (dupdate (s_procs st) (i_procs inp)) with (fprocs inp st).
        rewrite (pos_tokens_vals _ st (i_toks inp) I (w_bind _ _ W) Hp') in *.
        eexists _, sp. split; [reflexivity|]. split; [exact S1|].
        unfold inline. rewrite Hnum, Hps. exact S2.
    + intro n. exact Logic.I.
    + intros n Hn. destruct (w_pc _ _ W n Hn) as [A B]. apply (v_repl_in _ _ _ _ _ _ _ I n); [|exact B].
      unfold names_of. apply in_flat_map. exists (PC n). split; [exact Hn|left; reflexivity].
  - assert (Hno : forall n, ~ In (PC n) (i_toks inp)).
    { intros n Hn. destruct (w_pc _ _ W n Hn) as [A B]. apply B. exact (has_postcompile_false tab inp n W HP A). }
    rewrite <- (no_pc_final tab lit empty_expr ps inp bpos (i_toks inp) Hno).
    destruct (pos_tokens [] (init_state inp) (i_toks inp) (Inv_init tab lit empty_expr ps inp W)) as [sp [S1 [S2 S3]]].
    + exact (w_bind _ _ W).
    + intros n Hn. exfalso. exact (Hno n Hn).
    + assert (Hn : names_of (i_toks inp) = flat_map tok_pos (i_toks inp)).
      { unfold names_of. apply flat_map_ext_in'. intros [s|n|n] Ht; cbn [tok_name tok_pos]; [reflexivity| |].
        - unfold ParamsPost.newpos_of. rewrite (proj2 (w_bind _ _ W n Ht)). reflexivity.
        - exfalso. exact (Hno n Ht). }
      rewrite Hn. unfold fprocs in S2. cbn [init_state s_params s_procs] in S3, S2. cbn [bind]. rewrite (assemble_ok _ _ _ S3). cbn [bind].
      assert (Hp' : forall n, In (PC n) (i_toks inp) -> In n order /\ kind_of inp n <> Plain /\ In n []).
      { intros n Hn'. exfalso. exact (Hno n Hn'). }
      pose proof (pos_tokens_vals _ _ (i_toks inp) (Inv_init tab lit empty_expr ps inp W) (w_bind _ _ W) Hp') as HV.
      unfold fprocs in HV. cbn [init_state s_params s_procs] in HV. rewrite HV in *.
      eexists _, sp. split; [reflexivity|]. split; [exact S1|].
      unfold inline. rewrite Hnum, Hps. exact S2.
Qed.
End PosRun.
