(* C21 - labels / aliases / bind names inside one compilation: invariants of the anonymous-name map and
   of _truncated_identifier, uniqueness, length *)
From Coq Require Import List NArith ZArith Bool Lia.
Import ListNotations.
From SAV.sql Require Import Trunc TruncDigits TruncMaxlen.

(* ---------- decidable equalities ---------- *)
Lemma str_eqb_eq : forall a b, str_eqb a b = true <-> a = b.
Proof.
  induction a as [|x a IH]; intros [|y b]; cbn; split; intro H; try discriminate; auto.
  - apply andb_true_iff in H. destruct H as [H1 H2]. apply N.eqb_eq in H1. apply IH in H2. congruence.
  - inversion H; subst. rewrite N.eqb_refl. cbn. apply IH. reflexivity.
Qed.
Lemma seg_eqb_eq : forall a b, seg_eqb a b = true <-> a = b.
Proof.
  intros [s|i s] [t|j t]; cbn; split; intro H; try discriminate.
  - apply str_eqb_eq in H. congruence.
  - inversion H; subst. apply str_eqb_eq. reflexivity.
  - apply andb_true_iff in H. destruct H as [H1 H2]. apply N.eqb_eq in H1. apply str_eqb_eq in H2. congruence.
  - inversion H; subst. rewrite N.eqb_refl. cbn. apply str_eqb_eq. reflexivity.
Qed.
Lemma tname_eqb_eq : forall a b, tname_eqb a b = true <-> a = b.
Proof.
  induction a as [|x a IH]; intros [|y b]; cbn; split; intro H; try discriminate; auto.
  - apply andb_true_iff in H. destruct H as [H1 H2]. apply seg_eqb_eq in H1. apply IH in H2. congruence.
  - inversion H; subst. apply andb_true_iff. split; [apply seg_eqb_eq|apply IH]; reflexivity.
Qed.
Lemma akey_eqb_eq : forall a b, akey_eqb a b = true <-> a = b.
Proof.
  intros [i s] [j t]. unfold akey_eqb. cbn. rewrite andb_true_iff, N.eqb_eq, str_eqb_eq.
  split; [intros [-> ->]; reflexivity|intro H; inversion H; auto].
Qed.
Lemma ckey_eqb_eq : forall a b, ckey_eqb a b = true <-> a = b.
Proof.
  intros [i s] [j t]. unfold ckey_eqb. cbn. rewrite andb_true_iff, N.eqb_eq, tname_eqb_eq.
  split; [intros [-> ->]; reflexivity|intro H; inversion H; auto].
Qed.

Lemma eqb_false_of {K} (eqb : K -> K -> bool) :
  (forall a b, eqb a b = true <-> a = b) -> forall a b, eqb a b = false <-> a <> b.
Proof.
  intros H a b. split.
  - intros E ->. assert (eqb b b = true) by (apply H; reflexivity). congruence.
  - intros N. destruct (eqb a b) eqn:E; auto. apply H in E. contradiction.
Qed.
Lemma eqb_refl_of {K} (eqb : K -> K -> bool) :
  (forall a b, eqb a b = true <-> a = b) -> forall a, eqb a a = true.
Proof. intros H a. apply H. reflexivity. Qed.

(* ---------- the anonymous-name map ---------- *)
Definition am_find (am : amap) (k : akey) : option str := assoc akey_eqb k (am_keys am).

Definition AInv (am : amap) : Prop :=
  (forall k v, am_find am k = Some v ->
     exists c, v = snd k ++ [underscore] ++ py_dec c /\ (c < am_counter am (snd k))%N)
  /\ (forall k1 k2 v, am_find am k1 = Some v -> am_find am k2 = Some v -> k1 = k2).
Definition AExt (am am' : amap) : Prop := forall k v, am_find am k = Some v -> am_find am' k = Some v.

Lemma AExt_refl : forall am, AExt am am.
Proof. intros am k v H. exact H. Qed.
Lemma AExt_trans : forall a b c, AExt a b -> AExt b c -> AExt a c.
Proof. intros a b c H1 H2 k v H. apply H2, H1, H. Qed.

Lemma AInv_init : AInv {| am_keys := []; am_ctr := [] |}.
Proof. split; intros; discriminate. Qed.

Lemma am_get_spec : forall am k am' v, AInv am -> am_get am k = (am', v) ->
  AInv am' /\ AExt am am' /\ am_find am' k = Some v.
Proof.
  intros am k am' v [I1 I2] H. unfold am_get in H.
  destruct (assoc akey_eqb k (am_keys am)) as [v0|] eqn:F.
  - inversion H; subst. repeat split; auto. apply AExt_refl.
  - inversion H; subst; clear H.
    set (c := am_counter am (snd k)).
    set (v := snd k ++ [underscore] ++ py_dec c).
    set (am' := {| am_keys := (k, v) :: am_keys am; am_ctr := (snd k, anon_counter_next c) :: am_ctr am |}).
    assert (Hfind : forall k0, am_find am' k0 = if akey_eqb k0 k then Some v else am_find am k0).
    { intros. reflexivity. }
    assert (Hctr : forall b, am_counter am' b = if str_eqb b (snd k) then (c + 1)%N else am_counter am b).
    { intros b. unfold am_counter, am'. cbn [am_ctr assoc]. destruct (str_eqb b (snd k)); reflexivity. }
    assert (Hnew : forall k0 v0, am_find am k0 = Some v0 -> v0 <> v).
    { intros k0 v0 H0 E. destruct (I1 _ _ H0) as (c0 & Hv0 & Hc0). rewrite Hv0 in E. unfold v in E.
      destruct (split_last_sep underscore (py_dec c0) (py_dec c) (snd k0) (snd k)
                  (py_dec_no_us _) (py_dec_no_us _) E) as [Eb Ed].
      apply py_dec_inj in Ed. rewrite Eb in Hc0. subst c0. unfold c in Hc0. lia. }
    split; [split|split].
    + intros k0 v0 H0. rewrite Hfind in H0. destruct (akey_eqb k0 k) eqn:E.
      * apply akey_eqb_eq in E. subst k0. inversion H0; subst v0. exists c. split; [reflexivity|].
        rewrite Hctr, (eqb_refl_of _ str_eqb_eq). lia.
      * destruct (I1 _ _ H0) as (c0 & Hv0 & Hc0). exists c0. split; [exact Hv0|].
        rewrite Hctr. destruct (str_eqb (snd k0) (snd k)) eqn:Eb; [|exact Hc0].
        apply str_eqb_eq in Eb. rewrite Eb in Hc0. fold c in Hc0. lia.
    + intros k1 k2 v0 H1 H2. rewrite Hfind in H1, H2.
      destruct (akey_eqb k1 k) eqn:E1, (akey_eqb k2 k) eqn:E2.
      * apply akey_eqb_eq in E1, E2. congruence.
      * inversion H1; subst v0. exfalso. exact (Hnew _ _ H2 eq_refl).
      * inversion H2; subst v0. exfalso. exact (Hnew _ _ H1 eq_refl).
      * eapply I2; eauto.
    + intros k0 v0 H0. rewrite Hfind. destruct (akey_eqb k0 k) eqn:E; [|exact H0].
      apply akey_eqb_eq in E. subst k0. unfold am_find in H0. congruence.
    + rewrite Hfind, (eqb_refl_of _ akey_eqb_eq). reflexivity.
Qed.

(* every anonymous key of the name has an entry *)
Definition covered (am : amap) (n : tname) : Prop :=
  forall i b, In (Anon i b) n -> am_find am (i, b) <> None.

Lemma anon_pure_ext : forall am am' n, covered am n -> AExt am am' ->
  anon_pure am' n = anon_pure am n /\ covered am' n.
Proof.
  intros am am' n Hc Hx. split.
  - induction n as [|[s|i b] r IH]; cbn [anon_pure]; auto.
    + rewrite IH; auto. intros i b Hin. apply Hc. right. exact Hin.
    + rewrite IH by (intros i' b' Hin; apply Hc; right; exact Hin).
      fold (am_find am (i, b)). fold (am_find am' (i, b)).
      destruct (am_find am (i, b)) as [v|] eqn:F.
      * rewrite (Hx _ _ F). reflexivity.
      * exfalso. apply (Hc i b); [left; reflexivity|exact F].
  - intros i b Hin F. specialize (Hc i b Hin). destruct (am_find am (i, b)) as [v|] eqn:G; [|congruence].
    rewrite (Hx _ _ G) in F. discriminate.
Qed.

Lemma apply_map_spec : forall n am am' s, AInv am -> apply_map am n = (am', s) ->
  AInv am' /\ AExt am am' /\ covered am' n /\ anon_pure am' n = s.
Proof.
  induction n as [|[l|i b] r IH]; intros am am' s HI H; cbn [apply_map] in H.
  - inversion H; subst. split; [exact HI|split; [apply AExt_refl|split; [|reflexivity]]]. intros i b [].
  - destruct (apply_map am r) as [am1 t] eqn:E. inversion H; subst.
    destruct (IH _ _ _ HI E) as (I' & X & C & P). split; [exact I'|split; [exact X|split]].
    + intros i b [Hin|Hin]; [discriminate|]. apply C. exact Hin.
    + cbn [anon_pure]. rewrite P. reflexivity.
  - destruct (am_get am (i, b)) as [am1 v] eqn:G. destruct (apply_map am1 r) as [am2 t] eqn:E.
    inversion H; subst. destruct (am_get_spec _ _ _ _ HI G) as (I1 & X1 & F1).
    destruct (IH _ _ _ I1 E) as (I2 & X2 & C & P). split; [exact I2|split; [|split]].
    + eapply AExt_trans; eauto.
    + intros i' b' [Hin|Hin].
      * inversion Hin; subst. rewrite (X2 _ _ F1). discriminate.
      * apply C. exact Hin.
    + cbn [anon_pure]. fold (am_find am' (i, b)). rewrite (X2 _ _ F1), P. reflexivity.
Qed.

(* distinct anonymous elements never get the same generated name *)
Lemma anon_names_injective : forall am k1 k2 v, AInv am ->
  am_find am k1 = Some v -> am_find am k2 = Some v -> k1 = k2.
Proof. intros am k1 k2 v [_ I2]. apply I2. Qed.

(* ---------- _truncated_identifier ---------- *)
Local Open Scope Z_scope.

Definition memo_find (st : cstate) (cls : N) (n : tname) : option str :=
  assoc ckey_eqb (cls, n) (st_memo st).
Definition too_long (ll : Z) (st : cstate) (n : tname) : bool :=
  label_too_long (slen (anon_pure (st_am st) n)) ll.

Definition entry_ok (ll : Z) (st : cstate) (cls : N) (n : tname) (out : str) : Prop :=
  covered (st_am st) n /\
  ((too_long ll st n = false /\ out = anon_pure (st_am st) n) \/
   (too_long ll st n = true /\
    exists c, (counter_start <= c < tcounter st cls)%N /\ out = truncname ll (anon_pure (st_am st) n) c)).

Fixpoint count_cls (cls : N) (m : list (ckey * str)) : N :=
  match m with
  | [] => 0%N
  | ((c, _), _) :: r => ((if N.eqb c cls then 1 else 0) + count_cls cls r)%N
  end.

Record TInv (ll : Z) (st : cstate) : Prop := {
  ti_am : AInv (st_am st);
  ti_entries : forall cls n out, memo_find st cls n = Some out -> entry_ok ll st cls n out;
  ti_uniq : forall cls n1 n2 out, memo_find st cls n1 = Some out -> memo_find st cls n2 = Some out ->
            too_long ll st n1 = true -> too_long ll st n2 = true -> n1 = n2;
  ti_ctr_lo : forall cls, (counter_start <= tcounter st cls)%N;
  ti_ctr_hi : forall cls, (tcounter st cls <= counter_start + count_cls cls (st_memo st))%N
}.

Lemma TInv_init : forall ll, TInv ll init_state.
Proof.
  intros ll. constructor.
  - apply AInv_init.
  - intros; discriminate.
  - intros; discriminate.
  - intros cls. unfold tcounter, counter_start. cbn. lia.
  - intros cls. unfold tcounter, counter_start. cbn. lia.
Qed.

Lemma label_cut_len : forall ll a, label_too_long (slen a) ll = true ->
  slen (slice_to a (label_cut ll)) = label_cut ll.
Proof.
  intros ll a H. unfold label_too_long in H. apply Z.gtb_lt in H. unfold label_cut.
  rewrite slice_to_len_nonneg by lia. pose proof (slen_nonneg a). lia.
Qed.

Lemma truncname_len : forall ll a c, label_too_long (slen a) ll = true ->
  slen (truncname ll a c) = label_cut ll + 1 + slen (hexs c).
Proof.
  intros ll a c H. unfold truncname. rewrite hex_skip_ok, !slen_app, (label_cut_len ll a H).
  unfold underscore, slen at 1. cbn [length]. lia.
Qed.

Lemma truncname_inj : forall ll a1 a2 c1 c2,
  label_too_long (slen a1) ll = true -> label_too_long (slen a2) ll = true ->
  truncname ll a1 c1 = truncname ll a2 c2 -> c1 = c2.
Proof.
  intros ll a1 a2 c1 c2 H1 H2 E. unfold truncname in E. rewrite !hex_skip_ok in E.
  apply app_inv_len in E.
  - destruct E as [_ E]. inversion E. apply hexs_inj. assumption.
  - pose proof (label_cut_len ll a1 H1). pose proof (label_cut_len ll a2 H2). unfold slen in *. lia.
Qed.

Definition memo_mono (st st' : cstate) : Prop :=
  forall cls n o, memo_find st cls n = Some o -> memo_find st' cls n = Some o.

Lemma hexs_len_pos : forall c, 1 <= slen (hexs c).
Proof. intros. unfold slen. rewrite hexs_len. pose proof (digits_len_ge1 16 c ltac:(lia)). lia. Qed.

Lemma truncated_identifier_spec : forall ll st cls n st' o, TInv ll st ->
  truncated_identifier ll st cls n = (st', o) ->
  TInv ll st' /\ memo_mono st st' /\ memo_find st' cls n = Some o
  /\ st_binds st' = st_binds st /\ st_bind_names st' = st_bind_names st
  /\ AExt (st_am st) (st_am st').
Proof.
  intros ll st cls n st' o I H. unfold truncated_identifier in H.
  destruct (assoc ckey_eqb (cls, n) (st_memo st)) as [o0|] eqn:F.
  - inversion H; subst. split; [exact I|split; [intros c m o' Hm; exact Hm|split; [exact F|split; [reflexivity|split; [reflexivity|apply AExt_refl]]]]].
  - destruct (apply_map (st_am st) n) as [am' a] eqn:A.
    destruct (apply_map_spec _ _ _ _ (ti_am _ _ I) A) as (IA & X & C & P).
    assert (Hold : forall m, covered (st_am st) m -> anon_pure am' m = anon_pure (st_am st) m /\ covered am' m).
    { intros m Hm. apply anon_pure_ext; auto. }
    destruct (label_too_long (slen a) ll) eqn:TL; inversion H; subst; clear H.
    + (* truncation branch *)
      set (c := tcounter st cls).
      set (st' := {| st_am := am'; st_memo := (cls, n, truncname ll (anon_pure am' n) c) :: st_memo st;
                     st_tctr := (cls, counter_next c) :: st_tctr st;
                     st_binds := st_binds st; st_bind_names := st_bind_names st |}).
      assert (Hfind : forall cl m, memo_find st' cl m =
                if ckey_eqb (cl, m) (cls, n) then Some (truncname ll (anon_pure am' n) c) else memo_find st cl m).
      { intros. reflexivity. }
      assert (Hctr : forall cl, tcounter st' cl = if N.eqb cl cls then (c + 1)%N else tcounter st cl).
      { intros cl. unfold tcounter, st'. cbn [st_tctr assoc]. destruct (N.eqb cl cls); reflexivity. }
      assert (Hctr_le : forall cl, (tcounter st cl <= tcounter st' cl)%N).
      { intros cl. rewrite Hctr. destruct (N.eqb cl cls) eqn:E; [apply N.eqb_eq in E; subst; fold c|]; lia. }
      assert (Holdtl : forall cl m o', memo_find st cl m = Some o' -> too_long ll st' m = too_long ll st m
                                        /\ anon_pure am' m = anon_pure (st_am st) m).
      { intros cl m o' Hm. destruct (ti_entries _ _ I _ _ _ Hm) as (Cm & _).
        destruct (Hold m Cm) as (Pm & _). unfold too_long. cbn [st_am st']. rewrite Pm. auto. }
      assert (Hmono : memo_mono st st').
      { intros cl m o' Hm. rewrite Hfind. destruct (ckey_eqb (cl, m) (cls, n)) eqn:E; [|exact Hm].
        apply ckey_eqb_eq in E. inversion E; subst. unfold memo_find in Hm. congruence. }
      split; [constructor|split; [exact Hmono|split; [|split; [reflexivity|split; [reflexivity|exact X]]]]].
      * exact IA.
      * intros cl m o' Hm. rewrite Hfind in Hm. destruct (ckey_eqb (cl, m) (cls, n)) eqn:E.
        -- apply ckey_eqb_eq in E. inversion E; subst cl m. inversion Hm; subst o'. split; [exact C|].
           right. split; [unfold too_long; exact TL|]. exists c. split; [|reflexivity].
           rewrite Hctr, N.eqb_refl. pose proof (ti_ctr_lo _ _ I cls). fold c in H. lia.
        -- destruct (ti_entries _ _ I _ _ _ Hm) as (Cm & Hcase). destruct (Hold m Cm) as (Pm & Cm').
           destruct (Holdtl _ _ _ Hm) as (Etl & _).
           split; [exact Cm'|]. cbn [st_am st']. rewrite Etl, Pm.
           destruct Hcase as [(T & ->)|(T & c0 & Hc0 & ->)]; [left; auto|right].
           split; [exact T|]. exists c0. split; [|reflexivity]. specialize (Hctr_le cl). lia.
      * intros cl m1 m2 o' H1 H2 T1 T2. rewrite Hfind in H1, H2.
        assert (Hfresh : forall m o'', memo_find st cls m = Some o'' -> too_long ll st' m = true ->
                         o'' <> truncname ll (anon_pure am' n) c).
        { intros m o'' Hm Tm Eo. destruct (ti_entries _ _ I _ _ _ Hm) as (Cm & Hcase).
          destruct (Holdtl _ _ _ Hm) as (Etl & Pm). rewrite Etl in Tm.
          destruct Hcase as [(T & _)|(T & c0 & Hc0 & ->)]; [congruence|].
          apply truncname_inj in Eo; [|exact Tm|exact TL]. fold c in Hc0. lia. }
        destruct (ckey_eqb (cl, m1) (cls, n)) eqn:E1, (ckey_eqb (cl, m2) (cls, n)) eqn:E2.
        -- apply ckey_eqb_eq in E1, E2. congruence.
        -- apply ckey_eqb_eq in E1. inversion E1; subst cl m1. inversion H1; subst o'.
           exfalso. exact (Hfresh _ _ H2 T2 eq_refl).
        -- apply ckey_eqb_eq in E2. inversion E2; subst cl m2. inversion H2; subst o'.
           exfalso. exact (Hfresh _ _ H1 T1 eq_refl).
        -- destruct (Holdtl _ _ _ H1) as (Et1 & _). destruct (Holdtl _ _ _ H2) as (Et2 & _).
           rewrite Et1 in T1. rewrite Et2 in T2. eapply (ti_uniq _ _ I); eauto.
      * intros cl. pose proof (ti_ctr_lo _ _ I cl). specialize (Hctr_le cl). lia.
      * intros cl. rewrite Hctr. cbn [st_memo st' count_cls]. pose proof (ti_ctr_hi _ _ I cl) as Hh.
        rewrite (N.eqb_sym cls cl). destruct (N.eqb cl cls) eqn:E; [apply N.eqb_eq in E; subst cl; fold c in Hh|]; lia.
      * rewrite Hfind, (eqb_refl_of _ ckey_eqb_eq). reflexivity.
    + (* the name fits *)
      set (st' := {| st_am := am'; st_memo := (cls, n, anon_pure am' n) :: st_memo st;
                     st_tctr := st_tctr st;
                     st_binds := st_binds st; st_bind_names := st_bind_names st |}).
      assert (Hfind : forall cl m, memo_find st' cl m =
                if ckey_eqb (cl, m) (cls, n) then Some (anon_pure am' n) else memo_find st cl m).
      { intros. reflexivity. }
      assert (Hctr : forall cl, tcounter st' cl = tcounter st cl) by reflexivity.
      assert (Holdtl : forall cl m o', memo_find st cl m = Some o' -> too_long ll st' m = too_long ll st m
                                        /\ anon_pure am' m = anon_pure (st_am st) m).
      { intros cl m o' Hm. destruct (ti_entries _ _ I _ _ _ Hm) as (Cm & _).
        destruct (Hold m Cm) as (Pm & _). unfold too_long. cbn [st_am st']. rewrite Pm. auto. }
      assert (Hmono : memo_mono st st').
      { intros cl m o' Hm. rewrite Hfind. destruct (ckey_eqb (cl, m) (cls, n)) eqn:E; [|exact Hm].
        apply ckey_eqb_eq in E. inversion E; subst. unfold memo_find in Hm. congruence. }
      split; [constructor|split; [exact Hmono|split; [|split; [reflexivity|split; [reflexivity|exact X]]]]].
      * exact IA.
      * intros cl m o' Hm. rewrite Hfind in Hm. destruct (ckey_eqb (cl, m) (cls, n)) eqn:E.
        -- apply ckey_eqb_eq in E. inversion E; subst cl m. inversion Hm; subst o'. split; [exact C|].
           left. split; [unfold too_long; exact TL|reflexivity].
        -- destruct (ti_entries _ _ I _ _ _ Hm) as (Cm & Hcase). destruct (Hold m Cm) as (Pm & Cm').
           destruct (Holdtl _ _ _ Hm) as (Etl & _).
           split; [exact Cm'|]. cbn [st_am st']. rewrite Etl, Pm. rewrite Hctr. exact Hcase.
      * intros cl m1 m2 o' H1 H2 T1 T2. rewrite Hfind in H1, H2.
        destruct (ckey_eqb (cl, m1) (cls, n)) eqn:E1, (ckey_eqb (cl, m2) (cls, n)) eqn:E2.
        -- apply ckey_eqb_eq in E1, E2. congruence.
        -- apply ckey_eqb_eq in E1. inversion E1; subst cl m1. unfold too_long in T1. cbn [st_am st'] in T1. congruence.
        -- apply ckey_eqb_eq in E2. inversion E2; subst cl m2. unfold too_long in T2. cbn [st_am st'] in T2. congruence.
        -- destruct (Holdtl _ _ _ H1) as (Et1 & _). destruct (Holdtl _ _ _ H2) as (Et2 & _).
           rewrite Et1 in T1. rewrite Et2 in T2. eapply (ti_uniq _ _ I); eauto.
      * intros cl. rewrite Hctr. apply (ti_ctr_lo _ _ I).
      * intros cl. rewrite Hctr. cbn [st_memo st' count_cls]. pose proof (ti_ctr_hi _ _ I cl). lia.
      * rewrite Hfind, (eqb_refl_of _ ckey_eqb_eq). reflexivity.
Qed.

(* TInv does not look at the bind dictionaries *)
Lemma TInv_same : forall ll st st', st_am st' = st_am st -> st_memo st' = st_memo st ->
  st_tctr st' = st_tctr st -> TInv ll st -> TInv ll st'.
Proof.
  intros ll st st' E1 E2 E3 I.
  assert (Hf : forall c n, memo_find st' c n = memo_find st c n) by (intros; unfold memo_find; rewrite E2; reflexivity).
  assert (Ht : forall n, too_long ll st' n = too_long ll st n) by (intros; unfold too_long; rewrite E1; reflexivity).
  assert (Hc : forall c, tcounter st' c = tcounter st c) by (intros; unfold tcounter; rewrite E3; reflexivity).
  constructor.
  - rewrite E1. apply I.
  - intros c n o H. rewrite Hf in H. destruct (ti_entries _ _ I _ _ _ H) as (C & K).
    unfold entry_ok. rewrite E1, Ht, Hc. auto.
  - intros c n1 n2 o H1 H2 T1 T2. rewrite Hf in H1, H2. rewrite Ht in T1, T2. eapply (ti_uniq _ _ I); eauto.
  - intros c. rewrite Hc. apply I.
  - intros c. rewrite Hc, E2. apply I.
Qed.

(* ---------- consequences of the invariant ---------- *)
(* two names of one class that were given the same rendered name are the same name, or are two
   different names that anonymise to the same text short enough not to be truncated *)
Lemma memo_injective : forall ll st cls n1 n2 o, TInv ll st ->
  memo_find st cls n1 = Some o -> memo_find st cls n2 = Some o ->
  n1 = n2 \/ (anon_pure (st_am st) n1 = anon_pure (st_am st) n2
              /\ slen (anon_pure (st_am st) n1) <= ll - 6).
Proof.
  intros ll st cls n1 n2 o I H1 H2.
  destruct (ti_entries _ _ I _ _ _ H1) as (_ & K1). destruct (ti_entries _ _ I _ _ _ H2) as (_ & K2).
  assert (Hmix : forall a b c, label_too_long (slen a) ll = false -> label_too_long (slen b) ll = true ->
                 a = truncname ll b c -> False).
  { intros a b c Ha Hb E. pose proof (truncname_len ll b c Hb) as L. rewrite <- E in L.
    unfold label_too_long in Ha, Hb. apply Z.gtb_lt in Hb.
    pose proof (Zgt_cases (slen a) (ll - 6)) as G. rewrite Ha in G.
    pose proof (hexs_len_pos c). unfold label_cut in L. lia. }
  destruct K1 as [(T1 & E1)|(T1 & c1 & _ & E1)], K2 as [(T2 & E2)|(T2 & c2 & _ & E2)].
  - right. split; [congruence|]. unfold too_long, label_too_long in T1.
    pose proof (Zgt_cases (slen (anon_pure (st_am st) n1)) (ll - 6)) as G. rewrite T1 in G. exact G.
  - exfalso. subst o. exact (Hmix _ _ _ T1 T2 E2).
  - exfalso. subst o. exact (Hmix _ _ _ T2 T1 (eq_sym E2)).
  - left. eapply (ti_uniq _ _ I); eauto.
Qed.

(* label_length < 6: everything is truncated, so distinct names always get distinct rendered names *)
Lemma memo_injective_small_ll : forall ll st cls n1 n2 o, TInv ll st -> ll < 6 ->
  memo_find st cls n1 = Some o -> memo_find st cls n2 = Some o -> n1 = n2.
Proof.
  intros ll st cls n1 n2 o I Hl H1 H2. destruct (memo_injective _ _ _ _ _ _ I H1 H2) as [E|(_ & L)]; auto.
  pose proof (slen_nonneg (anon_pure (st_am st) n1)). lia.
Qed.
Lemma small_ll_shape : forall ll st cls n o, TInv ll st -> ll < 6 -> memo_find st cls n = Some o ->
  exists c, (counter_start <= c)%N /\ o = [underscore] ++ hexs c.
Proof.
  intros ll st cls n o I Hl H. destruct (ti_entries _ _ I _ _ _ H) as (_ & [(T & _)|(T & c & Hc & E)]).
  - unfold too_long, label_too_long in T. pose proof (slen_nonneg (anon_pure (st_am st) n)).
    pose proof (Zgt_cases (slen (anon_pure (st_am st) n)) (ll - 6)) as G. rewrite T in G. lia.
  - exists c. split; [lia|]. subst o. unfold truncname. rewrite hex_skip_ok. unfold label_cut.
    replace (Z.max (ll - 6) 0) with 0 by lia. unfold slice_to. cbn. reflexivity.
Qed.

(* length: a rendered name of a truncatable label fits label_length as long as the per-class counter
   has at most 5 hex digits *)
Definition hex_limit : N := 1048576%N.     (* 16^5 *)
Lemma hexs_len_le5 : forall c, (c < hex_limit)%N -> slen (hexs c) <= 5.
Proof.
  intros c H. unfold slen. rewrite hexs_len.
  pose proof (digits_len_le 16 c 5 ltac:(lia) ltac:(lia) H). lia.
Qed.
Lemma hexs_len_gt5 : forall c, (hex_limit <= c)%N -> 5 < slen (hexs c).
Proof.
  intros c H. unfold slen. rewrite hexs_len.
  pose proof (digits_len_gt 16 c 5 ltac:(lia) H). lia.
Qed.

Lemma memo_len_bounded : forall ll st cls n o, TInv ll st -> 6 <= ll ->
  (tcounter st cls <= hex_limit)%N -> memo_find st cls n = Some o -> slen o <= ll.
Proof.
  intros ll st cls n o I Hl Hc H. destruct (ti_entries _ _ I _ _ _ H) as (_ & [(T & ->)|(T & c & Hcc & ->)]).
  - unfold too_long, label_too_long in T.
    pose proof (Zgt_cases (slen (anon_pure (st_am st) n)) (ll - 6)) as G. rewrite T in G. lia.
  - rewrite (truncname_len _ _ _ T). pose proof (hexs_len_le5 c ltac:(lia)). unfold label_cut. lia.
Qed.
Lemma memo_len_bounded_count : forall ll st cls n o, TInv ll st -> 6 <= ll ->
  (count_cls cls (st_memo st) < hex_limit)%N -> memo_find st cls n = Some o -> slen o <= ll.
Proof.
  intros ll st cls n o I Hl Hc H. eapply memo_len_bounded; eauto.
  pose proof (ti_ctr_hi _ _ I cls). unfold counter_start in *. lia.
Qed.
