(* C02 - execution through the compiled cache: model (definitions only).
   ClauseElement._compile_w_cache + SQLCompiler.construct_params(extracted_parameters=...) *)
From Coq Require Import List NArith ZArith Bool.
Import ListNotations.
From SAV.sql Require Import CacheKey.

Section Exec.
  Variable T : ttab.
  Variable V : vtab.
  (* the compiler: an ARBITRARY function of the execution context (dialect, column_keys,
     bool(schema_translate_map), for_executemany) and of what it can see of the statement;
     it returns the SQL text (with parameter types) and the bind parameter objects (labels) in the
     positional order of the text *)
  Variable SQL : Type.
  Variable render : atom -> ktree -> SQL * list N.

  (* a Compiled object.  [tbinds]: the BindParameter objects the compiler holds (bind_names keys);
     [torig]: cache_key[1], the extracted parameters of the statement that was compiled *)
  Record template := mkT { tsql : SQL; tholes : list N; tbinds : list bind; torig : list bind }.

  Definition compile (ctx : atom) (s : node) (orig : list bind) : template :=
    let r := render ctx (view T V s) in mkT (fst r) (snd r) (allbinds T s) orig.

  (* construct_params(extracted_parameters=extracted), positional dialect:
       resolved_extracted = {b: e for b, e in zip(orig_extracted, extracted)}
       value_param = resolved_extracted.get(bindparam, bindparam)
       pd[name] = value_param.effective_value if bindparam.callable else value_param.value *)
  Definition param_of (t : template) (extracted : list bind) (l : N) : atom :=
    match bfind l (tbinds t) with
    | None => ANone
    | Some cb =>
        let vp := match bindex l (torig t) with
                  | Some i => nth i extracted cb          (* zip stops at the shorter list *)
                  | None => cb
                  end in
        if bcall cb then beff vp else bval vp
    end.
  Definition rebind (t : template) (extracted : list bind) : list atom :=
    map (param_of t extracted) (tholes t).

  (* DefaultExecutionContext._init_compiled: ONE construct_params(m, extracted_parameters=extracted) call
     per parameter set m of the execution (a plain execution has the single empty set; an executemany
     has n >= 2).  A set may name a bind parameter of the statement ("bindparam.key in params"):
     that value wins; every other parameter is re-bound as above, in EVERY set *)
  Definition pset := list (N * atom).            (* bind parameter (label) -> value given with the execution *)
  Definition param_with (t : template) (extracted : list bind) (ps : pset) (l : N) : atom :=
    match alookup l ps with Some v => v | None => param_of t extracted l end.
  Definition rebind_many (t : template) (extracted : list bind) (sets : list pset) : list (list atom) :=
    map (fun ps => map (param_with t extracted ps) (tholes t)) sets.

  (* execution without a cache key (compiled_cache=None, or the statement is not cacheable):
     compile, then construct_params() reads the values off the statement's own objects *)
  Definition exec_direct (ctx : atom) (s : node) (sets : list pset) : SQL * list (list atom) :=
    let t := compile ctx s [] in (tsql t, rebind_many t [] sets).

  Definition ckey := (atom * ktree)%type.     (* (dialect, key, column_keys, bool(stm), executemany) *)
  Definition ckey_eqb (a b : ckey) : bool := atom_eqb (fst a) (fst b) && ktree_eqb (snd a) (snd b).
  Definition cache := list (ckey * template).
  Fixpoint clookup (k : ckey) (c : cache) : option template :=
    match c with [] => None | (k', t) :: r => if ckey_eqb k' k then Some t else clookup k r end.

  (* one execution.  [enabled]: compiled_cache is not None;  [evict]: which keys the cache drops
     after the insertion (LRUCache._manage_size is one such choice) *)
  Record step := mkStep { s_ctx : atom; s_stmt : node; s_enabled : bool; s_evict : ckey -> bool;
                          s_sets : list pset }.

  Definition exec_cached (c : cache) (x : step) : (SQL * list (list atom)) * cache :=
    match (if s_enabled x then gen_key T (s_stmt x) else None) with
    | None => (exec_direct (s_ctx x) (s_stmt x) (s_sets x), c)
    | Some (k, extracted) =>
        match clookup (s_ctx x, k) c with
        | Some t => ((tsql t, rebind_many t extracted (s_sets x)), c)              (* CACHE_HIT *)
        | None =>
            let t := compile (s_ctx x) (s_stmt x) extracted in                    (* CACHE_MISS *)
            ((tsql t, rebind_many t extracted (s_sets x)),
             filter (fun e => negb (s_evict x (fst e))) (((s_ctx x, k), t) :: c))
        end
    end.

  Fixpoint run (c : cache) (h : list step) : list (SQL * list (list atom)) * cache :=
    match h with
    | [] => ([], c)
    | x :: r => let o := exec_cached c x in
                let o' := run (snd o) r in (fst o :: fst o', snd o')
    end.
End Exec.
