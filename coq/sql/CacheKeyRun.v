(* C02 - runner: decodes a case tree, runs the model with the regenerated tables, encodes the observation.
     [0, s1, s2]                       pair: cacheable?, keys equal?, wf, traversal order, extracted binds
     [1, capacity, stmts, steps]       history against one LRU cache: hit/miss/direct + parameters per step
   node  = [lbl, cls, [attr + 1000 * (2 * aid + truthy) ...], [[attr, [node ...]] ...]]
   step  = [ctx, stmt index, enabled, [hole label ...], [[[label, aid] ...] ...]]
           (holes: positiontup of the compilation the implementation performed at that step, as labels of
            the statement's bind parameters; last: the parameter sets of the execution - one empty set for a
            plain execution - restricted to the statement's own bind parameters)
     [2, skipmode, args1, args2]       type static cache key of two instances of one type class
   args  = [[present, aid, truthy] ...] per constructor argument name *)
From Coq Require Import List NArith ZArith Bool.
Import ListNotations.
From SAV.base Require Import Tree.
From SAV.sql Require Import CacheKey CacheExec CacheKeyTypes.
Open Scope Z_scope.

Record tabs := mkTabs { tT : ttab; tV : vtab; tG : list (N * N); tSkip : skipmode }.

(* a plain-valued attribute is packed into one integer: attr + 1000 * (2 * aid + truthy); None-valued
   attributes are simply left out *)
Definition dec_atomf (t : tree) : option (N * atom) :=
  match t with
  | I z => if 0 <=? z then Some (Z.to_N (z mod 1000), mkA (z / 2000) (Z.odd (z / 1000))) else None
  | _ => None
  end.
Fixpoint dec_node (t : tree) : option node :=
  match t with
  | L [l; c; L ats; L ks] =>
      match as_N l, as_N c, all_some (map dec_atomf ats),
            all_some (map (fun kt => match kt with
                                     | L [a; L ns] =>
                                         match as_N a, all_some (map dec_node ns) with
                                         | Some a', Some ns' => Some (a', ns') | _, _ => None end
                                     | _ => None end) ks) with
      | Some l', Some c', Some ats', Some ks' => Some (Node l' c' ats' ks')
      | _, _, _, _ => None
      end
  | _ => None
  end.

Definition enc_bind (b : bind) : tree := L [of_N (blbl b); I (aid (bval b)); of_bool (bcall b); I (aid (beff b))].

(* labels were assigned by the implementation's anon_map: the model must meet new objects in
   increasing label order, and never an object the implementation did not visit (those are numbered
   from 1000000; tuple / dict-entry pseudo objects from 2000000) *)
Fixpoint increasing (l : list N) : bool :=
  match l with
  | a :: ((b :: _) as r) => N.ltb a b && increasing r
  | _ => true
  end.
Definition order_ok (st : kstate) : bool :=
  increasing (filter (fun l => N.ltb l 1000000) (rev (seen st))) &&
  forallb (fun l => N.ltb l 1000000 || N.leb 2000000 l) (seen st).

Definition run_pair (tb : tabs) (s1 s2 : node) : tree :=
  let r1 := key (tT tb) s1 st0 in
  let r2 := key (tT tb) s2 st0 in
  let one (r : kres) (s : node) :=
      match r with
      | None => L [I 0; I 1; I 1; L []]
      | Some (_, st) => L [I 1; of_bool (wf (tT tb) s); of_bool (order_ok st); L (map enc_bind (binds st))]
      end in
  L [one r1 s1; one r2 s2;
     of_bool (match r1, r2 with Some (k1, _), Some (k2, _) => ktree_eqb k1 k2 | _, _ => false end)].

(* ---- LRUCache bookkeeping (util/_collections.py): counters per key; after an insertion, while
        len > capacity + capacity * 0.5: keep the [capacity] most recently used keys ---- *)
Definition lru := list (ckey * Z).
Fixpoint touch (k : ckey) (n : Z) (l : lru) : lru :=
  match l with
  | [] => []
  | (k', c) :: r => if ckey_eqb k' k then (k', n) :: r else (k', c) :: touch k n r
  end.
Fixpoint insert_desc (x : ckey * Z) (l : lru) : lru :=
  match l with
  | [] => [x]
  | y :: r => if snd y <=? snd x then x :: l else y :: insert_desc x r
  end.
Definition keepers (cap : Z) (l : lru) : list ckey :=
  if (2 * Z.of_nat (length l) >? 3 * cap) then map fst (firstn (Z.to_nat cap) (fold_right insert_desc [] l))
  else map fst l.

Definition dec_pset (t : tree) : option pset :=
  as_list_of (fun e => match e with
                       | L [l; v] => match as_N l, as_Z v with
                                     | Some l', Some v' => Some (l', mkA v' true) | _, _ => None end
                       | _ => None end) t.
Definition dec_step (t : tree) : option (atom * nat * bool * list N * list pset) :=
  match t with
  | L [c; i; e; hs; sets] =>
      match as_Z c, as_nat i, as_bool e, as_list_of as_N hs, as_list_of dec_pset sets with
      | Some c', Some i', Some e', Some hs', Some sets' => Some (mkA c' true, i', e', hs', sets')
      | _, _, _, _, _ => None end
  | _ => None
  end.

Fixpoint run_hist (tb : tabs) (cap : Z) (stmts : list node) (steps : list (atom * nat * bool * list N * list pset))
                  (c : cache unit) (l : lru) (n : Z) : list tree :=
  match steps with
  | [] => []
  | (ctx, i, en, holes, sets) :: r =>
      match nth_error stmts i with
      | None => [bad_input]
      | Some s =>
          let render := fun (_ : atom) (_ : ktree) => (tt, holes) in
          let kk := if en then gen_key (tT tb) s else None in
          let hit := match kk with
                     | None => 2
                     | Some (k, _) => match clookup unit (ctx, k) c with Some _ => 1 | None => 0 end
                     end in
          (* LRU: get() touches on a hit; __setitem__ stamps the new entry, then _manage_size *)
          let '(l1, n1) := match kk with
                           | None => (l, n)
                           | Some (k, _) =>
                               if Z.eqb hit 1 then (touch (ctx, k) (n + 1) l, n + 1)
                               else (l ++ [((ctx, k), n + 1)], n + 1)     (* a failed get() does not count *)
                           end in
          let keep := keepers cap l1 in
          let ev := fun k => negb (existsb (ckey_eqb k) keep) in
          let o := exec_cached (tT tb) (tV tb) unit render c (mkStep ctx s en ev sets) in
          let l2 := filter (fun e => existsb (ckey_eqb (fst e)) keep) l1 in
          L [I hit; L (map (fun vs => L (map (fun a => I (aid a)) vs)) (snd (fst o)))] :: run_hist tb cap stmts r (snd o) l2 n1
      end
  end.

Definition dec_targs (t : tree) : option (list targ) :=
  as_list_of (fun e => match e with
                       | L [p; i; b] => match as_bool p, as_Z i, as_bool b with
                                        | Some p', Some i', Some b' => Some (mkArg p' (mkA i' b')) | _, _, _ => None end
                       | _ => None end) t.

Definition run_with (tb : tabs) (t : tree) : tree :=
  match t with
  | L [I 2; a; b] =>
      match dec_targs a, dec_targs b with
      | Some x, Some y => of_bool (tkey_eqb (tkey (tSkip tb) x) (tkey (tSkip tb) y))
      | _, _ => bad_input
      end
  | L [I 0; a; b] =>
      match dec_node a, dec_node b with
      | Some s1, Some s2 => run_pair tb s1 s2
      | _, _ => bad_input
      end
  | L [I 1; I cap; L ss; L sts] =>
      match all_some (map dec_node ss), all_some (map dec_step sts) with
      | Some stmts, Some steps => L (run_hist tb cap stmts steps [] [] 0)
      | _, _ => bad_input
      end
  | _ => bad_input
  end.
