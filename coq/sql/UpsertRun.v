(* executable entry point for the correspondence check of C56 *)
From Coq Require Import List ZArith Bool.
Import ListNotations.
From SAV.base Require Import Tree.
From SAV.sql Require Import Upsert UpsertAsm UpsertParse.

Definition obind {A B} (o : option A) (f : A -> option B) : option B :=
  match o with Some a => f a | None => None end.

Definition d_atom (t : tree) : option atom :=
  match t with
  | L [I 0; b; I z] => obind (as_bool b) (fun b => Some (AConst b z))
  | L [I 1] => Some ANull
  | L [I 2; i] => obind (as_nat i) (fun i => Some (ACol i))
  | L [I 3; i] => obind (as_nat i) (fun i => Some (AExc i))
  | L [I 4; i] => obind (as_nat i) (fun i => Some (APar i))   (* bindparam(name) *)
  | L [I 5; i] => obind (as_nat i) (fun i => Some (APar i))   (* bindparam(name, None): same to the compiler *)
  | L [I 6; i] => obind (as_nat i) (fun i => Some (APar i))   (* bindparam(name, default) supplied by every parameter set *)
  | _ => None
  end.
Definition d_expr (t : tree) : option expr :=
  match t with
  | L [I 0; a] => obind (d_atom a) (fun a => Some (EAtom a))
  | L [I 1; a; b] => obind (d_atom a) (fun a => obind (d_atom b) (fun b => Some (EAdd a b)))
  | _ => None
  end.
Definition d_cmp (t : tree) : option cmp :=
  match t with I 0 => Some CLt | I 1 => Some CEq | I 2 => Some CGt | _ => None end.
Definition d_pred (t : tree) : option pred :=
  match t with
  | L [c; l; r] =>
      obind (d_cmp c) (fun c => obind (d_expr l) (fun l => obind (d_expr r) (fun r => Some (Pred c l r))))
  | _ => None
  end.
Definition d_opt {A} (f : tree -> option A) (t : tree) : option (option A) :=
  match t with
  | L [] => Some None
  | L [x] => obind (f x) (fun x => Some (Some x))
  | _ => None
  end.
Definition d_col (t : tree) : option coldesc :=
  match t with L [I k; I n] => Some (mkcol k n) | _ => None end.
Definition d_ix (t : tree) : option uindex :=
  match t with
  | L [I n; cs; p] =>
      obind (as_list_of as_nat cs) (fun cs => obind (d_opt d_pred p) (fun p => Some (mkix n cs p)))
  | _ => None
  end.
Definition d_skey (t : tree) : option skey :=
  match t with
  | L [I 0; I s] => Some (KStr s)
  | L [I 1; i] => obind (as_nat i) (fun i => Some (KCol i))
  | _ => None
  end.
Definition d_telem (t : tree) : option telem :=
  match t with
  | L [I 0; I s] => Some (TEStr s)
  | L [I 1; i] => obind (as_nat i) (fun i => Some (TECol i))
  | _ => None
  end.
Definition d_target (t : tree) : option sa_target :=
  match t with
  | L [I 0] => Some STNone
  | L [I 1; e; w] =>
      obind (as_list_of d_telem e) (fun e => obind (d_opt d_pred w) (fun w => Some (STElems e w)))
  | L [I 2; I n] => Some (STConstraint n)
  | _ => None
  end.
Definition d_clause (t : tree) : option sa_clause :=
  match t with
  | L [I 0; tg] => obind (d_target tg) (fun tg => Some (SANothing tg))
  | L [I 1; tg; s; w] =>
      obind (d_target tg) (fun tg =>
      obind (as_list_of (as_pair_of d_skey d_expr) s) (fun s =>
      obind (d_opt d_pred w) (fun w => Some (SAUpdate tg s w))))
  | _ => None
  end.
Definition d_row (t : tree) : option row := as_list_of as_optZ t.
Definition d_prow (t : tree) : option prow := as_pair_of d_row d_row t.

(* ---- encoders ---- *)
Definition kw_code (k : kw) : Z :=
  match k with
  | KON => 0 | KCONFLICT => 1 | KDO => 2 | KNOTHING => 3 | KUPDATE => 4 | KSET => 5 | KWHERE => 6
  | KNULL => 7 | KCONSTRAINT => 8 | KDUPLICATE => 9 | KKEY => 10 | KVALUES => 11 | KAS => 12
  end%Z.
Definition e_tok (t : tok) : tree :=
  match t with
  | TKw k => L [I 0; I (kw_code k)]
  | TId n => L [I 1; I n]
  | TNum z => L [I 2; I z]
  | TPar k => L [I 3; of_nat k]
  | TLp => L [I 4] | TRp => L [I 5] | TComma => L [I 6] | TDot => L [I 7]
  | TEq => L [I 8] | TLt => L [I 9] | TGt => L [I 10] | TPlus => L [I 11]
  end.
Definition e_row (r : row) : tree := of_list of_optZ r.

(* canonical order of rows: lexicographic, NULL first *)
Definition val_leb (a b : option Z) : bool :=
  match a, b with
  | None, _ => true
  | Some _, None => false
  | Some x, Some y => Z.leb x y
  end.
Definition val_eqb (a b : option Z) : bool :=
  match a, b with
  | None, None => true
  | Some x, Some y => Z.eqb x y
  | _, _ => false
  end.
Fixpoint row_leb (a b : row) : bool :=
  match a, b with
  | [], _ => true
  | _ :: _, [] => false
  | x :: a', y :: b' => if val_eqb x y then row_leb a' b' else val_leb x y
  end.
Fixpoint ins_row (r : row) (l : list row) : list row :=
  match l with
  | [] => [r]
  | x :: l' => if row_leb r x then r :: l else x :: ins_row r l'
  end.
Definition sort_rows (l : list row) : list row := fold_right ins_row [] l.

Definition err_code (e : err) : Z :=
  match e with EIntegrity => 1 | EOperational => 2 | EInvalidRequest => 3 end%Z.

Definition e_result (returning sorted : bool) (r : res (table * list row)) : tree :=
  match r with
  | Err e => L [I 1; I (err_code e)]
  | Ok (t, rs) =>
      L [I 0; of_list e_row (sort_rows t);
         of_list e_row (if returning then (if sorted then rs else sort_rows rs) else [])]
  end.

Definition idf (l : list row) : list row := l.

(* does the clause text mention bindparam number k *)
Definition atom_uses (k : nat) (a : atom) : bool := match a with APar j => Nat.eqb k j | _ => false end.
Definition expr_uses (k : nat) (e : expr) : bool :=
  match e with EAtom a => atom_uses k a | EAdd a b => atom_uses k a || atom_uses k b end.
Definition pred_uses (k : nat) (p : pred) : bool :=
  match p with Pred _ l r => expr_uses k l || expr_uses k r end.
Definition clause_uses (k : nat) (c : sa_clause) : bool :=
  match c with
  | SANothing _ => false
  | SAUpdate _ s w =>
      existsb (fun kv => expr_uses k (snd kv)) s || match w with Some p => pred_uses k p | None => false end
  end.

(* input   L [I 0; lit_exec; cols; indexes; clauses; returning; sorted; page; table; params]   execute (SQLite/PG rules)
           L [I 6; sqlite; cols; indexes; [clauses ...]; returning; sorted; page; table; params]  sequence on one engine
           L [I 1; dialect; cols; clauses]                              render ON CONFLICT clauses (0 sqlite, 1 postgresql)
           L [I 2; cols; alias; ordered; update]                        render ON DUPLICATE KEY UPDATE
           L [I 5; embed; clauses; returning; sorted; page; params]     the statements of an executemany: size and effective bindparams
           L [I 4; sorted; has_result; sentinel_none; upsert; embed; has_set_bp]  batching decision *)
Definition run_case (t : tree) : tree :=
  match t with
  | L [I 0; le; cs; ixs; sa; ret; srt; pg; tb; ps] =>
      match as_bool le, as_list_of d_col cs, as_list_of d_ix ixs, as_list_of d_clause sa,
            as_bool ret, as_bool srt, as_nat pg, as_list_of d_row tb, as_list_of d_prow ps with
      | Some le, Some cs, Some ixs, Some sa, Some ret, Some srt, Some pg, Some tb, Some ps =>
          e_result ret srt (exec_impl idf le false cs ixs sa ret srt pg tb ps)
      | _, _, _, _, _, _, _, _, _ => bad_input
      end
  | L [I 6; le; cs; ixs; sas; ret; srt; pg; tb; ps] =>
      (* a SEQUENCE of statements (same table contents and parameters each time): the compiled cache of the
         engine must not make a statement behave like an earlier one - the model has no cache *)
      match as_bool le, as_list_of d_col cs, as_list_of d_ix ixs, as_list_of (as_list_of d_clause) sas,
            as_bool ret, as_bool srt, as_nat pg, as_list_of d_row tb, as_list_of d_prow ps with
      | Some le, Some cs, Some ixs, Some sas, Some ret, Some srt, Some pg, Some tb, Some ps =>
          L (map (fun sa => e_result ret srt (exec_impl idf le false cs ixs sa ret srt pg tb ps)) sas)
      | _, _, _, _, _, _, _, _, _ => bad_input
      end
  | L [I 1; I _; cs; sa] =>
      match as_list_of d_col cs, as_list_of d_clause sa with
      | Some cs, Some sa =>
          if chain_ok sa then L [I 0; of_list e_tok (r_clauses cs (map (asm_clause cs) sa))]
          else L [I 1; I 3]
      | _, _ => bad_input
      end
  | L [I 2; cs; al; od; upd] =>
      match as_list_of d_col cs, as_bool al, as_bool od, as_list_of (as_pair_of as_Z d_expr) upd with
      | Some cs, Some al, Some od, Some upd => L [I 0; of_list e_tok (r_mysql cs al (my_asm cs od upd))]
      | _, _, _, _ => bad_input
      end
  | L [I 5; em; sa; ret; srt; pg; ps] =>
      match as_bool em, as_list_of d_clause sa, as_bool ret, as_bool srt, as_nat pg, as_list_of d_prow ps with
      | Some em, Some sa, Some ret, Some srt, Some pg, Some ps =>
          of_list (fun x => L [of_nat (fst x);
                               e_row (map (fun k => if existsb (clause_uses k) sa then getv (snd x) k else None)
                                          [0%nat; 1%nat])])
                  (plan_view false em ret srt pg sa ps)
      | _, _, _, _, _, _ => bad_input
      end
  | L [I 4; a; b; c; d; e; f] =>
      match as_bool a, as_bool b, as_bool c, as_bool d, as_bool e, as_bool f with
      | Some a, Some b, Some c, Some d, Some e, Some f => of_bool (use_row_at_a_time a b c d e f)
      | _, _, _, _, _, _ => bad_input
      end
  | _ => bad_input
  end.
