(* C02 - proofs, part 2: the extracted bind parameters line up with the key *)
From Coq Require Import List NArith ZArith Bool Lia.
Import ListNotations.
From SAV.sql Require Import CacheKey CacheKeyProofs.

Section Binds.
  Variable T : ttab.
  Definition labels (st : kstate) : list N := map blbl (binds st).
  (* a key generator appends to bindparams exactly the bind parameters its key mentions, in key order *)
  Definition KOK (f : kfun) : Prop :=
    forall st k st', f st = Some (k, st') -> labels st' = labels st ++ kbl T k.

  Lemma run_list_ok : forall fs, Forall KOK fs -> forall st ks st',
    run_list fs st = Some (ks, st') -> labels st' = labels st ++ flat_map (kbl T) ks.
  Proof.
    induction 1 as [|f r Hf Hr IH]; intros st ks st' H; cbn in H.
    - inversion H; subst. cbn. rewrite app_nil_r; reflexivity.
    - destruct (f st) as [[k st1]|] eqn:E1; [|discriminate].
      destruct (run_list r st1) as [[ks2 st2]|] eqn:E2; [|discriminate].
      inversion H; subst. cbn. rewrite (IH _ _ _ E2), (Hf _ _ _ E1), app_assoc. reflexivity.
  Qed.

  Lemma run_kids_ok : forall (kf : list (N * list kfun)), (forall a, Forall KOK (kget a kf)) ->
    forall fs st kk st', run_kids fs kf st = Some (kk, st') ->
    labels st' = labels st ++ flat_map (fun p => flat_map (kbl T) (snd p)) kk.
  Proof.
    intros kf Hkf. induction fs as [|[a sh] r IH]; intros st kk st' H; cbn in H.
    - inversion H; subst. cbn. rewrite app_nil_r; reflexivity.
    - assert (forall st kk st',
                match kget a kf with
                | [] => run_kids r kf st
                | l => match run_list l st with
                       | None => None
                       | Some (ks, st1) => match run_kids r kf st1 with
                                           | None => None
                                           | Some (rest, st2) => Some ((a, ks) :: rest, st2)
                                           end
                       end
                end = Some (kk, st') ->
                labels st' = labels st ++ flat_map (fun p => flat_map (kbl T) (snd p)) kk) as Hgo.
      { clear H st kk st'. intros st kk st' H. specialize (Hkf a).
        destruct (kget a kf) as [|f l] eqn:El; [apply IH, H|].
        destruct (run_list (f :: l) st) as [[ks st1]|] eqn:E1; [|discriminate].
        destruct (run_kids r kf st1) as [[rest st2]|] eqn:E2; [|discriminate].
        inversion H; subst. cbn [flat_map snd].
        rewrite (IH _ _ _ E2), (run_list_ok _ Hkf _ _ _ E1), app_assoc. reflexivity. }
      destruct sh; try (apply IH, H); apply Hgo, H.
  Qed.

  Lemma key_body_ok : forall lbl cls atoms kf, (forall a, Forall KOK (kget a kf)) ->
    KOK (key_body T lbl cls atoms kf).
  Proof.
    intros lbl cls atoms kf Hkf st k st' H. unfold key_body in H.
    destruct (ck (tget T cls)) eqn:Ek; [| |discriminate].
    - destruct (memN lbl (seen st)).
      + inversion H; subst. cbn. rewrite app_nil_r; reflexivity.
      + destruct (nocache_hit (cfields (tget T cls)) atoms kf); [discriminate|].
        match type of H with match run_kids _ _ ?s1 with _ => _ end = _ => set (st1 := s1) in * end.
        destruct (run_kids (cfields (tget T cls)) kf st1) as [[kk st2]|] eqn:E; [|discriminate].
        inversion H; subst k st'. rewrite (run_kids_ok kf Hkf _ _ _ _ E).
        cbn [kbl]. unfold labels, st1; cbn [binds].
        destruct (cbind (tget T cls)).
        * rewrite map_app. cbn. rewrite <- app_assoc. reflexivity.
        * reflexivity.
    - inversion H; subst. cbn. rewrite app_nil_r; reflexivity.
  Qed.

  Theorem key_ok : forall n, KOK (key T n).
  Proof.
    induction n as [lbl cls atoms kids IH] using node_ind'. cbn [key].
    apply key_body_ok. intro a. rewrite (kget_map (key T)).
    apply Forall_forall. intros f Hf. apply in_map_iff in Hf as [x [<- Hx]].
    unfold kget in Hx. destruct (alookup a kids) as [l|] eqn:El; [|contradiction].
    apply alookup_In in El. rewrite Forall_forall in IH. specialize (IH _ El). cbn in IH.
    rewrite Forall_forall in IH. exact (IH _ Hx).
  Qed.

  (* the labels of the extracted parameters are a function of the key alone *)
  Theorem gen_key_labels : forall s k bs, gen_key T s = Some (k, bs) -> map blbl bs = kbl T k.
  Proof.
    intros s k bs H. unfold gen_key in H. destruct (key T s st0) as [[k' st]|] eqn:E; [|discriminate].
    inversion H; subst. exact (key_ok s _ _ _ E).
  Qed.
End Binds.

(* restricting a projection to V does not invent bind parameters *)
Lemma kbl_restrict : forall T V p, incl (kbl T (restrict V p)) (kbl T p).
Proof.
  intros T V. induction p as [l c ka kk IH | l c | a] using ktree_ind'; cbn [restrict kbl]; try (intros x Hx; exact Hx).
  apply incl_app_app; [apply incl_refl|].
  intros x Hx. apply in_flat_map in Hx as [[a ks] [Hp Hx]]. cbn [snd] in Hx.
  apply in_flat_map in Hp as [a' [Ha' Hp]].
  rewrite (kget_map (restrict V)) in Hp.
  destruct (map (restrict V) (kget a' kk)) as [|y ys] eqn:Em; [contradiction|].
  destruct Hp as [Hp|[]]. inversion Hp; subst a ks. rewrite <- Em in Hx.
  apply in_flat_map in Hx as [r [Hr Hx]]. apply in_map_iff in Hr as [q [<- Hq]].
  unfold kget in Hq. destruct (alookup a' kk) as [lq|] eqn:El; [|contradiction].
  apply alookup_In in El. apply in_flat_map. exists (a', lq). split; [exact El|]. cbn [snd].
  apply in_flat_map. exists q. split; [exact Hq|].
  rewrite Forall_forall in IH. specialize (IH _ El). cbn in IH. rewrite Forall_forall in IH.
  exact (IH _ Hq _ Hx).
Qed.
