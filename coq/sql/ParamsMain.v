(* C04 - the statements used by props/C04.v *)
From Coq Require Import List NArith ZArith Bool Lia.
Import ListNotations.
From SAV.sql Require Import Params ParamsDict ParamsEscape ParamsGuard ParamsPost ParamsInline ParamsFinal
  ParamsNamed ParamsPos ParamsNum ParamsRun.

(* bindname_escape_characters as of the pinned source; Gen_C04_obl.v proves the live table equal to it *)
Definition sa_tab : list (N * N) :=
  [(37, 80); (40, 65); (41, 90); (58, 67); (46, 95); (91, 95); (93, 95); (32, 95)]%N.

Lemma style_cases : forall ps,
  positional ps = false \/ (positional ps = true /\ numeric ps = false) \/ numeric ps = true.
Proof. destruct ps; cbn; tauto. Qed.

Theorem all_styles : forall tab lit empty_expr proc ps inp, guard tab inp = true ->
  exists ts fp sp, run tab lit empty_expr proc ps inp = Ok (ts, fp) /\
                   inline_spec lit empty_expr proc inp = Some sp /\ inline ps ts fp = Some sp.
Proof.
  intros tab lit empty_expr proc ps inp G. apply guard_wf in G.
  destruct (style_cases ps) as [H|[[H1 H2]|H]].
  - exact (named_ok tab lit empty_expr proc ps inp G H).
  - destruct (pos_ok tab lit empty_expr proc ps inp G H1 H2) as [ts [sp [A [B C]]]]. eexists _, _, sp. eauto.
  - exact (num_ok tab lit empty_expr proc ps inp G H).
Qed.

Theorem positional_sequence : forall tab lit empty_expr proc ps inp, guard tab inp = true ->
  positional ps = true -> numeric ps = false ->
  exists ts, run tab lit empty_expr proc ps inp = Ok (ts, FPos (flat_map (tok_vals proc inp) (i_toks inp))).
Proof.
  intros tab lit empty_expr proc ps inp G H1 H2. apply guard_wf in G.
  destruct (pos_ok tab lit empty_expr proc ps inp G H1 H2) as [ts [sp [A _]]]. exists ts. exact A.
Qed.

Theorem positiontup_text_order : forall tab ps inp, guard tab inp = true ->
  process_positional (ebn_of tab (i_order inp)) (carrier tab ps (i_toks inp)) =
  Ok (map (ctok tab ps (fun _ => OPos)) (i_toks inp), names_of (i_toks inp)).
Proof. intros tab ps inp G. apply guard_wf in G. exact (positiontup_in_text_order tab inp G ps). Qed.

(* _process_numeric: positiontup lists every bind once; the plain binds among it are numbered 1..n in that
   order (so the numbers are a bijection onto 1..n) and next_numeric_pos = n + 1 *)
Theorem numeric_is_permutation : forall tab ps inp, guard tab inp = true ->
  exists ptup,
    let plain := filter (fun n => is_plain (kind_of inp n)) ptup in
    process_numeric inp (ebn_of tab (i_order inp)) (carrier tab ps (i_toks inp)) =
      Ok (map (ctok tab ps (fun n => ONum (1 + N.of_nat (index_of n plain)))) (i_toks inp),
          ptup, (1 + N.of_nat (length plain))%N) /\
    NoDup ptup /\ (forall k, In k ptup <-> In k (i_order inp)).
Proof.
  intros tab ps inp G. apply guard_wf in G. exists (keys (npp inp)). cbv zeta.
  rewrite (process_numeric_ok tab ps inp G). split; [|split].
  - f_equal. f_equal; [f_equal|].
    + apply map_ext_in. intros [s|n|n] Ht; cbn [ctok]; try reflexivity.
      destruct (w_bind _ _ G n Ht) as [Hn K].
      destruct (num_plain inp n (proj2 (P_In inp n) (conj Hn K))) as [_ E]. rewrite E. reflexivity.
    + exact (n_next _ _ _ (nI inp)).
  - exact (n_nodup _ _ _ (nI inp)).
  - exact (npp_keys inp).
Qed.

(* reverse_escape o escape = id on the binds of the statement *)
Theorem reverse_escape_id : forall tab inp, guard tab inp = true ->
  forall n, In n (i_order inp) ->
  dget_or_key (reverse_dict (ebn_of tab (i_order inp))) (dget_or_key (ebn_of tab (i_order inp)) n) = n.
Proof.
  intros tab inp G n Hn. apply guard_wf in G. rewrite (ebn_get_or_key_in tab _ _ Hn).
  exact (reverse_escape_escape tab inp G n Hn).
Qed.

(* the assertion len(escaped_bind_names) == len(reverse_escape) of _process_positional holds *)
Theorem escape_assertion_holds : forall tab inp, guard tab inp = true ->
  length (reverse_dict (ebn_of tab (i_order inp))) = length (ebn_of tab (i_order inp)).
Proof.
  intros tab inp G. apply guard_wf in G.
  rewrite (reverse_dict_inj _ (ebn_values_nodup tab inp G)). apply map_length.
Qed.

(* ---- witnesses outside the guard ---- *)
Definition s (l : list N) : str := l.
Definition n_a_dot_b : name := [97; 46; 98]%N.     (* a.b *)
Definition n_a_sp_b : name := [97; 32; 98]%N.      (* a b *)
Definition n_a_us_b : name := [97; 95; 98]%N.      (* a_b *)
Definition n_x : name := [120]%N.                  (* x *)
Definition n_x_1 : name := [120; 95; 49]%N.        (* x_1 *)
Definition t_eq : str := [32; 61; 32]%N.           (* " = " *)
Definition t_and : str := [32; 65; 78; 68; 32]%N.  (* " AND " *)
Definition t_in : str := [32; 73; 78; 32; 40]%N.   (* " IN (" *)
Definition t_close : str := [41]%N.

(* two binds whose names collide after escaping: "a.b" = 1 and "a b" = 2 *)
Definition w_esc : input :=
  {| i_toks := [Bind n_a_dot_b; Txt t_and; Bind n_a_sp_b];
     i_order := [n_a_dot_b; n_a_sp_b];
     i_kind := [(n_a_dot_b, Plain); (n_a_sp_b, Plain)];
     i_values := None;
     i_params := [(n_a_dot_b, PS 1); (n_a_sp_b, PS 2)]; i_pc := false; i_procs := [] |}.
(* "a.b" = 1 and "a_b" = 2: only one of them needs escaping, the assertion of _process_positional passes *)
Definition w_esc2 : input :=
  {| i_toks := [Bind n_a_dot_b; Txt t_and; Bind n_a_us_b];
     i_order := [n_a_dot_b; n_a_us_b];
     i_kind := [(n_a_dot_b, Plain); (n_a_us_b, Plain)];
     i_values := None;
     i_params := [(n_a_dot_b, PS 1); (n_a_us_b, PS 2)]; i_pc := false; i_procs := [] |}.
(* an expanding bind "x" = [1; 2] next to a bind called "x_1" = 7 *)
Definition w_exp : input :=
  {| i_toks := [Txt t_in; PC n_x; Txt t_close; Txt t_and; Bind n_x_1];
     i_order := [n_x; n_x_1];
     i_kind := [(n_x, Expand); (n_x_1, Plain)];
     i_values := None;
     i_params := [(n_x, PL [1; 2]%Z); (n_x_1, PS 7)]; i_pc := true; i_procs := [] |}.
(* a literal_execute bind whose name needs escaping: "a b" = 5 *)
Definition w_lit : input :=
  {| i_toks := [Txt t_eq; PC n_a_sp_b];
     i_order := [n_a_sp_b];
     i_kind := [(n_a_sp_b, LitExec)];
     i_values := None;
     i_params := [(n_a_sp_b, PS 5)]; i_pc := true; i_procs := [] |}.
(* two binds called "p", the first ordinary, the second (the one left in compiler.binds) literal_execute *)
Definition w_mix : input :=
  {| i_toks := [Bind [112]%N; Txt t_and; PC [112]%N];
     i_order := [[112]%N; [112]%N];
     i_kind := [([112]%N, LitExec)];
     i_values := None;
     i_params := [([112]%N, PS 3)]; i_pc := true; i_procs := [] |}.
Definition empty0 : str := [48]%N.

Definition delivered (ps : style) (inp : input) : result (option (list rchar)) :=
  match run sa_tab lit_dec empty0 run_proc ps inp with
  | Ok (ts, fp) => Ok (inline ps ts fp)
  | Raise e => Raise e
  end.
Definition styles6 : list style := [Qmark; Format; Numeric; NumericDollar; Named; Pyformat].

(* a statement inside the guard that uses everything: escaped names, a repeated bind, an expanding bind (also
   empty), a literal_execute bind, insertmanyvalues ordering *)
Definition n_p : name := [112]%N.
Definition n_le : name := [108; 101]%N.
Definition n_e : name := [101]%N.
Definition ex_good : input :=
  {| i_toks := [Txt t_eq; Bind n_a_sp_b; Txt t_in; PC n_x; Txt t_close; Txt t_and; Bind n_p; Txt t_eq; PC n_le;
                Txt t_and; Bind n_a_sp_b; Txt t_in; PC n_e; Txt t_close; Txt [37]%N];
     i_order := [n_p; n_a_sp_b; n_x; n_le; n_e];
     i_kind := [(n_p, Plain); (n_a_sp_b, Plain); (n_x, Expand); (n_le, LitExec); (n_e, Expand)];
     i_values := Some [n_a_sp_b];
     i_params := [(n_p, PS 9); (n_a_sp_b, PS 4); (n_x, PL [1; 2; 3]%Z); (n_le, PS 6); (n_e, PL [])]; i_pc := true;
     i_procs := [(n_a_sp_b, 1%N); (n_x, 2%N)] |}.
