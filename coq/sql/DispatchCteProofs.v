From Coq Require Import List NArith Bool.
Import ListNotations.
From SAV.sql Require Import DispatchCte.

Lemma lkey_eqb_refl : forall k, lkey_eqb k k = true.
Proof. intros [a b]. unfold lkey_eqb. cbn. rewrite !N.eqb_refl. reflexivity. Qed.
Lemma lkey_eqb_eq : forall a b, lkey_eqb a b = true -> a = b.
Proof. intros [a1 a2] [b1 b2] H. unfold lkey_eqb in H. cbn in H. apply andb_true_iff in H. destruct H as [H1 H2].
  apply N.eqb_eq in H1, H2. subst. reflexivity. Qed.
Lemma lkey_eqb_sym : forall a b, lkey_eqb a b = lkey_eqb b a.
Proof. intros [a1 a2] [b1 b2]. unfold lkey_eqb. cbn. rewrite (N.eqb_sym a1), (N.eqb_sym a2). reflexivity. Qed.

Lemma get_del_same : forall k m, reg_get k (reg_del k m) = None.
Proof.
  intros k. induction m as [|[k' v] r IH]; [reflexivity|]. cbn. destruct (lkey_eqb k k') eqn:E; cbn; [exact IH|].
  rewrite E. exact IH.
Qed.
Lemma get_del_other : forall k k' m, lkey_eqb k k' = false -> reg_get k (reg_del k' m) = reg_get k m.
Proof.
  intros k k'. induction m as [|[k2 v] r IH]; intros H; [reflexivity|]. cbn. destruct (lkey_eqb k' k2) eqn:E; cbn.
  - apply lkey_eqb_eq in E. subst k2. rewrite H. apply IH. exact H.
  - destruct (lkey_eqb k k2); [reflexivity|]. apply IH. exact H.
Qed.

(* after the move the CTE is registered under its new key - for EVERY pair of keys, equal ones included *)
Theorem move_registers : forall old new cte m, reg_get new (move old new cte m) = Some cte.
Proof. intros. unfold move, reg_set. cbn. rewrite lkey_eqb_refl. reflexivity. Qed.

Theorem move_unregisters_old : forall old new cte m, lkey_eqb old new = false -> reg_get old (move old new cte m) = None.
Proof.
  intros old new cte m H. unfold move, reg_set. cbn. rewrite H. rewrite get_del_other by exact H. apply get_del_same.
Qed.

Theorem move_frame : forall old new cte m k, lkey_eqb k old = false -> lkey_eqb k new = false ->
  reg_get k (move old new cte m) = reg_get k m.
Proof.
  intros old new cte m k H1 H2. unfold move, reg_set. cbn. rewrite H2. rewrite !get_del_other by assumption. reflexivity.
Qed.

(* set-then-delete loses the CTE exactly when the two keys coincide: the next lookup is a KeyError *)
Theorem move_swapped_loses_equal_key : forall k cte m, reg_get k (move_swapped k k cte m) = None.
Proof. intros. unfold move_swapped. apply get_del_same. Qed.

Theorem move_swapped_same_when_distinct : forall old new cte m k, lkey_eqb old new = false ->
  reg_get k (move_swapped old new cte m) = reg_get k (move old new cte m).
Proof.
  intros old new cte m k H. unfold move_swapped, move, reg_set. cbn. rewrite H. cbn.
  fold (reg_del old (reg_del new m)).
  destruct (lkey_eqb k new) eqn:E; [reflexivity|].
  destruct (lkey_eqb k old) eqn:E2.
  - apply lkey_eqb_eq in E2. subst k. rewrite get_del_same. rewrite get_del_other by exact E. rewrite get_del_same. reflexivity.
  - rewrite !get_del_other by assumption. reflexivity.
Qed.
