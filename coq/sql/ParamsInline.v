(* C04 - lemmas about the driver-side substitution [inline] and the reference meaning [inline_spec] *)
From Coq Require Import List NArith ZArith Bool Lia.
Import ListNotations.
From SAV.sql Require Import Params ParamsDict.

Lemma undouble_double : forall s, undouble_pct (double_pct s) = s.
Proof.
  induction s as [|c s IH]; [reflexivity|]. cbn [double_pct].
  destruct (N.eqb c PCT) eqn:E.
  - apply N.eqb_eq in E. subst c. cbn [undouble_pct]. rewrite N.eqb_refl. f_equal. exact IH.
  - cbn [undouble_pct]. rewrite E. f_equal. exact IH.
Qed.
Lemma unpct_pct : forall ps s, unpct ps (pct ps s) = s.
Proof. intros ps s. unfold unpct, pct. destruct (doubles_percent ps); [apply undouble_double|reflexivity]. Qed.
Lemma unpct_comma : forall ps, unpct ps COMMA_SP = COMMA_SP.
Proof. intro ps. unfold unpct. destruct (doubles_percent ps); reflexivity. Qed.

(* option-level append *)
Definition oapp {A} (x y : option (list A)) : option (list A) :=
  match x, y with Some a, Some b => Some (a ++ b) | _, _ => None end.

Lemma option_map_app_oapp : forall {A} (a : list A) y, option_map (app a) y = oapp (Some a) y.
Proof. intros A a [y|]; reflexivity. Qed.
Lemma oapp_assoc : forall {A} (x y z : option (list A)), oapp (oapp x y) z = oapp x (oapp y z).
Proof. intros A [x|] [y|] [z|]; cbn; try reflexivity. rewrite app_assoc. reflexivity. Qed.
Lemma oapp_nil_r : forall {A} (x : option (list A)), oapp x (Some []) = x.
Proof. intros A [x|]; cbn; [rewrite app_nil_r|]; reflexivity. Qed.

Lemma concat_opt_app : forall {A} (l1 l2 : list (option (list A))),
  concat_opt (l1 ++ l2) = oapp (concat_opt l1) (concat_opt l2).
Proof.
  induction l1 as [|[x|] l1 IH]; intro l2; cbn [app concat_opt].
  - destruct (concat_opt l2); reflexivity.
  - rewrite IH. destruct (concat_opt l1), (concat_opt l2); cbn; try reflexivity. rewrite app_assoc. reflexivity.
  - reflexivity.
Qed.

(* ---- named / pyformat ---- *)
Lemma inline_dict_app : forall ps a b d, inline_dict ps (a ++ b) d = oapp (inline_dict ps a d) (inline_dict ps b d).
Proof.
  induction a as [|t a IH]; intros b d; cbn [app inline_dict].
  - destruct (inline_dict ps b d); reflexivity.
  - destruct t; try reflexivity.
    + rewrite IH, !option_map_app_oapp, oapp_assoc. reflexivity.
    + destruct (dget n d) as [[v|l]|]; try reflexivity. rewrite IH.
      destruct (inline_dict ps a d), (inline_dict ps b d); reflexivity.
Qed.

(* ---- qmark / format: a segment that consumes exactly its own values ---- *)
Lemma inline_seq_app : forall ps a va ra b vb,
  inline_seq ps a va = Some ra ->
  inline_seq ps (a ++ b) (va ++ vb) = oapp (Some ra) (inline_seq ps b vb).
Proof.
  induction a as [|t a IH]; intros va ra b vb H; cbn [app inline_seq] in *.
  - destruct va; [|discriminate]. inversion H; subst. cbn [app]. destruct (inline_seq ps b vb); reflexivity.
  - destruct t; try discriminate.
    + destruct (inline_seq ps a va) as [r|] eqn:E; [|discriminate]. cbn [option_map] in H. inversion H; subst.
      rewrite (IH va r b vb E). destruct (inline_seq ps b vb); cbn; [rewrite app_assoc|]; reflexivity.
    + destruct va as [|[v|l] va]; try discriminate.
      destruct (inline_seq ps a va) as [r|] eqn:E; [|discriminate]. cbn [option_map] in H. inversion H; subst.
      cbn [app]. rewrite (IH va r b vb E). destruct (inline_seq ps b vb); reflexivity.
Qed.

(* ---- numeric ---- *)
Lemma inline_num_app : forall ps a b vals, inline_num ps (a ++ b) vals = oapp (inline_num ps a vals) (inline_num ps b vals).
Proof.
  induction a as [|t a IH]; intros b vals; cbn [app inline_num].
  - destruct (inline_num ps b vals); reflexivity.
  - destruct t; try reflexivity.
    + rewrite IH, !option_map_app_oapp, oapp_assoc. reflexivity.
    + destruct (N.eqb k 0); [reflexivity|].
      destruct (nth_error vals (N.to_nat k - 1)) as [[v|l]|]; try reflexivity. rewrite IH.
      destruct (inline_num ps a vals), (inline_num ps b vals); reflexivity.
Qed.

(* ---- join ---- *)
Lemma join_toks_cons2 : forall x y r, join_toks (x :: y :: r) = x :: OTxt COMMA_SP :: join_toks (y :: r).
Proof. reflexivity. Qed.
Lemma join_vals_cons2 : forall x y r, join_vals (x :: y :: r) = Val x :: map Ch COMMA_SP ++ join_vals (y :: r).
Proof. reflexivity. Qed.
