(* executable entry point for the correspondence check of C08 *)
From Coq Require Import List NArith ZArith Bool.
Import ListNotations.
From SAV.base Require Import Tree.
From SAV.sql Require Import Like.

Definition as_str (t : tree) : option (list chr) := as_list_of as_N t.
Definition of_str (s : list chr) : tree := of_list of_N s.

(* Python None -> L [], a one-character escape -> L [I c] *)
Definition as_escape (t : tree) : option (option chr) :=
  match t with
  | L [] => Some None
  | L [c] => match as_N c with Some e => Some (Some e) | None => None end
  | _ => None
  end.

Definition as_combo (t : tree) : option (bool * option chr) := as_pair_of as_bool as_escape t.

Definition all_ops : list op := [Contains; Startswith; Endswith; IContains; IStartswith; IEndswith].

(* per combination: [[bind parameter value]; [character of the ESCAPE clause, [] = none];
   [row matched, for the six operators]] - the distinct bind values / ESCAPE characters over the six
   operators are listed: there is exactly one of each *)
Definition run_combo (x s : list chr) (c : bool * option chr) : tree :=
  let (auto, escape) := c in
  let eb := escaped_like_impl auto escape x in
  L [L [of_str (snd eb)];
     L [match fst eb with Some e => L [of_N e] | None => L [] end];
     L (map (fun o => of_bool (op_match o auto escape x s)) all_ops)].

(* input  L [x; s; L [L [I auto; escape] ...]]   output  L [run_combo ...] *)
Definition run_case (t : tree) : tree :=
  match t with
  | L [tx; ts; tc] =>
    match as_str tx, as_str ts, as_list_of as_combo tc with
    | Some x, Some s, Some cs => L (map (run_combo x s) cs)
    | _, _, _ => bad_input
    end
  | _ => bad_input
  end.
