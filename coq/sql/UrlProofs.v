(* C20 - rendering is the assembly of componentwise encodings; decoding them gives the URL back *)
From Coq Require Import List NArith ZArith Bool Lia ZifyBool Permutation.
Import ListNotations.
From SAV.sql Require Import UrlCodec Url UrlListProofs UrlCodecProofs UrlSplitProofs.
Open Scope N_scope.

(* the value of quote(s, safe) / quote_plus(s) when s is encodable *)
Definition qt (safe : list N) (s : str) : str := flat_map (quote_byte safe) (utf8 s).
Definition qp (s : str) : str := replace 32 43 (qt [32] s).

Definition lit_host (h : str) : str := if mem 58 h then [91] ++ h ++ [93] else h.
Definition enc_pair (kv : str * str) : str := qp (fst kv) ++ 61 :: qp (snd kv).
Definition enc_query (q : list (str * qval)) : option str :=
  if is_nil q then None else Some (join 38 (map enc_pair (query_pairs q))).

(* each literal component is computed from the corresponding URL component alone *)
Definition enc (u : url) : comps :=
  mkComps (u_drv u)
          (option_map (qt SAFE_USER) (u_user u)) (option_map (qt SAFE_USER) (u_pass u))
          (option_map lit_host (u_host u)) (option_map str_of_Z (u_port u))
          (option_map (qt SAFE_DB) (u_db u)) (enc_query (u_query u)).

Lemma quote_r_scalar : forall safe s, forallb scalar s = true -> quote_r safe s = Ok (qt safe s).
Proof. intros. unfold quote_r. rewrite quote_some by assumption. reflexivity. Qed.

Lemma quote_plus_scalar : forall s, forallb scalar s = true -> quote_plus s = Some (qp s).
Proof. intros s H. unfold quote_plus. rewrite (quote_some [32] s H). reflexivity. Qed.

Lemma quote_plus_r_scalar : forall s, forallb scalar s = true -> quote_plus_r s = Ok (qp s).
Proof. intros. unfold quote_plus_r. rewrite quote_plus_scalar by assumption. reflexivity. Qed.

(* ---------------- the query dict ---------------- *)
Definition keys (q : list (str * qval)) : list str := map fst q.

Lemma nodup_keys_NoDup : forall l, nodup_keys l = true -> NoDup l.
Proof.
  induction l as [|k l IH]; intros H; [constructor|]. cbn in H. apply andb_true_iff in H as [Hk Hl].
  constructor; [|apply IH; exact Hl]. intros Hin. apply negb_true_iff in Hk.
  assert (existsb (fun k' => str_eqb k k') l = true); [|congruence].
  apply existsb_exists. exists k. split; [exact Hin | apply str_eqb_refl].
Qed.

Lemma lookup_In : forall k q v, lookup k q = Some v -> In (k, v) q.
Proof.
  induction q as [|[k' v'] q IH]; intros v H; cbn [lookup] in H; [discriminate|].
  destruct (str_eqb_spec k k') as [->|Hne].
  - inversion H; subst. left; reflexivity.
  - right. apply IH; exact H.
Qed.

Lemma lookup_key : forall q k, In k (keys q) -> exists v, lookup k q = Some v.
Proof.
  induction q as [|[k' v'] q IH]; intros k H; [contradiction|]. cbn [lookup].
  destruct (str_eqb_spec k k') as [->|Hne]; [eexists; reflexivity|].
  destruct H as [H|H]; [cbn in H; congruence|]. apply IH; exact H.
Qed.

Lemma lookup_skip : forall k k' v q, k <> k' -> lookup k ((k', v) :: q) = lookup k q.
Proof. intros. cbn [lookup]. destruct (str_eqb_spec k k'); [contradiction | reflexivity]. Qed.

Lemma lookup_head : forall k v q, lookup k ((k, v) :: q) = Some v.
Proof. intros. cbn [lookup]. rewrite str_eqb_refl. reflexivity. Qed.

Lemma flat_map_ext_in : forall {A B} (f g : A -> list B) l,
  (forall a, In a l -> f a = g a) -> flat_map f l = flat_map g l.
Proof.
  induction l as [|a l IH]; intros H; [reflexivity|]. cbn [flat_map].
  rewrite (H a (or_introl eq_refl)), IH; [reflexivity|]. intros b Hb. apply H. right; exact Hb.
Qed.

(* listing the entries by key, in the order of the keys, is the dict itself *)
Lemma entries_by_key : forall q, NoDup (keys q) ->
  flat_map (fun k => match lookup k q with Some v => [(k, v)] | None => [] end) (keys q) = q.
Proof.
  induction q as [|[k v] q IH]; intros H; [reflexivity|]. cbn [keys map fst] in H. inversion H as [|? ? Hk Hq]; subst.
  cbn [keys map fst flat_map]. rewrite (lookup_head k v q). cbn [List.app]. f_equal.
  etransitivity; [|exact (IH Hq)]. apply flat_map_ext_in. intros k' Hk'.
  rewrite lookup_skip; [reflexivity|]. intros ->. contradiction.
Qed.

Theorem canon_query_perm : forall q, NoDup (keys q) -> Permutation (canon_query q) q.
Proof.
  intros q H. unfold canon_query.
  eapply Permutation_trans; [apply Permutation_flat_map, sort_keys_perm|].
  fold (keys q). rewrite (entries_by_key q H). apply Permutation_refl.
Qed.

(* dict_add *)
Lemma dict_add_new : forall d k v, ~ In k (keys d) -> dict_add d k v = d ++ [(k, QStr v)].
Proof.
  induction d as [|[k' old] d IH]; intros k v H; [reflexivity|]. cbn [dict_add].
  destruct (str_eqb_spec k k') as [->|Hne]; [contradiction H; left; reflexivity|].
  cbn [List.app]. f_equal. apply IH. intros Hin. apply H. right; exact Hin.
Qed.

Lemma dict_add_last : forall d k old v, ~ In k (keys d) ->
  dict_add (d ++ [(k, old)]) k v = d ++ [(k, QSeq (to_list old ++ [v]))].
Proof.
  induction d as [|[k' o'] d IH]; intros k old v H; cbn [List.app dict_add].
  - rewrite str_eqb_refl. reflexivity.
  - destruct (str_eqb_spec k k') as [->|Hne]; [contradiction H; left; reflexivity|].
    f_equal. apply IH. intros Hin. apply H. right; exact Hin.
Qed.

Definition acc_step (d : list (str * qval)) (kv : str * str) := dict_add d (fst kv) (snd kv).

Lemma fold_add_seq : forall k xs d l, ~ In k (keys d) ->
  fold_left acc_step (map (pair k) xs) (d ++ [(k, QSeq l)]) = d ++ [(k, QSeq (l ++ xs))].
Proof.
  induction xs as [|x xs IH]; intros d l H; cbn [map fold_left].
  - rewrite app_nil_r. reflexivity.
  - unfold acc_step at 2. cbn [fst snd]. rewrite (dict_add_last d k (QSeq l) x H). cbn [to_list].
    rewrite (IH d (l ++ [x]) H), <- app_assoc. reflexivity.
Qed.

Lemma fold_add_key : forall k v d, ~ In k (keys d) -> seq_len_ok v = true ->
  fold_left acc_step (map (pair k) (to_list v)) d = d ++ [(k, v)].
Proof.
  intros k [s|l] d H Hlen; cbn [to_list].
  - cbn [map fold_left]. unfold acc_step. cbn [fst snd]. apply dict_add_new; exact H.
  - destruct l as [|a [|b l]]; try discriminate. cbn [map fold_left]. unfold acc_step at 2 3. cbn [fst snd].
    rewrite (dict_add_new d k a H), (dict_add_last d k (QStr a) b H). cbn [to_list List.app].
    rewrite (fold_add_seq k l d [a; b] H). reflexivity.
Qed.

Lemma keys_app : forall d e, keys (d ++ e) = keys d ++ keys e.
Proof. intros. unfold keys. apply map_app. Qed.

Lemma accumulate_groups : forall (q : list (str * qval)) ks d,
  NoDup (keys d ++ ks) ->
  (forall k, In k ks -> exists v, lookup k q = Some v /\ seq_len_ok v = true) ->
  fold_left acc_step
    (flat_map (fun k => match lookup k q with Some v => map (pair k) (to_list v) | None => [] end) ks) d
  = d ++ flat_map (fun k => match lookup k q with Some v => [(k, v)] | None => [] end) ks.
Proof.
  induction ks as [|k ks IH]; intros d Hnd Hks; cbn [flat_map]; [rewrite app_nil_r; reflexivity|].
  destruct (Hks k (or_introl eq_refl)) as [v [Hv Hlen]]. rewrite Hv. rewrite fold_left_app.
  assert (Hk : ~ In k (keys d)).
  { intros Hin. apply NoDup_remove_2 in Hnd. apply Hnd. apply in_or_app. left; exact Hin. }
  rewrite (fold_add_key k v d Hk Hlen). rewrite IH.
  - rewrite <- app_assoc. reflexivity.
  - rewrite keys_app. cbn [keys map fst]. rewrite <- app_assoc. cbn [List.app].
    eapply Permutation_NoDup; [|exact Hnd]. apply Permutation_app_head, Permutation_refl.
  - intros k' Hk'. apply Hks. right; exact Hk'.
Qed.

Theorem accumulate_pairs : forall q, NoDup (keys q) -> forallb (fun kv => seq_len_ok (snd kv)) q = true ->
  accumulate (query_pairs q) = canon_query q.
Proof.
  intros q Hnd Hlen. unfold accumulate, query_pairs, canon_query.
  change (fun d kv => dict_add d (fst kv) (snd kv)) with acc_step.
  rewrite (accumulate_groups q (sort_keys (map fst q)) []); [reflexivity | |].
  - cbn [keys map List.app]. eapply Permutation_NoDup; [|exact Hnd]. apply Permutation_sym, sort_keys_perm.
  - intros k Hk. apply (Permutation_in _ (sort_keys_perm _)) in Hk.
    destruct (lookup_key q k Hk) as [v Hv]. exists v. split; [exact Hv|].
    apply lookup_In in Hv. rewrite forallb_forall in Hlen. exact (Hlen (k, v) Hv).
Qed.

(* the pairs that are rendered consist of keys and values of the dict *)
Lemma query_pairs_In : forall q k v, In (k, v) (query_pairs q) ->
  exists qv, In (k, qv) q /\ In v (to_list qv).
Proof.
  intros q k v H. unfold query_pairs in H. apply in_flat_map in H as [k' [_ H]].
  destruct (lookup k' q) as [qv|] eqn:E; [|contradiction]. apply in_map_iff in H as [v' [Heq Hv']].
  inversion Heq; subst. exists qv. split; [apply lookup_In; exact E | exact Hv'].
Qed.

Definition query_scalar (q : list (str * qval)) : bool :=
  forallb (fun kv => forallb scalar (fst kv) && qval_all scalar (snd kv)) q.

Lemma query_pairs_scalar : forall q k v, query_scalar q = true -> In (k, v) (query_pairs q) ->
  forallb scalar k = true /\ forallb scalar v = true.
Proof.
  intros q k v Hs H. destruct (query_pairs_In q k v H) as [qv [Hin Hv]].
  unfold query_scalar in Hs. rewrite forallb_forall in Hs. specialize (Hs _ Hin). cbn [fst snd] in Hs.
  apply andb_true_iff in Hs as [Hk Hqv]. split; [exact Hk|].
  destruct qv as [s|l]; cbn [to_list qval_all] in *.
  - destruct Hv as [<-|[]]. exact Hqv.
  - rewrite forallb_forall in Hqv. exact (Hqv v Hv).
Qed.

Lemma seq_results_pairs : forall ps,
  (forall k v, In (k, v) ps -> forallb scalar k = true /\ forallb scalar v = true) ->
  seq_results (map (fun kv => render_pair (fst kv) (snd kv)) ps) = Ok (map enc_pair ps).
Proof.
  induction ps as [|[k v] ps IH]; intros H; [reflexivity|]. cbn [map seq_results fst snd].
  destruct (H k v (or_introl eq_refl)) as [Hk Hv]. unfold render_pair at 1.
  rewrite (quote_plus_r_scalar k Hk), (quote_plus_r_scalar v Hv). cbn [bind].
  rewrite IH; [reflexivity|]. intros k' v' Hin. apply H. right; exact Hin.
Qed.

Lemma render_query_ok : forall u, query_scalar (u_query u) = true ->
  render_query u = Ok (opt_pre 63 (enc_query (u_query u))).
Proof.
  intros u Hs. unfold render_query, enc_query. destruct (is_nil (u_query u)); [reflexivity|].
  rewrite seq_results_pairs; [reflexivity|]. intros k v. apply query_pairs_scalar; exact Hs.
Qed.

(* the pairs come back from parse_qsl *)
Lemma qp_chars : forall s, forallb scalar s = true -> forallb qpchar (qp s) = true.
Proof. intros s H. apply (quote_plus_chars s). apply quote_plus_scalar; exact H. Qed.

Lemma enc_pair_chars : forall k v, forallb scalar k = true -> forallb scalar v = true ->
  forallb (fun c => qpchar c || (c =? 61)) (enc_pair (k, v)) = true.
Proof.
  intros k v Hk Hv. unfold enc_pair. cbn [fst snd]. rewrite forallb_app. cbn [forallb].
  rewrite (forallb_impl qpchar _ _ (fun x Hx => orb_true_intro _ _ (or_introl Hx)) (qp_chars k Hk)).
  rewrite (forallb_impl qpchar _ _ (fun x Hx => orb_true_intro _ _ (or_introl Hx)) (qp_chars v Hv)).
  reflexivity.
Qed.

Lemma qsl_field_pair : forall k v, forallb scalar k = true -> forallb scalar v = true ->
  qsl_field true (enc_pair (k, v)) = [(k, v)].
Proof.
  intros k v Hk Hv. unfold qsl_field, enc_pair. cbn [fst snd].
  assert (Hnn : is_nil (qp k ++ 61 :: qp v) = false) by (destruct (qp k); reflexivity). rewrite Hnn.
  rewrite (span_here (nb 61) (qp k) (61 :: qp v)); [| |reflexivity].
  - rewrite orb_true_r. rewrite (unquote_plus_quote_plus k _ (quote_plus_scalar k Hk)).
    rewrite (unquote_plus_quote_plus v _ (quote_plus_scalar v Hv)). reflexivity.
  - apply (forallb_impl qpchar); [|exact (qp_chars k Hk)]. intros x Hx. unfold qpchar, always_safe, nb in *. lia.
Qed.

Lemma parse_qsl_pairs : forall ps,
  (forall k v, In (k, v) ps -> forallb scalar k = true /\ forallb scalar v = true) ->
  parse_qsl true (join 38 (map enc_pair ps)) = ps.
Proof.
  intros ps H. destruct ps as [|e0 ps0]; [reflexivity|]. set (ps := e0 :: ps0) in *.
  assert (Hne : ps <> []) by discriminate. clearbody ps. clear e0 ps0. unfold parse_qsl.
  assert (Hnn : is_nil (join 38 (map enc_pair ps)) = false).
  { destruct ps as [|[k v] ps]; [contradiction|]. cbn [map].
    pose proof (join_nonnil 38 (enc_pair (k, v)) (map enc_pair ps)) as Hj.
    destruct (join 38 (enc_pair (k, v) :: map enc_pair ps)) eqn:Ej; [|reflexivity].
    exfalso. apply Hj; [|exact Ej]. unfold enc_pair. cbn [fst snd]. destruct (qp k); intros Hx; discriminate Hx. }
  rewrite Hnn. rewrite split_on_join.
  - clear Hne Hnn. induction ps as [|[k v] ps IH]; [reflexivity|]. cbn [map flat_map].
    destruct (H k v (or_introl eq_refl)) as [Hk Hv]. rewrite (qsl_field_pair k v Hk Hv). cbn [List.app].
    f_equal. apply IH. intros k' v' Hin. apply H. right; exact Hin.
  - destruct ps; [contradiction | discriminate].
  - apply Forall_forall. intros x Hx. apply in_map_iff in Hx as [[k v] [<- Hin]].
    destruct (H k v Hin) as [Hk Hv]. apply (forallb_impl (fun c => qpchar c || (c =? 61))); [|exact (enc_pair_chars k v Hk Hv)].
    intros c Hc. unfold qpchar, always_safe, nb in *. lia.
Qed.

(* what comes back for ANY dict of encodable text: the accumulation of the rendered pairs *)
Theorem dec_query_enc : forall q, query_scalar q = true ->
  dec_query (enc_query q) = accumulate (query_pairs q).
Proof.
  intros q Hs. unfold enc_query. destruct q as [|e q]; [reflexivity|]. cbn [is_nil].
  unfold dec_query. rewrite parse_qsl_pairs; [reflexivity|].
  intros k v. apply query_pairs_scalar; exact Hs.
Qed.

(* accumulation never produces a sequence shorter than 2 *)
Lemma dict_add_len : forall d k v, forallb (fun kv => seq_len_ok (snd kv)) d = true ->
  forallb (fun kv => seq_len_ok (snd kv)) (dict_add d k v) = true.
Proof.
  induction d as [|[k' old] d IH]; intros k v H; [reflexivity|]. cbn [dict_add].
  cbn [forallb snd] in H. apply andb_true_iff in H as [Ho Hd].
  destruct (str_eqb k k'); cbn [forallb snd].
  - rewrite Hd, andb_true_r. cbn [seq_len_ok]. rewrite app_length. cbn [length].
    destruct old as [s|l]; cbn [to_list length]; [reflexivity|].
    cbn [seq_len_ok] in Ho. apply Nat.leb_le in Ho. apply Nat.leb_le. lia.
  - rewrite Ho, (IH k v Hd). reflexivity.
Qed.

Lemma accumulate_len : forall ps, forallb (fun kv => seq_len_ok (snd kv)) (accumulate ps) = true.
Proof.
  intros ps. unfold accumulate.
  assert (G : forall d, forallb (fun kv => seq_len_ok (snd kv)) d = true ->
              forallb (fun kv => seq_len_ok (snd kv))
                (fold_left (fun d kv => dict_add d (fst kv) (snd kv)) ps d) = true).
  { induction ps as [|[k v] ps IH]; intros d Hd; [exact Hd|]. cbn [fold_left fst snd].
    apply IH, dict_add_len; exact Hd. }
  apply G. reflexivity.
Qed.

(* ---------------- host, port, text ---------------- *)
Lemma mem_false_forallb : forall c l, mem c l = false -> forallb (nb c) l = true.
Proof.
  induction l as [|x l IH]; intros H; [reflexivity|]. unfold mem in H. cbn [existsb] in H.
  apply orb_false_iff in H as [Hx Hl]. cbn [forallb]. rewrite (IH Hl), andb_true_r.
  unfold nb. rewrite N.eqb_sym, Hx. reflexivity.
Qed.

Lemma host_lit : forall h, host_ok (Some h) = true ->
  host_lit_ok (Some (lit_host h)) = true /\ dec_host (Some (lit_host h)) = Some h.
Proof.
  intros h H. cbn [host_ok] in H. apply andb_true_iff in H as [H H3]. apply andb_true_iff in H as [H1 H2].
  unfold lit_host. destruct (mem 58 h) eqn:E.
  - cbn [List.app]. split.
    + cbn [host_lit_ok]. rewrite forallb_cons_N, forallb_app, H2. cbn [forallb].
      rewrite N.eqb_refl. rewrite (rsplit_app 93 h [] eq_refl). rewrite H1. reflexivity.
    + cbn [dec_host]. rewrite (rsplit_app 93 h [] eq_refl). reflexivity.
  - cbn [orb] in H3. destruct h as [|c r]; [discriminate|]. apply negb_true_iff in H3.
    split.
    + cbn [host_lit_ok]. rewrite H2, H3. apply mem_false_forallb; exact E.
    + apply dec_host_bare. apply N.eqb_neq; exact H3.
Qed.

Lemma dec_port_str : forall p, dec_port (option_map str_of_Z p) = Ok p.
Proof. intros [z|]; [|reflexivity]. cbn [option_map dec_port]. rewrite py_int_str_of_Z. reflexivity. Qed.

Lemma dec_text_qt : forall safe o, forallb ascii safe = true -> mem 37 safe = false ->
  opt_all scalar o = true -> dec_text (option_map (qt safe) o) = o.
Proof.
  intros safe [s|] Ha H37 H; [|reflexivity]. cbn [option_map dec_text]. f_equal.
  apply (unquote_quote safe s); [exact Ha | exact H37 | apply quote_some; exact H].
Qed.

Lemma qt_chars : forall safe o (p : N -> bool), opt_all scalar o = true ->
  (forall x, qchar safe x = true -> p x = true) -> opt_all p (option_map (qt safe) o) = true.
Proof.
  intros safe [s|] p H Hp; [|reflexivity]. cbn [option_map opt_all].
  apply (forallb_impl (qchar safe)); [exact Hp|]. apply quote_bytes_chars, utf8_bytes; exact H.
Qed.

Lemma enc_query_chars : forall q, query_scalar q = true -> opt_all query_ch (enc_query q) = true.
Proof.
  intros q Hs. unfold enc_query. destruct (is_nil q); [reflexivity|]. cbn [opt_all].
  apply forallb_join; [reflexivity|]. apply Forall_forall. intros x Hx.
  apply in_map_iff in Hx as [[k v] [<- Hin]]. destruct (query_pairs_scalar q k v Hs Hin) as [Hk Hv].
  apply (forallb_impl (fun c => qpchar c || (c =? 61))); [|exact (enc_pair_chars k v Hk Hv)].
  intros c Hc. unfold qpchar, always_safe, query_ch in *. lia.
Qed.

(* ---------------- the three steps, for every URL of the domain ---------------- *)
Record domain_parts (uw : N -> bool) (u : url) : Prop := {
  dp_drv : negb (is_nil (u_drv u)) && forallb (wordch uw) (u_drv u) = true;
  dp_user : opt_all scalar (u_user u) = true;
  dp_pass : opt_all scalar (u_pass u) = true;
  dp_db : opt_all scalar (u_db u) = true;
  dp_query : query_scalar (u_query u) = true;
  dp_host : host_ok (u_host u) = true;
  dp_nodup : NoDup (keys (u_query u)) }.

Lemma domain_split : forall uw u, domain uw u = true -> domain_parts uw u.
Proof.
  intros uw u H. unfold domain in H.
  apply andb_true_iff in H as [H Hnd]. apply andb_true_iff in H as [H Hho].
  apply andb_true_iff in H as [H Hq]. apply andb_true_iff in H as [H Hdb].
  apply andb_true_iff in H as [H Hpw]. apply andb_true_iff in H as [H Hus].
  constructor; try assumption. apply nodup_keys_NoDup. exact Hnd.
Qed.

Lemma wf_domain : forall uw u, wf uw u = true ->
  domain uw u = true /\ password_has_user u = true
  /\ forallb (fun kv => seq_len_ok (snd kv)) (u_query u) = true.
Proof.
  intros uw u H. unfold wf in H. apply andb_true_iff in H as [H H3]. apply andb_true_iff in H as [H1 H2].
  repeat split; assumption.
Qed.

(* the password is written only behind a username *)
Definition shown_pass (u : url) : option str := if has_some (u_user u) then u_pass u else None.

(* the literal components that render_as_string writes for a URL of the domain *)
Definition enc_d (u : url) : comps :=
  mkComps (u_drv u)
          (option_map (qt SAFE_USER) (u_user u)) (option_map (qt SAFE_USER) (shown_pass u))
          (option_map lit_host (u_host u)) (option_map str_of_Z (u_port u))
          (option_map (qt SAFE_DB) (u_db u)) (enc_query (u_query u)).

Lemma enc_d_wf : forall u, password_has_user u = true -> enc_d u = enc u.
Proof.
  intros u H. unfold enc_d, enc, shown_pass. unfold password_has_user in H.
  destruct (u_user u); [reflexivity|]. destruct (u_pass u); [discriminate | reflexivity].
Qed.

(* the URL that comes back *)
Definition observed (u : url) : url :=
  mkUrl (u_drv u) (u_user u) (shown_pass u) (u_host u) (u_port u) (u_db u)
        (accumulate (query_pairs (u_query u))).

Lemma shown_pass_scalar : forall u, opt_all scalar (u_pass u) = true -> opt_all scalar (shown_pass u) = true.
Proof. intros u H. unfold shown_pass. destruct (has_some (u_user u)); [exact H | reflexivity]. Qed.

(* 1. rendering = assembling the componentwise encodings *)
Theorem render_is_assembly_d : forall uw u, domain uw u = true -> render u = Ok (assemble (enc_d u)).
Proof.
  intros uw u H. destruct (domain_split uw u H) as [_ Hus Hpw Hdb Hq _ _].
  unfold render.
  assert (Hui : render_userinfo u = Ok (asm_userinfo (c_user (enc_d u)) (c_pass (enc_d u)))).
  { unfold render_userinfo, enc_d, shown_pass. cbn [c_user c_pass].
    destruct (u_user u) as [us|]; cbn [option_map asm_userinfo has_some].
    - cbn in Hus. rewrite (quote_r_scalar _ us Hus). cbn [bind].
      destruct (u_pass u) as [p|]; cbn [option_map opt_pre].
      + cbn in Hpw. rewrite (quote_r_scalar _ p Hpw). cbn [bind]. reflexivity.
      + reflexivity.
    - reflexivity. }
  rewrite Hui. cbn [bind].
  assert (Hd : render_db u = Ok (opt_pre 47 (c_db (enc_d u)))).
  { unfold render_db, enc_d. cbn [c_db]. destruct (u_db u) as [d|]; [|reflexivity].
    cbn in Hdb. rewrite (quote_r_scalar _ d Hdb). reflexivity. }
  rewrite Hd. cbn [bind]. rewrite (render_query_ok u Hq). cbn [bind].
  unfold assemble, enc_d. cbn [c_drv c_user c_pass c_host c_port c_db c_query].
  unfold render_host, render_port, lit_host.
  destruct (u_host u); destruct (u_port u); reflexivity.
Qed.

(* 2. every encoded component satisfies its own side condition *)
Theorem enc_d_comp_ok : forall uw u, domain uw u = true -> comp_ok uw (enc_d u) = true.
Proof.
  intros uw u H. destruct (domain_split uw u H) as [Hdrv Hus Hpw Hdb Hq Hho _].
  unfold comp_ok, enc_d. cbn [c_drv c_user c_pass c_host c_port c_db c_query].
  rewrite Hdrv. cbn [andb].
  rewrite (qt_chars SAFE_USER (u_user u) user_ch Hus)
    by (intros x Hx; unfold qchar, mem, SAFE_USER, always_safe, user_ch in *; cbn [existsb] in Hx; lia).
  rewrite (qt_chars SAFE_USER (shown_pass u) (nb 64) (shown_pass_scalar u Hpw))
    by (intros x Hx; unfold qchar, mem, SAFE_USER, always_safe, nb in *; cbn [existsb] in Hx; lia).
  rewrite (qt_chars SAFE_DB (u_db u) db_ch Hdb)
    by (intros x Hx; unfold qchar, mem, SAFE_DB, always_safe, db_ch in *; cbn [existsb] in Hx; lia).
  rewrite (enc_query_chars _ Hq). cbn [andb].
  assert (Hp1 : negb (has_some (option_map (qt SAFE_USER) (shown_pass u)))
                || has_some (option_map (qt SAFE_USER) (u_user u)) = true).
  { unfold shown_pass. destruct (u_user u); destruct (u_pass u); reflexivity. }
  rewrite Hp1. cbn [andb].
  assert (Hh : host_lit_ok (option_map lit_host (u_host u)) = true).
  { destruct (u_host u) as [h|]; [|reflexivity]. exact (proj1 (host_lit h Hho)). }
  rewrite Hh. cbn [andb].
  destruct (u_port u) as [z|]; [|reflexivity]. cbn [option_map opt_all].
  rewrite !andb_true_r.
  apply (forallb_impl (fun c => ((48 <=? c) && (c <=? 57)) || (c =? 45))); [|exact (str_of_Z_chars z)].
  intros x Hx. unfold port_ch. lia.
Qed.

(* 3. decoding each literal component *)
Theorem decode_enc_d : forall uw u, domain uw u = true -> decode (strip_host (enc_d u)) = Ok (observed u).
Proof.
  intros uw u H. destruct (domain_split uw u H) as [_ Hus Hpw Hdb Hq Hho _].
  unfold decode, strip_host, enc_d, observed. cbn [c_drv c_user c_pass c_host c_port c_db c_query].
  rewrite dec_port_str. cbn [bind].
  rewrite (dec_text_qt SAFE_USER (u_user u) eq_refl eq_refl Hus).
  rewrite (dec_text_qt SAFE_USER (shown_pass u) eq_refl eq_refl (shown_pass_scalar u Hpw)).
  rewrite (dec_text_qt SAFE_DB (u_db u) eq_refl eq_refl Hdb).
  rewrite (dec_query_enc _ Hq).
  assert (Hh : dec_host (option_map lit_host (u_host u)) = u_host u).
  { destruct (u_host u) as [h|]; [|reflexivity]. exact (proj2 (host_lit h Hho)). }
  rewrite Hh. reflexivity.
Qed.

Theorem parse_assembled : forall uw c, comp_ok uw c = true ->
  parse uw (assemble c) = decode (strip_host c).
Proof. intros uw c H. unfold parse. rewrite (split_ok uw c H). reflexivity. Qed.

(* the round trip of EVERY URL of the domain, defects included *)
Theorem roundtrip_domain : forall uw u, domain uw u = true -> roundtrip uw u = Ok (observed u).
Proof.
  intros uw u H. unfold roundtrip. rewrite (render_is_assembly_d uw u H). cbn [bind].
  rewrite (parse_assembled uw _ (enc_d_comp_ok uw u H)). exact (decode_enc_d uw u H).
Qed.

Lemma observed_wf : forall uw u, wf uw u = true -> observed u = canon u.
Proof.
  intros uw u H. destruct (wf_domain uw u H) as [Hd [Hpu Hlen]].
  unfold observed, canon. f_equal.
  - unfold shown_pass. unfold password_has_user in Hpu.
    destruct (u_user u); [reflexivity|]. destruct (u_pass u); [discriminate | reflexivity].
  - apply accumulate_pairs; [exact (dp_nodup uw u (domain_split uw u Hd)) | exact Hlen].
Qed.

Theorem render_is_assembly : forall uw u, wf uw u = true -> render u = Ok (assemble (enc u)).
Proof.
  intros uw u H. destruct (wf_domain uw u H) as [Hd [Hpu _]].
  rewrite <- (enc_d_wf u Hpu). exact (render_is_assembly_d uw u Hd).
Qed.

Theorem enc_comp_ok : forall uw u, wf uw u = true -> comp_ok uw (enc u) = true.
Proof.
  intros uw u H. destruct (wf_domain uw u H) as [Hd [Hpu _]].
  rewrite <- (enc_d_wf u Hpu). exact (enc_d_comp_ok uw u Hd).
Qed.

Theorem roundtrip_wf : forall uw u, wf uw u = true -> roundtrip uw u = Ok (canon u).
Proof.
  intros uw u H. destruct (wf_domain uw u H) as [Hd _].
  rewrite (roundtrip_domain uw u Hd), (observed_wf uw u H). reflexivity.
Qed.

(* URL.__eq__ : field-wise, the query as a dict *)
Definition url_eq (a b : url) : Prop :=
  u_drv a = u_drv b /\ u_user a = u_user b /\ u_pass a = u_pass b /\ u_host a = u_host b /\
  u_port a = u_port b /\ u_db a = u_db b /\ Permutation (u_query a) (u_query b).

Theorem canon_eq : forall uw u, wf uw u = true -> url_eq (canon u) u.
Proof.
  intros uw u H. destruct (wf_domain uw u H) as [Hd _].
  unfold url_eq, canon. cbn [u_drv u_user u_pass u_host u_port u_db u_query].
  repeat split. apply canon_query_perm. exact (dp_nodup uw u (domain_split uw u Hd)).
Qed.

Theorem roundtrip_eq : forall uw u, wf uw u = true ->
  exists s u', render u = Ok s /\ parse uw s = Ok u' /\ url_eq u' u.
Proof.
  intros uw u H. exists (assemble (enc u)), (canon u). split; [exact (render_is_assembly uw u H)|]. split.
  - pose proof (roundtrip_wf uw u H) as R. unfold roundtrip in R.
    rewrite (render_is_assembly uw u H) in R. exact R.
  - exact (canon_eq uw u H).
Qed.

(* when the dict lists its keys in sorted order the canonical representative is the dict itself *)
Lemma canon_sorted : forall u, NoDup (keys (u_query u)) ->
  sort_keys (map fst (u_query u)) = map fst (u_query u) -> canon u = u.
Proof.
  intros [d us pw ho po db q] Hnd Hs. unfold canon. cbn [u_drv u_user u_pass u_host u_port u_db u_query] in *.
  f_equal. unfold canon_query. rewrite Hs. exact (entries_by_key q Hnd).
Qed.

Theorem roundtrip_sorted : forall uw u, wf uw u = true ->
  sort_keys (map fst (u_query u)) = map fst (u_query u) -> roundtrip uw u = Ok u.
Proof.
  intros uw u H Hs. rewrite (roundtrip_wf uw u H). f_equal.
  apply canon_sorted; [|exact Hs]. destruct (wf_domain uw u H) as [Hd _].
  exact (dp_nodup uw u (domain_split uw u Hd)).
Qed.

(* ---------------- the guard excludes exactly the defective region ---------------- *)
Lemma perm_forallb : forall {A} (p : A -> bool) l l', Permutation l l' -> forallb p l = true -> forallb p l' = true.
Proof.
  intros A p l l' HP H. apply forallb_forall. intros x Hx. rewrite forallb_forall in H.
  apply H. apply (Permutation_in _ (Permutation_sym HP)). exact Hx.
Qed.

Theorem guard_exact : forall uw u, domain uw u = true -> wf uw u = false ->
  exists u', roundtrip uw u = Ok u' /\ ~ url_eq u' u.
Proof.
  intros uw u Hd Hwf. exists (observed u). split; [exact (roundtrip_domain uw u Hd)|].
  intros [_ [_ [Hp [_ [_ [_ Hq]]]]]]. unfold wf in Hwf. rewrite Hd in Hwf. cbn [andb] in Hwf.
  apply andb_false_iff in Hwf as [Hpu|Hlen].
  - unfold observed, shown_pass in Hp. cbn [u_pass] in Hp. unfold password_has_user in Hpu.
    destruct (u_user u); destruct (u_pass u); cbn in Hpu; try discriminate.
  - unfold observed in Hq. cbn [u_query] in Hq.
    rewrite (perm_forallb _ _ _ Hq (accumulate_len _)) in Hlen. discriminate.
Qed.

(* ---------------- concrete witnesses of the three defects ---------------- *)
Definition U (d : str) us pw ho po db q : url := mkUrl d us pw ho po db q.

Lemma not_perm_singleton : forall (a b : str * qval), a <> b -> ~ Permutation [a] [b].
Proof. intros a b Hne Hp. apply Permutation_length_1 in Hp. contradiction. Qed.

Theorem singleton_sequence_refuted : forall uw, exists u u',
  domain uw u = true /\ roundtrip uw u = Ok u' /\ ~ url_eq u' u.
Proof.
  intros uw. exists (U [120] None None None None None [([97], QSeq [[120]])]).
  exists (U [120] None None None None None [([97], QStr [120])]).
  split; [reflexivity|]. split; [reflexivity|].
  intros [_ [_ [_ [_ [_ [_ Hp]]]]]]. cbn in Hp. revert Hp. apply not_perm_singleton. discriminate.
Qed.

Theorem empty_sequence_refuted : forall uw, exists u u',
  domain uw u = true /\ roundtrip uw u = Ok u' /\ ~ url_eq u' u.
Proof.
  intros uw. exists (U [120] None None None None None [([97], QSeq [])]).
  exists (U [120] None None None None None []).
  split; [reflexivity|]. split; [reflexivity|].
  intros [_ [_ [_ [_ [_ [_ Hp]]]]]]. cbn in Hp. apply Permutation_nil in Hp. discriminate.
Qed.

Theorem password_without_user_refuted : forall uw, exists u u',
  domain uw u = true /\ roundtrip uw u = Ok u' /\ ~ url_eq u' u.
Proof.
  intros uw. exists (U [120] None (Some [112]) (Some [104]) None None []).
  exists (U [120] None None (Some [104]) None None []).
  split; [reflexivity|]. split; [reflexivity|].
  intros [_ [_ [Hp _]]]. discriminate.
Qed.

(* hence the unguarded statement is false *)
Theorem roundtrip_unguarded_refuted : forall uw,
  ~ (forall u, domain uw u = true -> exists u', roundtrip uw u = Ok u' /\ url_eq u' u).
Proof.
  intros uw Hall. destruct (password_without_user_refuted uw) as [u [u' [Hd [Hr Hne]]]].
  destruct (Hall u Hd) as [u'' [Hr' He]]. rewrite Hr in Hr'. inversion Hr'; subst. contradiction.
Qed.
