(* C18 - the form is a template fixed by the cache key, instantiated with the current values *)
From Coq Require Import List ZArith Bool.
Import ListNotations.
From SAV.sql Require Import Limit.
Open Scope Z_scope.

Lemma markers_key : forall s s', same_key s s' = true -> markers s = markers s'.
Proof.
  intros [lim off ord dis] [lim' off' ord' dis'] H. unfold same_key in H. cbn [s_lim s_off s_ordered s_distinct] in H.
  repeat (apply andb_prop in H; destruct H as [H ?]).
  apply eqb_prop in H0. apply eqb_prop in H1. subst. unfold markers. cbn [s_lim s_off s_ordered s_distinct].
  f_equal.
  - destruct lim as [|[a av]|[a av] p t], lim' as [|[b bv]|[b bv] p' t']; try discriminate H; cbn [c_simple] in *.
    + reflexivity.
    + apply eqb_prop in H. now subst.
    + repeat (apply andb_prop in H; destruct H as [H ?]).
      apply eqb_prop in H. apply eqb_prop in H0. apply eqb_prop in H1. now subst.
  - destruct off as [[a av]|], off' as [[b bv]|]; try discriminate H2; cbn in *; [|reflexivity].
    apply eqb_prop in H2. now subst.
Qed.

(* which_form never looks at a value: its result is the plan of the value-free statement with the
   values put back in *)
Lemma which_form_template : forall d s,
  which_form d s = subst (lim_val s) (opt0 (val (s_off s))) (which_form d (markers s)).
Proof.
  intros d [lim off ord dis].
  destruct d as [| | | |b|b]; try destruct b;
  destruct lim as [|[ls lv]|[fs fv] pc ti]; try destruct ls; try destruct fs; try destruct pc; try destruct ti;
  destruct off as [[os ov]|]; try destruct os; destruct ord; reflexivity.
Qed.

(* cache transparency: the template compiled for ANY statement with the same key, re-bound with the
   values of [s'], is the form a fresh compilation of [s'] chooses *)
Lemma cache_transparent : forall d s s', same_key s s' = true ->
  which_form d s' = subst (lim_val s') (opt0 (val (s_off s'))) (which_form d (markers s)).
Proof. intros d s s' H. rewrite (markers_key s s' H). apply which_form_template. Qed.
