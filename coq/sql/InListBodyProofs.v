(* C07, spec side: what the evaluator makes of the text between "IN (" and ")". *)
From Coq Require Import List ZArith NArith Bool Lia.
Import ListNotations.
From SAV.sql Require Import Val3 Val3Proofs InList InListSpecProofs.

Definition head_scalar (ts : list tok) : Prop :=
  match ts with t :: _ => scalar_of t <> None | [] => False end.
Lemma p_inbody_default ts : head_scalar ts ->
  p_inbody ts = match p_scalars ts with
                | Some (vs, TRp :: r) => Some (1%nat, map (fun v => [v]) vs, r) | _ => None end.
Proof. destruct ts as [|[] ts]; cbn [head_scalar scalar_of]; intros H; try reflexivity; congruence. Qed.

Lemma items_head t ts rest : exists tl, items (t :: ts) ++ rest = t :: tl.
Proof. destruct ts; [now exists rest|]. rewrite items_cons2. eexists; reflexivity. Qed.

Lemma p_inbody_items ts vs rest : scal ts vs -> ts <> [] ->
  p_inbody (items ts ++ TRp :: rest) = Some (1%nat, map (fun v => [v]) vs, rest).
Proof.
  intros H Hne. rewrite p_inbody_default.
  - now rewrite (p_scalars_items ts vs (TRp :: rest) H Hne I).
  - destruct H as [|t v ts vs Ht H]; [congruence|].
    destruct (items_head t ts (TRp :: rest)) as [tl ->]. cbn [head_scalar]. congruence.
Qed.

Lemma p_inbody_rows (kw : bool) rts rvs rest :
  Forall2 scal rts rvs -> Forall (fun t => t <> []) rts -> rts <> [] ->
  p_inbody ((if kw then [TValues] else []) ++ join [TComma] (map row_toks rts) ++ TRp :: rest)
  = Some (length (hd [] rvs), rvs, rest).
Proof.
  intros H Hne Hn.
  pose proof (p_rows_join rts rvs (TRp :: rest) H Hne Hn I) as HP.
  destruct H as [|t v rts rvs Ht H]; [congruence|]. cbn [hd].
  destruct kw; cbn [app].
  - cbn [p_inbody]. now rewrite HP.
  - rewrite join_rows_tail in *. cbn [p_inbody]. now rewrite HP.
Qed.

(* ---------------------------------------------------------------------------------------- *)
(** * empty-set subqueries *)
Definition neutral (it : list tok) : Prop :=
  forall rest c, sel_scan (it ++ rest) 0 c true = sel_scan rest 0 c true.

Lemma sel_scan_items its : its <> [] -> Forall neutral its -> forall rest c,
  sel_scan (join [TComma] its ++ rest) 0 c true = sel_scan rest 0 (c + (length its - 1)) true.
Proof.
  intros Hne H. induction H as [|it its Hit H IH]; intros rest c; [congruence|].
  destruct its as [|it2 its].
  - cbn [join length]. rewrite Hit. f_equal. lia.
  - rewrite join_cons2, <- !app_assoc. rewrite Hit. cbn [app sel_scan].
    rewrite IH by discriminate. f_equal. cbn [length]. lia.
Qed.

Definition flat (t : tok) : bool := match t with TLp | TRp => false | _ => true end.
Lemma sel_scan_flat ws : forallb flat ws = true -> forall rest dd c il,
  sel_scan (ws ++ rest) (S dd) c il = sel_scan rest (S dd) c il.
Proof.
  induction ws as [|t ws IH]; intros H rest dd c il; [reflexivity|].
  cbn [forallb] in H. apply andb_true_iff in H as [Ht Hs].
  cbn [app]. destruct t; try discriminate; cbn [sel_scan]; now rewrite IH.
Qed.

Lemma forall_repeat {A} (P : A -> Prop) a n : P a -> Forall P (repeat a n).
Proof. intros H. induction n; cbn [repeat]; constructor; assumption. Qed.

Lemma ones_flat k : forallb flat (ones k) = true.
Proof.
  unfold ones. induction k as [|k IH]; [reflexivity|]. cbn [repeat].
  destruct k as [|k]; [reflexivity|]. cbn [repeat] in *. rewrite join_cons2, !forallb_app. now rewrite IH.
Qed.

Lemma sqlite_empty_body k rest : (1 <= k)%nat ->
  p_inbody (([TSelect] ++ ones k ++ [TFrom; TLp; TSelect] ++ ones k ++ [TRp; TWhere] ++ one_ne_one) ++ TRp :: rest)
  = Some (k, [], rest).
Proof.
  intros Hk. rewrite <- !app_assoc. cbn [app p_inbody]. unfold ones at 1.
  rewrite sel_scan_items.
  - cbn [app sel_scan]. rewrite (sel_scan_flat _ (ones_flat k)). cbn [app sel_scan].
    rewrite repeat_length. cbn [p_cmp p_operand scalar_of one_ne_one app same_arity length Nat.eqb row_eq3 eq3 Z.eqb Pos.eqb tv_of_bool and3 not3 is_true].
    f_equal. f_equal. f_equal. lia.
  - destruct k; [lia|discriminate].
  - apply forall_repeat. intros r c. reflexivity.
Qed.

Definition pg_item : list tok := [TWord W_CAST; TLp; TNull; TWord W_AS; TWord W_INTEGER; TRp].
Lemma pg_empty_body k rest : (1 <= k)%nat ->
  p_inbody (([TSelect] ++ join [TComma] (repeat pg_item k) ++ [TWhere] ++ one_ne_one) ++ TRp :: rest)
  = Some (k, [], rest).
Proof.
  intros Hk. rewrite <- !app_assoc. cbn [app p_inbody].
  rewrite sel_scan_items.
  - cbn [app sel_scan]. rewrite repeat_length.
    cbn [p_cmp p_operand scalar_of one_ne_one app same_arity length Nat.eqb row_eq3 eq3 Z.eqb Pos.eqb tv_of_bool and3 not3 is_true].
    f_equal. f_equal. f_equal. lia.
  - destruct k; [lia|discriminate].
  - apply forall_repeat. intros r c. reflexivity.
Qed.

Lemma mysql_inner_flat k :
  forallb flat (join [TComma] (map (fun i => [TNum 1; TWord W_AS; TWord (W_IN_ i)]) (seq 0 k))) = true.
Proof.
  generalize 0%nat. induction k as [|k IH]; intro s; [reflexivity|]. cbn [seq map].
  destruct k as [|k]; [reflexivity|]. cbn [seq map] in *. rewrite join_cons2, !forallb_app. now rewrite (IH (S s)).
Qed.

Lemma mysql_empty_body k rest : (1 <= k)%nat ->
  p_inbody (([TSelect] ++ join [TComma] (map (fun i => [TWord (W_IN_ i)]) (seq 0 k))
             ++ [TFrom; TLp; TSelect]
             ++ join [TComma] (map (fun i => [TNum 1; TWord W_AS; TWord (W_IN_ i)]) (seq 0 k))
             ++ [TRp; TWord W_AS; TWord W_EMPTY_SET; TWhere] ++ one_ne_one) ++ TRp :: rest)
  = Some (k, [], rest).
Proof.
  intros Hk. rewrite <- !app_assoc. cbn [app p_inbody].
  rewrite sel_scan_items.
  - cbn [app sel_scan]. rewrite (sel_scan_flat _ (mysql_inner_flat k)). cbn [app sel_scan].
    rewrite map_length, seq_length.
    cbn [p_cmp p_operand scalar_of one_ne_one app same_arity length Nat.eqb row_eq3 eq3 Z.eqb Pos.eqb tv_of_bool and3 not3 is_true].
    f_equal. f_equal. f_equal. lia.
  - destruct k; [lia|discriminate].
  - apply Forall_forall. intros it Hit. apply in_map_iff in Hit as (i & <- & _). intros r c. reflexivity.
Qed.

(* every dialect's visit_empty_set_expr is an empty set of the right arity *)
Lemma empty_set_expr_body d k toks rest : (1 <= k)%nat -> visit_empty_set_expr d k = Ok toks ->
  p_inbody (toks ++ TRp :: rest) = Some (k, [], rest).
Proof.
  intros Hk H. unfold visit_empty_set_expr in H.
  assert (Ho : or_one k = k) by (destruct k; [lia|reflexivity]).
  destruct (d_empty d); try discriminate; inversion H; subst; clear H; rewrite ?Ho.
  - now apply sqlite_empty_body.
  - now apply pg_empty_body.
  - now apply mysql_empty_body.
Qed.
