(* C15: run_with - decode a case, run the model, encode the observation.  The identifier preparer table
   and the type table come from the per-run generated file (Gen_C15.v), which defines run_case. *)
From Coq Require Import List NArith ZArith Bool.
Import ListNotations.
From SAV.base Require Import Tree.
From SAV.sql Require Import Ident Reflect ReflectIndex.

(* str.isalnum() for the non-ASCII characters the generator uses (< U+0250, and U+212A) *)
Definition run_uni (c : N) : bool :=
  in_ranges [(170, 170); (178, 179); (181, 181); (185, 186); (188, 190); (192, 214); (216, 246); (248, 591); (8490, 8490)]%N c.

Definition dec_str (t : tree) : option str := as_list_of as_N t.
Definition dec_optstr (t : tree) : option (option str) :=
  match t with
  | L [] => Some None
  | L [s] => match dec_str s with Some s' => Some (Some s') | None => None end
  | _ => None
  end.
Definition dec_strs (t : tree) : option (list str) := as_list_of dec_str t.
Definition dec_sigs (t : tree) : option (list (list str)) := as_list_of dec_strs t.
Definition enc_str (s : str) : tree := L (map of_N s).
Definition enc_optstr (o : option str) : tree := match o with Some s => L [enc_str s] | None => L [] end.
Definition enc_uqs (l : list (option str * list str)) : tree :=
  L (map (fun e : option str * list str => L [enc_optstr (fst e); L (map enc_str (snd e))]) l).
Definition dec_part (t : tree) : option part :=
  match t with
  | L [I 0%Z; s] => match dec_str s with Some s' => Some (Seg s') | None => None end
  | L [I 1%Z; n; cols] => match dec_optstr n, dec_strs cols with
                          | Some n', Some c' => Some (Uq n' c')
                          | _, _ => None
                          end
  | _ => None
  end.
Definition enc_rtype (t : rtype) : tree := L [of_N (rt_class t); L (map enc_str (rt_args t))].

Definition run_with (p : prep) (tab : afftab) (t : tree) : tree :=
  match t with
  | L [I 0%Z; text] =>                                  (* parse_uqs over a stored CREATE TABLE text *)
      match dec_str text with
      | Some s => enc_uqs (parse_uqs run_uni s)
      | None => bad_input
      end
  | L [I 1%Z; auto; inline; text] =>                    (* get_unique_constraints *)
      match dec_sigs auto, dec_sigs inline, dec_str text with
      | Some a, Some i, Some s => enc_uqs (reflect_uniques run_uni a i s)
      | _, _, _ => bad_input
      end
  | L [I 2%Z; parts] =>                                 (* rendering of the constraint clauses, then parsing *)
      match as_list_of dec_part parts with
      | Some ps => match render_parts p ps with
                   | Ok text => L [I 0%Z; enc_str text; enc_uqs (parse_uqs run_uni text)]
                   | RaiseIndexError => L [I 1%Z]
                   end
      | None => bad_input
      end
  | L [I 3%Z; ty] =>                                    (* type affinity and re-rendering *)
      match dec_str ty with
      | Some s => let r := affinity tab s in
                  L [of_N (rt_class r);
                     match render_type tab r with
                     | Some text => let r2 := affinity tab text in
                                    L [enc_str text; of_N (rt_class r2);
                                       match render_type tab r2 with Some t2 => L [enc_str t2] | None => L [] end]
                     | None => L []
                     end]
      | None => bad_input
      end
  | L [I 4%Z; text] =>                                  (* partial_pred_re.search over a CREATE INDEX text *)
      match dec_str text with
      | Some s => enc_optstr (pred_search s)
      | None => bad_input
      end
  | _ => bad_input
  end.
