(* C17 - basic facts about the value type: induction principle, soundness of the key comparison, kinds *)
From Coq Require Import List NArith ZArith Bool Lia.
Import ListNotations.
From SAV.sql Require Import Lambda.

Section ValInd.
  Variable P : val -> Prop.
  Hypothesis HNone : P VNone.
  Hypothesis HInt : forall z, P (VInt z).
  Hypothesis HStr : forall s, P (VStr s).
  Hypothesis HList : forall l, Forall P l -> P (VList l).
  Hypothesis HCol : forall t c, P (VCol t c).
  Hypothesis HTab : forall t, P (VTab t).
  Hypothesis HFun : forall k cap, Forall P cap -> P (VFun k cap).
  Fixpoint val_ind' (v : val) : P v :=
    let fix go (l : list val) : Forall P l :=
      match l with [] => Forall_nil P | x :: r => Forall_cons x (val_ind' x) (go r) end in
    match v with
    | VNone => HNone | VInt z => HInt z | VStr s => HStr s | VList l => HList l (go l)
    | VCol t c => HCol t c | VTab t => HTab t | VFun k cap => HFun k cap (go cap)
    end.
End ValInd.

Fixpoint vlist_eqb (xs ys : list val) : bool :=
  match xs, ys with
  | [], [] => true
  | x :: xs', y :: ys' => val_eqb x y && vlist_eqb xs' ys'
  | _, _ => false
  end.

Lemma val_eqb_list : forall x y, val_eqb (VList x) (VList y) = vlist_eqb x y.
Proof. intros. cbn. reflexivity. Qed.
Lemma val_eqb_fun : forall k cap k' cap', val_eqb (VFun k cap) (VFun k' cap') = (N.eqb k k' && vlist_eqb cap cap').
Proof.
  intros. cbn. reflexivity.
Qed.

Lemma zlist_eqb_eq : forall x y : list Z,
  (fix seqb (x y : list Z) : bool :=
     match x, y with [], [] => true | p :: x', q :: y' => Z.eqb p q && seqb x' y' | _, _ => false end) x y = true -> x = y.
Proof.
  induction x as [|a x IH]; destruct y; try discriminate; auto.
  intros H. apply andb_true_iff in H. destruct H as [H1 H2]. apply Z.eqb_eq in H1. subst. f_equal. apply IH. exact H2.
Qed.

Lemma val_eqb_eq : forall a b, val_eqb a b = true -> a = b.
Proof.
  induction a using val_ind'; intros b H0; destruct b; try discriminate.
  - reflexivity.
  - cbn in H0. apply Z.eqb_eq in H0. subst. reflexivity.
  - cbn in H0. apply zlist_eqb_eq in H0. subst. reflexivity.
  - rewrite val_eqb_list in H0. f_equal. revert l0 H0. induction l as [|x r IH]; destruct l0; try discriminate; auto.
    cbn. intros E. apply andb_true_iff in E. destruct E as [E1 E2]. inversion H; subst. f_equal; auto.
  - cbn in H0. apply andb_true_iff in H0. destruct H0 as [A B]. apply N.eqb_eq in A, B. subst. reflexivity.
  - cbn in H0. apply N.eqb_eq in H0. subst. reflexivity.
  - rewrite val_eqb_fun in H0. apply andb_true_iff in H0. destruct H0 as [A B]. apply N.eqb_eq in A. subst. f_equal.
    revert cap0 B. induction cap as [|x r IH]; destruct cap0; try discriminate; auto.
    cbn. intros E. apply andb_true_iff in E. destruct E as [E1 E2]. inversion H; subst. f_equal; auto.
Qed.

Lemma list_eqb_eq : forall A (eqb : A -> A -> bool), (forall x y, eqb x y = true -> x = y) ->
  forall xs ys, list_eqb eqb xs ys = true -> xs = ys.
Proof.
  intros A eqb Hs. induction xs as [|x r IH]; destruct ys; try discriminate; auto.
  cbn. intros E. apply andb_true_iff in E. destruct E as [E1 E2]. f_equal; auto.
Qed.

Lemma optval_eqb_eq : forall a b, optval_eqb a b = true -> a = b.
Proof. intros [a|] [b|]; try discriminate; auto. cbn. intros H. f_equal. apply val_eqb_eq. exact H. Qed.

Lemma ckey_eqb_eq : forall a b, ckey_eqb a b = true -> a = b.
Proof.
  apply list_eqb_eq. intros [c k] [c' k']. cbn. intros H. apply andb_true_iff in H. destruct H as [A B].
  apply N.eqb_eq in A. subst. f_equal. apply (list_eqb_eq _ _ optval_eqb_eq). exact B.
Qed.

Lemma val_eqb_refl : forall a, val_eqb a a = true.
Proof.
  induction a using val_ind'; try reflexivity.
  - cbn. apply Z.eqb_refl.
  - cbn. induction s as [|x r IH]; [reflexivity|]. rewrite Z.eqb_refl. exact IH.
  - rewrite val_eqb_list. induction l as [|x r IH]; [reflexivity|]. inversion H; subst. cbn. rewrite H2. auto.
  - cbn. rewrite !N.eqb_refl. reflexivity.
  - cbn. apply N.eqb_refl.
  - rewrite val_eqb_fun, N.eqb_refl. cbn. induction cap as [|x r IH]; [reflexivity|]. inversion H; subst. cbn. rewrite H2. auto.
Qed.

Lemma list_eqb_refl : forall A (eqb : A -> A -> bool), (forall x, eqb x x = true) -> forall xs, list_eqb eqb xs xs = true.
Proof. intros A eqb H. induction xs as [|x r IH]; [reflexivity|]. cbn. rewrite H, IH. reflexivity. Qed.

Lemma ckey_eqb_refl : forall a, ckey_eqb a a = true.
Proof.
  apply list_eqb_refl. intros [c k]. cbn. rewrite N.eqb_refl. cbn. apply list_eqb_refl.
  intros [x|]; cbn; [apply val_eqb_refl|reflexivity].
Qed.

(* ---------------- kinds: what the analysis can see of a value ---------------- *)
Definition kind (v : val) : N :=
  match v with
  | VNone | VInt _ => 0
  | VStr _ => 6
  | VList _ => if deep_is_literal v then 1 else 5
  | VCol _ _ => 2
  | VTab _ => 3
  | VFun _ _ => 4
  end%N.

Lemma kind_literal : forall v v', kind v = kind v' -> deep_is_literal v = deep_is_literal v'.
Proof.
  intros v v' H. destruct v, v'; try reflexivity; try discriminate;
    unfold kind in H; try (destruct (deep_is_literal (VList l)) eqn:E; try discriminate; try reflexivity);
    try (destruct (deep_is_literal (VList l0)) eqn:E0; try discriminate; try reflexivity); auto; congruence.
Qed.
