(* C11 - proofs about the keymap construction of CursorResultMetaData.__init__ (any merge mode) *)
From Coq Require Import List NArith Bool Arith Lia.
Import ListNotations.
From SAV.sql Require Import ResultMap ResultMapDict.

Local Notation kget := (dget key_eqb).
Local Notation kalast := (alast key_eqb).

Lemma alast_NoDup_dget : forall {V} (d : list (key * V)) k, NoDup (map fst d) -> kalast d k = kget d k.
Proof.
  intros V d k Hn. destruct (kget d k) eqn:E.
  - apply (dget_In key_eqb key_eqb_eq) in E.
    destruct (alast_In_Some key_eqb key_eqb_eq _ _ _ E) as [v' Hv]. rewrite Hv.
    apply (alast_Some_In key_eqb key_eqb_eq) in Hv.
    pose proof (In_dget key_eqb key_eqb_eq _ _ _ Hn E) as H1.
    pose proof (In_dget key_eqb key_eqb_eq _ _ _ Hn Hv) as H2. congruence.
  - apply (alast_None key_eqb key_eqb_eq). intros v Hin.
    apply (dget_None_keys key_eqb key_eqb_eq) in E. apply E. apply in_map_iff. exists (k, v). now split.
Qed.

Lemma dict_of_NoDup : forall {V} (l : list (key * V)), NoDup (map fst (dict_of key_eqb l)).
Proof. intros V l. unfold dict_of. apply (dupdate_NoDup key_eqb key_eqb_eq). constructor. Qed.

(* ---------- the dupes loop ---------- *)
Definition kpairs (rw : list mrec) : list (key * option nat) :=
  flat_map (fun r => map (fun k => (k, m_idx r)) (m_rend r :: m_objs r)) rw.

Definition pstep (s : list (key * option nat) * list key) (p : key * option nat) :=
  let '(ibk, dupes) := s in
  match kget ibk (fst p) with
  | Some i0 =>
      if match i0, snd p with Some a, Some b => Nat.eqb a b | None, None => true | _, _ => false end
      then (ibk, dupes)
      else (ibk, if memk (fst p) dupes then dupes else dupes ++ [fst p])
  | None => (dset key_eqb (fst p) (snd p) ibk, dupes)
  end.

Lemma fold_left_map_gen : forall {A B S} (f : S -> B -> S) (g : A -> B) (l : list A) (s : S),
  fold_left f (map g l) s = fold_left (fun s a => f s (g a)) l s.
Proof. induction l as [|a r IH]; intros s; cbn; [reflexivity|apply IH]. Qed.

Lemma fold_left_ext_eq : forall {A S} (f g : S -> A -> S), (forall s a, f s a = g s a) ->
  forall l s, fold_left f l s = fold_left g l s.
Proof. intros A S f g H. induction l as [|a r IH]; intros s; cbn; [reflexivity|]. now rewrite H, IH. Qed.

Lemma dupes_step_flat : forall r s,
  dupes_step s r = fold_left pstep (map (fun k => (k, m_idx r)) (m_rend r :: m_objs r)) s.
Proof.
  intros r s. unfold dupes_step. rewrite fold_left_map_gen.
  apply fold_left_ext_eq. intros [ibk dupes] k. reflexivity.
Qed.

Lemma dupes_flat : forall rw s, fold_left dupes_step rw s = fold_left pstep (kpairs rw) s.
Proof.
  induction rw as [|r rest IH]; intros s; [reflexivity|].
  cbn [fold_left kpairs flat_map]. fold (kpairs rest). rewrite fold_left_app, <- dupes_step_flat. apply IH.
Qed.

Definition oeqb (a b : option nat) : bool :=
  match a, b with Some a, Some b => Nat.eqb a b | None, None => true | _, _ => false end.
Lemma oeqb_eq : forall a b, oeqb a b = true <-> a = b.
Proof.
  destruct a, b; cbn; split; intro H; try discriminate; try reflexivity.
  - apply Nat.eqb_eq in H. now subst.
  - injection H as ->. apply Nat.eqb_refl.
Qed.

Definition dinv (done : list (key * option nat)) (s : list (key * option nat) * list key) : Prop :=
  (forall k i0, kget (fst s) k = Some i0 -> In (k, i0) done) /\
  (forall k i, In (k, i) done -> exists i0, kget (fst s) k = Some i0 /\ (i0 = i \/ In k (snd s))) /\
  (forall k, In k (snd s) -> exists i1 i2, In (k, i1) done /\ In (k, i2) done /\ i1 <> i2).

Lemma pstep_inv : forall done s p, dinv done s -> dinv (done ++ [p]) (pstep s p).
Proof.
  intros done [ibk dupes] [k i] (I1 & I2 & I3). unfold pstep. cbn [fst snd] in *.
  destruct (kget ibk k) as [i0|] eqn:E.
  - fold (oeqb i0 i). destruct (oeqb i0 i) eqn:Eo.
    + apply oeqb_eq in Eo. subst i0. repeat split; cbn [fst snd].
      * intros k' i' H. apply in_or_app. left. now apply I1.
      * intros k' i' H. apply in_app_or in H as [H|[H|[]]].
        -- apply I2 in H. exact H.
        -- injection H as <- <-. exists i. split; [assumption|now left].
      * intros k' H. destruct (I3 _ H) as (i1 & i2 & H1 & H2 & Hne).
        exists i1, i2. repeat split; try assumption; apply in_or_app; now left.
    + assert (Hne : i0 <> i). { intro Hx. apply oeqb_eq in Hx. congruence. }
      assert (Hdup : forall k', In k' (if memk k dupes then dupes else dupes ++ [k]) <-> k' = k \/ In k' dupes).
      { intro k'. destruct (memk k dupes) eqn:Em.
        - apply memk_In in Em. split; [tauto|]. intros [->|H]; assumption.
        - rewrite in_app_iff. cbn [In]. split; [intros [H|[H|[]]]; auto|intros [H|H]; auto]. }
      repeat split; cbn [fst snd].
      * intros k' i' H. apply in_or_app. left. now apply I1.
      * intros k' i' H. apply in_app_or in H as [H|[H|[]]].
        -- destruct (I2 _ _ H) as (j & Hj & Hor). exists j. split; [assumption|].
           destruct Hor as [Hor|Hor]; [now left|right]. apply Hdup. now right.
        -- injection H as <- <-. exists i0. split; [assumption|]. right. apply Hdup. now left.
      * intros k' H. apply Hdup in H as [->|H].
        -- exists i0, i. repeat split; try assumption.
           ++ apply in_or_app. left. now apply I1.
           ++ apply in_or_app. right. now left.
        -- destruct (I3 _ H) as (i1 & i2 & H1 & H2 & Hn).
           exists i1, i2. repeat split; try assumption; apply in_or_app; now left.
  - repeat split; cbn [fst snd].
    + intros k' i' H. rewrite (dget_dset key_eqb key_eqb_eq) in H. apply in_or_app.
      destruct (key_eqb k' k) eqn:Ek.
      * apply key_eqb_eq in Ek. subst k'. injection H as <-. right. now left.
      * left. now apply I1.
    + intros k' i' H. rewrite (dget_dset key_eqb key_eqb_eq). apply in_app_or in H as [H|[H|[]]].
      * destruct (key_eqb k' k) eqn:Ek.
        -- apply key_eqb_eq in Ek. subst k'. destruct (I2 _ _ H) as (j & Hj & _). congruence.
        -- apply I2 in H. exact H.
      * injection H as <- <-. rewrite key_eqb_refl. exists i. split; [reflexivity|now left].
    + intros k' H. destruct (I3 _ H) as (i1 & i2 & H1 & H2 & Hn).
      exists i1, i2. repeat split; try assumption; apply in_or_app; now left.
Qed.

Lemma pfold_inv : forall ps done s, dinv done s -> dinv (done ++ ps) (fold_left pstep ps s).
Proof.
  induction ps as [|p r IH]; intros done s H; cbn [fold_left].
  - now rewrite app_nil_r.
  - replace (done ++ p :: r) with ((done ++ [p]) ++ r) by (rewrite <- app_assoc; reflexivity).
    apply IH. now apply pstep_inv.
Qed.

Lemma dupes_inv : forall rw, dinv (kpairs rw) (fold_left dupes_step rw ([], [])).
Proof.
  intro rw. rewrite dupes_flat. apply (pfold_inv (kpairs rw) [] ([], [])).
  repeat split; cbn; intros; try discriminate; contradiction.
Qed.

Lemma In_kpairs : forall rw k i,
  In (k, i) (kpairs rw) <-> exists r, In r rw /\ m_idx r = i /\ In k (m_rend r :: m_objs r).
Proof.
  intros rw k i. unfold kpairs. rewrite in_flat_map. split.
  - intros (r & Hr & H). apply in_map_iff in H as (k' & E & Hk). injection E as -> <-. eauto.
  - intros (r & Hr & <- & Hk). exists r. split; [assumption|]. apply in_map_iff. eauto.
Qed.

(* soundness and completeness of the duplicate detection *)
Theorem dupes_sound : forall rw k, In k (dupes_of rw) ->
  exists r1 r2, In r1 rw /\ In r2 rw /\ m_idx r1 <> m_idx r2 /\
                In k (m_rend r1 :: m_objs r1) /\ In k (m_rend r2 :: m_objs r2).
Proof.
  intros rw k H. destruct (dupes_inv rw) as (_ & _ & I3). destruct (I3 _ H) as (i1 & i2 & H1 & H2 & Hn).
  apply In_kpairs in H1 as (r1 & ? & ? & ?). apply In_kpairs in H2 as (r2 & ? & ? & ?).
  exists r1, r2. repeat split; try assumption. congruence.
Qed.

Theorem dupes_complete : forall rw k r1 r2, In r1 rw -> In r2 rw -> m_idx r1 <> m_idx r2 ->
  In k (m_rend r1 :: m_objs r1) -> In k (m_rend r2 :: m_objs r2) -> In k (dupes_of rw).
Proof.
  intros rw k r1 r2 H1 H2 Hn K1 K2. destruct (dupes_inv rw) as (_ & I2 & _).
  assert (P1 : In (k, m_idx r1) (kpairs rw)) by (apply In_kpairs; eauto).
  assert (P2 : In (k, m_idx r2) (kpairs rw)) by (apply In_kpairs; eauto).
  destruct (I2 _ _ P1) as (a & Ha & [Ea|Da]); [|exact Da].
  destruct (I2 _ _ P2) as (b & Hb & [Eb|Db]); [|exact Db].
  congruence.
Qed.

(* ---------- what dget of the finished keymap returns ---------- *)
Definition bykeys (rw : list mrec) : list (key * mrec) := map (fun r => (m_key r, r)) rw.

Lemma alast_amb : forall dupes k,
  kalast (map (fun k => (k, amb_rec k)) dupes) k = if memk k dupes then Some (amb_rec k) else None.
Proof.
  induction dupes as [|d r IH]; intros k; cbn [map alast memk existsb]; [reflexivity|].
  fold (memk k r). rewrite IH. destruct (memk k r); [now rewrite orb_true_r|].
  rewrite orb_false_r. destruct (key_eqb k d) eqn:E; [|reflexivity].
  apply key_eqb_eq in E. now subst.
Qed.

Definition keep (excl : list key) (o : key) : bool := negb (memk o excl).

Lemma alast_objs_excl : forall (r : mrec) os excl k, ~ In k excl ->
  kalast (map (fun o => (o, r)) (filter (keep excl) os)) k =
  kalast (map (fun o => (o, r)) (filter (keep []) os)) k.
Proof.
  intros r os excl k Hk. induction os as [|o os IHo]; [reflexivity|].
  cbn [filter]. assert (E0 : keep [] o = true) by reflexivity. rewrite E0.
  destruct (keep excl o) eqn:Em; cbn [map alast].
  { rewrite IHo. reflexivity. }
  rewrite IHo.
  destruct (kalast (map (fun o0 => (o0, r)) (filter (keep []) os)) k) eqn:E2; [reflexivity|].
  destruct (key_eqb k o) eqn:Eo; [|reflexivity]. exfalso.
  apply key_eqb_eq in Eo. subst o. unfold keep in Em. apply negb_false_iff, memk_In in Em. exact (Hk Em).
Qed.

Lemma alast_obj_entries_excl : forall rw excl k, ~ In k excl ->
  kalast (obj_entries rw excl) k = kalast (obj_entries rw []) k.
Proof.
  intros rw excl k Hk. unfold obj_entries.
  induction rw as [|r rest IH]; [reflexivity|].
  cbn [flat_map]. rewrite !(alast_app key_eqb), IH. fold (keep excl) (keep []). rewrite (alast_objs_excl r (m_objs r) excl k Hk). reflexivity.
Qed.

Lemma In_obj_entries : forall rw excl k r,
  In (k, r) (obj_entries rw excl) <-> In r rw /\ In k (m_objs r) /\ ~ In k excl.
Proof.
  intros rw excl k r. unfold obj_entries. rewrite in_flat_map. split.
  - intros (r' & Hr & H). apply in_map_iff in H as (o & E & Ho). injection E as -> ->.
    apply filter_In in Ho as [Ho Hf]. apply negb_true_iff, memk_false in Hf. auto.
  - intros (Hr & Ho & Hx). exists r. split; [assumption|]. apply in_map_iff. exists k. split; [reflexivity|].
    apply filter_In. split; [assumption|]. now apply negb_true_iff, memk_false.
Qed.

Definition dupes_path (rw : list mrec) (n : nat) : bool :=
  negb (Nat.eqb (length (by_key_of rw)) n) || negb (Nat.eqb (length (by_key_of rw)) (length rw)).

(* the keymap of a compiled statement (n > 0) *)
Lemma keymap_get_amb : forall rw n tr k, n <> 0 -> dupes_path rw n = true -> In k (dupes_of rw) ->
  kget (keymap_of rw n tr) k = Some (amb_rec k).
Proof.
  intros rw n tr k Hn Hd Hk. unfold keymap_of. apply Nat.eqb_neq in Hn. rewrite Hn. cbn [negb andb].
  unfold dupes_path in Hd. rewrite Hd.
  rewrite (dget_dupdate key_eqb key_eqb_eq), alast_NoDup_dget
    by (apply (dupdate_NoDup key_eqb key_eqb_eq), dict_of_NoDup).
  rewrite (dget_dupdate key_eqb key_eqb_eq), alast_amb.
  apply memk_In in Hk. now rewrite Hk.
Qed.

Lemma keymap_get_plain : forall rw n tr k, n <> 0 -> (dupes_path rw n = true -> ~ In k (dupes_of rw)) ->
  kget (keymap_of rw n tr) k =
  match kalast (bykeys rw) k with Some r => Some r | None => kalast (obj_entries rw []) k end.
Proof.
  intros rw n tr k Hn Hk. unfold keymap_of. apply Nat.eqb_neq in Hn. rewrite Hn. cbn [negb andb].
  fold (dupes_path rw n). destruct (dupes_path rw n) eqn:Hd.
  - specialize (Hk eq_refl).
    rewrite (dget_dupdate key_eqb key_eqb_eq), alast_NoDup_dget
      by (apply (dupdate_NoDup key_eqb key_eqb_eq), dict_of_NoDup).
    rewrite (dget_dupdate key_eqb key_eqb_eq), alast_amb.
    apply memk_false in Hk. rewrite Hk. unfold by_key_of. rewrite (dget_dict_of key_eqb key_eqb_eq).
    fold (bykeys rw). destruct (kalast (bykeys rw) k); [reflexivity|].
    rewrite (dget_dict_of key_eqb key_eqb_eq). apply alast_obj_entries_excl. now apply memk_false.
  - rewrite (dget_dupdate key_eqb key_eqb_eq), alast_NoDup_dget by apply dict_of_NoDup.
    unfold by_key_of. rewrite (dget_dict_of key_eqb key_eqb_eq). fold (bykeys rw).
    destruct (kalast (bykeys rw) k); [reflexivity|]. apply (dget_dict_of key_eqb key_eqb_eq).
Qed.

Lemma lookup_of_get : forall km k r i, kget km k = Some r -> m_idx r = Some i -> lookup km k = Ok i.
Proof. intros km k r i H Hi. unfold lookup, k2i_get. now rewrite H, Hi. Qed.

Lemma lookup_Ok_get : forall km k i, lookup km k = Ok i -> exists r, kget km k = Some r /\ m_idx r = Some i.
Proof.
  intros km k i H. unfold lookup, k2i_get, dmem in H. destruct (kget km k) as [r|] eqn:E.
  - destruct (m_idx r) eqn:Ei; [injection H as ->; eauto|discriminate].
  - discriminate.
Qed.

(* ---- ambiguous key raises (on the path where the duplicate detection runs) ---- *)
Theorem ambiguous_raises_guarded : forall rw n tr k r1 r2,
  n <> 0 -> dupes_path rw n = true ->
  In r1 rw -> In r2 rw -> m_idx r1 <> m_idx r2 ->
  In k (m_rend r1 :: m_objs r1) -> In k (m_rend r2 :: m_objs r2) ->
  lookup (keymap_of rw n tr) k = Raise Ambiguous.
Proof.
  intros rw n tr k r1 r2 Hn Hd H1 H2 Hne K1 K2.
  pose proof (keymap_get_amb rw n tr k Hn Hd (dupes_complete rw k r1 r2 H1 H2 Hne K1 K2)) as G.
  unfold lookup, k2i_get, dmem. rewrite G. reflexivity.
Qed.

(* ---- a successful lookup never returns a column the key does not denote ---- *)
Theorem no_wrong_column_compiled : forall rw n tr k i, n <> 0 ->
  lookup (keymap_of rw n tr) k = Ok i ->
  exists r, In r rw /\ m_idx r = Some i /\ In k (m_key r :: m_objs r).
Proof.
  intros rw n tr k i Hn H. apply lookup_Ok_get in H as (r & G & Hi).
  destruct (dupes_path rw n) eqn:Hd.
  - destruct (in_dec (fun a b => match key_eqb a b as x return key_eqb a b = x -> {a = b} + {a <> b} with
                                 | true => fun E => left (proj1 (key_eqb_eq a b) E)
                                 | false => fun E => right (proj1 (key_eqb_neq a b) E)
                                 end eq_refl) k (dupes_of rw)) as [Hin|Hnin].
    + rewrite (keymap_get_amb rw n tr k Hn Hd Hin) in G. injection G as <-. discriminate.
    + rewrite (keymap_get_plain rw n tr k Hn (fun _ => Hnin)) in G.
      destruct (kalast (bykeys rw) k) as [r'|] eqn:E.
      * injection G as ->. apply (alast_Some_In key_eqb key_eqb_eq) in E.
        apply in_map_iff in E as (r0 & E0 & Hr0). injection E0 as E1 E2. subst r0. exists r. cbn [In]. auto.
      * apply (alast_Some_In key_eqb key_eqb_eq), In_obj_entries in G as (Hr & Ho & _).
        exists r. cbn [In]. auto.
  - rewrite (keymap_get_plain rw n tr k Hn) in G by (intro Hx; congruence).
    destruct (kalast (bykeys rw) k) as [r'|] eqn:E.
    + injection G as ->. apply (alast_Some_In key_eqb key_eqb_eq) in E.
      apply in_map_iff in E as (r0 & E0 & Hr0). injection E0 as E1 E2. subst r0. exists r. cbn [In]. auto.
    + apply (alast_Some_In key_eqb key_eqb_eq), In_obj_entries in G as (Hr & Ho & _).
      exists r. cbn [In]. auto.
Qed.

(* no compiled columns (plain text): the key is the cursor name of the column, or - on dialects that
   translate cursor names - the untranslated name of a column with the same translated name *)
Theorem no_wrong_column_plain : forall rw tr k i,
  lookup (keymap_of rw 0 tr) k = Ok i ->
  exists r, In r rw /\ m_idx r = Some i /\
            (m_key r = k \/ exists r', In r' rw /\ m_untr r' = k /\ m_key r' = m_key r).
Proof.
  intros rw tr k i H. apply lookup_Ok_get in H as (r & G & Hi). unfold keymap_of in G. cbn [Nat.eqb negb andb] in G.
  assert (BK : forall k r, kget (by_key_of rw) k = Some r -> In r rw /\ m_key r = k).
  { intros k0 r0 E. unfold by_key_of in E. rewrite (dget_dict_of key_eqb key_eqb_eq) in E.
    apply (alast_Some_In key_eqb key_eqb_eq), in_map_iff in E as (r1 & E1 & Hr1). injection E1 as E2 E3. subst r1. auto. }
  destruct tr.
  - rewrite (dget_dupdate key_eqb key_eqb_eq) in G.
    destruct (kalast _ k) as [x|] eqn:E.
    + injection G as ->. apply (alast_Some_In key_eqb key_eqb_eq), in_flat_map in E as (r' & Hr' & Hin).
      destruct (m_untr r') eqn:Eu; [destruct Hin| |];
        (destruct (kget (by_key_of rw) (m_key r')) as [x|] eqn:Ex; [|destruct Hin];
         destruct Hin as [Hin|[]]; injection Hin as <- <-; apply BK in Ex as [Hx Hk];
         exists x; repeat split; try assumption; right; exists r'; auto).
    + apply BK in G as [Hr Hk]. exists r. auto.
  - apply BK in G as [Hr Hk]. exists r. auto.
Qed.
