(* C20 - spec side of the URL model: Gallina re-implementations of the CPython library functions that
   engine/url.py calls (str.encode('utf-8'), bytes.decode('utf-8','replace'), urllib.parse.quote,
   quote_plus, unquote, parse_qsl, int(), str(int), list.sort on str).  Definitions only.  They are
   validated against CPython on every run (specs/c20.py, ops 2-7).
   Strings are lists of code points (N); byte strings are lists of N below 256. *)
From Coq Require Import List NArith ZArith Bool Decimal DecimalZ.
Import ListNotations.
Open Scope N_scope.

Definition str := list N.

Definition mem (c : N) (l : list N) : bool := existsb (N.eqb c) l.
Definition nb (c : N) : N -> bool := fun x => negb (x =? c).
Definition is_nil {A} (l : list A) : bool := match l with [] => true | _ => false end.
Fixpoint str_eqb (a b : str) : bool :=
  match a, b with
  | [], [] => true
  | x :: a', y :: b' => (x =? y) && str_eqb a' b'
  | _, _ => false
  end.

(* ---------------- UTF-8 ---------------- *)
(* Unicode scalar values: what str.encode('utf-8', 'strict') accepts *)
Definition scalar (c : N) : bool := (c <? 0xD800) || ((0xDFFF <? c) && (c <=? 0x10FFFF)).

Definition utf8_char (c : N) : list N :=
  if c <? 0x80 then [c]
  else if c <? 0x800 then [0xC0 + c / 64; 0x80 + c mod 64]
  else if c <? 0x10000 then [0xE0 + c / 4096; 0x80 + (c / 64) mod 64; 0x80 + c mod 64]
  else [0xF0 + c / 262144; 0x80 + (c / 4096) mod 64; 0x80 + (c / 64) mod 64; 0x80 + c mod 64].

Definition utf8 (s : str) : list N := flat_map utf8_char s.

(* s.encode('utf-8', 'strict'): None = UnicodeEncodeError (lone surrogate) *)
Definition utf8_strict (s : str) : option (list N) :=
  if forallb scalar s then Some (utf8 s) else None.

Definition cont (b : N) : bool := (0x80 <=? b) && (b <=? 0xBF).
(* admissible second byte after a 3-byte / 4-byte lead (no overlong forms, no surrogates, <= 10FFFF) *)
Definition second3 (b0 b1 : N) : bool :=
  if b0 =? 0xE0 then (0xA0 <=? b1) && (b1 <=? 0xBF)
  else if b0 =? 0xED then (0x80 <=? b1) && (b1 <=? 0x9F)
  else cont b1.
Definition second4 (b0 b1 : N) : bool :=
  if b0 =? 0xF0 then (0x90 <=? b1) && (b1 <=? 0xBF)
  else if b0 =? 0xF4 then (0x80 <=? b1) && (b1 <=? 0x8F)
  else cont b1.

Definition REPL : N := 0xFFFD.

(* bytes.decode('utf-8', 'replace'): every maximal ill-formed prefix becomes one U+FFFD *)
Fixpoint utf8_dec (bs : list N) : str :=
  match bs with
  | [] => []
  | b0 :: t0 =>
    if b0 <? 0x80 then b0 :: utf8_dec t0
    else if b0 <? 0xC2 then REPL :: utf8_dec t0
    else if b0 <? 0xE0 then
      match t0 with
      | b1 :: t1 =>
        if cont b1 then ((b0 - 0xC0) * 64 + (b1 - 0x80)) :: utf8_dec t1 else REPL :: utf8_dec t0
      | [] => [REPL]
      end
    else if b0 <? 0xF0 then
      match t0 with
      | b1 :: t1 =>
        if second3 b0 b1 then
          match t1 with
          | b2 :: t2 =>
            if cont b2 then (((b0 - 0xE0) * 64 + (b1 - 0x80)) * 64 + (b2 - 0x80)) :: utf8_dec t2
            else REPL :: utf8_dec t1
          | [] => [REPL]
          end
        else REPL :: utf8_dec t0
      | [] => [REPL]
      end
    else if b0 <? 0xF5 then
      match t0 with
      | b1 :: t1 =>
        if second4 b0 b1 then
          match t1 with
          | b2 :: t2 =>
            if cont b2 then
              match t2 with
              | b3 :: t3 =>
                if cont b3 then
                  ((((b0 - 0xF0) * 64 + (b1 - 0x80)) * 64 + (b2 - 0x80)) * 64 + (b3 - 0x80)) :: utf8_dec t3
                else REPL :: utf8_dec t2
              | [] => [REPL]
              end
            else REPL :: utf8_dec t1
          | [] => [REPL]
          end
        else REPL :: utf8_dec t0
      | [] => [REPL]
      end
    else REPL :: utf8_dec t0
  end.

(* ---------------- percent encoding ---------------- *)
(* urllib.parse._ALWAYS_SAFE: A-Z a-z 0-9 _ . - ~ *)
Definition always_safe (b : N) : bool :=
  ((65 <=? b) && (b <=? 90)) || ((97 <=? b) && (b <=? 122)) || ((48 <=? b) && (b <=? 57))
  || (b =? 95) || (b =? 46) || (b =? 45) || (b =? 126).

Definition hexdig (n : N) : N := if n <? 10 then 48 + n else 55 + n.   (* '%02X': upper case *)
Definition hexval (c : N) : option N :=
  if (48 <=? c) && (c <=? 57) then Some (c - 48)
  else if (65 <=? c) && (c <=? 70) then Some (c - 55)
  else if (97 <=? c) && (c <=? 102) then Some (c - 87)
  else None.

(* _Quoter.__missing__ : chr(b) if b in safe else '%{:02X}' *)
Definition quote_byte (safe : list N) (b : N) : list N :=
  if always_safe b || mem b safe then [b] else [37; hexdig (b / 16); hexdig (b mod 16)].

(* quote(s, safe): None = UnicodeEncodeError.  [safe] is an ASCII constant at every call site. *)
Definition quote (safe : list N) (s : str) : option str :=
  match utf8_strict s with
  | Some bs => Some (flat_map (quote_byte safe) bs)
  | None => None
  end.

Definition replace (a b : N) (s : str) : str := map (fun c => if c =? a then b else c) s.

(* quote_plus(s) = quote(s, ' ').replace(' ', '+')  (the "no space in s" shortcut of CPython takes the
   same value) *)
Definition quote_plus (s : str) : option str :=
  match quote [32] s with Some q => Some (replace 32 43 q) | None => None end.

(* _unquote_impl on an ASCII string: '%' followed by two hex digits is one byte, any other '%' stays *)
Fixpoint pct_decode (s : list N) : list N :=
  match s with
  | [] => []
  | c :: t =>
    if c =? 37 then
      match t with
      | a :: b :: r =>
        match hexval a, hexval b with
        | Some x, Some y => (16 * x + y) :: pct_decode r
        | _, _ => c :: pct_decode t
        end
      | _ => c :: pct_decode t
      end
    else c :: pct_decode t
  end.

(* unquote(s, 'utf-8', 'replace'): maximal ASCII runs are percent-decoded and UTF-8-decoded with
   replacement, non-ASCII characters are kept.  [acc] = current ASCII run, reversed. *)
Definition flush (acc : list N) : str := utf8_dec (pct_decode (List.rev acc)).
Fixpoint unq_go (acc : list N) (s : str) : str :=
  match s with
  | [] => flush acc
  | c :: r => if c <? 128 then unq_go (c :: acc) r else flush acc ++ c :: unq_go [] r
  end.
Definition unquote (s : str) : str := unq_go [] s.
Definition unquote_plus (s : str) : str := unquote (replace 43 32 s).

(* ---------------- splitting ---------------- *)
(* (longest prefix satisfying p, rest) *)
Fixpoint span (p : N -> bool) (l : str) : str * str :=
  match l with
  | [] => ([], [])
  | x :: r => if p x then let (a, b) := span p r in (x :: a, b) else ([], l)
  end.

(* split at the LAST occurrence of c *)
Fixpoint rsplit (c : N) (l : str) : option (str * str) :=
  match l with
  | [] => None
  | x :: r =>
    match rsplit c r with
    | Some (a, b) => Some (x :: a, b)
    | None => if x =? c then Some ([], r) else None
    end
  end.

(* str.split(c): always at least one piece *)
Fixpoint split_on (c : N) (l : str) : list str :=
  match l with
  | [] => [[]]
  | x :: r =>
    if x =? c then [] :: split_on c r
    else match split_on c r with h :: t => (x :: h) :: t | [] => [[x]] end
  end.

Fixpoint join (c : N) (ps : list str) : str :=
  match ps with
  | [] => []
  | [p] => p
  | p :: r => p ++ c :: join c r
  end.

(* parse_qsl(qs, keep_blank_values=kb), separator '&', non-strict *)
Definition qsl_field (kb : bool) (nv : str) : list (str * str) :=
  if is_nil nv then []
  else
    let (k, rest) := span (nb 61) nv in
    match rest with
    | _ :: v => if negb (is_nil v) || kb then [(unquote_plus k, unquote_plus v)] else []
    | [] => if kb then [(unquote_plus k, unquote_plus [])] else []   (* no '=': nv.append('') *)
    end.
Definition parse_qsl (kb : bool) (qs : str) : list (str * str) :=
  if is_nil qs then [] else flat_map (qsl_field kb) (split_on 38 qs).

(* ---------------- integers ---------------- *)
Fixpoint uint_digits (d : uint) : str :=
  match d with
  | Nil => []
  | D0 d => 48 :: uint_digits d | D1 d => 49 :: uint_digits d | D2 d => 50 :: uint_digits d
  | D3 d => 51 :: uint_digits d | D4 d => 52 :: uint_digits d | D5 d => 53 :: uint_digits d
  | D6 d => 54 :: uint_digits d | D7 d => 55 :: uint_digits d | D8 d => 56 :: uint_digits d
  | D9 d => 57 :: uint_digits d
  end.
(* str(int) *)
Definition str_of_Z (z : Z) : str :=
  match Z.to_int z with Pos d => uint_digits d | Neg d => 45 :: uint_digits d end.

Fixpoint digits_uint (s : str) : option uint :=
  match s with
  | [] => Some Nil
  | c :: r =>
    match digits_uint r with
    | None => None
    | Some d =>
      if c =? 48 then Some (D0 d) else if c =? 49 then Some (D1 d) else if c =? 50 then Some (D2 d)
      else if c =? 51 then Some (D3 d) else if c =? 52 then Some (D4 d) else if c =? 53 then Some (D5 d)
      else if c =? 54 then Some (D6 d) else if c =? 55 then Some (D7 d) else if c =? 56 then Some (D8 d)
      else if c =? 57 then Some (D9 d) else None
    end
  end.
(* int(s) for s in [+-]?[0-9]+ ; None = ValueError.  (CPython also accepts surrounding white space,
   '_' between digits and non-ASCII decimal digits: outside the model, see ASSUMPTIONS.) *)
Definition py_int (s : str) : option Z :=
  match s with
  | [] => None
  | c :: r =>
    if c =? 45 then
      (if is_nil r then None else option_map (fun d => Z.of_int (Neg d)) (digits_uint r))
    else if c =? 43 then
      (if is_nil r then None else option_map (fun d => Z.of_int (Pos d)) (digits_uint r))
    else option_map (fun d => Z.of_int (Pos d)) (digits_uint s)
  end.

(* ---------------- list.sort() on str keys: code point lexicographic order ---------------- *)
Fixpoint str_leb (a b : str) : bool :=
  match a, b with
  | [], _ => true
  | _ :: _, [] => false
  | x :: a', y :: b' => if x <? y then true else if y <? x then false else str_leb a' b'
  end.
Fixpoint insert_key (k : str) (l : list str) : list str :=
  match l with [] => [k] | y :: r => if str_leb k y then k :: l else y :: insert_key k r end.
Definition sort_keys (l : list str) : list str := fold_right insert_key [] l.
