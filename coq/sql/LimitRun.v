(* executable entry point for the correspondence check of C18 *)
From Coq Require Import List ZArith Bool.
Import ListNotations.
From SAV.base Require Import Tree.
From SAV.sql Require Import Limit.
Open Scope Z_scope.

Definition row := list Z.

Fixpoint row_eqb (a b : row) : bool :=
  match a, b with
  | [], [] => true
  | x :: a', y :: b' => (x =? y) && row_eqb a' b'
  | _, _ => false
  end.
(* lexicographic <= ; used only to canonicalise the (unordered) output of a wrapper *)
Fixpoint row_leb (a b : row) : bool :=
  match a, b with
  | [], _ => true
  | _ :: _, [] => false
  | x :: a', y :: b' => if x <? y then true else if y <? x then false else row_leb a' b'
  end.
Fixpoint insert_row (x : row) (l : list row) : list row :=
  match l with [] => [x] | y :: r => if row_leb x y then x :: l else y :: insert_row x r end.
Definition sort_rows (l : list row) : list row := fold_right insert_row [] l.

(* the ORDER BY key is the first [nkey] columns of the projection *)
Definition key_eqb (nkey : nat) (a b : row) : bool := row_eqb (firstn nkey a) (firstn nkey b).

Definition as_clause (t : tree) : option clause :=
  match t with
  | L [s; I v] => match as_bool s with Some b => Some (Clause b v) | None => None end
  | _ => None
  end.
Definition as_off (t : tree) : option (option clause) :=
  match t with
  | L [] => Some None
  | _ => match as_clause t with Some c => Some (Some c) | None => None end
  end.
Definition as_lim (t : tree) : option limiting :=
  match t with
  | L [] => Some NoLimit
  | L [I 0; s; I v] => option_map Limit (as_clause (L [s; I v]))
  | L [I 1; s; I v; p; w] =>
    match as_clause (L [s; I v]), as_bool p, as_bool w with
    | Some c, Some pb, Some wb => Some (Fetch c pb wb)
    | _, _, _ => None
    end
  | _ => None
  end.
Definition as_dialect1 (z : Z) : option dialect :=
  match z with
  | 0 => Some Default | 1 => Some SQLite | 2 => Some MySQL | 3 => Some PG
  | 4 => Some (MSSQL false) | 5 => Some (MSSQL true)
  | 6 => Some (Oracle false) | 7 => Some (Oracle true)
  | _ => None
  end.
(* 10 + code: the statement is a compound select (UNION ...) *)
Definition as_dialect (z : Z) : option (dialect * bool) :=
  if z <? 10 then option_map (fun d => (d, false)) (as_dialect1 z)
  else option_map (fun d => (d, true)) (as_dialect1 (z - 10)).

Definition of_cmp (c : cmp) : tree :=
  I (match c with CLt => 0 | CLe => 1 | CGt => 2 | CGe => 3 | CEq => 4 | CNe => 5 end).
(* arithmetic with the run-time values substituted at the leaves *)
Fixpoint of_arith (lim off : option Z) (a : arith) : tree :=
  match a with
  | ALim => L [I 0; of_optZ lim]
  | AOff => L [I 0; of_optZ off]
  | AAdd x y => L [I 1; of_arith lim off x; of_arith lim off y]
  end.
Definition of_preds (lim off : option Z) (ps : list pred) : tree :=
  L (map (fun p => L [of_cmp (fst p); of_arith lim off (snd p)]) ps).

Definition of_plan (distinct : bool) (p : plan) : tree :=
  match p with
  | PNone => L [I 0]
  | PLimit l o => L [I 1; I l; of_optZ o]
  | PLimitAll o => L [I 2; I o]
  | PMySQL o l => L [I 3; of_optZ o; I l]
  | PFetch o f pc ti => L [I 4; of_optZ o; of_optZ f; of_bool pc; of_bool ti]
  | PTop n pc ti => L [I 5; I n; of_bool pc; of_bool ti]
    (* the numbered select keeps the DISTINCT of the original one *)
  | PRowNumber ps lim off => L [I 6; of_preds lim off ps; of_bool distinct]
  | PRowNum inner outer lim off =>
    L [I 7; of_preds lim off inner;
       match outer with None => L [] | Some ps => L [of_preds lim off ps] end]
  | PError c => L [I 8; I c]
  end.

Definition of_rows (rs : list row) : tree := L (map (fun r => L (map I r)) rs).

Definition run_one (dc : dialect * bool) (lim : limiting) (off : option clause) (ordered distinct : bool)
                   (nkey : nat) (pre : list row) : tree :=
  let s := Sel lim off ordered distinct in
  let p := if snd dc then compound_form (fst dc) s else which_form (fst dc) s in
  let rows := exec row row_eqb (key_eqb nkey) (fun l => l) p distinct pre in
  L [of_plan distinct p;
     if ordered then of_rows (if wrapped p then sort_rows rows else rows) else L []].

Definition as_step (t : tree) : option (limiting * option clause) :=
  match t with
  | L [tl; toff] =>
    match as_lim tl, as_off toff with Some l, Some o => Some (l, o) | _, _ => None end
  | _ => None
  end.

(* input   L [I dialect; lim; off; I ordered; I distinct; I nkey; L rows-before-DISTINCT; _ ]
             (the last component - tables and query shape - is for the implementation only)
   output  L [plan; rows]   rows = L [] when the statement has no ORDER BY (nothing to compare);
                            sorted when the plan is a wrapper whose outer SELECT has no ORDER BY
   cache history:
   input   L [I 100; I dialect; L [L [lim; off]; ...]; I ordered; I distinct; I nkey; L rows; _ ]
             statements of one structure executed one after the other through one compiled cache
   output  L [L [plan; rows]; ...]   each step exactly what a fresh compilation gives for its values *)
Definition run_case (t : tree) : tree :=
  match t with
  | L [I 100; I d; tsteps; tord; tdis; tk; tpre; _] =>
    match as_dialect d, as_list_of as_step tsteps, as_bool tord, as_bool tdis, as_nat tk,
          as_list_of (as_list_of as_Z) tpre with
    | Some d, Some steps, Some ordered, Some distinct, Some nkey, Some pre =>
      L (map (fun st => run_one d (fst st) (snd st) ordered distinct nkey pre) steps)
    | _, _, _, _, _, _ => bad_input
    end
  | L [I d; tl; toff; tord; tdis; tk; tpre; _] =>
    match as_dialect d, as_lim tl, as_off toff, as_bool tord, as_bool tdis, as_nat tk,
          as_list_of (as_list_of as_Z) tpre with
    | Some d, Some lim, Some off, Some ordered, Some distinct, Some nkey, Some pre =>
      run_one d lim off ordered distinct nkey pre
    | _, _, _, _, _, _, _ => bad_input
    end
  | _ => bad_input
  end.
