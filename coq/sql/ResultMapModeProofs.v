(* C11 - the three merge modes, lookup by object, _adapt_to_context, and the refutation witnesses *)
From Coq Require Import List NArith Bool Arith Lia.
Import ListNotations.
From SAV.sql Require Import ResultMap ResultMapDict ResultMapKeymapProofs.

Local Notation kget := (dget key_eqb).
Local Notation kalast := (alast key_eqb).

(* ---------- mapi ---------- *)
Lemma In_mapi_from : forall {A B} (f : nat -> A -> B) l s x,
  In x (mapi_from f s l) <-> exists i a, nth_error l i = Some a /\ x = f (s + i) a.
Proof.
  intros A B f. induction l as [|a r IH]; intros s x; cbn [mapi_from In].
  - split; [intros []|]. intros (i & a & H & _). destruct i; discriminate.
  - rewrite IH. split.
    + intros [H|(i & b & Hn & Hx)].
      * exists 0, a. rewrite Nat.add_0_r. auto.
      * exists (S i), b. rewrite Nat.add_succ_r. auto.
    + intros (i & b & Hn & Hx). destruct i as [|i].
      * injection Hn as ->. rewrite Nat.add_0_r in Hx. now left.
      * right. exists i, b. rewrite Nat.add_succ_r in Hx. auto.
Qed.

Lemma In_mapi : forall {A B} (f : nat -> A -> B) l x,
  In x (mapi f l) <-> exists i a, nth_error l i = Some a /\ x = f i a.
Proof. intros. unfold mapi. now rewrite In_mapi_from. Qed.

Lemma mapi_from_length : forall {A B} (f : nat -> A -> B) l s, length (mapi_from f s l) = length l.
Proof. induction l as [|a r IH]; intros s; cbn; [reflexivity|now rewrite IH]. Qed.

(* ---------- lookup by a key that only one column carries (any merge mode) ---------- *)
Theorem lookup_unique_key : forall rw n tr r o i,
  n <> 0 -> In r rw -> m_idx r = Some i -> In o (m_key r :: m_objs r) ->
  (forall r', In r' rw -> In o (m_key r' :: m_rend r' :: m_objs r') -> m_idx r' = Some i) ->
  lookup (keymap_of rw n tr) o = Ok i.
Proof.
  intros rw n tr r o i Hn Hr Hi Ho Huniq.
  assert (Hnd : dupes_path rw n = true -> ~ In o (dupes_of rw)).
  { intros _ Hd. apply dupes_sound in Hd as (r1 & r2 & H1 & H2 & Hne & K1 & K2).
    apply Hne. rewrite (Huniq r1 H1), (Huniq r2 H2); [reflexivity| |]; now right. }
  assert (G := keymap_get_plain rw n tr o Hn Hnd).
  destruct (kalast (bykeys rw) o) as [r'|] eqn:E.
  - apply (lookup_of_get _ _ _ _ G).
    apply (alast_Some_In key_eqb key_eqb_eq), in_map_iff in E as (r0 & E0 & Hr0).
    injection E0 as E1 E2. subst r0. apply Huniq; [assumption|]. left. assumption.
  - assert (Hobj : In o (m_objs r)).
    { destruct Ho as [Ho|Ho]; [|assumption]. exfalso.
      assert (Hin : In (o, r) (bykeys rw)) by (apply in_map_iff; exists r; rewrite Ho; auto).
      destruct (alast_In_Some key_eqb key_eqb_eq _ _ _ Hin) as [v Hv]. congruence. }
    assert (Hin : In (o, r) (obj_entries rw [])) by (apply In_obj_entries; auto).
    destruct (alast_In_Some key_eqb key_eqb_eq _ _ _ Hin) as [v Hv]. rewrite Hv in G.
    apply (lookup_of_get _ _ _ _ G).
    apply (alast_Some_In key_eqb key_eqb_eq), In_obj_entries in Hv as (Hv1 & Hv2 & _).
    apply Huniq; [assumption|]. right. right. assumption.
Qed.

(* ---------- positional 1:1 mode ---------- *)
Definition prec (i : nat) (e : rc) : mrec :=
  {| m_idx := Some i; m_ridx := RAt i; m_objs := rc_objs e; m_key := rc_name e; m_rend := rc_keyname e;
     m_untr := KN |}.

Lemma In_raw_positional : forall rcs r,
  In r (raw_positional rcs) <-> exists i e, nth_error rcs i = Some e /\ r = prec i e.
Proof. intros rcs r. unfold raw_positional. rewrite In_mapi. reflexivity. Qed.

Definition km_pos (rcs : list rc) (tr : bool) : keymap := keymap_of (raw_positional rcs) (length rcs) tr.

Theorem lookup_by_object : forall rcs tr i e o,
  nth_error rcs i = Some e -> In o (rc_name e :: rc_objs e) ->
  (forall j e', nth_error rcs j = Some e' -> In o (rc_name e' :: rc_keyname e' :: rc_objs e') -> j = i) ->
  lookup (km_pos rcs tr) o = Ok i.
Proof.
  intros rcs tr i e o Hn Ho Huniq. unfold km_pos.
  apply (lookup_unique_key _ _ _ (prec i e) o i).
  - intro H0. apply length_zero_iff_nil in H0. subst rcs. destruct i; discriminate.
  - apply In_raw_positional. eauto.
  - reflexivity.
  - exact Ho.
  - intros r' Hr' Hk. apply In_raw_positional in Hr' as (j & e' & Hj & ->). cbn [prec m_idx m_key m_rend m_objs] in *.
    now rewrite (Huniq j e' Hj Hk).
Qed.

Theorem no_wrong_column_positional : forall rcs tr k i,
  lookup (km_pos rcs tr) k = Ok i ->
  exists e, nth_error rcs i = Some e /\ In k (rc_name e :: rc_objs e).
Proof.
  intros rcs tr k i H. unfold km_pos in H.
  destruct (Nat.eq_dec (length rcs) 0) as [H0|H0].
  - apply length_zero_iff_nil in H0. subst rcs. destruct tr; cbv in H; discriminate.
  - apply no_wrong_column_compiled in H as (r & Hr & Hi & Hk); [|assumption].
    apply In_raw_positional in Hr as (j & e & Hj & ->). cbn [prec m_idx m_key m_objs] in *.
    injection Hi as ->. eauto.
Qed.

Theorem ambiguous_raises_positional_guarded : forall rcs tr k i j ei ej,
  dupes_path (raw_positional rcs) (length rcs) = true ->
  nth_error rcs i = Some ei -> nth_error rcs j = Some ej -> i <> j ->
  In k (rc_keyname ei :: rc_objs ei) -> In k (rc_keyname ej :: rc_objs ej) ->
  lookup (km_pos rcs tr) k = Raise Ambiguous.
Proof.
  intros rcs tr k i j ei ej Hd Hi Hj Hne Ki Kj. unfold km_pos.
  apply (ambiguous_raises_guarded _ _ _ _ (prec i ei) (prec j ej)); try assumption.
  - intro H0. apply length_zero_iff_nil in H0. subst rcs. destruct i; discriminate.
  - apply In_raw_positional. eauto.
  - apply In_raw_positional. eauto.
  - cbn. congruence.
Qed.

(* the duplicate detection is skipped when the primary names are pairwise distinct: a key carried by two
   columns then silently resolves to one of them (the unchanged code; reproduced on SQLite) *)
Definition w_q := KS (NP 10).  Definition w_bz := KS (NP 11).  Definition w_aq := KS (NP 12).
Definition w_z := KS (NP 13).
Definition w_rcs : list rc :=
  [ {| rc_keyname := w_q; rc_name := w_q; rc_objs := [KO 1; w_q; w_bz; w_aq] |};        (* a.q, key "b_z" *)
    {| rc_keyname := w_z; rc_name := w_z; rc_objs := [KO 2; w_z; w_z; w_bz] |} ].       (* b.z, legacy label "b_z" *)

Theorem ambiguous_raises_refuted :
  exists rcs tr k i j ei ej,
    nth_error rcs i = Some ei /\ nth_error rcs j = Some ej /\ i <> j /\
    In k (rc_keyname ei :: rc_objs ei) /\ In k (rc_keyname ej :: rc_objs ej) /\
    lookup (km_pos rcs tr) k = Ok j.
Proof.
  exists w_rcs, true, w_bz, 0, 1. eexists. eexists.
  split; [reflexivity|]. split; [reflexivity|]. split; [discriminate|].
  split; [cbn; tauto|]. split; [cbn; tauto|]. vm_compute. reflexivity.
Qed.

(* plain text (no compiled columns): duplicate cursor names are never detected *)
Theorem plain_text_duplicate_names_refuted :
  exists desc k, nth_error desc 0 = Some (k, KN) /\ nth_error desc 1 = Some (k, KN) /\
    lookup (keymap_of (raw_bynone desc) 0 true) k = Ok 1.
Proof. exists [(w_q, KN); (w_q, KN)], w_q. repeat split. Qed.

(* name matching with more cursor columns than compiled columns: two compiled columns with the same
   label.  Before 0c26c9c the scan was skipped here (3 distinct cursor names = 3 compiled columns) and
   the first LABEL OBJECT resolved to the second column; now every shared key raises *)
Definition w_foo := KS (NP 20).  Definition w_p := KS (NP 21).  Definition w_star := KS (NP 22).
Definition w_rcs2 : list rc :=
  [ {| rc_keyname := w_foo; rc_name := w_foo; rc_objs := [KO 1; w_foo] |};
    {| rc_keyname := w_foo; rc_name := w_foo; rc_objs := [KO 2; w_foo] |};
    {| rc_keyname := w_star; rc_name := w_star; rc_objs := [KO 3; w_star; w_star] |} ].
Example name_matching_duplicate_names_raise :
  let km := keymap_of (raw_byname w_rcs2 false [(w_foo, KN); (w_foo, KN); (w_p, KN); (w_q, KN)]) 3 true in
  map (lookup km) [KO 1; KO 2; w_foo; w_p; w_q] = [Raise Ambiguous; Raise Ambiguous; Raise Ambiguous; Ok 2; Ok 3].
Proof. vm_compute. reflexivity. Qed.

(* a primary name that two merged records share always switches the scan on (whatever the number of
   compiled columns): the number of distinct names is then smaller than the number of records *)
Lemma NoDup_map_inj_on : forall {A B} (f : A -> B) (l : list A) a b,
  NoDup (map f l) -> In a l -> In b l -> f a = f b -> a = b.
Proof.
  intros A B f. induction l as [|x l IH]; intros a b Hn Ha Hb E; [destruct Ha|].
  cbn in Hn. inversion Hn as [|? ? Hx Hn']; subst. destruct Ha as [->|Ha], Hb as [->|Hb]; try reflexivity.
  - exfalso. apply Hx. rewrite E. now apply in_map.
  - exfalso. apply Hx. rewrite <- E. now apply in_map.
  - now apply IH.
Qed.

Lemma shared_name_dupes_path : forall rw n r1 r2,
  In r1 rw -> In r2 rw -> r1 <> r2 -> m_key r1 = m_key r2 -> dupes_path rw n = true.
Proof.
  intros rw n r1 r2 H1 H2 Hne Hk. unfold dupes_path. apply orb_true_iff. right. apply negb_true_iff, Nat.eqb_neq.
  intro Hlen. apply Hne.
  assert (Hnd : NoDup (map fst (by_key_of rw))) by (unfold by_key_of; apply dict_of_NoDup).
  assert (Hincl : incl (map fst (by_key_of rw)) (map m_key rw)).
  { intros k Hin. unfold by_key_of, dict_of in Hin. apply (dupdate_keys_In key_eqb key_eqb_eq) in Hin as [Hin|[]].
    rewrite map_map in Hin. exact Hin. }
  assert (Hn2 : NoDup (map m_key rw)).
  { apply NoDup_incl_NoDup with (l := map fst (by_key_of rw)); [exact Hnd|rewrite !map_length; lia|exact Hincl]. }
  exact (NoDup_map_inj_on m_key rw r1 r2 Hn2 H1 H2 Hk).
Qed.

Theorem ambiguous_raises_shared_name : forall rw n tr k r1 r2,
  n <> 0 -> In r1 rw -> In r2 rw -> m_idx r1 <> m_idx r2 ->
  m_key r1 = m_key r2 ->
  In k (m_rend r1 :: m_objs r1) -> In k (m_rend r2 :: m_objs r2) ->
  lookup (keymap_of rw n tr) k = Raise Ambiguous.
Proof.
  intros rw n tr k r1 r2 Hn H1 H2 Hne Hk K1 K2.
  apply (ambiguous_raises_guarded rw n tr k r1 r2); try assumption.
  apply (shared_name_dupes_path rw n r1 r2); try assumption. intros ->. now apply Hne.
Qed.

(* ---------- textual positional mode ---------- *)
Lemma textual_loop_spec : forall rcs desc s seen rw, textual_loop rcs s desc seen = Ok rw ->
  forall r, In r rw -> exists i cu, nth_error desc i = Some cu /\ m_idx r = Some (s + i) /\ m_key r = fst cu /\
    (m_objs r = [] \/ exists e, nth_error rcs (s + i) = Some e /\ m_objs r = rc_objs e).
Proof.
  intros rcs. induction desc as [|[colname untr] rest IH]; intros s seen rw H r Hr; cbn [textual_loop] in H.
  - injection H as <-. destruct Hr.
  - destruct (nth_error rcs s) as [e|] eqn:En.
    + destruct (memk (hd KN (rc_objs e)) seen); [discriminate|].
      destruct (textual_loop rcs (S s) rest _) as [l|] eqn:El; [|discriminate]. injection H as <-.
      destruct Hr as [<-|Hr].
      * exists 0, (colname, untr). rewrite Nat.add_0_r. cbn. repeat split. right. eauto.
      * destruct (IH _ _ _ El r Hr) as (i & cu & Hn & Hi & Hk & Ho).
        exists (S i), cu. rewrite Nat.add_succ_r. cbn [nth_error]. auto.
    + destruct (textual_loop rcs (S s) rest seen) as [l|] eqn:El; [|discriminate]. injection H as <-.
      destruct Hr as [<-|Hr].
      * exists 0, (colname, untr). rewrite Nat.add_0_r. cbn. repeat split. now left.
      * destruct (IH _ _ _ El r Hr) as (i & cu & Hn & Hi & Hk & Ho).
        exists (S i), cu. rewrite Nat.add_succ_r. cbn [nth_error]. auto.
Qed.

(* k denotes column i: the cursor name of column i or an object of the compiled column at position i *)
Theorem no_wrong_column_textual : forall rcs desc rw tr k i,
  rcs <> [] -> raw_textual rcs desc = Ok rw ->
  lookup (keymap_of rw (length rcs) tr) k = Ok i ->
  exists cu, nth_error desc i = Some cu /\
    (k = fst cu \/ exists e, nth_error rcs i = Some e /\ In k (rc_objs e)).
Proof.
  intros rcs desc rw tr k i Hne Hraw H.
  apply no_wrong_column_compiled in H as (r & Hr & Hi & Hk).
  - destruct (textual_loop_spec rcs desc 0 [] rw Hraw r Hr) as (j & cu & Hn & Hj & Hkey & Ho).
    cbn [Nat.add] in *. rewrite Hi in Hj. injection Hj as <-. exists cu. split; [assumption|].
    destruct Hk as [Hk|Hk]; [left; congruence|]. right.
    destruct Ho as [Ho|(e & He & Ho)]; [rewrite Ho in Hk; destruct Hk|]. exists e. rewrite <- Ho. auto.
  - intro H0. apply length_zero_iff_nil in H0. contradiction.
Qed.

(* ---------- name matching mode ---------- *)
Definition mm_ok (rcs : list rc) (loose : bool) (mm : list (key * (list key * nat))) : Prop :=
  forall key objs ridx, kget mm key = Some (objs, ridx) ->
    forall o, In o objs -> exists j e, nth_error rcs j = Some e /\ In o (rc_objs e) /\
      (rc_keyname e = key \/ (loose = true /\ In key (rc_objs e))).

Lemma mm_loose_fold : forall rcs e j ridx os mm, nth_error rcs j = Some e -> incl os (rc_objs e) ->
  mm_ok rcs true mm ->
  mm_ok rcs true (fold_left (fun d rk => match kget d rk with
                                          | Some _ => d
                                          | None => dset key_eqb rk (rc_objs e, ridx) d
                                          end) os mm).
Proof.
  intros rcs e j ridx. induction os as [|rk os IH]; intros mm Hj Hincl Hok; cbn [fold_left]; [assumption|].
  apply IH; [assumption|intros x Hx; apply Hincl; now right|].
  destruct (kget mm rk) eqn:E; [assumption|].
  intros key objs ridx' Hget o Ho. rewrite (dget_dset key_eqb key_eqb_eq) in Hget.
  destruct (key_eqb key rk) eqn:Ek.
  - apply key_eqb_eq in Ek. subst key. injection Hget as <- <-.
    exists j, e. repeat split; try assumption. right. split; [reflexivity|]. apply Hincl. now left.
  - exact (Hok _ _ _ Hget o Ho).
Qed.

Lemma mm_step_ok : forall rcs loose mm j e, nth_error rcs j = Some e -> mm_ok rcs loose mm ->
  mm_ok rcs loose (mm_step loose mm (j, e)).
Proof.
  intros rcs loose mm j e Hj Hok. unfold mm_step.
  set (mm1 := match kget mm (rc_keyname e) with
              | Some (eo, _) => dset key_eqb (rc_keyname e) (eo ++ rc_objs e, j) mm
              | None => dset key_eqb (rc_keyname e) (rc_objs e, j) mm
              end).
  assert (H1 : mm_ok rcs loose mm1).
  { subst mm1. intros key objs ridx Hget o Ho. destruct (kget mm (rc_keyname e)) as [[eo r0]|] eqn:E;
      rewrite (dget_dset key_eqb key_eqb_eq) in Hget; destruct (key_eqb key (rc_keyname e)) eqn:Ek;
      try exact (Hok _ _ _ Hget o Ho); apply key_eqb_eq in Ek; subst key; injection Hget as <- <-.
    - apply in_app_or in Ho as [Ho|Ho]; [exact (Hok _ _ _ E o Ho)|]. exists j, e. auto.
    - exists j, e. auto. }
  destruct loose; [|exact H1]. apply (mm_loose_fold rcs e j j); try assumption. apply incl_refl.
Qed.

Lemma match_map_ok : forall rcs loose, mm_ok rcs loose (match_map loose rcs).
Proof.
  intros rcs loose. unfold match_map.
  assert (G : forall l mm, (forall p, In p l -> nth_error rcs (fst p) = Some (snd p)) -> mm_ok rcs loose mm ->
              mm_ok rcs loose (fold_left (mm_step loose) l mm)).
  { induction l as [|[j e] l IH]; intros mm Hl Hok; cbn [fold_left]; [assumption|].
    apply IH; [intros p Hp; apply Hl; now right|]. apply mm_step_ok; [|assumption]. apply (Hl (j, e)). now left. }
  apply G.
  - intros p Hp. apply In_mapi in Hp as (i & a & Hn & ->). exact Hn.
  - intros key objs ridx H. discriminate.
Qed.

(* k denotes column i: the cursor name of column i, or an object of a compiled column whose rendered
   name (or, with loose matching, one of whose keys) is the cursor name of column i *)
Theorem no_wrong_column_byname : forall rcs loose desc tr k i,
  rcs <> [] ->
  lookup (keymap_of (raw_byname rcs loose desc) (length rcs) tr) k = Ok i ->
  exists cu, nth_error desc i = Some cu /\
    (k = fst cu \/ exists j e, nth_error rcs j = Some e /\ In k (rc_objs e) /\
                    (rc_keyname e = fst cu \/ (loose = true /\ In (fst cu) (rc_objs e)))).
Proof.
  intros rcs loose desc tr k i Hne H.
  apply no_wrong_column_compiled in H as (r & Hr & Hi & Hk).
  - unfold raw_byname in Hr. apply In_mapi in Hr as (j & [colname untr] & Hn & ->).
    destruct (kget (match_map loose rcs) colname) as [[objs ridx]|] eqn:E; cbn [m_idx m_key m_objs] in *.
    + injection Hi as ->. exists (colname, untr). split; [assumption|]. cbn [fst].
      destruct Hk as [Hk|Hk]; [left; congruence|]. right. exact (match_map_ok rcs loose _ _ _ E k Hk).
    + injection Hi as ->. exists (colname, untr). split; [assumption|]. cbn [fst].
      destruct Hk as [Hk|[]]. left. congruence.
  - intro H0. apply length_zero_iff_nil in H0. contradiction.
Qed.

(* plain text: the cursor name of column i, or (dialects translating cursor names) the untranslated
   name of a column whose translated name is that of column i *)
Theorem no_wrong_column_bynone : forall desc tr k i,
  lookup (keymap_of (raw_bynone desc) 0 tr) k = Ok i ->
  exists cu, nth_error desc i = Some cu /\
    (k = fst cu \/ exists j cu', nth_error desc j = Some cu' /\ snd cu' = k /\ fst cu' = fst cu).
Proof.
  intros desc tr k i H. apply no_wrong_column_plain in H as (r & Hr & Hi & Hk).
  unfold raw_bynone in Hr. apply In_mapi in Hr as (j & cu & Hn & ->). cbn [m_idx m_key] in *.
  injection Hi as ->. exists cu. split; [assumption|].
  destruct Hk as [Hk|(r' & Hr' & Hu & Hk)]; [left; congruence|]. right.
  apply In_mapi in Hr' as (j' & cu' & Hn' & ->). cbn [m_untr m_key] in *. eauto.
Qed.

(* ---------- _adapt_to_context ---------- *)
Lemma dset_In_sub : forall {K V} (eqb : K -> K -> bool) (d : list (K * V)) k v p,
  In p (dset eqb k v d) -> p = (k, v) \/ In p d.
Proof.
  intros K V eqb. induction d as [|[k0 v0] r IH]; intros k v p H; cbn [dset] in H.
  - destruct H as [H|[]]. now left.
  - destruct (eqb k k0).
    + destruct H as [H|H]; [now left|right; now right].
    + destruct H as [H|H]; [right; now left|]. apply IH in H as [H|H]; [now left|right; now right].
Qed.

Lemma dupdate_In_sub : forall {K V} (eqb : K -> K -> bool) (l d : list (K * V)) p,
  In p (dupdate eqb d l) -> In p l \/ In p d.
Proof.
  intros K V eqb. induction l as [|[k v] r IH]; intros d p H; [now right|].
  rewrite dupdate_cons in H. apply IH in H as [H|H]; [left; now right|].
  apply dset_In_sub in H as [H|H]; [left; now left|now right].
Qed.

(* every record stored in the keymap of a compiled statement is a merged record or an "ambiguous" record *)
Lemma keymap_values : forall rw n tr k r, n <> 0 -> In (k, r) (keymap_of rw n tr) ->
  In r rw \/ exists k', r = amb_rec k'.
Proof.
  intros rw n tr k r Hn H. unfold keymap_of in H. apply Nat.eqb_neq in Hn. rewrite Hn in H. cbn [negb andb] in H.
  assert (BK : forall p, In p (by_key_of rw) -> In (snd p) rw).
  { intros p Hp. unfold by_key_of, dict_of in Hp. apply dupdate_In_sub in Hp as [Hp|[]].
    apply in_map_iff in Hp as (r0 & <- & Hr0). exact Hr0. }
  assert (OE : forall excl p, In p (dict_of key_eqb (obj_entries rw excl)) -> In (snd p) rw).
  { intros excl [k0 r0] Hp. unfold dict_of in Hp. apply dupdate_In_sub in Hp as [Hp|[]].
    apply In_obj_entries in Hp as (Hp & _). exact Hp. }
  destruct (negb (length (by_key_of rw) =? n) || negb (length (by_key_of rw) =? length rw)).
  - apply dupdate_In_sub in H as [H|H].
    + apply dupdate_In_sub in H as [H|H].
      * right. apply in_map_iff in H as (k' & E & _). injection E as _ <-. eauto.
      * left. exact (BK _ H).
    + left. exact (OE _ _ H).
  - apply dupdate_In_sub in H as [H|H]; left; [exact (BK _ H)|exact (OE _ _ H)].
Qed.

Lemma by_position_get : forall km i r, dget rix_eqb (by_position km) (RAt i) = Some r ->
  m_ridx r = RAt i /\ exists k, In (k, r) km.
Proof.
  intros km i r H. unfold by_position in H. rewrite (dget_dict_of rix_eqb rix_eqb_eq) in H.
  apply (alast_Some_In rix_eqb rix_eqb_eq), in_map_iff in H as ([k r0] & E & Hin). cbn [snd] in E.
  injection E as E1 E2. subst r0. eauto.
Qed.

Definition adapt_entries (km : keymap) (news : list key) : list (key * mrec) :=
  flat_map (fun x => x)
    (mapi (fun i new => match dget rix_eqb (by_position km) (RAt i) with Some r => [(new, r)] | None => [] end) news).

Lemma In_adapt_entries : forall km news o r,
  In (o, r) (adapt_entries km news) <->
  exists i, nth_error news i = Some o /\ dget rix_eqb (by_position km) (RAt i) = Some r.
Proof.
  intros km news o r. unfold adapt_entries. rewrite in_flat_map. split.
  - intros (x & Hx & Hin). apply In_mapi in Hx as (i & new & Hn & ->).
    destruct (dget rix_eqb (by_position km) (RAt i)) as [r0|] eqn:E; [|destruct Hin].
    destruct Hin as [Hin|[]]. injection Hin as -> ->. eauto.
  - intros (i & Hn & E). exists [(o, r)]. split; [|now left]. apply In_mapi. exists i, o. rewrite E. auto.
Qed.

Lemma adapt_get : forall km news o,
  kget (adapt km news) o = match kalast (adapt_entries km news) o with Some r => Some r | None => kget km o end.
Proof. intros. unfold adapt. fold (adapt_entries km news). apply (dget_dupdate key_eqb key_eqb_eq). Qed.

(* safety: a key of the adapted map resolves to its own position in the new statement, or as in the cached map *)
Theorem adapt_no_wrong_column : forall rcs tr news o j,
  lookup (adapt (km_pos rcs tr) news) o = Ok j ->
  nth_error news j = Some o \/ lookup (km_pos rcs tr) o = Ok j.
Proof.
  intros rcs tr news o j H. apply lookup_Ok_get in H as (r & G & Hj). rewrite adapt_get in G.
  destruct (kalast (adapt_entries (km_pos rcs tr) news) o) as [r'|] eqn:E.
  - injection G as ->. left.
    apply (alast_Some_In key_eqb key_eqb_eq), In_adapt_entries in E as (i & Hn & Hbp).
    apply by_position_get in Hbp as (Hri & k & Hin).
    destruct (Nat.eq_dec (length rcs) 0) as [H0|H0].
    { apply length_zero_iff_nil in H0. subst rcs. destruct tr; cbv in Hin; destruct Hin. }
    apply keymap_values in Hin as [Hin|(k' & ->)]; [|discriminate Hj|assumption].
    apply In_raw_positional in Hin as (i' & e & _ & ->). cbn [prec m_idx m_ridx] in *.
    injection Hri as ->. injection Hj as ->. exact Hn.
  - right. now apply (lookup_of_get _ _ r).
Qed.

(* a column that occurs once in the new statement, at a position that is reachable in the cached map,
   resolves to that position *)
Theorem adapt_lookup_new_column : forall rcs tr news o i k0,
  nth_error news i = Some o -> (forall j, nth_error news j = Some o -> j = i) ->
  lookup (km_pos rcs tr) k0 = Ok i ->
  lookup (adapt (km_pos rcs tr) news) o = Ok i.
Proof.
  intros rcs tr news o i k0 Hn Huniq Hk0.
  assert (Hne : length rcs <> 0).
  { intro H0. apply length_zero_iff_nil in H0. subst rcs. destruct tr; cbv in Hk0; discriminate. }
  assert (Hval : forall k r, In (k, r) (km_pos rcs tr) -> m_ridx r = RAt i -> m_idx r = Some i).
  { intros k r Hin Hri. apply keymap_values in Hin as [Hin|(k' & ->)]; [|discriminate Hri|assumption].
    apply In_raw_positional in Hin as (i' & e & _ & ->). cbn [prec m_idx m_ridx] in *. congruence. }
  (* position i is a key of by_position *)
  apply lookup_Ok_get in Hk0 as (r0 & G0 & Hi0).
  assert (Hr0 : m_ridx r0 = RAt i).
  { apply (dget_In key_eqb key_eqb_eq) in G0. apply keymap_values in G0 as [Hin|(k' & ->)]; [|discriminate Hi0|assumption].
    apply In_raw_positional in Hin as (i' & e & _ & ->). cbn [prec m_idx m_ridx] in *. congruence. }
  assert (Hbp : exists r, dget rix_eqb (by_position (km_pos rcs tr)) (RAt i) = Some r).
  { unfold by_position. rewrite (dget_dict_of rix_eqb rix_eqb_eq).
    apply (alast_In_Some rix_eqb rix_eqb_eq _ _ r0). apply in_map_iff. exists (k0, r0). cbn [snd].
    split; [now rewrite Hr0|]. now apply (dget_In key_eqb key_eqb_eq). }
  destruct Hbp as (r & Hbp).
  assert (Hin : In (o, r) (adapt_entries (km_pos rcs tr) news)) by (apply In_adapt_entries; eauto).
  destruct (alast_In_Some key_eqb key_eqb_eq _ _ _ Hin) as (r' & Hr').
  apply (lookup_of_get _ _ r'); [rewrite adapt_get, Hr'; reflexivity|].
  apply (alast_Some_In key_eqb key_eqb_eq), In_adapt_entries in Hr' as (i' & Hn' & Hbp').
  rewrite (Huniq _ Hn') in Hbp'. apply by_position_get in Hbp' as (Hri & k & Hk).
  exact (Hval _ _ Hk Hri).
Qed.

(* ---------- reuse of cached metadata ---------- *)
(* metadata marked safe for the compiled cache by the positional merge does not depend on what the cursor
   calls its columns: any later cursor description of the same length yields the same metadata *)
Theorem safe_for_cache_positional_sound : forall rcs f desc desc' tr,
  rcs <> [] -> f_ordered f = true -> f_textual_ordered f = false ->
  length desc = length rcs -> length desc' = length rcs ->
  build rcs f desc tr = build rcs f desc' tr /\ safe_for_cache rcs f desc = true.
Proof.
  intros rcs f desc desc' tr Hne Ho Ht Hl Hl'.
  assert (Hn : Nat.eqb (length rcs) 0 = false).
  { apply Nat.eqb_neq. intro H0. apply length_zero_iff_nil in H0. contradiction. }
  unfold build, merge, safe_for_cache. rewrite Hn, Ho, Ht, Hl, Hl', Nat.eqb_refl. cbn [negb andb]. split; reflexivity.
Qed.

(* name matching depends on the cursor's column order, and is never marked safe *)
Theorem name_matching_never_safe : forall rcs f desc,
  f_textual_ordered f = false -> f_adhoc f = false ->
  (f_ordered f = false \/ length desc <> length rcs) -> safe_for_cache rcs f desc = false.
Proof.
  intros rcs f desc Ht Ha H. unfold safe_for_cache. rewrite Ht, Ha. cbn [orb andb negb].
  destruct H as [H|H]; [rewrite H; now rewrite andb_false_r|].
  replace (Nat.eqb (length rcs) (length desc)) with false by (symmetry; apply Nat.eqb_neq; congruence).
  now rewrite !andb_false_r.
Qed.

Example name_matching_order_matters :
  let rcs := [ {| rc_keyname := w_q; rc_name := w_q; rc_objs := [KO 1; w_q] |};
               {| rc_keyname := w_z; rc_name := w_z; rc_objs := [KO 2; w_z] |} ] in
  lookup (keymap_of (raw_byname rcs true [(w_q, KN); (w_z, KN)]) 2 true) (KO 1) = Ok 0 /\
  lookup (keymap_of (raw_byname rcs true [(w_z, KN); (w_q, KN)]) 2 true) (KO 1) = Ok 1.
Proof. vm_compute. split; reflexivity. Qed.
