(* C09 - executable model of the bind / result processors that are SQLAlchemy code, and of the assembly
   of result processors for nested column expressions (definitions only).

   Transcribes:
     dialects/sqlite/base.py  DATETIME / DATE / TIME .bind_processor (storage_format) and .result_processor
     engine/_processors_cy.py str_to_datetime / str_to_date / str_to_time (-> fromisoformat, see below),
                              int_to_boolean, to_float, to_decimal_processor_factory
     engine/processors.py     str_to_datetime_processor_factory (custom regexp)
     sql/sqltypes.py          Boolean, NumericCommon.bind_processor / _effective_decimal_return_scale,
                              Numeric.result_processor, Float.result_processor, Interval (non native),
                              Enum._setup_for_values / _db_value_for_elem / _object_value_for_elem,
                              Uuid (character based), _Binary, JSON._make_bind_processor / result_processor,
                              PickleType
     sql/type_api.py          TypeDecorator.bind_processor / result_processor
     engine/cursor.py         one result processor per result column, taken from the column's type

   CPython library behaviour that the processors call is modelled only on the strings / values the
   processors themselves produce: "%0Nd" formatting of a bounded non-negative field ([digs]),
   date/time/datetime.fromisoformat on the fixed-width shapes of the SQLite storage formats, the
   date <-> ordinal conversion of datetime arithmetic (datetime.py _ymd2ord / _ord2ymd), uuid hex.
   json / pickle / float formatting are Section variables in the theorems. *)
From Coq Require Import List NArith ZArith Bool.
Import ListNotations.
Open Scope N_scope.

Definition str := list N.

Inductive exn := TypeError | ValueError | LookupError | OverflowError.
Inductive result (A : Type) := Ok (a : A) | Raise (e : exn).
Arguments Ok {A} a.
Arguments Raise {A} e.

(* ---------- "%0wd" % n for 0 <= n < 10^w, and reading digits back ---------- *)
Fixpoint digs (w : nat) (n : N) : str :=
  match w with O => [] | S w' => digs w' (n / 10) ++ [48 + n mod 10] end.

Definition is_digit (c : N) : bool := (48 <=? c) && (c <=? 57).
Fixpoint num_of (s : str) (acc : N) : option N :=
  match s with
  | [] => Some acc
  | c :: r => if is_digit c then num_of r (10 * acc + (c - 48)) else None
  end.
(* a field of exactly w digits *)
Definition take_num (w : nat) (s : str) : option (N * str) :=
  if Nat.ltb (length s) w then None
  else match num_of (firstn w s) 0 with Some v => Some (v, skipn w s) | None => None end.
Definition expect (c : N) (s : str) : option str :=
  match s with x :: r => if x =? c then Some r else None | [] => None end.

(* ---------- date / time values ---------- *)
Record date := { dy : N; dm : N; dd : N }.
Record time := { th : N; tmi : N; ts : N; tus : N }.

Definition is_leap (y : N) : bool := (y mod 4 =? 0) && (negb (y mod 100 =? 0) || (y mod 400 =? 0)).
Definition days_in_month (y m : N) : N :=
  match m with
  | 1 | 3 | 5 | 7 | 8 | 10 | 12 => 31
  | 4 | 6 | 9 | 11 => 30
  | 2 => if is_leap y then 29 else 28
  | _ => 0
  end.
Definition valid_date (d : date) : bool :=
  (1 <=? dy d) && (dy d <=? 9999) && (1 <=? dm d) && (dm d <=? 12) && (1 <=? dd d)
  && (dd d <=? days_in_month (dy d) (dm d)).
Definition valid_time (t : time) : bool :=
  (th t <? 24) && (tmi t <? 60) && (ts t <? 60) && (tus t <? 1000000).
Definition midnight : time := {| th := 0; tmi := 0; ts := 0; tus := 0 |}.

(* ---------- SQLite storage formats ---------- *)
Definition c_dash : N := 45.  Definition c_colon : N := 58.  Definition c_dot : N := 46.  Definition c_sp : N := 32.

(* "%(year)04d-%(month)02d-%(day)02d" *)
Definition fmt_date (d : date) : str := digs 4 (dy d) ++ [c_dash] ++ digs 2 (dm d) ++ [c_dash] ++ digs 2 (dd d).
(* "%(hour)02d:%(minute)02d:%(second)02d.%(microsecond)06d"; without the fraction for truncate_microseconds *)
Definition fmt_time (trunc : bool) (t : time) : str :=
  digs 2 (th t) ++ [c_colon] ++ digs 2 (tmi t) ++ [c_colon] ++ digs 2 (ts t)
  ++ (if trunc then [] else [c_dot] ++ digs 6 (tus t)).
Definition fmt_datetime (trunc : bool) (d : date) (t : time) : str := fmt_date d ++ [c_sp] ++ fmt_time trunc t.

(* DATETIME.bind_processor: datetime -> all fields, date -> zero time fields, anything else TypeError *)
Inductive dt_in := InDateTime (d : date) (t : time) | InDate (d : date) | InOther.
Definition bind_datetime (trunc : bool) (v : option dt_in) : result (option str) :=
  match v with
  | None => Ok None
  | Some (InDateTime d t) => Ok (Some (fmt_datetime trunc d t))
  | Some (InDate d) => Ok (Some (fmt_datetime trunc d midnight))
  | Some InOther => Raise TypeError
  end.
(* DATE.bind_processor: isinstance(value, date) - a datetime is a date *)
Definition bind_date (v : option dt_in) : result (option str) :=
  match v with
  | None => Ok None
  | Some (InDateTime d _) | Some (InDate d) => Ok (Some (fmt_date d))
  | Some InOther => Raise TypeError
  end.
Definition bind_time (trunc : bool) (v : option (option time)) : result (option str) :=
  match v with
  | None => Ok None
  | Some (Some t) => Ok (Some (fmt_time trunc t))
  | Some None => Raise TypeError
  end.

(* ---------- result side 1: fromisoformat on the shapes above ---------- *)
Inductive pres (A : Type) := POk (a : A) | PErr (e : exn) | POutside.   (* POutside: a shape the model does not carry *)
Arguments POk {A} a.
Arguments PErr {A} e.
Arguments POutside {A}.

Definition parse_date_fields (s : str) : option (date * str) :=
  match take_num 4 s with
  | Some (y, s) => match expect c_dash s with
    | Some s => match take_num 2 s with
      | Some (m, s) => match expect c_dash s with
        | Some s => match take_num 2 s with
          | Some (d, s) => Some ({| dy := y; dm := m; dd := d |}, s)
          | None => None end
        | None => None end
      | None => None end
    | None => None end
  | None => None
  end.
Definition parse_time_fields (s : str) : option (time * str) :=
  match take_num 2 s with
  | Some (h, s) => match expect c_colon s with
    | Some s => match take_num 2 s with
      | Some (mi, s) => match expect c_colon s with
        | Some s => match take_num 2 s with
          | Some (sec, s) =>
              match s with
              | [] => Some ({| th := h; tmi := mi; ts := sec; tus := 0 |}, [])
              | _ => match expect c_dot s with
                     | Some s => match take_num 6 s with
                                 | Some (us, s) => Some ({| th := h; tmi := mi; ts := sec; tus := us |}, s)
                                 | None => None end
                     | None => None end
              end
          | None => None end
        | None => None end
      | None => None end
    | None => None end
  | None => None
  end.

Definition iso_date (s : str) : pres date :=
  match parse_date_fields s with
  | Some (d, []) => if valid_date d then POk d else PErr ValueError
  | _ => POutside
  end.
Definition iso_time (s : str) : pres time :=
  match parse_time_fields s with
  | Some (t, []) => if valid_time t then POk t else PErr ValueError
  | _ => POutside
  end.
Definition iso_datetime (s : str) : pres (date * time) :=
  match parse_date_fields s with
  | Some (d, []) => if valid_date d then POk (d, midnight) else PErr ValueError
  | Some (d, s) =>
      match expect c_sp s with
      | Some s => match parse_time_fields s with
                  | Some (t, []) => if valid_date d && valid_time t then POk (d, t) else PErr ValueError
                  | _ => POutside
                  end
      | None => POutside
      end
  | None => POutside
  end.

(* str_to_datetime / str_to_date / str_to_time *)
Definition result_iso {A} (p : str -> pres A) (v : option str) : pres (option A) :=
  match v with
  | None => POk None
  | Some s => match p s with POk a => POk (Some a) | PErr e => PErr e | POutside => POutside end
  end.

(* ---------- result side 2: str_to_datetime_processor_factory(regexp, type_) with the positional-group
   regexps of the SQLite documentation:  (\d+)-(\d+)-(\d+)   (\d+):(\d+):(\d+)(?:\.(\d+))?
   (\d+)-(\d+)-(\d+) (\d+):(\d+):(\d+)(?:\.(\d+))?   - re.match: anchored at the start only ---------- *)
Fixpoint take_run_aux (s : str) (acc : N) : N * str :=
  match s with
  | c :: r => if is_digit c then take_run_aux r (10 * acc + (c - 48)) else (acc, s)
  | [] => (acc, [])
  end.
(* (\d+) followed by a non-digit or the end: the maximal non-empty run *)
Definition take_run (s : str) : option (N * str) :=
  match s with
  | c :: _ => if is_digit c then Some (take_run_aux s 0) else None
  | [] => None
  end.

Definition re_date_groups (s : str) : option (list N * str) :=
  match take_run s with
  | Some (y, s) => match expect c_dash s with
    | Some s => match take_run s with
      | Some (m, s) => match expect c_dash s with
        | Some s => match take_run s with
          | Some (d, s) => Some ([y; m; d], s)
          | None => None end
        | None => None end
      | None => None end
    | None => None end
  | None => None
  end.
Definition re_time_groups (s : str) : option (list N) :=
  match take_run s with
  | Some (h, s) => match expect c_colon s with
    | Some s => match take_run s with
      | Some (mi, s) => match expect c_colon s with
        | Some s => match take_run s with
          | Some (sec, s) =>
              (* (?:\.(\d+))? - m.groups(0) puts 0 for the missing group *)
              match expect c_dot s with
              | Some s' => match take_run s' with
                           | Some (us, _) => Some [h; mi; sec; us]
                           | None => Some [h; mi; sec; 0]
                           end
              | None => Some [h; mi; sec; 0]
              end
          | None => None end
        | None => None end
      | None => None end
    | None => None end
  | None => None
  end.

(* the constructors datetime.date / time / datetime raise ValueError on an out-of-range field *)
Definition mk_date (g : list N) : result date :=
  match g with
  | [y; m; d] => let x := {| dy := y; dm := m; dd := d |} in if valid_date x then Ok x else Raise ValueError
  | _ => Raise TypeError
  end.
Definition mk_time (g : list N) : result time :=
  match g with
  | [h; mi; s; us] => let x := {| th := h; tmi := mi; ts := s; tus := us |} in
                      if valid_time x then Ok x else Raise ValueError
  | _ => Raise TypeError
  end.

Definition regexp_date (v : option str) : result (option date) :=
  match v with
  | None => Ok None
  | Some s => match re_date_groups s with
              | None => Raise ValueError                      (* "Couldn't parse date string" *)
              | Some (g, _) => match mk_date g with Ok d => Ok (Some d) | Raise e => Raise e end
              end
  end.
Definition regexp_time (v : option str) : result (option time) :=
  match v with
  | None => Ok None
  | Some s => match re_time_groups s with
              | None => Raise ValueError
              | Some g => match mk_time g with Ok t => Ok (Some t) | Raise e => Raise e end
              end
  end.
Definition regexp_datetime (v : option str) : result (option (date * time)) :=
  match v with
  | None => Ok None
  | Some s =>
      match re_date_groups s with
      | None => Raise ValueError
      | Some (gd, s) =>
          match expect c_sp s with
          | None => Raise ValueError
          | Some s => match re_time_groups s with
                      | None => Raise ValueError
                      | Some gt => match mk_date gd, mk_time gt with
                                   | Ok d, Ok t => Ok (Some (d, t))
                                   | Raise e, _ => Raise e
                                   | _, Raise e => Raise e
                                   end
                      end
          end
      end
  end.

(* ---------- datetime arithmetic of CPython (datetime.py): date <-> proleptic Gregorian ordinal ---------- *)
Open Scope Z_scope.
Definition days_before_year (y : Z) : Z := (y - 1) * 365 + (y - 1) / 4 - (y - 1) / 100 + (y - 1) / 400.
Definition days_before_month (y m : Z) : Z :=
  let leap := is_leap (Z.to_N y) in
  match m with
  | 1 => 0 | 2 => 31 | 3 => 59 | 4 => 90 | 5 => 120 | 6 => 151 | 7 => 181 | 8 => 212 | 9 => 243
  | 10 => 273 | 11 => 304 | _ => 334
  end + (if (2 <? m) && leap then 1 else 0).
Definition ymd2ord (d : date) : Z :=
  days_before_year (Z.of_N (dy d)) + days_before_month (Z.of_N (dy d)) (Z.of_N (dm d)) + Z.of_N (dd d).

(* _ord2ymd: [n400] whole 400-year cycles, then the position [n] inside the cycle *)
Definition ymd_in_cycle (n400 n : Z) : date :=
  let year := n400 * 400 + 1 in
  let n100 := n / 36524 in let n := n mod 36524 in
  let n4 := n / 1461 in let n := n mod 1461 in
  let n1 := n / 365 in let n := n mod 365 in
  let year := year + n100 * 100 + n4 * 4 + n1 in
  if (n1 =? 4) || (n100 =? 4) then {| dy := Z.to_N (year - 1); dm := 12%N; dd := 31%N |}
  else
    let leap := (n1 =? 3) && (negb (n4 =? 24) || (n100 =? 3)) in
    let month := (n + 50) / 32 in
    let preceding := days_before_month (if leap then 4 else 1) month in
    if n <? preceding then
      let month := month - 1 in
      let preceding := days_before_month (if leap then 4 else 1) month in
      {| dy := Z.to_N year; dm := Z.to_N month; dd := Z.to_N (n - preceding + 1) |}
    else {| dy := Z.to_N year; dm := Z.to_N month; dd := Z.to_N (n - preceding + 1) |}.
Definition ord2ymd (n : Z) : date := ymd_in_cycle ((n - 1) / 146097) ((n - 1) mod 146097).

Definition max_ord : Z := 3652059.          (* date(9999, 12, 31).toordinal() *)
Definition epoch_ord : Z := 719163.         (* date(1970, 1, 1).toordinal() *)
Definition us_per_day : Z := 86400000000.

Definition time_of_us (u : Z) : time :=
  {| th := Z.to_N (u / 3600000000); tmi := Z.to_N (u / 60000000 mod 60); ts := Z.to_N (u / 1000000 mod 60);
     tus := Z.to_N (u mod 1000000) |}.
Definition us_of_time (t : time) : Z :=
  ((Z.of_N (th t) * 60 + Z.of_N (tmi t)) * 60 + Z.of_N (ts t)) * 1000000 + Z.of_N (tus t).

(* a timedelta is its total number of microseconds.  epoch + value *)
Definition epoch_plus (td : Z) : result (date * time) :=
  let ord := epoch_ord + td / us_per_day in
  if (1 <=? ord) && (ord <=? max_ord) then Ok (ord2ymd ord, time_of_us (td mod us_per_day))
  else Raise OverflowError.
(* dt_value - epoch *)
Definition minus_epoch (d : date) (t : time) : Z := (ymd2ord d - epoch_ord) * us_per_day + us_of_time t.

(* Interval.bind_processor / result_processor on a dialect without native interval (impl = DATETIME) *)
Definition bind_interval (v : option Z) : result (option str) :=
  match v with
  | None => bind_datetime false None
  | Some td => match epoch_plus td with
               | Ok (d, t) => bind_datetime false (Some (InDateTime d t))
               | Raise e => Raise e
               end
  end.
Definition result_interval (v : option str) : pres (option Z) :=
  match result_iso iso_datetime v with
  | POk None => POk None
  | POk (Some (d, t)) => POk (Some (minus_epoch d t))
  | PErr e => PErr e
  | POutside => POutside
  end.
Open Scope N_scope.

(* ---------- Boolean on a dialect without native boolean ---------- *)
(* _strict_as_bool accepts None, True, False (and the ints 0 / 1, which compare equal to them) *)
Inductive bool_in := BTrue | BFalse | BInt (z : Z) | BOther.
Definition bind_boolean (v : option bool_in) : result (option Z) :=
  match v with
  | None => Ok None
  | Some BTrue => Ok (Some 1%Z)
  | Some BFalse => Ok (Some 0%Z)
  | Some (BInt z) => if (z =? 0)%Z then Ok (Some 0%Z) else if (z =? 1)%Z then Ok (Some 1%Z) else Raise ValueError
  | Some BOther => Raise TypeError
  end.
(* int_to_boolean *)
Definition int_to_boolean (v : option Z) : option bool :=
  match v with None => None | Some z => Some (negb (z =? 0)%Z) end.

(* ---------- Numeric / Float ---------- *)
Record numty := {
  n_float : bool;                  (* Float (True) or Numeric (False) *)
  n_asdecimal : bool;
  n_scale : option N;              (* Numeric.scale; a Float has none *)
  n_drs : option N                 (* decimal_return_scale *)
}.
(* _effective_decimal_return_scale; _default_decimal_return_scale = 10 *)
Definition effective_scale (t : numty) : N :=
  match n_drs t with
  | Some r => r
  | None => match n_scale t with Some s => s | None => 10 end
  end.
Inductive numproc := NoProc | ToFloat | ToDecimal (scale : N).
(* NumericCommon.bind_processor *)
Definition num_bind_proc (native_decimal : bool) (t : numty) : numproc := if native_decimal then NoProc else ToFloat.
(* Numeric.result_processor / Float.result_processor *)
Definition num_result_proc (native_decimal : bool) (t : numty) : numproc :=
  if n_float t then
    if n_asdecimal t then ToDecimal (effective_scale t) else if native_decimal then ToFloat else NoProc
  else
    if n_asdecimal t then (if native_decimal then NoProc else ToDecimal (effective_scale t))
    else if native_decimal then ToFloat else NoProc.

(* a finite decimal k * 10^-e.  to_decimal_processor_factory: Decimal("%.<scale>f" % value) - with an
   exactly represented value this is rounding (half even) to [scale] places *)
Record dec := { d_k : Z; d_e : N }.
Definition round_half_even_div (k : Z) (p : Z) : Z :=        (* k / p rounded half even, p > 0 *)
  let q := (k / p)%Z in let r := (k mod p)%Z in
  if (2 * r <? p)%Z then q
  else if (p <? 2 * r)%Z then (q + 1)%Z
  else if Z.even q then q else (q + 1)%Z.
Definition to_decimal (scale : N) (v : dec) : dec :=
  if d_e v <=? scale then {| d_k := (d_k v * 10 ^ Z.of_N (scale - d_e v))%Z; d_e := scale |}
  else {| d_k := round_half_even_div (d_k v) (10 ^ Z.of_N (d_e v - scale))%Z; d_e := scale |}.
(* numeric equality of Decimals *)
Definition dec_eqb (a b : dec) : bool :=
  (d_k a * 10 ^ Z.of_N (d_e b) =? d_k b * 10 ^ Z.of_N (d_e a))%Z.

(* ---------- Enum (non native): _setup_for_values, _db_value_for_elem, _object_value_for_elem ---------- *)
(* enum members and plain strings share the key space of _valid_lookup *)
Inductive ekey := EObj (o : N) | EStr (s : N).
Definition ekey_eqb (a b : ekey) : bool :=
  match a, b with EObj x, EObj y => x =? y | EStr x, EStr y => x =? y | _, _ => false end.
Fixpoint eget {V} (d : list (ekey * V)) (k : ekey) : option V :=       (* dict built left to right: the LAST binding wins *)
  match d with
  | [] => None
  | (k', v) :: r => match eget r k with Some x => Some x | None => if ekey_eqb k k' then Some v else None end
  end.
Record enumty := { e_values : list N; e_objects : list ekey; e_validate_strings : bool }.
(* _object_lookup = dict(zip(values, objects)) *)
Definition object_lookup (t : enumty) : list (ekey * ekey) :=
  map (fun vo => (EStr (fst vo), snd vo)) (combine (e_values t) (e_objects t)).
(* _valid_lookup = dict(zip(reversed(objects), reversed(values))) then .update((value,
   _valid_lookup[_object_lookup[value]]) for value in values) *)
Definition valid_lookup0 (t : enumty) : list (ekey * N) := combine (rev (e_objects t)) (rev (e_values t)).
Definition valid_lookup (t : enumty) : list (ekey * N) :=
  valid_lookup0 t ++
  flat_map (fun v => match eget (object_lookup t) (EStr v) with
                     | Some o => match eget (valid_lookup0 t) o with Some x => [(EStr v, x)] | None => [] end
                     | None => []
                     end) (e_values t).
Definition bind_enum (t : enumty) (v : option ekey) : result (option N) :=
  match v with
  | None => Ok None
  | Some k => match eget (valid_lookup t) k with
              | Some x => Ok (Some x)
              | None => match k with
                        | EStr s => if e_validate_strings t then Raise LookupError else Ok (Some s)
                        | EObj _ => Raise LookupError
                        end
              end
  end.
Definition result_enum (t : enumty) (v : option N) : result (option ekey) :=
  match v with
  | None => Ok None
  | Some s => match eget (object_lookup t) (EStr s) with Some o => Ok (Some o) | None => Raise LookupError end
  end.

(* ---------- Uuid stored as 32 hex characters ---------- *)
Definition hexchar (d : N) : N := if d <? 10 then 48 + d else 87 + d.
Fixpoint hexdigs (w : nat) (n : N) : str :=
  match w with O => [] | S w' => hexdigs w' (n / 16) ++ [hexchar (n mod 16)] end.
Definition hexval (c : N) : option N :=
  if (48 <=? c) && (c <=? 57) then Some (c - 48)
  else if (97 <=? c) && (c <=? 102) then Some (c - 87)
  else if (65 <=? c) && (c <=? 70) then Some (c - 55)
  else None.
Fixpoint hexnum (s : str) (acc : N) : option N :=
  match s with
  | [] => Some acc
  | c :: r => match hexval c with Some d => hexnum r (16 * acc + d) | None => None end
  end.
(* value.hex *)
Definition bind_uuid (v : option N) : option str := match v with None => None | Some u => Some (hexdigs 32 u) end.
(* uuid.UUID(value) for a string of 32 hex digits *)
Definition result_uuid (v : option str) : result (option N) :=
  match v with
  | None => Ok None
  | Some s => if Nat.eqb (length s) 32 then match hexnum s 0 with Some u => Ok (Some u) | None => Raise ValueError end
              else Raise ValueError
  end.

(* ---------- TypeDecorator composition and result-map assembly ---------- *)
(* a type is a base type or a TypeDecorator (identified by [id]) around an implementation type;
   [has_bind] / [has_result] = process_bind_param / process_result_value is overridden *)
Inductive ty := TBase (has_proc : bool) | TDec (id : N) (has_bind has_result : bool) (impl : ty).

(* a processor is the list of steps applied to a value, first step first *)
Inductive step := SImpl | SBindParam (id : N) | SResultValue (id : N).

(* TypeDecorator.result_processor: process_result_value(impl_processor(value)) *)
Fixpoint result_proc (t : ty) : option (list step) :=
  match t with
  | TBase has_proc => if has_proc then Some [SImpl] else None
  | TDec id _ has_result impl =>
      if has_result then
        match result_proc impl with
        | Some p => Some (p ++ [SResultValue id])
        | None => Some [SResultValue id]
        end
      else result_proc impl
  end.
(* TypeDecorator.bind_processor: impl_processor(process_bind_param(value)) *)
Fixpoint bind_proc (t : ty) : option (list step) :=
  match t with
  | TBase has_proc => if has_proc then Some [SImpl] else None
  | TDec id has_bind _ impl =>
      if has_bind then
        match bind_proc impl with
        | Some p => Some (SBindParam id :: p)
        | None => Some [SBindParam id]
        end
      else bind_proc impl
  end.

(* column expressions: how a column of a decorated type can be nested before it reaches the result *)
Inductive cexpr :=
| CCol (t : ty)                          (* table column *)
| CLabel (e : cexpr)                     (* e.label(name): Label.type = element.type *)
| CSubq (e : cexpr)                      (* column of a subquery / alias whose inner select has e: proxy, same type *)
| CCte (e : cexpr)                       (* column of a CTE *)
| CUnion (e1 e2 : cexpr)                 (* column of a compound select: the first select's column *)
| CScalar (e : cexpr)                    (* (select e).scalar_subquery(): type of the single column *)
| CCoerce (t : ty) (e : cexpr)           (* type_coerce(e, t) / cast(e, t) *)
| CReturning (e : cexpr)                 (* e in a RETURNING list *)
| COrm (e : cexpr).                      (* attribute of a mapped class loaded through the ORM *)

Fixpoint type_of (e : cexpr) : ty :=
  match e with
  | CCol t => t
  | CLabel e | CSubq e | CCte e | CScalar e | CReturning e | COrm e => type_of e
  | CUnion e1 _ => type_of e1
  | CCoerce t _ => t
  end.

(* CursorResultMetaData: the processor of a result column is the result processor of its type *)
Definition column_processor (e : cexpr) : list step :=
  match result_proc (type_of e) with Some p => p | None => [] end.
Definition count_result (id : N) (p : list step) : nat :=
  length (filter (fun s => match s with SResultValue i => i =? id | _ => false end) p).
Definition count_bind (id : N) (p : list step) : nat :=
  length (filter (fun s => match s with SBindParam i => i =? id | _ => false end) p).

(* ids of the decorators of a type, outermost first *)
Fixpoint dec_ids (t : ty) : list N :=
  match t with TBase _ => [] | TDec id _ _ impl => id :: dec_ids impl end.

(* ---------- JSON and PickleType: the serializers are external ---------- *)
Section Serialized.
  Context {J W : Type}.
  Variable dumps : J -> W.              (* json.dumps / pickle.dumps *)
  Variable loads : W -> J.
  Variable jnone : J.                   (* Python None as a JSON document *)

  (* what the application binds: None, JSON.NULL, null() or a document *)
  Inductive json_in := JPyNone | JJsonNull | JSqlNull | JDoc (v : J).
  (* JSON._make_bind_processor; the result None is SQL NULL *)
  Definition bind_json (none_as_null : bool) (v : json_in) : option W :=
    match v with
    | JJsonNull => Some (dumps jnone)                    (* value is self.NULL: value = None, serialized *)
    | JSqlNull => None
    | JPyNone => if none_as_null then None else Some (dumps jnone)
    | JDoc d => Some (dumps d)
    end.
  (* JSON.result_processor *)
  Definition result_json (w : option W) : option J :=
    match w with None => None | Some x => Some (loads x) end.

  (* PickleType.bind_processor / result_processor (impl LargeBinary: identity on bytes) *)
  Definition bind_pickle (v : option J) : option W := match v with None => None | Some x => Some (dumps x) end.
  Definition result_pickle (w : option W) : option J := match w with None => None | Some x => Some (loads x) end.
End Serialized.

(* ================= spec side ================= *)
(* the type-preserving ways a column can be nested before it reaches the result *)
Inductive wrapper := WLabel | WSubq | WCte | WUnion (other : cexpr) | WScalar | WReturning | WOrm.
Definition apply_wrapper (w : wrapper) (e : cexpr) : cexpr :=
  match w with
  | WLabel => CLabel e | WSubq => CSubq e | WCte => CCte e | WUnion o => CUnion e o | WScalar => CScalar e
  | WReturning => CReturning e | WOrm => COrm e
  end.
Definition nest (ws : list wrapper) (e : cexpr) : cexpr := fold_right apply_wrapper e ws.

(* decorators whose process_result_value / process_bind_param is overridden *)
Fixpoint res_ids (t : ty) : list N :=
  match t with TBase _ => [] | TDec id _ hr impl => if hr then id :: res_ids impl else res_ids impl end.
Fixpoint bind_ids (t : ty) : list N :=
  match t with TBase _ => [] | TDec id hb _ impl => if hb then id :: bind_ids impl else bind_ids impl end.

(* CPython's date <-> ordinal conversion inverts itself on the whole date range (library behaviour) *)
Definition ordinal_law : Prop :=
  forall n, (1 <= n <= max_ord)%Z -> valid_date (ord2ymd n) = true /\ ymd2ord (ord2ymd n) = n.
