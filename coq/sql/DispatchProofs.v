(* C22 (a) - proofs about the dispatch model: the finite reflective check [covers] lifts to arbitrary trees *)
From Coq Require Import List NArith Bool.
Import ListNotations.
From SAV.sql Require Import Dispatch.

(* ---------- induction over nodes with nested child lists ---------- *)
Section NodeInd.
  Variable P : node -> Prop.
  Hypothesis HElem : forall k vn kids, Forall P kids -> P (NElem k vn kids).
  Hypothesis HNo : P NNoDispatch.
  Hypothesis HBin : forall op cust l r, P l -> P r -> P (NBinary op cust l r).
  Hypothesis HUn : forall o m cust e, P e -> P (NUnary o m cust e).
  Hypothesis HEl : forall op kids, Forall P kids -> P (NExprList op kids).
  Hypothesis HCl : forall op kids, Forall P kids -> P (NClauseList op kids).

  Fixpoint node_rect' (n : node) : P n :=
    let fix go (l : list node) : Forall P l :=
      match l with
      | [] => Forall_nil P
      | x :: r => Forall_cons x (node_rect' x) (go r)
      end in
    match n with
    | NElem k vn kids => HElem k vn kids (go kids)
    | NNoDispatch => HNo
    | NBinary op cust l r => HBin op cust l r (node_rect' l) (node_rect' r)
    | NUnary o m cust e => HUn o m cust e (node_rect' e)
    | NExprList op kids => HEl op kids (go kids)
    | NClauseList op kids => HCl op kids (go kids)
    end.
End NodeInd.

(* the local fixpoints inside [walk] / [wf] are the top-level list versions *)
Lemma walk_elem : forall T d k vn kids,
  walk T d (NElem k vn kids) = continue_if (elem_dispatch T (comp_of d k) vn) (walks T d kids).
Proof. reflexivity. Qed.

Lemma walk_elist : forall T d op kids,
  walk T d (NExprList op kids) =
  continue_if (elem_dispatch T (d_sql d) (n_elist T)) (continue_if (elist_dispatch T (d_sql d) op) (walks T d kids)).
Proof. reflexivity. Qed.

Lemma walk_clist : forall T d op kids,
  walk T d (NClauseList op kids) =
  continue_if (elem_dispatch T (d_sql d) (n_clist T)) (continue_if (clist_dispatch T op) (walks T d kids)).
Proof. reflexivity. Qed.

Lemma wf_elem : forall T k vn kids, wf T (NElem k vn kids) = wfs T kids.
Proof. intros. cbn [wf]. induction kids as [|x r IH]; [reflexivity|]. cbn [wfs]. rewrite <- IH. reflexivity. Qed.
Lemma wf_elist : forall T op kids, wf T (NExprList op kids) = wfs T kids.
Proof. intros. cbn [wf]. induction kids as [|x r IH]; [reflexivity|]. cbn [wfs]. rewrite <- IH. reflexivity. Qed.
Lemma wf_clist : forall T op kids,
  wf T (NClauseList op kids) = (match op with Some o => memN o (clist_ops T) | None => true end && wfs T kids).
Proof. intros. cbn [wf]. f_equal. induction kids as [|x r IH]; [reflexivity|]. cbn [wfs]. rewrite <- IH. reflexivity. Qed.

(* ---------- a dispatch step never selects a method the visitor does not have ---------- *)
Lemma elem_dispatch_method : forall T c vn m, elem_dispatch T c vn = Method m -> m = vn /\ has_attr T c m = true.
Proof.
  intros T c vn m. unfold elem_dispatch. destruct (has_attr T c vn) eqn:E.
  - intros H; inversion H; subst; auto.
  - destruct (has_attr T c (n_unsupported T)); discriminate.
Qed.

Lemma op_dispatch_caught_method : forall T c n op m, op_dispatch_caught T c n op = Method m -> has_attr T c m = true.
Proof.
  intros T c n op m. unfold op_dispatch_caught. destruct (has_attr T c n) eqn:E.
  - intros H; inversion H; subst; auto.
  - destruct (memN op (generic_ops T)); discriminate.
Qed.
Lemma op_dispatch_bare_method : forall T c n op m, op_dispatch_bare T c n op = Method m -> has_attr T c m = true.
Proof.
  intros T c n op m. unfold op_dispatch_bare. destruct (has_attr T c n) eqn:E.
  - intros H; inversion H; subst; auto.
  - destruct (memN op (generic_ops T)); discriminate.
Qed.

Lemma binary_dispatch_method : forall T c op m, binary_dispatch T c op = Method m -> has_attr T c m = true.
Proof.
  intros T c op m. unfold binary_dispatch. destruct (names_of T op).
  - apply op_dispatch_caught_method.
  - destruct (memN op (generic_ops T)); discriminate.
Qed.
Lemma elist_dispatch_method : forall T c op m, elist_dispatch T c op = Method m -> has_attr T c m = true.
Proof.
  intros T c op m. unfold elist_dispatch. destruct (names_of T op).
  - apply op_dispatch_caught_method.
  - destruct (memN op (generic_ops T)); discriminate.
Qed.
Lemma unary_dispatch_method : forall T c op b m, unary_dispatch T c op b = Method m -> has_attr T c m = true.
Proof.
  intros T c op b m. unfold unary_dispatch. destruct (names_of T op).
  - apply op_dispatch_bare_method.
  - destruct (memN op (generic_ops T)); discriminate.
Qed.
Lemma custom_dispatch_method : forall T c cust m, custom_dispatch T c cust = Method m -> has_attr T c m = true.
Proof.
  intros T c cust m. unfold custom_dispatch. destruct cust as [n|]; [|discriminate].
  destruct (has_attr T c n) eqn:E; [|discriminate]. intros H; inversion H; subst; auto.
Qed.

(* all dispatch steps of the model in one statement *)
Definition any_dispatch (T : tables) (c : clsid) (o : outcome) : Prop :=
  (exists vn, o = elem_dispatch T c vn) \/ (exists op, o = binary_dispatch T c op) \/
  (exists op, o = elist_dispatch T c op) \/ (exists op b, o = unary_dispatch T c op b) \/
  (exists cust, o = custom_dispatch T c cust).

Lemma selected_method_exists : forall T c o m, any_dispatch T c o -> o = Method m -> has_attr T c m = true.
Proof.
  intros T c o m [[vn H]|[[op H]|[[op H]|[[op [b H]]|[cust H]]]]] E; rewrite H in E.
  - apply elem_dispatch_method in E. tauto.
  - eapply binary_dispatch_method; eauto.
  - eapply elist_dispatch_method; eauto.
  - eapply unary_dispatch_method; eauto.
  - eapply custom_dispatch_method; eauto.
Qed.

(* the documented error is raised only for a method that is really absent *)
Lemma unsupported_means_missing : forall T c vn,
  elem_dispatch T c vn = Doc Unsupported -> has_attr T c vn = false /\ has_attr T c (n_unsupported T) = true.
Proof.
  intros T c vn. unfold elem_dispatch. destruct (has_attr T c vn); [discriminate|].
  destruct (has_attr T c (n_unsupported T)); [auto|discriminate].
Qed.

(* ---------- what [covers] gives ---------- *)
Lemma covers_hatch : forall T d k, covers T = true -> In d (dialects T) ->
  has_attr T (comp_of d k) (n_unsupported T) = true.
Proof.
  intros T d k H Hd. unfold covers in H. apply andb_true_iff in H. destruct H as [H _].
  apply andb_true_iff in H. destruct H as [H _].
  rewrite forallb_forall in H. apply H. unfold compilers_of. apply in_flat_map. exists d. split; [exact Hd|].
  destruct k; cbn; auto.
Qed.

Lemma covers_unary : forall T d o b, covers T = true -> In d (dialects T) -> memOB (o, b) (unary_ops T) = true ->
  not_internal (unary_dispatch T (d_sql d) o b) = true.
Proof.
  intros T d o b H Hd Hm. unfold covers in H. apply andb_true_iff in H. destruct H as [H _].
  apply andb_true_iff in H. destruct H as [_ H]. rewrite forallb_forall in H. specialize (H d Hd).
  rewrite forallb_forall in H. unfold memOB in Hm. apply existsb_exists in Hm. destruct Hm as [[o' b'] [Hin Heq]].
  cbn [fst snd] in Heq. apply andb_true_iff in Heq. destruct Heq as [Ho Hb].
  apply N.eqb_eq in Ho. apply Bool.eqb_prop in Hb. subst. exact (H _ Hin).
Qed.

Lemma covers_clist : forall T o, covers T = true -> memN o (clist_ops T) = true -> memN o (generic_ops T) = true.
Proof.
  intros T o H Hm. unfold covers in H. apply andb_true_iff in H. destruct H as [_ H].
  rewrite forallb_forall in H. unfold memN in Hm. apply existsb_exists in Hm. destruct Hm as [o' [Hin Heq]].
  apply N.eqb_eq in Heq. subst. exact (H _ Hin).
Qed.

Lemma elem_not_internal : forall T c vn, has_attr T c (n_unsupported T) = true -> not_internal (elem_dispatch T c vn) = true.
Proof. intros T c vn H. unfold elem_dispatch. rewrite H. destruct (has_attr T c vn); reflexivity. Qed.

Lemma binary_not_internal : forall T c op, not_internal (binary_dispatch T c op) = true.
Proof.
  intros. unfold binary_dispatch, op_dispatch_caught. destruct (names_of T op).
  - destruct (has_attr T c (on_binary o)); [reflexivity|]. destruct (memN op (generic_ops T)); reflexivity.
  - destruct (memN op (generic_ops T)); reflexivity.
Qed.
Lemma elist_not_internal : forall T c op, not_internal (elist_dispatch T c op) = true.
Proof.
  intros. unfold elist_dispatch, op_dispatch_caught. destruct (names_of T op).
  - destruct (has_attr T c (on_elist o)); [reflexivity|]. destruct (memN op (generic_ops T)); reflexivity.
  - destruct (memN op (generic_ops T)); reflexivity.
Qed.
Lemma custom_not_internal : forall T c cust, not_internal (custom_dispatch T c cust) = true.
Proof. intros. unfold custom_dispatch. destruct cust; [destruct (has_attr T c n)|]; reflexivity. Qed.

Definition no_int (r : result) : Prop := forall e, r <> RInt e.

Lemma continue_no_int : forall o k, not_internal o = true -> no_int k -> no_int (continue_if o k).
Proof. intros o k Ho Hk e. destruct o; cbn in *; try discriminate; auto. Qed.

Lemma seq_no_int : forall a b, no_int a -> no_int b -> no_int (match a with ROk => b | RDoc e => RDoc e | RInt e => RInt e end).
Proof. intros a b Ha Hb e. destruct a; auto. Qed.

(* ---------- the main lifting ---------- *)
Theorem dispatch_total : forall T, covers T = true -> forall d, In d (dialects T) ->
  forall n, wf T n = true -> forall e, walk T d n <> RInt e.
Proof.
  intros T HC d Hd n. change (wf T n = true -> no_int (walk T d n)).
  induction n using node_rect'.
  - (* NElem *)
    rewrite wf_elem, walk_elem. intros Hw. apply continue_no_int.
    + apply elem_not_internal. apply covers_hatch; assumption.
    + induction kids as [|x r IHr]; [intros e; discriminate|].
      cbn [wfs] in Hw. apply andb_true_iff in Hw. destruct Hw as [Hx Hr]. inversion H; subst.
      cbn [walks]. apply seq_no_int; auto.
  - discriminate.
  - (* NBinary *)
    cbn [wf walk]. intros Hw. apply andb_true_iff in Hw. destruct Hw as [Hl Hr].
    apply continue_no_int; [apply elem_not_internal; apply (covers_hatch T d KSql); assumption|].
    apply continue_no_int; [apply binary_not_internal|].
    apply continue_no_int; [apply custom_not_internal|].
    apply seq_no_int; auto.
  - (* NUnary *)
    cbn [wf walk]. intros Hw. apply andb_true_iff in Hw. destruct Hw as [Hop He].
    apply continue_no_int; [apply elem_not_internal; apply (covers_hatch T d KSql); assumption|].
    destruct o as [o|], m as [m|]; try (intros e'; discriminate).
    + apply continue_no_int; [apply covers_unary; assumption|].
      apply continue_no_int; [apply custom_not_internal|]. auto.
    + apply continue_no_int; [apply covers_unary; assumption|].
      apply continue_no_int; [apply custom_not_internal|]. auto.
  - (* NExprList *)
    rewrite wf_elist, walk_elist. intros Hw.
    apply continue_no_int; [apply elem_not_internal; apply (covers_hatch T d KSql); assumption|].
    apply continue_no_int; [apply elist_not_internal|].
    induction kids as [|x r IHr]; [intros e; discriminate|].
    cbn [wfs] in Hw. apply andb_true_iff in Hw. destruct Hw as [Hx Hr]. inversion H; subst.
    cbn [walks]. apply seq_no_int; auto.
  - (* NClauseList *)
    rewrite wf_clist, walk_clist. intros Hw. apply andb_true_iff in Hw. destruct Hw as [Hop Hk].
    apply continue_no_int; [apply elem_not_internal; apply (covers_hatch T d KSql); assumption|].
    apply continue_no_int.
    + destruct op as [o|]; [|reflexivity]. cbn [clist_dispatch]. rewrite (covers_clist T o HC Hop). reflexivity.
    + induction kids as [|x r IHr]; [intros e; discriminate|].
      cbn [wfs] in Hk. apply andb_true_iff in Hk. destruct Hk as [Hx Hr]. inversion H; subst.
      cbn [walks]. apply seq_no_int; auto.
Qed.

(* ---------- outside the guard: the unguarded statement is false ---------- *)
(* an operator with no visit_<op>_unary_operator method and no OPERATORS entry: bare KeyError *)
Lemma unary_unlisted_operator_keyerror : forall T d op ns e,
  has_attr T (d_sql d) (n_unary T) = true ->
  names_of T op = Some ns -> has_attr T (d_sql d) (on_unop ns) = false -> memN op (generic_ops T) = false ->
  walk T d (NUnary (Some op) None None e) = RInt KeyErr.
Proof.
  intros T d op ns e H1 H2 H3 H4. cbn [walk]. unfold elem_dispatch. rewrite H1. cbn [continue_if].
  unfold unary_dispatch. rewrite H2. unfold op_dispatch_bare. rewrite H3, H4. reflexivity.
Qed.

Lemma clauselist_unlisted_operator_keyerror : forall T d op kids,
  has_attr T (d_sql d) (n_clist T) = true -> memN op (generic_ops T) = false ->
  walk T d (NClauseList (Some op) kids) = RInt KeyErr.
Proof.
  intros T d op kids H1 H2. rewrite walk_clist. unfold elem_dispatch. rewrite H1. cbn [continue_if].
  cbn [clist_dispatch]. rewrite H2. reflexivity.
Qed.

(* the same operator in a BinaryExpression gives the documented error: the two paths are inconsistent *)
Lemma binary_unlisted_operator_documented : forall T d op ns l r,
  has_attr T (d_sql d) (n_binary T) = true ->
  names_of T op = Some ns -> has_attr T (d_sql d) (on_binary ns) = false -> memN op (generic_ops T) = false ->
  walk T d (NBinary op None l r) = RDoc Unsupported.
Proof.
  intros T d op ns l r H1 H2 H3 H4. cbn [walk]. unfold elem_dispatch. rewrite H1. cbn [continue_if].
  unfold binary_dispatch. rewrite H2. unfold op_dispatch_caught. rewrite H3, H4. reflexivity.
Qed.

Lemma nodispatch_attributeerror : forall T d, walk T d NNoDispatch = RInt AttributeErr.
Proof. reflexivity. Qed.

(* a walk that ends in the documented UnsupportedCompilationError/CompileError or succeeds is all that is left *)
Corollary dispatch_total_cases : forall T, covers T = true -> forall d, In d (dialects T) ->
  forall n, wf T n = true -> walk T d n = ROk \/ exists e, walk T d n = RDoc e.
Proof.
  intros T HC d Hd n Hw. pose proof (dispatch_total T HC d Hd n Hw) as H.
  destruct (walk T d n) as [|e|e]; [left; reflexivity|right; eauto|exfalso; exact (H e eq_refl)].
Qed.

(* ---------- a small concrete table: hypotheses are satisfiable, every branch is reachable ---------- *)
(* names: 0 visit_unsupported_compilation, 1 visit_binary, 2 visit_unary, 3 visit_expression_clauselist,
   4 visit_clauselist, 5 visit_column, 6 visit_array (dialect B only), 7 visit_INTEGER, 8 visit_like_op_binary,
   9 visit_neg_unary_operator (absent everywhere), 10.. unused dispatch names, 20 visit_hstore_op_binary (B only)
   classes: 100 base sql compiler, 101 dialect-B sql compiler, 102 ddl compiler, 103 type compiler, 104 Compiled
   operators: 0 add (generic), 1 like_op (method), 2 neg (generic), 3 desc_op (generic), 4 comma_op (generic),
              5 foo_op (nothing), 6 custom_op *)
Definition ons (a b c e : N) : opnames := {| on_binary := a; on_unop := b; on_unmod := c; on_elist := e |}.
Definition sample : tables := {|
  cls_methods := [(104, [0]); (100, [1;2;3;4;5;8;30;31;32]); (101, [6;20]); (102, [40]); (103, [0;7])]%N;
  cls_mro := [(100, [100;104]); (101, [101;100;104]); (102, [102;104]); (103, [103])]%N;
  dialects := [ {| d_sql := 100; d_ddl := 102; d_type := 103 |}; {| d_sql := 101; d_ddl := 102; d_type := 103 |} ]%N;
  n_unsupported := 0; n_binary := 1; n_unary := 2; n_elist := 3; n_clist := 4;
  generic_ops := [0;2;3;4]%N;
  op_table := [(0, ons 10 11 12 13); (1, ons 8 14 15 16); (2, ons 17 9 18 19); (3, ons 21 22 23 24);
               (4, ons 25 26 27 28); (5, ons 33 34 35 36); (6, ons 30 31 32 37)]%N;
  unary_ops := [(2, false); (3, true); (6, false); (6, true)]%N;
  clist_ops := [4]%N
|}.
Definition dA : dialect := {| d_sql := 100; d_ddl := 102; d_type := 103 |}%N.
Definition dB : dialect := {| d_sql := 101; d_ddl := 102; d_type := 103 |}%N.
