(* executable entry point for the correspondence check of C11 *)
From Coq Require Import List NArith ZArith Bool.
Import ListNotations.
From SAV.base Require Import Tree.
From SAV.sql Require Import ResultMap.

Fixpoint as_nm_fuel (fuel : nat) (t : tree) : option nm :=
  match fuel with
  | O => None
  | S f =>
      match t with
      | I z => if (0 <=? z)%Z then Some (NP (Z.to_N z)) else None
      | L [I h; I i; s] =>
          if (0 <=? h)%Z && (0 <=? i)%Z then
            match as_nm_fuel f s with Some s' => Some (NA (Z.to_N h) (Z.to_N i) s') | None => None end
          else None
      | _ => None
      end
  end.
Definition as_nm := as_nm_fuel 8.

Fixpoint of_nm (n : nm) : tree :=
  match n with NP a => of_N a | NA h i s => L [of_N h; of_N i; of_nm s] end.

Definition as_key (t : tree) : option key :=
  match t with
  | L [] => Some KN
  | L [I 0%Z; n] => match as_nm n with Some n' => Some (KS n') | None => None end
  | L [I 1%Z; I o] => if (0 <=? o)%Z then Some (KO (Z.to_N o)) else None
  | _ => None
  end.
Definition of_key (k : key) : tree :=
  match k with KN => L [] | KS n => L [I 0%Z; of_nm n] | KO o => L [I 1%Z; of_N o] end.

Definition as_otname (t : tree) : option (option tname) :=
  match t with
  | L [] => Some None
  | L [n; b] => match as_nm n, as_bool b with Some n', Some b' => Some (Some (n', b')) | _, _ => None end
  | _ => None
  end.
Definition as_onm (t : tree) : option (option nm) :=
  match t with
  | L [] => Some None
  | L [n] => match as_nm n with Some n' => Some (Some n') | None => None end
  | _ => None
  end.

Definition as_cls (t : tree) : option ccls :=
  match t with
  | I 0%Z => Some CLabel | I 1%Z => Some CColumnClause | I 2%Z => Some CText | I 3%Z => Some CUnnamed
  | _ => None
  end.

Definition as_cdesc (t : tree) : option cdesc :=
  match t with
  | L [o; h; cls; lit; tb; rd; nme; ky; tq; na; an; atq; el; px] =>
      match as_N o, as_N h, as_cls cls, as_bool lit, as_bool tb, as_bool rd with
      | Some o, Some h, Some cls, Some lit, Some tb, Some rd =>
          match as_otname nme, as_key ky, as_otname tq, as_otname na with
          | Some nme, Some ky, Some tq, Some na =>
              match as_nm an, as_nm atq, as_onm el, as_key px with
              | Some an, Some atq, Some el, Some px =>
                  Some {| d_obj := o; d_hash := h; d_cls := cls; d_lit := lit; d_table := tb; d_render := rd;
                          d_name := nme; d_key := ky; d_tq := tq; d_nonanon := na; d_anon_name := an;
                          d_anon_tq := atq; d_exprlabel := el; d_proxy := px |}
              | _, _, _, _ => None
              end
          | _, _, _, _ => None
          end
      | _, _, _, _, _, _ => None
      end
  | _ => None
  end.

Definition as_style (t : tree) : option style :=
  match t with I 0%Z => Some StNone | I 1%Z => Some StTable | I 2%Z => Some StDisamb | _ => None end.

Definition resolve_tab (tab : list (nm * nm)) (n : nm) : nm :=
  match dget nm_eqb tab n with Some r => r | None => n end.

Definition of_rc (e : rc) : tree := L [of_key (rc_keyname e); of_key (rc_name e); of_list of_key (rc_objs e)].
Definition of_flags (f : cflags) : tree :=
  L [of_bool (f_ordered f); of_bool (f_textual_ordered f); of_bool (f_adhoc f); of_bool (f_loose f)].
Definition of_lookup (r : result nat) : tree :=
  match r with
  | Ok i => of_nat i
  | Raise Ambiguous => I (-1)%Z
  | Raise NoSuchColumn => I (-2)%Z
  | Raise DuplicateTextual => I (-3)%Z
  end.

Definition no_flags : cflags := {| f_ordered := true; f_textual_ordered := false; f_adhoc := false; f_loose := false |}.

(* input  L [generator description (ignored); model input]; a case the harness could not run carries
   the model input L [I 9] and expects L [I (-998)] *)
Definition run_model (t : tree) : tree :=
  match t with
  | L [I 9%Z] => L [I (-998)%Z]
  | L [I form; tst; tds; tres; tdesc; ttr; tprobes; tnews] =>
      match as_style tst, as_list_of as_cdesc tds, as_list_of (as_pair_of as_nm as_nm) tres,
            as_list_of (as_pair_of as_key as_key) tdesc, as_bool ttr with
      | Some st, Some ds, Some res, Some desc, Some tr =>
          match as_list_of as_key tprobes, as_list_of as_key tnews with
          | Some probes, Some news =>
              let '(rcs, fl) :=
                if Z.eqb form 0 then compile_select (resolve_tab res) st ds
                else if Z.eqb form 1 then compile_textual (resolve_tab res) true ds
                else if Z.eqb form 2 then compile_textual (resolve_tab res) false ds
                else ([], no_flags) in
              L [of_list of_rc rcs; of_flags fl;
                 match build rcs fl desc tr with
                 | Raise _ => L [I 1%Z]
                 | Ok md =>
                     L [I 0%Z; of_bool (md_safe md); of_list of_key (md_keys md);
                        of_list (fun k => of_lookup (lookup (md_keymap md) k)) probes;
                        of_list (fun k => of_lookup (lookup (adapt (md_keymap md) news) k)) news]
                 end]
          | _, _ => bad_input
          end
      | _, _, _, _, _ => bad_input
      end
  | _ => bad_input
  end.

Definition run_case (t : tree) : tree :=
  match t with
  | L [_; mi] => run_model mi
  | _ => bad_input
  end.
