(* C05 - literal rendering (literal_binds / literal_execute): executable model (definitions only).

   Implementation side (transcribes the code as written, defects included):
     sql/sqltypes.py  String.literal_processor                 -> [string_replaces], [string_process]
     dialects/mssql/base.py  _UnicodeLiteral.literal_processor -> [string_process] with [unicode_n = true]
     sql/sqltypes.py  String._resolve_for_literal          -> [resolve_auto]
     sql/sqltypes.py  Integer.literal_processor                -> [render_int]
     sql/sqltypes.py  Boolean.literal_processor                -> [bool_text]
     sql/sqltypes.py  NumericCommon.literal_processor          -> [numeric_process] (+ CPython's
                      decimal.Decimal(str) acceptance grammar  -> [decimal_accepts])
     sql/sqltypes.py  _RenderISO8601NoT, sqlite _DateTimeMixin.literal_processor, oracle
                      _OracleDateLiteralRender                 -> [temporal_*]
     sql/compiler.py  SQLCompiler.render_literal_value (None -> NULL) and the mysql/postgresql
                      overrides (backslash doubling of the processor's output) -> [render_value]
     sql/compiler.py  IdentifierPreparer.__init__ (_double_percents) -> [dp_of_paramstyle]
     sql/compiler.py  _literal_execute_expanding_parameter_literal_binds -> [render_in_list],
                      [render_in_list_be]
     sql/compiler.py  _process_parameters_for_postcompile.process_expanding -> [process_expanding_be],
                      [process_expanding_bound]
     sql/compiler.py  _generate_generic_unary_operator         -> [render_neg]
     sql/compiler.py  _process_parameters_for_postcompile: re.sub(_post_compile_pattern, ...) -> [pcsub]
     sql/compiler.py  _process_positional (qmark/format), _process_numeric and the numeric branch of
                      _process_parameters_for_postcompile: the %(name)s passes over the finished text
                                                               -> [pysub], [find_pyformat]
   Spec side (trusted transcriptions of the SQL dialects' lexical grammar; the SQLite one is validated
   against SQLite on every run):
     [lex_str]     one string literal: standard '' doubling; MySQL (sql_mode without
                   NO_BACKSLASH_ESCAPES) and PostgreSQL (standard_conforming_strings=off) additionally
                   treat backslash as an escape character; SQL Server N'...'
     [collapse]    what a format/pyformat DBAPI does to the statement text: %% -> %
     [lex_signed]  one (optionally signed) numeric literal
     [lex_minus]   what a '-' starts: the minus operator or a -- comment
     [lex_list]    a comma separated list of string literals *)
From Coq Require Import List NArith ZArith Bool.
From Coq Require Decimal.
Import ListNotations.
Open Scope N_scope.

Definition chr := N.
Definition str := list chr.

Definition QUOTE : chr := 39.   (* ' *)
Definition BSL : chr := 92.     (* \ *)
Definition PCT : chr := 37.     (* % *)
Definition MINUS : chr := 45.   (* - *)

Fixpoint str_eqb (a b : str) : bool :=
  match a, b with
  | [], [] => true
  | x :: a', y :: b' => N.eqb x y && str_eqb a' b'
  | _, _ => false
  end.

(* ================================================================== implementation side *)

(* Python  s.replace(a, b)  for a one-character pattern [a] *)
Definition replace1 (a : chr) (b : str) (s : str) : str :=
  flat_map (fun c => if N.eqb c a then b else [c]) s.

Inductive dialect := SQLite | PG | MySQL | MSSQL | Oracle.

(* the two switches the code consults *)
Record flags := mkFlags { f_dp : bool (* identifier_preparer._double_percents *);
                          f_bs : bool (* dialect._backslash_escapes *) }.

Inductive cond := Always | IfDoublePercents | IfBackslashEscapes.
Record repl := mkRepl { r_when : cond; r_from : chr; r_to : str }.

Definition cond_holds (fl : flags) (c : cond) : bool :=
  match c with Always => true | IfDoublePercents => f_dp fl | IfBackslashEscapes => f_bs fl end.

(* value = value.replace(...) statements, in program order *)
Definition apply_repls (fl : flags) (rs : list repl) (s : str) : str :=
  fold_left (fun acc r => if cond_holds fl (r_when r) then replace1 (r_from r) (r_to r) acc else acc) rs s.

(* String.literal_processor / _UnicodeLiteral.literal_processor:
     value = value.replace("'", "''")
     if dialect.identifier_preparer._double_percents: value = value.replace("%", "%%")
     return "'%s'" % value            (mssql Unicode:  "N'%s'") *)
Definition string_replaces : list repl :=
  [mkRepl Always 39 [39; 39]; mkRepl IfDoublePercents 37 [37; 37]].
Definition string_prefix (unicode_n : bool) : str := if unicode_n then [78] else [].
Definition string_process (fl : flags) (unicode_n : bool) (s : str) : str :=
  string_prefix unicode_n ++ [39] ++ apply_repls fl string_replaces s ++ [39].

(* MySQLCompiler / PGCompiler.render_literal_value:
     value = super().render_literal_value(value, type_)
     if self.dialect._backslash_escapes: value = value.replace("\\", "\\\\")
   applied to the complete text the processor returned, whatever the type *)
Definition dialect_replaces (d : dialect) : list repl :=
  match d with
  | MySQL | PG => [mkRepl IfBackslashEscapes 92 [92; 92]]
  | _ => []
  end.

Definition render_string (d : dialect) (fl : flags) (unicode_n : bool) (s : str) : str :=
  apply_repls fl (dialect_replaces d) (string_process fl unicode_n s).

(* IdentifierPreparer.__init__:  self._double_percents = dialect.paramstyle in ("format", "pyformat") *)
Inductive paramstyle := Qmark | Format | Pyformat | Named | Numeric | NumericDollar.
Definition dp_of_paramstyle (p : paramstyle) : bool :=
  match p with Format | Pyformat => true | _ => false end.

(* class-level defaults of the five dialects (T1: regenerated from the live dialect objects and
   compared with this table by reflexivity): default paramstyle, _backslash_escapes *)
Definition default_paramstyle (d : dialect) : paramstyle :=
  match d with SQLite => Qmark | PG => Pyformat | MySQL => Format | MSSQL => Named | Oracle => Named end.
Definition default_bs (d : dialect) : bool :=
  match d with MySQL => true | _ => false end.
Definition default_flags (d : dialect) : flags :=
  mkFlags (dp_of_paramstyle (default_paramstyle d)) (default_bs d).

(* String._resolve_for_literal: a str without an explicit type is String when ASCII else Unicode;
   the SQL Server dialect renders Unicode/UnicodeText with the N prefix (colspecs -> _MSUnicode) *)
Inductive strtype := TString | TUnicode | TAuto.
Definition is_ascii (s : str) : bool := forallb (fun c => c <? 128) s.
Definition resolve_auto (t : strtype) (s : str) : strtype :=
  match t with TAuto => if is_ascii s then TString else TUnicode | _ => t end.
Definition unicode_n (d : dialect) (t : strtype) (s : str) : bool :=
  match d, resolve_auto t s with MSSQL, TUnicode => true | _, _ => false end.

(* ---------------------------------------------------------------- integers *)

Fixpoint uint_chars (d : Decimal.uint) : str :=
  match d with
  | Decimal.Nil => []
  | Decimal.D0 d => 48 :: uint_chars d
  | Decimal.D1 d => 49 :: uint_chars d
  | Decimal.D2 d => 50 :: uint_chars d
  | Decimal.D3 d => 51 :: uint_chars d
  | Decimal.D4 d => 52 :: uint_chars d
  | Decimal.D5 d => 53 :: uint_chars d
  | Decimal.D6 d => 54 :: uint_chars d
  | Decimal.D7 d => 55 :: uint_chars d
  | Decimal.D8 d => 56 :: uint_chars d
  | Decimal.D9 d => 57 :: uint_chars d
  end.
Definition dec_of_N (n : N) : str := uint_chars (N.to_uint n).

(* Integer.literal_processor:  str(int(value))  for a Python int (bool included) *)
Definition render_int (z : Z) : str :=
  match z with
  | Zneg p => 45 :: dec_of_N (Npos p)
  | _ => dec_of_N (Z.to_N z)
  end.

(* ---------------------------------------------------------------- booleans, NULL *)

(* Boolean.literal_processor renders compiler.visit_true(None) / visit_false(None) (T1: live) *)
Definition native_bool_text (d : dialect) : bool :=
  match d with PG | MySQL => true | _ => false end.
Definition bool_text (d : dialect) (b : bool) : str :=
  if native_bool_text d
  then (if b then [116; 114; 117; 101] else [102; 97; 108; 115; 101])    (* true / false *)
  else (if b then [49] else [48]).
Definition null_text : str := [78; 85; 76; 76].

(* ---------------------------------------------------------------- Numeric / Float *)

(* NumericCommon.literal_processor:   decimal.Decimal(value); return str(value)
   The value is represented by the text of str(value) and its Python type.  Decimal(float),
   Decimal(Decimal), Decimal(int) never raise; Decimal(str) accepts the grammar below (CPython
   _decimal: numeric_as_ascii with strip_ws and ignore_underscores, then mpd_qset_string). *)
Inductive nkind := KStr | KFloat | KDecimal | KInt.

(* str.isspace() of one character (Py_UNICODE_ISSPACE) - T1: compared with the live interpreter *)
Definition ws_points : list N :=
  [9; 10; 11; 12; 13; 28; 29; 30; 31; 32; 133; 160; 5760; 8192; 8193; 8194; 8195; 8196; 8197; 8198;
   8199; 8200; 8201; 8202; 8232; 8233; 8239; 8287; 12288].
Definition is_ws (c : chr) : bool := existsb (N.eqb c) ws_points.
(* code points of the digit zero of every Unicode decimal-digit run (Unicode 15.0) - T1 *)
Definition digit_zeros : list N :=
  [48; 1632; 1776; 1984; 2406; 2534; 2662; 2790; 2918; 3046; 3174; 3302; 3430; 3558; 3664; 3792; 3872;
   4160; 4240; 6112; 6160; 6470; 6608; 6784; 6800; 6992; 7088; 7232; 7248; 42528; 43216; 43264; 43472;
   43504; 43600; 44016; 65296; 66720; 68912; 69734; 69872; 69942; 70096; 70384; 70736; 70864; 71248;
   71360; 71472; 71904; 72016; 72784; 73040; 73120; 73552; 92768; 92864; 93008; 120782; 120792; 120802;
   120812; 120822; 123200; 123632; 124144; 125264; 130032].
Definition to_decimal (c : chr) : option N :=
  match find (fun z => (z <=? c) && (c <? z + 10)) digit_zeros with
  | Some z => Some (c - z)
  | None => None
  end.

Fixpoint drop_ws (s : str) : str :=
  match s with c :: r => if is_ws c then drop_ws r else s | [] => [] end.
Definition strip_ws (s : str) : str := rev (drop_ws (rev (drop_ws s))).

(* numeric_as_ascii after the strip: underscores vanish, ASCII stays, other whitespace becomes a
   blank, other decimal digits become ASCII digits, anything else (NUL included) is an error *)
Fixpoint to_ascii (s : str) : option str :=
  match s with
  | [] => Some []
  | c :: r =>
    match to_ascii r with
    | None => None
    | Some r' =>
      if c =? 95 then Some r'
      else if (0 <? c) && (c <=? 127) then Some (c :: r')
      else if is_ws c then Some (32 :: r')
      else match to_decimal c with Some d => Some (48 + d :: r') | None => None end
    end
  end.

Definition is_digit (c : chr) : bool := (48 <=? c) && (c <=? 57).
Definition lower (c : chr) : chr := if (65 <=? c) && (c <=? 90) then c + 32 else c.
Fixpoint span_digits (s : str) : str * str :=
  match s with
  | c :: r => if is_digit c then let (a, b) := span_digits r in (c :: a, b) else ([], s)
  | [] => ([], [])
  end.
Definition nonempty (s : str) : bool := match s with [] => false | _ => true end.
Definition is_sign (c : chr) : bool := (c =? 43) || (c =? 45).
Definition drop_sign (s : str) : str :=
  match s with c :: r => if is_sign c then r else s | [] => [] end.

(* mpd_qset_string on the ASCII text *)
Definition mpd_accepts (s : str) : bool :=
  let body := map lower (drop_sign s) in
  if str_eqb body [105; 110; 102] || str_eqb body [105; 110; 102; 105; 110; 105; 116; 121] then true
  else match body with
  | 110 :: 97 :: 110 :: r => forallb is_digit r                       (* nan<payload> *)
  | 115 :: 110 :: 97 :: 110 :: r => forallb is_digit r                (* snan<payload> *)
  | _ =>
    let (ip, r1) := span_digits body in
    let (fp, r2) := match r1 with 46 :: r' => span_digits r' | _ => ([], r1) end in
    (nonempty ip || nonempty fp) &&
    match r2 with
    | [] => true
    | 101 :: r3 => let (e, r4) := span_digits (drop_sign r3) in nonempty e && negb (nonempty r4)
    | _ => false
    end
  end.

Definition decimal_accepts (s : str) : bool :=
  match to_ascii (strip_ws s) with Some a => mpd_accepts a | None => false end.

Inductive result (A : Type) := Ok (a : A) | CompileError.
Arguments Ok {A} a.
Arguments CompileError {A}.

Definition numeric_process (k : nkind) (text : str) : result str :=
  match k with
  | KStr => if decimal_accepts text then Ok text else CompileError
  | _ => Ok text
  end.

(* ---------------------------------------------------------------- dates and times *)

Definition pad (w : nat) (s : str) : str := repeat 48 (w - length s)%nat ++ s.
Definition padN (w : nat) (n : N) : str := pad w (dec_of_N n).

Record date := mkDate { d_y : N; d_m : N; d_d : N }.
Record time := mkTime { t_h : N; t_mi : N; t_s : N; t_us : N }.
Inductive temporal := VDate (d : date) | VTime (t : time) | VDateTime (d : date) (t : time).

Definition iso_date (d : date) : str :=
  padN 4 (d_y d) ++ [45] ++ padN 2 (d_m d) ++ [45] ++ padN 2 (d_d d).
Definition hms (t : time) : str := padN 2 (t_h t) ++ [58] ++ padN 2 (t_mi t) ++ [58] ++ padN 2 (t_s t).
(* time.isoformat(): microseconds only when non-zero *)
Definition iso_time (t : time) : str := hms t ++ (if t_us t =? 0 then [] else 46 :: padN 6 (t_us t)).
(* sqlite storage format: always six microsecond digits *)
Definition sqlite_time (t : time) : str := hms t ++ 46 :: padN 6 (t_us t).

(* text between the quotes; naive values, type matching the value *)
Definition temporal_text (d : dialect) (v : temporal) : str :=
  match d, v with
  | SQLite, VDate x => iso_date x
  | SQLite, VTime t => sqlite_time t
  | SQLite, VDateTime x t => iso_date x ++ [32] ++ sqlite_time t
  | _, VDate x => iso_date x
  | _, VTime t => iso_time t
  | _, VDateTime x t => iso_date x ++ [32] ++ iso_time t
  end.
(* Oracle wraps dates in TO_DATE / TO_TIMESTAMP (getattr(value, "microsecond", None)) *)
Definition s_TO_DATE : str := [84; 79; 95; 68; 65; 84; 69; 40].
Definition s_TO_TIMESTAMP : str := [84; 79; 95; 84; 73; 77; 69; 83; 84; 65; 77; 80; 40].
Definition s_fmt_date : str := [44; 32; 39; 89; 89; 89; 89; 45; 77; 77; 45; 68; 68; 39; 41].
Definition s_fmt_dt : str :=
  [44; 32; 39; 89; 89; 89; 89; 45; 77; 77; 45; 68; 68; 32; 72; 72; 50; 52; 58; 77; 73; 58; 83; 83; 39; 41].
Definition s_fmt_ts : str :=
  [44; 32; 39; 89; 89; 89; 89; 45; 77; 77; 45; 68; 68; 32; 72; 72; 50; 52; 58; 77; 73; 58; 83; 83; 46;
   70; 70; 39; 41].
Definition temporal_wrap (d : dialect) (v : temporal) : str * str :=
  match d, v with
  | Oracle, VDate _ => (s_TO_DATE, s_fmt_date)
  | Oracle, VDateTime _ t => if t_us t =? 0 then (s_TO_DATE, s_fmt_dt) else (s_TO_TIMESTAMP, s_fmt_ts)
  | _, _ => ([], [])
  end.
Definition temporal_process (d : dialect) (v : temporal) : str :=
  fst (temporal_wrap d v) ++ [39] ++ temporal_text d v ++ [39] ++ snd (temporal_wrap d v).

(* ---------------------------------------------------------------- render_literal_value *)

Inductive value :=
| VNone
| VStr (t : strtype) (s : str)
| VInt (z : Z)
| VBool (b : bool)
| VNum (k : nkind) (text : str)
| VTemporal (v : temporal).

Definition render_value (d : dialect) (fl : flags) (v : value) : result str :=
  match v with
  | VNone => Ok null_text                       (* handled before the processor; no replace *)
  | VStr t s => Ok (render_string d fl (unicode_n d t s) s)
  | VInt z => Ok (apply_repls fl (dialect_replaces d) (render_int z))
  | VBool b => Ok (apply_repls fl (dialect_replaces d) (bool_text d b))
  | VNum k text =>
    match numeric_process k text with
    | Ok t => Ok (apply_repls fl (dialect_replaces d) t)
    | CompileError => CompileError
    end
  | VTemporal v => Ok (apply_repls fl (dialect_replaces d) (temporal_process d v))
  end.

(* ---------------------------------------------------------------- IN lists *)

Definition SEP : str := [44; 32].     (* ", " *)
Fixpoint join_sep (xs : list str) : str :=
  match xs with
  | [] => []
  | [x] => x
  | x :: r => x ++ SEP ++ join_sep r
  end.

(* _literal_execute_expanding_parameter_literal_binds, plain element type *)
Definition render_in_list (lits : list str) : str := join_sep lits.
(* ... with a bind_expression template  be_left REPL be_right  (literal_binds path) *)
Definition render_in_list_be (l r : str) (lits : list str) : str :=
  join_sep (map (fun x => l ++ x ++ r) lits).

(* Python  s.split(", ") *)
Fixpoint split_sep_aux (cur : str) (s : str) : list str :=
  match s with
  | [] => [rev cur]
  | c :: r =>
    match r with
    | c2 :: r2 => if (c =? 44) && (c2 =? 32) then rev cur :: split_sep_aux [] r2
                  else split_sep_aux (c :: cur) r
    | [] => [rev (c :: cur)]
    end
  end.
Definition split_sep (s : str) : list str := split_sep_aux [] s.

(* process_expanding, token carrying a bind_expression template  ~~be_left~~REPL~~be_right~~ :
   - expanding literal_execute parameter (fix 550a51d): the list is rendered AGAIN by
     render_literal_bindparam(..., bind_expression_template=<token>), i.e. by the literal_binds path,
     which wraps each element where it is rendered *)
Definition process_expanding_be (l r : str) (lits : list str) : str := render_in_list_be l r lits.
(* - bound expanding parameter: the joined placeholders are split on ", " and each one wrapped
       expr = ", ".join("%s%s%s" % (be_left, exp, be_right) for exp in expr.split(", ")) *)
Definition process_expanding_bound (l r : str) (phs : list str) : str :=
  join_sep (map (fun x => l ++ x ++ r) (split_sep (join_sep phs))).

(* ---------------------------------------------------------------- unary minus over a literal *)

(* SQLCompiler._generate_generic_unary_operator (fix 83f298d):
       text = <operand>;  if opstring == "-" and text.startswith(("-", "__[POSTCOMPILE_")): "- " + text
   [le]: the operand is a literal_execute parameter (its token is replaced by the literal later) *)
Definition starts_minus (s : str) : bool := match s with c :: _ => c =? 45 | [] => false end.
Definition render_neg (le : bool) (lit : str) : str :=
  if le || starts_minus lit then 45 :: 32 :: lit else 45 :: lit.

(* ---------------------------------------------------------------- numeric paramstyles *)

(* For paramstyle numeric / numeric_dollar the compiler replaces every  %(name)s  of the finished
   statement text by the positional marker of the parameter <name>
       self._pyformat_pattern.sub(lambda m: param_pos[m.group(1)], ...)     r"%\(([^)]+?)\)s"
   (SQLCompiler._process_numeric at compile time, _process_parameters_for_postcompile for expanded
   parameters) - literals that are already part of the text included.  [pyformat_at s] is the match of
   that pattern at the start of [s]: the name and what follows. *)
Fixpoint span_name (s : str) : str * str :=
  match s with
  | c :: r => if c =? 41 then ([], s) else let (a, b) := span_name r in (c :: a, b)
  | [] => ([], [])
  end.
Definition pyformat_at (s : str) : option (str * str) :=
  match s with
  | c1 :: c2 :: r =>
    if (c1 =? 37) && (c2 =? 40) then
      match span_name r with
      | (name, c3 :: c4 :: rest) =>
          if nonempty name && (c3 =? 41) && (c4 =? 115) then Some (name, rest) else None
      | _ => None
      end
    else None
  | _ => None
  end.
(* the first place where the pattern matches: the parameter name it asks for *)
Fixpoint find_pyformat (s : str) : option str :=
  match pyformat_at s with
  | Some (name, _) => Some name
  | None => match s with _ :: r => find_pyformat r | [] => None end
  end.
Definition is_numeric_style (p : paramstyle) : bool :=
  match p with Numeric | NumericDollar => true | _ => false end.

(* For the positional paramstyles qmark / format, SQLCompiler._process_positional rewrites the
   finished text once more:  re.sub(_positional_pattern, find_position, self.string)  turns every
   %(name)s  into the placeholder  ?  /  %s  - in literal_binds mode the literals are already in the
   text.  (literal_execute values are inserted after this pass.)  [skip] = characters of a match still
   to be dropped. *)
Fixpoint pysub (ph : str) (skip : nat) (s : str) : str :=
  match s with
  | [] => []
  | c :: r =>
    match skip with
    | S k => pysub ph k r
    | O =>
      match pyformat_at s with
      | Some (name, _) => ph ++ pysub ph (length name + 3) r
      | None => c :: pysub ph 0 r
      end
    end
  end.
Definition positional_placeholder (p : paramstyle) : option str :=
  match p with Qmark => Some [63] | Format => Some [37; 115] | _ => None end.

(* ---------------------------------------------------------------- post-compile substitution *)

(* _process_parameters_for_postcompile:
       statement = re.sub(self._post_compile_pattern, process_expanding, pre_expanded_string)
   ONE left-to-right pass over the ORIGINAL text; what the callback returns is never scanned again.
   [tok_at s]: the plain token  __[POSTCOMPILE_<name>]  at the start of [s] (name: non-empty, no white
   space, up to the first ']'; the  ~~template~~  form of bind_expression types is modelled separately
   by [process_expanding_be]).  [skip] = characters of a matched token still to be dropped. *)
Definition PC_PREFIX : str := [95; 95; 91; 80; 79; 83; 84; 67; 79; 77; 80; 73; 76; 69; 95].
Fixpoint strip_prefix (p s : str) : option str :=
  match p, s with
  | [], _ => Some s
  | a :: p', b :: s' => if a =? b then strip_prefix p' s' else None
  | _ :: _, [] => None
  end.
Fixpoint span_rb (s : str) : str * str :=
  match s with
  | c :: r => if c =? 93 then ([], s) else let (a, b) := span_rb r in (c :: a, b)
  | [] => ([], [])
  end.
Definition name_ok (n : str) : bool :=
  nonempty n && forallb (fun c => negb (is_ws c) && negb (c =? 93)) n.
Definition tok_at (s : str) : option (str * str) :=
  match strip_prefix PC_PREFIX s with
  | Some r =>
    match span_rb r with
    | (name, _ :: rest) => if name_ok name then Some (name, rest) else None
    | _ => None
    end
  | None => None
  end.
Inductive pcres := POk (s : str) | PKeyError.
Fixpoint pcsub (f : str -> option str) (skip : nat) (s : str) : pcres :=
  match s with
  | [] => POk []
  | c :: r =>
    match skip with
    | S k => pcsub f k r
    | O =>
      match tok_at s with
      | Some (name, _) =>
        match f name with
        | Some v => match pcsub f (15 + length name) r with POk o => POk (v ++ o) | e => e end
        | None => PKeyError                    (* replacement_expressions[key] *)
        end
      | None => match pcsub f 0 r with POk o => POk (c :: o) | e => e end
      end
    end
  end.

(* ================================================================== spec side *)

(* ---- format / pyformat DBAPIs apply  statement % parameters :  %% -> % *)
Fixpoint collapse (s : str) : str :=
  match s with
  | [] => []
  | c :: r =>
    match r with
    | c2 :: r2 => if (c =? 37) && (c2 =? 37) then 37 :: collapse r2 else c :: collapse r
    | [] => [c]
    end
  end.
Definition driver (fl : flags) (sql : str) : str := if f_dp fl then collapse sql else sql.

(* ---- string literals *)
Inductive escmode := EscNone | EscMySQL | EscPG.
Record lexmode := mkLex { lm_esc : escmode; lm_n : bool }.

(* the character(s) denoted by  \c ; None = an escape this model does not describe *)
Definition esc_dec (em : escmode) (c : chr) : option str :=
  match em with
  | EscNone => None
  | EscMySQL =>
      Some (if c =? 48 then [0] else if c =? 98 then [8] else if c =? 110 then [10]
            else if c =? 114 then [13] else if c =? 116 then [9] else if c =? 90 then [26]
            else if (c =? 37) || (c =? 95) then [92; c]     (* \% and \_ keep the backslash *)
            else [c])
  | EscPG =>
      if c =? 98 then Some [8] else if c =? 102 then Some [12] else if c =? 110 then Some [10]
      else if c =? 114 then Some [13] else if c =? 116 then Some [9]
      else if ((48 <=? c) && (c <=? 55)) || (c =? 120) || (c =? 117) || (c =? 85)
      then None                                            (* octal / hex / unicode escapes *)
      else Some [c]
  end.
Definition esc_on (em : escmode) : bool := match em with EscNone => false | _ => true end.

Inductive lstate := Normal | AfterQ | AfterBS.

(* the text after the opening quote -> (denoted string, remainder of the statement) *)
Fixpoint scan (em : escmode) (st : lstate) (acc : str) (s : str) : option (str * str) :=
  match s with
  | [] => match st with AfterQ => Some (rev acc, []) | _ => None end
  | c :: r =>
    match st with
    | Normal =>
        if c =? 39 then scan em AfterQ acc r
        else if (c =? 92) && esc_on em then scan em AfterBS acc r
        else scan em Normal (c :: acc) r
    | AfterQ =>
        if c =? 39 then scan em Normal (39 :: acc) r else Some (rev acc, s)
    | AfterBS =>
        match esc_dec em c with
        | Some d => scan em Normal (rev d ++ acc) r
        | None => None
        end
    end
  end.

Definition lex_str (lm : lexmode) (s : str) : option (str * str) :=
  match s with
  | 39 :: r => scan (lm_esc lm) Normal [] r
  | 78 :: 39 :: r => if lm_n lm then scan (lm_esc lm) Normal [] r else None
  | _ => None
  end.

(* the lexical mode of the server the dialect's flag claims to describe *)
Definition server (d : dialect) (fl : flags) : lexmode :=
  mkLex (match d with
         | MySQL => if f_bs fl then EscMySQL else EscNone
         | PG => if f_bs fl then EscPG else EscNone
         | _ => EscNone
         end)
        (match d with MSSQL => true | _ => false end).

Definition no_quote_prefix (rest : str) : Prop :=
  match rest with c :: _ => c <> 39 | [] => True end.
Definition no_quote_prefixb (rest : str) : bool :=
  match rest with c :: _ => negb (c =? 39) | [] => true end.

(* ---- numeric literals *)
Definition is_idchar (c : chr) : bool :=
  is_digit c || ((65 <=? c) && (c <=? 90)) || ((97 <=? c) && (c <=? 122)) || (c =? 95) || (c =? 36)
  || (128 <=? c).
(* what may follow a numeric literal: not an identifier character and not a dot *)
Definition num_follow_ok (rest : str) : bool :=
  match rest with c :: _ => negb (is_idchar c || (c =? 46)) | [] => true end.

Definition finish (tok rest : str) : option (str * str) :=
  if num_follow_ok rest then Some (tok, rest) else None.
Definition lex_exp (tok rest : str) : option (str * str) :=
  match rest with
  | c :: r =>
    if (c =? 101) || (c =? 69) then
      let sg := match r with c2 :: _ => if is_sign c2 then [c2] else [] | [] => [] end in
      let (e, r') := span_digits (drop_sign r) in
      if nonempty e then finish (tok ++ c :: sg ++ e) r' else None
    else finish tok rest
  | [] => Some (tok, [])
  end.
(* digits [. digits*] [exp]  |  . digits+ [exp] *)
Definition lex_num (s : str) : option (str * str) :=
  let (ip, r1) := span_digits s in
  match r1 with
  | c :: r2 =>
      if c =? 46 then
        let (fp, r3) := span_digits r2 in
        if nonempty ip || nonempty fp then lex_exp (ip ++ 46 :: fp) r3 else None
      else if nonempty ip then lex_exp ip r1 else None
  | [] => if nonempty ip then lex_exp ip r1 else None
  end.
(* the literal with its sign *)
Definition lex_signed (s : str) : option (str * str) :=
  match s with
  | c :: r =>
    if is_sign c then match lex_num r with Some (t, rest) => Some (c :: t, rest) | None => None end
    else lex_num s
  | [] => None
  end.
(* the guard of the numeric theorems: the text is exactly one signed numeric literal *)
Definition sql_numeric (text : str) : bool :=
  match lex_signed text with Some (_, []) => true | _ => false end.
(* a bare word such as  inf, nan, NaN123, Infinity : an identifier, not a number *)
Definition is_identifier (text : str) : bool :=
  match text with c :: _ => negb (is_digit c) && forallb is_idchar text | [] => false end.

(* the value of a rendered integer *)
Fixpoint chars_uint (s : str) : option Decimal.uint :=
  match s with
  | [] => Some Decimal.Nil
  | c :: r =>
    match chars_uint r with
    | None => None
    | Some d =>
      if c =? 48 then Some (Decimal.D0 d) else if c =? 49 then Some (Decimal.D1 d)
      else if c =? 50 then Some (Decimal.D2 d) else if c =? 51 then Some (Decimal.D3 d)
      else if c =? 52 then Some (Decimal.D4 d) else if c =? 53 then Some (Decimal.D5 d)
      else if c =? 54 then Some (Decimal.D6 d) else if c =? 55 then Some (Decimal.D7 d)
      else if c =? 56 then Some (Decimal.D8 d) else if c =? 57 then Some (Decimal.D9 d)
      else None
    end
  end.
Definition uint_Z (o : option Decimal.uint) : option Z :=
  match o with Some d => Some (Z.of_N (N.of_uint d)) | None => None end.
Definition parse_int (s : str) : option Z :=
  match s with
  | c :: r =>
      if c =? 45 then (match r with [] => None | _ => option_map Z.opp (uint_Z (chars_uint r)) end)
      else uint_Z (chars_uint s)
  | [] => None
  end.

(* ---- what a '-' in the statement starts *)
Inductive minus_tok := OpMinus (rest : str) | Comment (body : str) | NotMinus.
Definition lex_minus (s : str) : minus_tok :=
  match s with
  | c :: r =>
      if c =? 45 then
        match r with
        | c2 :: r2 => if c2 =? 45 then Comment r2 else OpMinus r
        | [] => OpMinus []
        end
      else NotMinus
  | [] => NotMinus
  end.

(* ---- a list of string literals separated by ", " *)
Inductive lres := LOk (xs : list str) (rest : str) | LBad | LFuel.
Fixpoint lex_list (fuel : nat) (lm : lexmode) (s : str) : lres :=
  match fuel with
  | O => LFuel
  | S f =>
    match lex_str lm s with
    | None => LBad
    | Some (x, rest) =>
      match rest with
      | 44 :: 32 :: r =>
          match lex_list f lm r with
          | LOk xs rest' => LOk (x :: xs) rest'
          | e => e
          end
      | _ => LOk [x] rest
      end
    end
  end.
