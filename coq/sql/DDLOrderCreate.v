(* C14 - create_all: the plan is accepted by the reference catalog and yields the metadata *)
From Coq Require Import List NArith Bool Lia Permutation.
Import ListNotations.
From SAV.util Require Import Topo Cycles TopoProofs TopoCycle TopoExtra CyclesSound CyclesComplete CyclesExact.
From SAV.sql Require Import DDLOrder DDLOrderBase DDLOrderSort DDLOrderExec.

(* ---------------------------------------------------------------- list helpers *)
Lemma filter_partition_perm {A} (f : A -> bool) l :
  Permutation (filter (fun x => negb (f x)) l ++ filter f l) l.
Proof. induction l as [|a l IH]; simpl; [constructor|]. destruct (f a); simpl.
  - apply Permutation_sym. apply Permutation_cons_app. apply Permutation_sym. exact IH.
  - constructor. exact IH. Qed.

Lemma NoDup_app_intro {A} (a b : list A) : NoDup a -> NoDup b -> (forall x, In x a -> In x b -> False) -> NoDup (a ++ b).
Proof. induction a as [|x a IH]; simpl; intros Ha Hb Hd; [exact Hb|]. apply NoDup_cons_iff in Ha.
  destruct Ha as [Hx Ha]. constructor.
  - intros Hin. apply in_app_or in Hin. destruct Hin as [Hin|Hin]; [contradiction|]. apply (Hd x); [left; reflexivity|exact Hin].
  - apply IH; try assumption. intros y H1 H2. apply (Hd y); [right; exact H1|exact H2]. Qed.

Lemma NoDup_map_filter {A B} (g : A -> B) (p : A -> bool) l : NoDup (map g l) -> NoDup (map g (filter p l)).
Proof. induction l as [|a l IH]; simpl; intros H; [constructor|]. apply NoDup_cons_iff in H.
  destruct H as [H2 H3]. destruct (p a); simpl.
  - constructor; [|apply IH; assumption]. intros Hin. apply H2. apply in_map_iff in Hin.
    destruct Hin as [x [Hx1 Hx2]]. apply filter_In in Hx2. apply in_map_iff. exists x. tauto.
  - apply IH; assumption. Qed.

Lemma fks_in_rows inl o n : In n o -> fks_in n (rows_of inl o) = inl n.
Proof. unfold fks_in, rows_of. induction o as [|m o IH]; simpl; [tauto|]. intros H.
  destruct (N.eqb_spec m n) as [->|Hne]; [reflexivity|]. apply IH. destruct H; [congruence|assumption]. Qed.

(* ---------------------------------------------------------------- the ALTER block, per table *)
Lemma adds_for_alter filt tables cyc n :
  adds_for n (alter_stmts AddFK filt tables cyc) =
  flat_map (fun t => if N.eqb (t_name t) n then deferred_of filt tables cyc t else []) tables.
Proof. unfold alter_stmts. generalize (deferred_of filt tables cyc). intros D.
  induction tables as [|t l IH]; simpl; [reflexivity|]. unfold adds_for in *. rewrite flat_map_app, IH. f_equal.
  induction (D t) as [|f r IHr]; simpl.
  - destruct (N.eqb (t_name t) n); reflexivity.
  - rewrite IHr. destruct (N.eqb (t_name t) n); reflexivity. Qed.

Lemma flat_map_pick (D : table -> list fk) l t : NoDup (map t_name l) -> In t l ->
  flat_map (fun u => if N.eqb (t_name u) (t_name t) then D u else []) l = D t.
Proof. induction l as [|u l IH]; simpl; [tauto|]. intros Hn [->|Hin].
  - rewrite N.eqb_refl. apply NoDup_cons_iff in Hn. destruct Hn as [H1 H2].
    replace (flat_map _ l) with (@nil fk); [apply app_nil_r|]. symmetry.
    clear IH H2. induction l as [|v l IHl]; simpl; [reflexivity|].
    destruct (N.eqb_spec (t_name v) (t_name t)) as [E|E].
    + exfalso. apply H1. simpl. left. exact E.
    + simpl. apply IHl. intros H. apply H1. right. exact H.
  - apply NoDup_cons_iff in Hn. destruct Hn as [H1 H2]. destruct (N.eqb_spec (t_name u) (t_name t)) as [E|E].
    + exfalso. apply H1. rewrite E. apply in_map. exact Hin.
    + simpl. apply IH; assumption. Qed.

Lemma flat_map_pick_none (D : table -> list fk) l n : ~ In n (map t_name l) ->
  flat_map (fun u => if N.eqb (t_name u) n then D u else []) l = [].
Proof. induction l as [|u l IH]; simpl; [reflexivity|]. intros H.
  destruct (N.eqb_spec (t_name u) n) as [E|E]; [exfalso; apply H; left; exact E|]. simpl. apply IH. tauto. Qed.

(* ---------------------------------------------------------------- none_filter facts *)
Lemma stuck_none tables e : ~ In e (stuck_edges none_filter tables).
Proof. intros H. apply In_stuck in H. destruct H as [t [f [Ht [Hf [Hu _]]]]]. unfold unremovable in Hu.
  apply andb_true_iff in Hu. destruct Hu as [_ Hu]. apply negb_true_iff in Hu.
  assert (X : existsb (fun f' => N.eqb (fk_ref f') (fk_ref f)) (can_remove none_filter t) = true).
  { apply existsb_exists. exists f. split; [|apply N.eqb_refl]. unfold can_remove. apply filter_In. split; [exact Hf|reflexivity]. }
  congruence. Qed.

Lemma deferred_none tables cyc t f :
  deferred none_filter tables cyc t f = fk_alter f || hit none_filter tables cyc t.
Proof. unfold deferred, pre_deferred, none_filter. simpl. rewrite orb_false_r, andb_true_r. reflexivity. Qed.

(* filter_fn None: the sort can fail for good only on a cycle of add_is_dependent_on edges *)
Lemma stc_none_circular tables : sort_tables_and_constraints none_filter tables = Circular ->
  exists w, cycle (fixed tables) w /\ incl w (names tables).
Proof. intros H. apply stc_circular in H. destruct H as [w [Hw Hi]]. exists w. split; [|exact Hi].
  destruct Hw as [x [m [E Hb]]]. exists x, m. split; [exact E|]. eapply bwalk_mono; [exact Hb|].
  intros y c He _ _. apply in_app_or in He. destruct He as [He|He]; [exact He|]. exfalso. exact (stuck_none _ _ He). Qed.

Lemma stc_none_circular_iff tables : sort_tables_and_constraints none_filter tables = Circular <->
  exists w, cycle (fixed tables) w /\ incl w (names tables).
Proof. split; [apply stc_none_circular|]. intros [w [Hw Hi]]. apply stc_circular_conv. exists w. split; [|exact Hi].
  eapply cycle_incl; [exact Hw|]. intros e He. apply in_or_app. left. exact He. Qed.

(* ---------------------------------------------------------------- main proof *)
Section CreateProof.
Variable md : metadata.
Variable db0 : db.
Variable checkfirst : bool.
Hypothesis Hwf : wf md.
Hypothesis Hcons : consistent db0 md.
Hypothesis Hcf : checkfirst = false -> db0 = [].

Let tables := create_tables (map fst db0) checkfirst md.

Lemma In_tables t : In t tables <-> In t md /\ has_table (t_name t) db0 = false.
Proof. unfold tables, create_tables. rewrite filter_In. destruct checkfirst eqn:C; simpl.
  - split; intros [H1 H2]; (split; [exact H1|]).
    + apply negb_true_iff in H2. apply memb_false in H2. apply has_table_false. exact H2.
    + apply negb_true_iff. apply memb_false. apply has_table_false. exact H2.
  - rewrite (Hcf eq_refl). simpl. tauto. Qed.

Lemma tables_nodup : NoDup (names tables).
Proof. unfold tables, create_tables, names. apply NoDup_map_filter. apply Hwf. Qed.

Lemma name_in_tables n : In n (names md) -> has_table n db0 = false -> In n (names tables).
Proof. unfold names. intros H Hh. apply in_map_iff in H. destruct H as [t [<- Ht]]. apply in_map. apply In_tables. tauto. Qed.

Lemma fixed_sub : incl (fixed tables) (fixed md).
Proof. intros e H. apply In_fixed in H. destruct H as [t [Ht H]]. apply In_fixed. exists t. split; [|exact H].
  apply In_tables in Ht. tauto. Qed.

Lemma names_sub : incl (names tables) (names md).
Proof. unfold names. intros n H. apply in_map_iff in H. destruct H as [t [<- Ht]]. apply in_map. apply In_tables in Ht. tauto. Qed.

Section WithSort.
Variables (o cyc : list node) (w : bool).
Hypothesis Hs : sort_tables_and_constraints none_filter tables = Ok (o, cyc, w).

Let inl (n : node) : list fk :=
  match find_table tables n with Some t => inline_of none_filter tables cyc t | None => [] end.

Lemma o_perm : Permutation o (names tables).
Proof. destruct (stc_ok _ _ _ _ _ Hs) as [H _]. exact (sort_perm _ _ _ H). Qed.

Lemma o_nodup : NoDup o.
Proof. eapply Permutation_NoDup; [apply Permutation_sym, o_perm|apply tables_nodup]. Qed.

Lemma o_table n : In n o -> exists t, In t tables /\ t_name t = n /\ find_table tables n = Some t.
Proof. intros H. apply (Permutation_in _ o_perm) in H. unfold names in H. apply in_map_iff in H.
  destruct H as [t [<- Ht]]. exists t. split; [exact Ht|]. split; [reflexivity|]. apply find_table_in; [apply tables_nodup|exact Ht]. Qed.

Lemma create_stmts_map : forall l, incl l o ->
  create_stmts tables cyc l = map (fun n => CreateT n (inl n)) l.
Proof. induction l as [|n l IH]; intros Hi; [reflexivity|]. unfold create_stmts in *. cbn [flat_map map].
  rewrite IH by (intros x Hx; apply Hi; right; exact Hx).
  destruct (o_table n (Hi n (or_introl eq_refl))) as [t [_ [_ Hf]]]. unfold inl. rewrite Hf. reflexivity. Qed.

Lemma o_new n : In n o -> has_table n db0 = false.
Proof. intros H. destruct (o_table n H) as [t [Ht [<- _]]]. apply In_tables in Ht. tauto. Qed.

Lemma o_refs pre n suf : o = pre ++ n :: suf -> forall f, In f (inl n) ->
  fk_ref f = n \/ has_table (fk_ref f) db0 = true \/ In (fk_ref f) pre.
Proof.
  intros E f Hf.
  assert (Hn : In n o) by (rewrite E; apply in_or_app; right; left; reflexivity).
  destruct (o_table n Hn) as [t [Ht [Hname Hfind]]]. unfold inl in Hf. rewrite Hfind in Hf.
  unfold inline_of in Hf. apply filter_In in Hf. destruct Hf as [Hf Hnd]. apply negb_true_iff in Hnd.
  rewrite deferred_none in Hnd. apply orb_false_iff in Hnd. destruct Hnd as [Ha Hh].
  destruct (N.eqb_spec (fk_ref f) n) as [|Hne]; [left; assumption|right].
  destruct (has_table (fk_ref f) db0) eqn:Hx; [left; reflexivity|right].
  assert (Hmd : In t md) by (apply In_tables in Ht; tauto).
  assert (Hr : In (fk_ref f) (names tables)).
  { apply name_in_tables; [|exact Hx]. destruct Hwf as [_ [H2 _]]. eapply H2; eassumption. }
  destruct (stc_ok _ _ _ _ _ Hs) as [Hsort _].
  apply (before_prefix o (fk_ref f) n pre suf o_nodup); [|exact E].
  apply (sort_order _ _ _ Hsort).
  - apply in_or_app. right. apply In_mutable1. exists t, f. split; [exact Ht|]. split; [exact Hf|].
    split; [|split].
    + unfold dep_fk, pre_deferred, none_filter. rewrite Ha, Hname. simpl.
      apply negb_true_iff. apply N.eqb_neq. exact Hne.
    + unfold discarded. rewrite Hh. reflexivity.
    + unfold fk_edge. rewrite Hname. reflexivity.
  - exact Hr.
  - apply (Permutation_in _ o_perm). exact Hn. Qed.

Let d1 : db := db0 ++ rows_of inl o.

Lemma creates_ok : exec db0 (create_stmts tables cyc o) = Some d1.
Proof. rewrite create_stmts_map by apply incl_refl. apply exec_creates; [exact o_nodup|exact o_new|exact o_refs]. Qed.

Lemma d1_has n : In n (names md) -> has_table n d1 = true.
Proof. intros H. unfold d1. rewrite has_table_app. destruct (has_table n db0) eqn:E; [reflexivity|]. simpl.
  apply has_table_In. rewrite rows_names. apply (Permutation_in _ (Permutation_sym o_perm)).
  apply name_in_tables; assumption. Qed.

Let u := alter_stmts AddFK none_filter tables cyc.

Lemma u_all_add : Forall is_add u.
Proof. unfold u, alter_stmts. apply Forall_forall. intros s H. apply in_flat_map in H. destruct H as [t [_ H]].
  apply in_map_iff in H. destruct H as [f [<- _]]. exact I. Qed.

Lemma u_in t f : In (AddFK t f) u -> exists tt, In tt tables /\ t_name tt = t /\ In f (t_fks tt).
Proof. unfold u, alter_stmts. intros H. apply in_flat_map in H. destruct H as [tt [Ht H]].
  apply in_map_iff in H. destruct H as [g [Hg1 Hg2]]. inversion Hg1; subst. exists tt. split; [exact Ht|].
  split; [reflexivity|]. unfold deferred_of in Hg2. apply filter_In in Hg2. tauto. Qed.

(* the constraints of table n in the catalog after all statements, as a multiset *)
Lemma fks_total n : forall t, In t md -> t_name t = n ->
  Permutation (fks_in n d1 ++ adds_for n u) (t_fks t).
Proof.
  intros t Ht Hn. unfold u. rewrite adds_for_alter. unfold d1. rewrite fks_in_app.
  destruct (has_table n db0) eqn:Hx.
  - (* already existed: nothing added *)
    rewrite flat_map_pick_none.
    + rewrite app_nil_r. subst n. destruct Hcons as [_ [_ H3]]. apply (H3 t Ht Hx).
    + intros Hin. unfold names in *. apply in_map_iff in Hin. destruct Hin as [t' [Hn' Ht']].
      apply In_tables in Ht'. destruct Ht' as [_ Hf]. rewrite Hn' in Hf. congruence.
  - assert (Htt : In t tables) by (apply In_tables; subst n; tauto).
    subst n. rewrite (flat_map_pick (deferred_of none_filter tables cyc) tables t tables_nodup Htt).
    rewrite fks_in_rows.
    + unfold inl. rewrite (find_table_in tables t tables_nodup Htt). unfold inline_of, deferred_of.
      apply filter_partition_perm.
    + apply (Permutation_in _ (Permutation_sym o_perm)). unfold names. apply in_map. exact Htt. Qed.

Lemma fks_total_none n : ~ In n (names md) -> fks_in n d1 ++ adds_for n u = [].
Proof. intros Hn. unfold u. rewrite adds_for_alter. rewrite flat_map_pick_none.
  - rewrite app_nil_r. apply fks_in_none. apply has_table_false. unfold d1. rewrite map_app, rows_names.
    intros H. apply in_app_or in H. destruct H as [H|H].
    + apply Hn. destruct Hcons as [_ [H2 _]]. apply H2. exact H.
    + apply Hn. apply names_sub. apply (Permutation_in _ o_perm). exact H.
  - intros H. apply Hn. apply names_sub. exact H. Qed.

Theorem alters_ok u' : Permutation u' u -> exists d', exec d1 u' = Some d' /\ cat_equiv d' md.
Proof.
  intros Hp.
  destruct (exec_adds u' d1) as [d' [H1 [H2 H3]]].
  - eapply Permutation_Forall; [apply Permutation_sym; exact Hp|exact u_all_add].
  - intros t f Hin. apply (Permutation_in _ Hp) in Hin. destruct (u_in t f Hin) as [tt [Ht [Hn Hf]]].
    assert (Hmd : In tt md) by (apply In_tables in Ht; tauto).
    split; apply d1_has.
    + rewrite <- Hn. unfold names. apply in_map. exact Hmd.
    + destruct Hwf as [_ [Hr _]]. eapply Hr; eassumption.
  - intros n.
    assert (Hpp : Permutation (fks_in n d1 ++ adds_for n u') (fks_in n d1 ++ adds_for n u)).
    { apply Permutation_app_head. apply adds_for_perm. exact Hp. }
    eapply Permutation_NoDup; [apply Permutation_map; apply Permutation_sym; exact Hpp|].
    destruct (in_dec N.eq_dec n (names md)) as [Hin|Hnin].
    + unfold names in Hin. apply in_map_iff in Hin. destruct Hin as [t [Hn Ht]].
      eapply Permutation_NoDup; [apply Permutation_map; apply Permutation_sym; apply (fks_total n t Ht Hn)|].
      destruct Hwf as [_ [_ H3']]. apply H3'. exact Ht.
    + rewrite (fks_total_none n Hnin). constructor.
  - exists d'. split; [exact H1|]. split.
    + rewrite H2. unfold d1. rewrite map_app, rows_names.
      apply NoDup_Permutation.
      * apply NoDup_app_intro; [apply Hcons|exact o_nodup|]. intros x Hx Ho. apply o_new in Ho.
        apply has_table_In in Hx. congruence.
      * apply Hwf.
      * intros x. split.
        -- intros H. apply in_app_or in H. destruct H as [H|H].
           ++ destruct Hcons as [_ [Hc _]]. apply Hc. exact H.
           ++ apply names_sub. apply (Permutation_in _ o_perm). exact H.
        -- intros H. apply in_or_app. destruct (has_table x db0) eqn:E.
           ++ left. apply has_table_In. exact E.
           ++ right. apply (Permutation_in _ (Permutation_sym o_perm)). apply name_in_tables; assumption.
    + intros t Ht. rewrite H3 by (apply d1_has; unfold names; apply in_map; exact Ht).
      etransitivity; [|apply (fks_total (t_name t) t Ht eq_refl)].
      apply Permutation_app_head. apply adds_for_perm. exact Hp. Qed.
End WithSort.

Theorem create_all_succeeds_main :
  ~ (exists w, cycle (fixed md) w /\ incl w (names md)) ->
  exists o u, create_plan (map fst db0) checkfirst md = Plan o u /\
    forall u', Permutation u' u -> exists d', exec db0 (o ++ u') = Some d' /\ cat_equiv d' md.
Proof.
  intros Hfix. unfold create_plan. fold tables.
  destruct (sort_tables_and_constraints none_filter tables) as [[[o cyc] w]| |] eqn:Hs.
  - exists (create_stmts tables cyc o), (alter_stmts AddFK none_filter tables cyc). split; [reflexivity|].
    intros u' Hp. rewrite exec_app. rewrite (creates_ok o cyc w Hs).
    apply (alters_ok o cyc w Hs). exact Hp.
  - exfalso. apply Hfix. destruct (stc_none_circular _ Hs) as [w [Hw Hi]]. exists w. split.
    + eapply cycle_incl; [exact Hw|exact fixed_sub].
    + intros x Hx. apply names_sub, Hi, Hx.
  - exfalso. exact (stc_never_fuel _ _ Hs). Qed.
End CreateProof.

Theorem create_plan_circular_iff existing checkfirst md :
  create_plan existing checkfirst md = ErrCircular <->
  exists w, cycle (fixed (create_tables existing checkfirst md)) w /\
            incl w (names (create_tables existing checkfirst md)).
Proof. rewrite <- stc_none_circular_iff. unfold create_plan.
  destruct (sort_tables_and_constraints none_filter (create_tables existing checkfirst md)) as [[[o cyc] w]| |];
    split; intros H; try discriminate; reflexivity. Qed.

Theorem create_plan_total existing checkfirst md :
  create_plan existing checkfirst md <> ErrFuel /\ create_plan existing checkfirst md <> ErrCompile.
Proof. unfold create_plan.
  destruct (sort_tables_and_constraints none_filter (create_tables existing checkfirst md)) as [[[o cyc] w]| |] eqn:E;
    split; try discriminate. exfalso. exact (stc_never_fuel _ _ E). Qed.
