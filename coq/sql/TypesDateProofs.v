(* C09 - DATETIME / DATE / TIME: storage format and both result processors round-trip every valid value *)
From Coq Require Import List NArith ZArith Bool Lia Zify.
Import ListNotations.
From SAV.sql Require Import Types TypesStrProofs.
Open Scope N_scope.

Lemma days_in_month_le : forall y m, days_in_month y m <= 31.
Proof.
  intros y m. unfold days_in_month.
  repeat match goal with |- context [match ?x with _ => _ end] => destruct x end; lia.
Qed.

Lemma valid_date_bounds : forall d, valid_date d = true ->
  dy d < 10 ^ N.of_nat 4 /\ dm d < 10 ^ N.of_nat 2 /\ dd d < 10 ^ N.of_nat 2.
Proof.
  intros d H. unfold valid_date in H. repeat (apply andb_true_iff in H as [H ?]).
  change (10 ^ N.of_nat 4) with 10000. change (10 ^ N.of_nat 2) with 100.
  repeat match goal with H : (_ <=? _) = true |- _ => apply N.leb_le in H end.
  pose proof (days_in_month_le (dy d) (dm d)). lia.
Qed.

Lemma valid_time_bounds : forall t, valid_time t = true ->
  th t < 10 ^ N.of_nat 2 /\ tmi t < 10 ^ N.of_nat 2 /\ ts t < 10 ^ N.of_nat 2 /\ tus t < 10 ^ N.of_nat 6.
Proof.
  intros t H. unfold valid_time in H. repeat (apply andb_true_iff in H as [H ?]).
  change (10 ^ N.of_nat 2) with 100. change (10 ^ N.of_nat 6) with 1000000.
  repeat match goal with H : (_ <? _) = true |- _ => apply N.ltb_lt in H end. lia.
Qed.

(* ---------- fromisoformat ---------- *)
Lemma parse_date_fields_fmt : forall d rest, valid_date d = true ->
  parse_date_fields (fmt_date d ++ rest) = Some (d, rest).
Proof.
  intros d rest H. destruct (valid_date_bounds d H) as (Hy & Hm & Hd).
  unfold parse_date_fields, fmt_date. rewrite <- ?app_assoc. cbn [app].
  rewrite take_num_digs by assumption. rewrite expect_cons.
  rewrite take_num_digs by assumption. rewrite expect_cons.
  rewrite take_num_digs by assumption. destruct d; reflexivity.
Qed.

Definition drop_us (t : time) : time := {| th := th t; tmi := tmi t; ts := ts t; tus := 0 |}.

Lemma parse_time_fields_fmt : forall t, valid_time t = true ->
  parse_time_fields (fmt_time false t) = Some (t, []).
Proof.
  intros t H. destruct (valid_time_bounds t H) as (Hh & Hm & Hs & Hu).
  unfold parse_time_fields, fmt_time. rewrite <- ?app_assoc. cbn [app].
  rewrite take_num_digs by assumption. rewrite expect_cons.
  rewrite take_num_digs by assumption. rewrite expect_cons.
  rewrite take_num_digs by assumption. rewrite expect_cons.
  rewrite <- (app_nil_r (digs 6 (tus t))). rewrite take_num_digs by assumption. destruct t; reflexivity.
Qed.

Lemma parse_time_fields_fmt_trunc : forall t, valid_time t = true ->
  parse_time_fields (fmt_time true t) = Some (drop_us t, []).
Proof.
  intros t H. destruct (valid_time_bounds t H) as (Hh & Hm & Hs & Hu).
  unfold parse_time_fields, fmt_time. rewrite <- ?app_assoc. cbn [app].
  rewrite take_num_digs by assumption. rewrite expect_cons.
  rewrite take_num_digs by assumption. rewrite expect_cons.
  rewrite take_num_digs by assumption. reflexivity.
Qed.

Lemma valid_drop_us : forall t, valid_time t = true -> valid_time (drop_us t) = true.
Proof.
  intros t H. unfold valid_time in *. cbn [th tmi ts tus drop_us].
  repeat (apply andb_true_iff in H as [H ?]). repeat (apply andb_true_iff; split); auto.
Qed.

Theorem iso_date_roundtrip : forall d, valid_date d = true -> iso_date (fmt_date d) = POk d.
Proof.
  intros d H. unfold iso_date. rewrite <- (app_nil_r (fmt_date d)), parse_date_fields_fmt by assumption.
  now rewrite H.
Qed.

Theorem iso_time_roundtrip : forall t, valid_time t = true -> iso_time (fmt_time false t) = POk t.
Proof. intros t H. unfold iso_time. rewrite parse_time_fields_fmt by assumption. now rewrite H. Qed.

Theorem iso_time_roundtrip_trunc : forall t, valid_time t = true -> iso_time (fmt_time true t) = POk (drop_us t).
Proof.
  intros t H. unfold iso_time. rewrite parse_time_fields_fmt_trunc by assumption. now rewrite valid_drop_us.
Qed.

Lemma fmt_time_nonempty : forall trunc t, exists c r, fmt_time trunc t = c :: r.
Proof.
  intros trunc t. unfold fmt_time. cbn [digs]. rewrite <- ?app_assoc. cbn [app]. eauto.
Qed.

Theorem iso_datetime_roundtrip : forall d t, valid_date d = true -> valid_time t = true ->
  iso_datetime (fmt_datetime false d t) = POk (d, t).
Proof.
  intros d t Hd Ht. unfold iso_datetime, fmt_datetime. rewrite parse_date_fields_fmt by assumption.
  cbn [app]. rewrite expect_cons, parse_time_fields_fmt by assumption. now rewrite Hd, Ht.
Qed.

Theorem iso_datetime_roundtrip_trunc : forall d t, valid_date d = true -> valid_time t = true ->
  iso_datetime (fmt_datetime true d t) = POk (d, drop_us t).
Proof.
  intros d t Hd Ht. unfold iso_datetime, fmt_datetime. rewrite parse_date_fields_fmt by assumption.
  cbn [app]. rewrite expect_cons, parse_time_fields_fmt_trunc by assumption. now rewrite Hd, valid_drop_us.
Qed.

(* a date bound to a DATETIME column comes back as midnight of that day *)
Theorem iso_datetime_of_date : forall d, valid_date d = true ->
  iso_datetime (fmt_datetime false d midnight) = POk (d, midnight).
Proof. intros d H. now apply iso_datetime_roundtrip. Qed.

(* ---------- custom regexp ---------- *)
Lemma re_date_groups_fmt : forall d rest, valid_date d = true -> no_digit_head rest ->
  re_date_groups (fmt_date d ++ rest) = Some ([dy d; dm d; dd d], rest).
Proof.
  intros d rest H Hr. destruct (valid_date_bounds d H) as (Hy & Hm & Hd).
  unfold re_date_groups, fmt_date. rewrite <- ?app_assoc. cbn [app].
  rewrite (take_run_digs 3) by (try assumption; reflexivity). rewrite expect_cons.
  rewrite (take_run_digs 1) by (try assumption; reflexivity). rewrite expect_cons.
  rewrite (take_run_digs 1) by assumption. reflexivity.
Qed.

Lemma re_time_groups_fmt : forall t, valid_time t = true ->
  re_time_groups (fmt_time false t) = Some [th t; tmi t; ts t; tus t].
Proof.
  intros t H. destruct (valid_time_bounds t H) as (Hh & Hm & Hs & Hu).
  unfold re_time_groups, fmt_time. rewrite <- ?app_assoc. cbn [app].
  rewrite (take_run_digs 1) by (try assumption; reflexivity). rewrite expect_cons.
  rewrite (take_run_digs 1) by (try assumption; reflexivity). rewrite expect_cons.
  rewrite (take_run_digs 1) by (try assumption; reflexivity). rewrite expect_cons.
  rewrite <- (app_nil_r (digs 6 (tus t))). rewrite (take_run_digs 5) by (try assumption; exact I). reflexivity.
Qed.

Lemma re_time_groups_fmt_trunc : forall t, valid_time t = true ->
  re_time_groups (fmt_time true t) = Some [th t; tmi t; ts t; 0].
Proof.
  intros t H. destruct (valid_time_bounds t H) as (Hh & Hm & Hs & Hu).
  unfold re_time_groups, fmt_time. rewrite <- ?app_assoc. cbn [app].
  rewrite (take_run_digs 1) by (try assumption; reflexivity). rewrite expect_cons.
  rewrite (take_run_digs 1) by (try assumption; reflexivity). rewrite expect_cons.
  rewrite (take_run_digs 1) by (try assumption; exact I). reflexivity.
Qed.

Lemma mk_date_valid : forall d, valid_date d = true -> mk_date [dy d; dm d; dd d] = Ok d.
Proof. intros [y m d] H. cbn [mk_date dy dm dd]. now rewrite H. Qed.
Lemma mk_time_valid : forall t, valid_time t = true -> mk_time [th t; tmi t; ts t; tus t] = Ok t.
Proof. intros [h mi s us] H. cbn [mk_time th tmi ts tus]. now rewrite H. Qed.

Theorem regexp_date_roundtrip : forall d, valid_date d = true -> regexp_date (Some (fmt_date d)) = Ok (Some d).
Proof.
  intros d H. unfold regexp_date. rewrite <- (app_nil_r (fmt_date d)), re_date_groups_fmt by (try assumption; exact I).
  now rewrite mk_date_valid.
Qed.

Theorem regexp_time_roundtrip : forall t, valid_time t = true -> regexp_time (Some (fmt_time false t)) = Ok (Some t).
Proof. intros t H. unfold regexp_time. rewrite re_time_groups_fmt by assumption. now rewrite mk_time_valid. Qed.

Theorem regexp_datetime_roundtrip : forall d t, valid_date d = true -> valid_time t = true ->
  regexp_datetime (Some (fmt_datetime false d t)) = Ok (Some (d, t)).
Proof.
  intros d t Hd Ht. unfold regexp_datetime, fmt_datetime.
  rewrite re_date_groups_fmt by (try assumption; reflexivity). cbn [app]. rewrite expect_cons.
  rewrite re_time_groups_fmt by assumption. now rewrite mk_date_valid, mk_time_valid.
Qed.

Theorem regexp_datetime_roundtrip_trunc : forall d t, valid_date d = true -> valid_time t = true ->
  regexp_datetime (Some (fmt_datetime true d t)) = Ok (Some (d, drop_us t)).
Proof.
  intros d t Hd Ht. unfold regexp_datetime, fmt_datetime.
  rewrite re_date_groups_fmt by (try assumption; reflexivity). cbn [app]. rewrite expect_cons.
  rewrite re_time_groups_fmt_trunc by assumption. rewrite mk_date_valid by assumption.
  pose proof (mk_time_valid (drop_us t) (valid_drop_us t Ht)) as E. cbn [drop_us th tmi ts tus] in E. now rewrite E.
Qed.
