(* The whole executemany (IMV.execute): every parameter set once, returned rows in parameter order,
   for every row count, every batch size >= 1 and every order in which the database returns the
   rows of a statement. *)
From Coq Require Import List ZArith Bool Lia Arith Permutation Sorted ZifyBool.
Import ListNotations.
From SAV.sql Require Import IMV IMVPlan IMVMerge.
Open Scope Z_scope.

Section Whole.
Context {P K R X : Type}.
Variable key_eqb : K -> K -> bool.
Hypothesis key_eqb_spec : forall a b, key_eqb a b = true <-> a = b.
Variable sent_of_param : P -> K.
Variable sent_of_row : R -> K.
Variable sort_key : R -> Z.
Variable ext : P -> X.
Variable fetch : nat -> option X -> list P -> list R.

Local Notation merge_rows := (merge_rows key_eqb sent_of_param sent_of_row sort_key).
Local Notation deliver := (deliver key_eqb sent_of_param sent_of_row sort_key ext fetch).
Local Notation execute := (execute key_eqb sent_of_param sent_of_row sort_key ext fetch).

(* ---------------- the consumer loop ---------------- *)
Lemma deliver_not_returning c all : c_is_returning c = false ->
  forall bl k done acc, deliver c all k bl done acc = mkOutcome (rev done ++ bl) (Ok acc).
Proof.
  intros Hr. induction bl as [|b r IH]; intros k done acc; cbn [IMV.deliver].
  - rewrite app_nil_r. reflexivity.
  - rewrite Hr, IH. cbn [rev]. rewrite <- app_assoc. reflexivity.
Qed.

Lemma deliver_ok c all (want : batch P -> list R) : c_is_returning c = true ->
  forall bl k done acc,
  (forall k' b, In b bl -> merge_rows c b (fetch k' (stmt_ext ext c all b) (b_items b)) = Ok (want b)) ->
  deliver c all k bl done acc = mkOutcome (rev done ++ bl) (Ok (acc ++ concat (map want bl))).
Proof.
  intros Hr. induction bl as [|b r IH]; intros k done acc Hm; cbn [IMV.deliver map concat].
  - rewrite !app_nil_r. reflexivity.
  - rewrite Hr, (Hm k b (or_introl eq_refl)).
    rewrite IH by (intros k' b' Hb'; apply Hm; right; exact Hb').
    cbn [rev]. rewrite <- !app_assoc. reflexivity.
Qed.

(* the executed statements are always a prefix of the plan, and all of it on success *)
Lemma deliver_prefix c all : forall bl k done acc,
  exists rest, rev done ++ bl = o_executed (deliver c all k bl done acc) ++ rest /\
    (forall rows, o_result (deliver c all k bl done acc) = Ok rows -> rest = []).
Proof.
  induction bl as [|b r IH]; intros k done acc; cbn [IMV.deliver].
  - exists []. cbn. split; [reflexivity|auto].
  - destruct (c_is_returning c).
    + destruct (merge_rows c b _) eqn:E.
      * destruct (IH (S k) (b :: done) (acc ++ a)) as (rest & H1 & H2). exists rest.
        cbn [rev] in H1. rewrite <- app_assoc in H1. split; [exact H1|exact H2].
      * exists r. cbn [o_executed o_result rev]. rewrite <- app_assoc. split; [reflexivity|discriminate].
      * exists r. cbn [o_executed o_result rev]. rewrite <- app_assoc. split; [reflexivity|discriminate].
    + destruct (IH (S k) (b :: done) acc) as (rest & H1 & H2). exists rest.
      cbn [rev] in H1. rewrite <- app_assoc in H1. split; [exact H1|exact H2].
Qed.

(* ---------------- every parameter set exactly once ---------------- *)
(* the statements sent to the database carry, concatenated in order, exactly the parameter sets
   given (when the run completes); an exception can only cut the sequence short *)
Theorem execute_every_param_once (c : config) (ps : list P) : 1 <= c_batch_size c -> clamp_pre c ->
  exists rest, ps = concat (map b_items (o_executed (execute c ps))) ++ rest /\
    (forall rows, o_result (execute c ps) = Ok rows -> rest = []) /\
    (c_is_returning c = false -> o_result (execute c ps) = Ok [] /\ rest = []).
Proof.
  intros Hbs Hpre. destruct (plan_spec c ps Hbs Hpre) as (bl & Hplan & Hcat & _).
  unfold IMV.execute. rewrite Hplan.
  destruct (deliver_prefix c ps bl 0%nat [] []) as (rest & H1 & H2). cbn [rev app] in H1.
  exists (concat (map b_items rest)). split; [|split].
  - rewrite <- concat_app, <- map_app, <- H1. symmetry. exact Hcat.
  - intros rows Hr. rewrite (H2 rows Hr). reflexivity.
  - intros Hnr. rewrite (deliver_not_returning c ps Hnr) in *. cbn [o_result o_executed rev app] in *.
    split; [reflexivity|]. rewrite (H2 [] eq_refl). reflexivity.
Qed.

(* ---------------- sorted RETURNING ---------------- *)
Variable row_of : option X -> P -> R.   (* the row the database produces for a parameter set when the
                                            statement carries the non-VALUES parameters x *)
(* the only thing assumed about the database: it returns, for every statement, one row per VALUES
   row - in ANY order *)
Hypothesis fetch_perm : forall k x items, Permutation (map (row_of x) items) (fetch k x items).

(* what the configuration must provide for the rows to be re-ordered *)
Definition sentinel_hyp (c : config) (ps : list P) : Prop :=
  c_num_sentinel c = 0
  \/ (c_implicit c = false /\ c_has_keys c = true /\
      (forall x p, sent_of_row (row_of x p) = sent_of_param p) /\       (* the row carries the client-side value *)
      NoDup (map sent_of_param ps))                                     (* which is unique *)
  \/ (c_implicit c = true /\ c_num_sentinel c = 1 /\
      (* the server generates increasing values in VALUES order *)
      (forall x, StronglySorted (fun p q => sort_key (row_of x p) < sort_key (row_of x q)) ps)).

(* the consistency the compiler guarantees between its own fields *)
Definition wf_config (c : config) : Prop :=
  0 <= c_num_sentinel c /\
  sentinel_columns_none (c_flags c) = negb (truthy (c_num_sentinel c)).

Lemma perm_singleton (a : R) l : Permutation [a] l -> l = [a].
Proof. intros H. apply Permutation_length_1_inv. exact H. Qed.

Theorem execute_sorted_general (c : config) (ps : list P) :
  1 <= c_batch_size c -> clamp_pre c -> wf_config c ->
  c_is_returning c = true -> c_imv_sbo c = true -> result_columns (c_flags c) = true ->
  sentinel_hyp c ps ->
  exists bl, plan c ps = Ok bl /\ concat (map b_items bl) = ps /\
    execute c ps = mkOutcome bl
      (Ok (concat (map (fun b => map (row_of (stmt_ext ext c ps b)) (b_items b)) bl))).
Proof.
  intros Hbs Hpre [Hnsc Hwf] Hret Hsbo Hrc Hsent.
  destruct (plan_spec c ps Hbs Hpre) as (bl & Hplan & Hcat & _ & Hall & Hrow).
  exists bl. split; [exact Hplan|]. split; [exact Hcat|].
  unfold IMV.execute. rewrite Hplan.
  rewrite (deliver_ok c ps (fun b => map (row_of (stmt_ext ext c ps b)) (b_items b)) Hret); [reflexivity|].
  intros k b Hb. eapply Forall_forall in Hall; [|exact Hb].
  destruct Hall as (Hne & _ & _ & _ & _ & Hdg).
  assert (Hcsbo : c_sbo c = true) by (unfold c_sbo; rewrite Hret; exact Hsbo).
  set (x := stmt_ext ext c ps b). specialize (fetch_perm k x (b_items b)).
  (* a batch that needs no re-ordering holds one row *)
  assert (Hsingle : c_num_sentinel c = 0 \/ b_downgraded b = true -> length (b_items b) = 1%nat).
  { intros Hcase. destruct (decide_mode (c_sbo c) (c_flags c)) as [u d] eqn:Hm. destruct u.
    - eapply Forall_forall in Hrow; [exact Hrow|reflexivity|exact Hb].
    - exfalso. destruct (mode_batched_safe _ _ _ Hm) as (Hd & _ & _ & Hs & _).
      destruct (Hs Hcsbo Hrc) as [Hnone _]. rewrite Hwf in Hnone. cbn [snd] in Hdg.
      destruct Hcase as [H0|H1]; [rewrite H0 in Hnone; discriminate|congruence]. }
  destruct (Z.eq_dec (c_num_sentinel c) 0) as [H0|H0].
  { rewrite merge_passthrough by (left; exact H0). f_equal.
    specialize (Hsingle (or_introl H0)). destruct (b_items b) as [|p [|? ?]]; try discriminate.
    apply perm_singleton. exact fetch_perm. }
  destruct (b_downgraded b) eqn:Hd.
  { rewrite merge_passthrough by (right; exact Hd). f_equal.
    specialize (Hsingle (or_intror eq_refl)). destruct (b_items b) as [|p [|? ?]]; try discriminate.
    apply perm_singleton. exact fetch_perm. }
  assert (Hin : In (b_items b) (map b_items bl)) by (apply in_map; exact Hb).
  destruct Hsent as [H|[(Hi & Hk & Hrs & Hnd)|(Hi & H1 & Hss)]]; [contradiction| |].
  - apply (merge_explicit_complete key_eqb key_eqb_spec sent_of_param sent_of_row sort_key c b _ (row_of x));
      try assumption; [apply Hrs|].
    rewrite <- Hcat in Hnd. rewrite concat_map in Hnd.
    eapply NoDup_concat_in; [exact Hnd|]. apply in_map. exact Hin.
  - rewrite (merge_implicit key_eqb sent_of_param sent_of_row sort_key c b _ H1 Hd Hi). f_equal.
    apply sort_rows_restores; [|exact fetch_perm].
    apply StronglySorted_map. unfold key_lt.
    eapply StronglySorted_concat_in; [|exact Hin]. rewrite Hcat. apply Hss.
Qed.

(* Guard of finding C12-nonvalues-bind: every parameter set binds the same values to the
   parameters that are not inside VALUES (in particular: there are none) *)
Definition uniform_ext (ps : list P) : Prop := forall p q, In p ps -> In q ps -> ext p = ext q.

(* ... or every statement carries one parameter set anyway (row-at-a-time mode, e.g. an upsert whose
   SET clause has bound parameters) *)
Definition ext_guard (c : config) (ps : list P) : Prop :=
  fst (decide_mode (c_sbo c) (c_flags c)) = true \/ uniform_ext ps.

Lemma stmt_ext_uniform c ps bl b p : ext_guard c ps -> concat (map b_items bl) = ps -> In b bl ->
  (fst (decide_mode (c_sbo c) (c_flags c)) = true -> length (b_items b) = 1%nat) ->
  b_items b <> [] -> In p (b_items b) -> stmt_ext ext c ps b = Some (ext p).
Proof.
  intros Hg Hcat Hb Hrow Hne Hp. unfold stmt_ext.
  assert (Hpin : In p ps). { rewrite <- Hcat. apply in_concat. exists (b_items b). split; [apply in_map; exact Hb|exact Hp]. }
  destruct (fst (decide_mode (c_sbo c) (c_flags c))) eqn:Hm.
  - rewrite andb_false_r. specialize (Hrow eq_refl).
    destruct (b_items b) as [|q [|? ?]]; try discriminate. destruct Hp as [->|[]]. reflexivity.
  - destruct Hg as [Hg|Hu]; [rewrite Hm in Hg; discriminate|]. rewrite andb_true_r. destruct (c_named c).
    + destruct ps as [|q r]; [destruct Hpin|]. cbn. f_equal. apply Hu; [left; reflexivity|exact Hpin].
    + destruct (b_items b) as [|q r] eqn:E; [congruence|]. cbn. f_equal. apply Hu; [|exact Hpin].
      rewrite <- Hcat. apply in_concat. exists (q :: r). split; [rewrite <- E; apply in_map; exact Hb|left; reflexivity].
Qed.

(* the n-th returned row belongs to the n-th parameter set *)
Theorem execute_sorted_guarded (c : config) (ps : list P) :
  1 <= c_batch_size c -> clamp_pre c -> wf_config c ->
  c_is_returning c = true -> c_imv_sbo c = true -> result_columns (c_flags c) = true ->
  sentinel_hyp c ps -> ext_guard c ps ->
  o_result (execute c ps) = Ok (map (fun p => row_of (Some (ext p)) p) ps) /\
  concat (map b_items (o_executed (execute c ps))) = ps.
Proof.
  intros Hbs Hpre Hwf Hret Hsbo Hrc Hsent Hu.
  destruct (execute_sorted_general c ps Hbs Hpre Hwf Hret Hsbo Hrc Hsent) as (bl & Hplan & Hcat & Hex).
  destruct (plan_spec c ps Hbs Hpre) as (bl' & Hplan' & _ & _ & Hall & Hrow).
  rewrite Hplan in Hplan'. inversion Hplan'; subst bl'. clear Hplan'.
  rewrite Hex. cbn [o_result o_executed]. split; [|exact Hcat]. f_equal.
  assert (E : map (fun p => row_of (Some (ext p)) p) ps
              = map (fun p => row_of (Some (ext p)) p) (concat (map b_items bl))) by (rewrite Hcat; reflexivity).
  rewrite E. rewrite concat_map, map_map. f_equal. apply map_ext_in. intros b Hb.
  eapply Forall_forall in Hall; [|exact Hb]. destruct Hall as (Hne & _).
  apply map_ext_in. intros p Hp. rewrite (stmt_ext_uniform c ps bl b p Hu Hcat Hb) ; [reflexivity| |exact Hne|exact Hp].
  intros Hm. eapply Forall_forall in Hrow; [exact Hrow|exact Hm|exact Hb].
Qed.

(* without sentinel columns the rows are delivered as fetched: exactly one per parameter set, in
   some order *)
Lemma deliver_perm c all : c_is_returning c = true -> c_num_sentinel c = 0 ->
  forall bl k done acc, exists rows,
    deliver c all k bl done acc = mkOutcome (rev done ++ bl) (Ok (acc ++ rows)) /\
    Permutation (concat (map (fun b => map (row_of (stmt_ext ext c all b)) (b_items b)) bl)) rows.
Proof.
  intros Hr H0. induction bl as [|b r IH]; intros k done acc; cbn [IMV.deliver map concat].
  - exists []. rewrite !app_nil_r. split; [reflexivity|constructor].
  - rewrite Hr, merge_passthrough by (left; exact H0).
    destruct (IH (S k) (b :: done) (acc ++ fetch k (stmt_ext ext c all b) (b_items b))) as (rows & H1 & H2).
    exists (fetch k (stmt_ext ext c all b) (b_items b) ++ rows). split.
    + rewrite H1. cbn [rev]. rewrite <- !app_assoc. reflexivity.
    + apply Permutation_app; [apply fetch_perm|exact H2].
Qed.

Theorem execute_unsorted_perm (c : config) (ps : list P) :
  1 <= c_batch_size c -> clamp_pre c -> c_is_returning c = true -> c_num_sentinel c = 0 -> ext_guard c ps ->
  exists rows, o_result (execute c ps) = Ok rows /\
    Permutation (map (fun p => row_of (Some (ext p)) p) ps) rows /\
    concat (map b_items (o_executed (execute c ps))) = ps.
Proof.
  intros Hbs Hpre Hret H0 Hu.
  destruct (plan_spec c ps Hbs Hpre) as (bl & Hplan & Hcat & _ & Hall & Hrow).
  unfold IMV.execute. rewrite Hplan.
  destruct (deliver_perm c ps Hret H0 bl 0%nat [] []) as (rows & H1 & H2).
  rewrite H1. cbn [o_result o_executed rev app]. exists rows. split; [reflexivity|]. split; [|exact Hcat].
  etransitivity; [|exact H2].
  assert (E : map (fun p => row_of (Some (ext p)) p) ps
              = map (fun p => row_of (Some (ext p)) p) (concat (map b_items bl))) by (rewrite Hcat; reflexivity).
  rewrite E. rewrite concat_map, map_map.
  apply Permutation_refl'. f_equal. apply map_ext_in. intros b Hb.
  eapply Forall_forall in Hall; [|exact Hb]. destruct Hall as (Hne & _).
  apply map_ext_in. intros p Hp. rewrite (stmt_ext_uniform c ps bl b p Hu Hcat Hb) ; [reflexivity| |exact Hne|exact Hp].
  intros Hm. eapply Forall_forall in Hrow; [exact Hrow|exact Hm|exact Hb].
Qed.

End Whole.
