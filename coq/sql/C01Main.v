(* C01 main structural theorem: under the finite table check, the backend grammar parses the rendered
   text of every constructed expression back to its intended (left-nested) reading. *)
From Coq Require Import List Arith ZArith Bool Lia.
Import ListNotations.
From SAV.sql Require Import Prec SAExpr C01Tables C01Proofs.

Section Main.
Variable T : satab.
Variable Bk : btab.
Variable allowed : nat -> nat -> bool.
Hypothesis Hc : compat T Bk allowed = true.

Notation okB := (ok (g_lbp Bk) binops unops (g_lctx Bk) (g_rctx Bk) (g_uctx Bk) (g_ulev Bk)).

Lemma compat_pairs : forall c p, In c allops -> In p allops ->
  allowed c p = true -> exempt T c p = false -> pair_ok T Bk c p = true.
Proof.
  intros c p Hcin Hpin Ha He. unfold compat in Hc.
  apply andb_true_iff in Hc. destruct Hc as [H12 _]. apply andb_true_iff in H12. destruct H12 as [H1 _].
  rewrite forallb_forall in H1. specialize (H1 c Hcin). rewrite forallb_forall in H1. specialize (H1 p Hpin).
  rewrite Ha, He in H1. exact H1.
Qed.
Lemma compat_flat : forall o, In o binops -> flattens T o = true -> b_nonassoc Bk o = false.
Proof.
  intros o Ho Hf. unfold compat in Hc. apply andb_true_iff in Hc. destruct Hc as [H12 _].
  apply andb_true_iff in H12. destruct H12 as [_ H2]. rewrite forallb_forall in H2. specialize (H2 o Ho).
  rewrite Hf in H2. cbn in H2. apply negb_true_iff in H2. exact H2.
Qed.
Lemma compat_btab : forall o u, In o binops -> In u unops -> b_lbp Bk o <> b_pbp Bk u.
Proof.
  intros o u Ho Hu. unfold compat in Hc. apply andb_true_iff in Hc. destruct Hc as [_ H3].
  unfold btab_ok in H3. rewrite forallb_forall in H3. specialize (H3 o Ho). rewrite forallb_forall in H3.
  specialize (H3 u Hu). apply negb_true_iff in H3. apply Nat.eqb_neq in H3. exact H3.
Qed.

(* which ungrouped parent/child operator pairs occur in x: all must be allowed *)
Definition al (p : nat) (y : sx) : Prop :=
  match op_of y with None => True | Some c => allowed c p = true end.
Fixpoint uses (x : sx) : Prop :=
  match x with
  | SA _ => True
  | SG e => uses e
  | SB o l r => uses l /\ uses r /\ al o l /\ al o r
  | SL o e1 es =>
      uses e1 /\ al o e1 /\
      (fix all (l : list sx) : Prop := match l with [] => True | y :: r => uses y /\ al o y /\ all r end) es
  | SU u e => uses e /\ al u e
  end.

Definition fitsq (q : nat) (y : sx) : Prop :=
  match op_of y with None => True | Some c => q <= clevel Bk c end.

Lemma fitsq_weaken q q' y : q' <= q -> fitsq q y -> fitsq q' y.
Proof. unfold fitsq. intros H. destruct (op_of y) as [c|]; [|auto]. intros H1. exact (Nat.le_trans _ _ _ H H1). Qed.

Lemma top_in_allops y c : inv T y -> op_of y = Some c -> In c allops.
Proof.
  destruct y as [n|o l r|o e1 es|u e|e]; cbn [op_of inv]; intros Hi E; try discriminate; inversion E; subst;
    unfold allops; apply in_or_app.
  - left. apply Hi.
  - left. apply Hi.
  - right. apply Hi.
Qed.

Lemma child_fits p y : In p allops -> inv T y -> sgc T p y -> al p y -> fitsq (plevel Bk p) y.
Proof.
  intros Hp Hi Hs Ha. unfold fitsq, sgc, al in *. destruct (op_of y) as [c|] eqn:E; [|exact I].
  destruct Hs as [Hd Hne].
  assert (He : exempt T c p = false).
  { unfold exempt. destruct (Nat.eqb_spec c p) as [->|]; [|reflexivity]. cbn [andb].
    destruct (is_un p) eqn:Eu; [reflexivity|]. cbn [negb andb].
    destruct (flattens T p) eqn:Ef; [|reflexivity]. exfalso. apply (Hne eq_refl eq_refl). reflexivity. }
  pose proof (compat_pairs c p (top_in_allops y c Hi E) Hp Ha He) as Hpk.
  unfold pair_ok in Hpk. rewrite Hd in Hpk. cbn in Hpk. apply Nat.leb_le in Hpk. exact Hpk.
Qed.

Lemma ok_weaken q q' e : q' <= q -> okB q e -> okB q' e.
Proof.
  destruct e as [n|o l r|u e1|e1]; cbn [ok]; intros Hq H.
  - exact I.
  - destruct H as [H1 [H2 H3]]. split; [exact H1|]. split; [exact (Nat.le_trans _ _ _ Hq H2)|exact H3].
  - destruct H as [H1 [H2 H3]]. split; [exact H1|]. split; [exact (Nat.le_trans _ _ _ Hq H2)|exact H3].
  - exact H.
Qed.

Lemma fold_ok o : In o binops -> g_lctx Bk o = g_lbp Bk o ->
  forall es acc, okB (g_lctx Bk o) acc -> Forall (fun e => okB (g_rctx Bk o) (lower e)) es ->
  okB (g_lctx Bk o) (fold_left (fun a e => B o a (lower e)) es acc).
Proof.
  intros Ho Hl. induction es as [|e es IH]; intros acc Ha Hes; cbn [fold_left]; [exact Ha|].
  inversion Hes as [|? ? He Hr]; subst. apply IH; [|exact Hr].
  cbn [ok]. repeat split; [exact Ho|rewrite Hl; unfold g_lbp; lia|exact Ha|exact He].
Qed.

Lemma in_binops_allops o : In o binops -> In o allops.
Proof. intros H. unfold allops. apply in_or_app. left. exact H. Qed.
Lemma in_unops_allops u : In u unops -> In u allops.
Proof. intros H. unfold allops. apply in_or_app. right. exact H. Qed.

Lemma lctx_le_plevel o : In o binops -> g_lctx Bk o <= plevel Bk o.
Proof.
  intros Ho. unfold g_lctx, plevel. rewrite (binop_not_un o Ho). destruct (b_nonassoc Bk o); lia.
Qed.

Theorem ok_lower : forall x, inv T x -> uses x -> forall q, fitsq q x -> okB q (lower x).
Proof.
  induction x as [n|o l r IHl IHr|o e1 es IH1 IHes|u e IHe|e IHe] using sx_ind'; intros Hi Hu q Hq.
  - exact I.
  - cbn [inv] in Hi. destruct Hi as [Ho [Hil [Hir [Sl Sr]]]]. cbn [uses] in Hu. destruct Hu as [Ul [Ur [Al Ar]]].
    cbn [lower ok]. split; [exact Ho|]. split.
    + unfold fitsq in Hq. cbn [op_of] in Hq. unfold clevel in Hq. rewrite (binop_not_un o Ho) in Hq. exact Hq.
    + split.
      * apply IHl; [exact Hil|exact Ul|]. eapply fitsq_weaken; [apply lctx_le_plevel; exact Ho|].
        apply child_fits; auto using in_binops_allops.
      * apply IHr; [exact Hir|exact Ur|].
        assert (Hrp : g_rctx Bk o = plevel Bk o) by (unfold g_rctx, plevel; rewrite (binop_not_un o Ho); reflexivity).
        rewrite Hrp. apply child_fits; auto using in_binops_allops.
  - cbn [inv] in Hi. destruct Hi as [Ho [Hf [Hi1 [S1 His]]]]. cbn [uses] in Hu. destruct Hu as [U1 [A1 Us]].
    cbn [lower].
    assert (Hl : g_lctx Bk o = g_lbp Bk o).
    { unfold g_lctx, g_lbp. rewrite (compat_flat o Ho Hf). reflexivity. }
    assert (Hrp : g_rctx Bk o = plevel Bk o) by (unfold g_rctx, plevel; rewrite (binop_not_un o Ho); reflexivity).
    eapply ok_weaken; [|apply fold_ok; [exact Ho|exact Hl| |]].
    + unfold fitsq in Hq. cbn [op_of] in Hq. unfold clevel in Hq. rewrite (binop_not_un o Ho) in Hq.
      rewrite Hl. exact Hq.
    + apply IH1; [exact Hi1|exact U1|]. eapply fitsq_weaken; [apply lctx_le_plevel; exact Ho|].
      apply child_fits; auto using in_binops_allops.
    + clear IH1 Hq. induction es as [|y es IHy]; [constructor|].
      inversion IHes as [|? ? Hy Hys]; subst. destruct His as [Hiy [Sy His]]. destruct Us as [Uy [Ay Us]].
      constructor; [|apply IHy; assumption].
      apply Hy; [exact Hiy|exact Uy|]. rewrite Hrp. apply child_fits; auto using in_binops_allops.
  - cbn [inv] in Hi. destruct Hi as [Hun [Hie Se]]. cbn [uses] in Hu. destruct Hu as [Ue Ae].
    cbn [lower ok]. split; [exact Hun|]. split.
    + unfold fitsq in Hq. cbn [op_of] in Hq. unfold clevel in Hq. rewrite (unop_is_un u Hun) in Hq. exact Hq.
    + apply IHe; [exact Hie|exact Ue|].
      assert (Hup : g_uctx Bk u = plevel Bk u) by (unfold g_uctx, plevel; rewrite (unop_is_un u Hun); reflexivity).
      rewrite Hup. apply child_fits; auto using in_unops_allops.
  - cbn [inv] in Hi. cbn [uses] in Hu. cbn [lower ok]. apply IHe; [exact Hi|exact Hu|]. unfold fitsq.
    destruct (op_of e); [lia|exact I].
Qed.

(* the table hypotheses of the generic theory hold for the derived levels *)
Lemma G_left : forall o, In o binops ->
  stops (g_lbp Bk) (g_rbp Bk) (g_pbp Bk) binops unops (g_ulev Bk) (g_lctx Bk o) o.
Proof.
  intros o Ho. unfold stops. split.
  - intros o1 _ Hle. unfold g_rbp, g_lbp, g_lctx in *. destruct (b_nonassoc Bk o); lia.
  - intros u Hu Hle. pose proof (compat_btab o u Ho Hu) as Hne.
    unfold g_ulev, g_pbp, g_lbp, g_lctx in *. destruct (b_nonassoc Bk o); lia.
Qed.

Theorem c01_structure : neg_wf T = true -> forall t, wf_u t -> uses (construct T t) ->
  exists f, parse (g_lbp Bk) (g_rbp Bk) (g_pbp Bk) f 0 (render (construct T t))
            = Some (erase (lower (construct T t)), []).
Proof.
  intros Hn t Hw Hu. rewrite <- render_lower.
  apply (parse_flat_top (g_lbp Bk) (g_rbp Bk) (g_pbp Bk) binops unops (g_lctx Bk) (g_rctx Bk) (g_uctx Bk) (g_ulev Bk)).
  - intros o _. unfold g_rbp, g_rctx. lia.
  - intros o _. unfold g_lbp, g_rctx. lia.
  - intros o _. unfold g_lbp, g_lctx. destruct (b_nonassoc Bk o); lia.
  - intros u _. unfold g_pbp, g_uctx. lia.
  - intros u _. unfold g_ulev, g_uctx. lia.
  - exact G_left.
  - apply ok_lower; [apply construct_inv; assumption|exact Hu|].
    unfold fitsq. destruct (op_of _); [lia|exact I].
Qed.

Theorem c01_structure_unique : neg_wf T = true -> forall t, wf_u t -> uses (construct T t) ->
  forall f r, parse (g_lbp Bk) (g_rbp Bk) (g_pbp Bk) f 0 (render (construct T t)) = Some r ->
  r = (erase (lower (construct T t)), []).
Proof.
  intros Hn t Hw Hu f r Hr. destruct (c01_structure Hn t Hw Hu) as [f0 H0].
  pose proof (proj1 (mono (g_lbp Bk) (g_rbp Bk) (g_pbp Bk) f) _ _ _ Hr (Nat.max f f0) (Nat.le_max_l _ _)) as H1.
  pose proof (proj1 (mono (g_lbp Bk) (g_rbp Bk) (g_pbp Bk) f0) _ _ _ H0 (Nat.max f f0) (Nat.le_max_r _ _)) as H2.
  congruence.
Qed.
End Main.

(* with every pair allowed, [uses] is trivially true *)
Lemma uses_all : forall x, uses allowed_all x.
Proof.
  induction x as [n|o l r IHl IHr|o e1 es IH1 IHes|u e IHe|e IHe] using sx_ind'; cbn [uses].
  - exact I.
  - repeat split; auto; unfold al; destruct (op_of _); reflexivity || exact I.
  - split; [exact IH1|]. split; [unfold al; destruct (op_of _); reflexivity || exact I|].
    induction IHes as [|y es Hy _ IH]; [exact I|]. split; [exact Hy|]. split; [|exact IH].
    unfold al; destruct (op_of _); reflexivity || exact I.
  - split; [exact IHe|]. unfold al; destruct (op_of _); reflexivity || exact I.
  - exact IHe.
Qed.
