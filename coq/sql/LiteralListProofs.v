(* C05 - IN lists: the rendered list is a list of tokens denoting the values; the literal_execute
   path for types with a bind_expression re-splits the joined text on ", " (refuted / guarded). *)
From Coq Require Import List NArith ZArith Bool Lia.
Import ListNotations.
From SAV.sql Require Import Literal LiteralStrProofs.
Open Scope N_scope.

(* ------------------------------------------------------------------ the list of tokens *)

Lemma driver_cons_ne fl c r : c <> 37 -> driver fl (c :: r) = c :: driver fl r.
Proof. intros H. unfold driver. destruct (f_dp fl); [apply collapse_cons_ne; exact H|reflexivity]. Qed.

Lemma join_sep_cons2 a b r : join_sep (a :: b :: r) = a ++ SEP ++ join_sep (b :: r).
Proof. reflexivity. Qed.

Theorem in_list_tokens : forall d fl n xs rest,
  (n = true -> d = MSSQL) -> xs <> [] ->
  lex_list (length xs) (server d fl)
           (driver fl (render_in_list (map (render_string d fl n) xs) ++ 41 :: rest))
  = LOk xs (driver fl (41 :: rest)).
Proof.
  intros d fl n xs rest Hn. unfold render_in_list.
  induction xs as [|x xs IH]; intros Hne; [contradiction|].
  destruct xs as [|y ys].
  - cbn [map join_sep length lex_list].
    rewrite (string_literal_roundtrip d fl n x (41 :: rest) Hn) by (cbn; discriminate).
    rewrite driver_cons_ne by discriminate. reflexivity.
  - change (length (x :: y :: ys)) with (S (length (y :: ys))).
    change (map (render_string d fl n) (x :: y :: ys))
      with (render_string d fl n x :: render_string d fl n y :: map (render_string d fl n) ys).
    change (map (render_string d fl n) (y :: ys))
      with (render_string d fl n y :: map (render_string d fl n) ys) in IH.
    rewrite join_sep_cons2. cbn [lex_list]. rewrite <- !app_assoc.
    rewrite (string_literal_roundtrip d fl n x _ Hn) by (cbn; discriminate).
    unfold SEP at 1. cbn [app]. rewrite 2!driver_cons_ne by discriminate.
    rewrite IH by discriminate. reflexivity.
Qed.

(* ------------------------------------------------------------------ split after join *)

(* the text does not contain ", " *)
Fixpoint no_sep (s : str) : bool :=
  match s with
  | c :: r => negb ((c =? 44) && match r with c2 :: _ => c2 =? 32 | [] => false end) && no_sep r
  | [] => true
  end.

Lemma split_last x : forall cur, no_sep x = true -> split_sep_aux cur x = [rev cur ++ x].
Proof.
  induction x as [|c x IH]; intros cur H.
  - cbn. rewrite app_nil_r. reflexivity.
  - cbn [no_sep] in H. apply andb_prop in H. destruct H as [H1 H2]. cbn [split_sep_aux].
    destruct x as [|c2 x2].
    + cbn [rev]. reflexivity.
    + apply negb_true_iff in H1. rewrite H1. rewrite (IH (c :: cur) H2).
      cbn [rev]. rewrite <- app_assoc. reflexivity.
Qed.

Lemma split_item x : forall cur t, no_sep x = true ->
  split_sep_aux cur (x ++ SEP ++ t) = (rev cur ++ x) :: split_sep_aux [] t.
Proof.
  induction x as [|c x IH]; intros cur t H.
  - cbn. rewrite app_nil_r. reflexivity.
  - cbn [no_sep] in H. apply andb_prop in H. destruct H as [H1 H2]. apply negb_true_iff in H1.
    cbn [app split_sep_aux]. destruct x as [|c2 x2].
    + cbn [app SEP]. change (44 =? 32) with false. rewrite andb_false_r.
      cbn [split_sep_aux]. change ((44 =? 44) && (32 =? 32)) with true. cbn iota.
      cbn [rev]. reflexivity.
    + cbn [app]. rewrite H1. change (c2 :: x2 ++ SEP ++ t) with ((c2 :: x2) ++ SEP ++ t).
      rewrite (IH (c :: cur) t H2). cbn [rev]. rewrite <- app_assoc. reflexivity.
Qed.

Lemma split_join lits : lits <> [] -> forallb no_sep lits = true ->
  split_sep (join_sep lits) = lits.
Proof.
  unfold split_sep. induction lits as [|x r IH]; intros Hne H; [contradiction|].
  cbn [forallb] in H. apply andb_prop in H. destruct H as [Hx Hr].
  destruct r as [|y r'].
  - cbn [join_sep]. rewrite (split_last x [] Hx). reflexivity.
  - change (join_sep (x :: y :: r')) with (x ++ SEP ++ join_sep (y :: r')).
    rewrite (split_item x [] _ Hx), IH by (discriminate || exact Hr). reflexivity.
Qed.

(* bound expanding parameters: the text split is harmless because placeholders contain no ", " *)
Theorem process_expanding_bound_ok : forall l r phs,
  phs <> [] -> forallb no_sep phs = true ->
  process_expanding_bound l r phs = render_in_list_be l r phs.
Proof.
  intros l r phs Hne H. unfold process_expanding_bound, render_in_list_be.
  rewrite (split_join phs Hne H). reflexivity.
Qed.

(* literal_execute parameters: the rendered literals are wrapped one by one, whatever they contain *)
Theorem process_expanding_literal : forall l r lits,
  process_expanding_be l r lits = render_in_list_be l r lits.
Proof. reflexivity. Qed.

Definition s_lower_open : str := [108; 111; 119; 101; 114; 40].
Definition lit_A_B : str := [39; 65; 44; 32; 66; 39].
