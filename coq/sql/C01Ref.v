(* reference copy of the operator table as read from the source when the model was written; the per-run
   obligations use the regenerated table [gen_tab], this copy serves the non-vacuity examples and the refutation *)
From Coq Require Import List Arith ZArith Bool.
Import ListNotations.
From SAV.sql Require Import Prec SAExpr.
Definition T_ref : satab := {|
  prec := fun o => match o with | 0 => (5)%Z | 1 => (8)%Z | 2 => (3)%Z | 3 => (2)%Z | 4 => (7)%Z | 5 => (7)%Z | 6 => (8)%Z | 7 => (8)%Z | 8 => (8)%Z | 9 => (5)%Z | 10 => (5)%Z | 11 => (5)%Z | 12 => (5)%Z | 13 => (5)%Z | 14 => (5)%Z | 15 => (5)%Z | 16 => (5)%Z | 17 => (5)%Z | 18 => (5)%Z | 19 => (5)%Z | 20 => (7)%Z | 21 => (7)%Z | 22 => (7)%Z | 23 => (7)%Z | _ => 0%Z end;
  assoc := fun o => match o with | 0 => false | 1 => false | 2 => true | 3 => true | 4 => true | 5 => false | 6 => true | 7 => false | 8 => false | 9 => true | 10 => false | 11 => false | 12 => false | 13 => false | 14 => false | 15 => false | 16 => false | 17 => false | 18 => false | 19 => false | 20 => false | 21 => false | 22 => false | 23 => false | _ => false end;
  nsp := fun o => match o with | 0 => false | 1 => false | 2 => true | 3 => true | 4 => true | 5 => false | 6 => true | 7 => false | 8 => false | 9 => true | 10 => false | 11 => false | 12 => false | 13 => false | 14 => false | 15 => false | 16 => false | 17 => false | 18 => false | 19 => false | 20 => false | 21 => false | 22 => false | 23 => false | _ => false end;
  isbool := fun o => match o with | 0 => true | 1 => false | 2 => true | 3 => true | 4 => false | 5 => false | 6 => false | 7 => false | 8 => false | 9 => false | 10 => true | 11 => true | 12 => true | 13 => true | 14 => true | 15 => true | 16 => true | 17 => true | 18 => true | 19 => true | 20 => false | 21 => false | 22 => false | 23 => false | _ => false end;
  negate := fun o => match o with | 0 => None | 1 => None | 2 => None | 3 => None | 4 => None | 5 => None | 6 => None | 7 => None | 8 => None | 9 => None | 10 => Some 11 | 11 => Some 10 | 12 => Some 15 | 13 => Some 14 | 14 => Some 13 | 15 => Some 12 | 16 => Some 17 | 17 => Some 16 | 18 => Some 19 | 19 => Some 18 | 20 => None | 21 => None | 22 => None | 23 => None | _ => None end
|}.
