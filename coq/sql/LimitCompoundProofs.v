(* C18 - compound selects: the limit is either rendered as for a plain select, or silently dropped *)
From Coq Require Import List ZArith Bool Lia Permutation Sorted.
Import ListNotations.
From SAV.sql Require Import Limit LimitListProofs LimitFormProofs LimitWhichProofs.
Open Scope Z_scope.

Lemma generic_none_iff : forall fn s, (forall lo, fn lo <> PNone) ->
  has_row_limiting s = true -> generic_row_limit fn s <> PNone.
Proof.
  intros fn [lim off ord dis] Hfn H. unfold generic_row_limit, has_row_limiting, fetch_clause, limit_clause in *.
  cbn [s_lim s_off] in *.
  destruct lim as [|[ls lv]|[fs fv] p t]; cbn [val option_map is_some orb] in *.
  - destruct off as [[os ov]|]; cbn in *; [apply Hfn|discriminate].
  - apply Hfn.
  - discriminate.
Qed.

(* exactly where the clause is dropped *)
Lemma compound_dropped_iff : forall d s,
  compound_dropped d s = true <->
  has_row_limiting s = true /\
  ((exists b, d = MSSQL b /\ (use_top s = true \/ b = false)) \/
   (d = Oracle false /\ fetch_clause s = None)).
Proof.
  intros d s. unfold compound_dropped. split.
  - intros H. apply andb_prop in H. destruct H as [H1 H2]. split; [exact H1|].
    destruct d as [| | | |b|b]; cbn [compound_form which_form] in H2.
    + exfalso. assert (G := generic_none_iff default_limit_clause s ltac:(intros [? ?|?]; discriminate) H1).
      destruct (generic_row_limit default_limit_clause s); try discriminate; now apply G.
    + exfalso. assert (G := generic_none_iff sqlite_limit_clause s ltac:(intros [? [?|]|?]; discriminate) H1).
      destruct (generic_row_limit sqlite_limit_clause s); try discriminate; now apply G.
    + exfalso. assert (G := generic_none_iff mysql_limit_clause s ltac:(intros [? [?|]|?]; discriminate) H1).
      destruct (generic_row_limit mysql_limit_clause s); try discriminate; now apply G.
    + exfalso. assert (G := generic_none_iff pg_limit_clause s ltac:(intros [? ?|?]; discriminate) H1).
      destruct (generic_row_limit pg_limit_clause s); try discriminate; now apply G.
    + left. exists b. split; [reflexivity|]. rewrite H1 in H2. cbn [negb] in H2.
      destruct b; [|now right]. destruct (use_top s); [now left|]. cbn [andb negb] in H2.
      destruct (check_can_use_fetch_limit s); discriminate.
    + right. rewrite H1 in H2. cbn [negb] in H2. destruct (fetch_clause s); [discriminate|].
      destruct b; [discriminate|]. split; reflexivity.
  - intros [H1 [[b [-> Hb]]|[-> Hf]]]; rewrite H1; cbn [andb compound_form]; rewrite H1; cbn [negb].
    + destruct Hb as [Hb| ->]; [rewrite Hb; now rewrite andb_false_r|reflexivity].
    + now rewrite Hf.
Qed.

Lemma compound_form_kept : forall d s, compound_dropped d s = false -> compound_form d s = which_form d s.
Proof.
  intros d s H. unfold compound_dropped in H.
  destruct d as [| | | |b|b]; try reflexivity; cbn [compound_form which_form] in *.
  - unfold mssql_form. destruct (has_row_limiting s) eqn:E; cbn [negb andb] in *; [|reflexivity].
    destruct (use_top s), b; cbn [andb negb] in *; try discriminate.
    destruct (check_can_use_fetch_limit s); reflexivity.
  - unfold oracle_form. destruct (has_row_limiting s) eqn:E; cbn [negb andb] in *; [|reflexivity].
    destruct (fetch_clause s); [reflexivity|]. destruct b; [reflexivity|discriminate].
Qed.

Lemma compound_not_wrapped : forall d s, wrapped (compound_form d s) = false.
Proof.
  intros d s. destruct d as [| | | |b|b]; cbn [compound_form which_form].
  - apply generic_not_wrapped. intros [? ?|?]; reflexivity.
  - apply generic_not_wrapped. intros [? [?|]|?]; reflexivity.
  - apply generic_not_wrapped. intros [? [?|]|?]; reflexivity.
  - apply generic_not_wrapped. intros [? ?|?]; reflexivity.
  - destruct (negb (has_row_limiting s)); [reflexivity|]. destruct (b && negb (use_top s)); [|reflexivity].
    destruct (check_can_use_fetch_limit s); reflexivity.
  - destruct (negb (has_row_limiting s)); [reflexivity|]. destruct (fetch_clause s); [reflexivity|].
    destruct b; reflexivity.
Qed.

Section Compound.
Variable A : Type.
Variable eqA : A -> A -> bool.
Variable eqk : A -> A -> bool.
Variable reorder : list A -> list A.
Variable lek : A -> A -> bool.
Hypothesis lek_trans : forall a b c, lek a b = true -> lek b c = true -> lek a c = true.
Hypothesis eqk_def : forall a b, eqk a b = lek a b && lek b a.

(* guarded: where the clause is rendered at all, the rows are the slice - as a list, a compound select
   is never wrapped *)
Theorem compound_rows_guarded : forall d s pre,
  compound_dropped d s = false ->
  nonneg s = true ->
  is_error (compound_form d s) = false ->
  (d = MySQL -> Z.of_nat (length (result A eqA (s_distinct s) pre)) <= mysql_no_limit) ->
  (fetch_ties s = true -> StronglySorted (fun a b => lek a b = true) pre) ->
  exec A eqA eqk reorder (compound_form d s) (s_distinct s) pre = spec A eqA eqk s pre.
Proof.
  intros d s pre Hd Hn He Hm Hs.
  assert (W := compound_not_wrapped d s). rewrite (compound_form_kept d s Hd) in *.
  apply (which_form_list A eqA eqk reorder lek lek_trans eqk_def); auto.
  - intros Hw. rewrite W in Hw. discriminate.
  - unfold guard. destruct (which_form d s); try reflexivity; discriminate W.
Qed.

(* dropped: every row of the ordered result comes back *)
Theorem compound_dropped_all_rows : forall d s pre,
  compound_dropped d s = true ->
  exec A eqA eqk reorder (compound_form d s) (s_distinct s) pre = result A eqA (s_distinct s) pre.
Proof.
  intros d s pre H. unfold compound_dropped in H. apply andb_prop in H. destruct H as [_ H].
  destruct (compound_form d s); try discriminate. reflexivity.
Qed.
End Compound.

(* DEFECT: union(...).order_by(x).limit(1) on MSSQL (TOP is never rendered for a compound select) *)
Theorem compound_limit_dropped_refuted :
  exists d s (pre : list Z), nonneg s = true /\ s_ordered s = true /\ compound_dropped d s = true /\
    forall reorder,
      exec Z Z.eqb Z.eqb reorder (compound_form d s) (s_distinct s) pre <> spec Z Z.eqb Z.eqb s pre.
Proof.
  exists (MSSQL true), (Sel (Limit (Clause true 1)) None true false), [1; 2; 3].
  repeat split; try reflexivity. intros reorder. vm_compute. discriminate.
Qed.
