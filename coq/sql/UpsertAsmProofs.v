(* C56 - the clause ASSEMBLY of visit_on_conflict_do_update denotes what the user's arguments say:
   same conflict target, same WHERE, the SET items a permutation of the user's items. *)
From Coq Require Import List ZArith Bool Lia Permutation.
Import ListNotations.
From SAV.sql Require Import Upsert UpsertAsm UpsertParse UpsertSpec UpsertSynProofs.

(* ---- sequence ---- *)
Lemma seq_app : forall {A} (a b : list (option A)) l,
  sequence (a ++ b) = Some l <->
  exists la lb, sequence a = Some la /\ sequence b = Some lb /\ l = la ++ lb.
Proof.
  induction a as [|[x|] a IH]; intros b l; cbn [app sequence].
  - split; [intros H; exists [], l; auto|intros (la & lb & Ha & Hb & ->); injection Ha as <-; auto].
  - destruct (sequence (a ++ b)) as [r|] eqn:E.
    + apply IH in E. destruct E as (la & lb & Ha & Hb & ->). rewrite Ha. split.
      * intros H. injection H as <-. exists (x :: la), lb. auto.
      * intros (la' & lb' & Ha' & Hb' & ->). injection Ha' as <-. rewrite Hb in Hb'. injection Hb' as <-. reflexivity.
    + split; [discriminate|]. intros (la & lb & Ha & Hb & ->).
      destruct (sequence a) as [ra|] eqn:Ea; [|discriminate].
      assert (sequence (a ++ b) = Some (ra ++ lb)) by (apply IH; exists ra, lb; auto). congruence.
  - split; [discriminate|intros (la & lb & Ha & _); discriminate].
Qed.

Lemma seq_perm : forall {A} (a b : list (option A)), Permutation a b ->
  forall la, sequence a = Some la -> exists lb, sequence b = Some lb /\ Permutation la lb.
Proof.
  intros A a b HP. induction HP; intros la Hs.
  - exists la. auto.
  - destruct x as [x|]; cbn [sequence] in *; [|discriminate].
    destruct (sequence l) as [r|] eqn:E; [|discriminate]. injection Hs as <-.
    destruct (IHHP r eq_refl) as (lb & -> & Hp). exists (x :: lb). auto.
  - destruct x as [x|]; destruct y as [y|]; cbn [sequence] in *; try discriminate;
      destruct (sequence l) as [r|]; try discriminate. injection Hs as <-.
    exists (x :: y :: r). split; [reflexivity|apply perm_swap].
  - destruct (IHHP1 la Hs) as (lb & Hb & P1). destruct (IHHP2 lb Hb) as (lc & Hc & P2).
    exists lc. split; [assumption|eapply perm_trans; eassumption].
Qed.

Lemma seq_in : forall {A} (a : list (option A)) l x, sequence a = Some l -> In (Some x) a -> In x l.
Proof.
  induction a as [|[y|] a IH]; intros l x Hs Hin; cbn [sequence] in Hs; try discriminate.
  - destruct Hin.
  - destruct (sequence a) as [r|] eqn:E; [|discriminate]. injection Hs as <-.
    destruct Hin as [H|H]; [injection H as ->; left; reflexivity|right; eauto].
Qed.

Lemma seq_all_some : forall {A} (a : list (option A)) l y, sequence a = Some l -> In y a -> exists x, y = Some x.
Proof.
  induction a as [|[z|] a IH]; intros l y Hs Hin; cbn [sequence] in Hs; try discriminate.
  - destruct Hin.
  - destruct (sequence a) as [r|] eqn:E; [|discriminate].
    destruct Hin as [<-|H]; [eauto|eapply IH; eauto].
Qed.

Lemma seq_map_ext : forall {A B} (f g : A -> option B) l,
  (forall x, In x l -> f x = g x) -> map f l = map g l.
Proof. intros. apply map_ext_in. assumption. Qed.

(* ---- dict.pop ---- *)
Lemma pop_key_some : forall f l v l', pop_key f l = Some (v, l') ->
  exists k, f k = true /\ In (k, v) l /\ Permutation l ((k, v) :: l') /\ incl l' l.
Proof.
  induction l as [|[k0 v0] l IH]; intros v l' H; cbn [pop_key] in H; [discriminate|].
  destruct (f k0) eqn:E.
  - injection H as <- <-. exists k0. repeat split; auto. left; reflexivity. apply incl_tl, incl_refl.
  - destruct (pop_key f l) as [[v1 r1]|] eqn:Ep; [|discriminate]. injection H as <- <-.
    destruct (IH v1 r1 eq_refl) as (k & Hf & Hin & HP & Hincl). exists k. repeat split; auto.
    + right; assumption.
    + eapply perm_trans; [apply perm_skip; exact HP|apply perm_swap].
    + intros x [<-|Hx]; [left; reflexivity|right; auto].
Qed.

Lemma pop_key_none : forall f l, pop_key f l = None -> forall k v, In (k, v) l -> f k = false.
Proof.
  induction l as [|[k0 v0] l IH]; intros H k v Hin; [destruct Hin|].
  cbn [pop_key] in H. destruct (f k0) eqn:E; [discriminate|].
  destruct (pop_key f l) as [[v1 r1]|] eqn:Ep; [discriminate|].
  destruct Hin as [Heq|Hin]; [injection Heq as <- <-; assumption|eapply IH; eauto].
Qed.

(* ---- name / key lookup ---- *)
Lemma key_idx_nth : forall cols i,
  NoDup (map ckey cols) -> i < length cols -> key_idx cols (ckey (nth i cols dflt_col)) = Some i.
Proof.
  induction cols as [|c cs IH]; intros i Hnd Hi; [simpl in Hi; lia|].
  simpl in Hnd. inversion Hnd as [|x l Hnin Hnd']; subst.
  destruct i as [|i].
  - simpl. rewrite Z.eqb_refl. reflexivity.
  - simpl in Hi. cbn [nth key_idx].
    destruct (Z.eqb (ckey c) (ckey (nth i cs dflt_col))) eqn:E.
    + apply Z.eqb_eq in E. exfalso. apply Hnin. rewrite E. apply in_map. apply nth_In. lia.
    + rewrite IH by (assumption || lia). reflexivity.
Qed.

Lemma key_idx_some : forall cols s j, key_idx cols s = Some j ->
  j < length cols /\ ckey (nth j cols dflt_col) = s.
Proof.
  induction cols as [|c cs IH]; intros s j H; cbn [key_idx] in H; [discriminate|].
  destruct (Z.eqb (ckey c) s) eqn:E.
  - injection H as <-. apply Z.eqb_eq in E. simpl. split; [lia|assumption].
  - destruct (key_idx cs s) as [j'|] eqn:Ej; [|discriminate]. injection H as <-.
    destruct (IH s j' Ej). simpl. split; [lia|assumption].
Qed.

Section Asm.
  Variable cols : list coldesc.
  Hypothesis Hwf : wf_cols cols.
  Let n := length cols.

  Definition R (kv : skey * expr) : option (nat * expr) := set_item n (key_col cols (fst kv)) (snd kv).
  Definition A (kv : lhs * expr) : option (nat * expr) := set_item n (lhs_idx cols (fst kv)) (snd kv).

  (* the entry popped at table column number j denotes column j *)
  Lemma popped_denotes : forall j k v,
    j < n -> (is_str (ckey (nth j cols dflt_col)) k = true \/ is_col j k = true) ->
    A (LName (cname (nth j cols dflt_col)), v) = R (k, v).
  Proof.
    intros j k v Hj Hk. unfold A, R. cbn [fst snd lhs_idx]. destruct Hwf as [Hn Hk'].
    fold (col_name cols j). rewrite name_idx_nth by assumption.
    destruct Hk as [H|H]; destruct k as [s|i]; cbn [is_str is_col] in H; try discriminate.
    - apply Z.eqb_eq in H. subst s. cbn [key_col]. rewrite key_idx_nth by assumption. reflexivity.
    - apply Nat.eqb_eq in H. subst i. cbn [key_col]. fold n.
      destruct (Nat.ltb j n) eqn:E; [reflexivity|apply Nat.ltb_ge in E; lia].
  Qed.

  (* [cs] is the part of the table's column list that starts at offset i *)
  Definition suffix_at (cs : list coldesc) (i : nat) : Prop :=
    forall j, j < length cs -> nth j cs dflt_col = nth (i + j) cols dflt_col /\ i + j < n.

  Lemma suffix_tl : forall c cs i, suffix_at (c :: cs) i -> suffix_at cs (S i).
  Proof.
    intros c cs i H j Hj. destruct (H (S j)) as [H1 H2]; [simpl; lia|].
    cbn [nth] in H1. replace (S i + j) with (i + S j) by lia. auto.
  Qed.

  Lemma asm_cols_spec : forall cs i sp out left,
    suffix_at cs i -> asm_cols cs i sp = (out, left) ->
    Permutation (map A out ++ map R left) (map R sp) /\ incl left sp /\
    (forall k v, In (k, v) left ->
       forall j, j < length cs ->
         (is_str (ckey (nth j cs dflt_col)) k = true \/ is_col (i + j) k = true) ->
         exists v', In (LName (cname (nth j cs dflt_col)), v') out).
  Proof.
    induction cs as [|c cs IH]; intros i sp out left Hsuf H; cbn [asm_cols] in H.
    - injection H as <- <-. split; [apply Permutation_refl|]. split; [apply incl_refl|].
      intros k v _ j Hj. simpl in Hj. lia.
    - pose proof (suffix_tl _ _ _ Hsuf) as Hsuf'.
      destruct (Hsuf 0) as [Hc0 Hi0]; [simpl; lia|]. cbn [nth] in Hc0. rewrite Nat.add_0_r in *.
      assert (Hstep : forall k v sp' out' left',
                (is_str (ckey c) k = true \/ is_col i k = true) ->
                In (k, v) sp -> Permutation sp ((k, v) :: sp') -> incl sp' sp ->
                asm_cols cs (S i) sp' = (out', left') ->
                Permutation (map A ((LName (cname c), v) :: out') ++ map R left') (map R sp) /\
                incl left' sp /\
                (forall k0 v0, In (k0, v0) left' ->
                   forall j, j < length (c :: cs) ->
                     (is_str (ckey (nth j (c :: cs) dflt_col)) k0 = true \/ is_col (i + j) k0 = true) ->
                     exists v', In (LName (cname (nth j (c :: cs) dflt_col)), v') ((LName (cname c), v) :: out'))).
      { intros k v sp' out' left' Hk Hin HP Hincl Hrec.
        destruct (IH (S i) sp' out' left' Hsuf' Hrec) as (P1 & I1 & C1).
        split; [|split].
        - cbn [map app]. rewrite Hc0 at 1. rewrite (popped_denotes i k v Hi0) by (rewrite <- Hc0; exact Hk).
          eapply perm_trans; [apply perm_skip; exact P1|].
          change (R (k, v) :: map R sp') with (map R ((k, v) :: sp')).
          apply Permutation_map. apply Permutation_sym. exact HP.
        - eapply incl_tran; eassumption.
        - intros k0 v0 Hin0 j Hj Hk0. destruct j as [|j].
          + exists v. left. reflexivity.
          + cbn [nth]. destruct (C1 k0 v0 Hin0 j) as [v' Hv'].
            * simpl in Hj. lia.
            * replace (S i + j) with (i + S j) by lia. exact Hk0.
            * exists v'. right. exact Hv'. }
      destruct (pop_key (is_str (ckey c)) sp) as [[v sp']|] eqn:E1.
      + destruct (asm_cols cs (S i) sp') as [out' left'] eqn:Er. injection H as <- <-.
        destruct (pop_key_some _ _ _ _ E1) as (k & Hf & Hin & HP & Hincl).
        eapply Hstep; eauto.
      + destruct (pop_key (is_col i) sp) as [[v sp']|] eqn:E2.
        * destruct (asm_cols cs (S i) sp') as [out' left'] eqn:Er. injection H as <- <-.
          destruct (pop_key_some _ _ _ _ E2) as (k & Hf & Hin & HP & Hincl).
          eapply Hstep; eauto.
        * destruct (IH (S i) sp out left Hsuf' H) as (P1 & I1 & C1).
          split; [exact P1|]. split; [exact I1|].
          intros k0 v0 Hin0 j Hj Hk0. destruct j as [|j].
          -- exfalso. cbn [nth] in Hk0. rewrite Nat.add_0_r in Hk0.
             pose proof (pop_key_none _ _ E1 k0 v0 (I1 _ Hin0)) as N1.
             pose proof (pop_key_none _ _ E2 k0 v0 (I1 _ Hin0)) as N2.
             destruct Hk0; congruence.
          -- cbn [nth]. apply (C1 k0 v0 Hin0 j); [simpl in Hj; lia|].
             replace (S i + j) with (i + S j) by lia. exact Hk0.
  Qed.

  Lemma suffix_all : suffix_at cols 0.
  Proof. intros j Hj. split; [reflexivity|exact Hj]. Qed.

  Lemma A_name_fst : forall j v x, j < n -> A (LName (cname (nth j cols dflt_col)), v) = Some x -> fst x = j.
  Proof.
    intros j v x Hj H. unfold A in H. cbn [fst snd lhs_idx] in H. fold (col_name cols j) in H.
    rewrite name_idx_nth in H by (apply Hwf || assumption). unfold set_item in H.
    destruct (expr_ok n v); [|discriminate]. injection H as <-. reflexivity.
  Qed.

  Theorem asm_sets_perm : forall set_ l,
    spec_sets cols set_ = Some l -> NoDup (map fst l) ->
    exists l', abs_sets cols (asm_sets cols set_) = Some l' /\ Permutation l' l.
  Proof.
    intros set_ l Hs Hnd. unfold asm_sets.
    destruct (asm_cols cols 0 set_) as [out left] eqn:Ea.
    destruct (asm_cols_spec cols 0 set_ out left suffix_all Ea) as (P1 & I1 & C1).
    change (spec_sets cols set_) with (sequence (map R set_)) in Hs.
    destruct (seq_perm _ _ (Permutation_sym P1) l Hs) as (l1 & Hl1 & Pl1).
    assert (Hnd1 : NoDup (map fst l1)).
    { eapply Permutation_NoDup; [apply Permutation_map; exact Pl1|exact Hnd]. }
    apply seq_app in Hl1. destruct Hl1 as (la & lb & Hla & Hlb & ->).
    assert (Hleft : map A (leftover cols left) = map R left).
    { unfold leftover. rewrite map_map. apply seq_map_ext. intros [k v] Hin. cbn [fst snd].
      destruct (seq_all_some _ _ (R (k, v)) Hlb (in_map R _ _ Hin)) as [[j e] Hr].
      assert (Hjb : In j (map fst lb)).
      { apply (in_map fst lb (j, e)). eapply seq_in; [exact Hlb|]. rewrite <- Hr. apply in_map. exact Hin. }
      (* a left-over entry that denotes a column the loop visited would denote it twice *)
      assert (Hcontra : forall jj, jj < n ->
                (is_str (ckey (nth jj cols dflt_col)) k = true \/ is_col jj k = true) -> j = jj -> False).
      { intros jj Hjj Hk ->. destruct (C1 k v Hin jj Hjj Hk) as [v' Hv'].
        destruct (seq_all_some _ _ _ Hla (in_map A _ _ Hv')) as [x Hx].
        pose proof (A_name_fst jj v' x Hjj Hx) as Hfx.
        assert (In jj (map fst la)).
        { rewrite <- Hfx. apply in_map. eapply seq_in; [exact Hla|]. rewrite <- Hx. apply in_map. exact Hv'. }
        rewrite map_app in Hnd1. apply NoDup_remove_2 with (a := jj) (l := map fst la) (l' := []) in Hnd1 || idtac.
        clear - H Hjb Hnd1. induction (map fst la) as [|a m IHm]; [destruct H|].
        cbn [app] in Hnd1. inversion Hnd1 as [|? ? Hnin Hnd']; subst.
        destruct H as [->|H]; [apply Hnin; apply in_or_app; right; exact Hjb|auto]. }
      unfold R in Hr. cbn [fst snd] in Hr. unfold A, R. cbn [fst snd].
      destruct k as [s|i]; cbn [key_col lhs_idx] in *.
      - destruct (key_idx cols s) as [jj|] eqn:Ek; [|reflexivity].
        exfalso. destruct (key_idx_some _ _ _ Ek) as [Hjj Hkey].
        unfold set_item in Hr. destruct (expr_ok n v); [|discriminate]. injection Hr as <- _.
        apply (Hcontra jj Hjj); [left; cbn [is_str]; rewrite Hkey; apply Z.eqb_refl|reflexivity].
      - fold n in Hr. destruct (Nat.ltb i n) eqn:Ei; [|discriminate Hr].
        exfalso. apply Nat.ltb_lt in Ei.
        unfold set_item in Hr. destruct (expr_ok n v); [|discriminate]. injection Hr as <- _.
        apply (Hcontra i Ei); [right; cbn [is_col]; apply Nat.eqb_refl|reflexivity]. }
    exists (la ++ lb). split; [|apply Permutation_sym; exact Pl1].
    unfold abs_sets. change (fun kv => set_item (length cols) (lhs_idx cols (fst kv)) (snd kv)) with A.
    rewrite map_app, Hleft. apply seq_app. exists la, lb. auto.
  Qed.

  (* ---- targets and whole clauses ---- *)
  Lemma asm_target_abs : forall t tg,
    spec_target cols t = Some tg -> abs_target cols (asm_target cols t) = Some tg.
  Proof.
    intros [|e w|nm] tg H; cbn [spec_target asm_target abs_target] in *; try exact H.
    rewrite map_map.
    assert (Hm : forall l, sequence (map (telem_col cols) e) = Some l ->
                 map (fun x => name_idx cols match x with TEStr s => s | TECol i => col_name cols i end) e
                 = map (telem_col cols) e).
    { intros l Hl. apply seq_map_ext. intros x Hx.
      destruct (seq_all_some _ _ _ Hl (in_map (telem_col cols) _ _ Hx)) as [j Hj].
      destruct x as [s|i]; cbn [telem_col] in *; [reflexivity|].
      destruct (Nat.ltb i (length cols)) eqn:Ei; [|discriminate].
      apply Nat.ltb_lt in Ei. apply name_idx_nth; [apply Hwf|exact Ei]. }
    destruct (sequence (map (telem_col cols) e)) as [l|] eqn:El; [|discriminate H].
    rewrite (Hm l eq_refl), El. exact H.
  Qed.

  Theorem asm_clause_perm : forall c cl,
    spec_clause cols c = Some cl -> sets_nodup cl ->
    exists cl', abs_clause cols (asm_clause cols c) = Some cl' /\ clause_perm cl' cl.
  Proof.
    intros [t|t s w] cl H Hnd; cbn [spec_clause asm_clause abs_clause] in *.
    - destruct (spec_target cols t) as [tg|] eqn:Et; [|discriminate]. injection H as <-.
      rewrite (asm_target_abs t tg Et). exists (tg, DoNothing). split; [reflexivity|].
      split; [reflexivity|exact I].
    - apply mk_update_some in H. destruct H as (tg & l & Et & Es & Hne & Hw & ->).
      rewrite (asm_target_abs t tg Et).
      unfold sets_nodup in Hnd. cbn [snd] in Hnd.
      destruct (asm_sets_perm s l Es Hnd) as (l' & Hl' & HP).
      rewrite Hl'. unfold mk_update.
      assert (Hl'ne : is_nil l' = false).
      { destruct l'; [|reflexivity]. apply Permutation_nil in HP. congruence. }
      rewrite Hl'ne, Hw. cbn [negb andb]. eexists. split; [reflexivity|].
      split; [reflexivity|]. cbn [snd]. split; [exact HP|reflexivity].
  Qed.

  Theorem asm_clauses_perm : forall sa cls,
    spec_of cols sa = Some cls -> Forall sets_nodup cls ->
    exists cls', abs_clauses cols (map (asm_clause cols) sa) = Some cls' /\ Forall2 clause_perm cls' cls.
  Proof.
    induction sa as [|c sa IH]; intros cls H Hnd.
    - simpl in H. injection H as <-. exists []. split; [reflexivity|constructor].
    - unfold spec_of in H. cbn [map sequence] in H.
      destruct (spec_clause cols c) as [cl|] eqn:Ec; [|discriminate].
      fold (spec_of cols sa) in H. destruct (spec_of cols sa) as [cls0|] eqn:Es; [|discriminate].
      injection H as <-. inversion Hnd as [|? ? Hn1 Hn2]; subst.
      destruct (asm_clause_perm c cl Ec Hn1) as (cl' & Hc' & Hp).
      destruct (IH cls0 eq_refl Hn2) as (cls' & Hcs' & Hps).
      exists (cl' :: cls'). split; [|constructor; assumption].
      unfold abs_clauses in *. cbn [map sequence]. rewrite Hc', Hcs'. reflexivity.
  Qed.
End Asm.
